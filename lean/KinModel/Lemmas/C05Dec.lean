/-
Helper lemmas for C05 (primitive layer): decimal text of an integer parses back, both with the
specification's base-ten reader and with the model of strconv.ParseInt(s, 0, bits). Core only.
-/
import KinModel.Style
namespace KinModel.Style

theorem digitVal_digitChar (d : Nat) (h : d < 10) : digitVal (digitChar d) = some d := by
  have : d = 0 ∨ d = 1 ∨ d = 2 ∨ d = 3 ∨ d = 4 ∨ d = 5 ∨ d = 6 ∨ d = 7 ∨ d = 8 ∨ d = 9 := by omega
  rcases this with rfl | rfl | rfl | rfl | rfl | rfl | rfl | rfl | rfl | rfl <;> decide

theorem digitValB_digitChar (d : Nat) (h : d < 10) : digitValB (digitChar d) = some d := by
  have : d = 0 ∨ d = 1 ∨ d = 2 ∨ d = 3 ∨ d = 4 ∨ d = 5 ∨ d = 6 ∨ d = 7 ∨ d = 8 ∨ d = 9 := by omega
  rcases this with rfl | rfl | rfl | rfl | rfl | rfl | rfl | rfl | rfl | rfl <;> decide

/-- a string made of decimal digit characters -/
def AllDigits (s : Str) : Prop := ∀ c ∈ s, ∃ d, d < 10 ∧ c = digitChar d

theorem showNatAux_digits : ∀ (fuel n : Nat) (acc : Str), AllDigits acc → AllDigits (showNatAux fuel n acc)
  | 0, _, _, h => by simpa [showNatAux] using h
  | fuel + 1, n, acc, h => by
    simp only [showNatAux]
    split
    · intro c hc
      rcases List.mem_cons.mp hc with rfl | hc
      · exact ⟨n, by omega, rfl⟩
      · exact h c hc
    · apply showNatAux_digits
      intro c hc
      rcases List.mem_cons.mp hc with rfl | hc
      · exact ⟨n % 10, Nat.mod_lt _ (by omega), rfl⟩
      · exact h c hc

theorem showNat_digits (n : Nat) : AllDigits (showNat n) :=
  showNatAux_digits _ _ _ (by intro c hc; simp at hc)

theorem readNatAux_append (xs ys : Str) (acc : Nat) :
    readNatAux (xs ++ ys) acc = (readNatAux xs acc).bind (fun a => readNatAux ys a) := by
  induction xs generalizing acc with
  | nil => simp [readNatAux]
  | cons c cs ih =>
    simp only [List.cons_append, readNatAux]
    cases digitVal c with
    | none => simp
    | some d => simp [ih]

theorem showNatAux_length : ∀ (f m : Nat) (acc : Str), (showNatAux f m acc).length = (showNatAux f m []).length + acc.length := by
  intro f
  induction f with
  | zero => intro m acc; simp [showNatAux]
  | succ f ih =>
    intro m acc
    simp only [showNatAux]
    split
    · simp; omega
    · rw [ih (m / 10) (digitChar (m % 10) :: acc), ih (m / 10) [digitChar (m % 10)]]; simp; omega

theorem read_showAux : ∀ (fuel n : Nat) (acc : Str) (a0 : Nat), n < fuel →
    readNatAux (showNatAux fuel n acc) a0 = readNatAux acc (a0 * 10 ^ (showNatAux fuel n []).length + n)
  | 0, _, _, _, h => by omega
  | fuel + 1, n, acc, a0, h => by
    by_cases hn : n < 10
    · simp [showNatAux, hn, readNatAux, digitVal_digitChar n hn]
    · have hlt : n / 10 < fuel := by omega
      have ih1 := read_showAux fuel (n / 10) (digitChar (n % 10) :: acc) a0 hlt
      have hlen : (showNatAux fuel (n / 10) [digitChar (n % 10)]).length = (showNatAux fuel (n / 10) []).length + 1 := by
        simpa using showNatAux_length fuel (n / 10) [digitChar (n % 10)]
      simp only [showNatAux, hn, if_false]
      rw [ih1]
      simp only [readNatAux, digitVal_digitChar (n % 10) (Nat.mod_lt _ (by omega))]
      rw [hlen]
      congr 1
      have e : a0 * 10 ^ ((showNatAux fuel (n / 10) []).length + 1) = (a0 * 10 ^ (showNatAux fuel (n / 10) []).length) * 10 := by
        rw [Nat.pow_succ, Nat.mul_assoc]
      rw [e]
      generalize a0 * 10 ^ (showNatAux fuel (n / 10) []).length = X
      omega

/-- the first character of `showNatAux` for n > 0 is a non-zero digit -/
theorem showNatAux_head : ∀ (fuel n : Nat) (acc : Str), 0 < n → n < fuel →
    ∃ d rest, 1 ≤ d ∧ d < 10 ∧ showNatAux fuel n acc = digitChar d :: rest
  | 0, _, _, _, h => by omega
  | fuel + 1, n, acc, hp, h => by
    simp only [showNatAux]
    split
    · exact ⟨n, acc, by omega, by omega, rfl⟩
    · exact showNatAux_head fuel (n / 10) _ (by omega) (by omega)

theorem showNat_zero : showNat 0 = ['0'] := by decide

theorem showNat_head (n : Nat) (hp : 0 < n) : ∃ d rest, 1 ≤ d ∧ d < 10 ∧ showNat n = digitChar d :: rest :=
  showNatAux_head (n + 1) n [] hp (by omega)

theorem showNat_ne_nil (n : Nat) : showNat n ≠ [] := by
  by_cases h : n = 0
  · subst h; rw [showNat_zero]; simp
  · obtain ⟨d, rest, _, _, e⟩ := showNat_head n (by omega)
    rw [e]; simp

/-- the decimal text of a number parses back to the number -/
theorem readNat_showNat (n : Nat) : readNat (showNat n) = some n := by
  have h := read_showAux (n + 1) n [] 0 (by omega)
  simp [readNatAux] at h
  unfold readNat
  cases hs : showNat n with
  | nil => exact absurd hs (showNat_ne_nil n)
  | cons c cs => simp only []; rw [← hs]; exact h

theorem readBase10_digits (s : Str) (h : AllDigits s) (acc : Nat) : readBase 10 s acc = readNatAux s acc := by
  induction s generalizing acc with
  | nil => rfl
  | cons c cs ih =>
    obtain ⟨d, hd, rfl⟩ := h c (by simp)
    have hcs : AllDigits cs := fun x hx => h x (by simp [hx])
    simp [readBase, readNatAux, digitValB_digitChar d hd, digitVal_digitChar d hd, hd, ih hcs]

theorem digitChar_ne (d : Nat) (h1 : 1 ≤ d) (h : d < 10) : digitChar d ≠ '0' ∧ digitChar d ≠ '+' ∧ digitChar d ≠ '-' := by
  have : d = 1 ∨ d = 2 ∨ d = 3 ∨ d = 4 ∨ d = 5 ∨ d = 6 ∨ d = 7 ∨ d = 8 ∨ d = 9 := by omega
  rcases this with rfl | rfl | rfl | rfl | rfl | rfl | rfl | rfl | rfl <;> decide

theorem showNat_head_ne_sign (n : Nat) : ∃ c rest, showNat n = c :: rest ∧ c ≠ '+' ∧ c ≠ '-' := by
  by_cases h : n = 0
  · subst h; exact ⟨'0', [], showNat_zero, by decide, by decide⟩
  · obtain ⟨d, rest, h1, h2, e⟩ := showNat_head n (by omega)
    exact ⟨_, rest, e, (digitChar_ne d h1 h2).2.1, (digitChar_ne d h1 h2).2.2⟩

theorem readDecInt_unsigned (bits : Nat) (c : Char) (cs : Str) (h1 : c ≠ '+') (h2 : c ≠ '-') :
    readDecInt bits (c :: cs) = match readNat (c :: cs) with
      | none => none
      | some n => if n < 2 ^ (bits - 1) then some (Int.ofNat n) else none := by
  unfold readDecInt
  split <;> first | rfl | simp_all

/-- the specification's base-ten reader on the canonical text -/
theorem readDecInt_showInt (bits : Nat) (i : Int) (hlo : -(2 ^ (bits - 1) : Int) ≤ i) (hhi : i < (2 ^ (bits - 1) : Int)) :
    readDecInt bits (showInt i) = some i := by
  cases i with
  | ofNat n =>
    obtain ⟨c, rest, e, h1, h2⟩ := showNat_head_ne_sign n
    have hp := readNat_showNat n
    have hn : n < 2 ^ (bits - 1) := by
      have : (Int.ofNat n) < ((2 ^ (bits - 1) : Nat) : Int) := by simpa using hhi
      exact Int.ofNat_lt.mp this
    simp only [showInt]
    rw [e] at hp ⊢
    rw [readDecInt_unsigned bits c rest h1 h2, hp]
    simp [hn]
  | negSucc n =>
    have hp := readNat_showNat (n + 1)
    have hn : n + 1 ≤ 2 ^ (bits - 1) := by
      have : -((2 ^ (bits - 1) : Nat) : Int) ≤ Int.negSucc n := by simpa using hlo
      omega
    simp only [showInt, readDecInt, hp]
    simp [hn, Int.negSucc_eq]

/-- the canonical integer text contains none of the style delimiters -/
theorem showNat_free (n : Nat) (c : Char) (hc : ∀ d, d < 10 → c ≠ digitChar d) : c ∉ showNat n := by
  intro hmem
  obtain ⟨d, hd, e⟩ := showNat_digits n c hmem
  exact hc d hd e

theorem showInt_ne_nil (i : Int) : showInt i ≠ [] := by
  cases i with
  | ofNat n => simpa [showInt] using showNat_ne_nil n
  | negSucc n => simp [showInt]


theorem digit_char_agree (c : Char) :
    (match digitValB c with | none => none | some d => if d < 10 then some d else none) = digitVal c := by
  unfold digitValB digitVal
  by_cases h1 : 48 ≤ c.toNat ∧ c.toNat ≤ 57
  · have : c.toNat - 48 < 10 := by omega
    simp [h1, this]
  · by_cases h2 : 97 ≤ c.toNat ∧ c.toNat ≤ 122
    · simp [h1, h2]
    · by_cases h3 : 65 ≤ c.toNat ∧ c.toNat ≤ 90
      · simp [h1, h2, h3]
      · simp [h1, h2, h3]

theorem readBase10_eq (s : Str) (acc : Nat) : readBase 10 s acc = readNatAux s acc := by
  induction s generalizing acc with
  | nil => rfl
  | cons c cs ih =>
    have h := digit_char_agree c
    simp only [readBase, readNatAux]
    cases hb : digitValB c with
    | none => simp [hb] at h; simp [← h]
    | some d =>
      simp only [hb] at h
      by_cases hd : d < 10
      · simp [hd] at h; simp [hd, ← h, ih]
      · simp [hd] at h; simp [hd, ← h]


theorem parseUint10_eq_readNat (s : Str) : parseUint10 s = readNat s := by
  cases s with
  | nil => rfl
  | cons c cs => simp [parseUint10, readNat, readBase10_eq]

theorem parseInt10_unsigned (bits : Nat) (c : Char) (cs : Str) (h1 : c ≠ '+') (h2 : c ≠ '-') :
    parseInt10 bits (c :: cs) = match parseUint10 (c :: cs) with
      | none => none
      | some n => if n < 2 ^ (bits - 1) then some (Int.ofNat n) else none := by
  unfold parseInt10
  split <;> first | rfl | simp_all

/-- the model of strconv.ParseInt(·, 10, bits) is the specification's base-ten reader, on every text -/
theorem parseInt10_eq_readDecInt (bits : Nat) (s : Str) : parseInt10 bits s = readDecInt bits s := by
  cases s with
  | nil => rfl
  | cons c r =>
    by_cases h1 : c = '+'
    · subst h1; simp [parseInt10, readDecInt, parseUint10_eq_readNat]
    · by_cases h2 : c = '-'
      · subst h2; simp [parseInt10, readDecInt, parseUint10_eq_readNat]
      · rw [parseInt10_unsigned bits c r h1 h2, readDecInt_unsigned bits c r h1 h2, parseUint10_eq_readNat]

/-- strconv.ParseInt(strconv.FormatInt(i, 10), 10, bits) = i for every i of that width -/
theorem parseInt10_showInt (bits : Nat) (i : Int) (hlo : -(2 ^ (bits - 1) : Int) ≤ i) (hhi : i < (2 ^ (bits - 1) : Int)) :
    parseInt10 bits (showInt i) = some i := by
  rw [parseInt10_eq_readDecInt]; exact readDecInt_showInt bits i hlo hhi

theorem showInt_free (i : Int) (c : Char) (hm : c ≠ '-') (hc : ∀ d, d < 10 → c ≠ digitChar d) : c ∉ showInt i := by
  cases i with
  | ofNat n => simpa [showInt] using showNat_free n c hc
  | negSucc n =>
    simp only [showInt, List.mem_cons, not_or]
    exact ⟨hm, showNat_free (n + 1) c hc⟩

theorem comma_not_digit : ∀ d, d < 10 → ',' ≠ digitChar d := by
  intro d hd
  have : d = 0 ∨ d = 1 ∨ d = 2 ∨ d = 3 ∨ d = 4 ∨ d = 5 ∨ d = 6 ∨ d = 7 ∨ d = 8 ∨ d = 9 := by omega
  rcases this with rfl | rfl | rfl | rfl | rfl | rfl | rfl | rfl | rfl | rfl <;> decide

end KinModel.Style
