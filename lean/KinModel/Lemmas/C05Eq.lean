/-
Helper lemmas for C05 (code = specification layer): every value a decoder returns carries the Go dynamic type of
the schema it was read with (`tagOK`), and on such values the code's Go-type sensitive enum comparison is JSON
equality unless the schema is in the class EnumGoType. Core only.
-/
import KinModel.Lemmas.C05Cells
import KinModel.Lemmas.C05Dec
namespace KinModel.Style

/-- the Go dynamic type parsePrimitive produces for a declared primitive type -/
def tagOK : PT → PV → Bool
  | .integer, .int _ => true
  | .int32, .int32 _ => true
  | .number, .num _ _ => true
  | .boolean, .bool _ => true
  | .string, .str _ => true
  | _, _ => false

theorem parsePrim_tag (t : PT) (s : Str) (v : PV) (h : parsePrim t s = .val v) : tagOK t v = true := by
  unfold parsePrim at h
  split at h
  · cases h
  · cases t <;> simp only [optPR] at h
    · cases hp : parseInt10 64 s <;> simp [hp] at h; subst h; rfl
    · cases hp : parseInt10 32 s <;> simp [hp] at h; subst h; rfl
    · cases hp : parseDec s <;> simp [hp] at h; subst h; rfl
    · cases hp : parseBoolText s <;> simp [hp] at h; subst h; rfl
    · cases h; rfl

theorem specPrim_eq_parsePrim : specPrim = parsePrim := by
  funext t s
  unfold parsePrim specPrim
  cases t <;> simp [parseInt10_eq_readDecInt]

/-- one primitive schema outside EnumGoType: both enum comparisons give the same verdict on a value of its type -/
theorem visitPS_eq_of_tag (ps : PS) (v : PV) (hg : psEnumInt32 ps = false) (ht : tagOK ps.t v = true) :
    visitPS enumHitImpl ps v = visitPS enumHitSpec ps v := by
  by_cases he : ps.enum = []
  · simp [visitPS, he]
  · have hne : ps.enum.isEmpty = false := by
      cases h : ps.enum with
      | nil => exact absurd h he
      | cons a b => rfl
    have ht32 : ps.t ≠ .int32 := by
      intro e
      simp [psEnumInt32, hne, e] at hg
    have : ∀ e, enumHitImpl e v = enumHitSpec e v := by
      intro e
      cases e <;> cases v <;> simp_all [enumHitImpl, enumHitSpec, tagOK]
      all_goals (cases hps : ps.t <;> simp_all [tagOK])
    simp [visitPS, this]

theorem arCons_vals (v : PV) (ar : AR) (xs : List PV) (h : arCons v ar = .vals xs) : ∃ ys, ar = .vals ys ∧ xs = v :: ys := by
  cases ar with
  | nil => simp [arCons] at h
  | err => simp [arCons] at h
  | vals ys => simp [arCons] at h; exact ⟨ys, rfl, h.symm⟩

theorem parseArr_tags (t : PT) : ∀ (l : List Str) (xs : List PV), parseArr parsePrim t l = .vals xs → ∀ x ∈ xs, tagOK t x = true
  | [], xs, h, x, hx => by simp [parseArr] at h; subst h; simp at hx
  | s :: rest, xs, h, x, hx => by
    simp only [parseArr] at h
    cases hp : parsePrim t s with
    | err => simp [hp] at h
    | nil => simp [hp] at h
    | val v =>
      simp only [hp] at h
      obtain ⟨ys, hys, rfl⟩ := arCons_vals v _ xs h
      rcases List.mem_cons.mp hx with rfl | hx
      · exact parsePrim_tag t s _ hp
      · exact parseArr_tags t rest ys hys x hx

theorem listEq_eq_of_tags (t : PT) (hni : psIsInt { t := t } = false) :
    ∀ (es : List EV) (xs : List PV), (∀ x ∈ xs, tagOK t x = true) → listEq deepEqImpl es xs = listEq enumHitSpec es xs
  | [], [], _ => rfl
  | [], _ :: _, _ => rfl
  | _ :: _, [], _ => rfl
  | e :: es, x :: xs, h => by
    have hx := h x (by simp)
    have : deepEqImpl e x = enumHitSpec e x := by
      cases e <;> cases x <;> simp_all [deepEqImpl, enumHitSpec, tagOK, psIsInt]
      all_goals (cases t <;> simp_all [tagOK])
    simp [listEq, this, listEq_eq_of_tags t hni es xs (fun y hy => h y (by simp [hy]))]

/-! ### flat objects: every decoded pair is typed by the schema that `lookup` finds for its key -/

theorem lookup_of_mem_nodup {β : Type} (k : Str) (x : β) :
    ∀ (l : List (Str × β)), (l.map Prod.fst).Nodup → (k, x) ∈ l → l.lookup k = some x
  | [], _, h => by simp at h
  | (k', y) :: rest, hnd, h => by
    have hnd' : k' ∉ rest.map Prod.fst ∧ (rest.map Prod.fst).Nodup := by
      have : (k' :: rest.map Prod.fst).Nodup := hnd
      exact List.nodup_cons.mp this
    rcases List.mem_cons.mp h with e | h2
    · cases e; simp [List.lookup]
    · have hne : k ≠ k' := by
        intro e
        apply hnd'.1
        rw [← e]
        exact List.mem_map.mpr ⟨(k, x), h2, rfl⟩
      have : (k == k') = false := by simpa using hne
      simp [List.lookup, this, lookup_of_mem_nodup k x rest hnd'.2 h2]

theorem hasKey_of_mem {β : Type} (k : Str) (x : β) (l : List (Str × β)) (h : (k, x) ∈ l) : hasKey k l = true := by
  simp only [hasKey, List.any_eq_true]
  exact ⟨(k, x), h, by simp⟩

theorem buildProps_mem (props : List (Str × Str)) :
    ∀ (sprops : List (Str × PS)) (res : List (Str × PV)), buildProps parsePrim props sprops = some res →
      ∀ kv ∈ res, ∃ ps, (kv.1, ps) ∈ sprops ∧ tagOK ps.t kv.2 = true
  | [], res, h, kv, hkv => by simp [buildProps] at h; subst h; simp at hkv
  | (k, ps) :: rest, res, h, kv, hkv => by
    have ih := buildProps_mem props rest
    simp only [buildProps] at h
    cases hl : lookupLast k props with
    | none =>
      simp only [hl] at h
      obtain ⟨ps', h1, h2⟩ := ih res h kv hkv
      exact ⟨ps', List.mem_cons_of_mem _ h1, h2⟩
    | some s =>
      simp only [hl] at h
      cases hp : parsePrim ps.t s with
      | err => simp [hp] at h
      | nil =>
        simp only [hp] at h
        obtain ⟨ps', h1, h2⟩ := ih res h kv hkv
        exact ⟨ps', List.mem_cons_of_mem _ h1, h2⟩
      | val v =>
        simp only [hp] at h
        cases hb : buildProps parsePrim props rest with
        | none => simp [hb] at h
        | some r =>
          simp [hb] at h; subst h
          rcases List.mem_cons.mp hkv with e | hkv
          · subst e; exact ⟨ps, by simp, parsePrim_tag _ _ _ hp⟩
          · obtain ⟨ps', h1, h2⟩ := ih r hb kv hkv
            exact ⟨ps', List.mem_cons_of_mem _ h1, h2⟩

theorem buildAddl_mem (props : List (Str × Str)) (a : PS) :
    ∀ (ks : List Str) (res : List (Str × PV)), buildAddl parsePrim props a ks = some res →
      ∀ kv ∈ res, kv.1 ∈ ks ∧ tagOK a.t kv.2 = true
  | [], res, h, kv, hkv => by simp [buildAddl] at h; subst h; simp at hkv
  | k :: rest, res, h, kv, hkv => by
    have ih := buildAddl_mem props a rest
    simp only [buildAddl] at h
    cases hl : lookupLast k props with
    | none =>
      simp only [hl] at h
      obtain ⟨h1, h2⟩ := ih res h kv hkv
      exact ⟨List.mem_cons_of_mem _ h1, h2⟩
    | some s =>
      simp only [hl] at h
      by_cases hk : k = []
      · simp [hk] at h
      · simp only [hk, if_false] at h
        cases hp : parsePrim a.t s with
        | err => simp [hp] at h
        | nil =>
          simp only [hp] at h
          obtain ⟨h1, h2⟩ := ih res h kv hkv
          exact ⟨List.mem_cons_of_mem _ h1, h2⟩
        | val v =>
          simp only [hp] at h
          cases hb : buildAddl parsePrim props a rest with
          | none => simp [hb] at h
          | some r =>
            simp [hb] at h; subst h
            rcases List.mem_cons.mp hkv with e | hkv
            · subst e; exact ⟨by simp, parsePrim_tag _ _ _ hp⟩
            · obtain ⟨h1, h2⟩ := ih r hb kv hkv
              exact ⟨List.mem_cons_of_mem _ h1, h2⟩

/-- what `visitLeaf` needs of a decoded flat object -/
def TypedKVs (sprops : List (Str × PS)) (addl : Option PS) (kvs : List (Str × PV)) : Prop :=
  ∀ kv ∈ kvs, match sprops.lookup kv.1 with
    | some ps => tagOK ps.t kv.2 = true
    | none => match addl with
      | some a => tagOK a.t kv.2 = true
      | none => False      -- a key that is neither declared nor covered by additionalProperties is never in the result

theorem makeObject_typed (props : List (Str × Str)) (sprops : List (Str × PS)) (addl : Option PS) (res : List (Str × PV))
    (hnd : (sprops.map Prod.fst).Nodup) (h : makeObject parsePrim props sprops addl = some res) :
    TypedKVs sprops addl res := by
  unfold makeObject at h
  cases hb : buildProps parsePrim props sprops with
  | none => simp [hb] at h
  | some base =>
    simp only [hb] at h
    have hbase : ∀ kv ∈ base, ∃ ps, sprops.lookup kv.1 = some ps ∧ tagOK ps.t kv.2 = true := by
      intro kv hkv
      obtain ⟨ps, h1, h2⟩ := buildProps_mem props sprops base hb kv hkv
      exact ⟨ps, lookup_of_mem_nodup kv.1 ps sprops hnd h1, h2⟩
    cases addl with
    | none =>
      simp at h; subst h
      intro kv hkv
      obtain ⟨ps, h1, h2⟩ := hbase kv hkv
      simp [h1, h2]
    | some a =>
      simp only at h
      cases he : buildAddl parsePrim props a ((dedup (props.map Prod.fst)).filter (fun k => !hasKey k sprops)) with
      | none => simp [he] at h
      | some extra =>
        simp [he] at h; subst h
        intro kv hkv
        rcases List.mem_append.mp hkv with hkv | hkv
        · obtain ⟨ps, h1, h2⟩ := hbase kv hkv
          simp [h1, h2]
        · obtain ⟨h1, h2⟩ := buildAddl_mem props a _ extra he kv hkv
          have hnk : hasKey kv.1 sprops = false := by
            have := (List.mem_filter.mp h1).2
            simpa using this
          simp [lookup_none_of_not_hasKey kv.1 sprops hnk, h2]

/-! ### deepObject values -/

def TypedDV : DS → DV → Prop
  | .prim ps, .p v => tagOK ps.t v = true
  | .arr items, .a xs => ∀ x ∈ xs, ∀ v, x = some v → tagOK items.t v = true
  | .obj sub _, .o kvs => ∀ kv ∈ kvs, ∃ ps, (kv.1, ps) ∈ sub ∧ tagOK ps.t kv.2 = true
  | _, _ => True

theorem deepItems_typed (t : PT) (ents : List (Nat × Str)) :
    ∀ (n i : Nat) (xs : List (Option PV)), deepItems parsePrim t ents n i = some xs →
      ∀ x ∈ xs, ∀ v, x = some v → tagOK t v = true
  | 0, _, xs, h, x, hx, _, _ => by simp [deepItems] at h; subst h; simp at hx
  | n + 1, i, xs, h, x, hx, v, hv => by
    have ih := deepItems_typed t ents n (i + 1)
    simp only [deepItems] at h
    cases hl : idxLookup i ents with
    | none =>
      simp only [hl] at h
      cases hr : deepItems parsePrim t ents n (i + 1) with
      | none => simp [hr] at h
      | some r =>
        simp [hr] at h; subst h
        rcases List.mem_cons.mp hx with e | hx
        · subst e; cases hv
        · exact ih r hr x hx v hv
    | some s =>
      simp only [hl] at h
      cases hp : parsePrim t s with
      | err => simp [hp] at h
      | nil =>
        simp only [hp] at h
        cases hr : deepItems parsePrim t ents n (i + 1) with
        | none => simp [hr] at h
        | some r =>
          simp [hr] at h; subst h
          rcases List.mem_cons.mp hx with e | hx
          · subst e; cases hv
          · exact ih r hr x hx v hv
      | val w =>
        simp only [hp] at h
        cases hr : deepItems parsePrim t ents n (i + 1) with
        | none => simp [hr] at h
        | some r =>
          simp [hr] at h; subst h
          rcases List.mem_cons.mp hx with e | hx
          · subst e; cases hv; exact parsePrim_tag _ _ _ hp
          · exact ih r hr x hx v hv

theorem buildSub_mem (ents : List (List Str × List Str)) :
    ∀ (sub : List (Str × PS)) (res : List (Str × PV)), buildSub parsePrim ents sub = some res →
      ∀ kv ∈ res, ∃ ps, (kv.1, ps) ∈ sub ∧ tagOK ps.t kv.2 = true
  | [], res, h, kv, hkv => by simp [buildSub] at h; subst h; simp at hkv
  | (k, ps) :: rest, res, h, kv, hkv => by
    have ih := buildSub_mem ents rest
    have lift : ∀ r, buildSub parsePrim ents rest = some r → kv ∈ r → ∃ ps', (kv.1, ps') ∈ (k, ps) :: rest ∧ tagOK ps'.t kv.2 = true := by
      intro r hr hm
      obtain ⟨ps', h1, h2⟩ := ih r hr kv hm
      exact ⟨ps', List.mem_cons_of_mem _ h1, h2⟩
    simp only [buildSub] at h
    split at h
    · cases h
    · split at h
      · next s hs =>
        cases hp : parsePrim ps.t s with
        | err => simp [hp] at h
        | nil => simp only [hp] at h; exact lift res h hkv
        | val v =>
          simp only [hp] at h
          cases hb : buildSub parsePrim ents rest with
          | none => simp [hb] at h
          | some r =>
            simp [hb] at h; subst h
            rcases List.mem_cons.mp hkv with e | hkv
            · subst e; exact ⟨ps, by simp, parsePrim_tag _ _ _ hp⟩
            · exact lift r hb hkv
      · cases h
      · exact lift res h hkv

theorem deepProp_typed (props : List (List Str × List Str)) (k : Str) (ds : DS) (dv : DV)
    (h : deepProp parsePrim props k ds = some (some dv)) : TypedDV ds dv := by
  cases ds with
  | prim ps =>
    simp only [deepProp] at h
    split at h
    · cases h
    · split at h
      · next s hs =>
        cases hp : parsePrim ps.t s with
        | err => simp [hp] at h
        | nil => simp [hp] at h
        | val v => simp [hp] at h; subst h; exact parsePrim_tag _ _ _ hp
      · cases h
      · cases h
  | arr items =>
    simp only [deepProp] at h
    split at h
    · cases h
    · split at h
      · cases h
      · cases ha : allIdx (deepUnder k props) with
        | none => simp [ha] at h
        | some ie =>
          simp only [ha] at h
          cases hd : deepItems parsePrim items.t ie (maxIdx (ie.map Prod.fst) + 1) 0 with
          | none => simp [hd] at h
          | some xs =>
            simp [hd] at h
            obtain ⟨_, h⟩ := h
            subst h
            exact deepItems_typed items.t ie _ 0 xs hd
  | obj sub rq =>
    simp only [deepProp] at h
    split at h
    · simp at h; subst h; trivial
    · cases h
    · split at h
      · cases h
      · cases hb : buildSub parsePrim (deepUnder k props) sub with
        | none => simp [hb] at h
        | some kvs =>
          simp [hb] at h; subst h
          exact buildSub_mem _ sub kvs hb

theorem buildDeep_mem (props : List (List Str × List Str)) :
    ∀ (sprops : List (Str × DS)) (res : List (Str × DV)), buildDeep parsePrim props sprops = some res →
      ∀ kv ∈ res, ∃ ds, (kv.1, ds) ∈ sprops ∧ TypedDV ds kv.2
  | [], res, h, kv, hkv => by simp [buildDeep] at h; subst h; simp at hkv
  | (k, ds) :: rest, res, h, kv, hkv => by
    have ih := buildDeep_mem props rest
    have lift : ∀ r, buildDeep parsePrim props rest = some r → kv ∈ r → ∃ ds', (kv.1, ds') ∈ (k, ds) :: rest ∧ TypedDV ds' kv.2 := by
      intro r hr hm
      obtain ⟨ds', h1, h2⟩ := ih r hr kv hm
      exact ⟨ds', List.mem_cons_of_mem _ h1, h2⟩
    simp only [buildDeep] at h
    cases hd : deepProp parsePrim props k ds with
    | none => simp [hd] at h
    | some o =>
      cases o with
      | none => simp only [hd] at h; exact lift res h hkv
      | some v =>
        simp only [hd] at h
        cases hb : buildDeep parsePrim props rest with
        | none => simp [hb] at h
        | some r =>
          simp [hb] at h; subst h
          rcases List.mem_cons.mp hkv with e | hkv
          · subst e; exact ⟨ds, by simp, deepProp_typed props k ds v hd⟩
          · exact lift r hb hkv

theorem deepAddl_mem (props : List (List Str × List Str)) (a : PS) :
    ∀ (ks : List Str) (res : List (Str × PV)), deepAddl parsePrim props a ks = some res →
      ∀ kv ∈ res, kv.1 ∈ ks ∧ tagOK a.t kv.2 = true
  | [], res, h, kv, hkv => by simp [deepAddl] at h; subst h; simp at hkv
  | k :: rest, res, h, kv, hkv => by
    have ih := deepAddl_mem props a rest
    have lift : ∀ r, deepAddl parsePrim props a rest = some r → kv ∈ r → kv.1 ∈ k :: rest ∧ tagOK a.t kv.2 = true := by
      intro r hr hm
      obtain ⟨h1, h2⟩ := ih r hr kv hm
      exact ⟨List.mem_cons_of_mem _ h1, h2⟩
    simp only [deepAddl] at h
    split at h
    · cases h
    · split at h
      · cases h
      · split at h
        · next s hs =>
          cases hp : parsePrim a.t s with
          | err => simp [hp] at h
          | nil => simp only [hp] at h; exact lift res h hkv
          | val v =>
            simp only [hp] at h
            cases hb : deepAddl parsePrim props a rest with
            | none => simp [hb] at h
            | some r =>
              simp [hb] at h; subst h
              rcases List.mem_cons.mp hkv with e | hkv
              · subst e; exact ⟨by simp, parsePrim_tag _ _ _ hp⟩
              · exact lift r hb hkv
        · cases h
        · exact lift res h hkv

theorem mem_dvPrims (k : Str) (v : PV) : ∀ (kvs : List (Str × DV)), (k, v) ∈ dvPrims kvs → (k, DV.p v) ∈ kvs
  | [], h => by simp [dvPrims] at h
  | (k', .p w) :: rest, h => by
    simp only [dvPrims, List.mem_cons] at h
    rcases h with e | h
    · cases e; simp
    · exact List.mem_cons_of_mem _ (mem_dvPrims k v rest h)
  | (_, .a _) :: rest, h => by
    simp only [dvPrims] at h
    exact List.mem_cons_of_mem _ (mem_dvPrims k v rest h)
  | (_, .o _) :: rest, h => by
    simp only [dvPrims] at h
    exact List.mem_cons_of_mem _ (mem_dvPrims k v rest h)

/-! ### validation: the two enum comparisons agree on typed values outside EnumGoType -/

theorem all_congr' {α : Type} (f g : α → Bool) : ∀ (l : List α), (∀ x ∈ l, f x = g x) → l.all f = l.all g
  | [], _ => rfl
  | x :: rest, h => by
    simp only [List.all_cons, h x (by simp), all_congr' f g rest (fun y hy => h y (by simp [hy]))]

theorem any_congr' {α : Type} (f g : α → Bool) : ∀ (l : List α), (∀ x ∈ l, f x = g x) → l.any f = l.any g
  | [], _ => rfl
  | x :: rest, h => by
    simp only [List.any_cons, h x (by simp), any_congr' f g rest (fun y hy => h y (by simp [hy]))]

theorem any_false_mem {α : Type} (f : α → Bool) (l : List α) (h : l.any f = false) (x : α) (hx : x ∈ l) : f x = false := by
  have := List.any_eq_false.mp h x hx
  simpa using this

def dsEnumInt32 : DS → Bool
  | .prim ps => psEnumInt32 ps
  | .arr it => psEnumInt32 it
  | .obj sub _ => sub.any (fun x => psEnumInt32 x.2)

def dsWF : DS → Prop
  | .obj sub _ => (sub.map Prod.fst).Nodup
  | _ => True

theorem visitDS_eq (ds : DS) (dv : DV) (hg : dsEnumInt32 ds = false) (hwf : dsWF ds) (ht : TypedDV ds dv) :
    visitDS enumHitImpl ds dv = visitDS enumHitSpec ds dv := by
  cases ds with
  | prim ps =>
    cases dv with
    | p v => exact visitPS_eq_of_tag ps v hg ht
    | a xs => rfl
    | o kvs => rfl
  | arr items =>
    cases dv with
    | p v => rfl
    | o kvs => rfl
    | a xs =>
      simp only [visitDS]
      apply all_congr'
      intro x hx
      cases x with
      | none => rfl
      | some v => exact visitPS_eq_of_tag items v hg (ht (some v) hx v rfl)
  | obj sub rq =>
    cases dv with
    | p v => rfl
    | a xs => rfl
    | o kvs =>
      simp only [visitDS]
      congr 1
      apply all_congr'
      intro kv hkv
      obtain ⟨ps, h1, h2⟩ := ht kv hkv
      rw [lookup_of_mem_nodup kv.1 ps sub hwf h1]
      exact visitPS_eq_of_tag ps kv.2 (any_false_mem _ sub hg (kv.1, ps) h1) h2

def leafWF : Leaf → Prop
  | .obj sprops _ _ => (sprops.map Prod.fst).Nodup
  | .deep sprops _ => (sprops.map Prod.fst).Nodup ∧ ∀ kv ∈ sprops, dsWF kv.2
  | _ => True

def TypedVal : Leaf → Val → Prop
  | _, .nil => True
  | _, .nilObj => True
  | .prim ps, .prim v => tagOK ps.t v = true
  | .untyped _, .prim v => ∀ i, v ≠ .int32 i
  | _, .prim _ => False                       -- only a primitive (or untyped) schema yields a primitive
  | .arr items _ _ _, .arr xs => ∀ x ∈ xs, tagOK items.t x = true
  | _, .arr _ => False                        -- only an array schema yields an array
  | .obj sprops _ addl, .obj kvs => TypedKVs sprops addl kvs
  | .deep _ _, .obj _ => True                 -- a nested schema outside style deepObject (the model's `[] none` stand-in)
  | _, .obj _ => False
  | .deep sprops _, .dobj kvs => ∀ kv ∈ kvs, ∃ ds, (kv.1, ds) ∈ sprops ∧ TypedDV ds kv.2
  | _, .dobj _ => False

theorem visitLeaf_eq (l : Leaf) (v : Val) (hwf : leafWF l) (hg : leafEnumGoType l = false) (ht : TypedVal l v) :
    visitLeaf enumHitImpl deepEqImpl l v = visitLeaf enumHitSpec enumHitSpec l v := by
  cases l with
  | prim ps =>
    cases v <;> try rfl
    next pv => exact visitPS_eq_of_tag ps pv hg ht
  | arr items mn mx en =>
    cases v <;> try rfl
    next xs =>
      simp only [leafEnumGoType, Bool.or_eq_false_iff] at hg
      have hitems : xs.all (visitPS enumHitImpl items) = xs.all (visitPS enumHitSpec items) :=
        all_congr' _ _ xs (fun x hx => visitPS_eq_of_tag items x hg.1 (ht x hx))
      have henum : (en.isEmpty || en.any (fun es => listEq deepEqImpl es xs)) = (en.isEmpty || en.any (fun es => listEq enumHitSpec es xs)) := by
        cases hen : en.isEmpty with
        | true => rfl
        | false =>
          have hni : psIsInt items = false := by simpa [hen] using hg.2
          have hni' : psIsInt { t := items.t } = false := by simpa [psIsInt] using hni
          simp only [Bool.false_or]
          exact any_congr' _ _ en (fun es _ => listEq_eq_of_tags items.t hni' es xs ht)
      simp only [visitLeaf, hitems, henum]
  | obj sprops rq addl =>
    cases v <;> try rfl
    next kvs =>
      simp only [leafEnumGoType, Bool.or_eq_false_iff] at hg
      simp only [visitLeaf]
      congr 1
      apply all_congr'
      intro kv hkv
      have hk := ht kv hkv
      cases hl : sprops.lookup kv.1 with
      | some ps =>
        simp only [hl] at hk ⊢
        exact visitPS_eq_of_tag ps kv.2 (any_false_mem _ sprops hg.1 (kv.1, ps) (lookup_some_mem kv.1 ps sprops hl)) hk
      | none =>
        simp only [hl] at hk ⊢
        cases addl with
        | none => rfl
        | some a =>
          simp only at hk hg ⊢
          exact visitPS_eq_of_tag a kv.2 hg.2 hk
  | untyped en =>
    cases v <;> try rfl
    next pv =>
      have : ∀ e, enumHitImpl e pv = enumHitSpec e pv := by
        intro e
        cases e <;> cases pv <;> simp_all [enumHitImpl, enumHitSpec, TypedVal]
      simp [visitLeaf, this]
  | deep sprops rq =>
    cases v <;> try rfl
    next kvs =>
      simp only [leafEnumGoType] at hg
      simp only [visitLeaf]
      congr 1
      apply all_congr'
      intro kv hkv
      obtain ⟨ds, h1, h2⟩ := ht kv hkv
      rw [lookup_of_mem_nodup kv.1 ds sprops hwf.1 h1]
      have hds : dsEnumInt32 ds = false := by
        have := any_false_mem _ sprops hg (kv.1, ds) h1
        cases ds <;> simpa [dsEnumInt32] using this
      exact visitDS_eq ds kv.2 hds (hwf.2 (kv.1, ds) h1) h2

/-! ### every decoder returns a typed value -/

theorem primOut_typed (ps : PS) (f : Bool) (s : Str) : TypedVal (.prim ps) (primOut f (parsePrim ps.t s)).val := by
  cases hp : parsePrim ps.t s with
  | err => simp [primOut, TypedVal]
  | nil => simp [primOut, TypedVal]
  | val v => simpa [primOut, TypedVal] using parsePrim_tag _ _ _ hp

theorem arrOut_typed (items : PS) (mn mx : Option Nat) (en : List (List EV)) (f : Bool) (l : List Str) :
    TypedVal (.arr items mn mx en) (arrOut f (parseArr parsePrim items.t l)).val := by
  cases har : parseArr parsePrim items.t l with
  | err => simp [arrOut, TypedVal]
  | nil => simp [arrOut, TypedVal]
  | vals vs =>
    cases vs with
    | nil => simp [arrOut, TypedVal]
    | cons v rest =>
      simp only [arrOut, TypedVal]
      exact parseArr_tags items.t l _ har

theorem objOut_typed (f : Bool) (src pd vd : Str) (sprops : List (Str × PS)) (rq : List Str) (addl : Option PS)
    (hnd : (sprops.map Prod.fst).Nodup) :
    TypedVal (.obj sprops rq addl) (objOut parsePrim f src pd vd sprops addl).val := by
  unfold objOut
  repeat' split
  all_goals first
    | (simp [TypedVal]; done)
    | (simp only [TypedVal]; exact makeObject_typed _ sprops addl _ hnd (by assumption))

theorem queryObj_typed (name : Str) (st : Sty) (ex : Bool) (r : Req) (sprops : List (Str × PS)) (rq : List Str)
    (addl : Option PS) (hnd : (sprops.map Prod.fst).Nodup) :
    TypedVal (.obj sprops rq addl) (queryObj parsePrim name st ex r sprops addl).val := by
  unfold queryObj
  simp only []
  repeat' split
  all_goals first
    | (simp [TypedVal, absentObj, badMethodObj]; done)
    | (simp only [TypedVal]; exact makeObject_typed _ sprops addl _ hnd (by assumption))

theorem mapped_mem (k : Str) (ds : DS) (sprops : List (Str × PS)) (h : (k, ds) ∈ sprops.map (fun kv => (kv.1, DS.prim kv.2))) :
    ∃ ps, ds = .prim ps ∧ (k, ps) ∈ sprops := by
  obtain ⟨kv, hkv, e⟩ := List.mem_map.mp h
  cases e
  exact ⟨kv.2, rfl, hkv⟩

theorem deepFlat_kvs_typed (props : List (List Str × List Str)) (sprops : List (Str × PS)) (addl : Option PS) (kvs : List (Str × DV))
    (hnd : (sprops.map Prod.fst).Nodup)
    (hb : buildDeep parsePrim props (sprops.map (fun kv => (kv.1, DS.prim kv.2))) = some kvs) :
    ∀ kv ∈ dvPrims kvs, ∃ ps, sprops.lookup kv.1 = some ps ∧ tagOK ps.t kv.2 = true := by
  intro kv hkv
  have hm := mem_dvPrims kv.1 kv.2 kvs hkv
  obtain ⟨ds, h1, h2⟩ := buildDeep_mem props _ kvs hb (kv.1, DV.p kv.2) hm
  obtain ⟨ps, rfl, h3⟩ := mapped_mem kv.1 ds sprops h1
  exact ⟨ps, lookup_of_mem_nodup kv.1 ps sprops hnd h3, h2⟩

theorem queryDeepFlat_typed (name : Str) (r : Req) (sprops : List (Str × PS)) (rq : List Str)
    (hnd : (sprops.map Prod.fst).Nodup) :
    TypedVal (.obj sprops rq none) (queryDeepFlat parsePrim name r sprops).val := by
  unfold queryDeepFlat queryDeep
  split
  · simp [TypedVal, absentObj]
  · split
    · simp [TypedVal]
    · cases hb : buildDeep parsePrim _ (sprops.map (fun kv => (kv.1, DS.prim kv.2))) with
      | none => simp [TypedVal]
      | some kvs =>
        simp only [TypedVal, TypedKVs]
        intro kv hkv
        obtain ⟨ps, h1, h2⟩ := deepFlat_kvs_typed _ sprops none kvs hnd hb kv hkv
        simp [h1, h2]

theorem queryDeepFlatA_typed (name : Str) (r : Req) (sprops : List (Str × PS)) (rq : List Str) (a : PS)
    (hnd : (sprops.map Prod.fst).Nodup) :
    TypedVal (.obj sprops rq (some a)) (queryDeepFlatA parsePrim name r sprops a).val := by
  unfold queryDeepFlatA
  split
  · simp [TypedVal, absentObj]
  · split
    · simp [TypedVal]
    · cases hb : buildDeep parsePrim _ (sprops.map (fun kv => (kv.1, DS.prim kv.2))) with
      | none => simp [TypedVal]
      | some kvs =>
        simp only
        cases he : deepAddl parsePrim _ a _ with
        | none => simp [TypedVal]
        | some extra =>
          simp only [TypedVal, TypedKVs]
          intro kv hkv
          rcases List.mem_append.mp hkv with hkv | hkv
          · obtain ⟨ps, h1, h2⟩ := deepFlat_kvs_typed _ sprops (some a) kvs hnd hb kv hkv
            simp [h1, h2]
          · obtain ⟨h1, h2⟩ := deepAddl_mem _ a _ extra he kv hkv
            have hnk : hasKey kv.1 sprops = false := by
              have := (List.mem_filter.mp h1).2
              simpa using this
            simp [lookup_none_of_not_hasKey kv.1 sprops hnk, h2]

theorem queryDeep_typed (name : Str) (r : Req) (sprops : List (Str × DS)) (rq : List Str) :
    TypedVal (.deep sprops rq) (queryDeep parsePrim name r sprops).val := by
  unfold queryDeep
  split
  · simp [TypedVal, absentObj]
  · split
    · simp [TypedVal]
    · cases hb : buildDeep parsePrim _ sprops with
      | none => simp [TypedVal]
      | some kvs =>
        simp only [TypedVal]
        exact buildDeep_mem _ sprops kvs hb

theorem typed_nil (l : Leaf) : TypedVal l .nil := by cases l <;> simp [TypedVal]
theorem typed_nilObj (l : Leaf) : TypedVal l .nilObj := by cases l <;> simp [TypedVal]

theorem pathPrim_typed (name : Str) (st : Sty) (r : Req) (ps : PS) : TypedVal (.prim ps) (pathPrim parsePrim name st r ps.t).val := by
  unfold pathPrim
  cases pathPrimPrefix name st with
  | none => exact typed_nil _
  | some pre =>
    simp only
    cases pathRaw r with
    | none => exact typed_nil _
    | some raw =>
      simp only
      cases cutPrefix raw pre with
      | none => exact typed_nil _
      | some src => exact primOut_typed _ _ _

theorem queryPrim_typed (name : Str) (st : Sty) (r : Req) (ps : PS) : TypedVal (.prim ps) (queryPrim parsePrim name st r ps.t).val := by
  unfold queryPrim
  by_cases h : st ≠ .form
  · rw [if_pos h]; exact typed_nil _
  · rw [if_neg h]
    cases qLookup name r.query with
    | none => exact typed_nil _
    | some vs =>
      cases vs with
      | nil => exact typed_nil _
      | cons v rest => exact primOut_typed _ _ _

theorem headerPrim_typed (st : Sty) (r : Req) (ps : PS) : TypedVal (.prim ps) (headerPrim parsePrim st r ps.t).val := by
  unfold headerPrim
  by_cases h : st ≠ .simple
  · rw [if_pos h]; exact typed_nil _
  · rw [if_neg h]
    cases headerRaw r with
    | none => exact typed_nil _
    | some raw => exact primOut_typed _ _ _

theorem cookiePrim_typed (st : Sty) (r : Req) (ps : PS) : TypedVal (.prim ps) (cookiePrim parsePrim st r ps.t).val := by
  unfold cookiePrim
  by_cases h : st ≠ .form
  · rw [if_pos h]; exact typed_nil _
  · rw [if_neg h]
    cases r.cookie with
    | none => exact typed_nil _
    | some raw => exact primOut_typed _ _ _

theorem pathArr_typed (name : Str) (st : Sty) (ex : Bool) (r : Req) (items : PS) (mn mx : Option Nat) (en : List (List EV)) :
    TypedVal (.arr items mn mx en) (pathArr parsePrim name st ex r items.t).val := by
  unfold pathArr
  cases pathArrFmt name st ex with
  | none => exact typed_nil _
  | some pd =>
    obtain ⟨pre, delim⟩ := pd
    simp only
    cases pathRaw r with
    | none => exact typed_nil _
    | some raw =>
      simp only
      cases cutPrefix raw pre with
      | none => exact typed_nil _
      | some src => exact arrOut_typed _ _ _ _ _ _

theorem queryArr_typed (name : Str) (st : Sty) (ex : Bool) (r : Req) (items : PS) (mn mx : Option Nat) (en : List (List EV)) :
    TypedVal (.arr items mn mx en) (queryArr parsePrim name st ex r items.t).val := by
  unfold queryArr
  by_cases h : st = .deepObject
  · rw [if_pos h]; exact typed_nil _
  · rw [if_neg h]
    cases qLookup name r.query with
    | none => exact typed_nil _
    | some vs =>
      cases vs with
      | nil => exact typed_nil _
      | cons v rest =>
        simp only
        cases ex
        · exact arrOut_typed _ _ _ _ _ _
        · exact arrOut_typed _ _ _ _ _ _

theorem headerArr_typed (st : Sty) (r : Req) (items : PS) (mn mx : Option Nat) (en : List (List EV)) :
    TypedVal (.arr items mn mx en) (headerArr parsePrim st r items.t).val := by
  unfold headerArr
  by_cases h : st ≠ .simple
  · rw [if_pos h]; exact typed_nil _
  · rw [if_neg h]
    cases headerRaw r with
    | none => exact typed_nil _
    | some raw => exact arrOut_typed _ _ _ _ _ _

theorem cookieArr_typed (b : Bool) (st : Sty) (ex : Bool) (r : Req) (items : PS) (mn mx : Option Nat) (en : List (List EV)) :
    TypedVal (.arr items mn mx en) (cookieArr parsePrim b st ex r items.t).val := by
  unfold cookieArr
  split
  · exact typed_nil _
  · cases r.cookie with
    | none => exact typed_nil _
    | some raw => exact arrOut_typed _ _ _ _ _ _

theorem pathObj_typed (name : Str) (st : Sty) (ex : Bool) (r : Req) (sprops : List (Str × PS)) (rq : List Str) (addl : Option PS)
    (hnd : (sprops.map Prod.fst).Nodup) : TypedVal (.obj sprops rq addl) (pathObj parsePrim name st ex r sprops addl).val := by
  unfold pathObj
  cases pathObjFmt name st ex with
  | none => exact typed_nilObj _
  | some f =>
    obtain ⟨pre, pd, vd⟩ := f
    simp only
    cases pathRaw r with
    | none => exact typed_nilObj _
    | some raw =>
      simp only
      cases cutPrefix raw pre with
      | none => exact typed_nilObj _
      | some src => exact objOut_typed _ _ _ _ _ _ _ hnd

theorem headerObj_typed (st : Sty) (ex : Bool) (r : Req) (sprops : List (Str × PS)) (rq : List Str) (addl : Option PS)
    (hnd : (sprops.map Prod.fst).Nodup) : TypedVal (.obj sprops rq addl) (headerObj parsePrim st ex r sprops addl).val := by
  unfold headerObj
  by_cases h : st ≠ .simple
  · rw [if_pos h]; exact typed_nilObj _
  · rw [if_neg h]
    cases headerRaw r with
    | none => exact typed_nilObj _
    | some raw => exact objOut_typed _ _ _ _ _ _ _ hnd

theorem cookieObj_typed (b : Bool) (st : Sty) (ex : Bool) (r : Req) (sprops : List (Str × PS)) (rq : List Str) (addl : Option PS)
    (hnd : (sprops.map Prod.fst).Nodup) : TypedVal (.obj sprops rq addl) (cookieObj parsePrim b st ex r sprops addl).val := by
  unfold cookieObj
  split
  · exact typed_nilObj _
  · cases r.cookie with
    | none => exact typed_nilObj _
    | some raw => exact objOut_typed _ _ _ _ _ _ _ hnd

/-- a value that is neither a nested object nor an array -/
def valShapeObj (v : Val) : Prop := (∀ kvs, v ≠ .dobj kvs) ∧ (∀ xs, v ≠ .arr xs) ∧ (∀ pv, v ≠ .prim pv)

/-- a `.deep` leaf meets only `.dobj`, `.obj`, `nil` values; anything that is not `.dobj` / `.arr` is trivially typed -/
theorem typed_deep_other (sprops : List (Str × DS)) (rq : List Str) (v : Val) (h : valShapeObj v) : TypedVal (.deep sprops rq) v := by
  cases v <;> simp [TypedVal]
  · exact absurd rfl (h.2.2 _)
  · exact absurd rfl (h.2.1 _)
  · exact absurd rfl (h.1 _)

theorem objOut_shapeOK (prim : PT → Str → PR) (f : Bool) (src pd vd : Str) (sp : List (Str × PS)) (ad : Option PS) :
    valShapeObj (objOut prim f src pd vd sp ad).val := by
  unfold objOut
  repeat' split
  all_goals simp [valShapeObj]

theorem decodeLeaf_typed (fl : Flavour) (hp : fl.prim = parsePrim) (c : Cell) (name : Str) (r : Req) (l : Leaf) (hwf : leafWF l) :
    TypedVal l (decodeLeaf fl c name r l).val := by
  obtain ⟨loc, st, ex⟩ := c
  cases l with
  | prim ps =>
    cases loc <;> simp only [decodeLeaf, hp]
    · exact pathPrim_typed _ _ _ _
    · exact queryPrim_typed _ _ _ _
    · exact headerPrim_typed _ _ _
    · exact cookiePrim_typed _ _ _
  | arr items mn mx en =>
    cases loc <;> simp only [decodeLeaf, hp]
    · exact pathArr_typed _ _ _ _ _ _ _ _
    · exact queryArr_typed _ _ _ _ _ _ _ _
    · exact headerArr_typed _ _ _ _ _ _
    · exact cookieArr_typed _ _ _ _ _ _ _ _
  | obj sprops rq addl =>
    have hnd : (sprops.map Prod.fst).Nodup := hwf
    cases loc <;> simp only [decodeLeaf, hp]
    · exact pathObj_typed _ _ _ _ _ _ _ hnd
    · split
      · split
        · exact queryDeepFlat_typed name _ sprops rq hnd
        · exact queryDeepFlatA_typed name _ sprops rq _ hnd
      · exact queryObj_typed name st ex r sprops rq addl hnd
    · exact headerObj_typed _ _ _ _ _ _ hnd
    · exact cookieObj_typed _ _ _ _ _ _ _ hnd
  | untyped en =>
    have hstr : ∀ (f : Bool) (s : Str), TypedVal (.untyped en) (primOut f (parsePrim .string s)).val := by
      intro f s
      by_cases hs : s = []
      · simp [parsePrim, hs, primOut, TypedVal]
      · simp [parsePrim, hs, primOut, TypedVal]
    simp only [decodeLeaf, hp]
    split
    · cases loc <;> simp only
      · unfold pathPrim
        cases pathPrimPrefix name st with
        | none => exact typed_nil _
        | some pre =>
          simp only
          cases pathRaw r with
          | none => exact typed_nil _
          | some raw =>
            simp only
            cases cutPrefix raw pre with
            | none => exact typed_nil _
            | some src => exact hstr _ _
      · unfold queryPrim
        by_cases h : st ≠ .form
        · rw [if_pos h]; exact typed_nil _
        · rw [if_neg h]
          cases qLookup name r.query with
          | none => exact typed_nil _
          | some vs =>
            cases vs with
            | nil => exact typed_nil _
            | cons v rest => exact hstr _ _
      · unfold headerPrim
        by_cases h : st ≠ .simple
        · rw [if_pos h]; exact typed_nil _
        · rw [if_neg h]
          cases headerRaw r with
          | none => exact typed_nil _
          | some raw => exact hstr _ _
      · unfold cookiePrim
        by_cases h : st ≠ .form
        · rw [if_pos h]; exact typed_nil _
        · rw [if_neg h]
          cases r.cookie with
          | none => exact typed_nil _
          | some raw => exact hstr _ _
    · exact typed_nil _
  | deep sprops rq =>
    cases loc <;> cases st <;> simp only [decodeLeaf, hp]
    all_goals first
      | exact queryDeep_typed name _ sprops rq
      | exact typed_nilObj _
      | (apply typed_deep_other; unfold pathObj; repeat' split
         all_goals first | exact objOut_shapeOK _ _ _ _ _ _ _ | simp [valShapeObj, badMethodObj, absentObj])
      | (apply typed_deep_other; unfold headerObj; repeat' split
         all_goals first | exact objOut_shapeOK _ _ _ _ _ _ _ | simp [valShapeObj, badMethodObj, absentObj])
      | (apply typed_deep_other; unfold cookieObj; repeat' split
         all_goals first | exact objOut_shapeOK _ _ _ _ _ _ _ | simp [valShapeObj, badMethodObj, absentObj])
      | (apply typed_deep_other; unfold queryObj; simp only []; repeat' split
         all_goals simp [valShapeObj, badMethodObj, absentObj])

/-! ### schemas without any enum: validation does not depend on how enums compare, whatever the value -/

def psEnumFree (ps : PS) : Bool := ps.enum.isEmpty

def dsEnumFree : DS → Bool
  | .prim ps => psEnumFree ps
  | .arr it => psEnumFree it
  | .obj sub _ => sub.all (fun x => psEnumFree x.2)

def leafEnumFree : Leaf → Bool
  | .prim ps => psEnumFree ps
  | .arr it _ _ en => psEnumFree it && en.isEmpty
  | .obj sp _ ad => sp.all (fun x => psEnumFree x.2) && (match ad with | some a => psEnumFree a | none => true)
  | .deep sp _ => sp.all (fun x => dsEnumFree x.2)
  | .untyped en => en.isEmpty

theorem visitPS_enumFree (h1 h2 : EV → PV → Bool) (ps : PS) (v : PV) (hf : psEnumFree ps = true) :
    visitPS h1 ps v = visitPS h2 ps v := by
  simp only [psEnumFree] at hf
  simp [visitPS, hf]

theorem all_true_mem {α : Type} (f : α → Bool) (l : List α) (h : l.all f = true) (x : α) (hx : x ∈ l) : f x = true :=
  List.all_eq_true.mp h x hx

theorem visitDS_enumFree (h1 h2 : EV → PV → Bool) (ds : DS) (dv : DV) (hf : dsEnumFree ds = true) :
    visitDS h1 ds dv = visitDS h2 ds dv := by
  cases ds with
  | prim ps =>
    cases dv <;> try rfl
    next v => exact visitPS_enumFree h1 h2 ps v hf
  | arr items =>
    cases dv <;> try rfl
    next xs =>
      simp only [visitDS]
      apply all_congr'
      intro x _
      cases x with
      | none => rfl
      | some v => exact visitPS_enumFree h1 h2 items v hf
  | obj sub rq =>
    cases dv <;> try rfl
    next kvs =>
      simp only [visitDS]
      congr 1
      apply all_congr'
      intro kv _
      cases hl : sub.lookup kv.1 with
      | none => rfl
      | some ps =>
        simp only
        exact visitPS_enumFree h1 h2 ps kv.2 (all_true_mem _ sub hf (kv.1, ps) (lookup_some_mem kv.1 ps sub hl))

theorem visitLeaf_enumFree (h1 a1 h2 a2 : EV → PV → Bool) (l : Leaf) (v : Val) (hf : leafEnumFree l = true) :
    visitLeaf h1 a1 l v = visitLeaf h2 a2 l v := by
  cases l with
  | prim ps =>
    cases v <;> try rfl
    next pv => exact visitPS_enumFree h1 h2 ps pv hf
  | arr items mn mx en =>
    cases v <;> try rfl
    next xs =>
      simp only [leafEnumFree, Bool.and_eq_true] at hf
      have hitems : xs.all (visitPS h1 items) = xs.all (visitPS h2 items) :=
        all_congr' _ _ xs (fun x _ => visitPS_enumFree h1 h2 items x hf.1)
      simp only [visitLeaf, hitems, hf.2, Bool.true_or]
  | obj sprops rq addl =>
    cases v <;> try rfl
    next kvs =>
      simp only [leafEnumFree, Bool.and_eq_true] at hf
      simp only [visitLeaf]
      congr 1
      apply all_congr'
      intro kv _
      cases hl : sprops.lookup kv.1 with
      | some ps =>
        simp only
        exact visitPS_enumFree h1 h2 ps kv.2 (all_true_mem _ sprops hf.1 (kv.1, ps) (lookup_some_mem kv.1 ps sprops hl))
      | none =>
        simp only
        cases addl with
        | none => rfl
        | some a => exact visitPS_enumFree h1 h2 a kv.2 hf.2
  | untyped en =>
    simp only [leafEnumFree] at hf
    cases v <;> simp [visitLeaf, hf]
  | deep sprops rq =>
    cases v <;> try rfl
    next kvs =>
      simp only [leafEnumFree] at hf
      simp only [visitLeaf]
      congr 1
      apply all_congr'
      intro kv _
      cases hl : sprops.lookup kv.1 with
      | none => rfl
      | some ds =>
        simp only
        exact visitDS_enumFree h1 h2 ds kv.2 (all_true_mem _ sprops hf (kv.1, ds) (lookup_some_mem kv.1 ds sprops hl))

theorem visitSch_enumFree (h1 a1 h2 a2 : EV → PV → Bool) (s : Sch) (v : Val) (hf : (schLeaves s).all leafEnumFree = true) :
    visitSch h1 a1 s v = visitSch h2 a2 s v := by
  have hl : ∀ l ∈ schLeaves s, visitLeaf h1 a1 l v = visitLeaf h2 a2 l v :=
    fun l hl => visitLeaf_enumFree h1 a1 h2 a2 l v (all_true_mem _ _ hf l hl)
  cases s with
  | leaf l => exact hl l (by simp [schLeaves])
  | allOf ls => exact all_congr' _ _ ls hl
  | anyOf ls => exact any_congr' _ _ ls hl
  | oneOf ls =>
    have hl' : ∀ l ∈ ls, visitLeaf h1 a1 l v = visitLeaf h2 a2 l v := hl
    simp only [visitSch]
    rw [List.map_congr_left hl']

/-! ### the composition loops only look at the leaf decoder's results -/

theorem makeObject_nil_none (prim : PT → Str → PR) (props : List (Str × Str)) : makeObject prim props [] none = some [] := by
  simp [makeObject, buildProps]

theorem decAllOf_congr (f g : Leaf → Out) : ∀ (ls : List Leaf) (fnd : Bool) (last : Out), (∀ l ∈ ls, f l = g l) →
    decAllOf f ls fnd last = decAllOf g ls fnd last
  | [], _, _, _ => rfl
  | l :: rest, fnd, last, h => by
    simp only [decAllOf, h l (by simp)]
    split
    · rfl
    · exact decAllOf_congr f g rest _ _ (fun x hx => h x (by simp [hx]))

theorem decAnyOf_congr (f g : Leaf → Out) (req : Bool) : ∀ (ls : List Leaf) (fnd : Bool), (∀ l ∈ ls, f l = g l) →
    decAnyOf f req ls fnd = decAnyOf g req ls fnd
  | [], _, _ => rfl
  | l :: rest, fnd, h => by
    simp only [decAnyOf, h l (by simp)]
    split
    · rfl
    · exact decAnyOf_congr f g req rest _ (fun x hx => h x (by simp [hx]))

theorem decOneOf_congr (f g : Leaf → Out) (req : Bool) : ∀ (ls : List Leaf) (fnd : Bool) (cur : Option Val), (∀ l ∈ ls, f l = g l) →
    decOneOf f req ls fnd cur = decOneOf g req ls fnd cur
  | [], _, some _, _ => rfl
  | [], _, none, _ => rfl
  | l :: rest, fnd, cur, h => by
    simp only [decOneOf, h l (by simp)]
    exact decOneOf_congr f g req rest _ _ (fun x hx => h x (by simp [hx]))


/-! ### flat objects with an additionalProperties schema: the value of every key -/

/-- the value the additionalProperties loop gives an undeclared key: present in the request, text parses to a value -/
def addlVal (prim : PT → Str → PR) (props : List (Str × Str)) (a : PS) (k : Str) : Option PV :=
  match lookupLast k props with
  | none => none
  | some s => match prim a.t s with
    | .val v => some v
    | _ => none

theorem buildAddl_lookup (prim : PT → Str → PR) (props : List (Str × Str)) (a : PS) :
    ∀ (ks : List Str) (res : List (Str × PV)), ks.Nodup → buildAddl prim props a ks = some res →
      ∀ k, res.lookup k = if k ∈ ks then addlVal prim props a k else none
  | [], res, _, h, k => by simp [buildAddl] at h; subst h; simp
  | k0 :: rest, res, hnd, h, k => by
    have hnd' := List.nodup_cons.mp hnd
    have ih := buildAddl_lookup prim props a rest
    simp only [buildAddl] at h
    by_cases hk : k = k0
    · subst hk
      have hnot : k ∉ rest := hnd'.1
      cases hl : lookupLast k props with
      | none =>
        simp only [hl] at h
        rw [ih res hnd'.2 h k]
        simp [hnot, addlVal, hl]
      | some s =>
        simp only [hl] at h
        by_cases hke : k = []
        · simp [hke] at h
        · simp only [hke, if_false] at h
          cases hp : prim a.t s with
          | err => simp [hp] at h
          | nil =>
            simp only [hp] at h
            rw [ih res hnd'.2 h k]
            simp [hnot, addlVal, hl, hp]
          | val v =>
            simp only [hp] at h
            cases hb : buildAddl prim props a rest with
            | none => simp [hb] at h
            | some r =>
              simp [hb] at h; subst h
              simp [List.lookup, addlVal, hl, hp]
    · have hne : (k == k0) = false := by simpa using hk
      have hite : (if k ∈ k0 :: rest then addlVal prim props a k else none) = (if k ∈ rest then addlVal prim props a k else none) := by
        simp [hk]
      rw [hite]
      cases hl : lookupLast k0 props with
      | none => simp only [hl] at h; exact ih res hnd'.2 h k
      | some s =>
        simp only [hl] at h
        by_cases hke : k0 = []
        · simp [hke] at h
        · simp only [hke, if_false] at h
          cases hp : prim a.t s with
          | err => simp [hp] at h
          | nil => simp only [hp] at h; exact ih res hnd'.2 h k
          | val v =>
            simp only [hp] at h
            cases hb : buildAddl prim props a rest with
            | none => simp [hb] at h
            | some r =>
              simp [hb] at h; subst h
              simp only [List.lookup, hne]
              exact ih r hnd'.2 hb k

theorem mem_dedup (k : Str) : ∀ (l : List Str), k ∈ dedup l ↔ k ∈ l
  | [] => by simp [dedup]
  | x :: rest => by
    have ih := mem_dedup k rest
    simp only [dedup]
    split
    · next hc =>
      rw [ih]
      constructor
      · intro h; exact List.mem_cons_of_mem _ h
      · intro h
        rcases List.mem_cons.mp h with e | h
        · subst e; simpa using hc
        · exact h
    · simp [ih]

theorem dedup_nodup : ∀ (l : List Str), (dedup l).Nodup
  | [] => by simp [dedup]
  | x :: rest => by
    simp only [dedup]
    split
    · exact dedup_nodup rest
    · next hc =>
      apply List.nodup_cons.mpr
      refine ⟨?_, dedup_nodup rest⟩
      rw [mem_dedup]
      simpa using hc

theorem lookupLast_none_of_not_mem (k : Str) : ∀ (props : List (Str × Str)), k ∉ props.map Prod.fst → lookupLast k props = none
  | [], _ => rfl
  | (k', v) :: rest, h => by
    have h1 : k' ≠ k := by intro e; apply h; simp [e]
    have h2 : k ∉ rest.map Prod.fst := by intro e; apply h; simp at e ⊢; exact Or.inr e
    simp [lookupLast, lookupLast_none_of_not_mem k rest h2, h1]

/-! ### a text with a non-digit inside is not an integer -/

theorem readNatAux_none_of_nondigit (c : Char) (hd : digitVal c = none) : ∀ (s : Str) (acc : Nat), c ∈ s → readNatAux s acc = none
  | [], _, h => by simp at h
  | x :: rest, acc, h => by
    simp only [readNatAux]
    cases hx : digitVal x with
    | none => rfl
    | some d =>
      simp only
      rcases List.mem_cons.mp h with e | h
      · subst e; rw [hd] at hx; cases hx
      · exact readNatAux_none_of_nondigit c hd rest _ h

theorem readNat_none_of_nondigit (c : Char) (hd : digitVal c = none) (s : Str) (h : c ∈ s) : readNat s = none := by
  cases s with
  | nil => rfl
  | cons x rest => exact readNatAux_none_of_nondigit c hd (x :: rest) 0 h

/-- a text that contains a comma is no integer of any width (strconv.ParseInt: invalid syntax) -/
theorem parseInt10_none_of_comma (bits : Nat) (s : Str) (h : ',' ∈ s) : parseInt10 bits s = none := by
  have hd : digitVal ',' = none := by decide
  rw [parseInt10_eq_readDecInt]
  cases s with
  | nil => simp at h
  | cons c r =>
    by_cases h1 : c = '+'
    · subst h1
      have hr : ',' ∈ r := by simpa using h
      simp [readDecInt, readNat_none_of_nondigit ',' hd r hr]
    · by_cases h2 : c = '-'
      · subst h2
        have hr : ',' ∈ r := by simpa using h
        simp [readDecInt, readNat_none_of_nondigit ',' hd r hr]
      · rw [readDecInt_unsigned bits c r h1 h2, readNat_none_of_nondigit ',' hd (c :: r) h]

theorem mem_joinL_sep (d : Char) : ∀ (xs : List Str), 2 ≤ xs.length → d ∈ joinL [d] xs
  | [], h => by simp at h
  | [_], h => by simp at h
  | x :: y :: rest, _ => by simp [joinL]

/-! ### no declared property among the request keys: nothing is built -/

theorem lookupLast_none_of_not_hasKey (k : Str) : ∀ (props : List (Str × Str)), hasKey k props = false → lookupLast k props = none
  | [], _ => rfl
  | (k', v) :: rest, h => by
    simp only [hasKey, List.any_cons, Bool.or_eq_false_iff, decide_eq_false_iff_not] at h
    have ih := lookupLast_none_of_not_hasKey k rest (by simpa [hasKey] using h.2)
    simp [lookupLast, ih, h.1]

theorem buildProps_none_present (prim : PT → Str → PR) (props : List (Str × Str)) :
    ∀ (sprops : List (Str × PS)), props.any (fun kv => hasKey kv.1 sprops) = false → buildProps prim props sprops = some []
  | [], _ => rfl
  | (k, ps) :: rest, h => by
    have hk : hasKey k props = false := by
      rw [List.any_eq_false] at h
      simp only [hasKey, List.any_eq_false]
      intro kv hkv
      have := h kv hkv
      simp only [hasKey, List.any_cons, Bool.or_eq_true, decide_eq_true_eq, not_or] at this
      simpa using fun e => this.1 e.symm
    have hrest : props.any (fun kv => hasKey kv.1 rest) = false := by
      rw [List.any_eq_false] at h ⊢
      intro kv hkv
      have := h kv hkv
      simp only [hasKey, List.any_cons, Bool.or_eq_true, not_or] at this
      simpa [hasKey] using this.2
    simp [buildProps, lookupLast_none_of_not_hasKey k props hk, buildProps_none_present prim props rest hrest]

/-! ### compositions with enums: a value read by one alternative, validated against another -/

def pvNo32 (v : PV) : Prop := ∀ i, v ≠ .int32 i
def pvNoInt (v : PV) : Prop := (∀ i, v ≠ .int i) ∧ (∀ i, v ≠ .int32 i)

def valNo32 : Val → Prop
  | .prim v => pvNo32 v
  | .arr xs => ∀ x ∈ xs, pvNo32 x
  | .obj kvs => ∀ kv ∈ kvs, pvNo32 kv.2
  | _ => True

def valNoIntItems : Val → Prop
  | .arr xs => ∀ x ∈ xs, pvNoInt x
  | _ => True

def leafIsDeep : Leaf → Bool
  | .deep _ _ => true
  | _ => false

theorem enumHit_eq_of_no32 (e : EV) (v : PV) (h : pvNo32 v) : enumHitImpl e v = enumHitSpec e v := by
  cases e <;> cases v <;> simp_all [enumHitImpl, enumHitSpec, pvNo32]

theorem visitPS_eq' (ps : PS) (v : PV) (h : pvNo32 v ∨ psHasEnum ps = false) :
    visitPS enumHitImpl ps v = visitPS enumHitSpec ps v := by
  rcases h with h | h
  · simp [visitPS, enumHit_eq_of_no32 _ v h]
  · have : ps.enum.isEmpty = true := by simpa [psHasEnum] using h
    simp [visitPS, this]

theorem listEq_eq_noInt : ∀ (es : List EV) (xs : List PV), (∀ x ∈ xs, pvNoInt x) → listEq deepEqImpl es xs = listEq enumHitSpec es xs
  | [], [], _ => rfl
  | [], _ :: _, _ => rfl
  | _ :: _, [], _ => rfl
  | e :: es, x :: xs, h => by
    have hx := h x (by simp)
    have : deepEqImpl e x = enumHitSpec e x := by
      cases e <;> cases x <;> simp_all [deepEqImpl, enumHitSpec, pvNoInt]
    simp [listEq, this, listEq_eq_noInt es xs (fun y hy => h y (by simp [hy]))]

/-- validation of any value against a non-nested leaf does not depend on how enums compare, as soon as the value
holds no int32 (or the leaf has no enum) and — for an array enum — no integer items -/
theorem visitLeaf_eq_val (l : Leaf) (v : Val) (hnd : leafIsDeep l = false)
    (hps : valNo32 v ∨ leafHasEnum l = false) (harr : leafArrEnum l = false ∨ valNoIntItems v) :
    visitLeaf enumHitImpl deepEqImpl l v = visitLeaf enumHitSpec enumHitSpec l v := by
  cases l with
  | deep sp rq => simp [leafIsDeep] at hnd
  | prim ps =>
    cases v <;> try rfl
    next pv =>
      apply visitPS_eq'
      rcases hps with h | h
      · exact Or.inl h
      · exact Or.inr (by simpa [leafHasEnum] using h)
  | untyped en =>
    cases v <;> try rfl
    next pv =>
      rcases hps with h | h
      · simp [visitLeaf, enumHit_eq_of_no32 _ pv h]
      · have : en.isEmpty = true := by simpa [leafHasEnum] using h
        simp [visitLeaf, this]
  | arr items mn mx en =>
    cases v <;> try rfl
    next xs =>
      have hitems : xs.all (visitPS enumHitImpl items) = xs.all (visitPS enumHitSpec items) := by
        apply all_congr'
        intro x hx
        apply visitPS_eq'
        rcases hps with h | h
        · exact Or.inl (h x hx)
        · exact Or.inr (by simpa [leafHasEnum] using h)
      have henum : (en.isEmpty || en.any (fun es => listEq deepEqImpl es xs)) = (en.isEmpty || en.any (fun es => listEq enumHitSpec es xs)) := by
        rcases harr with h | h
        · have : en.isEmpty = true := by simpa [leafArrEnum] using h
          simp [this]
        · congr 1
          exact any_congr' _ _ en (fun es _ => listEq_eq_noInt es xs h)
      simp only [visitLeaf, hitems, henum]
  | obj sprops rq addl =>
    cases v <;> try rfl
    next kvs =>
      simp only [visitLeaf]
      congr 1
      apply all_congr'
      intro kv hkv
      cases hl : sprops.lookup kv.1 with
      | some ps =>
        simp only
        apply visitPS_eq'
        rcases hps with h | h
        · exact Or.inl (h kv hkv)
        · refine Or.inr ?_
          simp only [leafHasEnum, Bool.or_eq_false_iff] at h
          exact any_false_mem _ sprops h.1 (kv.1, ps) (lookup_some_mem kv.1 ps sprops hl)
      | none =>
        simp only
        cases addl with
        | none => rfl
        | some a =>
          simp only
          apply visitPS_eq'
          rcases hps with h | h
          · exact Or.inl (h kv hkv)
          · refine Or.inr ?_
            simp only [leafHasEnum, Bool.or_eq_false_iff] at h
            exact h.2

theorem tag_no32 (t : PT) (v : PV) (ht : tagOK t v = true) (h : t ≠ .int32) : pvNo32 v := by
  intro i e; subst e
  cases t <;> simp_all [tagOK]

theorem tag_noInt (t : PT) (v : PV) (ht : tagOK t v = true) (h : psIsInt { t := t } = false) : pvNoInt v := by
  constructor <;> intro i e <;> subst e <;> cases t <;> simp_all [tagOK, psIsInt]

/-- a value read by a leaf that has no int32 type holds no int32 -/
theorem typed_no32 (l : Leaf) (v : Val) (hnd : leafIsDeep l = false) (ht : TypedVal l v) (h32 : leafHasInt32 l = false) : valNo32 v := by
  cases l with
  | deep sp rq => simp [leafIsDeep] at hnd
  | prim ps =>
    cases v <;> simp only [valNo32, TypedVal] at ht ⊢ <;> try (first | trivial | cases ht)
    next pv => exact tag_no32 ps.t pv ht (by simpa [leafHasInt32] using h32)
  | untyped en =>
    cases v <;> simp only [valNo32, TypedVal] at ht ⊢ <;> first | trivial | cases ht | exact ht
  | arr items mn mx en =>
    cases v <;> simp only [valNo32, TypedVal] at ht ⊢ <;> try (first | trivial | cases ht)
    next xs => exact fun x hx => tag_no32 items.t x (ht x hx) (by simpa [leafHasInt32] using h32)
  | obj sprops rq addl =>
    cases v <;> simp only [valNo32, TypedVal] at ht ⊢ <;> try (first | trivial | cases ht)
    next kvs =>
      simp only [leafHasInt32, Bool.or_eq_false_iff] at h32
      intro kv hkv
      have hk := ht kv hkv
      cases hl : sprops.lookup kv.1 with
      | some ps =>
        simp only [hl] at hk
        have := any_false_mem _ sprops h32.1 (kv.1, ps) (lookup_some_mem kv.1 ps sprops hl)
        exact tag_no32 ps.t kv.2 hk (by simpa using this)
      | none =>
        simp only [hl] at hk
        cases addl with
        | none => cases hk
        | some a =>
          simp only at hk h32
          exact tag_no32 a.t kv.2 hk (by simpa using h32.2)

/-- an array value comes from an array leaf; if that leaf's items are not integers, no item is an integer -/
theorem typed_noIntItems (l : Leaf) (v : Val) (ht : TypedVal l v) (hai : leafArrInt l = false) : valNoIntItems v := by
  cases v <;> simp only [valNoIntItems]
  next xs =>
    cases l <;> simp only [TypedVal] at ht <;> try (cases ht)
    next items mn mx en =>
      intro x hx
      exact tag_noInt items.t x (ht x hx) (by simpa [leafArrInt, psIsInt] using hai)

/-- the value of a composition loop is nil or the value some alternative's decoder returned -/
def FromLeaf (f : Leaf → Out) (L : List Leaf) (v : Val) : Prop := v = .nil ∨ ∃ l ∈ L, v = (f l).val

theorem decAllOf_val (f : Leaf → Out) (L : List Leaf) : ∀ (ls : List Leaf) (fnd : Bool) (last : Out),
    (∀ l ∈ ls, l ∈ L) → FromLeaf f L last.val → FromLeaf f L (decAllOf f ls fnd last).val
  | [], _, _, _, h => h
  | l :: rest, fnd, last, hs, _ => by
    have hl : FromLeaf f L (f l).val := Or.inr ⟨l, hs l (by simp), rfl⟩
    simp only [decAllOf]
    split
    · exact hl
    · exact decAllOf_val f L rest _ _ (fun x hx => hs x (by simp [hx])) hl

theorem decAnyOf_val (f : Leaf → Out) (L : List Leaf) (req : Bool) : ∀ (ls : List Leaf) (fnd : Bool),
    (∀ l ∈ ls, l ∈ L) → FromLeaf f L (decAnyOf f req ls fnd).val
  | [], _, _ => Or.inl rfl
  | l :: rest, fnd, hs => by
    simp only [decAnyOf]
    split
    · exact Or.inr ⟨l, hs l (by simp), rfl⟩
    · exact decAnyOf_val f L req rest _ (fun x hx => hs x (by simp [hx]))

theorem decOneOf_val (f : Leaf → Out) (L : List Leaf) (req : Bool) : ∀ (ls : List Leaf) (fnd : Bool) (cur : Option Val),
    (∀ l ∈ ls, l ∈ L) → (∀ v, cur = some v → FromLeaf f L v) → FromLeaf f L (decOneOf f req ls fnd cur).val
  | [], _, some v, _, h => h v rfl
  | [], _, none, _, _ => Or.inl rfl
  | l :: rest, fnd, cur, hs, h => by
    simp only [decOneOf]
    apply decOneOf_val f L req rest _ _ (fun x hx => hs x (by simp [hx]))
    intro v hv
    split at hv
    · cases hv; exact Or.inr ⟨l, hs l (by simp), rfl⟩
    · exact h v hv

theorem decodeValue_val (fl : Flavour) (c : Cell) (name : Str) (req : Bool) (r : Req) (s : Sch) :
    FromLeaf (decodeLeaf fl c name r) (schLeaves s) (decodeValue fl c name req r s).val := by
  cases s with
  | leaf l => exact Or.inr ⟨l, by simp [schLeaves], rfl⟩
  | allOf ls => exact decAllOf_val _ _ ls _ _ (fun _ h => h) (Or.inl rfl)
  | anyOf ls => exact decAnyOf_val _ _ _ ls _ (fun _ h => h)
  | oneOf ls => exact decOneOf_val _ _ _ ls _ _ (fun _ h => h) (by intro v hv; cases hv)

end KinModel.Style
