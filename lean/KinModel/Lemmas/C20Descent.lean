/- Helper lemmas for C20: the cycle-guarded descent (`validate`) and the unguarded descents. Core only. -/
import KinModel.LoadSafety
namespace KinModel.LoadSafety

theorem filter_len_mono {α} (l : List α) (p q : α → Bool) (h : ∀ x ∈ l, p x = true → q x = true) :
    (l.filter p).length ≤ (l.filter q).length := by
  induction l with
  | nil => simp
  | cons a l ih =>
    have ih' := ih (fun x hx => h x (List.mem_cons_of_mem _ hx))
    simp only [List.filter_cons]
    cases hp : p a <;> cases hq : q a <;> simp <;> try omega
    have := h a (List.mem_cons_self) hp
    simp [hq] at this

theorem filter_len_strict {α} (l : List α) (p q : α → Bool) (h : ∀ x ∈ l, p x = true → q x = true)
    (a : α) (ha : a ∈ l) (hpa : p a = false) (hqa : q a = true) :
    (l.filter p).length < (l.filter q).length := by
  induction l with
  | nil => simp at ha
  | cons b l ih =>
    have hmono := filter_len_mono l p q (fun x hx => h x (List.mem_cons_of_mem _ hx))
    simp only [List.filter_cons]
    rcases List.mem_cons.1 ha with rfl | hmem
    · simp [hpa, hqa]; omega
    · have ih' := ih (fun x hx => h x (List.mem_cons_of_mem _ hx)) hmem
      cases hp : p b <;> cases hq : q b <;> simp <;> try omega
      have := h b (List.mem_cons_self) hp
      simp [hq] at this

theorem unvisited_mono (nodes s s' : List Nat) (h : ∀ x ∈ s, x ∈ s') :
    unvisitedCount nodes s' ≤ unvisitedCount nodes s := by
  unfold unvisitedCount
  apply filter_len_mono
  intro x _ hx
  simp at hx ⊢
  intro hx'; exact hx (by
    -- x ∈ s → x ∈ s' contradicts hx : x ∉ s'
    exact absurd (h x hx') hx |> False.elim)

theorem unvisited_strict (nodes s s' : List Nat) (h : ∀ x ∈ s, x ∈ s') (i : Nat) (hi : i ∈ nodes)
    (his : i ∉ s) (his' : i ∈ s') : unvisitedCount nodes s' < unvisitedCount nodes s := by
  unfold unvisitedCount
  apply filter_len_strict _ _ _ _ i hi
  · simp [his']
  · simp [his]
  · intro x _ hx
    simp at hx ⊢
    intro hx'; exact hx (h x hx')

/-- a graph whose edges stay inside `nodes` -/
def Closed (g : Graph) (nodes : List Nat) : Prop := ∀ i ∈ nodes, ∀ c ∈ g i, c ∈ nodes

theorem foldKids_ok (nodes : List Nat) (f : Nat → List Nat → Option (List Nat)) (base : List Nat)
    (hf : ∀ c ∈ nodes, ∀ s, (∀ x ∈ base, x ∈ s) → ∃ s', f c s = some s' ∧ ∀ x ∈ s, x ∈ s') :
    ∀ (cs : List Nat), (∀ c ∈ cs, c ∈ nodes) → ∀ s, (∀ x ∈ base, x ∈ s) →
      ∃ s', foldKids f cs s = some s' ∧ ∀ x ∈ s, x ∈ s' := by
  intro cs
  induction cs with
  | nil => intro _ s _; exact ⟨s, rfl, fun x hx => hx⟩
  | cons c cs ih =>
    intro hcs s hs
    obtain ⟨s1, h1, hm1⟩ := hf c (hcs c List.mem_cons_self) s hs
    obtain ⟨s2, h2, hm2⟩ := ih (fun c' hc' => hcs c' (List.mem_cons_of_mem _ hc')) s1 (fun x hx => hm1 x (hs x hx))
    exact ⟨s2, by simp [foldKids, h1, h2], fun x hx => hm2 x (hm1 x hx)⟩

theorem validate_total_aux (g : Graph) (nodes : List Nat) (hc : Closed g nodes) :
    ∀ fuel i stack, i ∈ nodes → unvisitedCount nodes stack + 1 ≤ fuel →
      ∃ s', validate g fuel i stack = some s' ∧ ∀ x ∈ stack, x ∈ s' := by
  intro fuel
  induction fuel with
  | zero => intro i stack _ h; omega
  | succ fuel ih =>
    intro i stack hi hfuel
    by_cases hin : stack.contains i = true
    · exact ⟨stack, by unfold validate; rw [if_pos hin], fun x hx => hx⟩
    · have hnot : i ∉ stack := by simpa using hin
      have hlt : unvisitedCount nodes (stack ++ [i]) < unvisitedCount nodes stack :=
        unvisited_strict nodes stack (stack ++ [i]) (fun x hx => by simp [hx]) i hi hnot (by simp)
      have hf : ∀ c ∈ nodes, ∀ s, (∀ x ∈ stack ++ [i], x ∈ s) →
          ∃ s', validate g fuel c s = some s' ∧ ∀ x ∈ s, x ∈ s' := by
        intro c hcn s hs
        have := unvisited_mono nodes (stack ++ [i]) s hs
        exact ih c s hcn (by omega)
      obtain ⟨s', h1, hm⟩ := foldKids_ok nodes (validate g fuel) (stack ++ [i]) hf (g i) (hc i hi) (stack ++ [i]) (fun x hx => hx)
      refine ⟨s', ?_, fun x hx => hm x (by simp [hx])⟩
      unfold validate; rw [if_neg hin]
      exact h1

theorem gdescend_total_aux (g : Graph) (guarded : Nat → Bool) (rank : Nat → Nat) (hr : UnguardedRanked g guarded rank)
    (nodes : List Nat) (hc : Closed g nodes) (R : Nat) (hR : ∀ i ∈ nodes, rank i ≤ R) :
    ∀ fuel i vis, i ∈ nodes → unvisitedCount (nodes.filter guarded) vis * (R + 2) + rank i + 1 ≤ fuel →
      ∃ s', gdescend g guarded fuel i vis = some s' ∧ ∀ x ∈ vis, x ∈ s' := by
  intro fuel
  induction fuel with
  | zero => intro i vis _ h; omega
  | succ fuel ih =>
    intro i vis hi hfuel
    cases hg : guarded i with
    | true =>
      by_cases hin : vis.contains i = true
      · exact ⟨vis, by unfold gdescend; rw [if_pos hg, if_pos hin], fun x hx => hx⟩
      · have hnot : i ∉ vis := by simpa using hin
        have hig : i ∈ nodes.filter guarded := by simp [hi, hg]
        have hlt : unvisitedCount (nodes.filter guarded) (vis ++ [i]) < unvisitedCount (nodes.filter guarded) vis :=
          unvisited_strict _ vis (vis ++ [i]) (fun x hx => by simp [hx]) i hig hnot (by simp)
        have hf : ∀ c ∈ nodes, ∀ s, (∀ x ∈ vis ++ [i], x ∈ s) →
            ∃ s', gdescend g guarded fuel c s = some s' ∧ ∀ x ∈ s, x ∈ s' := by
          intro c hcn s hs
          have hm := unvisited_mono (nodes.filter guarded) (vis ++ [i]) s hs
          have hrc := hR c hcn
          apply ih c s hcn
          have h1 : unvisitedCount (nodes.filter guarded) s + 1 ≤ unvisitedCount (nodes.filter guarded) vis := by omega
          have h2 : (unvisitedCount (nodes.filter guarded) s + 1) * (R + 2) ≤ unvisitedCount (nodes.filter guarded) vis * (R + 2) :=
            Nat.mul_le_mul_right _ h1
          rw [Nat.add_mul] at h2
          omega
        obtain ⟨s', h1, hm⟩ := foldKids_ok nodes (gdescend g guarded fuel) (vis ++ [i]) hf (g i) (hc i hi) (vis ++ [i]) (fun x hx => hx)
        refine ⟨s', ?_, fun x hx => hm x (by simp [hx])⟩
        unfold gdescend; rw [if_pos hg, if_neg hin]
        exact h1
    | false =>
      have hf : ∀ c ∈ g i, ∀ s, (∀ x ∈ vis, x ∈ s) →
          ∃ s', gdescend g guarded fuel c s = some s' ∧ ∀ x ∈ s, x ∈ s' := by
        intro c hcg s hs
        have hm := unvisited_mono (nodes.filter guarded) vis s hs
        have hlt := hr i hg c hcg
        apply ih c s (hc i hi c hcg)
        have h2 : unvisitedCount (nodes.filter guarded) s * (R + 2) ≤ unvisitedCount (nodes.filter guarded) vis * (R + 2) :=
          Nat.mul_le_mul_right _ hm
        omega
      -- the children of an unguarded object: fold with the hypothesis restricted to `g i`
      have key : ∀ (cs : List Nat), (∀ c ∈ cs, c ∈ g i) → ∀ s, (∀ x ∈ vis, x ∈ s) →
          ∃ s', foldKids (gdescend g guarded fuel) cs s = some s' ∧ ∀ x ∈ s, x ∈ s' := by
        intro cs
        induction cs with
        | nil => intro _ s _; exact ⟨s, rfl, fun x hx => hx⟩
        | cons c cs ihc =>
          intro hcs s hs
          obtain ⟨s1, h1, hm1⟩ := hf c (hcs c List.mem_cons_self) s hs
          obtain ⟨s2, h2, hm2⟩ := ihc (fun c' hc' => hcs c' (List.mem_cons_of_mem _ hc')) s1 (fun x hx => hm1 x (hs x hx))
          exact ⟨s2, by simp [foldKids, h1, h2], fun x hx => hm2 x (hm1 x hx)⟩
      obtain ⟨s', h1, hm⟩ := key (g i) (fun c hc => hc) vis (fun x hx => hx)
      refine ⟨s', ?_, hm⟩
      unfold gdescend; rw [if_neg (by simp [hg])]
      exact h1

/-- an unguarded self-loop runs out of every amount of fuel -/
theorem gdescend_selfloop (fuel : Nat) : gdescend (fun _ => [0]) (fun _ => false) fuel 0 [] = none := by
  induction fuel with
  | zero => rfl
  | succ fuel ih => simp [gdescend, foldKids, ih]

/-- a self-loop whose edge drops the stack never terminates -/
theorem validateDropping_selfloop (fuel : Nat) :
    validateDropping (fun _ => [0]) (fun _ _ => true) fuel 0 [] = none := by
  induction fuel with
  | zero => rfl
  | succ fuel ih => simp [validateDropping, foldKids, ih]

/-! unguarded descents -/

theorem allKids_some (f : Nat → Option Bool) : ∀ cs : List Nat, (∀ c ∈ cs, ∃ b, f c = some b) → ∃ b, allKids f cs = some b := by
  intro cs
  induction cs with
  | nil => intro _; exact ⟨true, rfl⟩
  | cons c cs ih =>
    intro h
    obtain ⟨b, hb⟩ := h c List.mem_cons_self
    cases b with
    | false => exact ⟨false, by simp [allKids, hb]⟩
    | true =>
      obtain ⟨b', hb'⟩ := ih (fun c' hc' => h c' (List.mem_cons_of_mem _ hc'))
      exact ⟨b', by simp [allKids, hb, hb']⟩

theorem descend_total_aux (g : Graph) (stop : Nat → Bool) (rank : Nat → Nat) (hr : Ranked g stop rank) :
    ∀ fuel i, rank i + 1 ≤ fuel → ∃ b, descend g stop fuel i = some b := by
  intro fuel
  induction fuel with
  | zero => intro i h; omega
  | succ fuel ih =>
    intro i hfuel
    cases hs : stop i with
    | true => exact ⟨false, by simp [descend, hs]⟩
    | false =>
      simp only [descend, hs]
      apply allKids_some
      intro c hc
      have := hr i hs c hc
      exact ih c (by omega)

/-- an edge from a non-stopping node to itself: the descent runs out of every amount of fuel -/
theorem descend_selfloop (g : Graph) (stop : Nat → Bool) (i : Nat) (hs : stop i = false) (hg : g i = [i]) :
    ∀ fuel, descend g stop fuel i = none := by
  intro fuel
  induction fuel with
  | zero => rfl
  | succ fuel ih => simp [descend, hs, hg, allKids, ih]

end KinModel.LoadSafety
