/-
C16 — concrete heaps (abstractions of loaded documents) of the witness, regression and non-vacuity theorems of
Props/C16.lean. GENERATED from corpus/C16/<case>.json by tools/c16_heap2lean.py (the `heap` member of a case is what the
harness extracts from the real loader and re-derives on every run; the driver parses the same member).
-/
import KinModel.Internalize
namespace KinModel.Internalize.Heaps
open KinModel.Internalize

/-- corpus/C16/f17-underscore-vs-slash.json -/
def hCollision : Heap :=
  { root := some ("openapi.json".toList), hasComp := true, validBefore := true,
    cells := #[{ k := "schemas".toList, ref := "".toList, refPath := none, val := 0 },
      { k := "schemas".toList, ref := "s/a_b.json".toList, refPath := some ("s/a_b.json".toList, "".toList), val := 1 },
      { k := "schemas".toList, ref := "".toList, refPath := none, val := 2 },
      { k := "schemas".toList, ref := "s/a/b.json".toList, refPath := some ("s/a/b.json".toList, "".toList), val := 3 }],
    vals := #[{ t := "S", cc := "0513d6b25518", ch := [1], schema := (-1), content := [], headers := [], links := [], items := [], pex := [], dmap := [] },
      { t := "S", cc := "f4ee7f3401fa", ch := [], schema := (-1), content := [], headers := [], links := [], items := [], pex := [], dmap := [] },
      { t := "S", cc := "06ba46308eac", ch := [3], schema := (-1), content := [], headers := [], links := [], items := [], pex := [], dmap := [] },
      { t := "S", cc := "81045249cf20", ch := [], schema := (-1), content := [], headers := [], links := [], items := [], pex := [], dmap := [] }],
    pis := #[],
    comps := [("schemas".toList, "A".toList, 0), ("schemas".toList, "B".toList, 2)],
    paths := [] }

/-- corpus/C16/self-response.json -/
def hSelfResponse : Heap :=
  { root := some ("openapi.json".toList), hasComp := true, validBefore := true,
    cells := #[{ k := "responses".toList, ref := "ext.json".toList, refPath := some ("ext.json".toList, "".toList), val := 0 },
      { k := "schemas".toList, ref := "".toList, refPath := none, val := 1 },
      { k := "responses".toList, ref := "#/components/responses/ext".toList, refPath := some ("ext.json".toList, "".toList), val := 0 }],
    vals := #[{ t := "R", cc := "96a0cb9a5dd9", ch := [], schema := (-1), content := [{ schema := 1, ex := [], enc := [] }], headers := [], links := [], items := [], pex := [], dmap := [] },
      { t := "S", cc := "f4ee7f3401fa", ch := [], schema := (-1), content := [], headers := [], links := [], items := [], pex := [], dmap := [] }],
    pis := #[{ ref := "".toList, params := [], ops := [{ rb := (-1), cbs := [], resps := [2], params := [] }] }],
    comps := [("responses".toList, "ext".toList, 0)],
    paths := [0] }

/-- corpus/C16/comp-link-external.json -/
def hSelfLink : Heap :=
  { root := some ("openapi.json".toList), hasComp := true, validBefore := true,
    cells := #[{ k := "links".toList, ref := "l.json".toList, refPath := some ("l.json".toList, "".toList), val := 0 }],
    vals := #[{ t := "X", cc := "42f0f1d0d933", ch := [], schema := (-1), content := [], headers := [], links := [], items := [], pex := [], dmap := [] }],
    pis := #[],
    comps := [("links".toList, "L".toList, 0)],
    paths := [] }

/-- corpus/C16/flag-dropped-inline-path-item-of-external-callback.json -/
def hFlagDropped : Heap :=
  { root := some ("openapi.json".toList), hasComp := true, validBefore := true,
    cells := #[{ k := "callbacks".toList, ref := "sub/defs2.json#/components/callbacks/N2".toList, refPath := some ("sub/defs2.json".toList, "/components/callbacks/N2".toList), val := 0 },
      { k := "responses".toList, ref := "".toList, refPath := none, val := 1 },
      { k := "parameters".toList, ref := "".toList, refPath := none, val := 2 },
      { k := "schemas".toList, ref := "#/components/schemas/N8".toList, refPath := some ("sub/defs2.json".toList, "/components/schemas/N8".toList), val := 3 }],
    vals := #[{ t := "C", cc := "97a0b22e24f3", ch := [], schema := (-1), content := [], headers := [], links := [], items := [0], pex := [], dmap := [] },
      { t := "R", cc := "535da5fc959b", ch := [], schema := (-1), content := [], headers := [], links := [], items := [], pex := [], dmap := [] },
      { t := "P", cc := "f5209b248cdc", ch := [], schema := 3, content := [], headers := [], links := [], items := [], pex := [], dmap := [] },
      { t := "S", cc := "ef3d780d6441", ch := [], schema := (-1), content := [], headers := [], links := [], items := [], pex := [], dmap := [] }],
    pis := #[{ ref := "".toList, params := [], ops := [{ rb := (-1), cbs := [], resps := [1], params := [2] }] }],
    comps := [("callbacks".toList, "T1".toList, 0)],
    paths := [] }

/-- corpus/C16/ext-value-first-reached-internally.json -/
def hFirstReachedInternally : Heap :=
  { root := some ("openapi.json".toList), hasComp := true, validBefore := true,
    cells := #[{ k := "schemas".toList, ref := "".toList, refPath := none, val := 0 },
      { k := "schemas".toList, ref := "#/components/schemas/X".toList, refPath := some ("openapi.json".toList, "/components/schemas/X".toList), val := 1 },
      { k := "schemas".toList, ref := "#/components/schemas/Z".toList, refPath := some ("e.json".toList, "/components/schemas/Z".toList), val := 2 },
      { k := "schemas".toList, ref := "e.json#/components/schemas/Y".toList, refPath := some ("openapi.json".toList, "/components/schemas/X".toList), val := 1 }],
    vals := #[{ t := "S", cc := "62b343c9e485", ch := [1], schema := (-1), content := [], headers := [], links := [], items := [], pex := [], dmap := [] },
      { t := "S", cc := "9f07d11503c1", ch := [2], schema := (-1), content := [], headers := [], links := [], items := [], pex := [], dmap := [] },
      { t := "S", cc := "f4ee7f3401fa", ch := [], schema := (-1), content := [], headers := [], links := [], items := [], pex := [], dmap := [] }],
    pis := #[],
    comps := [("schemas".toList, "A".toList, 0), ("schemas".toList, "X".toList, 3)],
    paths := [] }

/-- corpus/C16/param-example-external.json -/
def hParamExample : Heap :=
  { root := some ("openapi.json".toList), hasComp := true, validBefore := true,
    cells := #[{ k := "responses".toList, ref := "".toList, refPath := none, val := 0 },
      { k := "parameters".toList, ref := "".toList, refPath := none, val := 1 },
      { k := "schemas".toList, ref := "".toList, refPath := none, val := 2 },
      { k := "examples".toList, ref := "ex.json".toList, refPath := some ("ex.json".toList, "".toList), val := 3 }],
    vals := #[{ t := "R", cc := "535da5fc959b", ch := [], schema := (-1), content := [], headers := [], links := [], items := [], pex := [], dmap := [] },
      { t := "P", cc := "e1184babb54c", ch := [], schema := 2, content := [], headers := [], links := [], items := [], pex := [3], dmap := [] },
      { t := "S", cc := "4a4b1fc9f8a9", ch := [], schema := (-1), content := [], headers := [], links := [], items := [], pex := [], dmap := [] },
      { t := "X", cc := "41ab5e0b7852", ch := [], schema := (-1), content := [], headers := [], links := [], items := [], pex := [], dmap := [] }],
    pis := #[{ ref := "".toList, params := [], ops := [{ rb := (-1), cbs := [], resps := [0], params := [1] }] }],
    comps := [],
    paths := [0] }

/-- corpus/C16/header-example-in-imported-file.json -/
def hHeaderExampleImported : Heap :=
  { root := some ("openapi.json".toList), hasComp := true, validBefore := true,
    cells := #[{ k := "responses".toList, ref := "".toList, refPath := none, val := 0 },
      { k := "headers".toList, ref := "defs.json#/components/headers/HD".toList, refPath := some ("defs.json".toList, "/components/headers/HD".toList), val := 1 },
      { k := "schemas".toList, ref := "".toList, refPath := none, val := 2 },
      { k := "examples".toList, ref := "#/components/examples/E".toList, refPath := some ("defs.json".toList, "/components/examples/E".toList), val := 3 }],
    vals := #[{ t := "R", cc := "01c82cf25fe6", ch := [], schema := (-1), content := [], headers := [1], links := [], items := [], pex := [], dmap := [] },
      { t := "P", cc := "7f80e05cea84", ch := [], schema := 2, content := [], headers := [], links := [], items := [], pex := [3], dmap := [] },
      { t := "S", cc := "4a4b1fc9f8a9", ch := [], schema := (-1), content := [], headers := [], links := [], items := [], pex := [], dmap := [] },
      { t := "X", cc := "41ab5e0b7852", ch := [], schema := (-1), content := [], headers := [], links := [], items := [], pex := [], dmap := [] }],
    pis := #[{ ref := "".toList, params := [], ops := [{ rb := (-1), cbs := [], resps := [0], params := [] }] }],
    comps := [],
    paths := [0] }

/-- corpus/C16/discriminator-mapping-external.json -/
def hDiscriminator : Heap :=
  { root := some ("openapi.json".toList), hasComp := true, validBefore := true,
    cells := #[{ k := "schemas".toList, ref := "".toList, refPath := none, val := 0 },
      { k := "schemas".toList, ref := "dog.json".toList, refPath := some ("dog.json".toList, "".toList), val := 1 },
      { k := "schemas".toList, ref := "".toList, refPath := none, val := 2 },
      { k := "schemas".toList, ref := "".toList, refPath := none, val := 3 },
      { k := "schemas".toList, ref := "cat.json".toList, refPath := some ("cat.json".toList, "".toList), val := 4 },
      { k := "schemas".toList, ref := "".toList, refPath := none, val := 5 },
      { k := "schemas".toList, ref := "".toList, refPath := none, val := 6 }],
    vals := #[{ t := "S", cc := "1e44fb803222", ch := [1, 4], schema := (-1), content := [], headers := [], links := [], items := [], pex := [], dmap := [("cat.json".toList, 4), ("dog.json".toList, 1)] },
      { t := "S", cc := "282a0ebc0abd", ch := [2, 3], schema := (-1), content := [], headers := [], links := [], items := [], pex := [], dmap := [] },
      { t := "S", cc := "fc6e7c647418", ch := [], schema := (-1), content := [], headers := [], links := [], items := [], pex := [], dmap := [] },
      { t := "S", cc := "7951079d4d83", ch := [], schema := (-1), content := [], headers := [], links := [], items := [], pex := [], dmap := [] },
      { t := "S", cc := "921a5ddc4904", ch := [5, 6], schema := (-1), content := [], headers := [], links := [], items := [], pex := [], dmap := [] },
      { t := "S", cc := "7951079d4d83", ch := [], schema := (-1), content := [], headers := [], links := [], items := [], pex := [], dmap := [] },
      { t := "S", cc := "4a4b1fc9f8a9", ch := [], schema := (-1), content := [], headers := [], links := [], items := [], pex := [], dmap := [] }],
    pis := #[],
    comps := [("schemas".toList, "Pet".toList, 0)],
    paths := [] }

/-- corpus/C16/inline-callback-cycle.json -/
def hInlineCycle : Heap :=
  { root := some ("openapi.json".toList), hasComp := true, validBefore := true,
    cells := #[{ k := "callbacks".toList, ref := "".toList, refPath := none, val := 0 },
      { k := "responses".toList, ref := "".toList, refPath := none, val := 1 }],
    vals := #[{ t := "C", cc := "c5d438b9ffbb", ch := [], schema := (-1), content := [], headers := [], links := [], items := [1], pex := [], dmap := [] },
      { t := "R", cc := "535da5fc959b", ch := [], schema := (-1), content := [], headers := [], links := [], items := [], pex := [], dmap := [] }],
    pis := #[{ ref := "".toList, params := [], ops := [{ rb := (-1), cbs := [0], resps := [1], params := [] }] },
      { ref := "#/paths/~1x".toList, params := [], ops := [{ rb := (-1), cbs := [0], resps := [1], params := [] }] }],
    comps := [],
    paths := [0] }

/-- corpus/C16/loader-unresolved-below-path-item-element-ref.json -/
def hLoaderUnresolved : Heap :=
  { root := some ("openapi.json".toList), hasComp := true, validBefore := false,
    cells := #[{ k := "links".toList, ref := "defs.json#/components/links/N9".toList, refPath := some ("openapi.json".toList, "/components/links/L8".toList), val := 0 },
      { k := "responses".toList, ref := "res6.json".toList, refPath := some ("res6.json".toList, "".toList), val := 1 },
      { k := "links".toList, ref := "openapi.json#/components/links/L8".toList, refPath := some ("openapi.json".toList, "/components/links/L8".toList), val := (-1) }],
    vals := #[{ t := "X", cc := "a6b555874245", ch := [], schema := (-1), content := [], headers := [], links := [], items := [], pex := [], dmap := [] },
      { t := "R", cc := "ef032447f70d", ch := [], schema := (-1), content := [], headers := [], links := [2], items := [], pex := [], dmap := [] }],
    pis := #[{ ref := "defs.json#/paths/~1p".toList, params := [], ops := [{ rb := (-1), cbs := [], resps := [1], params := [] }] }],
    comps := [("links".toList, "L8".toList, 0)],
    paths := [0] }

/-- corpus/C16/f41-encoding-header-ref.json -/
def hEncHeaderInternal : Heap :=
  { root := some ("openapi.json".toList), hasComp := true, validBefore := true,
    cells := #[{ k := "headers".toList, ref := "".toList, refPath := some ("openapi.json".toList, "/components/headers/HH".toList), val := 0 },
      { k := "schemas".toList, ref := "".toList, refPath := none, val := 1 },
      { k := "requestBodies".toList, ref := "".toList, refPath := none, val := 2 },
      { k := "schemas".toList, ref := "".toList, refPath := none, val := 3 },
      { k := "schemas".toList, ref := "".toList, refPath := none, val := 4 },
      { k := "headers".toList, ref := "#/components/headers/HH".toList, refPath := some ("openapi.json".toList, "/components/headers/HH".toList), val := 0 },
      { k := "responses".toList, ref := "".toList, refPath := none, val := 5 }],
    vals := #[{ t := "P", cc := "c4380b743c8c", ch := [], schema := 1, content := [], headers := [], links := [], items := [], pex := [], dmap := [] },
      { t := "S", cc := "d8c83e8d272c", ch := [], schema := (-1), content := [], headers := [], links := [], items := [], pex := [], dmap := [] },
      { t := "B", cc := "c5ad5448960a", ch := [], schema := (-1), content := [{ schema := 3, ex := [], enc := [[5]] }], headers := [], links := [], items := [], pex := [], dmap := [] },
      { t := "S", cc := "e49f7babcd1e", ch := [4], schema := (-1), content := [], headers := [], links := [], items := [], pex := [], dmap := [] },
      { t := "S", cc := "503c855f68ed", ch := [], schema := (-1), content := [], headers := [], links := [], items := [], pex := [], dmap := [] },
      { t := "R", cc := "015ecbdfa895", ch := [], schema := (-1), content := [], headers := [], links := [], items := [], pex := [], dmap := [] }],
    pis := #[{ ref := "".toList, params := [], ops := [{ rb := 2, cbs := [], resps := [6], params := [] }] }],
    comps := [("headers".toList, "HH".toList, 0)],
    paths := [0] }

/-- corpus/C16/enc-header-external.json -/
def hEncHeaderExternal : Heap :=
  { root := some ("openapi.json".toList), hasComp := true, validBefore := true,
    cells := #[{ k := "requestBodies".toList, ref := "".toList, refPath := none, val := 0 },
      { k := "schemas".toList, ref := "".toList, refPath := none, val := 1 },
      { k := "schemas".toList, ref := "".toList, refPath := none, val := 2 },
      { k := "headers".toList, ref := "h.json".toList, refPath := some ("h.json".toList, "".toList), val := 3 },
      { k := "schemas".toList, ref := "".toList, refPath := none, val := 4 },
      { k := "responses".toList, ref := "".toList, refPath := none, val := 5 }],
    vals := #[{ t := "B", cc := "e19c16bec901", ch := [], schema := (-1), content := [{ schema := 1, ex := [], enc := [[3]] }], headers := [], links := [], items := [], pex := [], dmap := [] },
      { t := "S", cc := "e49f7babcd1e", ch := [2], schema := (-1), content := [], headers := [], links := [], items := [], pex := [], dmap := [] },
      { t := "S", cc := "503c855f68ed", ch := [], schema := (-1), content := [], headers := [], links := [], items := [], pex := [], dmap := [] },
      { t := "P", cc := "a12438d408d7", ch := [], schema := 4, content := [], headers := [], links := [], items := [], pex := [], dmap := [] },
      { t := "S", cc := "ef3d780d6441", ch := [], schema := (-1), content := [], headers := [], links := [], items := [], pex := [], dmap := [] },
      { t := "R", cc := "015ecbdfa895", ch := [], schema := (-1), content := [], headers := [], links := [], items := [], pex := [], dmap := [] }],
    pis := #[{ ref := "".toList, params := [], ops := [{ rb := 0, cbs := [], resps := [5], params := [] }] }],
    comps := [],
    paths := [0] }

/-- corpus/C16/wrongrefpath-link-empty-name.json -/
def hLinkWholeFile : Heap :=
  { root := some ("openapi.json".toList), hasComp := true, validBefore := true,
    cells := #[{ k := "responses".toList, ref := "".toList, refPath := none, val := 0 },
      { k := "links".toList, ref := "./common/lin5.json".toList, refPath := some ("common/lin5.json".toList, "".toList), val := 1 }],
    vals := #[{ t := "R", cc := "38150d423d0c", ch := [], schema := (-1), content := [], headers := [], links := [1], items := [], pex := [], dmap := [] },
      { t := "X", cc := "94d259f2fe51", ch := [], schema := (-1), content := [], headers := [], links := [], items := [], pex := [], dmap := [] }],
    pis := #[{ ref := "".toList, params := [], ops := [{ rb := (-1), cbs := [], resps := [0], params := [] }] }],
    comps := [],
    paths := [0] }

/-- corpus/C16/callback-cycle.json -/
def hCallbackCycle : Heap :=
  { root := some ("openapi.json".toList), hasComp := true, validBefore := true,
    cells := #[{ k := "callbacks".toList, ref := "".toList, refPath := some ("openapi.json".toList, "/components/callbacks/cb".toList), val := 0 },
      { k := "callbacks".toList, ref := "#/components/callbacks/cb".toList, refPath := some ("openapi.json".toList, "/components/callbacks/cb".toList), val := 0 },
      { k := "responses".toList, ref := "".toList, refPath := none, val := 1 }],
    vals := #[{ t := "C", cc := "ee77ae01eb30", ch := [], schema := (-1), content := [], headers := [], links := [], items := [0], pex := [], dmap := [] },
      { t := "R", cc := "535da5fc959b", ch := [], schema := (-1), content := [], headers := [], links := [], items := [], pex := [], dmap := [] }],
    pis := #[{ ref := "".toList, params := [], ops := [{ rb := (-1), cbs := [1], resps := [2], params := [] }] }],
    comps := [("callbacks".toList, "cb".toList, 0)],
    paths := [] }

/-- corpus/C16/callback-cycle-via-paths.json -/
def hCallbackCycleViaPaths : Heap :=
  { root := some ("openapi.json".toList), hasComp := true, validBefore := true,
    cells := #[{ k := "callbacks".toList, ref := "".toList, refPath := some ("openapi.json".toList, "/components/callbacks/C".toList), val := 0 },
      { k := "callbacks".toList, ref := "#/components/callbacks/C".toList, refPath := some ("openapi.json".toList, "/components/callbacks/C".toList), val := 0 },
      { k := "responses".toList, ref := "".toList, refPath := none, val := 1 }],
    vals := #[{ t := "C", cc := "0946196f2510", ch := [], schema := (-1), content := [], headers := [], links := [], items := [0], pex := [], dmap := [] },
      { t := "R", cc := "535da5fc959b", ch := [], schema := (-1), content := [], headers := [], links := [], items := [], pex := [], dmap := [] }],
    pis := #[{ ref := "#/paths/~1a".toList, params := [], ops := [{ rb := (-1), cbs := [1], resps := [2], params := [] }] },
      { ref := "".toList, params := [], ops := [{ rb := (-1), cbs := [1], resps := [2], params := [] }] }],
    comps := [("callbacks".toList, "C".toList, 0)],
    paths := [1] }

/-- corpus/C16/m1-shape-whole-and-element.json -/
def hWholeAndElement : Heap :=
  { root := some ("openapi.json".toList), hasComp := true, validBefore := true,
    cells := #[{ k := "schemas".toList, ref := "".toList, refPath := none, val := 0 },
      { k := "schemas".toList, ref := "schemas/record.json#/properties/id".toList, refPath := some ("schemas/record.json".toList, "/properties/id".toList), val := 1 },
      { k := "schemas".toList, ref := "schemas/record.json".toList, refPath := some ("schemas/record.json".toList, "".toList), val := 2 },
      { k := "schemas".toList, ref := "".toList, refPath := none, val := 3 }],
    vals := #[{ t := "S", cc := "e9933da9bca8", ch := [1], schema := (-1), content := [], headers := [], links := [], items := [], pex := [], dmap := [] },
      { t := "S", cc := "c9bbaa0b1beb", ch := [], schema := (-1), content := [], headers := [], links := [], items := [], pex := [], dmap := [] },
      { t := "S", cc := "e9933da9bca8", ch := [3], schema := (-1), content := [], headers := [], links := [], items := [], pex := [], dmap := [] },
      { t := "S", cc := "c9bbaa0b1beb", ch := [], schema := (-1), content := [], headers := [], links := [], items := [], pex := [], dmap := [] }],
    pis := #[],
    comps := [("schemas".toList, "Envelope".toList, 0), ("schemas".toList, "Record".toList, 2)],
    paths := [] }

/-- corpus/C16/shared-header-twice.json -/
def hSharedHeader : Heap :=
  { root := some ("openapi.json".toList), hasComp := true, validBefore := true,
    cells := #[{ k := "responses".toList, ref := "".toList, refPath := none, val := 0 },
      { k := "headers".toList, ref := "common/h.json#/components/headers/RL".toList, refPath := some ("common/h.json".toList, "/components/headers/RL".toList), val := 1 },
      { k := "schemas".toList, ref := "".toList, refPath := none, val := 2 },
      { k := "responses".toList, ref := "".toList, refPath := none, val := 3 },
      { k := "headers".toList, ref := "common/h.json#/components/headers/RL".toList, refPath := some ("common/h.json".toList, "/components/headers/RL".toList), val := 1 }],
    vals := #[{ t := "R", cc := "01dca89d3bf4", ch := [], schema := (-1), content := [], headers := [1], links := [], items := [], pex := [], dmap := [] },
      { t := "P", cc := "a12438d408d7", ch := [], schema := 2, content := [], headers := [], links := [], items := [], pex := [], dmap := [] },
      { t := "S", cc := "ef3d780d6441", ch := [], schema := (-1), content := [], headers := [], links := [], items := [], pex := [], dmap := [] },
      { t := "R", cc := "a5f3007a1adc", ch := [], schema := (-1), content := [], headers := [4], links := [], items := [], pex := [], dmap := [] }],
    pis := #[{ ref := "".toList, params := [], ops := [{ rb := (-1), cbs := [], resps := [0, 3], params := [] }] }],
    comps := [],
    paths := [0] }

/-- corpus/C16/fix18-absolute-root-backref.json -/
def hAbsoluteBackref : Heap :=
  { root := some ("/r/a/openapi.json".toList), hasComp := true, validBefore := true,
    cells := #[{ k := "schemas".toList, ref := "".toList, refPath := some ("/r/a/openapi.json".toList, "/components/schemas/R".toList), val := 0 },
      { k := "schemas".toList, ref := "ext.json".toList, refPath := some ("/r/a/ext.json".toList, "".toList), val := 1 },
      { k := "schemas".toList, ref := "openapi.json#/components/schemas/R".toList, refPath := some ("/r/a/openapi.json".toList, "/components/schemas/R".toList), val := 0 }],
    vals := #[{ t := "S", cc := "f4ee7f3401fa", ch := [], schema := (-1), content := [], headers := [], links := [], items := [], pex := [], dmap := [] },
      { t := "S", cc := "0513d6b25518", ch := [2], schema := (-1), content := [], headers := [], links := [], items := [], pex := [], dmap := [] }],
    pis := #[],
    comps := [("schemas".toList, "R".toList, 0), ("schemas".toList, "S".toList, 1)],
    paths := [] }

/-- corpus/C16/path-item-chain.json -/
def hPathItemChain : Heap :=
  { root := some ("openapi.json".toList), hasComp := true, validBefore := true,
    cells := #[{ k := "responses".toList, ref := "r.json".toList, refPath := some ("r.json".toList, "".toList), val := 0 }],
    vals := #[{ t := "R", cc := "b4c3dccdc5f5", ch := [], schema := (-1), content := [], headers := [], links := [], items := [], pex := [], dmap := [] }],
    pis := #[{ ref := "#/paths/~1b".toList, params := [], ops := [{ rb := (-1), cbs := [], resps := [0], params := [] }] },
      { ref := "#/paths/~1c".toList, params := [], ops := [{ rb := (-1), cbs := [], resps := [0], params := [] }] },
      { ref := "".toList, params := [], ops := [{ rb := (-1), cbs := [], resps := [0], params := [] }] }],
    comps := [],
    paths := [0, 1, 2] }

/-- corpus/C16/same-name-response-then-request-body.json -/
def hSameName : Heap :=
  { root := some ("openapi.json".toList), hasComp := true, validBefore := true,
    cells := #[{ k := "responses".toList, ref := "common.json#/components/responses/Item".toList, refPath := some ("common.json".toList, "/components/responses/Item".toList), val := 0 },
      { k := "requestBodies".toList, ref := "common.json#/components/requestBodies/Item".toList, refPath := some ("common.json".toList, "/components/requestBodies/Item".toList), val := 1 },
      { k := "schemas".toList, ref := "".toList, refPath := none, val := 2 },
      { k := "responses".toList, ref := "".toList, refPath := none, val := 3 }],
    vals := #[{ t := "R", cc := "eb9a65d3c796", ch := [], schema := (-1), content := [], headers := [], links := [], items := [], pex := [], dmap := [] },
      { t := "B", cc := "cbde40721be9", ch := [], schema := (-1), content := [{ schema := 2, ex := [], enc := [] }], headers := [], links := [], items := [], pex := [], dmap := [] },
      { t := "S", cc := "740dfc6ffed1", ch := [], schema := (-1), content := [], headers := [], links := [], items := [], pex := [], dmap := [] },
      { t := "R", cc := "015ecbdfa895", ch := [], schema := (-1), content := [], headers := [], links := [], items := [], pex := [], dmap := [] }],
    pis := #[{ ref := "".toList, params := [], ops := [{ rb := (-1), cbs := [], resps := [0], params := [] }] },
      { ref := "".toList, params := [], ops := [{ rb := 1, cbs := [], resps := [3], params := [] }] }],
    comps := [],
    paths := [0, 1] }

/-- corpus/C16/media-type-without-schema.json -/
def hNoSchemaMT : Heap :=
  { root := some ("openapi.json".toList), hasComp := true, validBefore := true,
    cells := #[{ k := "requestBodies".toList, ref := "".toList, refPath := none, val := 0 },
      { k := "headers".toList, ref := "h.json".toList, refPath := some ("h.json".toList, "".toList), val := 1 },
      { k := "schemas".toList, ref := "".toList, refPath := none, val := 2 },
      { k := "examples".toList, ref := "ex.json".toList, refPath := some ("ex.json".toList, "".toList), val := 3 },
      { k := "responses".toList, ref := "".toList, refPath := none, val := 4 }],
    vals := #[{ t := "B", cc := "d110250d5a20", ch := [], schema := (-1), content := [{ schema := (-1), ex := [], enc := [[1]] }, { schema := (-1), ex := [3], enc := [] }], headers := [], links := [], items := [], pex := [], dmap := [] },
      { t := "P", cc := "a12438d408d7", ch := [], schema := 2, content := [], headers := [], links := [], items := [], pex := [], dmap := [] },
      { t := "S", cc := "ef3d780d6441", ch := [], schema := (-1), content := [], headers := [], links := [], items := [], pex := [], dmap := [] },
      { t := "X", cc := "41ab5e0b7852", ch := [], schema := (-1), content := [], headers := [], links := [], items := [], pex := [], dmap := [] },
      { t := "R", cc := "015ecbdfa895", ch := [], schema := (-1), content := [], headers := [], links := [], items := [], pex := [], dmap := [] }],
    pis := #[{ ref := "".toList, params := [], ops := [{ rb := 0, cbs := [], resps := [4], params := [] }] }],
    comps := [],
    paths := [0] }

/-- corpus/C16/path-item-file-chain.json -/
def hPathItemFileChain : Heap :=
  { root := some ("openapi.json".toList), hasComp := true, validBefore := true,
    cells := #[{ k := "responses".toList, ref := "r.json".toList, refPath := some ("sub/r.json".toList, "".toList), val := 0 }],
    vals := #[{ t := "R", cc := "535da5fc959b", ch := [], schema := (-1), content := [], headers := [], links := [], items := [], pex := [], dmap := [] }],
    pis := #[{ ref := "p1.json".toList, params := [], ops := [{ rb := (-1), cbs := [], resps := [0], params := [] }] }],
    comps := [],
    paths := [0] }

end KinModel.Internalize.Heaps
