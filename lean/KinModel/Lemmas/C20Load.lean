/- Helper lemmas for C20: the abstract loader (`resolve`): the in-progress set only grows along a walk,
   termination bound, absence of panics under the exclusions. Core only. -/
import KinModel.LoadSafety
import KinModel.Lemmas.C20Descent
namespace KinModel.LoadSafety

/-- `a`'s in-progress texts are still in progress in `b` -/
def Sub (a b : St) : Prop := ∀ x ∈ a.inprog, x ∈ b.inprog

theorem Sub.refl (a : St) : Sub a a := fun _ h => h
theorem Sub.trans {a b c : St} (h1 : Sub a b) (h2 : Sub b c) : Sub a c := fun x hx => h2 x (h1 x hx)

/-- a result that carries a state -/
def Res.st? : Res → Option St
  | .ok s => some s | .errMust _ s => some s | _ => none

theorem stepKids_st (f : Node → St → Res) (P : St → St → Prop) (hrefl : ∀ s, P s s)
    (htrans : ∀ a b c, P a b → P b c → P a c) :
    ∀ (ks : List Node) (st st' : St), (∀ k ∈ ks, ∀ s s', (f k s).st? = some s' → P s s') →
      (stepKids f ks st).st? = some st' → P st st' := by
  intro ks
  induction ks with
  | nil => intro st st' _ h; simp [stepKids, Res.st?] at h; subst h; exact hrefl _
  | cons k ks ih =>
    intro st st' hf h
    simp only [stepKids] at h
    cases hk : f k st with
    | ok s1 =>
      simp only [hk] at h
      have h1 := hf k List.mem_cons_self st s1 (by simp [hk, Res.st?])
      exact htrans _ _ _ h1 (ih s1 st' (fun k' hk' => hf k' (List.mem_cons_of_mem _ hk')) h)
    | errMust k1 s1 =>
      simp [hk, Res.st?] at h; subst h
      exact hf k List.mem_cons_self st s1 (by simp [hk, Res.st?])
    | err => simp [hk, Res.st?] at h
    | panic s => simp [hk, Res.st?] at h
    | outOfFuel => simp [hk, Res.st?] at h

/-- what `unvisit`/`unvisitNil` leave in progress -/
theorem erase_keeps (l : List Key) (t x : Key) (hx : x ∈ l) (hne : x ≠ t) : x ∈ l.erase t :=
  (List.mem_erase_of_ne hne).2 hx

theorem finish_st (cfg : Cfg) (n' : Node) (kind : Kind) (id : Nat) (t : Key) (r : Res) (st' : St)
    (h : (finish cfg n' kind id t r).st? = some st') :
    ∃ s2, r.st? = some s2 ∧ ∀ x ∈ s2.inprog, x ≠ t → x ∈ st'.inprog := by
  cases r with
  | ok s2 =>
    refine ⟨s2, rfl, ?_⟩
    simp only [finish] at h
    split at h
    · split at h
      · simp [Res.st?] at h; subst h; intro x hx hne; exact erase_keeps _ _ _ hx hne
      · simp [Res.st?] at h
    · simp [Res.st?] at h; subst h; intro x hx hne; exact erase_keeps _ _ _ hx hne
  | errMust k2 s2 =>
    refine ⟨s2, rfl, ?_⟩
    simp only [finish] at h
    split at h
    · simp [Res.st?] at h; subst h; intro x hx _; exact hx
    · simp [Res.st?] at h; subst h; intro x hx _; exact hx
  | err => simp [finish, Res.st?] at h
  | panic s => simp [finish, Res.st?] at h
  | outOfFuel => simp [finish, Res.st?] at h

theorem finishSingle_st (cfg : Cfg) (kind : Kind) (id : Nat) (t : Key) (r : Res) (st' : St)
    (h : (finishSingle cfg kind id t r).st? = some st') :
    ∃ s2, r.st? = some s2 ∧ ∀ x ∈ s2.inprog, x ≠ t → x ∈ st'.inprog := by
  cases r with
  | ok s2 =>
    refine ⟨s2, rfl, ?_⟩
    simp only [finishSingle] at h
    split at h
    · simp [Res.st?] at h; subst h; intro x hx hne; exact erase_keeps _ _ _ hx hne
    · simp [Res.st?] at h
  | errMust k2 s2 =>
    refine ⟨s2, rfl, ?_⟩
    simp [finishSingle, Res.st?] at h; subst h; intro x hx _; exact hx
  | err => simp [finishSingle, Res.st?] at h
  | panic s => simp [finishSingle, Res.st?] at h
  | outOfFuel => simp [finishSingle, Res.st?] at h

/-- along a successful walk the in-progress set only grows -/
theorem resolve_sub (cfg : Cfg) (w : World) : ∀ fuel n st st', (resolve cfg w fuel n st).st? = some st' → Sub st st' := by
  intro fuel
  induction fuel with
  | zero => intro n st st' h; simp [resolve, Res.st?] at h
  | succ fuel ih =>
    intro n st st' h
    obtain ⟨id, doc, kind, ref, empty, kids⟩ := n
    simp only [resolve] at h
    split at h
    · simp [Res.st?] at h; subst h; exact Sub.refl _
    · cases ref with
      | none =>
        simp only at h
        exact stepKids_st _ Sub Sub.refl (fun _ _ _ => Sub.trans) kids st st' (fun k _ s s' hk => ih k s s' hk) h
      | some t0 =>
        simp only at h
        generalize keyOf cfg kind t0 = t at h
        split at h
        · simp [Res.st?] at h; subst h; exact Sub.refl _
        · split at h
          · simp [Res.st?] at h; subst h; intro x hx; exact hx
          · rename_i hv hin
            have htn : t ∉ st.inprog := by simpa using hin
            have base : ∀ s2 : St, Sub { st with inprog := st.inprog ++ [t] } s2 →
                (∀ x ∈ s2.inprog, x ≠ t → x ∈ st'.inprog) → Sub st st' := by
              intro s2 hs hk x hx
              exact hk x (hs x (by simp [hx])) (fun e => htn (e ▸ hx))
            split at h
            · simp [Res.st?] at h
            · simp [Res.st?] at h
            · simp [Res.st?] at h
            · rename_i n' _
              split at h
              · obtain ⟨s2, hr, hk⟩ := finish_st _ _ _ _ _ _ _ h
                exact base s2 (ih _ _ s2 hr) hk
              · obtain ⟨s2, hr, hk⟩ := finishSingle_st _ _ _ _ _ _ h
                have hs := stepKids_st _ Sub Sub.refl (fun _ _ _ => Sub.trans) n'.kids _ s2
                  (fun k _ s s' hk => ih k s s' hk) hr
                exact base s2 hs hk
            · rename_i n' _
              split at h
              · obtain ⟨s2, hr, hk⟩ := finishSingle_st _ _ _ _ _ _ h
                simp [Res.st?] at hr; subst hr
                exact base _ (fun x hx => hx) hk
              · obtain ⟨s2, hr, hk⟩ := finish_st _ _ _ _ _ _ _ h
                exact base s2 (fun x hx => ih _ _ s2 hr x hx) hk
            · rename_i n' _
              obtain ⟨s2, hr, hk⟩ := finish_st _ _ _ _ _ _ _ h
              exact base s2 (ih _ _ s2 hr) hk

/-! ### termination bound -/

theorem fresh_mono (w : World) (a b : St) (h : Sub a b) : fresh w b ≤ fresh w a := by
  unfold fresh
  apply filter_len_mono
  intro x _ hx
  simp at hx ⊢
  intro hx'; exact hx (h x hx')

theorem fresh_strict (w : World) (st : St) (t : Key) (ht : t ∈ w.keys) (hn : t ∉ st.inprog) :
    fresh w { st with inprog := st.inprog ++ [t] } + 1 ≤ fresh w st := by
  unfold fresh
  apply filter_len_strict _ _ _ _ t ht
  · simp
  · simp [hn]
  · intro x _ hx
    simp at hx ⊢
    exact hx.1

theorem stepKids_fuel (f : Node → St → Res) :
    ∀ (ks : List Node) (st : St), (∀ k ∈ ks, ∀ s s', (f k s).st? = some s' → Sub s s') →
      (∀ k ∈ ks, ∀ s, Sub st s → f k s ≠ .outOfFuel) → stepKids f ks st ≠ .outOfFuel := by
  intro ks
  induction ks with
  | nil => intro st _ _; simp [stepKids]
  | cons k ks ih =>
    intro st hsub hf
    simp only [stepKids]
    cases hk : f k st with
    | ok s1 =>
      simp only
      have h1 : Sub st s1 := hsub k List.mem_cons_self st s1 (by simp [hk, Res.st?])
      exact ih s1 (fun k' hk' => hsub k' (List.mem_cons_of_mem _ hk'))
        (fun k' hk' s hs => hf k' (List.mem_cons_of_mem _ hk') s (Sub.trans h1 hs))
    | errMust k1 s1 => simp
    | err => simp
    | panic s => simp
    | outOfFuel => exact absurd hk (hf k List.mem_cons_self st (Sub.refl _))

theorem finish_fuel (cfg : Cfg) (n' : Node) (kind : Kind) (id : Nat) (t : Key) (r : Res) (h : r ≠ .outOfFuel) :
    finish cfg n' kind id t r ≠ .outOfFuel := by
  cases r with
  | ok s2 => simp only [finish]; split <;> (try split) <;> simp
  | errMust k2 s2 => simp only [finish]; split <;> simp
  | err => simp [finish]
  | panic s => simp [finish]
  | outOfFuel => exact absurd rfl h

theorem finishSingle_fuel (cfg : Cfg) (kind : Kind) (id : Nat) (t : Key) (r : Res) (h : r ≠ .outOfFuel) :
    finishSingle cfg kind id t r ≠ .outOfFuel := by
  cases r with
  | ok s2 => simp only [finishSingle]; split <;> simp
  | errMust k2 s2 => simp [finishSingle]
  | err => simp [finishSingle]
  | panic s => simp [finishSingle]
  | outOfFuel => exact absurd rfl h

theorem size_le_sizes : ∀ (ks : List Node) (k : Node), k ∈ ks → k.size ≤ sizes ks := by
  intro ks
  induction ks with
  | nil => intro k hk; simp at hk
  | cons a ks ih =>
    intro k hk
    simp only [sizes]
    rcases List.mem_cons.1 hk with rfl | hm
    · omega
    · have := ih k hm; omega

theorem size_kids_lt (n : Node) (k : Node) (hk : k ∈ n.kids) : k.size < n.size := by
  obtain ⟨id, doc, kind, ref, empty, kids⟩ := n
  have := size_le_sizes kids k hk
  simp only [Node.size]
  omega

theorem size_pos (n : Node) : 1 ≤ n.size := by
  obtain ⟨id, doc, kind, ref, empty, kids⟩ := n
  simp only [Node.size]; omega

theorem size_copyAs (n : Node) (i : Nat) : (n.copyAs i).size = n.size := by
  obtain ⟨id, doc, kind, ref, empty, kids⟩ := n
  simp [Node.copyAs, Node.size]


theorem keyOf_mem (cfg : Cfg) (w : World) (kind : Kind) (t : Text) (ht : t ∈ w.texts) : keyOf cfg kind t ∈ w.keys := by
  unfold World.keys keyOf
  simp only [List.mem_flatMap, List.mem_map, List.mem_cons]
  cases cfg.keyedByKind with
  | false => exact ⟨none, Or.inl rfl, t, ht, rfl⟩
  | true =>
    refine ⟨some kind, Or.inr ⟨kind, ?_, rfl⟩, t, ht, rfl⟩
    cases kind <;> simp [allKinds]

theorem resolve_total_aux (cfg : Cfg) (w : World) (S : Nat) (hb : Bounded w S) :
    ∀ fuel n st, n.size + fresh w st * (S + 1) ≤ fuel → resolve cfg w fuel n st ≠ .outOfFuel := by
  intro fuel
  induction fuel with
  | zero =>
    intro n st h
    have := size_pos n
    omega
  | succ fuel ih =>
    intro n st hfuel
    obtain ⟨id, doc, kind, ref, empty, kids⟩ := n
    have kidsOK : ∀ (m : Node) (st0 : St), m.size + fresh w st0 * (S + 1) ≤ fuel + 1 →
        stepKids (resolve cfg w fuel) m.kids st0 ≠ .outOfFuel := by
      intro m st0 hm
      apply stepKids_fuel
      · intro k _ s s' hk; exact resolve_sub cfg w fuel k s s' hk
      · intro k hk s hs
        apply ih
        have h1 := size_kids_lt m k hk
        have h2 := fresh_mono w st0 s hs
        have h3 : fresh w s * (S + 1) ≤ fresh w st0 * (S + 1) := Nat.mul_le_mul_right _ h2
        omega
    simp only [resolve]
    split
    · simp
    · cases ref with
      | none => exact kidsOK (Node.mk id doc kind none empty kids) st hfuel
      | some t =>
        simp only
        split
        · simp
        · split
          · simp
          · rename_i hv hin
            have htn : keyOf cfg kind t ∉ st.inprog := by simpa using hin
            by_cases htx : t ∈ w.texts
            · have hfs := fresh_strict w st (keyOf cfg kind t) (keyOf_mem cfg w kind t htx) htn
              have hmul : (fresh w { st with inprog := st.inprog ++ [keyOf cfg kind t] } + 1) * (S + 1) ≤ fresh w st * (S + 1) :=
                Nat.mul_le_mul_right _ hfs
              rw [Nat.add_mul] at hmul
              have hsz : 1 ≤ (Node.mk id doc kind (some t) empty kids).size := size_pos _
              have tgtOK : ∀ n', (w.target doc t kind).node? = some n' →
                  n'.size + fresh w { st with inprog := st.inprog ++ [keyOf cfg kind t] } * (S + 1) ≤ fuel := by
                intro n' hn'
                have := hb.2 doc t kind n' hn'
                omega
              split
              · simp
              · simp
              · simp
              · rename_i n' heq
                split
                · apply finish_fuel
                  apply ih
                  rw [size_copyAs]
                  exact tgtOK n' (by simp [heq, Tgt.node?])
                · apply finishSingle_fuel
                  apply kidsOK n'
                  have := tgtOK n' (by simp [heq, Tgt.node?])
                  omega
              · rename_i n' heq
                split
                · apply finishSingle_fuel; simp
                · apply finish_fuel
                  apply ih
                  rw [size_copyAs]
                  exact tgtOK n' (by simp [heq, Tgt.node?])
              · rename_i n' heq
                apply finish_fuel
                apply ih
                rw [size_copyAs]
                exact tgtOK n' (by simp [heq, Tgt.node?])
            · rw [hb.1 doc t kind htx]
              simp

/-! ### no panic: checked assertions, no typed-nil target -/

theorem callbacksOK_of_checked (cfg : Cfg) (hc : cfg.assertsChecked) (pending : List (Key × Kind × Nat)) (t : Key) (k : Kind) :
    callbacksOK cfg pending t k = true := by
  simp only [callbacksOK, List.all_eq_true]
  intro p _
  simp [hc p.2.1]

/-- "does not panic" -/
def Safe (r : Res) : Prop := ∀ x, r ≠ .panic x

theorem stepKids_safe (f : Node → St → Res) :
    ∀ (ks : List Node) (st : St), (∀ k ∈ ks, ∀ s, Safe (f k s)) → Safe (stepKids f ks st) := by
  intro ks
  induction ks with
  | nil => intro st _; simp [Safe, stepKids]
  | cons k ks ih =>
    intro st hf
    have hk := hf k List.mem_cons_self st
    simp only [stepKids]
    cases hr : f k st with
    | ok s1 => exact ih s1 (fun k' hk' => hf k' (List.mem_cons_of_mem _ hk'))
    | errMust k1 s1 => simp [Safe]
    | err => simp [Safe]
    | panic x => exact absurd hr (hk x)
    | outOfFuel => simp [Safe]

theorem finish_safe (cfg : Cfg) (hc : cfg.assertsChecked) (n' : Node) (kind : Kind) (id : Nat) (t : Key) (r : Res)
    (h : Safe r) : Safe (finish cfg n' kind id t r) := by
  cases r with
  | ok s2 =>
    simp only [finish, callbacksOK_of_checked cfg hc]
    split <;> simp [Safe]
  | errMust k2 s2 => simp only [finish]; split <;> simp [Safe]
  | err => simp [finish, Safe]
  | panic x => exact absurd rfl (h x)
  | outOfFuel => simp [finish, Safe]

theorem finishSingle_safe (cfg : Cfg) (hc : cfg.assertsChecked) (kind : Kind) (id : Nat) (t : Key) (r : Res)
    (h : Safe r) : Safe (finishSingle cfg kind id t r) := by
  cases r with
  | ok s2 => simp [finishSingle, callbacksOK_of_checked cfg hc, Safe]
  | errMust k2 s2 => simp [finishSingle, Safe]
  | err => simp [finishSingle, Safe]
  | panic x => exact absurd rfl (h x)
  | outOfFuel => simp [finishSingle, Safe]

theorem resolve_safe_aux (cfg : Cfg) (hc : cfg.assertsChecked) (w : World) (hn : NoNilTarget w) :
    ∀ fuel n st, Safe (resolve cfg w fuel n st) := by
  intro fuel
  induction fuel with
  | zero => intro n st; simp [resolve, Safe]
  | succ fuel ih =>
    intro n st
    have kidsSafe : ∀ (ks : List Node) (st0 : St), Safe (stepKids (resolve cfg w fuel) ks st0) :=
      fun ks st0 => stepKids_safe _ ks st0 (fun k _ s => ih k s)
    obtain ⟨id, doc, kind, ref, empty, kids⟩ := n
    simp only [resolve]
    split
    · simp [Safe]
    · cases ref with
      | none => exact kidsSafe kids st
      | some t =>
        simp only
        split
        · simp [Safe]
        · split
          · simp [Safe]
          · have hnt := hn doc t kind
            split
            · simp [Safe]
            · rename_i heq; simp [heq, Tgt.panics] at hnt
            · rename_i heq; simp [heq, Tgt.panics] at hnt
            · split
              · exact finish_safe cfg hc _ _ _ _ _ (ih _ _)
              · exact finishSingle_safe cfg hc _ _ _ _ (kidsSafe _ _)
            · split
              · exact finishSingle_safe cfg hc _ _ _ _ (by simp [Safe])
              · exact finish_safe cfg hc _ _ _ _ _ (ih _ _)
            · exact finish_safe cfg hc _ _ _ _ _ (ih _ _)

/-! ### more fuel never changes a decided result -/

theorem stepKids_mono (f g : Node → St → Res) :
    ∀ (ks : List Node) (st : St), (∀ k ∈ ks, ∀ s, f k s ≠ .outOfFuel → g k s = f k s) →
      stepKids f ks st ≠ .outOfFuel → stepKids g ks st = stepKids f ks st := by
  intro ks
  induction ks with
  | nil => intro st _ _; rfl
  | cons k ks ih =>
    intro st h hne
    simp only [stepKids] at hne ⊢
    cases hk : f k st with
    | outOfFuel => simp [hk] at hne
    | ok s1 =>
      have hg := h k List.mem_cons_self st (by simp [hk])
      rw [hg, hk]
      simp only [hk] at hne
      exact ih s1 (fun k' hk' => h k' (List.mem_cons_of_mem _ hk')) hne
    | errMust k1 s1 => have hg := h k List.mem_cons_self st (by simp [hk]); rw [hg, hk]
    | err => have hg := h k List.mem_cons_self st (by simp [hk]); rw [hg, hk]
    | panic x => have hg := h k List.mem_cons_self st (by simp [hk]); rw [hg, hk]

theorem finish_outOfFuel (cfg : Cfg) (n' : Node) (kind : Kind) (id : Nat) (t : Key) : finish cfg n' kind id t .outOfFuel = .outOfFuel := rfl
theorem finishSingle_outOfFuel (cfg : Cfg) (kind : Kind) (id : Nat) (t : Key) : finishSingle cfg kind id t .outOfFuel = .outOfFuel := rfl

/-- more fuel never changes a decided result -/
theorem resolve_fuel_mono_aux (cfg : Cfg) (w : World) : ∀ fuel n st, resolve cfg w fuel n st ≠ .outOfFuel →
    resolve cfg w (fuel + 1) n st = resolve cfg w fuel n st := by
  intro fuel
  induction fuel with
  | zero => intro n st h; simp [resolve] at h
  | succ fuel ih =>
    intro n st h
    obtain ⟨id, doc, kind, ref, empty, kids⟩ := n
    have kidsEq : ∀ (ks : List Node) (s0 : St), stepKids (resolve cfg w fuel) ks s0 ≠ .outOfFuel →
        stepKids (resolve cfg w (fuel + 1)) ks s0 = stepKids (resolve cfg w fuel) ks s0 :=
      fun ks s0 hne => stepKids_mono _ _ ks s0 (fun k _ s hk => ih k s hk) hne
    simp only [resolve] at h ⊢
    by_cases he : empty = true
    · simp [he]
    · simp only [he, if_false, Bool.false_eq_true] at h ⊢
      cases ref with
      | none => simp only at h ⊢; exact kidsEq kids st h
      | some t =>
        simp only at h ⊢
        by_cases hv : st.value.contains id = true
        · rw [if_pos hv, if_pos hv]
        · simp only [hv, if_false, Bool.false_eq_true] at h ⊢
          by_cases hin : st.inprog.contains (keyOf cfg kind t) = true
          · rw [if_pos hin, if_pos hin]
          · simp only [hin, if_false, Bool.false_eq_true] at h ⊢
            cases ht : w.target doc t kind with
            | err => simp
            | nilPtr => simp
            | drillPanic => simp
            | single n' =>
              simp only [ht] at h ⊢
              by_cases hp : (kind == Kind.pathItem && n'.ref.isSome) = true
              · simp only [hp, if_true] at h ⊢
                have hne : resolve cfg w fuel (n'.copyAs (copyId id n'.id)) { st with inprog := st.inprog ++ [keyOf cfg kind t] } ≠ .outOfFuel := by
                  intro e; rw [e] at h; exact h rfl
                rw [ih _ _ hne]
              · simp only [hp, if_false, Bool.false_eq_true] at h ⊢
                have hne : stepKids (resolve cfg w fuel) n'.kids { st with inprog := st.inprog ++ [keyOf cfg kind t] } ≠ .outOfFuel := by
                  intro e; rw [e] at h; exact h rfl
                rw [kidsEq _ _ hne]
            | wrapper n' =>
              simp only [ht] at h ⊢
              by_cases hc : st.value.contains n'.id = true
              · rw [if_pos hc, if_pos hc]
              · simp only [hc, if_false, Bool.false_eq_true] at h ⊢
                have hne : resolve cfg w fuel (n'.copyAs (copyId id n'.id))
                    { st with inprog := st.inprog ++ [keyOf cfg kind t], pathed := st.pathed ++ [n'.id] } ≠ .outOfFuel := by
                  intro e; rw [e] at h; exact h rfl
                rw [ih _ _ hne]
            | raw n' =>
              simp only [ht] at h ⊢
              have hne : resolve cfg w fuel (n'.copyAs (copyId id n'.id)) { st with inprog := st.inprog ++ [keyOf cfg kind t] } ≠ .outOfFuel := by
                intro e; rw [e] at h; exact h rfl
              rw [ih _ _ hne]

/-! ### every wrapper that has a value has a location (the invariant behind 05c5875: InternalizeRefs asks the
    name resolver only for references with a value) -/

def ValuedPathed (st : St) : Prop := ∀ i ∈ st.value, i ∈ st.pathed

/-- `P s s'`: the invariant is carried from `s` to `s'` -/
def Carries (s s' : St) : Prop := ValuedPathed s → ValuedPathed s'

theorem unvisit_vp (st : St) (t : Key) (k : Kind) (id : Nat) (h : ValuedPathed st) : ValuedPathed (unvisit st t k id) := by
  intro i hi
  simp only [unvisit, List.mem_append, List.mem_singleton] at hi ⊢
  rcases hi with (hi | hi) | hi
  · exact Or.inl (Or.inl (h i hi))
  · exact Or.inl (Or.inr hi)
  · exact Or.inr hi

theorem unvisitNil_vp (st : St) (t : Key) (id : Nat) (h : ValuedPathed st) : ValuedPathed (unvisitNil st t id) := by
  intro i hi
  simp only [unvisitNil, List.mem_append, List.mem_singleton] at hi ⊢
  exact Or.inl (h i hi)

theorem finish_vp (cfg : Cfg) (n' : Node) (kind : Kind) (id : Nat) (t : Key) (r : Res) (st' : St)
    (h : (finish cfg n' kind id t r).st? = some st') : ∃ s2, r.st? = some s2 ∧ Carries s2 st' := by
  cases r with
  | ok s2 =>
    refine ⟨s2, rfl, ?_⟩
    simp only [finish] at h
    split at h
    · split at h
      · simp [Res.st?] at h; subst h; exact unvisit_vp _ _ _ _
      · simp [Res.st?] at h
    · simp [Res.st?] at h; subst h; exact unvisitNil_vp _ _ _
  | errMust k2 s2 =>
    refine ⟨s2, rfl, ?_⟩
    simp only [finish] at h
    split at h <;> (simp [Res.st?] at h; subst h; exact fun x => x)
  | err => simp [finish, Res.st?] at h
  | panic s => simp [finish, Res.st?] at h
  | outOfFuel => simp [finish, Res.st?] at h

theorem finishSingle_vp (cfg : Cfg) (kind : Kind) (id : Nat) (t : Key) (r : Res) (st' : St)
    (h : (finishSingle cfg kind id t r).st? = some st') : ∃ s2, r.st? = some s2 ∧ Carries s2 st' := by
  cases r with
  | ok s2 =>
    refine ⟨s2, rfl, ?_⟩
    simp only [finishSingle] at h
    split at h
    · simp [Res.st?] at h; subst h; exact unvisit_vp _ _ _ _
    · simp [Res.st?] at h
  | errMust k2 s2 =>
    refine ⟨s2, rfl, ?_⟩
    simp [finishSingle, Res.st?] at h; subst h; exact fun x => x
  | err => simp [finishSingle, Res.st?] at h
  | panic s => simp [finishSingle, Res.st?] at h
  | outOfFuel => simp [finishSingle, Res.st?] at h

theorem resolve_vp (cfg : Cfg) (w : World) : ∀ fuel n st st', (resolve cfg w fuel n st).st? = some st' → Carries st st' := by
  intro fuel
  induction fuel with
  | zero => intro n st st' h; simp [resolve, Res.st?] at h
  | succ fuel ih =>
    intro n st st' h
    obtain ⟨id, doc, kind, ref, empty, kids⟩ := n
    have kidsC : ∀ (ks : List Node) (s0 s1 : St), (stepKids (resolve cfg w fuel) ks s0).st? = some s1 → Carries s0 s1 :=
      fun ks s0 s1 hk => stepKids_st _ Carries (fun _ x => x) (fun _ _ _ f g x => g (f x)) ks s0 s1 (fun k _ s s' hk => ih k s s' hk) hk
    simp only [resolve] at h
    split at h
    · simp [Res.st?] at h; subst h; exact fun x => x
    · cases ref with
      | none => simp only at h; exact kidsC kids st st' h
      | some t0 =>
        simp only at h
        generalize keyOf cfg kind t0 = t at h
        split at h
        · simp [Res.st?] at h; subst h; exact fun x => x
        · split at h
          · simp [Res.st?] at h; subst h; exact fun x => x
          · have c1 : Carries st { st with inprog := st.inprog ++ [t] } := fun x => x
            split at h
            · simp [Res.st?] at h
            · simp [Res.st?] at h
            · simp [Res.st?] at h
            · rename_i n' _
              split at h
              · obtain ⟨s2, hr, hk⟩ := finish_vp _ _ _ _ _ _ _ h
                exact fun x => hk (ih _ _ s2 hr (c1 x))
              · obtain ⟨s2, hr, hk⟩ := finishSingle_vp _ _ _ _ _ _ h
                exact fun x => hk (kidsC _ _ s2 hr (c1 x))
            · rename_i n' _
              have c2 : Carries st { st with inprog := st.inprog ++ [t], pathed := st.pathed ++ [n'.id] } := by
                intro x i hi; simp only [List.mem_append]; exact Or.inl (x i hi)
              split at h
              · obtain ⟨s2, hr, hk⟩ := finishSingle_vp _ _ _ _ _ _ h
                simp [Res.st?] at hr; subst hr
                exact fun x => hk (c2 x)
              · obtain ⟨s2, hr, hk⟩ := finish_vp _ _ _ _ _ _ _ h
                exact fun x => hk (ih _ _ s2 hr (c2 x))
            · rename_i n' _
              obtain ⟨s2, hr, hk⟩ := finish_vp _ _ _ _ _ _ _ h
              exact fun x => hk (ih _ _ s2 hr (c1 x))

end KinModel.LoadSafety
