/- Helper lemmas for C20: the abstract loader (`resolve`): the in-progress set only grows along a walk,
   termination bound, absence of panics under the exclusions. Core only. -/
import KinModel.LoadSafety
import KinModel.Lemmas.C20Descent
namespace KinModel.LoadSafety

/-- `a`'s in-progress texts are still in progress in `b` -/
def Sub (a b : St) : Prop := ∀ x ∈ a.inprog, x ∈ b.inprog

theorem Sub.refl (a : St) : Sub a a := fun _ h => h
theorem Sub.trans {a b c : St} (h1 : Sub a b) (h2 : Sub b c) : Sub a c := fun x hx => h2 x (h1 x hx)

/-- a result that carries a state -/
def Res.st? : Res → Option St
  | .ok s => some s | .errMust _ s => some s | _ => none

theorem stepKids_st (f : Node → St → Res) (P : St → St → Prop) (hrefl : ∀ s, P s s)
    (htrans : ∀ a b c, P a b → P b c → P a c) :
    ∀ (ks : List Node) (st st' : St), (∀ k ∈ ks, ∀ s s', (f k s).st? = some s' → P s s') →
      (stepKids f ks st).st? = some st' → P st st' := by
  intro ks
  induction ks with
  | nil => intro st st' _ h; simp [stepKids, Res.st?] at h; subst h; exact hrefl _
  | cons k ks ih =>
    intro st st' hf h
    simp only [stepKids] at h
    cases hk : f k st with
    | ok s1 =>
      simp only [hk] at h
      have h1 := hf k List.mem_cons_self st s1 (by simp [hk, Res.st?])
      exact htrans _ _ _ h1 (ih s1 st' (fun k' hk' => hf k' (List.mem_cons_of_mem _ hk')) h)
    | errMust k1 s1 =>
      simp [hk, Res.st?] at h; subst h
      exact hf k List.mem_cons_self st s1 (by simp [hk, Res.st?])
    | err => simp [hk, Res.st?] at h
    | panic s => simp [hk, Res.st?] at h
    | outOfFuel => simp [hk, Res.st?] at h

/-- what `unvisit`/`unvisitNil` leave in progress -/
theorem erase_keeps (l : List Text) (t x : Text) (hx : x ∈ l) (hne : x ≠ t) : x ∈ l.erase t :=
  (List.mem_erase_of_ne hne).2 hx

theorem finish_st (n' : Node) (kind : Kind) (id : Nat) (t : Text) (r : Res) (st' : St)
    (h : (finish n' kind id t r).st? = some st') :
    ∃ s2, r.st? = some s2 ∧ ∀ x ∈ s2.inprog, x ≠ t → x ∈ st'.inprog := by
  cases r with
  | ok s2 =>
    refine ⟨s2, rfl, ?_⟩
    simp only [finish] at h
    split at h
    · split at h
      · simp [Res.st?] at h; subst h; intro x hx hne; exact erase_keeps _ _ _ hx hne
      · simp [Res.st?] at h
    · simp [Res.st?] at h; subst h; intro x hx hne; exact erase_keeps _ _ _ hx hne
  | errMust k2 s2 =>
    refine ⟨s2, rfl, ?_⟩
    simp only [finish] at h
    split at h
    · simp [Res.st?] at h; subst h; intro x hx _; exact hx
    · simp [Res.st?] at h
  | err => simp [finish, Res.st?] at h
  | panic s => simp [finish, Res.st?] at h
  | outOfFuel => simp [finish, Res.st?] at h

theorem finishSingle_st (kind : Kind) (id : Nat) (t : Text) (r : Res) (st' : St)
    (h : (finishSingle kind id t r).st? = some st') :
    ∃ s2, r.st? = some s2 ∧ ∀ x ∈ s2.inprog, x ≠ t → x ∈ st'.inprog := by
  cases r with
  | ok s2 =>
    refine ⟨s2, rfl, ?_⟩
    simp only [finishSingle] at h
    split at h
    · simp [Res.st?] at h; subst h; intro x hx hne; exact erase_keeps _ _ _ hx hne
    · simp [Res.st?] at h
  | errMust k2 s2 =>
    refine ⟨s2, rfl, ?_⟩
    simp [finishSingle, Res.st?] at h; subst h; intro x hx _; exact hx
  | err => simp [finishSingle, Res.st?] at h
  | panic s => simp [finishSingle, Res.st?] at h
  | outOfFuel => simp [finishSingle, Res.st?] at h

/-- along a successful walk the in-progress set only grows -/
theorem resolve_sub (w : World) : ∀ fuel n st st', (resolve w fuel n st).st? = some st' → Sub st st' := by
  intro fuel
  induction fuel with
  | zero => intro n st st' h; simp [resolve, Res.st?] at h
  | succ fuel ih =>
    intro n st st' h
    obtain ⟨id, doc, kind, ref, empty, kids⟩ := n
    simp only [resolve] at h
    split at h
    · simp [Res.st?] at h; subst h; exact Sub.refl _
    · cases ref with
      | none =>
        simp only at h
        exact stepKids_st _ Sub Sub.refl (fun _ _ _ => Sub.trans) kids st st' (fun k _ s s' hk => ih k s s' hk) h
      | some t =>
        simp only at h
        split at h
        · simp [Res.st?] at h; subst h; exact Sub.refl _
        · split at h
          · simp [Res.st?] at h; subst h; intro x hx; exact hx
          · rename_i hv hin
            have htn : t ∉ st.inprog := by simpa using hin
            have base : ∀ s2 : St, Sub { st with inprog := st.inprog ++ [t] } s2 →
                (∀ x ∈ s2.inprog, x ≠ t → x ∈ st'.inprog) → Sub st st' := by
              intro s2 hs hk x hx
              exact hk x (hs x (by simp [hx])) (fun e => htn (e ▸ hx))
            split at h
            · simp [Res.st?] at h
            · simp [Res.st?] at h
            · simp [Res.st?] at h
            · rename_i n' _
              obtain ⟨s2, hr, hk⟩ := finishSingle_st _ _ _ _ _ h
              have hs := stepKids_st _ Sub Sub.refl (fun _ _ _ => Sub.trans) n'.kids _ s2
                (fun k _ s s' hk => ih k s s' hk) hr
              exact base s2 hs hk
            · rename_i n' _
              split at h
              · obtain ⟨s2, hr, hk⟩ := finishSingle_st _ _ _ _ _ h
                simp [Res.st?] at hr; subst hr
                exact base _ (Sub.refl _) hk
              · obtain ⟨s2, hr, hk⟩ := finish_st _ _ _ _ _ _ h
                exact base s2 (ih _ _ s2 hr) hk
            · rename_i n' _
              obtain ⟨s2, hr, hk⟩ := finish_st _ _ _ _ _ _ h
              exact base s2 (ih _ _ s2 hr) hk

/-! ### termination bound -/

theorem fresh_mono (w : World) (a b : St) (h : Sub a b) : fresh w b ≤ fresh w a := by
  unfold fresh
  apply filter_len_mono
  intro x _ hx
  simp at hx ⊢
  intro hx'; exact hx (h x hx')

theorem fresh_strict (w : World) (st : St) (t : Text) (ht : t ∈ w.texts) (hn : t ∉ st.inprog) :
    fresh w { st with inprog := st.inprog ++ [t] } + 1 ≤ fresh w st := by
  unfold fresh
  apply filter_len_strict _ _ _ _ t ht
  · simp
  · simp [hn]
  · intro x _ hx
    simp at hx ⊢
    exact hx.1

theorem stepKids_fuel (f : Node → St → Res) :
    ∀ (ks : List Node) (st : St), (∀ k ∈ ks, ∀ s s', (f k s).st? = some s' → Sub s s') →
      (∀ k ∈ ks, ∀ s, Sub st s → f k s ≠ .outOfFuel) → stepKids f ks st ≠ .outOfFuel := by
  intro ks
  induction ks with
  | nil => intro st _ _; simp [stepKids]
  | cons k ks ih =>
    intro st hsub hf
    simp only [stepKids]
    cases hk : f k st with
    | ok s1 =>
      simp only
      have h1 : Sub st s1 := hsub k List.mem_cons_self st s1 (by simp [hk, Res.st?])
      exact ih s1 (fun k' hk' => hsub k' (List.mem_cons_of_mem _ hk'))
        (fun k' hk' s hs => hf k' (List.mem_cons_of_mem _ hk') s (Sub.trans h1 hs))
    | errMust k1 s1 => simp
    | err => simp
    | panic s => simp
    | outOfFuel => exact absurd hk (hf k List.mem_cons_self st (Sub.refl _))

theorem finish_fuel (n' : Node) (kind : Kind) (id : Nat) (t : Text) (r : Res) (h : r ≠ .outOfFuel) :
    finish n' kind id t r ≠ .outOfFuel := by
  cases r with
  | ok s2 => simp only [finish]; split <;> (try split) <;> simp
  | errMust k2 s2 => simp only [finish]; split <;> simp
  | err => simp [finish]
  | panic s => simp [finish]
  | outOfFuel => exact absurd rfl h

theorem finishSingle_fuel (kind : Kind) (id : Nat) (t : Text) (r : Res) (h : r ≠ .outOfFuel) :
    finishSingle kind id t r ≠ .outOfFuel := by
  cases r with
  | ok s2 => simp only [finishSingle]; split <;> simp
  | errMust k2 s2 => simp [finishSingle]
  | err => simp [finishSingle]
  | panic s => simp [finishSingle]
  | outOfFuel => exact absurd rfl h

theorem size_le_sizes : ∀ (ks : List Node) (k : Node), k ∈ ks → k.size ≤ sizes ks := by
  intro ks
  induction ks with
  | nil => intro k hk; simp at hk
  | cons a ks ih =>
    intro k hk
    simp only [sizes]
    rcases List.mem_cons.1 hk with rfl | hm
    · omega
    · have := ih k hm; omega

theorem size_kids_lt (n : Node) (k : Node) (hk : k ∈ n.kids) : k.size < n.size := by
  obtain ⟨id, doc, kind, ref, empty, kids⟩ := n
  have := size_le_sizes kids k hk
  simp only [Node.size]
  omega

theorem size_pos (n : Node) : 1 ≤ n.size := by
  obtain ⟨id, doc, kind, ref, empty, kids⟩ := n
  simp only [Node.size]; omega

theorem size_copyAs (n : Node) (i : Nat) : (n.copyAs i).size = n.size := by
  obtain ⟨id, doc, kind, ref, empty, kids⟩ := n
  simp [Node.copyAs, Node.size]

theorem resolve_total_aux (w : World) (S : Nat) (hb : Bounded w S) :
    ∀ fuel n st, n.size + fresh w st * (S + 1) ≤ fuel → resolve w fuel n st ≠ .outOfFuel := by
  intro fuel
  induction fuel with
  | zero =>
    intro n st h
    have := size_pos n
    omega
  | succ fuel ih =>
    intro n st hfuel
    obtain ⟨id, doc, kind, ref, empty, kids⟩ := n
    have kidsOK : ∀ (m : Node) (st0 : St), m.size + fresh w st0 * (S + 1) ≤ fuel + 1 →
        stepKids (resolve w fuel) m.kids st0 ≠ .outOfFuel := by
      intro m st0 hm
      apply stepKids_fuel
      · intro k _ s s' hk; exact resolve_sub w fuel k s s' hk
      · intro k hk s hs
        apply ih
        have h1 := size_kids_lt m k hk
        have h2 := fresh_mono w st0 s hs
        have h3 : fresh w s * (S + 1) ≤ fresh w st0 * (S + 1) := Nat.mul_le_mul_right _ h2
        omega
    simp only [resolve]
    split
    · simp
    · cases ref with
      | none => exact kidsOK (Node.mk id doc kind none empty kids) st hfuel
      | some t =>
        simp only
        split
        · simp
        · split
          · simp
          · rename_i hv hin
            have htn : t ∉ st.inprog := by simpa using hin
            by_cases htx : t ∈ w.texts
            · have hfs := fresh_strict w st t htx htn
              have hmul : (fresh w { st with inprog := st.inprog ++ [t] } + 1) * (S + 1) ≤ fresh w st * (S + 1) :=
                Nat.mul_le_mul_right _ hfs
              rw [Nat.add_mul] at hmul
              have hsz : 1 ≤ (Node.mk id doc kind (some t) empty kids).size := size_pos _
              have tgtOK : ∀ n', (w.target doc t kind).node? = some n' →
                  n'.size + fresh w { st with inprog := st.inprog ++ [t] } * (S + 1) ≤ fuel := by
                intro n' hn'
                have := hb.2 doc t kind n' hn'
                omega
              split
              · simp
              · simp
              · simp
              · rename_i n' heq
                apply finishSingle_fuel
                apply kidsOK n'
                have := tgtOK n' (by simp [heq, Tgt.node?])
                omega
              · rename_i n' heq
                split
                · apply finishSingle_fuel; simp
                · apply finish_fuel
                  apply ih
                  rw [size_copyAs]
                  exact tgtOK n' (by simp [heq, Tgt.node?])
              · rename_i n' heq
                apply finish_fuel
                apply ih
                rw [size_copyAs]
                exact tgtOK n' (by simp [heq, Tgt.node?])
            · rw [hb.1 doc t kind htx]
              simp

/-! ### no panic under the exclusions -/

/-- every registered callback asserts the kind `κ` gives to the text it waits for -/
def PendingOK (κ : Text → Kind) (st : St) : Prop := ∀ p ∈ st.pending, p.2.1 = κ p.1

theorem kindOKs_mem (κ : Text → Kind) : ∀ (ks : List Node) (k : Node), kindOKs κ ks = true → k ∈ ks → kindOK κ k = true := by
  intro ks
  induction ks with
  | nil => intro k _ hk; simp at hk
  | cons a ks ih =>
    intro k h hk
    simp only [kindOKs, Bool.and_eq_true] at h
    rcases List.mem_cons.1 hk with rfl | hm
    · exact h.1
    · exact ih k h.2 hm

theorem kindOK_kids (κ : Text → Kind) (n : Node) (h : kindOK κ n = true) : kindOKs κ n.kids = true := by
  obtain ⟨id, doc, kind, ref, empty, kids⟩ := n
  simp only [kindOK, Bool.and_eq_true] at h
  exact h.2

theorem kindOK_copyAs (κ : Text → Kind) (n : Node) (i : Nat) : kindOK κ (n.copyAs i) = kindOK κ n := by
  obtain ⟨id, doc, kind, ref, empty, kids⟩ := n
  simp [Node.copyAs, kindOK]

theorem callbacksOK_of_pendingOK (κ : Text → Kind) (st : St) (t : Text) (k : Kind) (h : PendingOK κ st) (hk : k = κ t) :
    callbacksOK st.pending t k = true := by
  simp only [callbacksOK, List.all_eq_true]
  intro p hp
  by_cases hpt : p.1 = t
  · have := h p hp
    simp [this, hpt, hk]
  · simp [hpt]

theorem pendingOK_unvisit (κ : Text → Kind) (st : St) (t : Text) (id : Nat) (h : PendingOK κ st) : PendingOK κ (unvisit st t id) := by
  intro p hp
  simp only [unvisit, List.mem_filter] at hp
  exact h p hp.1

theorem pendingOK_unvisitNil (κ : Text → Kind) (st : St) (t : Text) (h : PendingOK κ st) : PendingOK κ (unvisitNil st t) := by
  intro p hp
  simp only [unvisitNil, List.mem_filter] at hp
  exact h p hp.1

/-- "does not panic, and a returned state keeps the invariant" -/
def Safe (I : St → Prop) (r : Res) : Prop := (∀ x, r ≠ .panic x) ∧ ∀ s', r.st? = some s' → I s'

theorem stepKids_safe (f : Node → St → Res) (I : St → Prop) :
    ∀ (ks : List Node) (st : St), I st → (∀ k ∈ ks, ∀ s, I s → Safe I (f k s)) → Safe I (stepKids f ks st) := by
  intro ks
  induction ks with
  | nil => intro st hI _; exact ⟨by simp [stepKids], by intro s' h; simp [stepKids, Res.st?] at h; subst h; exact hI⟩
  | cons k ks ih =>
    intro st hI hf
    have hk := hf k List.mem_cons_self st hI
    simp only [stepKids]
    cases hr : f k st with
    | ok s1 =>
      simp only
      exact ih s1 (hk.2 s1 (by simp [hr, Res.st?])) (fun k' hk' => hf k' (List.mem_cons_of_mem _ hk'))
    | errMust k1 s1 => exact ⟨by simp, by intro s' hs; simp [Res.st?] at hs; subst hs; exact hk.2 s1 (by simp [hr, Res.st?])⟩
    | err => exact ⟨by simp, by simp [Res.st?]⟩
    | panic x => exact absurd hr (hk.1 x)
    | outOfFuel => exact ⟨by simp, by simp [Res.st?]⟩

theorem finish_safe (κ : Text → Kind) (n' : Node) (kind : Kind) (id : Nat) (t : Text) (r : Res)
    (hk : kind = κ t) (h : Safe (PendingOK κ) r) : Safe (PendingOK κ) (finish n' kind id t r) := by
  cases r with
  | ok s2 =>
    have hp := h.2 s2 rfl
    simp only [finish]
    split
    · rw [callbacksOK_of_pendingOK κ s2 t kind hp hk]
      exact ⟨by simp, by intro s' hs; simp [Res.st?] at hs; subst hs; exact pendingOK_unvisit κ s2 t id hp⟩
    · exact ⟨by simp, by intro s' hs; simp [Res.st?] at hs; subst hs; exact pendingOK_unvisitNil κ s2 t hp⟩
  | errMust k2 s2 =>
    have hp := h.2 s2 rfl
    simp only [finish]
    split
    · exact ⟨by simp, by intro s' hs; simp [Res.st?] at hs; subst hs; exact hp⟩
    · exact ⟨by simp, by simp [Res.st?]⟩
  | err => exact ⟨by simp [finish], by simp [finish, Res.st?]⟩
  | panic x => exact absurd rfl (h.1 x)
  | outOfFuel => exact ⟨by simp [finish], by simp [finish, Res.st?]⟩

theorem finishSingle_safe (κ : Text → Kind) (kind : Kind) (id : Nat) (t : Text) (r : Res)
    (hk : kind = κ t) (h : Safe (PendingOK κ) r) : Safe (PendingOK κ) (finishSingle kind id t r) := by
  cases r with
  | ok s2 =>
    have hp := h.2 s2 rfl
    simp only [finishSingle]
    rw [callbacksOK_of_pendingOK κ s2 t kind hp hk]
    exact ⟨by simp, by intro s' hs; simp [Res.st?] at hs; subst hs; exact pendingOK_unvisit κ s2 t id hp⟩
  | errMust k2 s2 => exact ⟨by simp [finishSingle], by intro s' hs; simp [finishSingle, Res.st?] at hs; subst hs; exact h.2 s2 rfl⟩
  | err => exact ⟨by simp [finishSingle], by simp [finishSingle, Res.st?]⟩
  | panic x => exact absurd rfl (h.1 x)
  | outOfFuel => exact ⟨by simp [finishSingle], by simp [finishSingle, Res.st?]⟩

theorem resolve_safe_aux (w : World) (κ : Text → Kind)
    (hk : ∀ d t k n, (w.target d t k).node? = some n → kindOK κ n = true) (hn : NoNilTarget w) :
    ∀ fuel n st, kindOK κ n = true → PendingOK κ st → Safe (PendingOK κ) (resolve w fuel n st) := by
  intro fuel
  induction fuel with
  | zero => intro n st _ _; exact ⟨by simp [resolve], by simp [resolve, Res.st?]⟩
  | succ fuel ih =>
    intro n st hn' hp
    have kidsSafe : ∀ (m : Node) (st0 : St), kindOK κ m = true → PendingOK κ st0 →
        Safe (PendingOK κ) (stepKids (resolve w fuel) m.kids st0) := by
      intro m st0 hm hp0
      apply stepKids_safe _ _ _ _ hp0
      intro k hkm s hs
      exact ih k s (kindOKs_mem κ m.kids k (kindOK_kids κ m hm) hkm) hs
    obtain ⟨id, doc, kind, ref, empty, kids⟩ := n
    simp only [resolve]
    split
    · exact ⟨by simp, by intro s' hs; simp [Res.st?] at hs; subst hs; exact hp⟩
    · cases ref with
      | none => exact kidsSafe (Node.mk id doc kind none empty kids) st hn' hp
      | some t =>
        have hkt : kind = κ t := by
          simp only [kindOK, Bool.and_eq_true, beq_iff_eq] at hn'
          exact hn'.1
        simp only
        split
        · exact ⟨by simp, by intro s' hs; simp [Res.st?] at hs; subst hs; exact hp⟩
        · split
          · refine ⟨by simp, ?_⟩
            intro s' hs; simp [Res.st?] at hs; subst hs
            intro p hpm
            simp only [List.mem_append, List.mem_singleton] at hpm
            rcases hpm with hpm | rfl
            · exact hp p hpm
            · exact hkt
          · have hp1 : PendingOK κ { st with inprog := st.inprog ++ [t] } := hp
            have hnt := hn doc t kind
            split
            · exact ⟨by simp, by simp [Res.st?]⟩
            · rename_i heq; simp [heq, Tgt.panics] at hnt
            · rename_i heq; simp [heq, Tgt.panics] at hnt
            · rename_i n' heq
              apply finishSingle_safe κ _ _ _ _ hkt
              exact kidsSafe n' _ (hk doc t kind n' (by simp [heq, Tgt.node?])) hp1
            · rename_i n' heq
              split
              · apply finishSingle_safe κ _ _ _ _ hkt
                exact ⟨by simp, by intro s' hs; simp [Res.st?] at hs; subst hs; exact hp1⟩
              · apply finish_safe κ _ _ _ _ _ hkt
                exact ih _ _ (by rw [kindOK_copyAs]; exact hk doc t kind n' (by simp [heq, Tgt.node?])) hp1
            · rename_i n' heq
              apply finish_safe κ _ _ _ _ _ hkt
              exact ih _ _ (by rw [kindOK_copyAs]; exact hk doc t kind n' (by simp [heq, Tgt.node?])) hp1

/-! ### more fuel never changes a decided result -/

theorem stepKids_mono (f g : Node → St → Res) :
    ∀ (ks : List Node) (st : St), (∀ k ∈ ks, ∀ s, f k s ≠ .outOfFuel → g k s = f k s) →
      stepKids f ks st ≠ .outOfFuel → stepKids g ks st = stepKids f ks st := by
  intro ks
  induction ks with
  | nil => intro st _ _; rfl
  | cons k ks ih =>
    intro st h hne
    simp only [stepKids] at hne ⊢
    cases hk : f k st with
    | outOfFuel => simp [hk] at hne
    | ok s1 =>
      have hg := h k List.mem_cons_self st (by simp [hk])
      rw [hg, hk]
      simp only [hk] at hne
      exact ih s1 (fun k' hk' => h k' (List.mem_cons_of_mem _ hk')) hne
    | errMust k1 s1 => have hg := h k List.mem_cons_self st (by simp [hk]); rw [hg, hk]
    | err => have hg := h k List.mem_cons_self st (by simp [hk]); rw [hg, hk]
    | panic x => have hg := h k List.mem_cons_self st (by simp [hk]); rw [hg, hk]

theorem finish_outOfFuel (n' : Node) (kind : Kind) (id : Nat) (t : Text) : finish n' kind id t .outOfFuel = .outOfFuel := rfl
theorem finishSingle_outOfFuel (kind : Kind) (id : Nat) (t : Text) : finishSingle kind id t .outOfFuel = .outOfFuel := rfl

/-- more fuel never changes a decided result -/
theorem resolve_fuel_mono_aux (w : World) : ∀ fuel n st, resolve w fuel n st ≠ .outOfFuel →
    resolve w (fuel + 1) n st = resolve w fuel n st := by
  intro fuel
  induction fuel with
  | zero => intro n st h; simp [resolve] at h
  | succ fuel ih =>
    intro n st h
    obtain ⟨id, doc, kind, ref, empty, kids⟩ := n
    have kidsEq : ∀ (ks : List Node) (s0 : St), stepKids (resolve w fuel) ks s0 ≠ .outOfFuel →
        stepKids (resolve w (fuel + 1)) ks s0 = stepKids (resolve w fuel) ks s0 :=
      fun ks s0 hne => stepKids_mono _ _ ks s0 (fun k _ s hk => ih k s hk) hne
    simp only [resolve] at h ⊢
    by_cases he : (empty && kind != Kind.example) = true
    · simp [he]
    · simp only [he, if_false, Bool.false_eq_true] at h ⊢
      cases ref with
      | none => simp only at h ⊢; exact kidsEq kids st h
      | some t =>
        simp only at h ⊢
        by_cases hv : st.value.contains id = true
        · rw [if_pos hv, if_pos hv]
        · simp only [hv, if_false, Bool.false_eq_true] at h ⊢
          by_cases hin : st.inprog.contains t = true
          · rw [if_pos hin, if_pos hin]
          · simp only [hin, if_false, Bool.false_eq_true] at h ⊢
            cases ht : w.target doc t kind with
            | err => simp
            | nilPtr => simp
            | drillPanic => simp
            | single n' =>
              simp only [ht] at h ⊢
              have hne : stepKids (resolve w fuel) n'.kids { st with inprog := st.inprog ++ [t] } ≠ .outOfFuel := by
                intro e; rw [e] at h; exact h rfl
              rw [kidsEq _ _ hne]
            | wrapper n' =>
              simp only [ht] at h ⊢
              by_cases hc : ({ st with inprog := st.inprog ++ [t] } : St).value.contains n'.id = true
              · rw [if_pos hc, if_pos hc]
              · simp only [hc, if_false, Bool.false_eq_true] at h ⊢
                have hne : resolve w fuel (n'.copyAs (copyId id n'.id)) { st with inprog := st.inprog ++ [t] } ≠ .outOfFuel := by
                  intro e; rw [e] at h; exact h rfl
                rw [ih _ _ hne]
            | raw n' =>
              simp only [ht] at h ⊢
              have hne : resolve w fuel (n'.copyAs (copyId id n'.id)) { st with inprog := st.inprog ++ [t] } ≠ .outOfFuel := by
                intro e; rw [e] at h; exact h rfl
              rw [ih _ _ hne]

end KinModel.LoadSafety
