/-
Helper lemmas for C05 (cell layer): each location decoder applied to the specification's encoding of
item texts / name-value pairs. Core only.
-/
import KinModel.Lemmas.C05Str
namespace KinModel.Style

theorem pathRaw_some (s : Str) (h : s ≠ []) : pathRaw { path := some s } = some s := by
  cases s with
  | nil => contradiction
  | cons c cs => rfl

theorem encodableArr_elim0 (c : Cell) (name : Str) (xs : List Str) (h : encodableArr c name xs = true) :
    xs ≠ [] ∧ (∀ x ∈ xs, x ≠ []) := by
  unfold encodableArr at h
  simp only [Bool.and_eq_true, Bool.not_eq_true', List.all_eq_true, List.isEmpty_eq_false_iff] at h
  exact ⟨h.1.1, h.1.2⟩

theorem encodableArr_elim (c : Cell) (name : Str) (xs : List Str) (d0 : Char) (dr : Str)
    (hd : arrDelim c name = some (d0 :: dr)) (h : encodableArr c name xs = true) :
    ∀ x ∈ xs, d0 ∉ x := by
  unfold encodableArr at h
  rw [hd] at h
  simp only [Bool.and_eq_true, List.all_eq_true] at h
  intro x hx
  exact (freeOf_iff d0 x).mp (h.2 x hx)

/-- item texts and the values they read as, position by position -/
inductive Reads (prim : PT → Str → PR) (t : PT) : List Str → List PV → Prop
  | nil : Reads prim t [] []
  | cons {s : Str} {v : PV} {ss : List Str} {vs : List PV} : prim t s = .val v → Reads prim t ss vs → Reads prim t (s :: ss) (v :: vs)

/-! ### path -/

theorem pathArr_fmt (prim : PT → Str → PR) (name : Str) (st : Sty) (ex : Bool) (pre : Str) (d0 : Char) (dr : Str)
    (hf : pathArrFmt name st ex = some (pre, d0 :: dr))
    (xs : List Str) (hne : xs ≠ []) (hnn : ∀ x ∈ xs, x ≠ []) (hfree : ∀ x ∈ xs, d0 ∉ x) (t : PT) :
    pathArr prim name st ex { path := some (pre ++ joinL (d0 :: dr) xs) } t = arrOut true (parseArr prim t xs) := by
  have hj := joinL_ne_nil (d0 :: dr) xs hne hnn
  have hraw : pre ++ joinL (d0 :: dr) xs ≠ [] := by simp [hj]
  unfold pathArr
  rw [hf]
  simp only [pathRaw_some _ hraw, cutPrefix_append, splitOn_joinL d0 dr xs hne hfree]

theorem encPath_arr (name : Str) (st : Sty) (ex : Bool) (pre d : Str) (hf : pathArrFmt name st ex = some (pre, d))
    (xs : List Str) : encPath name st ex (.arr xs) = some (pre ++ joinL d xs) := by
  cases st <;> cases ex <;> simp [pathArrFmt] at hf <;> obtain ⟨rfl, rfl⟩ := hf <;> simp [encPath]

theorem pathArrFmt_some (name : Str) (st : Sty) (ex : Bool) (hst : st = .simple ∨ st = .label ∨ st = .matrix) :
    ∃ pre d0 dr, pathArrFmt name st ex = some (pre, d0 :: dr) := by
  rcases hst with rfl | rfl | rfl <;> cases ex <;> exact ⟨_, _, _, rfl⟩

theorem pathPrim_fmt (prim : PT → Str → PR) (name : Str) (st : Sty) (pre : Str)
    (hf : pathPrimPrefix name st = some pre) (s : Str) (hs : s ≠ []) (t : PT) :
    pathPrim prim name st { path := some (pre ++ s) } t = primOut true (prim t s) := by
  have hraw : pre ++ s ≠ [] := by simp [hs]
  unfold pathPrim
  rw [hf]
  simp only [pathRaw_some _ hraw, cutPrefix_append]

/-! ### pairs -/

theorem mem_flatKV (x : Str) : ∀ (kvs : List (Str × Str)), x ∈ flatKV kvs → ∃ kv ∈ kvs, x = kv.1 ∨ x = kv.2
  | [], h => by simp [flatKV] at h
  | (k, v) :: rest, h => by
    simp only [flatKV, List.mem_cons] at h
    rcases h with rfl | rfl | h
    · exact ⟨(x, v), by simp, Or.inl rfl⟩
    · exact ⟨(k, x), by simp, Or.inr rfl⟩
    · obtain ⟨kv, hkv, e⟩ := mem_flatKV x rest h
      exact ⟨kv, by simp [hkv], e⟩

theorem flatKV_ne_nil (kvs : List (Str × Str)) (h : kvs ≠ []) : flatKV kvs ≠ [] := by
  cases kvs with
  | nil => contradiction
  | cons kv rest => obtain ⟨k, v⟩ := kv; simp [flatKV]

/-- "name,value,name,value" splits back into its pairs -/
theorem propsFromString_flat (kvs : List (Str × Str)) (hne : kvs ≠ [])
    (hfree : ∀ kv ∈ kvs, ',' ∉ kv.1 ∧ ',' ∉ kv.2) :
    propsFromString (joinL [','] (flatKV kvs)) [','] [','] = some kvs := by
  have hf : ∀ x ∈ flatKV kvs, ',' ∉ x := by
    intro x hx
    obtain ⟨kv, hkv, e⟩ := mem_flatKV x kvs hx
    rcases e with rfl | rfl
    · exact (hfree kv hkv).1
    · exact (hfree kv hkv).2
  unfold propsFromString
  simp only [if_true]
  rw [splitOn_joinL ',' [] (flatKV kvs) (flatKV_ne_nil kvs hne) hf, pairUp_flatKV]

theorem eqKV_ne_nil (kvs : List (Str × Str)) (h : kvs ≠ []) : eqKV kvs ≠ [] := by
  cases kvs with
  | nil => contradiction
  | cons kv rest => simp [eqKV]

/-- "name=value<sep>name=value" splits back into its pairs (sep is one character other than '=') -/
theorem propsFromString_eq (p0 : Char) (hp : p0 ≠ '=') (kvs : List (Str × Str)) (hne : kvs ≠ [])
    (hfree : ∀ kv ∈ kvs, p0 ∉ kv.1 ∧ p0 ∉ kv.2 ∧ '=' ∉ kv.1 ∧ '=' ∉ kv.2) :
    propsFromString (joinL [p0] (eqKV kvs)) [p0] ['='] = some kvs := by
  have hf : ∀ x ∈ eqKV kvs, p0 ∉ x := by
    intro x hx
    simp only [eqKV, List.mem_map] at hx
    obtain ⟨kv, hkv, rfl⟩ := hx
    have := hfree kv hkv
    simp [this.1, this.2.1, hp]
  have hne' : ([p0] : Str) ≠ ['='] := by simp [hp]
  unfold propsFromString
  simp only [hne', if_false]
  rw [splitOn_joinL p0 [] (eqKV kvs) (eqKV_ne_nil kvs hne) hf]
  exact mapKV_eqKV kvs (fun kv hkv => ⟨(hfree kv hkv).2.2.1, (hfree kv hkv).2.2.2⟩)

/-! ### declared properties of a flat object -/

theorem lookup_some_mem {β : Type} (k : Str) (x : β) : ∀ (l : List (Str × β)), l.lookup k = some x → (k, x) ∈ l
  | [], h => by simp [List.lookup] at h
  | (k', y) :: rest, h => by
    by_cases hk : k = k'
    · subst hk; simp [List.lookup] at h; subst h; simp
    · have hne : (k == k') = false := by simpa using hk
      simp [List.lookup, hne] at h
      exact List.mem_cons_of_mem _ (lookup_some_mem k x rest h)

/-- the value the decoder gives property `k`: declared, present in the request, and its text parses to a value -/
def propVal (prim : PT → Str → PR) (props : List (Str × Str)) (sprops : List (Str × PS)) (k : Str) : Option PV :=
  match sprops.lookup k with
  | none => none
  | some ps => match lookupLast k props with
    | none => none
    | some s => match prim ps.t s with
      | .val v => some v
      | _ => none

theorem buildProps_lookup (prim : PT → Str → PR) (props : List (Str × Str)) :
    ∀ (sprops : List (Str × PS)) (res : List (Str × PV)), (sprops.map Prod.fst).Nodup →
      buildProps prim props sprops = some res → ∀ k, res.lookup k = propVal prim props sprops k
  | [], res, _, h, k => by
    simp [buildProps] at h; subst h; simp [propVal]
  | (k0, ps) :: rest, res, hnd, h, k => by
    have hnd' : (rest.map Prod.fst).Nodup := (List.nodup_cons.mp (by simpa using hnd)).2
    have hk0 : rest.lookup k0 = none := by
      have : k0 ∉ rest.map Prod.fst := (List.nodup_cons.mp (by simpa using hnd)).1
      cases hl : rest.lookup k0 with
      | none => rfl
      | some x =>
        exfalso; apply this
        have := lookup_some_mem k0 x rest hl
        exact List.mem_map.mpr ⟨(k0, x), this, rfl⟩
    have ih := buildProps_lookup prim props rest
    by_cases hk : k = k0
    · subst hk
      simp only [buildProps] at h
      cases hl : lookupLast k props with
      | none =>
        simp only [hl] at h
        rw [ih res hnd' h k]
        simp [propVal, hk0, hl, List.lookup]
      | some s =>
        simp only [hl] at h
        cases hp : prim ps.t s with
        | err => simp [hp] at h
        | nil =>
          simp only [hp] at h
          rw [ih res hnd' h k]
          simp [propVal, hk0, hl, hp, List.lookup]
        | val v =>
          simp only [hp] at h
          cases hb : buildProps prim props rest with
          | none => simp [hb] at h
          | some r =>
            simp [hb] at h; subst h
            simp [propVal, hl, hp, List.lookup]
    · have hne : (k == k0) = false := by simpa using hk
      have hpv : propVal prim props ((k0, ps) :: rest) k = propVal prim props rest k := by
        simp [propVal, List.lookup, hne]
      rw [hpv]
      simp only [buildProps] at h
      cases hl : lookupLast k0 props with
      | none => simp only [hl] at h; exact ih res hnd' h k
      | some s =>
        simp only [hl] at h
        cases hp : prim ps.t s with
        | err => simp [hp] at h
        | nil => simp only [hp] at h; exact ih res hnd' h k
        | val v =>
          simp only [hp] at h
          cases hb : buildProps prim props rest with
          | none => simp [hb] at h
          | some r =>
            simp [hb] at h; subst h
            simp [List.lookup, hne, ih r hnd' hb k]

end KinModel.Style
