/-
Helper lemmas for C05 (cell layer): each location decoder applied to the specification's encoding of
item texts / name-value pairs. Core only.
-/
import KinModel.Lemmas.C05Str
namespace KinModel.Style

theorem pathRaw_some (s : Str) (h : s ≠ []) : pathRaw { path := some s } = some s := by
  cases s with
  | nil => contradiction
  | cons c cs => rfl

theorem encodableArr_elim0 (c : Cell) (name : Str) (xs : List Str) (h : encodableArr c name xs = true) :
    xs ≠ [] ∧ (∀ x ∈ xs, x ≠ []) := by
  unfold encodableArr at h
  simp only [Bool.and_eq_true, Bool.not_eq_true', List.all_eq_true, List.isEmpty_eq_false_iff] at h
  exact ⟨h.1.1, h.1.2⟩

theorem encodableArr_elim (c : Cell) (name : Str) (xs : List Str) (d0 : Char) (dr : Str)
    (hd : arrDelim c name = some (d0 :: dr)) (h : encodableArr c name xs = true) :
    ∀ x ∈ xs, d0 ∉ x := by
  unfold encodableArr at h
  rw [hd] at h
  simp only [Bool.and_eq_true, List.all_eq_true] at h
  intro x hx
  exact (freeOf_iff d0 x).mp (h.2 x hx)

/-- item texts and the values they read as, position by position -/
inductive Reads (prim : PT → Str → PR) (t : PT) : List Str → List PV → Prop
  | nil : Reads prim t [] []
  | cons {s : Str} {v : PV} {ss : List Str} {vs : List PV} : prim t s = .val v → Reads prim t ss vs → Reads prim t (s :: ss) (v :: vs)

/-! ### path -/

theorem pathArr_fmt (prim : PT → Str → PR) (name : Str) (st : Sty) (ex : Bool) (pre : Str) (d0 : Char) (dr : Str)
    (hf : pathArrFmt name st ex = some (pre, d0 :: dr))
    (xs : List Str) (hne : xs ≠ []) (hnn : ∀ x ∈ xs, x ≠ []) (hfree : ∀ x ∈ xs, d0 ∉ x) (t : PT) :
    pathArr prim name st ex { path := some (pre ++ joinL (d0 :: dr) xs) } t = arrOut true (parseArr prim t xs) := by
  have hj := joinL_ne_nil (d0 :: dr) xs hne hnn
  have hraw : pre ++ joinL (d0 :: dr) xs ≠ [] := by simp [hj]
  unfold pathArr
  rw [hf]
  simp only [pathRaw_some _ hraw, cutPrefix_append, splitOn_joinL d0 dr xs hne hfree]

theorem encPath_arr (name : Str) (st : Sty) (ex : Bool) (pre d : Str) (hf : pathArrFmt name st ex = some (pre, d))
    (xs : List Str) : encPath name st ex (.arr xs) = some (pre ++ joinL d xs) := by
  cases st <;> cases ex <;> simp [pathArrFmt] at hf <;> obtain ⟨rfl, rfl⟩ := hf <;> simp [encPath]

theorem pathArrFmt_some (name : Str) (st : Sty) (ex : Bool) (hst : st = .simple ∨ st = .label ∨ st = .matrix) :
    ∃ pre d0 dr, pathArrFmt name st ex = some (pre, d0 :: dr) := by
  rcases hst with rfl | rfl | rfl <;> cases ex <;> exact ⟨_, _, _, rfl⟩

theorem pathPrim_fmt (prim : PT → Str → PR) (name : Str) (st : Sty) (pre : Str)
    (hf : pathPrimPrefix name st = some pre) (s : Str) (hs : s ≠ []) (t : PT) :
    pathPrim prim name st { path := some (pre ++ s) } t = primOut true (prim t s) := by
  have hraw : pre ++ s ≠ [] := by simp [hs]
  unfold pathPrim
  rw [hf]
  simp only [pathRaw_some _ hraw, cutPrefix_append]

/-! ### pairs -/

theorem mem_flatKV (x : Str) : ∀ (kvs : List (Str × Str)), x ∈ flatKV kvs → ∃ kv ∈ kvs, x = kv.1 ∨ x = kv.2
  | [], h => by simp [flatKV] at h
  | (k, v) :: rest, h => by
    simp only [flatKV, List.mem_cons] at h
    rcases h with rfl | rfl | h
    · exact ⟨(x, v), by simp, Or.inl rfl⟩
    · exact ⟨(k, x), by simp, Or.inr rfl⟩
    · obtain ⟨kv, hkv, e⟩ := mem_flatKV x rest h
      exact ⟨kv, by simp [hkv], e⟩

theorem flatKV_ne_nil (kvs : List (Str × Str)) (h : kvs ≠ []) : flatKV kvs ≠ [] := by
  cases kvs with
  | nil => contradiction
  | cons kv rest => obtain ⟨k, v⟩ := kv; simp [flatKV]

/-- "name,value,name,value" splits back into its pairs -/
theorem propsFromString_flat (kvs : List (Str × Str)) (hne : kvs ≠ [])
    (hfree : ∀ kv ∈ kvs, ',' ∉ kv.1 ∧ ',' ∉ kv.2) :
    propsFromString (joinL [','] (flatKV kvs)) [','] [','] = some kvs := by
  have hf : ∀ x ∈ flatKV kvs, ',' ∉ x := by
    intro x hx
    obtain ⟨kv, hkv, e⟩ := mem_flatKV x kvs hx
    rcases e with rfl | rfl
    · exact (hfree kv hkv).1
    · exact (hfree kv hkv).2
  unfold propsFromString
  simp only [if_true]
  rw [splitOn_joinL ',' [] (flatKV kvs) (flatKV_ne_nil kvs hne) hf, pairUp_flatKV]

theorem eqKV_ne_nil (kvs : List (Str × Str)) (h : kvs ≠ []) : eqKV kvs ≠ [] := by
  cases kvs with
  | nil => contradiction
  | cons kv rest => simp [eqKV]

/-- "name=value<sep>name=value" splits back into its pairs (sep is one character other than '=') -/
theorem propsFromString_eq (p0 : Char) (hp : p0 ≠ '=') (kvs : List (Str × Str)) (hne : kvs ≠ [])
    (hfree : ∀ kv ∈ kvs, p0 ∉ kv.1 ∧ p0 ∉ kv.2 ∧ '=' ∉ kv.1 ∧ '=' ∉ kv.2) :
    propsFromString (joinL [p0] (eqKV kvs)) [p0] ['='] = some kvs := by
  have hf : ∀ x ∈ eqKV kvs, p0 ∉ x := by
    intro x hx
    simp only [eqKV, List.mem_map] at hx
    obtain ⟨kv, hkv, rfl⟩ := hx
    have := hfree kv hkv
    simp [this.1, this.2.1, hp]
  have hne' : ([p0] : Str) ≠ ['='] := by simp [hp]
  unfold propsFromString
  simp only [hne', if_false]
  rw [splitOn_joinL p0 [] (eqKV kvs) (eqKV_ne_nil kvs hne) hf]
  exact mapKV_eqKV kvs (fun kv hkv => ⟨(hfree kv hkv).2.2.1, (hfree kv hkv).2.2.2⟩)

/-! ### declared properties of a flat object -/

theorem lookup_some_mem {β : Type} (k : Str) (x : β) : ∀ (l : List (Str × β)), l.lookup k = some x → (k, x) ∈ l
  | [], h => by simp [List.lookup] at h
  | (k', y) :: rest, h => by
    by_cases hk : k = k'
    · subst hk; simp [List.lookup] at h; subst h; simp
    · have hne : (k == k') = false := by simpa using hk
      simp [List.lookup, hne] at h
      exact List.mem_cons_of_mem _ (lookup_some_mem k x rest h)

/-- the value the decoder gives property `k`: declared, present in the request, and its text parses to a value -/
def propVal (prim : PT → Str → PR) (props : List (Str × Str)) (sprops : List (Str × PS)) (k : Str) : Option PV :=
  match sprops.lookup k with
  | none => none
  | some ps => match lookupLast k props with
    | none => none
    | some s => match prim ps.t s with
      | .val v => some v
      | _ => none

theorem buildProps_lookup (prim : PT → Str → PR) (props : List (Str × Str)) :
    ∀ (sprops : List (Str × PS)) (res : List (Str × PV)), (sprops.map Prod.fst).Nodup →
      buildProps prim props sprops = some res → ∀ k, res.lookup k = propVal prim props sprops k
  | [], res, _, h, k => by
    simp [buildProps] at h; subst h; simp [propVal]
  | (k0, ps) :: rest, res, hnd, h, k => by
    have hnd' : (rest.map Prod.fst).Nodup := (List.nodup_cons.mp (by simpa using hnd)).2
    have hk0 : rest.lookup k0 = none := by
      have : k0 ∉ rest.map Prod.fst := (List.nodup_cons.mp (by simpa using hnd)).1
      cases hl : rest.lookup k0 with
      | none => rfl
      | some x =>
        exfalso; apply this
        have := lookup_some_mem k0 x rest hl
        exact List.mem_map.mpr ⟨(k0, x), this, rfl⟩
    have ih := buildProps_lookup prim props rest
    by_cases hk : k = k0
    · subst hk
      simp only [buildProps] at h
      cases hl : lookupLast k props with
      | none =>
        simp only [hl] at h
        rw [ih res hnd' h k]
        simp [propVal, hk0, hl, List.lookup]
      | some s =>
        simp only [hl] at h
        cases hp : prim ps.t s with
        | err => simp [hp] at h
        | nil =>
          simp only [hp] at h
          rw [ih res hnd' h k]
          simp [propVal, hk0, hl, hp, List.lookup]
        | val v =>
          simp only [hp] at h
          cases hb : buildProps prim props rest with
          | none => simp [hb] at h
          | some r =>
            simp [hb] at h; subst h
            simp [propVal, hl, hp, List.lookup]
    · have hne : (k == k0) = false := by simpa using hk
      have hpv : propVal prim props ((k0, ps) :: rest) k = propVal prim props rest k := by
        simp [propVal, List.lookup, hne]
      rw [hpv]
      simp only [buildProps] at h
      cases hl : lookupLast k0 props with
      | none => simp only [hl] at h; exact ih res hnd' h k
      | some s =>
        simp only [hl] at h
        cases hp : prim ps.t s with
        | err => simp [hp] at h
        | nil => simp only [hp] at h; exact ih res hnd' h k
        | val v =>
          simp only [hp] at h
          cases hb : buildProps prim props rest with
          | none => simp [hb] at h
          | some r =>
            simp [hb] at h; subst h
            simp [List.lookup, hne, ih r hnd' hb k]

/-! ### deepObject keys -/

theorem isPrefixOf_append_self (a b : Str) : a.isPrefixOf (a ++ b) = true := by
  induction a with
  | nil => simp
  | cons c cs ih => simp [ih]

theorem bracketSegs_nil (f : Nat) : bracketSegs f [] = [] := by
  cases f <;> rfl

/-- characters before the first '[' are skipped, one unit of fuel each -/
theorem bracketSegs_skip (a rest : Str) (g : Nat) (h : '[' ∉ a) :
    bracketSegs (a.length + g) (a ++ rest) = bracketSegs g rest := by
  induction a with
  | nil => simp
  | cons c cs ih =>
    have hc : c ≠ '[' := by intro e; apply h; simp [e]
    have hcs : '[' ∉ cs := by intro e; apply h; simp [e]
    have : (c :: cs).length + g = (cs.length + g) + 1 := by simp; omega
    rw [this]
    simp [bracketSegs, hc, ih hcs]

theorem takeTo_close (k rest : Str) (h : ']' ∉ k) : takeTo ']' (k ++ ']' :: rest) = some (k, rest) := by
  induction k with
  | nil => simp [takeTo]
  | cons c cs ih =>
    have hc : c ≠ ']' := by intro e; apply h; simp [e]
    have hcs : ']' ∉ cs := by intro e; apply h; simp [e]
    simp [takeTo, hc, ih hcs]

/-- `name[k]` is read back as the single segment `k` -/
theorem deepKey_single (name k : Str) (hn : '[' ∉ name) (hk : ']' ∉ k) :
    deepKey name (name ++ '[' :: (k ++ [']'])) = some [k] := by
  unfold deepKey
  have hp : (name ++ ['[']).isPrefixOf (name ++ '[' :: (k ++ [']'])) = true := by
    have := isPrefixOf_append_self (name ++ ['[']) (k ++ [']'])
    simpa using this
  have hlen : (name ++ '[' :: (k ++ [']'])).length = name.length + ((k.length + 1) + 1) := by simp
  have hseg : bracketSegs (name ++ '[' :: (k ++ [']'])).length (name ++ '[' :: (k ++ [']'])) = [k] := by
    rw [hlen, bracketSegs_skip name ('[' :: (k ++ [']'])) ((k.length + 1) + 1) hn]
    have h2 := takeTo_close k [] hk
    simp [bracketSegs, h2, bracketSegs_nil]
  simp only [hp, hseg, if_true]

def deepEnc (name : Str) (kvs : List (Str × Str)) : List (Str × List Str) :=
  kvs.map (fun kv => (name ++ '[' :: (kv.1 ++ [']']), [kv.2]))

def deepPairs (kvs : List (Str × Str)) : List (List Str × List Str) := kvs.map (fun kv => ([kv.1], [kv.2]))

theorem deepProps_enc (name : Str) (hn : '[' ∉ name) :
    ∀ (kvs : List (Str × Str)), (∀ kv ∈ kvs, ']' ∉ kv.1) → deepProps name (deepEnc name kvs) = deepPairs kvs
  | [], _ => rfl
  | (k, v) :: rest, h => by
    have hk : ']' ∉ k := h (k, v) (by simp)
    have ih := deepProps_enc name hn rest (fun x hx => h x (by simp [hx]))
    simp only [deepEnc, deepPairs, List.map_cons] at ih ⊢
    simp only [deepProps, deepKey_single name k hn hk, ih]

theorem wellFormedKey_single (name k : Str) (hn : '[' ∉ name) (hk : ']' ∉ k) :
    wellFormedKey name (name ++ '[' :: (k ++ [']'])) = true := by
  simp [wellFormedKey, deepKey_single name k hn hk, brackets]

/-- the key filter keeps every key of an encoded deepObject request -/
theorem strictReq_deepEnc (name : Str) (hn : '[' ∉ name) (kvs : List (Str × Str)) (hk : ∀ kv ∈ kvs, ']' ∉ kv.1) :
    strictReq name { query := deepEnc name kvs } = { query := deepEnc name kvs } := by
  simp only [strictReq]
  congr 1
  apply List.filter_eq_self.mpr
  intro kv hkv
  simp only [deepEnc, List.mem_map] at hkv
  obtain ⟨x, hx, rfl⟩ := hkv
  exact wellFormedKey_single name x.1 hn (hk x hx)

/-- without junk keys the deepObject branch sees the request as it is -/
theorem strictReq_of_noJunk (name : Str) (r : Req) (h : r.query.any (fun kv => !wellFormedKey name kv.1) = false) :
    strictReq name r = r := by
  have : r.query.filter (fun kv => wellFormedKey name kv.1) = r.query := by
    apply List.filter_eq_self.mpr
    intro kv hkv
    have := List.any_eq_false.mp h kv hkv
    simpa using this
  simp [strictReq, this]

theorem deepUnder_pairs (p : Str) (kvs : List (Str × Str)) : deepUnder p (deepPairs kvs) = [] := by
  induction kvs with
  | nil => rfl
  | cons kv rest ih => simp only [deepPairs, List.map_cons] at ih ⊢; simp [deepUnder, ih]

theorem deepClash_pairs (kvs : List (Str × Str)) : deepClash (deepPairs kvs) = false := by
  unfold deepClash
  have h1 : (deepPairs kvs).any (fun kv => kv.2.length ≠ 1) = false := by
    simp [deepPairs]
  rw [h1, Bool.false_or, List.any_eq_false]
  intro kv hkv
  simp only [deepPairs, List.mem_map] at hkv
  obtain ⟨x, _, rfl⟩ := hkv
  simp [deepPairs, segPrefix]

theorem lookup_none_of_not_hasKey {β : Type} (k : Str) : ∀ (l : List (Str × β)), hasKey k l = false → l.lookup k = none
  | [], _ => rfl
  | (k', v) :: rest, h => by
    simp only [hasKey, List.any_cons, Bool.or_eq_false_iff, decide_eq_false_iff_not] at h
    have hne : (k == k') = false := by
      have : k ≠ k' := fun e => h.1 e.symm
      simpa using this
    have ih := lookup_none_of_not_hasKey k rest (by simpa [hasKey] using h.2)
    simp [List.lookup, hne, ih]

/-- with distinct keys the Go map read (last assignment wins) is the first match -/
theorem lookupLast_eq_lookup (k : Str) : ∀ (kvs : List (Str × Str)), distinctKeys kvs = true → lookupLast k kvs = kvs.lookup k
  | [], _ => rfl
  | (k', v) :: rest, h => by
    simp only [distinctKeys, Bool.and_eq_true, Bool.not_eq_true'] at h
    have ih := lookupLast_eq_lookup k rest h.2
    by_cases hk : k = k'
    · subst hk
      have hn := lookup_none_of_not_hasKey k rest h.1
      simp [lookupLast, ih, hn, List.lookup]
    · have hne : (k == k') = false := by simpa using hk
      have hne' : ¬ k' = k := fun e => hk e.symm
      simp only [lookupLast, ih, List.lookup, hne]
      cases rest.lookup k <;> simp [hne']

theorem deepScalar_pairs (k : Str) (kvs : List (Str × Str)) :
    deepScalar k (deepPairs kvs) = (kvs.lookup k).map (fun v => [v]) := by
  induction kvs with
  | nil => rfl
  | cons kv rest ih =>
    obtain ⟨k', v⟩ := kv
    simp only [deepPairs, List.map_cons] at ih ⊢
    by_cases hk : k = k'
    · subst hk; simp [deepScalar, List.lookup]
    · have hne : (k == k') = false := by simpa using hk
      have hne' : ¬ k' = k := fun e => hk e.symm
      simp [deepScalar, List.lookup, hne, hne', ih]

theorem dvPrims_liftP (res : List (Str × PV)) : dvPrims (liftP res) = res := by
  induction res with
  | nil => rfl
  | cons kv rest ih => obtain ⟨k, v⟩ := kv; simp only [liftP, List.map_cons] at ih ⊢; simp [dvPrims, ih]

/-- deepObject over single-segment pairs is the flat object builder -/
theorem buildDeep_flat (prim : PT → Str → PR) (kvs : List (Str × Str)) (hd : distinctKeys kvs = true) :
    ∀ (sprops : List (Str × PS)),
      buildDeep prim (deepPairs kvs) (sprops.map (fun kv => (kv.1, DS.prim kv.2))) = (buildProps prim kvs sprops).map liftP
  | [] => rfl
  | (k, ps) :: rest => by
    have ih := buildDeep_flat prim kvs hd rest
    simp only [List.map_cons, buildDeep, buildProps, deepProp, deepUnder_pairs, deepScalar_pairs,
      lookupLast_eq_lookup k kvs hd, List.isEmpty_nil, Bool.not_true]
    cases hl : kvs.lookup k with
    | none => simpa using ih
    | some s =>
      cases hp : prim ps.t s with
      | err => simp [hp]
      | nil => simpa [hp] using ih
      | val v =>
        simp only [hp, Option.map_some, ih]
        cases buildProps prim kvs rest <;> simp [liftP]

end KinModel.Style
