/-
C11 — reading the regenerated table ReaderGuards (conditions of openapi3/loader_uri_reader.go as expression trees)
against the reader model of KinModel/ReadsMedium.lean.
-/
import KinModel.Reads
import KinModel.ReadsMedium
import KinModel.Gen.ReaderGuards
namespace KinModel.Reads
open KinModel.Gen

/-- `location.<Field>` of a `url.URL` (the three fields the model keeps; any other field is unknown) -/
def fieldOf (l : RLoc) (f : String) : Option String :=
  if f = "Scheme" then some l.scheme else if f = "Host" then some l.host else if f = "Path" then some l.path else none

/-- value of a guard expression on a location; `callVal` gives the value of `f(location)` -/
def evalG (callVal : String → Option Bool) (l : RLoc) : GExp → Option Bool
  | .eq f s => (fieldOf l f).map (fun v => v == s)
  | .ne f s => (fieldOf l f).map (fun v => v != s)
  | .and a b => match evalG callVal l a, evalG callVal l b with | some x, some y => some (x && y) | _, _ => none
  | .or a b => match evalG callVal l a, evalG callVal l b with | some x, some y => some (x || y) | _, _ => none
  | .not a => (evalG callVal l a).map (!·)
  | .call fn => callVal fn
  | .unrecognised _ => none

def gRecognised : GExp → Bool
  | .and a b => gRecognised a && gRecognised b
  | .or a b => gRecognised a && gRecognised b
  | .not a => gRecognised a
  | .unrecognised _ => false
  | _ => true

/-- the rows of a function and role -/
def guardRows (fn role : String) : List ReaderGuardRow := readerGuards.filter (fun r => r.fn == fn && r.role == role)

/-- `is_file(location)` as the table gives it (exactly one return) -/
def tableIsFile (l : RLoc) : Option Bool :=
  match guardRows "is_file" "return" with
  | [r] => evalG (fun _ => none) l r.exp
  | _ => none

/-- a reader declines (ErrURINotSupported) iff one of its decline conditions holds -/
def tableDeclines (fn : String) (l : RLoc) : Option Bool :=
  (guardRows fn "decline-if").foldl (fun acc r =>
    match acc, evalG (fun f => if f = "is_file" then tableIsFile l else none) l r.exp with
    | some x, some y => some (x || y) | _, _ => none) (some false)

/-- a location of the loader model as the `url.URL` the reader is handed -/
def Url.toRLoc (u : Url) : RLoc := ⟨u.scheme, u.host, (if u.rooted then "/" else "") ++ "/".intercalate u.segs⟩

/-- the media the library's default reader touches when it serves a read log -/
def mediaOf (log : List Url) : List Medium := log.map (fun u => defaultRead u.toRLoc)

end KinModel.Reads
