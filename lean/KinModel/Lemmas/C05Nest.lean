/-
Helper lemmas for C05, deepObject at every depth: the entries of an encoded nested value, navigated by `under` /
`scalarAt` / `heads`, lead back to the sub-values. Core only.
-/
import KinModel.StyleNest
import KinModel.Lemmas.C05Eq
namespace KinModel.Style

def prep (k : Str) (e : List Str × Str) : List Str × Str := (k :: e.1, e.2)

mutual
/-- the entries (relative key path, text) a nested value contributes: one per primitive leaf -/
def encN : NV → Ents
  | .nil => []
  | .p v => [([], showPV v)]
  | .a xs => encA 0 xs
  | .o kvs => encO kvs
def encA : Nat → List NV → Ents
  | _, [] => []
  | i, x :: rest => (encN x).map (prep (showNat i)) ++ encA (i + 1) rest
def encO : List (Str × NV) → Ents
  | [] => []
  | (k, v) :: rest => (encN v).map (prep k) ++ encO rest
end

/-! ### navigation -/

theorem under_append (k : Str) : ∀ (a b : Ents), under k (a ++ b) = under k a ++ under k b
  | [], b => rfl
  | ([], s) :: rest, b => by simp [under, under_append k rest b]
  | (h :: t, s) :: rest, b => by
    by_cases hk : h = k
    · simp [under, hk, under_append k rest b]
    · simp [under, hk, under_append k rest b]

theorem under_prep_same (k : Str) : ∀ (e : Ents), under k (e.map (prep k)) = e
  | [] => rfl
  | (p, s) :: rest => by simp [under, prep, under_prep_same k rest]

theorem under_prep_other (k k' : Str) (h : k' ≠ k) : ∀ (e : Ents), under k (e.map (prep k')) = []
  | [] => rfl
  | (p, s) :: rest => by simp [under, prep, h, under_prep_other k k' h rest]

theorem scalarAt_append : ∀ (a b : Ents), scalarAt (a ++ b) = (scalarAt a).or (scalarAt b)
  | [], b => by simp [scalarAt]
  | ([], s) :: rest, b => by simp [scalarAt]
  | (h :: t, s) :: rest, b => by simp [scalarAt, scalarAt_append rest b]

theorem scalarAt_prep (k : Str) : ∀ (e : Ents), scalarAt (e.map (prep k)) = none
  | [] => rfl
  | (p, s) :: rest => by simp [scalarAt, prep, scalarAt_prep k rest]

theorem headsRaw_append : ∀ (a b : Ents), headsRaw (a ++ b) = headsRaw a ++ headsRaw b
  | [], b => rfl
  | ([], s) :: rest, b => by simp [headsRaw, headsRaw_append rest b]
  | (h :: t, s) :: rest, b => by simp [headsRaw, headsRaw_append rest b]

theorem headsRaw_prep (k : Str) : ∀ (e : Ents), headsRaw (e.map (prep k)) = e.map (fun _ => k)
  | [] => rfl
  | (p, s) :: rest => by simp [headsRaw, prep, headsRaw_prep k rest]

theorem mem_heads (k : Str) (e : Ents) : k ∈ heads e ↔ k ∈ headsRaw e := by
  simp [heads, mem_dedup]

/-! ### values that fit a schema (the domain of the round trip) -/

/-- `kvs` selects some of the declared properties, in schema order, each with a fitting value; property names are
pairwise different and contain no `]` (a key is written between brackets) -/
def fitsOB (g : NS → NV → Bool) : List (Str × NS) → List (Str × NV) → Bool
  | [], [] => true
  | [], _ :: _ => false
  | (k, _) :: ps, [] => !hasKey k ps && fitsOB g ps []
  | (k, ns) :: ps, (k', v) :: rest =>
    !hasKey k ps &&
    (if k = k' then !hasKey k rest && g ns v && fitsOB g ps rest && freeOf ']' k
     else !hasKey k ((k', v) :: rest) && fitsOB g ps ((k', v) :: rest))

/-- the value is a value of the schema, of depth at most the fuel: primitives are values whose text reads back
(`prim t (showPV v) = v`), arrays are non-empty without holes, objects (no additionalProperties schema) are non-empty
selections of the declared properties -/
def fitsB (prim : PT → Str → PR) : Nat → NS → NV → Bool
  | 0, _, _ => false
  | _ + 1, .prim ps, .p v => prim ps.t (showPV v) == .val v
  | f + 1, .arr items, .a xs => !xs.isEmpty && xs.all (fitsB prim f items)
  | f + 1, .obj props _ none, .o kvs => !kvs.isEmpty && fitsOB (fitsB prim f) props kvs
  | _ + 1, _, _ => false

theorem encO_append : ∀ (a b : List (Str × NV)), encO (a ++ b) = encO a ++ encO b
  | [], b => by simp [encO]
  | (k, v) :: rest, b => by simp [encO, encO_append rest b]

theorem under_encO_miss (k : Str) : ∀ (l : List (Str × NV)), hasKey k l = false → under k (encO l) = []
  | [], _ => by simp [encO, under]
  | (k', v) :: rest, h => by
    simp only [hasKey, List.any_cons, Bool.or_eq_false_iff, decide_eq_false_iff_not] at h
    have hne : k' ≠ k := h.1
    have ih := under_encO_miss k rest (by simpa [hasKey] using h.2)
    simp [encO, under_append, under_prep_other k k' hne, ih]

theorem scalarAt_encO : ∀ (l : List (Str × NV)), scalarAt (encO l) = none
  | [] => by simp [encO, scalarAt]
  | (k, v) :: rest => by simp [encO, scalarAt_append, scalarAt_prep, scalarAt_encO rest]

theorem scalarAt_encA : ∀ (b : Nat) (l : List NV), scalarAt (encA b l) = none
  | _, [] => by simp [encA, scalarAt]
  | b, x :: rest => by simp [encA, scalarAt_append, scalarAt_prep, scalarAt_encA (b + 1) rest]

theorem nbuild_empty (prim : PT → Str → PR) (f : Nat) (ns : NS) : nbuild prim (f + 1) ns [] = some none := by
  cases ns <;> simp [nbuild]

theorem showNat_inj (a b : Nat) (h : showNat a = showNat b) : a = b := by
  have ha := readNat_showNat a
  rw [h, readNat_showNat b] at ha
  exact (Option.some.inj ha).symm

theorem under_encA_miss (i : Nat) : ∀ (l : List NV) (b : Nat), i < b → under (showNat i) (encA b l) = []
  | [], _, _ => by simp [encA, under]
  | x :: rest, b, h => by
    have hne : showNat b ≠ showNat i := by
      intro e; have := showNat_inj _ _ e; omega
    simp [encA, under_append, under_prep_other (showNat i) (showNat b) hne, under_encA_miss i rest (b + 1) (by omega)]

theorem under_encA_hit (x : NV) (rest : List NV) : ∀ (done : List NV) (b : Nat),
    under (showNat (b + done.length)) (encA b (done ++ x :: rest)) = encN x
  | [], b => by
    simp [encA, under_append, under_prep_same, under_encA_miss b rest (b + 1) (by omega)]
  | d :: ds, b => by
    have hne : showNat b ≠ showNat (b + (ds.length + 1)) := by
      intro e; have := showNat_inj _ _ e; omega
    have ih := under_encA_hit x rest ds (b + 1)
    have e : b + 1 + ds.length = b + (ds.length + 1) := by omega
    rw [e] at ih
    simp [encA, under_append, under_prep_other _ (showNat b) hne, ih]

/-! ### array indexes -/

theorem natIndex_showNat (n : Nat) : natIndex (showNat n) = some n := by
  simp [natIndex, readNat_showNat]

theorem idxAll_showNat : ∀ (l : List Str), (∀ s ∈ l, ∃ n, s = showNat n) →
    ∃ idxs, idxAll l = some idxs ∧ ∀ n, (n ∈ idxs ↔ showNat n ∈ l)
  | [], _ => ⟨[], rfl, by simp⟩
  | s :: rest, h => by
    obtain ⟨m, rfl⟩ := h s (by simp)
    obtain ⟨idxs, h1, h2⟩ := idxAll_showNat rest (fun x hx => h x (by simp [hx]))
    refine ⟨m :: idxs, by simp [idxAll, natIndex_showNat, h1], ?_⟩
    intro n
    constructor
    · intro hn
      rcases List.mem_cons.mp hn with e | hn
      · subst e; simp
      · exact List.mem_cons_of_mem _ ((h2 n).mp hn)
    · intro hn
      rcases List.mem_cons.mp hn with e | hn
      · have := showNat_inj _ _ e; subst this; simp
      · exact List.mem_cons_of_mem _ ((h2 n).mpr hn)

theorem maxIdx_le : ∀ (l : List Nat) (m : Nat), (∀ n ∈ l, n ≤ m) → maxIdx l ≤ m
  | [], _, _ => by simp [maxIdx]
  | n :: rest, m, h => by
    have h1 := h n (by simp)
    have h2 := maxIdx_le rest m (fun x hx => h x (by simp [hx]))
    simp only [maxIdx]
    exact Nat.max_le.mpr ⟨h1, h2⟩

theorem le_maxIdx : ∀ (l : List Nat) (m : Nat), m ∈ l → m ≤ maxIdx l
  | [], _, h => by simp at h
  | n :: rest, m, h => by
    simp only [maxIdx]
    rcases List.mem_cons.mp h with e | h
    · subst e; exact Nat.le_max_left _ _
    · exact Nat.le_trans (le_maxIdx rest m h) (Nat.le_max_right _ _)

theorem maxIdx_eq (l : List Nat) (m : Nat) (h1 : ∀ n ∈ l, n ≤ m) (h2 : m ∈ l) : maxIdx l = m :=
  Nat.le_antisymm (maxIdx_le l m h1) (le_maxIdx l m h2)

theorem headsRaw_encA_mem (s : Str) : ∀ (l : List NV) (b : Nat), s ∈ headsRaw (encA b l) → ∃ j, j < l.length ∧ s = showNat (b + j)
  | [], _, h => by simp [encA, headsRaw] at h
  | x :: rest, b, h => by
    simp only [encA, headsRaw_append, headsRaw_prep, List.mem_append, List.mem_map] at h
    rcases h with ⟨_, _, e⟩ | h
    · exact ⟨0, by simp, by simp [e]⟩
    · obtain ⟨j, hj, e⟩ := headsRaw_encA_mem s rest (b + 1) h
      exact ⟨j + 1, by simp; omega, by rw [e]; congr 1; omega⟩

theorem headsRaw_encA_all : ∀ (l : List NV) (b : Nat), (∀ x ∈ l, encN x ≠ []) → ∀ j, j < l.length → showNat (b + j) ∈ headsRaw (encA b l)
  | [], _, _, j, hj => by simp at hj
  | x :: rest, b, h, j, hj => by
    simp only [encA, headsRaw_append, headsRaw_prep, List.mem_append, List.mem_map]
    cases j with
    | zero =>
      left
      have hx := h x (by simp)
      cases hx' : encN x with
      | nil => exact absurd hx' hx
      | cons e es => exact ⟨e, by simp, by simp⟩
    | succ j =>
      right
      have := headsRaw_encA_all rest (b + 1) (fun y hy => h y (by simp [hy])) j (by simpa using hj)
      have e : b + 1 + j = b + (j + 1) := by omega
      rwa [e] at this

/-- a list that contains 0 … n-1 has at least n elements -/
theorem length_ge_of_range : ∀ (n : Nat) (l : List Nat), (∀ j, j < n → j ∈ l) → n ≤ l.length
  | 0, _, _ => Nat.zero_le _
  | n + 1, l, h => by
    obtain ⟨s, t, rfl⟩ := List.append_of_mem (h n (by omega))
    have ih := length_ge_of_range n (s ++ t) (by
      intro j hj
      have := h j (by omega)
      simp only [List.mem_append, List.mem_cons] at this ⊢
      rcases this with h1 | h1 | h1
      · exact Or.inl h1
      · omega
      · exact Or.inr h1)
    simp only [List.length_append, List.length_cons] at ih ⊢
    omega

/-- the index keys of an encoded array without holes: 0 … n-1, so sliceMapToSlice builds exactly n slots — and the
largest index is never "too far beyond the elements given" -/
theorem idxAll_encA (l : List NV) (hne : l ≠ []) (h : ∀ x ∈ l, encN x ≠ []) :
    ∃ idxs, idxAll (heads (encA 0 l)) = some idxs ∧ maxIdx idxs + 1 = l.length ∧ l.length ≤ idxs.length := by
  obtain ⟨idxs, h1, h2⟩ := idxAll_showNat (heads (encA 0 l)) (by
    intro s hs
    obtain ⟨j, _, e⟩ := headsRaw_encA_mem s l 0 ((mem_heads s _).mp hs)
    exact ⟨0 + j, e⟩)
  have hall : l.length ≤ idxs.length := by
    apply length_ge_of_range
    intro j hj
    apply (h2 j).mpr
    apply (mem_heads _ _).mpr
    have := headsRaw_encA_all l 0 h j hj
    simpa using this
  refine ⟨idxs, h1, ?_, hall⟩
  have hlen : 0 < l.length := by
    cases l with
    | nil => contradiction
    | cons a b => simp
  have hmax : maxIdx idxs = l.length - 1 := by
    apply maxIdx_eq
    · intro n hn
      have := (h2 n).mp hn
      obtain ⟨j, hj, e⟩ := headsRaw_encA_mem _ l 0 ((mem_heads _ _).mp this)
      have := showNat_inj _ _ e
      omega
    · apply (h2 _).mpr
      apply (mem_heads _ _).mpr
      have := headsRaw_encA_all l 0 h (l.length - 1) (by omega)
      simpa using this
  omega

/-! ### the loops -/

/-- items: when the per-index builder returns the i-th value for every slot, the array comes back -/
theorem itemsFrom_all (g : Nat → Option (Option NV)) : ∀ (todo : List NV) (i : Nat),
    (∀ j (hj : j < todo.length), g (i + j) = some (some todo[j])) → itemsFrom g todo.length i = some todo
  | [], _, _ => rfl
  | x :: rest, i, h => by
    have h0 : g i = some (some x) := by
      have := h 0 (by simp)
      simpa only [Nat.add_zero, List.getElem_cons_zero] using this
    have ih := itemsFrom_all g rest (i + 1) (by
      intro j hj
      have := h (j + 1) (by simpa using hj)
      have e : i + 1 + j = i + (j + 1) := by omega
      rw [e]
      simpa only [List.getElem_cons_succ] using this)
    simp [itemsFrom, h0, ih]

theorem fitsOB_head (g : NS → NV → Bool) (k' : Str) (v : NV) (rest : List (Str × NV)) :
    ∀ (props : List (Str × NS)), fitsOB g props ((k', v) :: rest) = true → ∃ ns, g ns v = true
  | [], h => by simp [fitsOB] at h
  | (k, ns) :: ps, h => by
    simp only [fitsOB, Bool.and_eq_true] at h
    by_cases hk : k = k'
    · simp only [hk, if_true, Bool.and_eq_true] at h
      exact ⟨ns, h.2.1.1.2⟩
    · simp only [hk, if_false, Bool.and_eq_true] at h
      exact fitsOB_head g k' v rest ps h.2.2

/-- declared properties: the selection comes back, in schema order. `consumed` = the pairs of earlier properties -/
theorem propsFrom_encO (g : NS → Ents → Option (Option NV)) (fit : NS → NV → Bool)
    (hg : ∀ ns v, fit ns v = true → g ns (encN v) = some (some v)) (hempty : ∀ ns, g ns [] = some none) :
    ∀ (props : List (Str × NS)) (kvs consumed : List (Str × NV)), fitsOB fit props kvs = true →
      (∀ kn ∈ props, hasKey kn.1 consumed = false) →
      propsFrom g (encO (consumed ++ kvs)) props = some kvs
  | [], [], _, _, _ => rfl
  | [], _ :: _, _, h, _ => by simp [fitsOB] at h
  | (k, ns) :: ps, [], consumed, h, hc => by
    simp only [fitsOB, Bool.and_eq_true] at h
    have hk : hasKey k (consumed ++ []) = false := by simpa using hc (k, ns) (by simp)
    have ih := propsFrom_encO g fit hg hempty ps [] consumed h.2 (fun kn hkn => hc kn (by simp [hkn]))
    simp only [propsFrom, under_encO_miss k _ hk, hempty]
    exact ih
  | (k, ns) :: ps, (k', v) :: rest, consumed, h, hc => by
    simp only [fitsOB, Bool.and_eq_true] at h
    have hkc : hasKey k consumed = false := hc (k, ns) (by simp)
    by_cases hk : k = k'
    · subst hk
      simp only [if_true, Bool.and_eq_true, Bool.not_eq_true'] at h
      obtain ⟨hkps, ⟨⟨hkrest, hfit⟩, hrest⟩, _⟩ := h
      have hu : under k (encO (consumed ++ (k, v) :: rest)) = encN v := by
        rw [encO_append, under_append, under_encO_miss k consumed hkc]
        simp [encO, under_append, under_prep_same, under_encO_miss k rest hkrest]
      have ih := propsFrom_encO g fit hg hempty ps rest (consumed ++ [(k, v)]) hrest (by
        intro kn hkn
        have h1 := hc kn (by simp [hkn])
        have h2 : kn.1 ≠ k := by
          intro e
          have : hasKey k ps = true := by rw [← e]; exact hasKey_of_mem kn.1 kn.2 ps hkn
          rw [hkps] at this; cases this
        simp only [hasKey, List.any_append, List.any_cons, List.any_nil, Bool.or_false, Bool.or_eq_false_iff, decide_eq_false_iff_not]
        exact ⟨by simpa [hasKey] using h1, fun e => h2 e.symm⟩)
      have e : consumed ++ [(k, v)] ++ rest = consumed ++ (k, v) :: rest := by simp
      rw [e] at ih
      simp [propsFrom, hu, hg ns v hfit, ih]
    · simp only [hk, if_false, Bool.and_eq_true, Bool.not_eq_true'] at h
      obtain ⟨hkps, hkkvs, hrest⟩ := h
      have hu : under k (encO (consumed ++ (k', v) :: rest)) = [] := by
        rw [encO_append, under_append, under_encO_miss k consumed hkc, under_encO_miss k _ hkkvs]
        rfl
      have ih := propsFrom_encO g fit hg hempty ps ((k', v) :: rest) consumed hrest (fun kn hkn => hc kn (by simp [hkn]))
      simp only [propsFrom, hu, hempty]
      exact ih

theorem map_prep_ne_nil (k : Str) (e : Ents) (h : e ≠ []) : e.map (prep k) ≠ [] := by
  cases e with
  | nil => contradiction
  | cons a b => simp

/-- a fitting value has at least one primitive leaf -/
theorem encN_ne_nil (prim : PT → Str → PR) : ∀ (f : Nat) (ns : NS) (v : NV), fitsB prim f ns v = true → encN v ≠ []
  | 0, _, _, h => by simp [fitsB] at h
  | f + 1, ns, v, h => by
    have ih := encN_ne_nil prim f
    cases ns with
    | prim ps =>
      cases v <;> simp [fitsB] at h
      simp [encN]
    | arr items =>
      cases v <;> simp only [fitsB, Bool.false_eq_true] at h
      next xs =>
        simp only [Bool.and_eq_true, List.all_eq_true] at h
        cases xs with
        | nil => simp at h
        | cons x rest =>
          have hx := ih items x (h.2 x (by simp))
          simp only [encN, encA]
          intro e
          have := List.append_eq_nil_iff.mp e
          exact map_prep_ne_nil _ _ hx this.1
    | obj props rq addl =>
      cases addl with
      | some a => cases v <;> simp [fitsB] at h
      | none =>
        cases v <;> simp only [fitsB, Bool.false_eq_true] at h
        next kvs =>
          simp only [Bool.and_eq_true] at h
          cases kvs with
          | nil => simp at h
          | cons kv rest =>
            obtain ⟨k', v⟩ := kv
            obtain ⟨ns', hns⟩ := fitsOB_head _ k' v rest props h.2
            have hv := ih ns' v hns
            simp only [encN, encO]
            intro e
            have := List.append_eq_nil_iff.mp e
            exact map_prep_ne_nil _ _ hv this.1

theorem items_encA (prim : PT → Str → PR) (f : Nat) (items : NS)
    (ih : ∀ (v : NV), fitsB prim f items v = true → nbuild prim f items (encN v) = some (some v)) :
    ∀ (todo done : List NV), (∀ x ∈ todo, fitsB prim f items x = true) →
      itemsFrom (fun i => nbuild prim f items (under (showNat i) (encA 0 (done ++ todo)))) todo.length done.length = some todo
  | [], _, _ => rfl
  | x :: rest, done, h => by
    have hx : nbuild prim f items (under (showNat done.length) (encA 0 (done ++ x :: rest))) = some (some x) := by
      have := under_encA_hit x rest done 0
      simp only [Nat.zero_add] at this
      rw [this]
      exact ih x (h x (by simp))
    have ihl := items_encA prim f items ih rest (done ++ [x]) (fun y hy => h y (by simp [hy]))
    have e1 : done ++ [x] ++ rest = done ++ x :: rest := by simp
    have e2 : (done ++ [x]).length = done.length + 1 := by simp
    rw [e1, e2] at ihl
    simp only [itemsFrom, List.length_cons, hx, ihl, Option.map_some]

/-- **decode ∘ encode at every depth**: the entries of a value that fits the schema are built back into exactly that
value by buildResObj's recursion — objects in objects, arrays of objects, arrays of arrays, to any depth -/
theorem nbuild_encN (prim : PT → Str → PR) : ∀ (f : Nat) (ns : NS) (v : NV), fitsB prim f ns v = true →
    nbuild prim f ns (encN v) = some (some v)
  | 0, _, _, h => by simp [fitsB] at h
  | f + 1, ns, v, h => by
    have ih := nbuild_encN prim f
    have hne := encN_ne_nil prim (f + 1) ns v h
    cases ns with
    | prim ps =>
      cases v <;> simp only [fitsB, Bool.false_eq_true] at h
      next pv =>
        have hp : prim ps.t (showPV pv) = .val pv := by simpa using h
        simp [nbuild, encN, scalarAt, hp]
    | arr items =>
      cases v <;> simp only [fitsB, Bool.false_eq_true] at h
      next xs =>
        simp only [Bool.and_eq_true, List.all_eq_true, Bool.not_eq_true', List.isEmpty_eq_false_iff] at h
        obtain ⟨hxs, hall⟩ := h
        have hsolid : ∀ x ∈ xs, encN x ≠ [] := fun x hx => encN_ne_nil prim f items x (hall x hx)
        obtain ⟨idxs, hi1, hi2, hi3⟩ := idxAll_encA xs hxs hsolid
        have hgap : ¬ (maxIdx idxs ≥ idxs.length + maxArrayIndexGap) := by
          simp only [maxArrayIndexGap]; omega
        have hempty : (encA 0 xs).isEmpty = false := by
          simpa [encN] using hne
        have hitems := items_encA prim f items (ih items) xs [] hall
        simp only [List.nil_append, List.length_nil] at hitems
        simp only [nbuild, encN, hempty, Bool.false_eq_true, if_false, scalarAt_encA, hi1, hgap, hi2, hitems, Option.map_some]
    | obj props rq addl =>
      cases addl with
      | some a => cases v <;> simp [fitsB] at h
      | none =>
        cases v <;> simp only [fitsB, Bool.false_eq_true] at h
        next kvs =>
          simp only [Bool.and_eq_true, Bool.not_eq_true', List.isEmpty_eq_false_iff] at h
          obtain ⟨hkvs, hfit⟩ := h
          have hempty : (encO kvs).isEmpty = false := by
            simpa [encN] using hne
          have hf : ∀ ns, nbuild prim f ns [] = some none := by
            cases f with
            | zero =>
              cases kvs with
              | nil => contradiction
              | cons kv rest =>
                obtain ⟨ns', hns⟩ := fitsOB_head _ kv.1 kv.2 rest props hfit
                simp [fitsB] at hns
            | succ f' => exact fun ns => nbuild_empty prim f' ns
          have hprops := propsFrom_encO (fun ns e => nbuild prim f ns e) (fitsB prim f) (fun ns v hv => ih ns v hv) hf props kvs [] hfit (by simp [hasKey])
          simp only [List.nil_append] at hprops
          simp only [nbuild, encN, hempty, Bool.false_eq_true, if_false, scalarAt_encO, hprops]

/-! ### the encoded entries never use a path both as a value and as an object (deepSet accepts them) -/

def NoClash (e : Ents) : Prop := ∀ a ∈ e, ∀ b ∈ e, segPrefix a.1 b.1 = false

/-- every entry's path starts with a key from `S` -/
def HeadsIn (e : Ents) (S : Str → Prop) : Prop := ∀ a ∈ e, ∃ h t, a.1 = h :: t ∧ S h

theorem headsIn_prep (k : Str) (e : Ents) (S : Str → Prop) (hk : S k) : HeadsIn (e.map (prep k)) S := by
  intro a ha
  obtain ⟨x, _, rfl⟩ := List.mem_map.mp ha
  exact ⟨k, x.1, rfl, hk⟩

theorem noClash_prep (k : Str) (e : Ents) (h : NoClash e) : NoClash (e.map (prep k)) := by
  intro a ha b hb
  obtain ⟨x, hx, rfl⟩ := List.mem_map.mp ha
  obtain ⟨y, hy, rfl⟩ := List.mem_map.mp hb
  simpa [prep, segPrefix] using h x hx y hy

theorem noClash_append (A B : Ents) (S T : Str → Prop) (hA : NoClash A) (hB : NoClash B) (hAS : HeadsIn A S) (hBT : HeadsIn B T)
    (hdis : ∀ h, S h → T h → False) : NoClash (A ++ B) := by
  intro a ha b hb
  rcases List.mem_append.mp ha with ha | ha <;> rcases List.mem_append.mp hb with hb | hb
  · exact hA a ha b hb
  · obtain ⟨h1, t1, e1, s1⟩ := hAS a ha
    obtain ⟨h2, t2, e2, s2⟩ := hBT b hb
    have : h1 ≠ h2 := fun e => hdis h1 s1 (e ▸ s2)
    simp [e1, e2, segPrefix, this]
  · obtain ⟨h1, t1, e1, s1⟩ := hBT a ha
    obtain ⟨h2, t2, e2, s2⟩ := hAS b hb
    have : h1 ≠ h2 := fun e => hdis h1 (e ▸ s2) s1
    simp [e1, e2, segPrefix, this]
  · exact hB a ha b hb

theorem headsIn_append (A B : Ents) (S : Str → Prop) (hA : HeadsIn A S) (hB : HeadsIn B S) : HeadsIn (A ++ B) S := by
  intro a ha
  rcases List.mem_append.mp ha with ha | ha
  · exact hA a ha
  · exact hB a ha

theorem headsIn_mono (A : Ents) (S T : Str → Prop) (h : HeadsIn A S) (hst : ∀ x, S x → T x) : HeadsIn A T := by
  intro a ha
  obtain ⟨h1, t1, e1, s1⟩ := h a ha
  exact ⟨h1, t1, e1, hst _ s1⟩

theorem headsIn_encA : ∀ (xs : List NV) (b : Nat), HeadsIn (encA b xs) (fun h => ∃ j, h = showNat (b + j))
  | [], _ => by intro a ha; simp [encA] at ha
  | x :: rest, b => by
    simp only [encA]
    apply headsIn_append
    · exact headsIn_prep _ _ _ ⟨0, by simp⟩
    · apply headsIn_mono _ _ _ (headsIn_encA rest (b + 1))
      intro h ⟨j, e⟩
      exact ⟨j + 1, by rw [e]; congr 1; omega⟩

theorem noClash_encA : ∀ (xs : List NV) (b : Nat), (∀ x ∈ xs, NoClash (encN x)) → NoClash (encA b xs)
  | [], _, _ => by intro a ha; simp [encA] at ha
  | x :: rest, b, h => by
    simp only [encA]
    apply noClash_append _ _ (fun k => k = showNat b) (fun k => ∃ j, k = showNat (b + 1 + j))
    · exact noClash_prep _ _ (h x (by simp))
    · exact noClash_encA rest (b + 1) (fun y hy => h y (by simp [hy]))
    · exact headsIn_prep _ _ _ rfl
    · exact headsIn_encA rest (b + 1)
    · intro k hk ⟨j, hj⟩
      rw [hk] at hj
      have := showNat_inj _ _ hj
      omega

theorem headsIn_encO : ∀ (kvs : List (Str × NV)), HeadsIn (encO kvs) (fun h => hasKey h kvs = true)
  | [] => by intro a ha; simp [encO] at ha
  | (k, v) :: rest => by
    simp only [encO]
    apply headsIn_append
    · exact headsIn_prep _ _ _ (by simp [hasKey])
    · apply headsIn_mono _ _ _ (headsIn_encO rest)
      intro h hh
      simp only [hasKey, List.any_cons] at hh ⊢
      simp [hh]

/-- keys pairwise different, every value fits some schema -/
def kvsOK (fit : NS → NV → Bool) : List (Str × NV) → Prop
  | [] => True
  | (k, v) :: rest => hasKey k rest = false ∧ (∃ ns, fit ns v = true) ∧ kvsOK fit rest ∧ ']' ∉ k

theorem kvsOK_of_fitsOB (fit : NS → NV → Bool) : ∀ (props : List (Str × NS)) (kvs : List (Str × NV)), fitsOB fit props kvs = true → kvsOK fit kvs
  | [], [], _ => trivial
  | [], _ :: _, h => by simp [fitsOB] at h
  | (k, ns) :: ps, [], _ => trivial
  | (k, ns) :: ps, (k', v) :: rest, h => by
    simp only [fitsOB, Bool.and_eq_true] at h
    by_cases hk : k = k'
    · subst hk
      simp only [if_true, Bool.and_eq_true, Bool.not_eq_true'] at h
      exact ⟨h.2.1.1.1, ⟨ns, h.2.1.1.2⟩, kvsOK_of_fitsOB fit ps rest h.2.1.2, (freeOf_iff _ _).mp h.2.2⟩
    · simp only [hk, if_false, Bool.and_eq_true] at h
      exact kvsOK_of_fitsOB fit ps ((k', v) :: rest) h.2.2

theorem noClash_encO (fit : NS → NV → Bool) (hfit : ∀ ns v, fit ns v = true → NoClash (encN v)) :
    ∀ (kvs : List (Str × NV)), kvsOK fit kvs → NoClash (encO kvs)
  | [], _ => by intro a ha; simp [encO] at ha
  | (k, v) :: rest, h => by
    obtain ⟨hk, ⟨ns, hns⟩, hrest, _⟩ := h
    simp only [encO]
    apply noClash_append _ _ (fun x => x = k) (fun x => hasKey x rest = true)
    · exact noClash_prep _ _ (hfit ns v hns)
    · exact noClash_encO fit hfit rest hrest
    · exact headsIn_prep _ _ _ rfl
    · exact headsIn_encO rest
    · intro x hx hr
      rw [hx, hk] at hr
      cases hr

theorem noClash_encN (prim : PT → Str → PR) : ∀ (f : Nat) (ns : NS) (v : NV), fitsB prim f ns v = true → NoClash (encN v)
  | 0, _, _, h => by simp [fitsB] at h
  | f + 1, ns, v, h => by
    have ih := noClash_encN prim f
    cases ns with
    | prim ps =>
      cases v <;> simp only [fitsB, Bool.false_eq_true] at h
      intro a ha b hb
      simp only [encN, List.mem_singleton] at ha hb
      subst ha hb
      rfl
    | arr items =>
      cases v <;> simp only [fitsB, Bool.false_eq_true] at h
      next xs =>
        simp only [Bool.and_eq_true, List.all_eq_true] at h
        exact noClash_encA xs 0 (fun x hx => ih items x (h.2 x hx))
    | obj props rq addl =>
      cases addl with
      | some a => cases v <;> simp [fitsB] at h
      | none =>
        cases v <;> simp only [fitsB, Bool.false_eq_true] at h
        next kvs =>
          simp only [Bool.and_eq_true] at h
          exact noClash_encO (fitsB prim f) ih kvs (kvsOK_of_fitsOB _ props kvs h.2)

/-! ### the key text `name[s1]…[sn]` is read back as its segments -/

def SegsFree (e : Ents) : Prop := ∀ a ∈ e, ∀ s ∈ a.1, ']' ∉ s

theorem segsFree_prep (k : Str) (e : Ents) (hk : ']' ∉ k) (h : SegsFree e) : SegsFree (e.map (prep k)) := by
  intro a ha s hs
  obtain ⟨x, hx, rfl⟩ := List.mem_map.mp ha
  simp only [prep, List.mem_cons] at hs
  rcases hs with e | hs
  · rw [e]; exact hk
  · exact h x hx s hs

theorem segsFree_append (A B : Ents) (hA : SegsFree A) (hB : SegsFree B) : SegsFree (A ++ B) := by
  intro a ha
  rcases List.mem_append.mp ha with ha | ha
  · exact hA a ha
  · exact hB a ha

theorem bracket_not_digit : ∀ d, d < 10 → ']' ≠ digitChar d := by
  intro d hd
  have : d = 0 ∨ d = 1 ∨ d = 2 ∨ d = 3 ∨ d = 4 ∨ d = 5 ∨ d = 6 ∨ d = 7 ∨ d = 8 ∨ d = 9 := by omega
  rcases this with rfl | rfl | rfl | rfl | rfl | rfl | rfl | rfl | rfl | rfl <;> decide

theorem segsFree_encA : ∀ (xs : List NV) (b : Nat), (∀ x ∈ xs, SegsFree (encN x)) → SegsFree (encA b xs)
  | [], _, _ => by intro a ha; simp [encA] at ha
  | x :: rest, b, h => by
    simp only [encA]
    exact segsFree_append _ _ (segsFree_prep _ _ (showNat_free b ']' bracket_not_digit) (h x (by simp)))
      (segsFree_encA rest (b + 1) (fun y hy => h y (by simp [hy])))

theorem segsFree_encO (fit : NS → NV → Bool) (hfit : ∀ ns v, fit ns v = true → SegsFree (encN v)) :
    ∀ (kvs : List (Str × NV)), kvsOK fit kvs → SegsFree (encO kvs)
  | [], _ => by intro a ha; simp [encO] at ha
  | (k, v) :: rest, h => by
    obtain ⟨_, ⟨ns, hns⟩, hrest, hk⟩ := h
    simp only [encO]
    exact segsFree_append _ _ (segsFree_prep _ _ hk (hfit ns v hns)) (segsFree_encO fit hfit rest hrest)

theorem segsFree_encN (prim : PT → Str → PR) : ∀ (f : Nat) (ns : NS) (v : NV), fitsB prim f ns v = true → SegsFree (encN v)
  | 0, _, _, h => by simp [fitsB] at h
  | f + 1, ns, v, h => by
    have ih := segsFree_encN prim f
    cases ns with
    | prim ps =>
      cases v <;> simp only [fitsB, Bool.false_eq_true] at h
      intro a ha s hs
      simp only [encN, List.mem_singleton] at ha
      subst ha
      simp at hs
    | arr items =>
      cases v <;> simp only [fitsB, Bool.false_eq_true] at h
      next xs =>
        simp only [Bool.and_eq_true, List.all_eq_true] at h
        exact segsFree_encA xs 0 (fun x hx => ih items x (h.2 x hx))
    | obj props rq addl =>
      cases addl with
      | some a => cases v <;> simp [fitsB] at h
      | none =>
        cases v <;> simp only [fitsB, Bool.false_eq_true] at h
        next kvs =>
          simp only [Bool.and_eq_true] at h
          exact segsFree_encO (fitsB prim f) ih kvs (kvsOK_of_fitsOB _ props kvs h.2)

theorem brackets_length_cons (s : Str) (rest : List Str) : (brackets (s :: rest)).length = s.length + 2 + (brackets rest).length := by
  simp [brackets]; omega

theorem bracketSegs_brackets : ∀ (segs : List Str) (g : Nat), (∀ s ∈ segs, ']' ∉ s) → (brackets segs).length ≤ g →
    bracketSegs g (brackets segs) = segs
  | [], g, _, _ => by cases g <;> simp [brackets, bracketSegs]
  | s :: rest, 0, _, hg => by simp [brackets] at hg
  | s :: rest, g + 1, h, hg => by
    have hs : ']' ∉ s := h s (by simp)
    have hlen := brackets_length_cons s rest
    have ih := bracketSegs_brackets rest g (fun x hx => h x (by simp [hx])) (by omega)
    have ht : takeTo ']' (s ++ ']' :: brackets rest) = some (s, brackets rest) := takeTo_close s (brackets rest) hs
    simp [brackets, bracketSegs, ht, ih]

theorem deepKey_brackets (name : Str) (hn : '[' ∉ name) (segs : List Str) (hne : segs ≠ []) (h : ∀ s ∈ segs, ']' ∉ s) :
    deepKey name (name ++ brackets segs) = some segs := by
  cases segs with
  | nil => contradiction
  | cons s rest =>
    unfold deepKey
    have hp : (name ++ ['[']).isPrefixOf (name ++ brackets (s :: rest)) = true := by
      have := isPrefixOf_append_self (name ++ ['[']) (s ++ ']' :: brackets rest)
      simpa [brackets] using this
    have hseg : bracketSegs (name ++ brackets (s :: rest)).length (name ++ brackets (s :: rest)) = s :: rest := by
      have e : (name ++ brackets (s :: rest)).length = name.length + (brackets (s :: rest)).length := by simp
      rw [e, bracketSegs_skip name _ _ hn]
      exact bracketSegs_brackets (s :: rest) _ h (Nat.le_refl _)
    simp only [hp, hseg, if_true]

/-- the query entries of a list of (key path, text) entries: `name[s1]…[sn]=text` -/
def encQ (name : Str) (e : Ents) : List (Str × List Str) := e.map (fun a => (name ++ brackets a.1, [a.2]))

theorem deepProps_encQ (name : Str) (hn : '[' ∉ name) : ∀ (e : Ents), (∀ a ∈ e, a.1 ≠ []) → SegsFree e →
    deepProps name (encQ name e) = e.map (fun a => (a.1, [a.2]))
  | [], _, _ => rfl
  | a :: rest, hne, hf => by
    have hk := deepKey_brackets name hn a.1 (hne a (by simp)) (hf a (by simp))
    have ih := deepProps_encQ name hn rest (fun x hx => hne x (by simp [hx])) (fun x hx => hf x (by simp [hx]))
    simp only [encQ, List.map_cons] at ih ⊢
    simp only [deepProps, hk, ih]

theorem deepClash_of_noClash (e : Ents) (h : NoClash e) : deepClash (e.map (fun a => (a.1, [a.2]))) = false := by
  unfold deepClash
  have h1 : (e.map (fun a => (a.1, [a.2]))).any (fun kv => kv.2.length ≠ 1) = false := by
    simp
  rw [h1, Bool.false_or, List.any_eq_false]
  intro x hx
  obtain ⟨a, ha, rfl⟩ := List.mem_map.mp hx
  rw [Bool.not_eq_true, List.any_eq_false]
  intro y hy
  obtain ⟨b, hb, rfl⟩ := List.mem_map.mp hy
  simpa using h a ha b hb

/-! ### `found` -/

theorem lookup_head_self {β : Type} (k : Str) (v : β) (rest : List (Str × β)) : ((k, v) :: rest).lookup k = some v := by
  simp [List.lookup]

/-- deepGet along the path of any entry of the encoded object succeeds on the decoded object -/
theorem nget_encO (prim : PT → Str → PR) : ∀ (f : Nat) (kvs : List (Str × NV)), kvsOK (fitsB prim f) kvs →
    ∀ a ∈ encO kvs, nget kvs a.1 = true
  | f, [], _, a, ha => by simp [encO] at ha
  | f, (k, v) :: rest, h, a, ha => by
    obtain ⟨hk, ⟨ns, hns⟩, hrest, _⟩ := h
    simp only [encO, List.mem_append, List.mem_map] at ha
    rcases ha with ⟨x, hx, rfl⟩ | ha
    · -- an entry of the first pair
      simp only [prep, nget, lookup_head_self]
      cases f with
      | zero => simp [fitsB] at hns
      | succ f' =>
        cases v with
        | nil => rfl
        | p pv => rfl
        | a xs => rfl
        | o sub =>
          cases ns with
          | prim ps => simp [fitsB] at hns
          | arr it => simp [fitsB] at hns
          | obj props rq addl =>
            cases addl with
            | some a => simp [fitsB] at hns
            | none =>
              simp only [fitsB, Bool.and_eq_true] at hns
              have hx' : x ∈ encO sub := by simpa [encN] using hx
              exact nget_encO prim f' sub (kvsOK_of_fitsOB _ props sub hns.2) x hx'
    · -- an entry of a later pair: its head is another key
      obtain ⟨h1, t1, e1, s1⟩ := headsIn_encO rest a ha
      have hne : h1 ≠ k := by
        intro e; rw [e, hk] at s1; cases s1
      have hbeq : (h1 == k) = false := by simpa using hne
      have ih := nget_encO prim f rest hrest a ha
      rw [e1] at ih ⊢
      simpa [nget, List.lookup, hbeq] using ih

end KinModel.Style
