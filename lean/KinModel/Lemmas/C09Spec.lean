/-
Helper lemmas for C09, spec side: the executable enumeration `smatchP` is exactly the declarative `Fills`.
-/
import KinModel.RouterSpec
namespace KinModel.Router

theorem mem_splitsFrom : ∀ (s acc v r : Str),
    (v, r) ∈ splitsFrom acc s ↔ ∃ w, w ≠ [] ∧ '/' ∉ w ∧ v = acc ++ w ∧ s = w ++ r := by
  intro s
  induction s with
  | nil =>
    intro acc v r
    simp only [splitsFrom, List.not_mem_nil, false_iff]
    rintro ⟨w, h1, _, _, h4⟩
    cases w with
    | nil => exact h1 rfl
    | cons _ _ => simp at h4
  | cons c cs ih =>
    intro acc v r
    simp only [splitsFrom]
    split
    · rename_i hc
      simp only [List.not_mem_nil, false_iff]
      rintro ⟨w, h1, h2, _, h4⟩
      cases w with
      | nil => exact h1 rfl
      | cons a as =>
        simp only [List.cons_append, List.cons.injEq] at h4
        apply h2
        rw [← h4.1, hc]; simp
    · rename_i hc
      simp only [List.mem_cons, Prod.mk.injEq, ih]
      constructor
      · rintro (⟨h1, h2⟩ | ⟨w, h1, h2, h3, h4⟩)
        · exact ⟨[c], by simp, by simpa using fun e => hc e.symm, h1, by simp [h2]⟩
        · refine ⟨c :: w, by simp, ?_, by simp [h3], by simp [h4]⟩
          simp only [List.mem_cons, not_or]
          exact ⟨fun e => hc e.symm, h2⟩
      · rintro ⟨w, h1, h2, h3, h4⟩
        cases w with
        | nil => exact absurd rfl h1
        | cons a as =>
          simp only [List.cons_append, List.cons.injEq] at h4
          obtain ⟨rfl, h4⟩ := h4
          simp only [List.mem_cons, not_or] at h2
          cases as with
          | nil => left; simp [h3, h4]
          | cons b bs =>
            right
            exact ⟨b :: bs, by simp, h2.2, by simp [h3], h4⟩

theorem mem_splits (s v r : Str) : (v, r) ∈ splits s ↔ GoodVal v ∧ s = v ++ r := by
  simp only [splits, mem_splitsFrom, List.nil_append, GoodVal]
  constructor
  · rintro ⟨w, h1, h2, rfl, h4⟩; exact ⟨⟨h1, h2⟩, h4⟩
  · rintro ⟨⟨h1, h2⟩, h4⟩; exact ⟨v, h1, h2, rfl, h4⟩

/-- the executable enumeration is exactly the declarative relation -/
theorem smatchP_iff : ∀ (toks : List STok) (s : Str) (vs : List Str) (rest : Str),
    (vs, rest) ∈ smatchP toks s ↔ Fills toks vs s rest := by
  intro toks
  induction toks with
  | nil =>
    intro s vs rest
    simp only [smatchP, List.mem_singleton, Prod.mk.injEq, Fills]
    constructor
    · rintro ⟨rfl, rfl⟩; exact ⟨by simp, [], by simp [ssubst], by simp⟩
    · rintro ⟨_, p, h1, h2⟩
      cases vs with
      | nil => simp [ssubst] at h1; subst h1; simp [h2]
      | cons _ _ => simp [ssubst] at h1
  | cons t ts ih =>
    intro s vs rest
    cases t with
    | lit c =>
      cases s with
      | nil =>
        simp only [smatchP, List.not_mem_nil, false_iff, Fills]
        rintro ⟨_, p, h1, h2⟩
        simp only [ssubst, Option.map_eq_some_iff] at h1
        obtain ⟨p', _, rfl⟩ := h1
        simp at h2
      | cons d s' =>
        simp only [smatchP]
        split
        · rename_i e
          subst e
          rw [ih]
          simp only [Fills, ssubst, Option.map_eq_some_iff]
          constructor
          · rintro ⟨g, p, h1, h2⟩; exact ⟨g, c :: p, ⟨p, h1, rfl⟩, by simp [h2]⟩
          · rintro ⟨g, p, ⟨p', h1, rfl⟩, h2⟩
            simp only [List.cons_append, List.cons.injEq, true_and] at h2
            exact ⟨g, p', h1, h2⟩
        · rename_i hne
          simp only [List.not_mem_nil, false_iff, Fills]
          rintro ⟨_, p, h1, h2⟩
          simp only [ssubst, Option.map_eq_some_iff] at h1
          obtain ⟨p', _, rfl⟩ := h1
          simp only [List.cons_append, List.cons.injEq] at h2
          exact hne h2.1.symm
    | var n =>
      simp only [smatchP, List.mem_flatMap, List.mem_map, Prod.exists, consVal]
      constructor
      · rintro ⟨v, r, hsp, vs', rest', hm, he⟩
        simp only [Prod.mk.injEq] at he
        obtain ⟨rfl, rfl⟩ := he
        obtain ⟨hg, hs⟩ := (mem_splits _ _ _).1 hsp
        obtain ⟨g, p, h1, h2⟩ := (ih _ _ _).1 hm
        refine ⟨?_, v ++ p, by simp [ssubst, h1], by simp [hs, h2]⟩
        intro x hx
        simp only [List.mem_cons] at hx
        rcases hx with rfl | hx
        · exact hg
        · exact g x hx
      · rintro ⟨g, p, h1, h2⟩
        cases vs with
        | nil => simp [ssubst] at h1
        | cons v vs' =>
          simp only [ssubst, Option.map_eq_some_iff] at h1
          obtain ⟨p', h1, rfl⟩ := h1
          refine ⟨v, p' ++ rest, (mem_splits _ _ _).2 ⟨g v (by simp), by simp [h2]⟩, vs', rest, ?_, rfl⟩
          exact (ih _ _ _).2 ⟨fun x hx => g x (by simp [hx]), p', h1, rfl⟩

theorem mem_tagFrom {mk : Nat → SrvRef} : ∀ {l : List Server} {j : Nat} {x : SrvRef × Server},
    x ∈ tagFrom mk j l → ∃ i, l[i]? = some x.2 ∧ x.1 = mk (j + i) := by
  intro l
  induction l with
  | nil => intro j x h; simp [tagFrom] at h
  | cons s rest ih =>
    intro j x h
    simp only [tagFrom, List.mem_cons] at h
    rcases h with rfl | h
    · exact ⟨0, by simp, rfl⟩
    · obtain ⟨i, h1, h2⟩ := ih h
      exact ⟨i + 1, by simpa using h1, by rw [h2]; congr 1; omega⟩


theorem specServerRems_sound (e : Bool) (s : Server) (r : Req) (rem : Str) (h : rem ∈ specServerRems e s r) :
    ∃ vals, Fills (sparseS (dropOneSlash s.url)) vals
        (if isRelativeURL (dropOneSlash s.url) then r.path else fullURL r) rem ∧
      (rem = [] ∨ rem.head? = some '/') ∧
      (e = true → enumOK s (svarNames (sparseS (dropOneSlash s.url))) vals = true) := by
  simp only [specServerRems, List.mem_filterMap] at h
  obtain ⟨⟨vals, rest⟩, hm, hc⟩ := h
  split at hc
  · rename_i hcond
    simp only [Option.some.injEq] at hc
    subst hc
    simp only [Bool.and_eq_true, Bool.or_eq_true, decide_eq_true_eq, Bool.not_eq_true'] at hcond
    refine ⟨vals, (smatchP_iff _ _ _ _).1 hm, ?_, ?_⟩
    · rcases hcond.1 with h1 | h1
      · exact Or.inl h1
      · exact Or.inr (by simpa using h1)
    · intro he
      rcases hcond.2 with h2 | h2
      · rw [he] at h2; simp at h2
      · exact h2
  · simp at hc


end KinModel.Router
