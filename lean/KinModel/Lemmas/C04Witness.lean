/- Concrete documents used by the witness theorems and non-vacuity examples of C04. -/
import KinModel.DocValidate
namespace KinModel.DocValidate.W

def strSchema : Doc := .node .schema { lists := [("type", ["string"])], flags := ["simple"] } []
def schemaRefTo (s : Doc) : Doc := .node .schemaRef { flags := ["resolved"] } [("value", s)]
def pathParam (name : String) : Doc :=
  .node .parameterRef { flags := ["resolved"] }
    [("value", .node .parameter { strs := [("name", name), ("in", "path")], flags := ["required", "hasSchema"], nums := [("content", 0)] }
      [("schema", schemaRefTo strSchema)])]
def okResponses (r : Doc) : Doc :=
  .node .responses { nums := [("count", 1)] } [("responses", .node .responseRef { strs := [("key", "200")], flags := ["resolved"] } [("value", r)])]
def plainResponse : Doc := .node .response { flags := ["hasDescription"] } []
def op (params : List Doc) (resp : Doc) : Doc :=
  .node .operation { strs := [("key", "get")] } [("parameters", .node .parameters {} (params.map (fun p => ("items", p)))), ("responses", okResponses resp)]
def info : Doc := .node .info { strs := [("title", "t"), ("version", "1")] } []
def root (pathItems : List Doc) : Doc :=
  .node .root { strs := [("openapi", "3.0.3")] } [("info", info), ("paths", .node .paths {} (pathItems.map (fun p => ("pathItems", p))))]
def pathItem (key : String) (ops : List Doc) : Doc := .node .pathItem { strs := [("key", key)] } (ops.map (fun o => ("operations", o)))

/-- conforming: `/r/{n}` with path parameter `n` -/
def good : Doc := root [pathItem "/r/{n}" [op [pathParam "n"] plainResponse]]
/-- #7: `/r/{n}` with path parameter `m` -/
def d7 : Doc := root [pathItem "/r/{n}" [op [pathParam "m"] plainResponse]]
/-- a violation the code does catch: `/r/{n}` without any path parameter -/
def dMissing : Doc := root [pathItem "/r/{n}" [op [] plainResponse]]

def headerWith (exts : List String) : Doc :=
  .node .headerRef { strs := [("key", "X-H")], flags := ["resolved"] }
    [("value", .node .header { flags := ["hasSchema"], nums := [("content", 0)], exts := exts } [("schema", schemaRefTo strSchema)])]
def responseWithHeader (exts : List String) : Doc := .node .response { flags := ["hasDescription"] } [("headers", headerWith exts)]
/-- #28 (a), repaired by 78418b3: `"bogus": 1` inside a response header -/
def d28a : Doc := root [pathItem "/p" [op [] (responseWithHeader ["bogus"])]]
def d28aOK : Doc := root [pathItem "/p" [op [] (responseWithHeader ["x-fine"])]]

def mediaType (schema : Doc) (kids : List (String × Doc)) : Doc :=
  .node .mediaType { strs := [("key", "application/json")], flags := ["hasSchema"] } (("schema", schemaRefTo schema) :: kids)
def responseWithContent (mt : Doc) : Doc :=
  .node .response { flags := ["hasDescription"] } [("content", .node .content {} [("mediaTypes", mt)])]
/-- #28 (b): `"bogus": 1` inside the `xml` object of a schema -/
def d28b : Doc :=
  root [pathItem "/p" [op [] (responseWithContent (mediaType
    (.node .schema { lists := [("type", ["string"])], flags := ["simple"] } [("xml", .node .xml { exts := ["bogus"] } [])]) []))]]

/-- `{"$ref": …, "bogus": 1}` as a property of a schema -/
def dInner : Doc :=
  root [pathItem "/p" [op [] (responseWithContent (mediaType
    (.node .schema { lists := [("type", ["object"])] }
      [("properties", .node .innerSchemaRef { strs := [("key", "a")], sibs := ["bogus"], flags := ["resolved"] } [("value", strSchema)])]) []))]]

/-- repaired by 9d56ffd: an example that gives `externalValue` only, under a media type with a string schema -/
def mediaTypeHE (schema : Doc) (kids : List (String × Doc)) : Doc :=
  .node .mediaType { strs := [("key", "application/json")], flags := ["hasSchema", "hasExamples"] } (("schema", schemaRefTo schema) :: kids)
def externalExample : String × Doc :=
  ("examples", .node .exampleRef { strs := [("key", "e")], flags := ["resolved"] }
      [("value", .node .example { strs := [("externalValue", "https://example.com/e.json")] } [])])
def dExternal : Doc :=
  root [pathItem "/p" [op [] (responseWithContent (mediaTypeHE strSchema [externalExample]))]]
/-- … next to an example whose value (an integer) violates the string schema -/
def dExternalBad : Doc :=
  root [pathItem "/p" [op [] (responseWithContent (mediaTypeHE strSchema [externalExample,
    ("examples", .node .exampleRef { strs := [("key", "f")], flags := ["resolved"] }
      [("value", .node .example { vals := [("value", .int)] } [])])]))]]

/-- a default that violates its schema, two levels down (`items` of a schema without `type`) -/
def dDeepDefault : Doc :=
  root [pathItem "/p" [op [] (responseWithContent (mediaType
    (.node .schema {} [("items", .node .innerSchemaRef { flags := ["resolved"] }
        [("value", .node .schema { lists := [("type", ["integer"])], flags := ["simple"], vals := [("default", .str)] } [])])]) []))]]

/-- repaired by 3a27745: a response header with an integer schema and the example `"x"` -/
def headerWithExample (v : Val) : Doc :=
  .node .headerRef { strs := [("key", "X-H")], flags := ["resolved"] }
    [("value", .node .header { flags := ["hasSchema", "hasExample"], nums := [("content", 0)], vals := [("example", v)] }
      [("schema", schemaRefTo (.node .schema { lists := [("type", ["integer"])], flags := ["simple"] } []))])]
def dHeaderExample : Doc :=
  root [pathItem "/p" [op [] (.node .response { flags := ["hasDescription"] } [("headers", headerWithExample .str)])]]
def dHeaderExampleOK : Doc :=
  root [pathItem "/p" [op [] (.node .response { flags := ["hasDescription"] } [("headers", headerWithExample .int)])]]

/-- two operations under `/r/{n}`: `get` declares `n`, `put` does not -/
def dSecondOp : Doc :=
  root [pathItem "/r/{n}" [op [pathParam "n"] plainResponse,
    .node .operation { strs := [("key", "put")] } [("parameters", .node .parameters {} []), ("responses", okResponses plainResponse)]]]

/-- a request-body media type with an object schema and one encoding object -/
def encodingDoc (encAttrs : Attrs) (hdrs : List Doc) : Doc :=
  root [pathItem "/p" [op [] (responseWithContent (mediaType
    (.node .schema { lists := [("type", ["object"])], flags := ["simple"] } [])
    [("encoding", .node .encoding encAttrs (hdrs.map (fun h => ("headers", h))))]))]]
/-- a header of an encoding object that wrongly carries `name` -/
def namedHeader : Doc :=
  .node .headerRef { strs := [("key", "X-E")], flags := ["resolved"] }
    [("value", .node .header { strs := [("name", "X")], flags := ["hasSchema"], nums := [("content", 0)] } [("schema", schemaRefTo strSchema)])]
def fineHeader : Doc :=
  .node .headerRef { strs := [("key", "X-E")], flags := ["resolved"] }
    [("value", .node .header { flags := ["hasSchema"], nums := [("content", 0)] } [("schema", schemaRefTo strSchema)])]
/-- a violation inside a header of an encoding object: `Encoding.Validate` drops the error -/
def dEncHeader : Doc := encodingDoc { strs := [("key", "f")] } [namedHeader]
/-- … and the failing header masks the encoding object's own violations (unsupported style, extra field) -/
def dEncMasked : Doc := encodingDoc { strs := [("key", "f"), ("style", "matrix")], exts := ["bogus"] } [namedHeader]
/-- repaired by 78418b3: an encoding object with an unsupported style / an extra field, headers fine -/
def dEncStyle : Doc := encodingDoc { strs := [("key", "f"), ("style", "matrix")] } [fineHeader]
def dEncExtra : Doc := encodingDoc { strs := [("key", "f")], exts := ["bogus"] } []
def dEncOK : Doc := encodingDoc { strs := [("key", "f"), ("style", "deepObject")], exts := ["x-e"] } [fineHeader]

/-- a header with `example` next to `examples` (mutually exclusive), schema given -/
def dHeaderBoth : Doc :=
  root [pathItem "/p" [op [] (.node .response { flags := ["hasDescription"] } [("headers",
    .node .headerRef { strs := [("key", "X-H")], flags := ["resolved"] }
      [("value", .node .header { flags := ["hasSchema", "hasExample", "hasExamples"], nums := [("content", 0)], vals := [("example", .int)] }
        [("schema", schemaRefTo (.node .schema { lists := [("type", ["integer"])], flags := ["simple"] } []))])])])]]

/-- an operation whose `servers` holds a server object without `url` -/
def dOpServer : Doc :=
  root [pathItem "/p" [.node .operation { strs := [("key", "get")] }
    [("parameters", .node .parameters {} []), ("responses", okResponses plainResponse),
     ("servers", .node .servers {} [("items", .node .server {} [])])]]]
/-- a path item whose `servers` holds a server with an undeclared variable -/
def dPathItemServer : Doc :=
  root [.node .pathItem { strs := [("key", "/p")] }
    [("operations", op [] plainResponse),
     ("servers", .node .servers {} [("items", .node .server { strs := [("url", "https://{env}.example.com")] } [])])]]

/-- an encoding object whose header key is not an identifier -/
def dEncBadKey : Doc := encodingDoc { strs := [("key", "f")] }
  [.node .headerRef { strs := [("key", "bad key!")], flags := ["resolved"] }
    [("value", .node .header { flags := ["hasSchema"], nums := [("content", 0)] } [("schema", schemaRefTo strSchema)])]]

/-- a string schema whose pattern is a look-ahead (not compilable by Go's engine) -/
def dLookahead : Doc :=
  root [pathItem "/p" [op [] (responseWithContent (mediaType
    (.node .schema { lists := [("type", ["string"])], strs := [("pattern", "(?!a)")] } []) []))]]

/-- a header whose content has an encoding object one of whose headers is the header itself (4c7d612): the inner
occurrence is the mark `again` -/
def cyclicHeader (exts : List String) (encAttrs : Attrs) : Doc :=
  .node .headerRef { strs := [("key", "X-H"), ("ref", "#/components/headers/H")], flags := ["resolved"] }
    [("value", .node .header { nums := [("content", 1)], exts := exts }
      [("content", .node .content {} [("mediaTypes", .node .mediaType { strs := [("key", "multipart/form-data")], flags := ["hasSchema"] }
        [("schema", schemaRefTo (.node .schema { lists := [("type", ["object"])], flags := ["simple"] } [])),
         ("encoding", .node .encoding encAttrs
           [("headers", .node .headerRef { strs := [("key", "X"), ("ref", "#/components/headers/H")], flags := ["resolved"] }
              [("value", .node .header { flags := ["again"] } [])])])])])])]
def dCyclicHeader : Doc :=
  root [pathItem "/p" [op [] (.node .response { flags := ["hasDescription"] } [("headers", cyclicHeader [] { strs := [("key", "f")] })])]]
/-- … with an extra field in the header itself / an unsupported style in its encoding object -/
def dCyclicHeaderExtra : Doc :=
  root [pathItem "/p" [op [] (.node .response { flags := ["hasDescription"] } [("headers", cyclicHeader ["bogus"] { strs := [("key", "f")] })])]]
def dCyclicHeaderStyle : Doc :=
  root [pathItem "/p" [op [] (.node .response { flags := ["hasDescription"] }
    [("headers", cyclicHeader [] { strs := [("key", "f"), ("style", "matrix")] })])]]

/-- the attributes of `{type: object, required: [id, pw], properties: {id: {type: string}, pw: {type: string, writeOnly: true}}}` -/
def aSecret : Attrs :=
  { lists := [("type", ["object"]), ("required", ["id", "pw"]), ("props", ["id", "pw"]), ("roProps", []), ("woProps", ["pw"])],
    flags := ["simple", "objSimple"] }

end KinModel.DocValidate.W
