/- Helper lemmas for C08 (not properties themselves). -/
import KinModel.Response
namespace KinModel.Response

theorem woPresent_false_iff : ∀ (ps : Props) (kvs : KVs),
    woPresent ps kvs = false ↔ ∀ k p, ps.Mem k p → p.core.writeOnly = true → kvs.get k = none
  | .nil, kvs => by simp [woPresent, Props.Mem]
  | .cons k s r, kvs => by
    have ih := woPresent_false_iff r kvs
    simp only [woPresent, Props.Mem, Bool.or_eq_false_iff, ih, Bool.and_eq_false_iff]
    constructor
    · rintro ⟨h1, h2⟩ q p (⟨rfl, rfl⟩ | hm) hw
      · rcases h1 with h1 | h1
        · simp [hw] at h1
        · cases hg : kvs.get q <;> simp [hg] at h1 ⊢
      · exact h2 q p hm hw
    · intro h
      refine ⟨?_, fun q p hm hw => h q p (Or.inr hm) hw⟩
      cases hw : s.core.writeOnly
      · exact Or.inl rfl
      · right; simp [h k s (Or.inl ⟨rfl, rfl⟩) hw]


theorem isWO_iff (o : Option Sch) : isWO o = true ↔ ∃ p, o = some p ∧ p.core.writeOnly = true := by
  cases o <;> simp [isWO]

theorem reqSpecB_iff (ps : Props) (kvs : KVs) (ks : List String) :
    reqSpecB ps kvs ks = true ↔
      ∀ k, k ∈ ks → kvs.get k = none → ∃ p, ps.lookup k = some p ∧ p.core.writeOnly = true := by
  induction ks with
  | nil => simp [reqSpecB]
  | cons k ks ih =>
    simp only [reqSpecB, Bool.and_eq_true, Bool.or_eq_true, ih, List.mem_cons, isWO_iff]
    constructor
    · rintro ⟨h1, h2⟩ q (rfl | hq) hn
      · rcases h1 with h1 | h1
        · simp [hn] at h1
        · exact h1
      · exact h2 q hq hn
    · intro h
      refine ⟨?_, fun q hq hn => h q (Or.inr hq) hn⟩
      cases hg : kvs.get k with
      | some v => simp
      | none => exact Or.inr (h k (Or.inl rfl) hg)

theorem maxIOK_iff (c : Core) (n : Int) : maxIOK c n = true ↔ ∀ m, c.maxI = some m → n ≤ m := by
  unfold maxIOK; cases c.maxI <;> simp

theorem maxLenOK_iff (c : Core) (t : String) : maxLenOK c t = true ↔ ∀ m, c.maxLen = some m → t.length ≤ m := by
  unfold maxLenOK; cases c.maxLen <;> simp

mutual
theorem satRepB_iff (w : Bool) : ∀ (v : J) (s : Sch), satRepB w v s = true ↔ SatRep w v s
  | .null, s => by simp [satRepB, SatRep]
  | .bool _, s => by simp [satRepB, SatRep]
  | .num n, s => by simp [satRepB, SatRep, maxIOK_iff]
  | .str t, s => by simp [satRepB, SatRep, maxLenOK_iff]
  | .arr xs, s => by
    simp only [satRepB, SatRep, Bool.and_eq_true]
    cases hi : s.items with
    | none => simp
    | some it => simp [satItemsB_iff w xs it]
  | .obj kvs, s => by
    simp only [satRepB, SatRep, Bool.and_eq_true, satKVsB_iff w kvs s, reqSpecB_iff]
    have hw : (w || !woPresent s.props kvs) = true ↔
        (w = false → ∀ k p, s.props.Mem k p → p.core.writeOnly = true → kvs.get k = none) := by
      rw [← woPresent_false_iff]; cases w <;> simp
    rw [hw]
    constructor
    · rintro ⟨⟨⟨h1, h2⟩, h3⟩, h4⟩; exact ⟨h1, h2, h3, h4⟩
    · rintro ⟨h1, h2, h3, h4⟩; exact ⟨⟨⟨h1, h2⟩, h3⟩, h4⟩
theorem satItemsB_iff (w : Bool) : ∀ (xs : JL) (it : Sch), satItemsB w xs it = true ↔ SatItems w xs it
  | .nil, it => by simp [satItemsB, SatItems]
  | .cons x r, it => by
    simp only [satItemsB, SatItems, Bool.and_eq_true, satRepB_iff w x it, satItemsB_iff w r it]
theorem satKVsB_iff (w : Bool) : ∀ (kvs : KVs) (s : Sch), satKVsB w kvs s = true ↔ SatKVs w kvs s
  | .nil, s => by simp [satKVsB, SatKVs]
  | .cons k v r, s => by
    simp only [satKVsB, SatKVs, Bool.and_eq_true, satKVsB_iff w r s]
    cases hl : s.props.lookup k with
    | some p => simp only [satRepB_iff w v p]
    | none =>
      cases ha : s.addl with
      | none => simp
      | some a => simp [satRepB_iff w v a]
end


theorem woViol_eq_woPresent : ∀ (ps : Props) (kvs : KVs), woViol ps kvs = woPresent ps kvs
  | .nil, kvs => by simp [woViol, woPresent]
  | .cons k p r, kvs => by simp only [woViol, woPresent, woViol_eq_woPresent r kvs]

theorem reqOK_asrep (w : Bool) (ps : Props) (kvs : KVs) (ks : List String) :
    reqOK ⟨true, w⟩ ps kvs ks = reqSpecB ps kvs ks := by
  induction ks with
  | nil => rfl
  | cons k ks ih => simp [reqOK, reqSpecB, ih]

mutual
theorem visit_asrep_eq_satRepB (w : Bool) : ∀ (v : J) (s : Sch), visit ⟨true, w⟩ v s = satRepB w v s
  | .null, s => by simp [visit, satRepB]
  | .bool _, s => by simp [visit, satRepB]
  | .num n, s => by simp [visit, satRepB]
  | .str t, s => by simp [visit, satRepB]
  | .arr xs, s => by
    simp only [visit, satRepB]
    cases hi : s.items with
    | none => rfl
    | some it => simp only [visitItems_asrep_eq w xs it]
  | .obj kvs, s => by
    simp only [visit, satRepB, reqOK_asrep, visitKVs_asrep_eq w kvs s, woViol_eq_woPresent]
    cases w <;> simp
theorem visitItems_asrep_eq (w : Bool) : ∀ (xs : JL) (it : Sch), visitItems ⟨true, w⟩ xs it = satItemsB w xs it
  | .nil, it => by simp [visitItems, satItemsB]
  | .cons x r, it => by
    simp only [visitItems, satItemsB, visit_asrep_eq_satRepB w x it, visitItems_asrep_eq w r it]
theorem visitKVs_asrep_eq (w : Bool) : ∀ (kvs : KVs) (s : Sch), visitKVs ⟨true, w⟩ kvs s = satKVsB w kvs s
  | .nil, s => by simp [visitKVs, satKVsB]
  | .cons k v r, s => by
    simp only [visitKVs, satKVsB, visitKVs_asrep_eq w r s]
    congr 1
    cases hl : s.props.lookup k with
    | some p => exact visit_asrep_eq_satRepB w v p
    | none =>
      cases ha : s.addl with
      | none => rfl
      | some a => simp only [visit_asrep_eq_satRepB w v a]
end

theorem woViol_of_not_declares : ∀ (ps : Props) (kvs : KVs), declaresWO ps = false → woViol ps kvs = false
  | .nil, _, _ => rfl
  | .cons k p r, kvs, h => by
    simp only [declaresWO, Bool.or_eq_false_iff] at h
    simp [woViol, h.1, woViol_of_not_declares r kvs h.2]

theorem isWO_lookup_of_not_declares : ∀ (ps : Props) (k : String), declaresWO ps = false → isWO (ps.lookup k) = false
  | .nil, _, _ => rfl
  | .cons k' p r, k, h => by
    simp only [declaresWO, Bool.or_eq_false_iff] at h
    simp only [Props.lookup]
    split
    · simp [isWO, h.1]
    · exact isWO_lookup_of_not_declares r k h.2

theorem reqOK_plain_eq_asrep (w : Bool) (ps : Props) (kvs : KVs) (ks : List String) (h : declaresWO ps = false) :
    reqOK ⟨false, w⟩ ps kvs ks = reqOK ⟨true, w⟩ ps kvs ks := by
  induction ks with
  | nil => rfl
  | cons k ks ih => simp [reqOK, ih, isWO_lookup_of_not_declares ps k h]

mutual
theorem visit_plain_eq_asrep (w : Bool) : ∀ (v : J) (s : Sch),
    woTouched v s = false → visit ⟨false, w⟩ v s = visit ⟨true, w⟩ v s
  | .null, s, _ => by simp [visit]
  | .bool _, s, _ => by simp [visit]
  | .num n, s, _ => by simp [visit]
  | .str t, s, _ => by simp [visit]
  | .arr xs, s, h => by
    simp only [visit]
    cases hi : s.items with
    | none => rfl
    | some it =>
      simp only [woTouched, hi] at h
      simp only [visitItems_plain_eq_asrep w xs it h]
  | .obj kvs, s, h => by
    simp only [woTouched, Bool.or_eq_false_iff] at h
    simp only [visit, visitKVs_plain_eq_asrep w kvs s h.2, reqOK_plain_eq_asrep w _ _ _ h.1,
      woViol_of_not_declares _ kvs h.1]
    simp
theorem visitItems_plain_eq_asrep (w : Bool) : ∀ (xs : JL) (it : Sch),
    woTouchedItems xs it = false → visitItems ⟨false, w⟩ xs it = visitItems ⟨true, w⟩ xs it
  | .nil, it, _ => by simp [visitItems]
  | .cons x r, it, h => by
    simp only [woTouchedItems, Bool.or_eq_false_iff] at h
    simp only [visitItems, visit_plain_eq_asrep w x it h.1, visitItems_plain_eq_asrep w r it h.2]
theorem visitKVs_plain_eq_asrep (w : Bool) : ∀ (kvs : KVs) (s : Sch),
    woTouchedKVs kvs s = false → visitKVs ⟨false, w⟩ kvs s = visitKVs ⟨true, w⟩ kvs s
  | .nil, s, _ => by simp [visitKVs]
  | .cons k v r, s, h => by
    simp only [woTouchedKVs, Bool.or_eq_false_iff] at h
    simp only [visitKVs, visitKVs_plain_eq_asrep w r s h.2]
    congr 1
    cases hl : s.props.lookup k with
    | some p =>
      simp only [hl] at h
      exact visit_plain_eq_asrep w v p h.1
    | none =>
      cases ha : s.addl with
      | none => rfl
      | some a =>
        simp only [hl, ha] at h
        simp only [visit_plain_eq_asrep w v a h.1]
end

/-! ### decimal rendering of integers, and parseInt64 reads it back -/

def digitChar (d : Nat) : Char := Char.ofNat (48 + d)

/-- decimal digits of n, most significant first (fuel f ≥ n suffices) -/
def showNatF : Nat → Nat → List Char
  | 0, n => [digitChar (n % 10)]
  | f + 1, n => if n < 10 then [digitChar n] else showNatF f (n / 10) ++ [digitChar (n % 10)]

def showNat (n : Nat) : List Char := showNatF n n

/-- strconv.FormatInt(n, 10) -/
def showInt : Int → List Char
  | .ofNat n => showNat n
  | .negSucc n => '-' :: showNat (n + 1)

theorem digitVal_digitChar : ∀ d, d < 10 → digitVal (digitChar d) = some d := by decide

theorem digitChar_not_sign : ∀ d, d < 10 → digitChar d ≠ '-' ∧ digitChar d ≠ '+' := by decide

theorem digitsVal_snoc (c : Char) : ∀ (xs : List Char) (a : Nat),
    digitsVal (xs ++ [c]) a = (digitsVal xs a).bind (fun m => (digitVal c).map (fun d => m * 10 + d))
  | [], a => by simp [digitsVal]; cases digitVal c <;> simp [digitsVal]
  | x :: xs, a => by
    simp only [List.cons_append, digitsVal]
    cases digitVal x with
    | none => simp
    | some d => exact digitsVal_snoc c xs (a * 10 + d)

theorem digitsVal_showNatF : ∀ (f n : Nat), n ≤ f → digitsVal (showNatF f n) 0 = some n
  | 0, n, h => by
    have : n = 0 := by omega
    subst this
    simp [showNatF, digitsVal, digitVal_digitChar 0 (by omega)]
  | f + 1, n, h => by
    unfold showNatF
    split
    · rename_i hn
      simp [digitsVal, digitVal_digitChar n hn]
    · rename_i hn
      have ih := digitsVal_showNatF f (n / 10) (by omega)
      rw [digitsVal_snoc, ih]
      simp only [Option.bind_some, digitVal_digitChar (n % 10) (by omega), Option.map_some, Option.some.injEq]
      omega

theorem showNatF_head : ∀ (f n : Nat), ∃ d rest, d < 10 ∧ showNatF f n = digitChar d :: rest
  | 0, n => ⟨n % 10, [], by omega, rfl⟩
  | f + 1, n => by
    unfold showNatF
    split
    · rename_i hn; exact ⟨n, [], hn, rfl⟩
    · obtain ⟨d, rest, hd, he⟩ := showNatF_head f (n / 10)
      exact ⟨d, rest ++ [digitChar (n % 10)], hd, by simp [he]⟩

theorem splitSign_digit (d : Nat) (rest : List Char) (hd : d < 10) :
    splitSign (digitChar d :: rest) = (false, digitChar d :: rest) := by
  obtain ⟨h1, h2⟩ := digitChar_not_sign d hd
  unfold splitSign
  split
  · rename_i heq; simp at heq; exact absurd heq.1 h1
  · rename_i heq; simp at heq; exact absurd heq.1 h2
  · rfl

theorem parseInt64_showNat (n : Nat) (h : n ≤ 9223372036854775807) : parseInt64 (showNat n) = some (n : Int) := by
  obtain ⟨d, rest, hd, he⟩ := showNatF_head n n
  have hv := digitsVal_showNatF n n (Nat.le_refl n)
  unfold showNat at *
  unfold parseInt64
  rw [he, splitSign_digit d rest hd]
  rw [he] at hv
  simp [hv, h]

theorem parseInt64_neg_showNat (n : Nat) (h : n ≤ 9223372036854775808) :
    parseInt64 ('-' :: showNat n) = some (-(n : Int)) := by
  obtain ⟨d, rest, hd, he⟩ := showNatF_head n n
  have hv := digitsVal_showNatF n n (Nat.le_refl n)
  unfold showNat at *
  unfold parseInt64
  have : splitSign ('-' :: showNatF n n) = (true, showNatF n n) := rfl
  rw [this]
  rw [he] at hv ⊢
  simp [hv, h]

/-! ### header decoding -/

theorem parsePrim_ne_panic (t : Ty) (raw : String) : parsePrim t raw ≠ .panic := by
  unfold parsePrim
  split
  · simp
  · cases t <;> simp <;> split <;> simp

theorem consItem_of_not_val (x : J) (d : Dec) (h : ∀ v, d ≠ .val v) : consItem x d = d := by
  cases d with
  | val v => exact absurd rfl (h v)
  | err => rfl
  | nil => rfl
  | panic => rfl

theorem consItem_ne_panic (x : J) (d : Dec) (h : d ≠ .panic) : consItem x d ≠ .panic := by
  cases d with
  | val v => cases v <;> simp [consItem]
  | err => simp [consItem]
  | nil => simp [consItem]
  | panic => exact absurd rfl h

theorem parseArr_some_ne_panic (s : Sch) (l : List String) : parseArr (.some s) l ≠ .panic := by
  induction l with
  | nil => simp [parseArr]
  | cons v r ih =>
    unfold parseArr
    cases hp : parsePrim s.core.ty v with
    | val x => simpa [hp] using consItem_ne_panic x _ ih
    | err => simp [hp]
    | nil => simp [hp]
    | panic => exact absurd hp (parsePrim_ne_panic _ _)

theorem decodeObject_ne_panic (s : Sch) (ex : Bool) (raw : String) (c : Dec) (hc : c ≠ .panic) :
    decodeObject s ex raw c ≠ .panic := by
  unfold decodeObject
  repeat' split
  all_goals first | exact hc | simp

theorem decodeObject_ne_nil (s : Sch) (ex : Bool) (raw : String) (c : Dec) (hc : c ≠ .nil) :
    decodeObject s ex raw c ≠ .nil := by
  unfold decodeObject
  repeat' split
  all_goals first | exact hc | simp

theorem pairUp_none_iff_odd : ∀ (l : List String), pairUp l = none ↔ l.length % 2 = 1
  | [] => by simp [pairUp]
  | [_] => by simp [pairUp]
  | k :: v :: r => by
    have ih := pairUp_none_iff_odd r
    simp only [pairUp, Option.map_eq_none_iff, ih, List.length_cons]
    omega

theorem lastVal_append_same (k v : String) : ∀ (ps : List (String × String)), lastVal k (ps ++ [(k, v)]) = some v
  | [] => by simp [lastVal]
  | (k', v') :: r => by simp [lastVal, lastVal_append_same k v r]

theorem lookup_isSome_cons (k k' : String) (p : Sch) (r : Props) (h : (r.lookup k).isSome = true) :
    ((Props.cons k' p r).lookup k).isSome = true := by
  simp only [Props.lookup]; split <;> simp [h]

/-- the declared loop only produces entries for declared names -/
theorem buildDeclared_keys (pairs : List (String × String)) : ∀ (ps : Props) (seen : List String) (kvs : KVs),
    buildDeclared pairs ps seen = some kvs → ∀ k, (kvs.get k).isSome = true → (ps.lookup k).isSome = true
  | .nil, _, kvs, h, k, hk => by
    simp only [buildDeclared, Option.some.injEq] at h
    subst h; simp [KVs.get] at hk
  | .cons k' p r, seen, kvs, h, k, hk => by
    unfold buildDeclared at h
    split at h
    · exact lookup_isSome_cons k k' p r (buildDeclared_keys pairs r seen kvs h k hk)
    · split at h
      · rename_i x _
        cases hb : buildDeclared pairs r (k' :: seen) with
        | none => simp [hb] at h
        | some kvs' =>
          simp only [hb, Option.map_some, Option.some.injEq] at h
          subst h
          simp only [KVs.get] at hk
          by_cases hkk : k = k'
          · simp [Props.lookup, hkk]
          · simp only [hkk, if_false] at hk
            exact lookup_isSome_cons k k' p r (buildDeclared_keys pairs r _ kvs' hb k hk)
      · exact lookup_isSome_cons k k' p r (buildDeclared_keys pairs r _ kvs h k hk)
      · simp at h

def JL.ofList : List J → JL
  | [] => .nil
  | x :: r => .cons x (JL.ofList r)

/-- item by item, the texts parse (as primitives of type t) to the values -/
inductive ItemsParse (t : Ty) : List String → List J → Prop
  | nil : ItemsParse t [] []
  | cons {v : String} {x : J} {l : List String} {xs : List J} :
      parsePrim t v = .val x → ItemsParse t l xs → ItemsParse t (v :: l) (x :: xs)

/-- every item parses: the array of the parsed items -/
theorem parseArr_vals (s : Sch) (l : List String) (xs : List J)
    (h : ItemsParse s.core.ty l xs) :
    parseArr (.some s) l = .val (.arr (JL.ofList xs)) := by
  induction h with
  | nil => rfl
  | cons hv _ ih => unfold parseArr; simp only [hv, ih, consItem, JL.ofList]

/-- the first item that does not parse to a value decides the whole array -/
theorem parseArr_first_bad (s : Sch) (pre : List String) (xs : List J) (v : String) (post : List String) (d : Dec)
    (hpre : ItemsParse s.core.ty pre xs)
    (hv : parsePrim s.core.ty v = d) (hd : ∀ x, d ≠ .val x) :
    parseArr (.some s) (pre ++ v :: post) = d := by
  induction hpre with
  | nil =>
    simp only [List.nil_append]
    unfold parseArr
    cases d with
    | val x => exact absurd rfl (hd x)
    | err => simp [hv]
    | nil => simp [hv]
    | panic => simp [hv]
  | cons hu _ ih =>
    simp only [List.cons_append]
    unfold parseArr
    simp only [hu, ih]
    exact consItem_of_not_val _ d hd

/-! ### lists, selection -/

theorem firstSome_statusKeys (m : List (String × α)) (status : Int) :
    statusLookup m status = selected m status := by
  unfold statusLookup selected statusKeys
  cases h1 : lookup (codeKey status) m with
  | some v => simp [firstSome, h1]
  | none =>
    cases hc : classKey status with
    | none => simp [firstSome, h1]; cases lookup "default" m <;> rfl
    | some k =>
      cases hk : lookup k m with
      | some v => simp [firstSome, h1, hk]
      | none => simp [firstSome, h1, hk]; cases lookup "default" m <;> rfl

theorem contentGet_eq_firstSome (c : List (String × α)) (mime : String) :
    contentGet c mime = firstSome c (mimeCandidates mime) := by
  unfold contentGet mimeCandidates
  by_cases h : mime = ""
  · simp [h, firstSome]; cases lookup "*/*" c <;> rfl
  · simp only [h, if_false]
    cases h1 : lookup mime c with
    | some v => cases majorType (base mime) <;> simp [firstSome, h1]
    | none =>
      cases h2 : lookup (base mime) c with
      | some v => cases majorType (base mime) <;> simp [firstSome, h1, h2]
      | none =>
        cases h3 : majorType (base mime) with
        | none => simp [firstSome, h1, h2]
        | some t =>
          cases h4 : lookup (t ++ "/*") c with
          | some v => simp [firstSome, h1, h2, h4]
          | none => simp [firstSome, h1, h2, h4]; cases lookup "*/*" c <;> rfl

theorem firstErr_none_iff (f : Hdr → Option Err) (l : List Hdr) :
    firstErr f l = none ↔ ∀ h, h ∈ l → f h = none := by
  induction l with
  | nil => simp [firstErr]
  | cons x xs ih =>
    unfold firstErr
    cases hx : f x with
    | some e => simp [hx]
    | none => simp [hx, ih]

theorem mem_insertHdr (x h : Hdr) (l : List Hdr) : h ∈ insertHdr x l ↔ h = x ∨ h ∈ l := by
  induction l with
  | nil => simp [insertHdr]
  | cons y ys ih =>
    unfold insertHdr
    split
    · simp
    · simp only [List.mem_cons, ih]
      constructor
      · rintro (h | h | h) <;> simp [h]
      · rintro (h | h | h) <;> simp [h]

theorem mem_sortHdrs (l : List Hdr) (h : Hdr) : h ∈ sortHdrs l ↔ h ∈ l := by
  unfold sortHdrs
  induction l with
  | nil => simp
  | cons x xs ih => simp [List.foldr, mem_insertHdr, ih]

theorem mem_checkedHeaders (r : Resp) (h : Hdr) :
    h ∈ checkedHeaders r ↔ h ∈ r.headers ∧ h.name ≠ "Content-Type" := by
  simp [checkedHeaders, mem_sortHdrs]

theorem skipStatus_iff (st : Int) :
    skipStatus st = true ↔ (st = 301 ∨ st = 304 ∨ st = 307 ∨ st = 308) := by
  simp only [skipStatus, Bool.or_eq_true, decide_eq_true_eq]
  constructor
  · rintro (((h | h) | h) | h) <;> simp [h]
  · rintro (h | h | h | h) <;> simp [h]

/-! ### the header loop runs in sorted order -/

theorem insertHdr_sorted (x : Hdr) (l : List Hdr) (h : l.Pairwise (fun a b => a.name ≤ b.name)) :
    (insertHdr x l).Pairwise (fun a b => a.name ≤ b.name) := by
  induction l with
  | nil => simp [insertHdr]
  | cons y ys ih =>
    rw [List.pairwise_cons] at h
    unfold insertHdr
    split
    · rename_i hxy
      rw [List.pairwise_cons]
      refine ⟨?_, List.pairwise_cons.mpr h⟩
      intro z hz
      rcases List.mem_cons.mp hz with rfl | hz
      · exact hxy
      · exact String.le_trans hxy (h.1 z hz)
    · rename_i hxy
      rw [List.pairwise_cons]
      refine ⟨?_, ih h.2⟩
      intro z hz
      rcases (mem_insertHdr x z ys).mp hz with rfl | hz
      · rcases String.le_total z.name y.name with h' | h'
        · exact absurd h' hxy
        · exact h'
      · exact h.1 z hz

theorem sortHdrs_sorted (l : List Hdr) : (sortHdrs l).Pairwise (fun a b => a.name ≤ b.name) := by
  unfold sortHdrs
  induction l with
  | nil => simp
  | cons x xs ih => exact insertHdr_sorted x _ ih

theorem firstErr_some_split (f : Hdr → Option Err) (l : List Hdr) (e : Err) (h : firstErr f l = some e) :
    ∃ pre x post, l = pre ++ x :: post ∧ (∀ y, y ∈ pre → f y = none) ∧ f x = some e := by
  induction l with
  | nil => simp [firstErr] at h
  | cons y ys ih =>
    unfold firstErr at h
    cases hy : f y with
    | some e' =>
      simp [hy] at h
      exact ⟨[], y, ys, rfl, by simp, by rw [hy, h]⟩
    | none =>
      simp [hy] at h
      obtain ⟨pre, x, post, hl, hp, hx⟩ := ih h
      refine ⟨y :: pre, x, post, by simp [hl], ?_, hx⟩
      intro z hz
      rcases List.mem_cons.mp hz with rfl | hz
      · exact hy
      · exact hp z hz

/-! ### one header, the body -/

theorem checkHeader_iff (canon : String → String) (w : Bool) (hdrs : List (String × Option String)) (h : Hdr)
    (h1 : hdrDecodedNil canon hdrs h = false) (h2 : hdrArrayNoItems canon hdrs h = false) :
    checkHeader canon w hdrs h = none ↔ HeaderOK canon w hdrs h := by
  unfold checkHeader HeaderOK
  unfold hdrDecodedNil hdrDec at h1
  unfold hdrArrayNoItems hdrDec at h2
  unfold present
  cases hl : lookup (canon h.name) hdrs with
  | none =>
    cases hs : h.schema <;> cases hr : h.required <;> simp
  | some raw =>
    cases hs : h.schema with
    | none => simp
    | some s =>
      simp only [hl, hs] at h1 h2
      simp only [Option.some.injEq, forall_eq']
      cases hd : decodeHdrVal s h.explode raw h.emptyNameDec with
      | err => simp [specValue]
      | panic => simp [hd] at h2
      | nil => simp [hd] at h1
      | val v =>
        have e2 := visit_asrep_eq_satRepB w v s
        have e3 := satRepB_iff w v s
        simp only [specValue, Option.some.injEq, exists_eq_left']
        rw [e2]
        cases hb : satRepB w v s
        · simp [← e3, hb]
        · simp [← e3, hb]

theorem checkBody_iff (reg : List (String × String)) (o : Opts) (i : Input) (r : Resp) (he : o.excludeBody = false) :
    (checkBody reg o i r).err = none ↔ BodyOK reg o i r := by
  unfold checkBody BodyOK
  simp only [he, Bool.false_eq_true, if_false]
  cases hc : r.content with
  | nil => simp
  | cons c cs =>
    simp only [List.isEmpty_cons, Bool.false_eq_true, if_false, reduceCtorEq, false_or]
    rw [contentGet_eq_firstSome]
    cases hg : firstSome (c :: cs) (mimeCandidates (ctOf i)) with
    | none => simp
    | some mt =>
      simp only [Option.some.injEq, exists_eq_left']
      cases hs : mt.schema with
      | none => simp
      | some s =>
        simp only [Option.some.injEq, forall_eq']
        cases hr : i.readFails with
        | true => simp
        | false =>
          simp only [Bool.false_eq_true, if_false, true_and]
          cases hd : decodeBody reg i with
          | err => simp
          | nil => simp
          | panic => simp
          | val v =>
            have e2 := visit_asrep_eq_satRepB o.woOff v s
            have e3 := satRepB_iff o.woOff v s
            simp only [Dec.val.injEq, exists_eq_left']
            rw [e2]
            cases hb : satRepB o.woOff v s
            · simp [← e3, hb]
            · simp [← e3, hb]


theorem headerOKB_iff (canon : String → String) (w : Bool) (hdrs : List (String × Option String)) (h : Hdr) :
    headerOKB canon w hdrs h = true ↔ HeaderOK canon w hdrs h := by
  unfold headerOKB HeaderOK
  cases lookup (canon h.name) hdrs with
  | none => simp
  | some raw =>
    cases hs : h.schema with
    | none => simp
    | some s =>
      simp only [Option.some.injEq, forall_eq']
      cases hv : specValue (decodeHdrVal s h.explode raw h.emptyNameDec) raw with
      | none => simp
      | some v => simp [satRepB_iff]

theorem bodyOKB_iff (reg : List (String × String)) (o : Opts) (i : Input) (r : Resp) :
    bodyOKB reg o i r = true ↔ BodyOK reg o i r := by
  unfold bodyOKB BodyOK
  simp only [Bool.or_eq_true, List.isEmpty_iff]
  apply or_congr Iff.rfl
  cases firstSome r.content (mimeCandidates (ctOf i)) with
  | none => simp
  | some mt =>
    simp only [Option.some.injEq, exists_eq_left']
    cases hs : mt.schema with
    | none => simp
    | some s =>
      cases hr : i.readFails with
      | true => simp
      | false =>
        cases hd : decodeBody reg i with
        | err => simp
        | nil => simp
        | panic => simp
        | val v => simp [satRepB_iff]

theorem validateResponse_selected (canon : String → String) (reg : List (String × String)) (o : Opts) (i : Input) (r : Resp)
    (hm : i.method ≠ "HEAD") (hs : skipStatus i.status = false) (he : i.responses.isEmpty = false)
    (hsel : selected i.responses i.status = some r) (hr : r.resolved = true) :
    validateResponse canon reg o i =
      match firstErr (checkHeader canon o.woOff i.hdrs) (checkedHeaders r) with
      | some e => ⟨some e, some i.body⟩
      | none => checkBody reg o i r := by
  unfold validateResponse
  rw [firstSome_statusKeys, hsel]
  simp only [hm, hs, he, hr, if_false, Bool.false_eq_true, Bool.not_true, Bool.false_and]
  cases firstErr (checkHeader canon o.woOff i.hdrs) (checkedHeaders r) <;> rfl

end KinModel.Response
