/-
Helper lemmas for C09, legacy router: soundness of the trie match relative to the set of stored
(suffix path, key) pairs, the effect of `insertN` on that set, and well-formedness of tokenised keys.
-/
import KinModel.Router
namespace KinModel.Router

/-- a stored suffix path as CreateNode produces it: no empty constant, last token is not the constant "/" -/
def WFPath (p : List Suf) : Prop := (∀ s ∈ p, s ≠ .const []) ∧ p.getLast? ≠ some (.const ['/'])

theorem spell_nil_of_nonempty : ∀ (path : List Suf) (ext : List Str),
    (∀ s ∈ path, s ≠ .const []) → (∀ x ∈ ext, x ≠ []) → spell path ext = some [] → path = [] ∧ ext = []
  | [], [], _, _, _ => ⟨rfl, rfl⟩
  | [], _ :: _, _, _, h => by simp [spell] at h
  | .const p :: r, vs, hp, _, h => by
    simp only [spell, Option.map_eq_some_iff] at h
    obtain ⟨a, _, ha⟩ := h
    have : p = [] := by
      cases p with
      | nil => rfl
      | cons c cs => simp at ha
    exact absurd (this ▸ rfl) (hp (.const p) (by simp))
  | .var :: r, v :: vs, _, hx, h => by
    simp only [spell, Option.map_eq_some_iff] at h
    obtain ⟨a, _, ha⟩ := h
    have : v = [] := by
      cases v with
      | nil => rfl
      | cons c cs => simp at ha
    exact absurd this (hx v (by simp))
  | .all :: r, v :: vs, _, hx, h => by
    simp only [spell, Option.map_eq_some_iff] at h
    obtain ⟨a, _, ha⟩ := h
    have : v = [] := by
      cases v with
      | nil => rfl
      | cons c cs => simp at ha
    exact absurd this (hx v (by simp))
  | .var :: _, [], _, _, h => by simp [spell] at h
  | .all :: _, [], _, _, h => by simp [spell] at h

/-- the values bound along a suffix path: what a `{name}` variable takes is slash-free (a wildcard takes anything) -/
def VarVals : List Suf → List Str → Prop
  | [], _ => True
  | .const _ :: r, ext => VarVals r ext
  | .var :: r, v :: ext => '/' ∉ v ∧ VarVals r ext
  | .var :: _, [] => True
  | .all :: _, _ => True

theorem takeSeg_fst_slashfree : ∀ (s : Str), '/' ∉ (takeSeg s).1
  | [] => by simp [takeSeg]
  | c :: cs => by
    simp only [takeSeg]
    split
    · simp
    · rename_i h
      simp only [List.mem_cons, not_or]
      exact ⟨fun e => h e.symm, takeSeg_fst_slashfree cs⟩

/-- what a successful match satisfies, relative to the node it started from -/
def Sound (node_paths : List (List Suf × Key)) (rem : Str) (vals0 : List Str) (res : Key × List Str) : Prop :=
  ∃ ext path, (path, res.1) ∈ node_paths ∧ res.2 = vals0 ++ ext ∧
    ((∀ x ∈ ext, x ≠ []) → WFPath path → spell path ext = some rem) ∧ VarVals path ext

theorem first_some {a b : Option α} {x : α} (h : first a b = some x) : a = some x ∨ (a = none ∧ b = some x) := by
  cases a <;> simp_all [first]

theorem wfpath_tail {s : Suf} {p : List Suf} (h : WFPath (s :: p)) : WFPath p := by
  refine ⟨fun x hx => h.1 x (by simp [hx]), ?_⟩
  have := h.2
  cases p with
  | nil => simp
  | cons a as => simpa [List.getLast?_cons_cons] using this

theorem match_sound :
    (∀ node rem vals0, ∀ res, matchN node rem vals0 = some res → Sound (pathsN node) rem vals0 res) ∧
    (∀ sufs rem vals0, ∀ res, matchL sufs rem vals0 = some res → Sound (pathsL sufs) rem vals0 res) := by
  refine matchN.mutual_induct
    (motive_1 := fun node rem vals0 => ∀ res, matchN node rem vals0 = some res → Sound (pathsN node) rem vals0 res)
    (motive_2 := fun sufs rem vals0 => ∀ res, matchL sufs rem vals0 = some res → Sound (pathsL sufs) rem vals0 res)
    ?here ?down ?lnil ?lcons
  case here =>
    intro sufs vals v res h
    simp only [matchN] at h
    cases h
    exact ⟨[], [], by simp [pathsN], by simp, fun _ _ => rfl, trivial⟩
  case down =>
    intro value sufs rem vals hno ih res h
    have : matchN (.mk value sufs) rem vals = matchL sufs rem vals := by
      cases rem with
      | nil =>
        cases value with
        | none => simp [matchN]
        | some v => exact (hno v rfl rfl).elim
      | cons c cs => simp [matchN]
    rw [this] at h
    obtain ⟨ext, path, e0, e1, e2, e4⟩ := ih res h
    exact ⟨ext, path, by simp [pathsN, e0], e1, e2, e4⟩
  case lnil => intro rem vals res h; simp [matchL] at h
  case lcons =>
    intro suf child rest rem vals ihStrip ihSame ihVar ihRest res h
    simp only [matchL] at h
    rcases first_some h with h1 | ⟨_, h2⟩
    · cases suf with
      | const p =>
        simp only at h1
        cases hs : stripPrefix p rem with
        | some rem' =>
          simp only [hs] at h1
          obtain ⟨ext, path, e0, e1, e3, e4⟩ := ihStrip rem' res h1
          refine ⟨ext, .const p :: path, ?_, e1, fun hx hw => ?_, by simpa [VarVals] using e4⟩
          · simp only [pathsL, List.mem_append, List.mem_map]
            exact Or.inl ⟨(path, res.1), e0, rfl⟩
          · have := e3 hx (wfpath_tail hw)
            simp [spell, this, stripPrefix_some hs]
        | none =>
          simp only [hs] at h1
          by_cases hq : rem = [] ∧ p = ['/']
          · simp only [hq, and_self, if_true] at h1
            obtain ⟨hr, hp⟩ := hq
            subst hr hp
            obtain ⟨ext, path, e0, e1, e3, e4⟩ := ihSame res h1
            refine ⟨ext, .const ['/'] :: path, ?_, e1, fun hx hw => ?_, by simpa [VarVals] using e4⟩
            · simp only [pathsL, List.mem_append, List.mem_map]
              exact Or.inl ⟨(path, res.1), e0, rfl⟩
            · -- the "/"-against-exhausted-input branch: with non-empty bindings it would make the stored path end in "/"
              exfalso
              by_cases hp : path = []
              · subst hp
                have := hw.2
                simp at this
              · have hs2 := e3 hx (wfpath_tail hw)
                have hnil := spell_nil_of_nonempty path ext (fun s hs' => hw.1 s (by simp [hs'])) hx hs2
                exact hp hnil.1
          · simp [hq] at h1
      | var =>
        simp only at h1
        obtain ⟨ext, path, e0, e1, e3, e4⟩ := ihVar res h1
        refine ⟨(takeSeg rem).1 :: ext, .var :: path, ?_, by simp [e1], fun hx hw => ?_, ⟨takeSeg_fst_slashfree rem, e4⟩⟩
        · simp only [pathsL, List.mem_append, List.mem_map]
          exact Or.inl ⟨(path, res.1), e0, rfl⟩
        · have hx' : ∀ x ∈ ext, x ≠ [] := fun x hm => hx x (by simp [hm])
          have := e3 hx' (wfpath_tail hw)
          simp only [spell, this, Option.map_some]
          rw [takeSeg_append]
      | all =>
        simp only at h1
        obtain ⟨value, sufs⟩ := child
        cases value with
        | none => simp [valueOf] at h1
        | some v =>
          simp [valueOf] at h1
          subst h1
          refine ⟨[rem], [.all], ?_, by simp, fun _ _ => by simp [spell], trivial⟩
          simp only [pathsL, List.mem_append, List.mem_map]
          exact Or.inl ⟨([], v), by simp [pathsN], rfl⟩
    · obtain ⟨ext, path, e0, e1, e3, e4⟩ := ihRest res h2
      exact ⟨ext, path, by simp only [pathsL, List.mem_append]; exact Or.inr e0, e1, e3, e4⟩

/-! ### insertion and the set of stored paths -/

theorem paths_chain (ts : List Suf) (k : Key) : pathsN (chain ts k) = [(ts, k)] := by
  induction ts with
  | nil => simp [chain, pathsN, pathsL]
  | cons t ts ih => simp [chain, pathsN, pathsL, ih, consPath]

theorem mem_paths_insSorted (x : Suf × Node) (l : List (Suf × Node)) (q : List Suf × Key) :
    q ∈ pathsL (insSorted x l) ↔ q ∈ pathsL [x] ∨ q ∈ pathsL l := by
  induction l with
  | nil => simp [insSorted, pathsL]
  | cons y ys ih =>
    obtain ⟨ys', yc⟩ := y
    simp only [insSorted]
    split
    · obtain ⟨xs, xc⟩ := x
      simp [pathsL]
    · obtain ⟨xs, xc⟩ := x
      simp only [pathsL, List.mem_append, ih]
      simp [pathsL]
      constructor
      · rintro (h | h | h)
        · exact Or.inr (Or.inl h)
        · exact Or.inl h
        · exact Or.inr (Or.inr h)
      · rintro (h | h | h)
        · exact Or.inr (Or.inl h)
        · exact Or.inl h
        · exact Or.inr (Or.inr h)

theorem insert_paths :
    (∀ n toks k, ∀ q, q ∈ pathsN (insertN n toks k) → q ∈ pathsN n ∨ q = (toks, k)) ∧
    (∀ l t ts k, ∀ q, q ∈ pathsL (updL l t ts k) → q ∈ pathsL l ∨ q = (t :: ts, k)) := by
  refine insertN.mutual_induct
    (motive_1 := fun n toks k => ∀ q, q ∈ pathsN (insertN n toks k) → q ∈ pathsN n ∨ q = (toks, k))
    (motive_2 := fun l t ts k => ∀ q, q ∈ pathsL (updL l t ts k) → q ∈ pathsL l ∨ q = (t :: ts, k))
    ?c1 ?c2 ?c3 ?c4 ?c5 ?c6
  case c1 =>
    intro v sufs k q h
    simp only [insertN, pathsN, List.mem_append] at h ⊢
    rcases h with h | h
    · simp at h; exact Or.inr h
    · exact Or.inl (Or.inr h)
  case c2 =>
    intro v sufs t ts k hhas ih q h
    simp only [insertN, hhas, if_true, pathsN, List.mem_append] at h ⊢
    rcases h with h | h
    · exact Or.inl (Or.inl h)
    · rcases ih q h with h' | h'
      · exact Or.inl (Or.inr h')
      · exact Or.inr h'
  case c3 =>
    intro v sufs t ts k hhas q h
    have e : insertN (.mk v sufs) (t :: ts) k = .mk v (insSorted (t, chain ts k) sufs) := by
      simp [insertN, hhas]
    rw [e] at h
    simp only [pathsN, List.mem_append] at h ⊢
    rcases h with h | h
    · exact Or.inl (Or.inl h)
    · rw [mem_paths_insSorted] at h
      rcases h with h | h
      · simp [pathsL, paths_chain, consPath] at h
        exact Or.inr h
      · exact Or.inl (Or.inr h)
  case c4 => intro t ts k q h; simp [updL, pathsL] at h
  case c5 =>
    intro child rest t ts k ih q h
    simp only [updL, if_true, pathsL, List.mem_append, List.mem_map] at h ⊢
    rcases h with ⟨p, hp, rfl⟩ | h
    · rcases ih p hp with h' | h'
      · exact Or.inl (Or.inl ⟨p, h', rfl⟩)
      · subst h'; exact Or.inr rfl
    · exact Or.inl (Or.inr h)
  case c6 =>
    intro s child rest t ts k hne ih q h
    simp only [updL, hne, if_false, pathsL, List.mem_append] at h ⊢
    rcases h with h | h
    · exact Or.inl (Or.inl h)
    · rcases ih q h with h' | h'
      · exact Or.inl (Or.inr h')
      · exact Or.inr h'

theorem build_paths (keys : List Key) : ∀ (root : Node) (q : List Suf × Key),
    q ∈ pathsN (buildFrom root keys) → q ∈ pathsN root ∨ (q.2 ∈ keys ∧ q.1 = q.2.sufs) := by
  induction keys with
  | nil => intro root q h; exact Or.inl h
  | cons k ks ih =>
    intro root q h
    simp only [buildFrom, List.foldl_cons] at h
    rcases ih (insertN root k.sufs k) q h with h' | ⟨h1, h2⟩
    · rcases insert_paths.1 root k.sufs k q h' with h'' | h''
      · exact Or.inl h''
      · subst h''; exact Or.inr ⟨by simp, rfl⟩
    · exact Or.inr ⟨by simp [h1], h2⟩

theorem paths_empty : pathsN emptyNode = [] := by simp [emptyNode, pathsN, pathsL]

end KinModel.Router

namespace KinModel.Router

/-! ### tokenised keys are well formed -/

theorem takeBrace_eq {s n r : Str} (h : takeBrace s = some (n, r)) : s = n ++ '}' :: r := by
  induction s generalizing n with
  | nil => simp [takeBrace] at h
  | cons c cs ih =>
    simp only [takeBrace] at h
    split at h
    · rename_i hc; cases h; simp [hc]
    · simp only [Option.map_eq_some_iff] at h
      obtain ⟨⟨a, b⟩, hb, he⟩ := h
      cases he
      simp [ih hb]

theorem tokLoop_nil {f : Nat} {s : Str} (h : tokLoop f s = some []) : s = [] := by
  cases f with
  | zero => simp [tokLoop] at h
  | succ f =>
    cases s with
    | nil => rfl
    | cons c cs =>
      simp only [tokLoop] at h
      split at h
      · simp at h
      · split at h
        · split at h
          · simp at h
          · simp at h
        · simp at h

theorem getLast?_cons_of_ne_nil {α} (a : α) {l : List α} (h : l ≠ []) : (a :: l).getLast? = l.getLast? := by
  cases l with
  | nil => exact absurd rfl h
  | cons b bs => simp [List.getLast?_cons_cons]

theorem getLast?_append_of_ne_nil {α} (a : List α) {l : List α} (h : l ≠ []) : (a ++ l).getLast? = l.getLast? := by
  cases hl : l.getLast? with
  | none => simp [List.getLast?_eq_none_iff] at hl; exact absurd hl h
  | some x => simp [List.getLast?_append, hl]

theorem tokLoop_wf : ∀ (f : Nat) (s : Str) (toks : List Tok), tokLoop f s = some toks →
    (∀ t ∈ toks, t.suf ≠ .const []) ∧
    ((toks.map Tok.suf).getLast? = some (.const ['/']) → s.getLast? = some '/') := by
  intro f
  induction f with
  | zero => intro s toks h; simp [tokLoop] at h
  | succ f ih =>
    intro s toks h
    cases s with
    | nil => simp [tokLoop] at h; subst h; simp
    | cons c cs =>
      simp only [tokLoop] at h
      split at h
      · -- '/'
        rename_i hc
        simp only [Option.map_eq_some_iff] at h
        obtain ⟨toks', ht, rfl⟩ := h
        obtain ⟨i1, i2⟩ := ih cs toks' ht
        refine ⟨?_, ?_⟩
        · intro t ht'
          simp at ht'
          rcases ht' with rfl | ht'
          · simp [Tok.suf]
          · exact i1 t ht'
        · intro hl
          by_cases hn : toks' = []
          · subst hn
            have := tokLoop_nil ht
            subst this
            simp [hc]
          · have hn' : toks'.map Tok.suf ≠ [] := by simpa using hn
            rw [List.map_cons, getLast?_cons_of_ne_nil _ hn'] at hl
            have hcs := i2 hl
            have : cs ≠ [] := by intro e; subst e; simp at hcs
            rw [getLast?_cons_of_ne_nil _ this]; exact hcs
      · split at h
        · -- '{'
          split at h
          · simp at h
          · rename_i name rest hb
            simp only [Option.map_eq_some_iff] at h
            obtain ⟨toks', ht, rfl⟩ := h
            obtain ⟨i1, i2⟩ := ih rest toks' ht
            refine ⟨?_, ?_⟩
            · intro t ht'
              simp at ht'
              rcases ht' with rfl | ht'
              · split <;> simp [Tok.suf]
              · exact i1 t ht'
            · intro hl
              by_cases hn : toks' = []
              · subst hn
                exfalso
                simp at hl
                split at hl <;> simp [Tok.suf] at hl
              · have hn' : toks'.map Tok.suf ≠ [] := by simpa using hn
                rw [List.map_cons, getLast?_cons_of_ne_nil _ hn'] at hl
                have hcs := i2 hl
                have hr : rest ≠ [] := by intro e; subst e; simp at hcs
                rw [takeBrace_eq hb]
                have : (c :: (name ++ '}' :: rest)) = (c :: name ++ ['}']) ++ rest := by simp
                rw [this, getLast?_append_of_ne_nil _ hr]; exact hcs
        · -- constant run
          rename_i hc1 hc2
          simp only [Option.map_eq_some_iff] at h
          obtain ⟨toks', ht, rfl⟩ := h
          obtain ⟨i1, i2⟩ := ih _ toks' ht
          have hrun : (takeRun (c :: cs)).1 = c :: (takeRun cs).1 := by
            simp [takeRun, hc1, hc2]
          refine ⟨?_, ?_⟩
          · intro t ht'
            simp at ht'
            rcases ht' with rfl | ht'
            · simp [Tok.suf, hrun]
            · exact i1 t ht'
          · intro hl
            by_cases hn : toks' = []
            · subst hn
              exfalso
              simp [Tok.suf, hrun] at hl
              exact hc1 hl.1
            · have hn' : toks'.map Tok.suf ≠ [] := by simpa using hn
              rw [List.map_cons, getLast?_cons_of_ne_nil _ hn'] at hl
              have hcs := i2 hl
              have hr : (takeRun (c :: cs)).2 ≠ [] := by intro e; rw [e] at hcs; simp at hcs
              rw [← takeRun_append (c :: cs), getLast?_append_of_ne_nil _ hr]; exact hcs

theorem head?_dropSlashesRev (l : Str) : (dropSlashesRev l).head? ≠ some '/' := by
  induction l with
  | nil => simp [dropSlashesRev]
  | cons c cs ih =>
    simp only [dropSlashesRev]
    split
    · exact ih
    · rename_i h; simpa using h

theorem getLast?_stripSlashes (s : Str) : (stripSlashes s).getLast? ≠ some '/' := by
  simp only [stripSlashes, List.getLast?_reverse]
  exact head?_dropSlashesRev _

theorem tokenize_wf {s : Str} {toks : List Tok} (h : tokenize s = some toks) : WFPath (toks.map Tok.suf) := by
  obtain ⟨i1, i2⟩ := tokLoop_wf _ _ _ h
  refine ⟨?_, fun hl => getLast?_stripSlashes s (i2 hl)⟩
  intro x hx
  simp only [List.mem_map] at hx
  obtain ⟨t, ht, rfl⟩ := hx
  exact i1 t ht

theorem key_sufs_wf (k : Key) : WFPath k.sufs := by
  unfold Key.sufs Key.toks
  cases h : tokenize k.str with
  | none => simp [WFPath]
  | some toks => simpa using tokenize_wf h

end KinModel.Router
