/-
Helper lemmas for C09, legacy model against the spec: the constants and variables CreateNode cuts a key into spell, with
given values, the same string as the spec's template reader with the same values; the key "METHOD template" starts with the
constant "METHOD " followed by the tokens of the template.
-/
import KinModel.RouterSpec
import KinModel.Lemmas.C09Legacy
import KinModel.Lemmas.C09LegacyLiteral
import KinModel.Lemmas.C09LegacyComplete
import KinModel.Lemmas.C09Spec
namespace KinModel.Router

/-! ### the spec's reader, fuel-free equations -/

theorem sparse_fuel : ∀ (f f' : Nat) (s : Str), s.length < f → s.length < f' → sparse f s = sparse f' s := by
  intro f
  induction f with
  | zero => intro f' s h; omega
  | succ f ih =>
    intro f' s h1 h2
    cases f' with
    | zero => omega
    | succ f'' =>
      cases s with
      | nil => simp [sparse]
      | cons c cs =>
        simp only [List.length_cons] at h1 h2
        simp only [sparse]
        split
        · split
          · rename_i name rest hb
            have := takeBrace_length hb
            rw [ih f'' rest (by omega) (by omega)]
          · rw [ih f'' cs (by omega) (by omega)]
        · rw [ih f'' cs (by omega) (by omega)]

theorem sparseS_nil : sparseS [] = [] := by simp [sparseS, sparse]

theorem sparseS_cons_lit {c : Char} {cs : Str} (h : c ≠ '{') : sparseS (c :: cs) = STok.lit c :: sparseS cs := by
  simp [sparseS, sparse, h]

theorem sparseS_var {cs name rest : Str} (h : takeBrace cs = some (name, rest)) :
    sparseS ('{' :: cs) = STok.var name :: sparseS rest := by
  have hl := takeBrace_length h
  simp only [sparseS, List.length_cons, sparse, if_true, h]
  rw [sparse_fuel (cs.length + 1) (rest.length + 1) rest (by omega) (by omega)]

theorem sparseS_run : ∀ (run rest : Str), '{' ∉ run → sparseS (run ++ rest) = run.map STok.lit ++ sparseS rest := by
  intro run
  induction run with
  | nil => intro rest _; simp
  | cons c cs ih =>
    intro rest h
    simp only [List.mem_cons, not_or] at h
    rw [List.cons_append, sparseS_cons_lit (fun e => h.1 e.symm), ih rest h.2]
    simp

theorem ssubst_lits_append : ∀ (run : Str) (toks : List STok) (vs : List Str),
    ssubst (run.map STok.lit ++ toks) vs = (ssubst toks vs).map (run ++ ·) := by
  intro run
  induction run with
  | nil => intro toks vs; simp
  | cons c cs ih =>
    intro toks vs
    simp only [List.map_cons, List.cons_append, ssubst, ih]
    cases ssubst toks vs <;> simp

theorem takeRun_fst_nobrace : ∀ (s : Str), '{' ∉ (takeRun s).1
  | [] => by simp [takeRun]
  | c :: cs => by
    simp only [takeRun]
    split
    · simp
    · rename_i h
      simp only [not_or] at h
      simp only [List.mem_cons, not_or]
      exact ⟨fun e => h.2 e.symm, takeRun_fst_nobrace cs⟩

/-- no `{name*}` wildcard among the tokens -/
def NoWildcard (toks : List Tok) : Prop := ∀ tk ∈ toks, ∀ n, tk ≠ Tok.all n

/-- CreateNode's tokens of a string, spelled with values, give what the spec's reader of the same string gives with the
    same values -/
theorem ssubst_of_spell : ∀ (f : Nat) (t : Str) (toks : List Tok), tokLoop f t = some toks → NoWildcard toks →
    ∀ (vals : List Str) (rem : Str), spell (toks.map Tok.suf) vals = some rem → ssubst (sparseS t) vals = some rem := by
  intro f
  induction f with
  | zero => intro t toks h; simp [tokLoop] at h
  | succ f ih =>
    intro t toks h hnw vals rem hsp
    cases t with
    | nil =>
      simp [tokLoop] at h
      subst h
      cases vals with
      | nil => simp [spell] at hsp; subst hsp; simp [sparseS_nil, ssubst]
      | cons v vs => simp [spell] at hsp
    | cons c cs =>
      simp only [tokLoop] at h
      split at h
      · rename_i hc
        subst hc
        simp only [Option.map_eq_some_iff] at h
        obtain ⟨toks', ht, rfl⟩ := h
        simp only [List.map_cons, Tok.suf, spell, Option.map_eq_some_iff] at hsp
        obtain ⟨rem', hr', rfl⟩ := hsp
        have := ih cs toks' ht (fun tk htk => hnw tk (by simp [htk])) vals rem' hr'
        rw [sparseS_cons_lit (by decide)]
        simp [ssubst, this]
      · split at h
        · rename_i hc1 hc
          subst hc
          split at h
          · simp at h
          · rename_i name rest hb
            simp only [Option.map_eq_some_iff] at h
            obtain ⟨toks', ht, rfl⟩ := h
            have hnotw : isWildcardName (trimSpaces name) = false := by
              cases hw : isWildcardName (trimSpaces name) with
              | false => rfl
              | true =>
                exfalso
                exact hnw (if isWildcardName (trimSpaces name) = true then Tok.all (trimSpaces name) else Tok.var (trimSpaces name))
                  List.mem_cons_self (trimSpaces name) (by simp [hw])
            simp only [hnotw, Bool.false_eq_true, if_false] at hsp hnw
            cases vals with
            | nil => simp [Tok.suf, spell] at hsp
            | cons v vs =>
              simp only [List.map_cons, Tok.suf, spell, Option.map_eq_some_iff] at hsp
              obtain ⟨rem', hr', rfl⟩ := hsp
              have hnw' : NoWildcard toks' := fun tk htk => hnw tk (by simp [htk])
              have := ih rest toks' ht hnw' vs rem' hr'
              rw [sparseS_var hb]
              simp [ssubst, this]
        · rename_i hc1 hc2
          simp only [Option.map_eq_some_iff] at h
          obtain ⟨toks', ht, rfl⟩ := h
          simp only [List.map_cons, Tok.suf, spell, Option.map_eq_some_iff] at hsp
          obtain ⟨rem', hr', rfl⟩ := hsp
          have := ih _ toks' ht (fun tk htk => hnw tk (by simp [htk])) vals rem' hr'
          have hsplit : sparseS (c :: cs) = sparseS ((takeRun (c :: cs)).1 ++ (takeRun (c :: cs)).2) := by
            rw [takeRun_append]
          rw [hsplit, sparseS_run _ _ (takeRun_fst_nobrace _), ssubst_lits_append, this]
          rfl

/-! ### the key "METHOD template" -/

theorem stripSlashes_id {s : Str} (h : s.getLast? ≠ some '/') : stripSlashes s = s := by
  unfold stripSlashes
  have : dropSlashesRev s.reverse = s.reverse := by
    cases hr : s.reverse with
    | nil => rfl
    | cons c cs =>
      have : s.getLast? = some c := by
        rw [← List.reverse_reverse s, hr]; simp
      simp only [dropSlashesRev]
      split
      · rename_i hc; rw [this, hc] at h; exact absurd rfl h
      · rfl
  rw [this, List.reverse_reverse]

theorem takeRun_prefix : ∀ (a rest : Str), '/' ∉ a → '{' ∉ a → (rest = [] ∨ rest.head? = some '/') →
    takeRun (a ++ rest) = (a, rest) := by
  intro a
  induction a with
  | nil =>
    intro rest _ _ h
    rcases h with rfl | h
    · rfl
    · cases rest with
      | nil => rfl
      | cons c cs => simp at h; subst h; simp [takeRun]
  | cons c cs ih =>
    intro rest h1 h2 h3
    simp only [List.mem_cons, not_or] at h1 h2
    have e1 : ¬ (c = '/' ∨ c = '{') := by
      rintro (e | e)
      · exact h1.1 e.symm
      · exact h2.1 e.symm
    simp [takeRun, e1, ih rest h1.2 h2.2 h3]

theorem tokLoop_fuel : ∀ (f f' : Nat) (s : Str), s.length < f → s.length < f' → tokLoop f s = tokLoop f' s := by
  intro f
  induction f with
  | zero => intro f' s h; omega
  | succ f ih =>
    intro f' s h1 h2
    cases f' with
    | zero => omega
    | succ f'' =>
      cases s with
      | nil => simp [tokLoop]
      | cons c cs =>
        simp only [List.length_cons] at h1 h2
        simp only [tokLoop]
        split
        · rw [ih f'' cs (by omega) (by omega)]
        · split
          · split
            · rfl
            · rename_i name rest hb
              have := takeBrace_length hb
              rw [ih f'' rest (by omega) (by omega)]
          · rename_i hc1 hc2
            have hl : (takeRun (c :: cs)).2.length ≤ cs.length := by
              have : (takeRun (c :: cs)).2 = (takeRun cs).2 := by simp [takeRun, hc1, hc2]
              rw [this]; exact takeRun_length cs
            rw [ih f'' _ (by omega) (by omega)]

/-- the tokens of the key "METHOD template" (template without trailing slash, starting with '/'): the constant "METHOD "
    and then the tokens of the template -/
theorem key_toks (m t : Str) (hm1 : '/' ∉ m) (hm2 : '{' ∉ m) (ht : t.head? = some '/') (hl : t.getLast? ≠ some '/')
    (toks : List Tok) (h : tokenize (m ++ ' ' :: t) = some toks) :
    ∃ toks', toks = Tok.const (m ++ [' ']) :: toks' ∧ tokLoop (t.length + 1) t = some toks' := by
  have hne : t ≠ [] := by intro e; rw [e] at ht; simp at ht
  have hlast : (m ++ ' ' :: t).getLast? ≠ some '/' := by
    have : (m ++ ' ' :: t).getLast? = t.getLast? := by
      have e : m ++ ' ' :: t = (m ++ [' ']) ++ t := by simp
      rw [e, getLast?_append_of_ne_nil _ hne]
    rw [this]; exact hl
  unfold tokenize at h
  rw [stripSlashes_id hlast] at h
  have e : m ++ ' ' :: t = (m ++ [' ']) ++ t := by simp
  have hrun : takeRun ((m ++ [' ']) ++ t) = (m ++ [' '], t) := by
    apply takeRun_prefix
    · simp only [List.mem_append, List.mem_singleton, not_or]; exact ⟨hm1, by decide⟩
    · simp only [List.mem_append, List.mem_singleton, not_or]; exact ⟨hm2, by decide⟩
    · exact Or.inr ht
  -- the first character of the key is neither '/' nor '{'
  cases hk : m ++ [' '] with
  | nil => simp at hk
  | cons c cs =>
    have hc1 : c ≠ '/' := by
      intro e'
      have : c ∈ m ++ [' '] := by rw [hk]; simp
      simp only [List.mem_append, List.mem_singleton] at this
      rcases this with h' | h'
      · exact hm1 (e' ▸ h')
      · rw [e'] at h'; exact absurd h' (by decide)
    have hc2 : c ≠ '{' := by
      intro e'
      have : c ∈ m ++ [' '] := by rw [hk]; simp
      simp only [List.mem_append, List.mem_singleton] at this
      rcases this with h' | h'
      · exact hm2 (e' ▸ h')
      · rw [e'] at h'; exact absurd h' (by decide)
    rw [e] at h
    rw [hk] at h hrun
    simp only [List.cons_append, List.length_cons, tokLoop, hc1, hc2, if_false] at h
    rw [show (takeRun (c :: (cs ++ t))) = (c :: cs, t) from hrun] at h
    simp only [Option.map_eq_some_iff] at h
    obtain ⟨toks', ht', rfl⟩ := h
    refine ⟨toks', rfl, ?_⟩
    rw [← ht']
    apply tokLoop_fuel <;> simp <;> omega

theorem split_at_space : ∀ (a b x y : Str), ' ' ∉ a → ' ' ∉ b → a ++ ' ' :: x = b ++ ' ' :: y → a = b ∧ x = y
  | [], [], _, _, _, _, h => by simpa using h
  | [], c :: cs, _, _, _, hb, h => by
    simp only [List.nil_append, List.cons_append, List.cons.injEq] at h
    simp only [List.mem_cons, not_or] at hb
    exact absurd h.1 hb.1
  | c :: cs, [], _, _, ha, _, h => by
    simp only [List.nil_append, List.cons_append, List.cons.injEq] at h
    simp only [List.mem_cons, not_or] at ha
    exact absurd h.1.symm ha.1
  | c :: cs, d :: ds, x, y, ha, hb, h => by
    simp only [List.cons_append, List.cons.injEq] at h
    simp only [List.mem_cons, not_or] at ha hb
    obtain ⟨i1, i2⟩ := split_at_space cs ds x y ha.2 hb.2 h.2
    exact ⟨by rw [h.1, i1], i2⟩

/-- values of a variable-only suffix path are slash-free -/
theorem varVals_slashfree : ∀ (path : List Suf) (ext : List Str), VarVals path ext → (∀ s ∈ path, s ≠ Suf.all) →
    ∀ (rem : Str), spell path ext = some rem → ∀ v ∈ ext, '/' ∉ v
  | [], [], _, _, _, _ => by simp
  | [], _ :: _, _, _, _, h => by simp [spell] at h
  | .const p :: r, ext, hv, hn, rem, h => by
    simp only [spell, Option.map_eq_some_iff] at h
    obtain ⟨rem', hr', _⟩ := h
    exact varVals_slashfree r ext (by simpa [VarVals] using hv) (fun s hs => hn s (by simp [hs])) rem' hr'
  | .var :: r, [], _, _, _, h => by simp [spell] at h
  | .var :: r, v :: ext, hv, hn, rem, h => by
    simp only [spell, Option.map_eq_some_iff] at h
    obtain ⟨rem', hr', _⟩ := h
    simp only [VarVals] at hv
    intro w hw
    simp only [List.mem_cons] at hw
    rcases hw with rfl | hw
    · exact hv.1
    · exact varVals_slashfree r ext hv.2 (fun s hs => hn s (by simp [hs])) rem' hr' w hw
  | .all :: r, _, _, hn, _, _ => absurd rfl (hn Suf.all (by simp))

/-! ### the other direction: a filling in the spec's sense is read by the key's suffix path -/

theorem varThenLiteral_lits : ∀ (run : Str) (toks : List STok), varThenLiteral (run.map STok.lit ++ toks) = varThenLiteral toks
  | [], _ => rfl
  | c :: cs, toks => by simp [varThenLiteral, varThenLiteral_lits cs toks]

/-- if no variable of the template is followed by more text in its segment, CreateNode's suffix path reads every filling of
    the template with slash-free values -/
theorem reads_of_ssubst : ∀ (f : Nat) (t : Str) (toks : List Tok), tokLoop f t = some toks → NoWildcard toks →
    varThenLiteral (sparseS t) = false →
    ∀ (vals : List Str) (p : Str), (∀ v ∈ vals, '/' ∉ v) → ssubst (sparseS t) vals = some p →
      Reads (toks.map Tok.suf) vals p := by
  intro f
  induction f with
  | zero => intro t toks h; simp [tokLoop] at h
  | succ f ih =>
    intro t toks h hnw hvt vals p hsl hss
    cases t with
    | nil =>
      simp [tokLoop] at h
      subst h
      rw [sparseS_nil] at hss
      cases vals with
      | nil => simp [ssubst] at hss; subst hss; exact .nil
      | cons v vs => simp [ssubst] at hss
    | cons c cs =>
      simp only [tokLoop] at h
      split at h
      · rename_i hc
        subst hc
        simp only [Option.map_eq_some_iff] at h
        obtain ⟨toks', ht, rfl⟩ := h
        rw [sparseS_cons_lit (by decide)] at hss hvt
        simp only [ssubst, Option.map_eq_some_iff] at hss
        obtain ⟨p', hp', rfl⟩ := hss
        simp only [varThenLiteral] at hvt
        have := ih cs toks' ht (fun tk htk => hnw tk (by simp [htk])) hvt vals p' hsl hp'
        exact Reads.const ['/'] this
      · split at h
        · rename_i hc1 hc
          subst hc
          split at h
          · simp at h
          · rename_i name rest hb
            simp only [Option.map_eq_some_iff] at h
            obtain ⟨toks', ht, rfl⟩ := h
            have hnotw : isWildcardName (trimSpaces name) = false := by
              cases hw : isWildcardName (trimSpaces name) with
              | false => rfl
              | true =>
                exfalso
                exact hnw (if isWildcardName (trimSpaces name) = true then Tok.all (trimSpaces name) else Tok.var (trimSpaces name))
                  List.mem_cons_self (trimSpaces name) (by simp [hw])
            simp only [hnotw, Bool.false_eq_true, if_false] at hnw ⊢
            rw [sparseS_var hb] at hss hvt
            simp only [varThenLiteral, Bool.or_eq_false_iff] at hvt
            cases vals with
            | nil => simp [ssubst] at hss
            | cons v vs =>
              simp only [ssubst, Option.map_eq_some_iff] at hss
              obtain ⟨p', hp', rfl⟩ := hss
              have hr := ih rest toks' ht (fun tk htk => hnw tk (by simp [htk])) hvt.2 vs p'
                (fun w hw => hsl w (by simp [hw])) hp'
              refine Reads.var (hsl v (by simp)) ?_ hr
              -- what follows the variable is the end or a '/'
              cases hsr : sparseS rest with
              | nil => rw [hsr] at hp'; cases vs <;> simp [ssubst] at hp'; exact Or.inl hp'
              | cons tk0 tks =>
                rw [hsr] at hp' hvt
                cases tk0 with
                | lit c0 =>
                  simp only [ssubst, Option.map_eq_some_iff] at hp'
                  obtain ⟨p'', _, rfl⟩ := hp'
                  right
                  have : c0 = '/' := by simpa using hvt.1
                  simp [this]
                | var n0 => simp at hvt
        · rename_i hc1 hc2
          simp only [Option.map_eq_some_iff] at h
          obtain ⟨toks', ht, rfl⟩ := h
          have hsplit : sparseS (c :: cs) = sparseS ((takeRun (c :: cs)).1 ++ (takeRun (c :: cs)).2) := by
            rw [takeRun_append]
          rw [hsplit, sparseS_run _ _ (takeRun_fst_nobrace _)] at hss hvt
          rw [ssubst_lits_append] at hss
          rw [varThenLiteral_lits] at hvt
          simp only [Option.map_eq_some_iff] at hss
          obtain ⟨p', hp', rfl⟩ := hss
          have := ih _ toks' ht (fun tk htk => hnw tk (by simp [htk])) hvt vals p' hsl hp'
          exact Reads.const _ this

/-! ### the trie's answer as a filling of the returned template -/

/-- what the trie returns for "METHOD rem", read as the spec reads it: the returned key has the request's method and its
    template, filled with the returned (non-empty, slash-free) values, is `rem` — for keys and remainders without trailing
    slash, without wildcard -/
theorem legacy_match_fill (ks : List Key) (m rem : Str) (k : Key) (vals : List Str)
    (hmatch : legacyMatchOf ks m rem = some (k, vals)) (htok : (tokenize k.str).isSome = true)
    (hmeth : '/' ∉ k.method ∧ '{' ∉ k.method ∧ ' ' ∉ k.method ∧ ' ' ∉ m)
    (ht : k.template.head? = some '/') (htl : k.template.getLast? ≠ some '/') (hrl : rem.getLast? ≠ some '/')
    (hvne : ∀ v ∈ vals, v ≠ []) (hnw : NoWildcard k.toks) :
    k.method = m ∧ Fills (sparseS k.template) vals rem [] := by
  obtain ⟨ext, path, e0, e1, e3, e4⟩ := match_sound.1 (legacyRootOf ks) _ [] (k, vals) hmatch
  simp only [List.nil_append] at e1
  subst e1
  have hpath : path = k.sufs := by
    rcases build_paths ks emptyNode (path, k) e0 with h0 | ⟨_, h2⟩
    · simp [paths_empty] at h0
    · exact h2
  subst hpath
  have hspell := e3 hvne (key_sufs_wf k)
  have hlast : (m ++ ' ' :: rem).getLast? ≠ some '/' := by
    cases hp : rem with
    | nil => simp
    | cons c cs =>
      have e : m ++ ' ' :: (c :: cs) = (m ++ [' ']) ++ (c :: cs) := by simp
      rw [e, getLast?_append_of_ne_nil _ (by simp), ← hp]
      exact hrl
  rw [stripSlashes_id hlast] at hspell
  cases hto : tokenize k.str with
  | none => rw [hto] at htok; simp at htok
  | some toks =>
    have hstr : k.str = k.method ++ ' ' :: k.template := rfl
    have hto' := hto
    rw [hstr] at hto'
    obtain ⟨toks', rfl, htl'⟩ := key_toks k.method k.template hmeth.1 hmeth.2.1 ht htl toks hto'
    have hktoks : k.toks = Tok.const (k.method ++ [' ']) :: toks' := by
      show (tokenize k.str).getD [] = _
      rw [hto]; rfl
    have hsufs : k.sufs = Suf.const (k.method ++ [' ']) :: toks'.map Tok.suf := by
      show k.toks.map Tok.suf = _
      rw [hktoks]; rfl
    rw [hsufs] at hspell e4
    simp only [spell, Option.map_eq_some_iff] at hspell
    obtain ⟨x, hx, hxe⟩ := hspell
    have hxe' : k.method ++ ' ' :: x = m ++ ' ' :: rem := by simpa using hxe
    obtain ⟨hmm, rfl⟩ := split_at_space k.method m x rem hmeth.2.2.1 hmeth.2.2.2 hxe'
    have hnw' : NoWildcard toks' := by
      intro tk htk n
      exact hnw tk (by rw [hktoks]; simp [htk]) n
    have hfill := ssubst_of_spell _ k.template toks' htl' hnw' vals x hx
    have hslash : ∀ v ∈ vals, '/' ∉ v := by
      apply varVals_slashfree (toks'.map Tok.suf) vals (by simpa [VarVals] using e4) ?_ x hx
      intro s hs' heq
      simp only [List.mem_map] at hs'
      obtain ⟨tk, htk, rfl⟩ := hs'
      cases tk with
      | const p => simp [Tok.suf] at heq
      | var n => simp [Tok.suf] at heq
      | all n => exact hnw' _ htk n rfl
    exact ⟨hmm, fun v hv => ⟨hvne v hv, hslash v hv⟩, x, hfill, by simp⟩

end KinModel.Router
