/-
Helper lemmas for C02: the in-progress set only grows along a successful resolution (`resolve_le`), and an
explicit fuel bound under which `resolve` cannot run out of fuel (`resolve_noOOF`).

The argument is the loader's own termination argument: every nested call either descends to a child of a
value (the `rank` of the object drops), or happens inside a visit that has put a NEW reference text into
`visitedRefs` (a text in progress is never visited again: a callback is registered instead). Documents need
no separate count: a document is loaded only inside such a visit.
-/
import KinModel.Loader
namespace KinModel.Loader

/-- children of a value object have a smaller rank; ranks are bounded by `R` -/
def Ranked (w : World) (rank : Obj → Nat) (R : Nat) : Prop :=
  (∀ o n, w.node o = some n → rank o ≤ R) ∧
  (∀ o n k, w.node o = some n → n.ref = none → k ∈ n.kids → rank k < rank o)

/-- every reference text that occurs is listed in `T` -/
def TextsIn (w : World) (T : List Text) : Prop :=
  ∀ o n t, w.node o = some n → n.ref = some t → t ∈ T

/-- number of texts of the universe that are not in progress -/
def missing (T : List Text) (inprog : List Text) : Nat := (T.filter (fun x => !inprog.contains x)).length

theorem missing_mono (T a b : List Text) (h : a ⊆ b) : missing T b ≤ missing T a := by
  unfold missing
  induction T with
  | nil => simp
  | cons x T ih =>
    simp only [List.filter_cons]
    by_cases hb : b.contains x = true
    · simp only [hb, Bool.not_true, Bool.false_eq_true, if_false]
      split
      · simp only [List.length_cons]; omega
      · exact ih
    · have ha : a.contains x = false := by
        cases hc : a.contains x with
        | false => rfl
        | true =>
          exfalso; apply hb
          simp only [List.contains_iff_mem] at hc ⊢
          exact h hc
      simp only [hb, ha, Bool.not_false, if_true, List.length_cons]
      omega

theorem missing_lt (T a : List Text) (t : Text) (ht : t ∈ T) (hn : a.contains t = false) :
    missing T (a ++ [t]) < missing T a := by
  unfold missing
  induction T with
  | nil => cases ht
  | cons x T ih =>
    simp only [List.filter_cons]
    by_cases hx : x = t
    · subst hx
      have h1 : (a ++ [x]).contains x = true := by simp
      simp only [h1, hn, Bool.not_true, Bool.false_eq_true, if_false, Bool.not_false, if_true, List.length_cons]
      have := missing_mono T a (a ++ [x]) (by intro y hy; simp [hy])
      unfold missing at this
      omega
    · have ht' : t ∈ T := by
        cases ht with
        | head => exact absurd rfl hx
        | tail _ h => exact h
      have ih := ih ht'
      have hc : (a ++ [t]).contains x = a.contains x := by
        cases hax : a.contains x with
        | true => simp only [List.contains_iff_mem] at hax ⊢; simp [hax]
        | false =>
          cases hc : (a ++ [t]).contains x with
          | false => rfl
          | true =>
            exfalso
            simp only [List.contains_iff_mem, List.mem_append, List.mem_singleton] at hc
            rcases hc with hc | hc
            · have : a.contains x = true := by simpa [List.contains_iff_mem] using hc
              rw [hax] at this; cases this
            · exact hx hc
      rw [hc]
      split
      · simp only [List.length_cons]; omega
      · exact ih

/-! ### the in-progress set only grows -/

def Le (s s' : St) : Prop := s.inprog ⊆ s'.inprog

theorem Le.refl (s : St) : Le s s := fun _ h => h
theorem Le.trans {a b c : St} (h1 : Le a b) (h2 : Le b c) : Le a c := fun _ h => h2 (h1 h)

theorem foldRes_le (f : Nat → St → Res) (hf : ∀ k s s', f k s = .ok s' → Le s s') :
    ∀ ks s s', foldRes f ks s = .ok s' → Le s s'
  | [], s, s', h => by simp only [foldRes, Res.ok.injEq] at h; subst h; exact Le.refl _
  | k :: ks, s, s', h => by
    simp only [foldRes] at h
    cases hk : f k s with
    | ok s1 => simp only [hk] at h; exact Le.trans (hf k s s1 hk) (foldRes_le f hf ks s1 s' h)
    | err _ => simp [hk] at h
    | outOfFuel => simp [hk] at h

theorem markDone_ok' (o : Obj) (r : Res) (s' : St) (h : markDone o r = .ok s') :
    ∃ s4, r = .ok s4 ∧ s' = { s4 with done := s4.done ++ [o] } := by
  cases r with
  | ok s4 => simp only [markDone, Res.ok.injEq] at h; exact ⟨s4, rfl, h.symm⟩
  | err _ => simp [markDone] at h
  | outOfFuel => simp [markDone] at h

theorem loadDoc_le (w : World) (rs : Loc → Nat → St → Res) (hrs : ∀ l k s s', rs l k s = .ok s' → Le s s')
    (d : Option Loc) (s s' : St) (h : loadDoc w rs d s = .ok s') : Le s s' := by
  unfold loadDoc at h
  cases d with
  | none => simp only [Res.ok.injEq] at h; subst h; exact Le.refl _
  | some l =>
    simp only at h
    split at h
    · simp only [Res.ok.injEq] at h; subst h; exact Le.refl _
    · exact fun x hx => foldRes_le (rs l) (hrs l) _ _ _ h hx

/-- `unvisit` removes exactly the text it was called with -/
theorem unvisit_keeps (w : World) (k : Kind) (t : Text) (tg : Option (Loc × Obj)) (v : Option Obj) (s s' : St)
    (h : unvisit w k t tg v s = .ok s') : ∀ x, x ∈ s.inprog → x ≠ t → x ∈ s'.inprog := by
  intro x hx hne
  unfold unvisit at h
  cases v with
  | none => simp only [Res.ok.injEq] at h; subst h; exact (List.mem_erase_of_ne hne).2 hx
  | some v => simp only [Res.ok.injEq] at h; subst h; exact (List.mem_erase_of_ne hne).2 hx

theorem finish_keeps (w : World) (rs : Nat → St → Res) (hrs : ∀ k s s', rs k s = .ok s' → Le s s')
    (k : Kind) (t : Text) (tg : Option (Loc × Obj)) (o : Obj) (rw : Bool) (v : Option Obj) (s s' : St)
    (h : finish w rs k t tg o rw v s = .ok s') : ∀ x, x ∈ s.inprog → x ≠ t → x ∈ s'.inprog := by
  unfold finish at h
  cases v with
  | none => exact unvisit_keeps w k t tg none s s' h
  | some v =>
    simp only at h
    cases hf : foldRes rs (if rw = true then ((w.node v).map (·.kids)).getD [] else [])
        { s with value := s.value ++ [(o, v)] } with
    | err _ => simp [hf] at h
    | outOfFuel => simp [hf] at h
    | ok s2 =>
      simp only [hf] at h
      intro x hx hne
      exact unvisit_keeps w k t tg (some v) s2 s' h x (foldRes_le rs hrs _ _ _ hf hx) hne

theorem resolve_le (w : World) : ∀ fuel cx o s s', resolve w fuel cx o s = .ok s' → Le s s' := by
  intro fuel
  induction fuel with
  | zero => intro cx o s s' h; simp [resolve] at h
  | succ fuel ih =>
    intro cx o s s' h
    simp only [resolve] at h
    cases hn : w.node o with
    | none => simp [hn] at h
    | some n =>
      simp only [hn] at h
      cases hr : n.ref with
      | none =>
        simp only [hr] at h
        obtain ⟨s4, h4, rfl⟩ := markDone_ok' _ _ _ h
        exact fun x hx => foldRes_le _ (fun k => ih cx k) _ _ _ h4 hx
      | some t =>
        simp only [hr] at h
        by_cases h1 : (getC w s o).isSome = true
        · rw [if_pos h1] at h
          obtain ⟨s4, h4, rfl⟩ := markDone_ok' _ _ _ h
          cases h4; exact Le.refl _
        · rw [if_neg h1] at h
          by_cases h2 : s.inprog.contains t = true
          · rw [if_pos h2] at h
            obtain ⟨s4, h4, rfl⟩ := markDone_ok' _ _ _ h
            cases h4; exact Le.refl _
          · rw [if_neg h2] at h
            have htn : t ∉ s.inprog := by
              intro hc; apply h2; simpa [List.contains_iff_mem] using hc
            cases hr1 : loadDoc w (fun l k s => resolve w fuel l k s) (w.docOf cx t)
                { s with inprog := s.inprog ++ [t], foreign := s.foreign || (cx != n.home) } with
            | err _ => simp [hr1] at h
            | outOfFuel => simp [hr1] at h
            | ok s2 =>
              simp only [hr1] at h
              have hL : Le { s with inprog := s.inprog ++ [t], foreign := s.foreign || (cx != n.home) } s2 :=
                loadDoc_le w _ (fun l k => ih l k) _ _ _ hr1
              have hs2 : ∀ x, x ∈ s.inprog → x ∈ s2.inprog := fun x hx => hL (by simp [hx])
              by_cases hE : w.emptyTarget cx t n.kind = true
              · rw [if_pos hE] at h
                simp only [markDone, Res.ok.injEq] at h; subst h
                exact hs2
              rw [if_neg hE] at h
              cases ht : w.target cx t n.kind with
              | none => simp only [ht] at h; cases h
              | some p =>
                obtain ⟨cx', tgt⟩ := p
                simp only [ht] at h
                cases htn' : w.node tgt with
                | none => simp [htn'] at h
                | some tn =>
                  simp only [htn'] at h
                  by_cases hk : tn.kind = n.kind
                  · simp only [hk, ne_eq, not_true_eq_false, if_false] at h
                    cases hres : resolve w fuel cx' tgt s2 with
                    | err _ => simp [hres] at h
                    | outOfFuel => simp [hres] at h
                    | ok s3 =>
                      simp only [hres] at h
                      obtain ⟨s4, hfin, rfl⟩ := markDone_ok' _ _ _ h
                      intro x hx
                      have hx3 : x ∈ s3.inprog := ih cx' tgt s2 s3 hres (hs2 x hx)
                      have hne : x ≠ t := fun hc => htn (hc ▸ hx)
                      exact finish_keeps w _ (fun k => ih _ k) n.kind t _ o _ _ s3 s4 hfin x hx3 hne
                  · simp [hk] at h

/-! ### the fuel bound -/

theorem foldRes_noOOF (f : Nat → St → Res) (P : St → Prop) (hP : ∀ k s s', P s → f k s = .ok s' → P s')
    (ks : List Nat) (hne : ∀ k, k ∈ ks → ∀ s, P s → f k s ≠ .outOfFuel) :
    ∀ s, P s → foldRes f ks s ≠ .outOfFuel := by
  induction ks with
  | nil => intro s _ h; simp [foldRes] at h
  | cons k ks ih =>
    intro s hs h
    simp only [foldRes] at h
    cases hk : f k s with
    | ok s1 =>
      simp only [hk] at h
      exact ih (fun k' hk' => hne k' (List.mem_cons_of_mem _ hk')) s1 (hP k s s1 hs hk) h
    | err _ => simp [hk] at h
    | outOfFuel => exact hne k (List.mem_cons_self) s hs hk

theorem markDone_noOOF (o : Obj) (r : Res) (h : r ≠ .outOfFuel) : markDone o r ≠ .outOfFuel := by
  cases r with
  | ok s => simp [markDone]
  | err _ => simp [markDone]
  | outOfFuel => exact absurd rfl h

theorem unvisit_noOOF (w : World) (k : Kind) (t : Text) (tg : Option (Loc × Obj)) (v : Option Obj) (s : St) : unvisit w k t tg v s ≠ .outOfFuel := by
  unfold unvisit; cases v <;> simp

/-- the fuel a call needs: one level per rank step, `R + 1` levels per text that can still be visited -/
def need (T : List Text) (rank : Obj → Nat) (R : Nat) (s : St) (o : Obj) : Nat :=
  missing T s.inprog * (R + 1) + min (rank o) R + 1

theorem resolve_noOOF (w : World) (rank : Obj → Nat) (R : Nat) (T : List Text)
    (hR : Ranked w rank R) (hT : TextsIn w T) :
    ∀ fuel cx o s, need T rank R s o ≤ fuel → resolve w fuel cx o s ≠ .outOfFuel := by
  intro fuel
  induction fuel with
  | zero => intro cx o s h; unfold need at h; omega
  | succ fuel ih =>
    intro cx o s hfuel
    unfold need at hfuel
    -- every nested call on a state whose in-progress set contains `big` and any object
    have nested : ∀ (cx' : Loc) (o' : Obj) (s' : St), missing T s'.inprog + 1 ≤ missing T s.inprog →
        resolve w fuel cx' o' s' ≠ .outOfFuel := by
      intro cx' o' s' hm
      apply ih
      unfold need
      have h1 : min (rank o') R ≤ R := Nat.min_le_right _ _
      have h2 : (missing T s'.inprog + 1) * (R + 1) ≤ missing T s.inprog * (R + 1) := Nat.mul_le_mul_right _ hm
      have h3 : (missing T s'.inprog + 1) * (R + 1) = missing T s'.inprog * (R + 1) + (R + 1) := by
        rw [Nat.add_mul, Nat.one_mul]
      omega
    simp only [resolve]
    cases hn : w.node o with
    | none => simp
    | some n =>
      simp only
      cases hr : n.ref with
      | none =>
        simp only
        apply markDone_noOOF
        apply foldRes_noOOF _ (fun s' => Le s s') (fun k s1 s2 h1 h2 => Le.trans h1 (resolve_le w fuel cx k s1 s2 h2))
        · intro k hk s1 hs1
          apply ih
          unfold need
          have hrk := hR.2 o n k hn hr hk
          have hro := hR.1 o n hn
          have hm := missing_mono T s.inprog s1.inprog hs1
          have h1 : min (rank k) R ≤ rank k := Nat.min_le_left _ _
          have h2 : min (rank o) R = rank o := Nat.min_eq_left hro
          have h3 : missing T s1.inprog * (R + 1) ≤ missing T s.inprog * (R + 1) := Nat.mul_le_mul_right _ hm
          omega
        · exact Le.refl _
      | some t =>
        simp only
        by_cases h1 : (getC w s o).isSome = true
        · rw [if_pos h1]; simp [markDone]
        · rw [if_neg h1]
          by_cases h2 : s.inprog.contains t = true
          · rw [if_pos h2]; simp [markDone]
          · rw [if_neg h2]
            have h2' : s.inprog.contains t = false := by simpa using h2
            have hlt := missing_lt T s.inprog t (hT o n t hn hr) h2'
            -- states reached from `s1` have at least `s.inprog ++ [t]` in progress
            have big : ∀ s' : St, (s.inprog ++ [t]) ⊆ s'.inprog → missing T s'.inprog + 1 ≤ missing T s.inprog := by
              intro s' hs'
              have := missing_mono T _ _ hs'
              omega
            cases hr1 : loadDoc w (fun l k s => resolve w fuel l k s) (w.docOf cx t)
                { s with inprog := s.inprog ++ [t], foreign := s.foreign || (cx != n.home) } with
            | err _ => simp
            | outOfFuel =>
              exfalso
              unfold loadDoc at hr1
              cases hd : w.docOf cx t with
              | none => simp [hd] at hr1
              | some l =>
                simp only [hd] at hr1
                split at hr1
                · cases hr1
                · revert hr1
                  apply foldRes_noOOF _ (fun s' => (s.inprog ++ [t]) ⊆ s'.inprog)
                    (fun k s1 s2 h1 h2 => fun x hx => resolve_le w fuel l k s1 s2 h2 (h1 hx))
                  · intro k _ s1 hs1
                    exact nested l k s1 (big s1 hs1)
                  · exact fun x hx => hx
            | ok s2 =>
              simp only
              have hL : (s.inprog ++ [t]) ⊆ s2.inprog :=
                loadDoc_le w _ (fun l k => resolve_le w fuel l k) _ _ _ hr1
              by_cases hE : w.emptyTarget cx t n.kind = true
              · rw [if_pos hE]; simp [markDone]
              rw [if_neg hE]
              cases ht : w.target cx t n.kind with
              | none => simp
              | some p =>
                obtain ⟨cx', tgt⟩ := p
                simp only
                cases htn' : w.node tgt with
                | none => simp
                | some tn =>
                  simp only
                  by_cases hk : tn.kind = n.kind
                  · simp only [hk, ne_eq, not_true_eq_false, if_false]
                    cases hres : resolve w fuel cx' tgt s2 with
                    | err _ => simp
                    | outOfFuel => exact absurd hres (nested cx' tgt s2 (big s2 hL))
                    | ok s3 =>
                      simp only
                      apply markDone_noOOF
                      have hL3 : (s.inprog ++ [t]) ⊆ s3.inprog := fun x hx => resolve_le w fuel cx' tgt s2 s3 hres (hL hx)
                      unfold finish
                      cases hv : valueOf w tgt s3 with
                      | none => exact unvisit_noOOF _ _ _ _ _ _
                      | some v =>
                        simp only
                        cases hf : foldRes (fun k s => resolve w fuel (if n.kind = Kind.pathItem then cx' else cx) k s)
                            (if (if n.kind = Kind.pathItem then tn.ref.isSome else w.rewalk cx t n.kind) = true then
                              ((w.node v).map (·.kids)).getD [] else [])
                            { s3 with value := s3.value ++ [(o, v)] } with
                        | ok s4 => simp only; exact unvisit_noOOF _ _ _ _ _ _
                        | err _ => simp
                        | outOfFuel =>
                          exfalso
                          revert hf
                          apply foldRes_noOOF _ (fun s' => (s.inprog ++ [t]) ⊆ s'.inprog)
                            (fun k s1 s2 h1 h2 => fun x hx => resolve_le w fuel _ k s1 s2 h2 (h1 hx))
                          · intro k _ s1 hs1
                            exact nested _ k s1 (big s1 hs1)
                          · exact hL3
                  · simp [hk]

/-! ### more fuel never changes a result -/

/-- `g` agrees with `f` wherever `f` does not run out of fuel -/
def Ext (f g : St → Res) : Prop := ∀ s r, f s = r → r ≠ .outOfFuel → g s = r

theorem foldRes_ext (f g : Nat → St → Res) (h : ∀ k, Ext (f k) (g k)) : ∀ ks, Ext (foldRes f ks) (foldRes g ks)
  | [] => by intro s r hr _; simpa [foldRes] using hr
  | k :: ks => by
    intro s r hr hne
    simp only [foldRes] at hr ⊢
    cases hk : f k s with
    | ok s1 =>
      rw [h k s _ hk (by simp)]
      simp only [hk] at hr
      exact foldRes_ext f g h ks s1 r hr hne
    | err e =>
      rw [h k s _ hk (by simp)]
      simpa [hk] using hr
    | outOfFuel =>
      simp only [hk] at hr
      exact absurd hr.symm hne

theorem markDone_ext (o : Obj) (f g : St → Res) (h : Ext f g) : Ext (fun s => markDone o (f s)) (fun s => markDone o (g s)) := by
  intro s r hr hne
  cases hf : f s with
  | ok s1 => simp only [h s _ hf (by simp)]; simpa [hf] using hr
  | err e => simp only [h s _ hf (by simp)]; simpa [hf] using hr
  | outOfFuel => simp only [hf, markDone] at hr; exact absurd hr.symm hne

theorem loadDoc_ext (w : World) (rs rs' : Loc → Nat → St → Res) (h : ∀ l k, Ext (rs l k) (rs' l k)) (d : Option Loc) :
    Ext (loadDoc w rs d) (loadDoc w rs' d) := by
  intro s r hr hne
  unfold loadDoc at hr ⊢
  cases d with
  | none => exact hr
  | some l =>
    simp only at hr ⊢
    by_cases hc : s.docs.contains l = true
    · rw [if_pos hc] at hr ⊢; exact hr
    · rw [if_neg hc] at hr ⊢
      exact foldRes_ext (rs l) (rs' l) (h l) _ _ r hr hne

theorem finish_ext (w : World) (rs rs' : Nat → St → Res) (h : ∀ k, Ext (rs k) (rs' k)) (k : Kind) (t : Text)
    (tg : Option (Loc × Obj)) (o : Obj) (rw : Bool) (v : Option Obj) :
    Ext (finish w rs k t tg o rw v) (finish w rs' k t tg o rw v) := by
  intro s r hr hne
  unfold finish at hr ⊢
  cases v with
  | none => exact hr
  | some v =>
    simp only at hr ⊢
    cases hf : foldRes rs (if rw = true then ((w.node v).map (·.kids)).getD [] else [])
        { s with value := s.value ++ [(o, v)] } with
    | ok s2 => rw [foldRes_ext rs rs' h _ _ _ hf (by simp)]; simpa [hf] using hr
    | err e => rw [foldRes_ext rs rs' h _ _ _ hf (by simp)]; simpa [hf] using hr
    | outOfFuel => simp only [hf] at hr; exact absurd hr.symm hne

/-- one level of `resolve`, the recursive calls abstracted -/
def step (w : World) (rec : Loc → Obj → St → Res) (cx : Loc) (o : Obj) (s : St) : Res :=
  match w.node o with
  | none => .err s.flags
  | some n =>
    match n.ref with
    | none => markDone o (foldRes (fun k s => rec cx k s) n.kids s)
    | some t =>
      if (getC w s o).isSome then markDone o (.ok s)
      else if s.inprog.contains t then markDone o (.ok { s with pending := s.pending ++ [(t, o)], nback := s.nback + 1 })
      else
        match loadDoc w (fun l k s => rec l k s) (w.docOf cx t)
            { s with inprog := s.inprog ++ [t], foreign := s.foreign || (cx != n.home) } with
        | .ok s2 =>
          if w.emptyTarget cx t n.kind then markDone o (.ok { s2 with nempty := s2.nempty + 1 }) else
          match w.target cx t n.kind with
          | none => .err s2.flags
          | some (cx', tgt) =>
            match w.node tgt with
            | none => .err s2.flags
            | some tn =>
              if tn.kind ≠ n.kind then .err s2.flags
              else
                match rec cx' tgt s2 with
                | .ok s3 =>
                  markDone o (finish w (fun k s => rec (if n.kind = Kind.pathItem then cx' else cx) k s) n.kind t (some (cx', tgt)) o
                    (if n.kind = Kind.pathItem then tn.ref.isSome else w.rewalk cx t n.kind) (valueOf w tgt s3) s3)
                | e => e
        | e => e

theorem resolve_succ (w : World) (fuel : Nat) (cx : Loc) (o : Obj) (s : St) :
    resolve w (fuel + 1) cx o s = step w (resolve w fuel) cx o s := by
  simp only [resolve, step]
  rfl

theorem step_ext (w : World) (rec rec' : Loc → Obj → St → Res) (h : ∀ cx o, Ext (rec cx o) (rec' cx o)) :
    ∀ cx o, Ext (step w rec cx o) (step w rec' cx o) := by
  intro cx o s r hr hne
  unfold step at hr ⊢
  cases hn : w.node o with
  | none => simp only [hn] at hr ⊢; exact hr
  | some n =>
    simp only [hn] at hr ⊢
    cases hrf : n.ref with
    | none =>
      simp only [hrf] at hr ⊢
      exact markDone_ext o _ _ (foldRes_ext _ _ (fun k => h cx k) _) s r hr hne
    | some t =>
      simp only [hrf] at hr ⊢
      by_cases h1 : (getC w s o).isSome = true
      · rw [if_pos h1] at hr ⊢; exact hr
      · rw [if_neg h1] at hr ⊢
        by_cases h2 : s.inprog.contains t = true
        · rw [if_pos h2] at hr ⊢; exact hr
        · rw [if_neg h2] at hr ⊢
          cases hl : loadDoc w (fun l k s => rec l k s) (w.docOf cx t)
              { s with inprog := s.inprog ++ [t], foreign := s.foreign || (cx != n.home) } with
          | outOfFuel => simp only [hl] at hr; exact absurd hr.symm hne
          | err e =>
            rw [loadDoc_ext w _ _ (fun l k => h l k) _ _ _ hl (by simp)]
            simp only [hl] at hr; exact hr
          | ok s2 =>
            rw [loadDoc_ext w _ _ (fun l k => h l k) _ _ _ hl (by simp)]
            simp only [hl] at hr ⊢
            by_cases hE : w.emptyTarget cx t n.kind = true
            · rw [if_pos hE] at hr ⊢; exact hr
            · rw [if_neg hE] at hr ⊢
              cases ht : w.target cx t n.kind with
              | none => simp only [ht] at hr ⊢; exact hr
              | some p =>
                obtain ⟨cx', tgt⟩ := p
                simp only [ht] at hr ⊢
                cases htn : w.node tgt with
                | none => simp only [htn] at hr ⊢; exact hr
                | some tn =>
                  simp only [htn] at hr ⊢
                  by_cases hk : tn.kind ≠ n.kind
                  · rw [if_pos hk] at hr ⊢; exact hr
                  · rw [if_neg hk] at hr ⊢
                    cases hres : rec cx' tgt s2 with
                    | outOfFuel => simp only [hres] at hr; exact absurd hr.symm hne
                    | err e => rw [h cx' tgt s2 _ hres (by simp)]; simp only [hres] at hr; exact hr
                    | ok s3 =>
                      rw [h cx' tgt s2 _ hres (by simp)]
                      simp only [hres] at hr ⊢
                      exact markDone_ext o _ _ (finish_ext w _ _ (fun k => h _ k) _ _ _ _ _ _) s3 r hr hne

theorem resolve_fuel_succ (w : World) : ∀ fuel cx o, Ext (resolve w fuel cx o) (resolve w (fuel + 1) cx o) := by
  intro fuel
  induction fuel with
  | zero => intro cx o s r hr hne; simp only [resolve] at hr; exact absurd hr.symm hne
  | succ fuel ih =>
    intro cx o s r hr hne
    rw [resolve_succ] at hr ⊢
    exact step_ext w _ _ ih cx o s r hr hne

theorem resolve_fuel_mono (w : World) (fuel : Nat) (cx : Loc) (o : Obj) (s : St) (r : Res)
    (hr : resolve w fuel cx o s = r) (hne : r ≠ .outOfFuel) : ∀ g, fuel ≤ g → resolve w g cx o s = r := by
  intro g hg
  induction g with
  | zero => have : fuel = 0 := by omega
            subst this; exact hr
  | succ g ih =>
    by_cases h : fuel = g + 1
    · subst h; exact hr
    · exact resolve_fuel_succ w g cx o s r (ih (by omega)) hne

end KinModel.Loader
