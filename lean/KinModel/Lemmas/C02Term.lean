/-
Helper lemmas for C02: the in-progress set only grows along a successful resolution (`resolve_le`), and an
explicit fuel bound under which `resolve` cannot run out of fuel (`resolve_noOOF`).

The argument is the loader's own termination argument: every nested call either descends to a child of a
value (the `rank` of the object drops), or happens inside a visit that has put a NEW key (kind + reference text) into
`visitedRefs` (a key in progress is never visited again: a callback is registered instead). Documents need
no separate count: a document is loaded only inside such a visit.
-/
import KinModel.Loader
namespace KinModel.Loader

/-- children of a value object have a smaller rank; ranks are bounded by `R` -/
def Ranked (w : World) (rank : Obj → Nat) (R : Nat) : Prop :=
  (∀ o n, w.node o = some n → rank o ≤ R) ∧
  (∀ o n k, w.node o = some n → n.ref = none → k ∈ n.kids → rank k < rank o)

/-- every key (kind and reference text) that occurs is listed in `T` -/
def TextsIn (w : World) (T : List Nat) : Prop :=
  ∀ o n t, w.node o = some n → n.ref = some t → key n.kind t ∈ T

/-- number of texts of the universe that are not in progress -/
def missing (T : List Nat) (inprog : List Nat) : Nat := (T.filter (fun x => !inprog.contains x)).length

theorem missing_mono (T a b : List Nat) (h : a ⊆ b) : missing T b ≤ missing T a := by
  unfold missing
  induction T with
  | nil => simp
  | cons x T ih =>
    simp only [List.filter_cons]
    by_cases hb : b.contains x = true
    · simp only [hb, Bool.not_true, Bool.false_eq_true, if_false]
      split
      · simp only [List.length_cons]; omega
      · exact ih
    · have ha : a.contains x = false := by
        cases hc : a.contains x with
        | false => rfl
        | true =>
          exfalso; apply hb
          simp only [List.contains_iff_mem] at hc ⊢
          exact h hc
      simp only [hb, ha, Bool.not_false, if_true, List.length_cons]
      omega

theorem missing_lt (T a : List Nat) (t : Nat) (ht : t ∈ T) (hn : a.contains t = false) :
    missing T (a ++ [t]) < missing T a := by
  unfold missing
  induction T with
  | nil => cases ht
  | cons x T ih =>
    simp only [List.filter_cons]
    by_cases hx : x = t
    · subst hx
      have h1 : (a ++ [x]).contains x = true := by simp
      simp only [h1, hn, Bool.not_true, Bool.false_eq_true, if_false, Bool.not_false, if_true, List.length_cons]
      have := missing_mono T a (a ++ [x]) (by intro y hy; simp [hy])
      unfold missing at this
      omega
    · have ht' : t ∈ T := by
        cases ht with
        | head => exact absurd rfl hx
        | tail _ h => exact h
      have ih := ih ht'
      have hc : (a ++ [t]).contains x = a.contains x := by
        cases hax : a.contains x with
        | true => simp only [List.contains_iff_mem] at hax ⊢; simp [hax]
        | false =>
          cases hc : (a ++ [t]).contains x with
          | false => rfl
          | true =>
            exfalso
            simp only [List.contains_iff_mem, List.mem_append, List.mem_singleton] at hc
            rcases hc with hc | hc
            · have : a.contains x = true := by simpa [List.contains_iff_mem] using hc
              rw [hax] at this; cases this
            · exact hx hc
      rw [hc]
      split
      · simp only [List.length_cons]; omega
      · exact ih

/-! ### the in-progress set only grows — along calls that return nil and along calls that return an error -/

def Le (s s' : St) : Prop := s.inprog ⊆ s'.inprog

theorem Le.refl (s : St) : Le s s := fun _ h => h
theorem Le.trans {a b c : St} (h1 : Le a b) (h2 : Le b c) : Le a c := fun _ h => h2 (h1 h)

theorem foldRes_le (f : Nat → St → Res) (hf : ∀ k s s', (f k s).st? = some s' → Le s s') :
    ∀ ks s s', (foldRes f ks s).st? = some s' → Le s s'
  | [], s, s', h => by simp only [foldRes, Res.st?, Option.some.injEq] at h; subst h; exact Le.refl _
  | k :: ks, s, s', h => by
    simp only [foldRes] at h
    cases hk : f k s with
    | ok s1 => simp only [hk] at h; exact Le.trans (hf k s s1 (by simp [hk, Res.st?])) (foldRes_le f hf ks s1 s' h)
    | err e s1 => simp only [hk, Res.st?, Option.some.injEq] at h; subst h; exact hf k s s1 (by simp [hk, Res.st?])
    | outOfFuel => simp [hk, Res.st?] at h

theorem markDone_st' (o : Obj) (r : Res) (s' : St) (h : (markDone o r).st? = some s') :
    ∃ s4, r.st? = some s4 ∧ s'.inprog = s4.inprog := by
  cases r with
  | ok s4 => simp only [markDone, Res.st?, Option.some.injEq] at h; subst h; exact ⟨s4, rfl, rfl⟩
  | err e s4 => simp only [markDone, Res.st?, Option.some.injEq] at h; subst h; exact ⟨s4, rfl, rfl⟩
  | outOfFuel => simp [markDone, Res.st?] at h

theorem wrapErr_st (r : Res) : (wrapErr r).st? = r.st? := by cases r <;> rfl

theorem loadDoc_le (w : World) (rs : Loc → Nat → St → Res) (hrs : ∀ l k s s', (rs l k s).st? = some s' → Le s s')
    (d : Option Loc) (s s' : St) (h : (loadDoc w rs d s).st? = some s') : Le s s' := by
  unfold loadDoc at h
  cases d with
  | none => simp only [Res.st?, Option.some.injEq] at h; subst h; exact Le.refl _
  | some l =>
    simp only at h
    split at h
    · simp only [Res.st?, Option.some.injEq] at h; subst h; exact Le.refl _
    · rw [wrapErr_st] at h
      exact fun x hx => foldRes_le (rs l) (hrs l) _ _ _ h hx

/-- `unvisit` removes exactly the key it was called with -/
theorem unvisit_keeps (w : World) (kt : Nat) (t : Text) (tg : Option (Loc × Obj)) (v : Option Obj) (s s' : St)
    (h : unvisit w kt t tg v s = .ok s') : ∀ x, x ∈ s.inprog → x ≠ kt → x ∈ s'.inprog := by
  intro x hx hne
  unfold unvisit at h
  cases v with
  | none => simp only [Res.ok.injEq] at h; subst h; exact (List.mem_erase_of_ne hne).2 hx
  | some v => simp only [Res.ok.injEq] at h; subst h; exact (List.mem_erase_of_ne hne).2 hx

theorem unvisit_isOk' (w : World) (kt : Nat) (t : Text) (tg : Option (Loc × Obj)) (v : Option Obj) (s : St) :
    ∃ s', unvisit w kt t tg v s = .ok s' := by
  unfold unvisit; cases v <;> exact ⟨_, rfl⟩

theorem unvisitThen_st' (w : World) (kt : Nat) (t : Text) (tg : Option (Loc × Obj)) (v : Obj) (r : Res) (s' : St)
    (h : (unvisitThen w kt t tg v r).st? = some s') :
    ∃ s2, r.st? = some s2 ∧ unvisit w kt t tg (some v) { s2 with walking := s2.walking.tail } = .ok s' := by
  cases r with
  | ok s2 =>
    obtain ⟨s3, h3⟩ := unvisit_isOk' w kt t tg (some v) { s2 with walking := s2.walking.tail }
    simp only [unvisitThen, h3, Res.st?, Option.some.injEq] at h; subst h
    exact ⟨s2, rfl, h3⟩
  | err e s2 =>
    obtain ⟨s3, h3⟩ := unvisit_isOk' w kt t tg (some v) { s2 with walking := s2.walking.tail }
    simp only [unvisitThen, h3, Res.st?, Option.some.injEq] at h; subst h
    exact ⟨s2, rfl, h3⟩
  | outOfFuel => simp [unvisitThen, Res.st?] at h

theorem finish_keeps (w : World) (rs : Nat → St → Res) (hrs : ∀ k s s', (rs k s).st? = some s' → Le s s')
    (kt : Nat) (t : Text) (tg : Option (Loc × Obj)) (o : Obj) (v : Option Obj) (s s' : St)
    (h : (finish w rs kt t tg o v s).st? = some s') : ∀ x, x ∈ s.inprog → x ≠ kt → x ∈ s'.inprog := by
  unfold finish at h
  cases v with
  | none =>
    obtain ⟨s3, h3⟩ := unvisit_isOk' w kt t tg none s
    simp only [h3, Res.st?, Option.some.injEq] at h; subst h
    exact unvisit_keeps w kt t tg none s s3 h3
  | some v =>
    simp only at h
    obtain ⟨s2, hf, hu⟩ := unvisitThen_st' w _ _ _ _ _ _ h
    intro x hx hne
    exact unvisit_keeps w kt t tg (some v) _ s' hu x (hrs v _ s2 hf hx) hne

/-- the three ways through the optional recursive call -/
theorem preResolve_cases (pre : Bool) (r : Unit → Res) (s2 : St) (cont : St → Res) (s' : St)
    (h : (preResolve pre r s2 cont).st? = some s') :
    (pre = false ∧ (cont s2).st? = some s') ∨
    (pre = true ∧ ∃ s3, r () = .ok s3 ∧ (cont s3).st? = some s') ∨
    (pre = true ∧ ∃ e, r () = .err e s') := by
  unfold preResolve at h
  cases pre with
  | false => exact Or.inl ⟨rfl, by simpa using h⟩
  | true =>
    simp only [if_true] at h
    cases hr : r () with
    | ok s3 => simp only [hr] at h; exact Or.inr (Or.inl ⟨rfl, s3, rfl, h⟩)
    | outOfFuel => simp [hr, Res.st?] at h
    | err e s3 =>
      simp only [hr, Res.st?, Option.some.injEq] at h; subst h
      exact Or.inr (Or.inr ⟨rfl, e, rfl⟩)

theorem resolve_le (w : World) : ∀ fuel cx o s s', (resolve w fuel cx o s).st? = some s' → Le s s' := by
  intro fuel
  induction fuel with
  | zero => intro cx o s s' h; simp [resolve, Res.st?] at h
  | succ fuel ih =>
    intro cx o s s' h
    simp only [resolve] at h
    cases hn : w.node o with
    | none => simp only [hn, Res.st?, Option.some.injEq] at h; subst h; exact Le.refl _
    | some n =>
      simp only [hn] at h
      by_cases hemp : n.empty = true
      · rw [if_pos hemp] at h; simp only [Res.st?, Option.some.injEq] at h; subst h; exact Le.refl _
      rw [if_neg hemp] at h
      cases hr : n.ref with
      | none =>
        simp only [hr] at h
        obtain ⟨s4, h4, hi⟩ := markDone_st' _ _ _ h
        exact fun x hx => hi ▸ foldRes_le _ (fun k => ih cx k) _ _ _ h4 hx
      | some t =>
        simp only [hr] at h
        by_cases h1 : (getC w s o).isSome = true
        · rw [if_pos h1] at h
          obtain ⟨s4, h4, hi⟩ := markDone_st' _ _ _ h
          simp only [Res.st?, Option.some.injEq] at h4; subst h4
          exact fun x hx => hi ▸ hx
        · rw [if_neg h1] at h
          by_cases h2 : s.inprog.contains (key n.kind t) = true
          · rw [if_pos h2] at h
            obtain ⟨s4, h4, hi⟩ := markDone_st' _ _ _ h
            simp only [Res.st?, Option.some.injEq] at h4; subst h4
            exact fun x hx => hi ▸ hx
          · rw [if_neg h2] at h
            have htn : key n.kind t ∉ s.inprog := by
              intro hc; apply h2; simpa [List.contains_iff_mem] using hc
            cases hr1 : loadDoc w (fun l k s => resolve w fuel l k s) (w.docOf cx t)
                { s with inprog := s.inprog ++ [key n.kind t], foreign := s.foreign || (cx != n.home) } with
            | outOfFuel => simp [hr1, Res.st?] at h
            | err e s2 =>
              simp only [hr1, Res.st?, Option.some.injEq] at h; subst h
              have hL : Le { s with inprog := s.inprog ++ [key n.kind t], foreign := s.foreign || (cx != n.home) } s2 :=
                loadDoc_le w (fun l k s => resolve w fuel l k s) (fun l k => ih l k) (w.docOf cx t) _ s2 (by rw [hr1]; rfl)
              exact fun x hx => hL (by simp [hx])
            | ok s2 =>
              simp only [hr1] at h
              have hL : Le { s with inprog := s.inprog ++ [key n.kind t], foreign := s.foreign || (cx != n.home) } s2 :=
                loadDoc_le w (fun l k s => resolve w fuel l k s) (fun l k => ih l k) (w.docOf cx t) _ s2 (by rw [hr1]; rfl)
              have hs2 : ∀ x, x ∈ s.inprog → x ∈ s2.inprog := fun x hx => hL (by simp [hx])
              have exit2 : s' = s2 → Le s s' := fun he => he ▸ hs2
              by_cases hE : w.emptyTarget cx t n.kind = true
              · rw [if_pos hE] at h
                simp only [markDone, Res.st?, Option.some.injEq] at h; subst h
                exact hs2
              rw [if_neg hE] at h
              cases ht : w.target cx t n.kind with
              | none => simp only [ht, Res.st?, Option.some.injEq] at h; exact exit2 h.symm
              | some p =>
                obtain ⟨cx', tgt⟩ := p
                simp only [ht] at h
                cases htn' : w.node tgt with
                | none => simp only [htn', Res.st?, Option.some.injEq] at h; exact exit2 h.symm
                | some tn =>
                  simp only [htn'] at h
                  by_cases hk : tn.kind = n.kind
                  · simp only [hk, ne_eq, not_true_eq_false, if_false] at h
                    by_cases hte' : tn.empty = true
                    · rw [if_pos hte'] at h
                      simp only [Res.st?, Option.some.injEq] at h; exact exit2 h.symm
                    rw [if_neg hte'] at h
                    have cont : ∀ s3, (∀ x, x ∈ s.inprog → x ∈ s3.inprog) →
                        (markDone o (finish w (fun k s => resolve w fuel
                            (if (w.fragment cx t n.kind && !decide (n.kind = Kind.pathItem)) = true then cx else cx') k s)
                          (key n.kind t) t (some (cx', tgt)) o (valueOf w tgt s3) s3)).st? = some s' → Le s s' := by
                      intro s3 h3 hfin
                      obtain ⟨s4, hfin4, hi⟩ := markDone_st' _ _ _ hfin
                      intro x hx
                      have hne : x ≠ key n.kind t := fun hc => htn (hc ▸ hx)
                      exact hi ▸ finish_keeps w _ (fun k => ih _ k) _ t _ o _ s3 s4 hfin4 x (h3 x hx) hne
                    rcases preResolve_cases _ _ _ _ _ h with ⟨_, hc⟩ | ⟨_, s3, hres, hc⟩ | ⟨_, e, hres⟩
                    · exact cont s2 hs2 hc
                    · exact cont s3 (fun x hx => ih cx' tgt s2 s3 (by rw [hres]; rfl) (hs2 x hx)) hc
                    · exact fun x hx => ih cx' tgt s2 s' (by rw [hres]; rfl) (hs2 x hx)
                  · simp only [ne_eq, hk, not_false_eq_true, if_true, Res.st?, Option.some.injEq] at h
                    exact exit2 h.symm

/-! ### the fuel bound -/

theorem foldRes_noOOF (f : Nat → St → Res) (P : St → Prop) (hP : ∀ k s s', P s → f k s = .ok s' → P s')
    (ks : List Nat) (hne : ∀ k, k ∈ ks → ∀ s, P s → f k s ≠ .outOfFuel) :
    ∀ s, P s → foldRes f ks s ≠ .outOfFuel := by
  induction ks with
  | nil => intro s _ h; simp [foldRes] at h
  | cons k ks ih =>
    intro s hs h
    simp only [foldRes] at h
    cases hk : f k s with
    | ok s1 =>
      simp only [hk] at h
      exact ih (fun k' hk' => hne k' (List.mem_cons_of_mem _ hk')) s1 (hP k s s1 hs hk) h
    | err _ _ => simp [hk] at h
    | outOfFuel => exact hne k (List.mem_cons_self) s hs hk

theorem markDone_noOOF (o : Obj) (r : Res) (h : r ≠ .outOfFuel) : markDone o r ≠ .outOfFuel := by
  cases r with
  | ok s => simp [markDone]
  | err _ _ => simp [markDone]
  | outOfFuel => exact absurd rfl h

theorem unvisit_noOOF (w : World) (kt : Nat) (t : Text) (tg : Option (Loc × Obj)) (v : Option Obj) (s : St) :
    unvisit w kt t tg v s ≠ .outOfFuel := by
  unfold unvisit; cases v <;> simp

theorem unvisitThen_noOOF (w : World) (kt : Nat) (t : Text) (tg : Option (Loc × Obj)) (v : Obj) (r : Res)
    (h : r ≠ .outOfFuel) : unvisitThen w kt t tg v r ≠ .outOfFuel := by
  cases r with
  | ok s => show unvisit w kt t tg (some v) { s with walking := s.walking.tail } ≠ .outOfFuel; exact unvisit_noOOF _ _ _ _ _ _
  | err e s =>
    obtain ⟨s3, h3⟩ := unvisit_isOk' w kt t tg (some v) { s with walking := s.walking.tail }
    simp [unvisitThen, h3]
  | outOfFuel => exact absurd rfl h

theorem wrapErr_noOOF (r : Res) (h : r ≠ .outOfFuel) : wrapErr r ≠ .outOfFuel := by
  cases r with
  | ok s => simp [wrapErr]
  | err _ _ => simp [wrapErr]
  | outOfFuel => exact absurd rfl h

theorem preResolve_noOOF (pre : Bool) (r : Unit → Res) (s2 : St) (cont : St → Res)
    (hr : r () ≠ .outOfFuel) (hc2 : cont s2 ≠ .outOfFuel) (hc : ∀ s3, r () = .ok s3 → cont s3 ≠ .outOfFuel) :
    preResolve pre r s2 cont ≠ .outOfFuel := by
  unfold preResolve
  cases pre with
  | false => simpa using hc2
  | true =>
    simp only [if_true]
    cases hrr : r () with
    | ok s3 => exact hc s3 hrr
    | outOfFuel => exact absurd hrr hr
    | err e s3 => simp

/-- the fuel a call needs: one level per rank step, `R + 1` levels per key that can still be visited -/
def need (T : List Nat) (rank : Obj → Nat) (R : Nat) (s : St) (o : Obj) : Nat :=
  missing T s.inprog * (R + 1) + min (rank o) R + 1

theorem resolve_noOOF (w : World) (rank : Obj → Nat) (R : Nat) (T : List Nat)
    (hR : Ranked w rank R) (hT : TextsIn w T) :
    ∀ fuel cx o s, need T rank R s o ≤ fuel → resolve w fuel cx o s ≠ .outOfFuel := by
  intro fuel
  induction fuel with
  | zero => intro cx o s h; unfold need at h; omega
  | succ fuel ih =>
    intro cx o s hfuel
    unfold need at hfuel
    have nested : ∀ (cx' : Loc) (o' : Obj) (s' : St), missing T s'.inprog + 1 ≤ missing T s.inprog →
        resolve w fuel cx' o' s' ≠ .outOfFuel := by
      intro cx' o' s' hm
      apply ih
      unfold need
      have h1 : min (rank o') R ≤ R := Nat.min_le_right _ _
      have h2 : (missing T s'.inprog + 1) * (R + 1) ≤ missing T s.inprog * (R + 1) := Nat.mul_le_mul_right _ hm
      have h3 : (missing T s'.inprog + 1) * (R + 1) = missing T s'.inprog * (R + 1) + (R + 1) := by
        rw [Nat.add_mul, Nat.one_mul]
      omega
    simp only [resolve]
    cases hn : w.node o with
    | none => simp
    | some n =>
      simp only
      by_cases hemp : n.empty = true
      · rw [if_pos hemp]; simp
      rw [if_neg hemp]
      cases hr : n.ref with
      | none =>
        simp only
        apply markDone_noOOF
        apply foldRes_noOOF _ (fun s' => Le s s')
          (fun k s1 s2 h1 h2 => Le.trans h1 (resolve_le w fuel cx k s1 s2 (by rw [h2]; rfl)))
        · intro k hk s1 hs1
          apply ih
          unfold need
          have hrk := hR.2 o n k hn hr hk
          have hro := hR.1 o n hn
          have hm := missing_mono T s.inprog s1.inprog hs1
          have h1 : min (rank k) R ≤ rank k := Nat.min_le_left _ _
          have h2 : min (rank o) R = rank o := Nat.min_eq_left hro
          have h3 : missing T s1.inprog * (R + 1) ≤ missing T s.inprog * (R + 1) := Nat.mul_le_mul_right _ hm
          omega
        · exact Le.refl _
      | some t =>
        simp only
        by_cases h1 : (getC w s o).isSome = true
        · rw [if_pos h1]; simp [markDone]
        · rw [if_neg h1]
          by_cases h2 : s.inprog.contains (key n.kind t) = true
          · rw [if_pos h2]; simp [markDone]
          · rw [if_neg h2]
            have h2' : s.inprog.contains (key n.kind t) = false := by simpa using h2
            have hlt := missing_lt T s.inprog (key n.kind t) (hT o n t hn hr) h2'
            have big : ∀ s' : St, (s.inprog ++ [key n.kind t]) ⊆ s'.inprog → missing T s'.inprog + 1 ≤ missing T s.inprog := by
              intro s' hs'
              have := missing_mono T _ _ hs'
              omega
            -- a fold of nested calls from a state that has the new key in progress
            have foldOK : ∀ (cxf : Loc) (ks : List Nat) (s0 : St), (s.inprog ++ [key n.kind t]) ⊆ s0.inprog →
                foldRes (fun k s => resolve w fuel cxf k s) ks s0 ≠ .outOfFuel := by
              intro cxf ks s0 h0
              apply foldRes_noOOF _ (fun s' => (s.inprog ++ [key n.kind t]) ⊆ s'.inprog)
                (fun k s1 s2 h1 h2 => fun x hx => resolve_le w fuel cxf k s1 s2 (by rw [h2]; rfl) (h1 hx))
              · intro k _ s1 hs1
                exact nested cxf k s1 (big s1 hs1)
              · exact h0
            cases hr1 : loadDoc w (fun l k s => resolve w fuel l k s) (w.docOf cx t)
                { s with inprog := s.inprog ++ [key n.kind t], foreign := s.foreign || (cx != n.home) } with
            | err _ _ => simp
            | outOfFuel =>
              exfalso
              unfold loadDoc at hr1
              cases hd : w.docOf cx t with
              | none => simp [hd] at hr1
              | some l =>
                simp only [hd] at hr1
                split at hr1
                · cases hr1
                · exact wrapErr_noOOF _ (foldOK l _ _ (fun x hx => hx)) hr1
            | ok s2 =>
              simp only
              have hL : (s.inprog ++ [key n.kind t]) ⊆ s2.inprog :=
                loadDoc_le w (fun l k s => resolve w fuel l k s) (fun l k => resolve_le w fuel l k) (w.docOf cx t)
                  { s with inprog := s.inprog ++ [key n.kind t], foreign := s.foreign || (cx != n.home) } s2 (by rw [hr1]; rfl)
              by_cases hE : w.emptyTarget cx t n.kind = true
              · rw [if_pos hE]; simp [markDone]
              rw [if_neg hE]
              cases ht : w.target cx t n.kind with
              | none => simp
              | some p =>
                obtain ⟨cx', tgt⟩ := p
                simp only
                cases htn' : w.node tgt with
                | none => simp
                | some tn =>
                  simp only
                  by_cases hk : tn.kind = n.kind
                  · simp only [hk, ne_eq, not_true_eq_false, if_false]
                    by_cases hte' : tn.empty = true
                    · rw [if_pos hte']; simp
                    rw [if_neg hte']
                    have cont : ∀ s3, (s.inprog ++ [key n.kind t]) ⊆ s3.inprog →
                        markDone o (finish w (fun k s => resolve w fuel
                            (if (w.fragment cx t n.kind && !decide (n.kind = Kind.pathItem)) = true then cx else cx') k s)
                          (key n.kind t) t (some (cx', tgt)) o (valueOf w tgt s3) s3) ≠ .outOfFuel := by
                      intro s3 hL3
                      apply markDone_noOOF
                      unfold finish
                      cases hv : valueOf w tgt s3 with
                      | none => exact unvisit_noOOF _ _ _ _ _ _
                      | some v =>
                        simp only
                        exact unvisitThen_noOOF _ _ _ _ _ _ (nested _ v _ (big _ hL3))
                    apply preResolve_noOOF
                    · exact nested cx' tgt s2 (big s2 hL)
                    · exact cont s2 hL
                    · intro s3 hres
                      exact cont s3 (fun x hx => resolve_le w fuel cx' tgt s2 s3 (by rw [hres]; rfl) (hL hx))
                  · simp [hk]

/-! ### more fuel never changes a result -/

/-- `g` agrees with `f` wherever `f` does not run out of fuel -/
def Ext (f g : St → Res) : Prop := ∀ s r, f s = r → r ≠ .outOfFuel → g s = r

theorem foldRes_ext (f g : Nat → St → Res) (h : ∀ k, Ext (f k) (g k)) : ∀ ks, Ext (foldRes f ks) (foldRes g ks)
  | [] => by intro s r hr _; simpa [foldRes] using hr
  | k :: ks => by
    intro s r hr hne
    simp only [foldRes] at hr ⊢
    cases hk : f k s with
    | ok s1 =>
      rw [h k s _ hk (by simp)]
      simp only [hk] at hr
      exact foldRes_ext f g h ks s1 r hr hne
    | err e s1 =>
      rw [h k s _ hk (by simp)]
      simpa [hk] using hr
    | outOfFuel =>
      simp only [hk] at hr
      exact absurd hr.symm hne

theorem markDone_ext (o : Obj) (f g : St → Res) (h : Ext f g) : Ext (fun s => markDone o (f s)) (fun s => markDone o (g s)) := by
  intro s r hr hne
  cases hf : f s with
  | ok s1 => simp only [h s _ hf (by simp)]; simpa [hf] using hr
  | err e s1 => simp only [h s _ hf (by simp)]; simpa [hf] using hr
  | outOfFuel => simp only [hf, markDone] at hr; exact absurd hr.symm hne

theorem wrapErr_ext (f g : St → Res) (h : Ext f g) : Ext (fun s => wrapErr (f s)) (fun s => wrapErr (g s)) := by
  intro s r hr hne
  cases hf : f s with
  | ok s1 => simp only [h s _ hf (by simp)]; simpa [hf] using hr
  | err e s1 => simp only [h s _ hf (by simp)]; simpa [hf] using hr
  | outOfFuel => simp only [hf, wrapErr] at hr; exact absurd hr.symm hne

theorem unvisitThen_ext (w : World) (kt : Nat) (t : Text) (tg : Option (Loc × Obj)) (v : Obj) (f g : St → Res) (h : Ext f g) :
    Ext (fun s => unvisitThen w kt t tg v (f s)) (fun s => unvisitThen w kt t tg v (g s)) := by
  intro s r hr hne
  cases hf : f s with
  | ok s1 => simp only [h s _ hf (by simp)]; simpa [hf] using hr
  | err e s1 => simp only [h s _ hf (by simp)]; simpa [hf] using hr
  | outOfFuel => simp only [hf, unvisitThen] at hr; exact absurd hr.symm hne

theorem loadDoc_ext (w : World) (rs rs' : Loc → Nat → St → Res) (h : ∀ l k, Ext (rs l k) (rs' l k)) (d : Option Loc) :
    Ext (loadDoc w rs d) (loadDoc w rs' d) := by
  intro s r hr hne
  unfold loadDoc at hr ⊢
  cases d with
  | none => exact hr
  | some l =>
    simp only at hr ⊢
    by_cases hc : s.docs.contains l = true
    · rw [if_pos hc] at hr ⊢; exact hr
    · rw [if_neg hc] at hr ⊢
      exact wrapErr_ext _ _ (foldRes_ext (rs l) (rs' l) (h l) _) _ r hr hne

theorem finish_ext (w : World) (rs rs' : Nat → St → Res) (h : ∀ k, Ext (rs k) (rs' k)) (kt : Nat) (t : Text)
    (tg : Option (Loc × Obj)) (o : Obj) (v : Option Obj) :
    Ext (finish w rs kt t tg o v) (finish w rs' kt t tg o v) := by
  intro s r hr hne
  unfold finish at hr ⊢
  cases v with
  | none => exact hr
  | some v =>
    simp only at hr ⊢
    exact unvisitThen_ext w kt t tg v _ _ (h v) _ r hr hne

theorem preResolve_ext (pre : Bool) (r r' : Unit → Res) (s2 : St) (cont cont' : St → Res)
    (hr : ∀ x, r () = x → x ≠ .outOfFuel → r' () = x) (hc : ∀ s3, Ext (fun _ => cont s3) (fun _ => cont' s3))
    (x : Res) (hx : preResolve pre r s2 cont = x) (hne : x ≠ .outOfFuel) :
    preResolve pre r' s2 cont' = x := by
  unfold preResolve at hx ⊢
  cases pre with
  | false => simp only [Bool.false_eq_true, if_false] at hx ⊢; exact hc s2 s2 x hx hne
  | true =>
    simp only [if_true] at hx ⊢
    cases hrr : r () with
    | ok s3 => rw [hr _ hrr (by simp)]; simp only [hrr] at hx; exact hc s3 s3 x hx hne
    | err e s3 => rw [hr _ hrr (by simp)]; simp only [hrr] at hx; exact hx
    | outOfFuel => simp only [hrr] at hx; exact absurd hx.symm hne

/-- one level of `resolve`, the recursive calls abstracted -/
def step (w : World) (rec : Loc → Obj → St → Res) (cx : Loc) (o : Obj) (s : St) : Res :=
  match w.node o with
  | none => .err none s
  | some n =>
    if n.empty then .err (some n.kind) s else
    match n.ref with
    | none => markDone o (foldRes (fun k s => rec cx k s) n.kids s)
    | some t =>
      if (getC w s o).isSome then markDone o (.ok s)
      else if s.inprog.contains (key n.kind t) then
        markDone o (.ok { s with pending := s.pending ++ [(key n.kind t, o)], nback := s.nback + 1 })
      else
        match loadDoc w (fun l k s => rec l k s) (w.docOf cx t)
            { s with inprog := s.inprog ++ [key n.kind t], foreign := s.foreign || (cx != n.home) } with
        | .ok s2 =>
          if w.emptyTarget cx t n.kind then markDone o (.ok { s2 with nempty := s2.nempty + 1 }) else
          match w.target cx t n.kind with
          | none => .err none s2
          | some (cx', tgt) =>
            match w.node tgt with
            | none => .err none s2
            | some tn =>
              if tn.kind ≠ n.kind then .err none s2
              else if tn.empty then .err none s2
              else
                preResolve (if decide (n.kind = Kind.pathItem) then tn.ref.isSome else w.fragment cx t n.kind)
                  (fun _ => rec cx' tgt s2) s2 (fun s3 =>
                  markDone o (finish w (fun k s => rec
                      (if w.fragment cx t n.kind && !decide (n.kind = Kind.pathItem) then cx else cx') k s)
                    (key n.kind t) t (some (cx', tgt)) o (valueOf w tgt s3) s3))
        | e => e

theorem resolve_succ (w : World) (fuel : Nat) (cx : Loc) (o : Obj) (s : St) :
    resolve w (fuel + 1) cx o s = step w (resolve w fuel) cx o s := by
  simp only [resolve, step]
  rfl

theorem step_ext (w : World) (rec rec' : Loc → Obj → St → Res) (h : ∀ cx o, Ext (rec cx o) (rec' cx o)) :
    ∀ cx o, Ext (step w rec cx o) (step w rec' cx o) := by
  intro cx o s r hr hne
  unfold step at hr ⊢
  cases hn : w.node o with
  | none => simp only [hn] at hr ⊢; exact hr
  | some n =>
    simp only [hn] at hr ⊢
    by_cases hemp : n.empty = true
    · rw [if_pos hemp] at hr ⊢; exact hr
    rw [if_neg hemp] at hr ⊢
    cases hrf : n.ref with
    | none =>
      simp only [hrf] at hr ⊢
      exact markDone_ext o _ _ (foldRes_ext _ _ (fun k => h cx k) _) s r hr hne
    | some t =>
      simp only [hrf] at hr ⊢
      by_cases h1 : (getC w s o).isSome = true
      · rw [if_pos h1] at hr ⊢; exact hr
      · rw [if_neg h1] at hr ⊢
        by_cases h2 : s.inprog.contains (key n.kind t) = true
        · rw [if_pos h2] at hr ⊢; exact hr
        · rw [if_neg h2] at hr ⊢
          cases hl : loadDoc w (fun l k s => rec l k s) (w.docOf cx t)
              { s with inprog := s.inprog ++ [key n.kind t], foreign := s.foreign || (cx != n.home) } with
          | outOfFuel => simp only [hl] at hr; exact absurd hr.symm hne
          | err e s2 =>
            rw [loadDoc_ext w _ _ (fun l k => h l k) _ _ _ hl (by simp)]
            simp only [hl] at hr; exact hr
          | ok s2 =>
            rw [loadDoc_ext w _ _ (fun l k => h l k) _ _ _ hl (by simp)]
            simp only [hl] at hr ⊢
            by_cases hE : w.emptyTarget cx t n.kind = true
            · rw [if_pos hE] at hr ⊢; exact hr
            · rw [if_neg hE] at hr ⊢
              cases ht : w.target cx t n.kind with
              | none => simp only [ht] at hr ⊢; exact hr
              | some p =>
                obtain ⟨cx', tgt⟩ := p
                simp only [ht] at hr ⊢
                cases htn : w.node tgt with
                | none => simp only [htn] at hr ⊢; exact hr
                | some tn =>
                  simp only [htn] at hr ⊢
                  by_cases hk : tn.kind ≠ n.kind
                  · rw [if_pos hk] at hr ⊢; exact hr
                  · rw [if_neg hk] at hr ⊢
                    by_cases hte : tn.empty = true
                    · rw [if_pos hte] at hr ⊢; exact hr
                    rw [if_neg hte] at hr ⊢
                    refine preResolve_ext _ _ _ _ _ _ (fun x hx hxne => h cx' tgt s2 x hx hxne) ?_ r hr hne
                    intro s3
                    exact markDone_ext o (fun _ => _) (fun _ => _)
                      (fun _ x hx hxne => finish_ext w _ _ (fun k => h _ k) _ _ _ _ _ s3 x hx hxne)

theorem resolve_fuel_succ (w : World) : ∀ fuel cx o, Ext (resolve w fuel cx o) (resolve w (fuel + 1) cx o) := by
  intro fuel
  induction fuel with
  | zero => intro cx o s r hr hne; simp only [resolve] at hr; exact absurd hr.symm hne
  | succ fuel ih =>
    intro cx o s r hr hne
    rw [resolve_succ] at hr ⊢
    exact step_ext w _ _ ih cx o s r hr hne

theorem resolve_fuel_mono (w : World) (fuel : Nat) (cx : Loc) (o : Obj) (s : St) (r : Res)
    (hr : resolve w fuel cx o s = r) (hne : r ≠ .outOfFuel) : ∀ g, fuel ≤ g → resolve w g cx o s = r := by
  intro g hg
  induction g with
  | zero => have : fuel = 0 := by omega
            subst this; exact hr
  | succ g ih =>
    by_cases h : fuel = g + 1
    · subst h; exact hr
    · exact resolve_fuel_succ w g cx o s r (ih (by omega)) hne

end KinModel.Loader
