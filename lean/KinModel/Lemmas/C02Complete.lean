/-
Helper lemmas for C02: completeness of the resolution — in a run that ends without a nil `unvisitRef` and
without a swallowed `errMUST…` (`Clean`), every object whose resolver call returned is settled: a value with all children settled, or a reference that has its value or still waits in the
backtrack table under a text that is in progress. At the end of a load nothing is in progress.
-/
import KinModel.Loader
namespace KinModel.Loader

/-- neither of the two events that leave a walked reference without value happened: `unvisitRef` with a nil value
    (a pure reference cycle), `errMUST…` of an empty target swallowed (`#`) -/
def Clean (s : St) : Prop := s.nnil = 0 ∧ s.nempty = 0

def Has (s : St) (o : Obj) : Prop := ∃ v, (o, v) ∈ s.value

/-- `getC … ≠ none`, as a statement about the value list -/
def HasC (w : World) (s : St) (o : Obj) : Prop :=
  Has s o ∨ ∃ n r, w.node o = some n ∧ n.orig = some r ∧ Has s r

theorem get_isSome_iff (s : St) (o : Obj) : (s.get o).isSome = true ↔ Has s o := by
  unfold St.get Has
  rw [Option.isSome_map, List.find?_isSome]
  constructor
  · rintro ⟨⟨a, b⟩, hm, hp⟩
    have : a = o := by simpa using hp
    subst this; exact ⟨b, hm⟩
  · rintro ⟨v, hv⟩; exact ⟨(o, v), hv, by simp⟩

theorem getC_isSome_iff (w : World) (s : St) (o : Obj) : (getC w s o).isSome = true ↔ HasC w s o := by
  unfold getC HasC
  cases hg : s.get o with
  | some v =>
    simp only [Option.isSome_some, true_iff]
    exact Or.inl ((get_isSome_iff s o).1 (by simp [hg]))
  | none =>
    have hno : ¬ Has s o := fun h => by
      have := (get_isSome_iff s o).2 h
      simp [hg] at this
    simp only
    cases hn : w.node o with
    | none => simp [hno]
    | some n =>
      cases ho : n.orig with
      | none => simp [ho, hno]
      | some r =>
        simp only [Option.bind_some, ho]
        rw [get_isSome_iff]
        constructor
        · intro h; exact Or.inr ⟨n, r, rfl, ho, h⟩
        · rintro (h | ⟨n', r', hn', ho', h⟩)
          · exact absurd h hno
          · cases hn'; rw [ho] at ho'; cases ho'; exact h

/-- the settled-ness invariant -/
structure Settled (w : World) (s : St) : Prop where
  val  : ∀ o v, (o, v) ∈ s.value → v ∈ s.done ∨ v ∈ s.walking
  kids : ∀ o, o ∈ s.done → ∀ n, w.node o = some n → n.ref = none → ∀ k, k ∈ n.kids → k ∈ s.done
  refs : ∀ o, o ∈ s.done → ∀ n t, w.node o = some n → n.ref = some t → HasC w s o ∨ (key n.kind t, o) ∈ s.pending
  pend : ∀ kt o, (kt, o) ∈ s.pending → kt ∈ s.inprog

/-- `done` and `value` only grow -/
def Grow (s s' : St) : Prop := s.done ⊆ s'.done ∧ s.value ⊆ s'.value

theorem Grow.refl (s : St) : Grow s s := ⟨fun _ h => h, fun _ h => h⟩
theorem Grow.trans {a b c : St} (h1 : Grow a b) (h2 : Grow b c) : Grow a c :=
  ⟨fun _ h => h2.1 (h1.1 h), fun _ h => h2.2 (h1.2 h)⟩

theorem HasC_mono (w : World) (s s' : St) (h : s.value ⊆ s'.value) (o : Obj) : HasC w s o → HasC w s' o := by
  rintro (⟨v, hv⟩ | ⟨n, r, hn, ho, v, hv⟩)
  · exact Or.inl ⟨v, h hv⟩
  · exact Or.inr ⟨n, r, hn, ho, v, h hv⟩

/-- a step that, in runs that stay clean, restores the in-progress set and keeps the invariant -/
def PresC (w : World) (f : St → Res) : Prop :=
  ∀ s s', f s = .ok s' → Clean s' →
    Clean s ∧ (s'.inprog = s.inprog ∧ s'.walking = s.walking) ∧ Grow s s' ∧ (Settled w s → Settled w s')

theorem presC_foldRes (w : World) (f : Nat → St → Res) (hf : ∀ k, PresC w (f k)) : ∀ ks, PresC w (foldRes f ks)
  | [] => by
    intro s s' h hc; simp only [foldRes, Res.ok.injEq] at h; subst h
    exact ⟨hc, ⟨rfl, rfl⟩, Grow.refl _, id⟩
  | k :: ks => by
    intro s s' h hc
    simp only [foldRes] at h
    cases hk : f k s with
    | ok s1 =>
      simp only [hk] at h
      obtain ⟨c2, i2, g2, p2⟩ := presC_foldRes w f hf ks s1 s' h hc
      obtain ⟨c1, i1, g1, p1⟩ := hf k s s1 hk c2
      exact ⟨c1, ⟨i2.1.trans i1.1, i2.2.trans i1.2⟩, Grow.trans g1 g2, fun hs => p2 (p1 hs)⟩
    | err _ _ => simp [hk] at h
    | outOfFuel => simp [hk] at h

/-! ### `done` only grows (along nil and error returns); a call that returns nil has marked its object -/

def DLe (s s' : St) : Prop := s.done ⊆ s'.done
theorem DLe.refl (s : St) : DLe s s := fun _ h => h
theorem DLe.trans {a b c : St} (h1 : DLe a b) (h2 : DLe b c) : DLe a c := fun _ h => h2 (h1 h)

theorem foldRes_dle (f : Nat → St → Res) (hf : ∀ k s s', (f k s).st? = some s' → DLe s s') :
    ∀ ks s s', (foldRes f ks s).st? = some s' → DLe s s'
  | [], s, s', h => by simp only [foldRes, Res.st?, Option.some.injEq] at h; subst h; exact DLe.refl _
  | k :: ks, s, s', h => by
    simp only [foldRes] at h
    cases hk : f k s with
    | ok s1 => simp only [hk] at h; exact DLe.trans (hf k s s1 (by rw [hk]; rfl)) (foldRes_dle f hf ks s1 s' h)
    | err e s1 => simp only [hk, Res.st?, Option.some.injEq] at h; subst h; exact hf k s s1 (by rw [hk]; rfl)
    | outOfFuel => simp [hk, Res.st?] at h

theorem markDone_dle (o : Obj) (r : Res) (s' : St) (h : (markDone o r).st? = some s') :
    ∃ s4, r.st? = some s4 ∧ DLe s4 s' := by
  cases r with
  | ok s4 => simp only [markDone, Res.st?, Option.some.injEq] at h; subst h; exact ⟨s4, rfl, fun x hx => by simp [hx]⟩
  | err e s4 => simp only [markDone, Res.st?, Option.some.injEq] at h; subst h; exact ⟨s4, rfl, DLe.refl _⟩
  | outOfFuel => simp [markDone, Res.st?] at h

theorem unvisit_done (w : World) (kt : Nat) (t : Text) (tg : Option (Loc × Obj)) (v : Option Obj) (s s' : St)
    (h : unvisit w kt t tg v s = .ok s') : s'.done = s.done := by
  unfold unvisit at h
  cases v <;> (simp only [Res.ok.injEq] at h; subst h; rfl)

theorem unvisit_ok (w : World) (kt : Nat) (t : Text) (tg : Option (Loc × Obj)) (v : Option Obj) (s : St) :
    ∃ s', unvisit w kt t tg v s = .ok s' := by
  unfold unvisit; cases v <;> exact ⟨_, rfl⟩

theorem unvisitThen_inv (w : World) (kt : Nat) (t : Text) (tg : Option (Loc × Obj)) (v : Obj) (r : Res) (s' : St)
    (h : (unvisitThen w kt t tg v r).st? = some s') :
    ∃ s2, r.st? = some s2 ∧ unvisit w kt t tg (some v) { s2 with walking := s2.walking.tail } = .ok s' := by
  cases r with
  | ok s2 =>
    obtain ⟨s3, h3⟩ := unvisit_ok w kt t tg (some v) { s2 with walking := s2.walking.tail }
    simp only [unvisitThen, h3, Res.st?, Option.some.injEq] at h; subst h
    exact ⟨s2, rfl, h3⟩
  | err e s2 =>
    obtain ⟨s3, h3⟩ := unvisit_ok w kt t tg (some v) { s2 with walking := s2.walking.tail }
    simp only [unvisitThen, h3, Res.st?, Option.some.injEq] at h; subst h
    exact ⟨s2, rfl, h3⟩
  | outOfFuel => simp [unvisitThen, Res.st?] at h

/-- a successful `unvisitThen` comes from a successful walk -/
theorem unvisitThen_ok (w : World) (kt : Nat) (t : Text) (tg : Option (Loc × Obj)) (v : Obj) (r : Res) (s' : St)
    (h : unvisitThen w kt t tg v r = .ok s') :
    ∃ s2, r = .ok s2 ∧ unvisit w kt t tg (some v) { s2 with walking := s2.walking.tail } = .ok s' := by
  cases r with
  | ok s2 => exact ⟨s2, rfl, h⟩
  | err e s2 =>
    obtain ⟨s3, h3⟩ := unvisit_ok w kt t tg (some v) { s2 with walking := s2.walking.tail }
    simp [unvisitThen, h3] at h
  | outOfFuel => simp [unvisitThen] at h

theorem finish_dle (w : World) (rs : Nat → St → Res) (hrs : ∀ k s s', (rs k s).st? = some s' → DLe s s')
    (kt : Nat) (t : Text) (tg : Option (Loc × Obj)) (o : Obj) (v : Option Obj) (s s' : St)
    (h : (finish w rs kt t tg o v s).st? = some s') : DLe s s' := by
  unfold finish at h
  cases v with
  | none =>
    obtain ⟨s3, h3⟩ := unvisit_ok w kt t tg none s
    simp only [h3, Res.st?, Option.some.injEq] at h; subst h
    exact fun x hx => (unvisit_done w _ _ _ _ _ _ h3) ▸ hx
  | some v =>
    simp only at h
    obtain ⟨s2, hf, hu⟩ := unvisitThen_inv w _ _ _ _ _ _ h
    have := hrs v _ s2 hf
    exact fun x hx => (unvisit_done w _ _ _ _ _ _ hu) ▸ this hx

theorem wrapErr_st'' (r : Res) : (wrapErr r).st? = r.st? := by cases r <;> rfl

theorem loadDoc_dle (w : World) (rs : Loc → Nat → St → Res) (hrs : ∀ l k s s', (rs l k s).st? = some s' → DLe s s')
    (d : Option Loc) (s s' : St) (h : (loadDoc w rs d s).st? = some s') : DLe s s' := by
  unfold loadDoc at h
  cases d with
  | none => simp only [Res.st?, Option.some.injEq] at h; subst h; exact DLe.refl _
  | some l =>
    simp only at h
    split at h
    · simp only [Res.st?, Option.some.injEq] at h; subst h; exact DLe.refl _
    · rw [wrapErr_st''] at h
      exact fun x hx => foldRes_dle (rs l) (hrs l) _ _ _ h hx

/-- the ways through the optional recursive call -/
theorem preResolve_inv (pre : Bool) (r : Unit → Res) (s2 : St) (cont : St → Res) (x : Res)
    (h : preResolve pre r s2 cont = x) :
    (pre = false ∧ cont s2 = x) ∨
    (pre = true ∧ ∃ s3, r () = .ok s3 ∧ cont s3 = x) ∨
    (pre = true ∧ ∃ e s3, r () = .err e s3 ∧ x = .err e s3) ∨
    (pre = true ∧ r () = .outOfFuel ∧ x = .outOfFuel) := by
  unfold preResolve at h
  cases pre with
  | false => exact Or.inl ⟨rfl, by simpa using h⟩
  | true =>
    simp only [if_true] at h
    cases hr : r () with
    | ok s3 => simp only [hr] at h; exact Or.inr (Or.inl ⟨rfl, s3, rfl, h⟩)
    | outOfFuel => simp only [hr] at h; exact Or.inr (Or.inr (Or.inr ⟨rfl, rfl, h.symm⟩))
    | err e s3 => simp only [hr] at h; exact Or.inr (Or.inr (Or.inl ⟨rfl, e, s3, rfl, h.symm⟩))

theorem resolve_dle (w : World) : ∀ fuel cx o s s', (resolve w fuel cx o s).st? = some s' → DLe s s' := by
  intro fuel
  induction fuel with
  | zero => intro cx o s s' h; simp [resolve, Res.st?] at h
  | succ fuel ih =>
    intro cx o s s' h
    simp only [resolve] at h
    cases hn : w.node o with
    | none => simp only [hn, Res.st?, Option.some.injEq] at h; subst h; exact DLe.refl _
    | some n =>
      simp only [hn] at h
      by_cases hemp : n.empty = true
      · rw [if_pos hemp] at h; simp only [Res.st?, Option.some.injEq] at h; subst h; exact DLe.refl _
      rw [if_neg hemp] at h
      cases hr : n.ref with
      | none =>
        simp only [hr] at h
        obtain ⟨s4, h4, hd⟩ := markDone_dle _ _ _ h
        exact DLe.trans (foldRes_dle _ (fun k => ih cx k) _ _ _ h4) hd
      | some t =>
        simp only [hr] at h
        by_cases h1 : (getC w s o).isSome = true
        · rw [if_pos h1] at h
          obtain ⟨s4, h4, hd⟩ := markDone_dle _ _ _ h
          simp only [Res.st?, Option.some.injEq] at h4; subst h4; exact hd
        · rw [if_neg h1] at h
          by_cases h2 : s.inprog.contains (key n.kind t) = true
          · rw [if_pos h2] at h
            obtain ⟨s4, h4, hd⟩ := markDone_dle _ _ _ h
            simp only [Res.st?, Option.some.injEq] at h4; subst h4; exact hd
          · rw [if_neg h2] at h
            cases hr1 : loadDoc w (fun l k s => resolve w fuel l k s) (w.docOf cx t)
                { s with inprog := s.inprog ++ [key n.kind t], foreign := s.foreign || (cx != n.home) } with
            | outOfFuel => simp [hr1, Res.st?] at h
            | err e s2 =>
              simp only [hr1, Res.st?, Option.some.injEq] at h; subst h
              exact loadDoc_dle w (fun l k s => resolve w fuel l k s) (fun l k => ih l k) (w.docOf cx t)
                { s with inprog := s.inprog ++ [key n.kind t], foreign := s.foreign || (cx != n.home) } s2 (by rw [hr1]; rfl)
            | ok s2 =>
              simp only [hr1] at h
              have hL : DLe s s2 :=
                loadDoc_dle w (fun l k s => resolve w fuel l k s) (fun l k => ih l k) (w.docOf cx t)
                  { s with inprog := s.inprog ++ [key n.kind t], foreign := s.foreign || (cx != n.home) } s2 (by rw [hr1]; rfl)
              have exit2 : s' = s2 → DLe s s' := fun he => he ▸ hL
              by_cases hE : w.emptyTarget cx t n.kind = true
              · rw [if_pos hE] at h
                simp only [markDone, Res.st?, Option.some.injEq] at h; subst h
                exact fun x hx => by simp [hL hx]
              rw [if_neg hE] at h
              cases ht : w.target cx t n.kind with
              | none => simp only [ht, Res.st?, Option.some.injEq] at h; exact exit2 h.symm
              | some p =>
                obtain ⟨cx', tgt⟩ := p
                simp only [ht] at h
                cases htn' : w.node tgt with
                | none => simp only [htn', Res.st?, Option.some.injEq] at h; exact exit2 h.symm
                | some tn =>
                  simp only [htn'] at h
                  by_cases hk : tn.kind = n.kind
                  · simp only [hk, ne_eq, not_true_eq_false, if_false] at h
                    by_cases hte' : tn.empty = true
                    · rw [if_pos hte'] at h
                      simp only [Res.st?, Option.some.injEq] at h; exact exit2 h.symm
                    rw [if_neg hte'] at h
                    have cont : ∀ s3, DLe s s3 →
                        (markDone o (finish w (fun k s => resolve w fuel
                            (if (w.fragment cx t n.kind && !decide (n.kind = Kind.pathItem)) = true then cx else cx') k s)
                          (key n.kind t) t (some (cx', tgt)) o (valueOf w tgt s3) s3)).st? = some s' → DLe s s' := by
                      intro s3 h3 hfin
                      obtain ⟨s4, hfin4, hd⟩ := markDone_dle _ _ _ hfin
                      exact DLe.trans h3 (DLe.trans (finish_dle w _ (fun k => ih _ k) _ t _ o _ s3 s4 hfin4) hd)
                    generalize hx : preResolve _ _ _ _ = x at h
                    rcases preResolve_inv _ _ _ _ _ hx with ⟨_, hc⟩ | ⟨_, s3, hres, hc⟩ | ⟨_, e, s3, hres, hxe⟩ | ⟨_, _, hxo⟩
                    · exact cont s2 hL (hc ▸ h)
                    · exact cont s3 (DLe.trans hL (ih cx' tgt s2 s3 (by rw [hres]; rfl))) (hc ▸ h)
                    · have h3 : DLe s s3 := DLe.trans hL (ih cx' tgt s2 s3 (by rw [hres]; rfl))
                      subst hxe
                      simp only [Res.st?, Option.some.injEq] at h; subst h; exact h3
                    · subst hxo; simp [Res.st?] at h
                  · simp only [ne_eq, hk, not_false_eq_true, if_true, Res.st?, Option.some.injEq] at h
                    exact exit2 h.symm

theorem markDone_ok'' (o : Obj) (r : Res) (s' : St) (h : markDone o r = .ok s') :
    ∃ s4, r = .ok s4 ∧ s' = { s4 with done := s4.done ++ [o] } := by
  cases r with
  | ok s4 => simp only [markDone, Res.ok.injEq] at h; exact ⟨s4, rfl, h.symm⟩
  | err _ _ => simp [markDone] at h
  | outOfFuel => simp [markDone] at h

/-- every successful resolver call has marked its object -/
theorem resolve_marks (w : World) (fuel : Nat) (cx : Loc) (o : Obj) (s s' : St)
    (h : resolve w fuel cx o s = .ok s') : o ∈ s'.done ∧ s.done ⊆ s'.done := by
  refine ⟨?_, resolve_dle w fuel cx o s s' (by rw [h]; rfl)⟩
  cases fuel with
  | zero => simp [resolve] at h
  | succ fuel =>
    simp only [resolve] at h
    cases hn : w.node o with
    | none => simp [hn] at h
    | some n =>
      simp only [hn] at h
      by_cases hemp : n.empty = true
      · rw [if_pos hemp] at h; cases h
      rw [if_neg hemp] at h
      cases hr : n.ref with
      | none =>
        simp only [hr] at h
        obtain ⟨s4, _, rfl⟩ := markDone_ok'' _ _ _ h; simp
      | some t =>
        simp only [hr] at h
        by_cases h1 : (getC w s o).isSome = true
        · rw [if_pos h1] at h; obtain ⟨s4, _, rfl⟩ := markDone_ok'' _ _ _ h; simp
        rw [if_neg h1] at h
        by_cases h2 : s.inprog.contains (key n.kind t) = true
        · rw [if_pos h2] at h; obtain ⟨s4, _, rfl⟩ := markDone_ok'' _ _ _ h; simp
        rw [if_neg h2] at h
        cases hr1 : loadDoc w (fun l k s => resolve w fuel l k s) (w.docOf cx t)
            { s with inprog := s.inprog ++ [key n.kind t], foreign := s.foreign || (cx != n.home) } with
        | outOfFuel => simp [hr1] at h
        | err e s2 => simp [hr1] at h
        | ok s2 =>
          simp only [hr1] at h
          by_cases hE : w.emptyTarget cx t n.kind = true
          · rw [if_pos hE] at h; obtain ⟨s4, _, rfl⟩ := markDone_ok'' _ _ _ h; simp
          rw [if_neg hE] at h
          cases ht : w.target cx t n.kind with
          | none => simp [ht] at h
          | some p =>
            obtain ⟨cx', tgt⟩ := p
            simp only [ht] at h
            cases htn' : w.node tgt with
            | none => simp [htn'] at h
            | some tn =>
              simp only [htn'] at h
              by_cases hk : tn.kind = n.kind
              · simp only [hk, ne_eq, not_true_eq_false, if_false] at h
                by_cases hte' : tn.empty = true
                · rw [if_pos hte'] at h; cases h
                rw [if_neg hte'] at h
                rcases preResolve_inv _ _ _ _ _ h with ⟨_, hc⟩ | ⟨_, s3, _, hc⟩ | ⟨_, e, s3, _, hxe⟩ | ⟨_, _, hxo⟩
                · obtain ⟨s4, _, rfl⟩ := markDone_ok'' _ _ _ hc; simp
                · obtain ⟨s4, _, rfl⟩ := markDone_ok'' _ _ _ hc; simp
                · cases hxe
                · cases hxo
              · simp [hk] at h

/-- after a successful fold every element has been marked done, when each step marks its own -/
theorem foldRes_done (f : Nat → St → Res) (hf : ∀ k s s', f k s = .ok s' → k ∈ s'.done ∧ s.done ⊆ s'.done) :
    ∀ ks s s', foldRes f ks s = .ok s' → s.done ⊆ s'.done ∧ ∀ k, k ∈ ks → k ∈ s'.done
  | [], s, s', h => by
    simp only [foldRes, Res.ok.injEq] at h; subst h
    exact ⟨fun _ h => h, fun k hk => by cases hk⟩
  | k :: ks, s, s', h => by
    simp only [foldRes] at h
    cases hk : f k s with
    | ok s1 =>
      simp only [hk] at h
      obtain ⟨m2, a2⟩ := foldRes_done f hf ks s1 s' h
      obtain ⟨k1, m1⟩ := hf k s s1 hk
      refine ⟨fun _ hx => m2 (m1 hx), ?_⟩
      intro k' hk'
      cases hk' with
      | head => exact m2 k1
      | tail _ h' => exact a2 k' h'
    | err _ _ => simp [hk] at h
    | outOfFuel => simp [hk] at h

/-! ### the primitive steps keep the invariant -/

theorem settled_mark (w : World) (s : St) (o : Obj) (hs : Settled w s)
    (hk : ∀ n, w.node o = some n → n.ref = none → ∀ k, k ∈ n.kids → k ∈ s.done)
    (hr : ∀ n t, w.node o = some n → n.ref = some t → HasC w s o ∨ (key n.kind t, o) ∈ s.pending) :
    Settled w { s with done := s.done ++ [o] } where
  val := fun a v h => by
    rcases hs.val a v h with h' | h'
    · exact Or.inl (by simp [h'])
    · exact Or.inr h'
  kids := fun a ha n hn hr' k hk' => by
    simp only [List.mem_append, List.mem_singleton] at ha ⊢
    rcases ha with ha | rfl
    · exact Or.inl (hs.kids a ha n hn hr' k hk')
    · exact Or.inl (hk n hn hr' k hk')
  refs := fun a ha n t hn hr' => by
    simp only [List.mem_append, List.mem_singleton] at ha
    rcases ha with ha | rfl
    · exact hs.refs a ha n t hn hr'
    · exact hr n t hn hr'
  pend := hs.pend

theorem presC_markDone (w : World) (o : Obj) (f : St → Res) (hf : PresC w f)
    (hk : ∀ s s', f s = .ok s' → ∀ n, w.node o = some n → n.ref = none → ∀ k, k ∈ n.kids → k ∈ s'.done)
    (hr : ∀ s s', f s = .ok s' → Clean s' → Settled w s' → ∀ n t, w.node o = some n → n.ref = some t →
      HasC w s' o ∨ (key n.kind t, o) ∈ s'.pending) :
    PresC w (fun s => markDone o (f s)) := by
  intro s s' h hc
  obtain ⟨s4, h4, rfl⟩ := markDone_ok'' _ _ _ h
  have hc4 : Clean s4 := hc
  obtain ⟨c, i, g, p⟩ := hf s s4 h4 hc4
  refine ⟨c, i, ⟨fun x hx => by simp [g.1 hx], g.2⟩, fun hs => ?_⟩
  exact settled_mark w s4 o (p hs) (hk s s4 h4) (hr s s4 h4 hc4 (p hs))

theorem wrapErr_ok (r : Res) (s' : St) (h : wrapErr r = .ok s') : r = .ok s' := by
  cases r with
  | ok s => simpa [wrapErr] using h
  | err _ _ => simp [wrapErr] at h
  | outOfFuel => simp [wrapErr] at h

theorem presC_loadDoc (w : World) (rs : Loc → Nat → St → Res) (hrs : ∀ l k, PresC w (rs l k)) (d : Option Loc) :
    PresC w (loadDoc w rs d) := by
  intro s s' h hc
  unfold loadDoc at h
  cases d with
  | none => simp only [Res.ok.injEq] at h; subst h; exact ⟨hc, ⟨rfl, rfl⟩, Grow.refl _, id⟩
  | some l =>
    simp only at h
    split at h
    · simp only [Res.ok.injEq] at h; subst h
      exact ⟨hc, ⟨rfl, rfl⟩, Grow.refl _, fun hs => ⟨hs.val, hs.kids, hs.refs, hs.pend⟩⟩
    · obtain ⟨c, i, g, p⟩ := presC_foldRes w (rs l) (hrs l) (w.roots l) _ s' (wrapErr_ok _ _ h) hc
      exact ⟨c, i, g, fun hs => p ⟨hs.val, hs.kids, hs.refs, hs.pend⟩⟩

/-- `unvisitRef` with a value: every callback under the key fires -/
theorem unvisit_settled (w : World) (n : Node) (t : Text) (tg : Option (Loc × Obj)) (v : Obj) (s s' : St)
    (h : unvisit w (key n.kind t) t tg (some v) s = .ok s') (hc : Clean s') :
    Clean s ∧ (s'.inprog = s.inprog.erase (key n.kind t) ∧ s'.walking = s.walking) ∧ Grow s s' ∧
      (Settled w s → v ∈ s.done → Settled w s') := by
  unfold unvisit at h
  simp only [Res.ok.injEq] at h; subst h
  refine ⟨hc, ⟨rfl, rfl⟩, ⟨fun _ h => h, fun x hx => by simp [hx]⟩, fun hs hv => ?_⟩
  refine ⟨?_, hs.kids, ?_, ?_⟩
  · intro a b hab
    simp only [List.mem_append, List.mem_map] at hab
    rcases hab with hab | ⟨p, _, hp⟩
    · exact hs.val a b hab
    · simp only [Prod.mk.injEq] at hp; rw [← hp.2]; exact Or.inl hv
  · intro a ha n' t' hn hr
    rcases hs.refs a ha n' t' hn hr with hh | hp
    · exact Or.inl (HasC_mono w s _ (fun x hx => by simp [hx]) a hh)
    · by_cases hne : key n'.kind t' = key n.kind t
      · refine Or.inl (Or.inl ⟨v, ?_⟩)
        simp only [List.mem_append, List.mem_map]
        refine Or.inr ⟨(key n'.kind t', a), ?_, rfl⟩
        simp only [List.mem_filter]
        exact ⟨hp, by simpa using hne⟩
      · refine Or.inr ?_
        simp only [List.mem_filter]
        exact ⟨hp, by simpa using hne⟩
  · intro t' a hp
    simp only [List.mem_filter] at hp
    have hne : t' ≠ key n.kind t := by simpa using hp.2
    exact (List.mem_erase_of_ne hne).2 (hs.pend t' a hp.1)

theorem presC_finish (w : World) (rs : Nat → St → Res) (hrs : ∀ k, PresC w (rs k))
    (hmark : ∀ k s s', rs k s = .ok s' → k ∈ s'.done)
    (n : Node) (t : Text) (tg : Option (Loc × Obj)) (o : Obj) (v : Option Obj) (s s' : St)
    (h : finish w rs (key n.kind t) t tg o v s = .ok s') (hc : Clean s') :
    Clean s ∧ (s'.inprog = s.inprog.erase (key n.kind t) ∧ s'.walking = s.walking) ∧ Grow s s' ∧
      (Settled w s → Settled w s' ∧ Has s' o) := by
  unfold finish at h
  cases v with
  | none =>
    exfalso
    unfold unvisit at h
    simp only [Res.ok.injEq] at h; subst h
    have := hc.1; simp at this
  | some v =>
    simp only at h
    obtain ⟨s2, hf, hu⟩ := unvisitThen_ok w _ _ _ _ _ _ h
    obtain ⟨cu, iu, gu, pu⟩ := unvisit_settled w n t tg v _ s' hu hc
    have cu2 : Clean s2 := cu
    obtain ⟨cf, i_f, gf, pf⟩ := hrs v _ s2 hf cu2
    have hvd : v ∈ s2.done := hmark v _ s2 hf
    refine ⟨cf, ⟨by rw [iu.1]; show s2.inprog.erase _ = _; rw [i_f.1], by rw [iu.2]; show s2.walking.tail = _; rw [i_f.2]; rfl⟩,
      ⟨fun x hx => gu.1 (gf.1 hx), fun x hx => gu.2 (gf.2 (by simp [hx]))⟩, fun hs => ?_⟩
    have hs1 : Settled w { s with value := s.value ++ [(o, v)], walking := v :: s.walking } := by
      refine ⟨?_, hs.kids, ?_, hs.pend⟩
      · intro a b hab
        simp only [List.mem_append, List.mem_singleton, Prod.mk.injEq] at hab
        rcases hab with hab | ⟨_, rfl⟩
        · rcases hs.val a b hab with h' | h'
          · exact Or.inl h'
          · exact Or.inr (by simp [h'])
        · exact Or.inr (by simp)
      · intro a ha n' t' hn hr
        rcases hs.refs a ha n' t' hn hr with hh | hp
        · exact Or.inl (HasC_mono w s _ (fun x hx => by simp [hx]) a hh)
        · exact Or.inr hp
    have hs2 := pf hs1
    have hs2' : Settled w { s2 with walking := s2.walking.tail } := by
      refine ⟨?_, hs2.kids, hs2.refs, hs2.pend⟩
      intro a b hab
      rcases hs2.val a b hab with h' | h'
      · exact Or.inl h'
      · rw [i_f.2] at h'
        simp only [List.mem_cons] at h'
        rcases h' with rfl | h'
        · exact Or.inl hvd
        · refine Or.inr ?_
          show b ∈ s2.walking.tail
          rw [i_f.2]; exact h'
    exact ⟨pu hs2' hvd, ⟨v, gu.2 (gf.2 (by simp))⟩⟩

theorem erase_append_self (l : List Nat) (t : Nat) (h : t ∉ l) : (l ++ [t]).erase t = l := by
  rw [List.erase_append_right _ h]; simp

/-- Completeness invariant of the whole resolution, by induction on fuel. -/
theorem resolve_presC (w : World) : ∀ fuel cx o, PresC w (resolve w fuel cx o) := by
  intro fuel
  induction fuel with
  | zero => intro cx o s s' h; simp [resolve] at h
  | succ fuel ih =>
    intro cx o s s' h hc
    simp only [resolve] at h
    cases hn : w.node o with
    | none => simp [hn] at h
    | some n =>
      simp only [hn] at h
      by_cases hemp : n.empty = true
      · rw [if_pos hemp] at h; cases h
      rw [if_neg hemp] at h
      cases hr : n.ref with
      | none =>
        simp only [hr] at h
        refine presC_markDone w o (fun s => foldRes (fun k s => resolve w fuel cx k s) n.kids s)
          (presC_foldRes w _ (fun k => ih cx k) _) ?_ ?_ s s' h hc
        · intro s1 s2 h12 n' hn' _ k hk
          rw [hn] at hn'; cases hn'
          exact (foldRes_done _ (fun k => resolve_marks w fuel cx k) _ _ _ h12).2 k hk
        · intro s1 s2 _ _ _ n' t hn' hr'
          rw [hn] at hn'; cases hn'; rw [hr] at hr'; cases hr'
      | some t =>
        simp only [hr] at h
        by_cases h1 : (getC w s o).isSome = true
        · rw [if_pos h1] at h
          obtain ⟨s4, h4, rfl⟩ := markDone_ok'' _ _ _ h
          cases h4
          refine ⟨hc, ⟨rfl, rfl⟩, ⟨fun x hx => by simp [hx], fun _ h => h⟩, fun hs => ?_⟩
          refine settled_mark w s o hs ?_ ?_
          · intro n' hn' hr'; rw [hn] at hn'; cases hn'; rw [hr] at hr'; cases hr'
          · intro n' t' _ _; exact Or.inl ((getC_isSome_iff w s o).1 h1)
        · rw [if_neg h1] at h
          by_cases h2 : s.inprog.contains (key n.kind t) = true
          · rw [if_pos h2] at h
            obtain ⟨s4, h4, rfl⟩ := markDone_ok'' _ _ _ h
            cases h4
            refine ⟨hc, ⟨rfl, rfl⟩, ⟨fun x hx => by simp [hx], fun _ h => h⟩, fun hs => ?_⟩
            have hs4 : Settled w { s with pending := s.pending ++ [(key n.kind t, o)], nback := s.nback + 1 } := by
              refine ⟨hs.val, hs.kids, ?_, ?_⟩
              · intro a ha n' t' hn' hr'
                rcases hs.refs a ha n' t' hn' hr' with hh | hp
                · exact Or.inl hh
                · exact Or.inr (by simp [hp])
              · intro t' a hp
                simp only [List.mem_append, List.mem_singleton, Prod.mk.injEq] at hp
                rcases hp with hp | ⟨rfl, rfl⟩
                · exact hs.pend t' a hp
                · simpa [List.contains_iff_mem] using h2
            refine settled_mark w _ o hs4 ?_ ?_
            · intro n' hn' hr'; rw [hn] at hn'; cases hn'; rw [hr] at hr'; cases hr'
            · intro n' t' hn' hr'
              rw [hn] at hn'; cases hn'; rw [hr] at hr'; cases hr'
              exact Or.inr (by simp)
          · rw [if_neg h2] at h
            have htn : key n.kind t ∉ s.inprog := by
              intro hcn; apply h2; simpa [List.contains_iff_mem] using hcn
            cases hr1 : loadDoc w (fun l k s => resolve w fuel l k s) (w.docOf cx t)
                { s with inprog := s.inprog ++ [key n.kind t], foreign := s.foreign || (cx != n.home) } with
            | err _ _ => simp [hr1] at h
            | outOfFuel => simp [hr1] at h
            | ok s2 =>
              simp only [hr1] at h
              by_cases hE : w.emptyTarget cx t n.kind = true
              · rw [if_pos hE] at h
                simp only [markDone, Res.ok.injEq] at h; subst h
                exfalso
                have := hc.2; simp at this
              rw [if_neg hE] at h
              cases ht : w.target cx t n.kind with
              | none => simp only [ht] at h; cases h
              | some p =>
                obtain ⟨cx', tgt⟩ := p
                simp only [ht] at h
                cases htn' : w.node tgt with
                | none => simp [htn'] at h
                | some tn =>
                  simp only [htn'] at h
                  by_cases hk : tn.kind = n.kind
                  · simp only [hk, ne_eq, not_true_eq_false, if_false] at h
                    by_cases hte' : tn.empty = true
                    · rw [if_pos hte'] at h; cases h
                    rw [if_neg hte'] at h
                    -- from a state s3 reached cleanly from s2
                    have cont : ∀ s3, (Clean s3 → Clean s2 ∧ (s3.inprog = s2.inprog ∧ s3.walking = s2.walking) ∧ Grow s2 s3 ∧
                          (Settled w s2 → Settled w s3)) →
                        markDone o (finish w (fun k s => resolve w fuel
                            (if (w.fragment cx t n.kind && !decide (n.kind = Kind.pathItem)) = true then cx else cx') k s)
                          (key n.kind t) t (some (cx', tgt)) o (valueOf w tgt s3) s3) = .ok s' →
                        Clean s ∧ (s'.inprog = s.inprog ∧ s'.walking = s.walking) ∧ Grow s s' ∧ (Settled w s → Settled w s') := by
                      intro s3 h23 hfin
                      obtain ⟨s4, hfin4, rfl⟩ := markDone_ok'' _ _ _ hfin
                      have hc4 : Clean s4 := hc
                      obtain ⟨c3, i4, g4, p4⟩ := presC_finish w _ (fun k => ih _ k)
                        (fun k s s' h => (resolve_marks w fuel _ k s s' h).1) n t _ o _ s3 s4 hfin4 hc4
                      obtain ⟨c2, i3, g3, p3⟩ := h23 c3
                      obtain ⟨c1, i2, g2, p2⟩ := presC_loadDoc w _ (fun l k => ih l k) _ _ s2 hr1 c2
                      refine ⟨c1, ⟨?_, ?_⟩, ⟨fun x hx => by simp [g4.1 (g3.1 (g2.1 hx))], fun x hx => g4.2 (g3.2 (g2.2 hx))⟩, fun hs => ?_⟩
                      · show s4.inprog = s.inprog
                        rw [i4.1, i3.1, i2.1]
                        exact erase_append_self _ _ htn
                      · show s4.walking = s.walking
                        rw [i4.2, i3.2, i2.2]
                      · have hs1 : Settled w { s with inprog := s.inprog ++ [key n.kind t], foreign := s.foreign || (cx != n.home) } :=
                          ⟨hs.val, hs.kids, hs.refs, fun t' a hp => by simp [hs.pend t' a hp]⟩
                        have hs3 := p3 (p2 hs1)
                        obtain ⟨hs4, hhas⟩ := p4 hs3
                        refine settled_mark w s4 o hs4 ?_ ?_
                        · intro n' hn' hr'; rw [hn] at hn'; cases hn'; rw [hr] at hr'; cases hr'
                        · intro n' t' _ _; exact Or.inl (Or.inl hhas)
                    rcases preResolve_inv _ _ _ _ _ h with ⟨hpre, hcn⟩ | ⟨_, s3, hres, hcn⟩ | ⟨_, e, s3, hres, hxe⟩ | ⟨_, _, hxo⟩
                    · exact cont s2 (fun c => ⟨c, ⟨rfl, rfl⟩, Grow.refl _, id⟩) hcn
                    · exact cont s3 (fun c3 => ih cx' tgt s2 s3 hres c3) hcn
                    · cases hxe
                    · cases hxo
                  · simp [hk] at h

/-- the objects of the loaded graph have all been through a resolver call that returned -/
theorem reach_done (w : World) (s : St) (root : Loc) (hs : Settled w s) (hw : s.walking = [])
    (hroots : ∀ r, r ∈ w.roots root → r ∈ s.done) :
    ∀ o, Reach w s root o → o ∈ s.done := by
  intro o h
  induction h with
  | root hr => exact hroots _ hr
  | kid _ hn hr hk ih => exact hs.kids _ ih _ hn hr _ hk
  | @val o' v _ hg _ =>
    have : (o', v) ∈ s.value := by
      unfold St.get at hg
      cases hf : s.value.find? (·.1 = o') with
      | none => simp [hf] at hg
      | some p =>
        simp only [hf, Option.map_some, Option.some.injEq] at hg
        have hm := List.mem_of_find?_eq_some hf
        have hp := List.find?_some hf
        obtain ⟨a, b⟩ := p
        simp only [decide_eq_true_eq] at hp
        simp only at hg
        subst hp; subst hg; exact hm
    rcases hs.val _ _ this with h' | h'
    · exact h'
    · rw [hw] at h'; cases h'

end KinModel.Loader
