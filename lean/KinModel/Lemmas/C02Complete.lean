/-
Helper lemmas for C02: completeness of the resolution — in a run that ends without a nil `unvisitRef`, without a
callback that met another kind and without a swallowed `errMUST…` (`Clean`), every object whose resolver call
returned is settled: a value with all children settled, or a reference that has its value or still waits in the
backtrack table under a text that is in progress. At the end of a load nothing is in progress.
-/
import KinModel.Loader
namespace KinModel.Loader

/-- none of the three events that leave a walked reference without value happened -/
def Clean (s : St) : Prop := s.nnil = 0 ∧ s.nskip = 0 ∧ s.nempty = 0

def Has (s : St) (o : Obj) : Prop := ∃ v, (o, v) ∈ s.value

/-- `getC … ≠ none`, as a statement about the value list -/
def HasC (w : World) (s : St) (o : Obj) : Prop :=
  Has s o ∨ ∃ n r, w.node o = some n ∧ n.orig = some r ∧ Has s r

theorem get_isSome_iff (s : St) (o : Obj) : (s.get o).isSome = true ↔ Has s o := by
  unfold St.get Has
  rw [Option.isSome_map, List.find?_isSome]
  constructor
  · rintro ⟨⟨a, b⟩, hm, hp⟩
    have : a = o := by simpa using hp
    subst this; exact ⟨b, hm⟩
  · rintro ⟨v, hv⟩; exact ⟨(o, v), hv, by simp⟩

theorem getC_isSome_iff (w : World) (s : St) (o : Obj) : (getC w s o).isSome = true ↔ HasC w s o := by
  unfold getC HasC
  cases hg : s.get o with
  | some v =>
    simp only [Option.isSome_some, true_iff]
    exact Or.inl ((get_isSome_iff s o).1 (by simp [hg]))
  | none =>
    have hno : ¬ Has s o := fun h => by
      have := (get_isSome_iff s o).2 h
      simp [hg] at this
    simp only
    cases hn : w.node o with
    | none => simp [hno]
    | some n =>
      cases ho : n.orig with
      | none => simp [ho, hno]
      | some r =>
        simp only [Option.bind_some, ho]
        rw [get_isSome_iff]
        constructor
        · intro h; exact Or.inr ⟨n, r, rfl, ho, h⟩
        · rintro (h | ⟨n', r', hn', ho', h⟩)
          · exact absurd h hno
          · cases hn'; rw [ho] at ho'; cases ho'; exact h

/-- the settled-ness invariant -/
structure Settled (w : World) (s : St) : Prop where
  val  : ∀ o v, (o, v) ∈ s.value → v ∈ s.done
  kids : ∀ o, o ∈ s.done → ∀ n, w.node o = some n → n.ref = none → ∀ k, k ∈ n.kids → k ∈ s.done
  refs : ∀ o, o ∈ s.done → ∀ n t, w.node o = some n → n.ref = some t → HasC w s o ∨ (t, o) ∈ s.pending
  pend : ∀ t o, (t, o) ∈ s.pending → t ∈ s.inprog

/-- `done` and `value` only grow -/
def Grow (s s' : St) : Prop := s.done ⊆ s'.done ∧ s.value ⊆ s'.value

theorem Grow.refl (s : St) : Grow s s := ⟨fun _ h => h, fun _ h => h⟩
theorem Grow.trans {a b c : St} (h1 : Grow a b) (h2 : Grow b c) : Grow a c :=
  ⟨fun _ h => h2.1 (h1.1 h), fun _ h => h2.2 (h1.2 h)⟩

theorem HasC_mono (w : World) (s s' : St) (h : s.value ⊆ s'.value) (o : Obj) : HasC w s o → HasC w s' o := by
  rintro (⟨v, hv⟩ | ⟨n, r, hn, ho, v, hv⟩)
  · exact Or.inl ⟨v, h hv⟩
  · exact Or.inr ⟨n, r, hn, ho, v, h hv⟩

/-- a step that, in runs that stay clean, restores the in-progress set and keeps the invariant -/
def PresC (w : World) (f : St → Res) : Prop :=
  ∀ s s', f s = .ok s' → Clean s' → Clean s ∧ s'.inprog = s.inprog ∧ Grow s s' ∧ (Settled w s → Settled w s')

theorem presC_foldRes (w : World) (f : Nat → St → Res) (hf : ∀ k, PresC w (f k)) : ∀ ks, PresC w (foldRes f ks)
  | [] => by
    intro s s' h hc; simp only [foldRes, Res.ok.injEq] at h; subst h
    exact ⟨hc, rfl, Grow.refl _, id⟩
  | k :: ks => by
    intro s s' h hc
    simp only [foldRes] at h
    cases hk : f k s with
    | ok s1 =>
      simp only [hk] at h
      obtain ⟨c2, i2, g2, p2⟩ := presC_foldRes w f hf ks s1 s' h hc
      obtain ⟨c1, i1, g1, p1⟩ := hf k s s1 hk c2
      exact ⟨c1, i2.trans i1, Grow.trans g1 g2, fun hs => p2 (p1 hs)⟩
    | err _ => simp [hk] at h
    | outOfFuel => simp [hk] at h

/-- after a successful fold every element has been marked done, when each step marks its own -/
theorem foldRes_done (f : Nat → St → Res) (hf : ∀ k s s', f k s = .ok s' → k ∈ s'.done ∧ s.done ⊆ s'.done) :
    ∀ ks s s', foldRes f ks s = .ok s' → s.done ⊆ s'.done ∧ ∀ k, k ∈ ks → k ∈ s'.done
  | [], s, s', h => by
    simp only [foldRes, Res.ok.injEq] at h; subst h
    exact ⟨fun _ h => h, fun k hk => by cases hk⟩
  | k :: ks, s, s', h => by
    simp only [foldRes] at h
    cases hk : f k s with
    | ok s1 =>
      simp only [hk] at h
      obtain ⟨m2, a2⟩ := foldRes_done f hf ks s1 s' h
      obtain ⟨k1, m1⟩ := hf k s s1 hk
      refine ⟨fun _ hx => m2 (m1 hx), ?_⟩
      intro k' hk'
      cases hk' with
      | head => exact m2 k1
      | tail _ h' => exact a2 k' h'
    | err _ => simp [hk] at h
    | outOfFuel => simp [hk] at h

theorem markDone_ok'' (o : Obj) (r : Res) (s' : St) (h : markDone o r = .ok s') :
    ∃ s4, r = .ok s4 ∧ s' = { s4 with done := s4.done ++ [o] } := by
  cases r with
  | ok s4 => simp only [markDone, Res.ok.injEq] at h; exact ⟨s4, rfl, h.symm⟩
  | err _ => simp [markDone] at h
  | outOfFuel => simp [markDone] at h

theorem finish_done (w : World) (rs : Nat → St → Res) (hrs : ∀ k s s', rs k s = .ok s' → k ∈ s'.done ∧ s.done ⊆ s'.done)
    (k : Kind) (t : Text) (tg : Option (Loc × Obj)) (o : Obj) (rw : Bool) (v : Option Obj) (s s' : St)
    (h : finish w rs k t tg o rw v s = .ok s') : s.done ⊆ s'.done := by
  unfold finish at h
  cases v with
  | none => simp only [unvisit, Res.ok.injEq] at h; subst h; exact fun _ h => h
  | some v =>
    simp only at h
    cases hf : foldRes rs (if rw = true then ((w.node v).map (·.kids)).getD [] else [])
        { s with value := s.value ++ [(o, v)] } with
    | err _ => simp [hf] at h
    | outOfFuel => simp [hf] at h
    | ok s5 =>
      simp only [hf, unvisit, Res.ok.injEq] at h; subst h
      exact (foldRes_done rs hrs _ _ _ hf).1

/-- every successful resolver call marks its object and only adds to `done` -/
theorem resolve_marks (w : World) : ∀ fuel cx o s s', resolve w fuel cx o s = .ok s' → o ∈ s'.done ∧ s.done ⊆ s'.done := by
  intro fuel
  induction fuel with
  | zero => intro cx o s s' h; simp [resolve] at h
  | succ fuel ih =>
    intro cx o s s' h
    simp only [resolve] at h
    cases hn : w.node o with
    | none => simp [hn] at h
    | some n =>
      simp only [hn] at h
      cases hr : n.ref with
      | none =>
        simp only [hr] at h
        obtain ⟨s4, h4, rfl⟩ := markDone_ok'' _ _ _ h
        have := (foldRes_done _ (fun k => ih cx k) _ _ _ h4).1
        exact ⟨by simp, fun x hx => by simp [this hx]⟩
      | some t =>
        simp only [hr] at h
        by_cases h1 : (getC w s o).isSome = true
        · rw [if_pos h1] at h
          obtain ⟨s4, h4, rfl⟩ := markDone_ok'' _ _ _ h
          cases h4; exact ⟨by simp, fun x hx => by simp [hx]⟩
        · rw [if_neg h1] at h
          by_cases h2 : s.inprog.contains t = true
          · rw [if_pos h2] at h
            obtain ⟨s4, h4, rfl⟩ := markDone_ok'' _ _ _ h
            cases h4; exact ⟨by simp, fun x hx => by simp [hx]⟩
          · rw [if_neg h2] at h
            cases hr1 : loadDoc w (fun l k s => resolve w fuel l k s) (w.docOf cx t)
                { s with inprog := s.inprog ++ [t], foreign := s.foreign || (cx != n.home) } with
            | err _ => simp [hr1] at h
            | outOfFuel => simp [hr1] at h
            | ok s2 =>
              simp only [hr1] at h
              have hL : s.done ⊆ s2.done := by
                unfold loadDoc at hr1
                cases hd : w.docOf cx t with
                | none => simp only [hd, Res.ok.injEq] at hr1; subst hr1; exact fun _ h => h
                | some l =>
                  simp only [hd] at hr1
                  split at hr1
                  · simp only [Res.ok.injEq] at hr1; subst hr1; exact fun _ h => h
                  · exact (foldRes_done _ (fun k => ih l k) _ _ _ hr1).1
              by_cases hE : w.emptyTarget cx t n.kind = true
              · rw [if_pos hE] at h
                simp only [markDone, Res.ok.injEq] at h; subst h
                exact ⟨by simp, fun x hx => by simp [hL hx]⟩
              rw [if_neg hE] at h
              cases ht : w.target cx t n.kind with
              | none => simp only [ht] at h; cases h
              | some p =>
                obtain ⟨cx', tgt⟩ := p
                simp only [ht] at h
                cases htn' : w.node tgt with
                | none => simp [htn'] at h
                | some tn =>
                  simp only [htn'] at h
                  by_cases hk : tn.kind = n.kind
                  · simp only [hk, ne_eq, not_true_eq_false, if_false] at h
                    cases hres : resolve w fuel cx' tgt s2 with
                    | err _ => simp [hres] at h
                    | outOfFuel => simp [hres] at h
                    | ok s3 =>
                      simp only [hres] at h
                      obtain ⟨s4, hfin, rfl⟩ := markDone_ok'' _ _ _ h
                      have h3 := (ih cx' tgt s2 s3 hres).2
                      have h4 : s3.done ⊆ s4.done := finish_done w _ (fun k => ih _ k) _ _ _ _ _ _ _ _ hfin
                      exact ⟨by simp, fun x hx => by simp [h4 (h3 (hL hx))]⟩
                  · simp [hk] at h

/-! ### the primitive steps keep the invariant -/

theorem settled_mark (w : World) (s : St) (o : Obj) (hs : Settled w s)
    (hk : ∀ n, w.node o = some n → n.ref = none → ∀ k, k ∈ n.kids → k ∈ s.done)
    (hr : ∀ n t, w.node o = some n → n.ref = some t → HasC w s o ∨ (t, o) ∈ s.pending) :
    Settled w { s with done := s.done ++ [o] } where
  val := fun a v h => by simp [hs.val a v h]
  kids := fun a ha n hn hr' k hk' => by
    simp only [List.mem_append, List.mem_singleton] at ha ⊢
    rcases ha with ha | rfl
    · exact Or.inl (hs.kids a ha n hn hr' k hk')
    · exact Or.inl (hk n hn hr' k hk')
  refs := fun a ha n t hn hr' => by
    simp only [List.mem_append, List.mem_singleton] at ha
    rcases ha with ha | rfl
    · exact hs.refs a ha n t hn hr'
    · exact hr n t hn hr'
  pend := hs.pend

theorem presC_markDone (w : World) (o : Obj) (f : St → Res) (hf : PresC w f)
    (hk : ∀ s s', f s = .ok s' → ∀ n, w.node o = some n → n.ref = none → ∀ k, k ∈ n.kids → k ∈ s'.done)
    (hr : ∀ s s', f s = .ok s' → Clean s' → Settled w s' → ∀ n t, w.node o = some n → n.ref = some t → HasC w s' o ∨ (t, o) ∈ s'.pending) :
    PresC w (fun s => markDone o (f s)) := by
  intro s s' h hc
  obtain ⟨s4, h4, rfl⟩ := markDone_ok'' _ _ _ h
  have hc4 : Clean s4 := hc
  obtain ⟨c, i, g, p⟩ := hf s s4 h4 hc4
  refine ⟨c, i, ⟨fun x hx => by simp [g.1 hx], g.2⟩, fun hs => ?_⟩
  exact settled_mark w s4 o (p hs) (hk s s4 h4) (hr s s4 h4 hc4 (p hs))

theorem presC_loadDoc (w : World) (rs : Loc → Nat → St → Res) (hrs : ∀ l k, PresC w (rs l k)) (d : Option Loc) :
    PresC w (loadDoc w rs d) := by
  intro s s' h hc
  unfold loadDoc at h
  cases d with
  | none => simp only [Res.ok.injEq] at h; subst h; exact ⟨hc, rfl, Grow.refl _, id⟩
  | some l =>
    simp only at h
    split at h
    · simp only [Res.ok.injEq] at h; subst h; exact ⟨hc, rfl, Grow.refl _, id⟩
    · obtain ⟨c, i, g, p⟩ := presC_foldRes w (rs l) (hrs l) (w.roots l) _ s' h hc
      exact ⟨c, i, g, fun hs => p ⟨hs.val, hs.kids, hs.refs, hs.pend⟩⟩

theorem filter_eq_of_length (l : List (Text × Obj)) (p : Text × Obj → Bool)
    (h : l.length - (l.filter p).length = 0) : l.filter p = l := by
  have hle := List.length_filter_le p l
  have : (l.filter p).length = l.length := by omega
  exact List.filter_eq_self.2 (List.length_filter_eq_length_iff.1 this)

/-- `unvisitRef` with a value, in a run that stays clean: every callback under the text fits and fires -/
theorem unvisit_settled (w : World) (k : Kind) (t : Text) (tg : Option (Loc × Obj)) (v : Obj) (s s' : St)
    (h : unvisit w k t tg (some v) s = .ok s') (hc : Clean s') :
    Clean s ∧ s'.inprog = s.inprog.erase t ∧ Grow s s' ∧ (Settled w s → v ∈ s.done → Settled w s') := by
  unfold unvisit at h
  simp only [Res.ok.injEq] at h; subst h
  obtain ⟨c1, c2, c3⟩ := hc
  simp only at c1 c2 c3
  have hfit : (s.pending.filter (·.1 = t)).filter (fun p => kindOf w p.2 == some k) = s.pending.filter (·.1 = t) :=
    filter_eq_of_length _ _ (by omega)
  refine ⟨⟨c1, by omega, c3⟩, rfl, ⟨fun _ h => h, fun x hx => by simp [hx]⟩, fun hs hv => ?_⟩
  refine ⟨?_, hs.kids, ?_, ?_⟩
  · intro a b hab
    simp only [List.mem_append, List.mem_map] at hab
    rcases hab with hab | ⟨p, _, hp⟩
    · exact hs.val a b hab
    · simp only [Prod.mk.injEq] at hp; rw [← hp.2]; exact hv
  · intro a ha n t' hn hr
    rcases hs.refs a ha n t' hn hr with hh | hp
    · exact Or.inl (HasC_mono w s _ (fun x hx => by simp [hx]) a hh)
    · by_cases hne : t' = t
      · subst hne
        refine Or.inl (Or.inl ⟨v, ?_⟩)
        simp only [List.mem_append, List.mem_map]
        refine Or.inr ⟨(t', a), ?_, rfl⟩
        rw [hfit]
        simp [hp]
      · refine Or.inr ?_
        simp only [List.mem_filter]
        exact ⟨hp, by simpa using hne⟩
  · intro t' a hp
    simp only [List.mem_filter] at hp
    have hne : t' ≠ t := by simpa using hp.2
    exact (List.mem_erase_of_ne hne).2 (hs.pend t' a hp.1)

theorem presC_finish (w : World) (rs : Nat → St → Res) (hrs : ∀ k, PresC w (rs k))
    (k : Kind) (t : Text) (tg : Option (Loc × Obj)) (o : Obj) (rw : Bool) (v : Option Obj) (s s' : St)
    (h : finish w rs k t tg o rw v s = .ok s') (hc : Clean s') :
    Clean s ∧ s'.inprog = s.inprog.erase t ∧ Grow s s' ∧
      (Settled w s → (∀ v', v = some v' → v' ∈ s.done) → Settled w s' ∧ Has s' o) := by
  unfold finish at h
  cases v with
  | none =>
    exfalso
    unfold unvisit at h
    simp only [Res.ok.injEq] at h; subst h
    have := hc.1; simp at this
  | some v =>
    simp only at h
    cases hf : foldRes rs (if rw = true then ((w.node v).map (·.kids)).getD [] else [])
        { s with value := s.value ++ [(o, v)] } with
    | err _ => simp [hf] at h
    | outOfFuel => simp [hf] at h
    | ok s2 =>
      simp only [hf] at h
      -- the clean-ness of s2 follows from that of s' (unvisit only adds to nskip)
      have hc2 : Clean s2 := by
        unfold unvisit at h
        simp only [Res.ok.injEq] at h; subst h
        obtain ⟨c1, c2, c3⟩ := hc
        simp only at c1 c2 c3
        exact ⟨c1, by omega, c3⟩
      obtain ⟨cf, i_f, gf, pf⟩ := presC_foldRes w rs hrs _ _ s2 hf hc2
      obtain ⟨cu, iu, gu, pu⟩ := unvisit_settled w k t tg v s2 s' h hc
      refine ⟨cf, by rw [iu, i_f], ⟨fun x hx => gu.1 (gf.1 hx), fun x hx => gu.2 (gf.2 (by simp [hx]))⟩, fun hs hv => ?_⟩
      have hvd := hv v rfl
      have hs1 : Settled w { s with value := s.value ++ [(o, v)] } := by
        refine ⟨?_, hs.kids, ?_, hs.pend⟩
        · intro a b hab
          simp only [List.mem_append, List.mem_singleton, Prod.mk.injEq] at hab
          rcases hab with hab | ⟨_, rfl⟩
          · exact hs.val a b hab
          · exact hvd
        · intro a ha n t' hn hr
          rcases hs.refs a ha n t' hn hr with hh | hp
          · exact Or.inl (HasC_mono w s _ (fun x hx => by simp [hx]) a hh)
          · exact Or.inr hp
      exact ⟨pu (pf hs1) (gf.1 hvd), ⟨v, gu.2 (gf.2 (by simp))⟩⟩

theorem erase_append_self (l : List Text) (t : Text) (h : t ∉ l) : (l ++ [t]).erase t = l := by
  rw [List.erase_append_right _ h]; simp

/-- the value `component.Value` receives is an object whose resolver call has returned -/
theorem valueOf_done (w : World) (tgt : Obj) (s : St) (v : Obj) (hs : Settled w s) (ht : tgt ∈ s.done)
    (h : valueOf w tgt s = some v) : v ∈ s.done := by
  unfold valueOf at h
  split at h
  · cases h; exact ht
  · unfold getC at h
    split at h
    · rename_i v1 hg
      cases h
      obtain ⟨v', hv'⟩ := (get_isSome_iff s tgt).1 (by simp [hg])
      -- the first match is what `get` returns; any recorded value is done
      have : (tgt, v) ∈ s.value := by
        unfold St.get at hg
        cases hf : s.value.find? (·.1 = tgt) with
        | none => simp [hf] at hg
        | some p =>
          simp only [hf, Option.map_some, Option.some.injEq] at hg
          have hm := List.mem_of_find?_eq_some hf
          have hp := List.find?_some hf
          obtain ⟨a, b⟩ := p
          simp only [decide_eq_true_eq] at hp
          simp only at hg
          subst hp; subst hg; exact hm
      exact hs.val _ _ this
    · cases hn : w.node tgt with
      | none => simp [hn] at h
      | some n =>
        cases ho : n.orig with
        | none => simp [hn, ho] at h
        | some r =>
          simp only [hn, ho, Option.bind_some] at h
          have : (r, v) ∈ s.value := by
            unfold St.get at h
            cases hf : s.value.find? (·.1 = r) with
            | none => simp [hf] at h
            | some p =>
              simp only [hf, Option.map_some, Option.some.injEq] at h
              have hm := List.mem_of_find?_eq_some hf
              have hp := List.find?_some hf
              obtain ⟨a, b⟩ := p
              simp only [decide_eq_true_eq] at hp
              simp only at h
              subst hp; subst h; exact hm
          exact hs.val _ _ this

/-- Completeness invariant of the whole resolution, by induction on fuel. -/
theorem resolve_presC (w : World) : ∀ fuel cx o, PresC w (resolve w fuel cx o) := by
  intro fuel
  induction fuel with
  | zero => intro cx o s s' h; simp [resolve] at h
  | succ fuel ih =>
    intro cx o s s' h hc
    simp only [resolve] at h
    cases hn : w.node o with
    | none => simp [hn] at h
    | some n =>
      simp only [hn] at h
      cases hr : n.ref with
      | none =>
        simp only [hr] at h
        refine presC_markDone w o (fun s => foldRes (fun k s => resolve w fuel cx k s) n.kids s)
          (presC_foldRes w _ (fun k => ih cx k) _) ?_ ?_ s s' h hc
        · intro s1 s2 h12 n' hn' _ k hk
          rw [hn] at hn'; cases hn'
          exact (foldRes_done _ (fun k => resolve_marks w fuel cx k) _ _ _ h12).2 k hk
        · intro s1 s2 _ _ _ n' t hn' hr'
          rw [hn] at hn'; cases hn'; rw [hr] at hr'; cases hr'
      | some t =>
        simp only [hr] at h
        by_cases h1 : (getC w s o).isSome = true
        · rw [if_pos h1] at h
          obtain ⟨s4, h4, rfl⟩ := markDone_ok'' _ _ _ h
          cases h4
          refine ⟨hc, rfl, ⟨fun x hx => by simp [hx], fun _ h => h⟩, fun hs => ?_⟩
          refine settled_mark w s o hs ?_ ?_
          · intro n' hn' hr'; rw [hn] at hn'; cases hn'; rw [hr] at hr'; cases hr'
          · intro n' t' _ _; exact Or.inl ((getC_isSome_iff w s o).1 h1)
        · rw [if_neg h1] at h
          by_cases h2 : s.inprog.contains t = true
          · rw [if_pos h2] at h
            obtain ⟨s4, h4, rfl⟩ := markDone_ok'' _ _ _ h
            cases h4
            refine ⟨hc, rfl, ⟨fun x hx => by simp [hx], fun _ h => h⟩, fun hs => ?_⟩
            have hs4 : Settled w { s with pending := s.pending ++ [(t, o)], nback := s.nback + 1 } := by
              refine ⟨hs.val, hs.kids, ?_, ?_⟩
              · intro a ha n' t' hn' hr'
                rcases hs.refs a ha n' t' hn' hr' with hh | hp
                · exact Or.inl hh
                · exact Or.inr (by simp [hp])
              · intro t' a hp
                simp only [List.mem_append, List.mem_singleton, Prod.mk.injEq] at hp
                rcases hp with hp | ⟨rfl, rfl⟩
                · exact hs.pend t' a hp
                · simpa [List.contains_iff_mem] using h2
            refine settled_mark w _ o hs4 ?_ ?_
            · intro n' hn' hr'; rw [hn] at hn'; cases hn'; rw [hr] at hr'; cases hr'
            · intro n' t' hn' hr'
              rw [hn] at hn'; cases hn'; rw [hr] at hr'; cases hr'
              exact Or.inr (by simp)
          · rw [if_neg h2] at h
            have htn : t ∉ s.inprog := by
              intro hcn; apply h2; simpa [List.contains_iff_mem] using hcn
            cases hr1 : loadDoc w (fun l k s => resolve w fuel l k s) (w.docOf cx t)
                { s with inprog := s.inprog ++ [t], foreign := s.foreign || (cx != n.home) } with
            | err _ => simp [hr1] at h
            | outOfFuel => simp [hr1] at h
            | ok s2 =>
              simp only [hr1] at h
              by_cases hE : w.emptyTarget cx t n.kind = true
              · rw [if_pos hE] at h
                simp only [markDone, Res.ok.injEq] at h; subst h
                exfalso
                have := hc.2.2; simp at this
              rw [if_neg hE] at h
              cases ht : w.target cx t n.kind with
              | none => simp only [ht] at h; cases h
              | some p =>
                obtain ⟨cx', tgt⟩ := p
                simp only [ht] at h
                cases htn' : w.node tgt with
                | none => simp [htn'] at h
                | some tn =>
                  simp only [htn'] at h
                  by_cases hk : tn.kind = n.kind
                  · simp only [hk, ne_eq, not_true_eq_false, if_false] at h
                    cases hres : resolve w fuel cx' tgt s2 with
                    | err _ => simp [hres] at h
                    | outOfFuel => simp [hres] at h
                    | ok s3 =>
                      simp only [hres] at h
                      obtain ⟨s4, hfin, rfl⟩ := markDone_ok'' _ _ _ h
                      have hc4 : Clean s4 := hc
                      obtain ⟨c3, i4, g4, p4⟩ := presC_finish w _ (fun k => ih _ k) n.kind t _ o _ _ s3 s4 hfin hc4
                      obtain ⟨c2, i3, g3, p3⟩ := ih cx' tgt s2 s3 hres c3
                      obtain ⟨c1, i2, g2, p2⟩ := presC_loadDoc w _ (fun l k => ih l k) _ _ s2 hr1 c2
                      have htd : tgt ∈ s3.done := (resolve_marks w fuel cx' tgt s2 s3 hres).1
                      refine ⟨c1, ?_, ⟨fun x hx => by simp [g4.1 (g3.1 (g2.1 hx))], fun x hx => g4.2 (g3.2 (g2.2 hx))⟩, fun hs => ?_⟩
                      · show s4.inprog = s.inprog
                        rw [i4, i3, i2]
                        exact erase_append_self _ _ htn
                      · have hs1 : Settled w { s with inprog := s.inprog ++ [t], foreign := s.foreign || (cx != n.home) } :=
                          ⟨hs.val, hs.kids, hs.refs, fun t' a hp => by simp [hs.pend t' a hp]⟩
                        have hs3 := p3 (p2 hs1)
                        obtain ⟨hs4, hhas⟩ := p4 hs3 (fun v' hv' => valueOf_done w tgt s3 v' hs3 htd hv')
                        refine settled_mark w s4 o hs4 ?_ ?_
                        · intro n' hn' hr'; rw [hn] at hn'; cases hn'; rw [hr] at hr'; cases hr'
                        · intro n' t' _ _; exact Or.inl (Or.inl hhas)
                  · simp [hk] at h

/-- the objects of the loaded graph have all been through a resolver call that returned -/
theorem reach_done (w : World) (s : St) (root : Loc) (hs : Settled w s) (hroots : ∀ r, r ∈ w.roots root → r ∈ s.done) :
    ∀ o, Reach w s root o → o ∈ s.done := by
  intro o h
  induction h with
  | root hr => exact hroots _ hr
  | kid _ hn hr hk ih => exact hs.kids _ ih _ hn hr _ hk
  | @val o' v _ hg _ =>
    have : (o', v) ∈ s.value := by
      unfold St.get at hg
      cases hf : s.value.find? (·.1 = o') with
      | none => simp [hf] at hg
      | some p =>
        simp only [hf, Option.map_some, Option.some.injEq] at hg
        have hm := List.mem_of_find?_eq_some hf
        have hp := List.find?_some hf
        obtain ⟨a, b⟩ := p
        simp only [decide_eq_true_eq] at hp
        simp only at hg
        subst hp; subst hg; exact hm
    exact hs.val _ _ this

end KinModel.Loader
