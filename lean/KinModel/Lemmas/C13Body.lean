/- Helper lemmas for the value layer of C13 (KinModel/C13Body.lean). -/
import KinModel.C13Body
namespace KinModel.C13.Body

/-- structural induction over the nested schema type, with the list hypotheses in `∀ x ∈ l` form -/
theorem S.induct (P : S → Prop)
    (leaf : ∀ a ty, P (.leaf a ty))
    (obj : ∀ a req props addl, (∀ p ∈ props, P p.2) → P (.obj a req props addl))
    (arr : ∀ a items, P items → P (.arr a items))
    (comb : ∀ a k bs, (∀ b ∈ bs, P b) → P (.comb a k bs)) : ∀ s, P s := by
  intro s
  refine S.rec (motive_1 := P) (motive_2 := fun ps => ∀ p ∈ ps, P p.2) (motive_3 := fun bs => ∀ b ∈ bs, P b)
    (motive_4 := fun p => P p.2) ?_ ?_ ?_ ?_ ?_ ?_ ?_ ?_ ?_ s
  · exact leaf
  · intro a req props addl ih; exact obj a req props addl ih
  · intro a items ih; exact arr a items ih
  · intro a k bs ih; exact comb a k bs ih
  · intro p hp; cases hp
  · intro hd tl h1 h2 p hp
    cases hp with
    | head => exact h1
    | tail _ h => exact h2 p h
  · intro b hb; cases hb
  · intro hd tl h1 h2 b hb
    cases hb with
    | head => exact h1
    | tail _ h => exact h2 b h
  · intro k s h; exact h

/-! ### association lists -/

theorem lookup_setKey_same (k : String) (v : J) (kvs : List (String × J)) : lookup k (setKey k v kvs) = some v := by
  induction kvs with
  | nil => simp [setKey, lookup]
  | cons kv r ih =>
    obtain ⟨k', v'⟩ := kv
    simp only [setKey]
    split
    · simp [lookup]
    · rename_i h; simp [lookup, h, ih]

theorem lookup_setKey_other (k k' : String) (v : J) (kvs : List (String × J)) (h : k' ≠ k) :
    lookup k' (setKey k v kvs) = lookup k' kvs := by
  induction kvs with
  | nil => simp [setKey, lookup, h]
  | cons kv r ih =>
    obtain ⟨k2, v2⟩ := kv
    simp only [setKey]
    split
    · rename_i e; subst e; simp [lookup, h]
    · simp only [lookup]; split <;> simp_all

theorem setKey_noop (k : String) (v : J) (kvs : List (String × J)) (h : lookup k kvs = some v) : setKey k v kvs = kvs := by
  induction kvs with
  | nil => simp [lookup] at h
  | cons kv r ih =>
    obtain ⟨k', v'⟩ := kv
    simp only [lookup] at h
    simp only [setKey]
    split at h
    · rename_i e; subst e; cases h; simp
    · rename_i e; simp [e, ih h]

/-! ### the list helpers of `visit` -/

theorem pick_mem (k : Kind) (ms : List J) (x : J) (h : pick k ms = some x) : x ∈ ms := by
  unfold pick at h
  split at h
  · cases h; simp
  · cases h; simp
  · cases h

theorem mem_visitMatches (c : Ctx) (v x : J) : ∀ (bs : List S), x ∈ visitMatches c bs v ↔ ∃ b ∈ bs, visit c b v = some x
  | [] => by simp [visitMatches]
  | b :: bs => by
    simp only [visitMatches, List.mem_append, mem_visitMatches c v x bs, List.mem_cons, exists_eq_or_imp]
    cases hb : visit c b v <;> simp [hb, eq_comm]

/-- pointwise relation of two lists of the same length -/
inductive All2 (R : J → J → Prop) : List J → List J → Prop
  | nil : All2 R [] []
  | cons {x y xs ys} : R x y → All2 R xs ys → All2 R (x :: xs) (y :: ys)

/-- a relation on JSON values that every step of `visit` respects -/
structure RelOK (c : Ctx) (R : J → J → Prop) : Prop where
  refl : ∀ v, R v v
  trans : ∀ a b d, R a b → R b d → R a d
  arr : ∀ xs ys, All2 R xs ys → R (.arr xs) (.arr ys)
  set : ∀ k x x' kvs, lookup k kvs = some x → R x x' → R (.obj kvs) (.obj (setKey k x' kvs))
  pre : ∀ req props addl kvs kvs1, objPre c req props addl kvs = some kvs1 → R (.obj kvs) (.obj kvs1)

theorem mapOpt_rel {R : J → J → Prop} (f : J → Option J) (hf : ∀ x y, f x = some y → R x y) :
    ∀ (xs ys : List J), mapOpt f xs = some ys → All2 R xs ys
  | [], ys, h => by simp [mapOpt] at h; subst h; exact .nil
  | x :: xs, ys, h => by
    simp only [mapOpt] at h
    cases hx : f x with
    | none => simp [hx] at h
    | some y =>
      cases hxs : mapOpt f xs with
      | none => simp [hx, hxs] at h
      | some ys' =>
        simp [hx, hxs] at h; subst h
        exact .cons (hf x y hx) (mapOpt_rel f hf xs ys' hxs)

theorem visitProps_rel {c : Ctx} {R : J → J → Prop} (hR : RelOK c R) :
    ∀ (ps : List (String × S)), (∀ p ∈ ps, ∀ x x', visit c p.2 x = some x' → R x x') →
    ∀ kvs kvs', visitProps c ps kvs = some kvs' → R (.obj kvs) (.obj kvs')
  | [], _, kvs, kvs', h => by simp [visitProps] at h; subst h; exact hR.refl _
  | (k, s) :: ps, hp, kvs, kvs', h => by
    have hps : ∀ p ∈ ps, ∀ x x', visit c p.2 x = some x' → R x x' := fun p hm => hp p (by simp [hm])
    simp only [visitProps] at h
    cases hl : lookup k kvs with
    | none => simp only [hl] at h; exact visitProps_rel hR ps hps kvs kvs' h
    | some x =>
      simp only [hl] at h
      cases hv : visit c s x with
      | none => simp [hv] at h
      | some x' =>
        simp only [hv, Option.bind_some] at h
        exact hR.trans _ _ _ (hR.set k x x' kvs hl (hp (k, s) (by simp) x x' hv))
          (visitProps_rel hR ps hps _ kvs' h)

theorem visitAll_rel {c : Ctx} {R : J → J → Prop} (hR : RelOK c R) :
    ∀ (bs : List S), (∀ b ∈ bs, ∀ x x', visit c b x = some x' → R x x') →
    ∀ v v', visitAll c bs v = some v' → R v v'
  | [], _, v, v', h => by simp [visitAll] at h; subst h; exact hR.refl _
  | b :: bs, hb, v, v', h => by
    simp only [visitAll] at h
    cases hv : visit c b v with
    | none => simp [hv] at h
    | some v1 =>
      simp only [hv, Option.bind_some] at h
      exact hR.trans _ _ _ (hb b (by simp) v v1 hv) (visitAll_rel hR bs (fun b' hm => hb b' (by simp [hm])) v1 v' h)

/-! ### unfolding `visit` one constructor at a time (propositional: `rw`, never definitional unfolding) -/

theorem visit_leaf (c : Ctx) (a : Attr) (ty : Ty) (v : J) :
    visit c (.leaf a ty) v =
      (if v.isNull then (if a.nullable then some v else none) else if leafOK ty v then some v else none) := by
  rw [visit.eq_def]

theorem visit_obj_obj (c : Ctx) (a : Attr) (req props addl kvs) :
    visit c (.obj a req props addl) (.obj kvs) =
      (objPre c req props addl kvs).bind (fun kvs1 => (visitProps c props kvs1).map J.obj) := by
  rw [visit.eq_def]

theorem visit_obj_null (c : Ctx) (a : Attr) (req props addl) :
    visit c (.obj a req props addl) .null = if a.nullable then some .null else none := by
  rw [visit.eq_def]

theorem visit_obj_other (c : Ctx) (a : Attr) (req props addl) (v : J) (h1 : v.isNull = false)
    (h2 : ∀ kvs, v ≠ .obj kvs) : visit c (.obj a req props addl) v = none := by
  cases v with
  | null => simp [J.isNull] at h1
  | obj kvs => exact absurd rfl (h2 kvs)
  | bool b => rw [visit.eq_def]
  | num n => rw [visit.eq_def]
  | str t => rw [visit.eq_def]
  | arr xs => rw [visit.eq_def]

theorem visit_arr_arr (c : Ctx) (a : Attr) (items xs) :
    visit c (.arr a items) (.arr xs) = (mapOpt (fun x => visit c items x) xs).map J.arr := by
  rw [visit.eq_def]

theorem visit_arr_null (c : Ctx) (a : Attr) (items) :
    visit c (.arr a items) .null = if a.nullable then some .null else none := by
  rw [visit.eq_def]

theorem visit_arr_other (c : Ctx) (a : Attr) (items) (v : J) (h1 : v.isNull = false)
    (h2 : ∀ xs, v ≠ .arr xs) : visit c (.arr a items) v = none := by
  cases v with
  | null => simp [J.isNull] at h1
  | arr xs => exact absurd rfl (h2 xs)
  | bool b => rw [visit.eq_def]
  | num n => rw [visit.eq_def]
  | str t => rw [visit.eq_def]
  | obj kvs => rw [visit.eq_def]

theorem visit_comb (c : Ctx) (a : Attr) (k : Kind) (bs : List S) (v : J) :
    visit c (.comb a k bs) v = combRes a k bs.isEmpty v (visitAll c bs v) (visitMatches c bs v) := by
  rw [visit.eq_def]

/-- the three ways a composition node answers `some` -/
theorem combRes_some {a : Attr} {k : Kind} {e : Bool} {v v' : J} {all : Option J} {ms : List J}
    (h : combRes a k e v all ms = some v') :
    v' = v ∨ (e = false ∧ k = .allOf ∧ all = some v') ∨ (e = false ∧ k ≠ .allOf ∧ pick k ms = some v') := by
  unfold combRes at h
  split at h
  · cases h; exact Or.inl rfl
  · split at h
    · split at h
      · cases h
      · cases h; exact Or.inl rfl
    · rename_i he
      have he' : e = false := by cases e <;> simp_all
      cases k with
      | allOf => exact Or.inr (Or.inl ⟨he', rfl, h⟩)
      | oneOf => exact Or.inr (Or.inr ⟨he', by simp, h⟩)
      | anyOf => exact Or.inr (Or.inr ⟨he', by simp, h⟩)

/-- whatever relation every elementary step respects relates the value before and after an accepted visit -/
theorem visit_rel {c : Ctx} {R : J → J → Prop} (hR : RelOK c R) : ∀ s v v', visit c s v = some v' → R v v' := by
  intro s
  induction s using S.induct with
  | leaf a ty =>
    intro v v' h
    rw [visit_leaf] at h
    split at h
    · split at h
      · cases h; exact hR.refl _
      · cases h
    · split at h
      · cases h; exact hR.refl _
      · cases h
  | obj a req props addl ih =>
    intro v v' h
    cases v with
    | obj kvs =>
      rw [visit_obj_obj] at h
      cases hp : objPre c req props addl kvs with
      | none => simp [hp] at h
      | some kvs1 =>
        simp only [hp, Option.bind_some] at h
        cases hv : visitProps c props kvs1 with
        | none => simp [hv] at h
        | some kvs' =>
          simp [hv] at h; subst h
          exact hR.trans _ _ _ (hR.pre req props addl kvs kvs1 hp) (visitProps_rel hR props ih kvs1 kvs' hv)
    | null => rw [visit_obj_null] at h; split at h <;> cases h; exact hR.refl _
    | bool b => rw [visit_obj_other _ _ _ _ _ _ rfl (by simp)] at h; cases h
    | num n => rw [visit_obj_other _ _ _ _ _ _ rfl (by simp)] at h; cases h
    | str t => rw [visit_obj_other _ _ _ _ _ _ rfl (by simp)] at h; cases h
    | arr xs => rw [visit_obj_other _ _ _ _ _ _ rfl (by simp)] at h; cases h
  | arr a items ih =>
    intro v v' h
    cases v with
    | arr xs =>
      rw [visit_arr_arr] at h
      cases hm : mapOpt (fun x => visit c items x) xs with
      | none => simp [hm] at h
      | some ys =>
        simp [hm] at h; subst h
        exact hR.arr _ _ (mapOpt_rel _ (fun x y hxy => ih x y hxy) xs ys hm)
    | null => rw [visit_arr_null] at h; split at h <;> cases h; exact hR.refl _
    | bool b => rw [visit_arr_other _ _ _ _ rfl (by simp)] at h; cases h
    | num n => rw [visit_arr_other _ _ _ _ rfl (by simp)] at h; cases h
    | str t => rw [visit_arr_other _ _ _ _ rfl (by simp)] at h; cases h
    | obj kvs => rw [visit_arr_other _ _ _ _ rfl (by simp)] at h; cases h
  | comb a k bs ih =>
    intro v v' h
    rw [visit_comb] at h
    rcases combRes_some h with rfl | ⟨_, _, hall⟩ | ⟨_, _, hp⟩
    · exact hR.refl _
    · exact visitAll_rel hR bs ih v v' hall
    · obtain ⟨b', hb', hv⟩ := (mem_visitMatches c v v' bs).mp (pick_mem _ _ _ hp)
      exact ih b' hb' v v' hv

/-! ### instances of `visit_rel` -/

theorem all2_eq : ∀ (xs ys : List J), All2 Eq xs ys → xs = ys
  | _, _, .nil => rfl
  | _, _, .cons h t => by rw [h, all2_eq _ _ t]

theorem objPre_some (c : Ctx) (req props addl kvs kvs1) (hp : objPre c req props addl kvs = some kvs1) :
    kvs1 = defaulted c props kvs ∧ objChecks c req props addl kvs1 = true := by
  unfold objPre at hp
  split at hp
  · cases hp; rename_i h; exact ⟨rfl, h⟩
  · cases hp

theorem objPre_skip (c : Ctx) (h : c.setDefaults = false) (req props addl kvs kvs1)
    (hp : objPre c req props addl kvs = some kvs1) : kvs1 = kvs := by
  rw [(objPre_some c req props addl kvs kvs1 hp).1]; simp [defaulted, h]

theorem relOK_eq_of_skip (c : Ctx) (h : c.setDefaults = false) : RelOK c Eq where
  refl _ := rfl
  trans _ _ _ h1 h2 := h1.trans h2
  arr xs ys h := by rw [all2_eq xs ys h]
  set k x x' kvs hl hx := by subst hx; rw [setKey_noop k x kvs hl]
  pre req props addl kvs kvs1 hp := by rw [objPre_skip c h req props addl kvs kvs1 hp]

def sameNull (v v' : J) : Prop := v'.isNull = v.isNull

theorem relOK_sameNull (c : Ctx) : RelOK c sameNull where
  refl _ := rfl
  trans _ _ _ h1 h2 := by unfold sameNull at *; rw [h2, h1]
  arr _ _ _ := rfl
  set _ _ _ _ _ _ := rfl
  pre _ _ _ _ _ _ := rfl

/-- an accepted visit never turns null into a value or a value into null -/
theorem visit_isNull (c : Ctx) (s : S) (v v' : J) (h : visit c s v = some v') : v'.isNull = v.isNull :=
  visit_rel (relOK_sameNull c) s v v' h

/-! ### idempotence without compositions -/

/-- what the object-level steps look at: the keys and which members are null -/
def shape (kvs : List (String × J)) : List (String × Bool) := kvs.map (fun kv => (kv.1, kv.2.isNull))

theorem lookup_shape (k : String) (kvs : List (String × J)) : lookup k (shape kvs) = (lookup k kvs).map J.isNull := by
  induction kvs with
  | nil => simp [shape, lookup]
  | cons kv r ih =>
    obtain ⟨k', v⟩ := kv
    simp only [shape, List.map_cons, lookup] at *
    split <;> simp_all

theorem shape_setKey (k : String) (x x' : J) (kvs : List (String × J)) (hl : lookup k kvs = some x)
    (hn : x'.isNull = x.isNull) : shape (setKey k x' kvs) = shape kvs := by
  induction kvs with
  | nil => simp [lookup] at hl
  | cons kv r ih =>
    obtain ⟨k', v⟩ := kv
    simp only [lookup] at hl
    simp only [setKey]
    split at hl
    · rename_i e; cases hl; subst e; simp [shape, hn]
    · rename_i e; simp only [e, ↓reduceIte]; simp only [shape, List.map_cons] at *; rw [ih hl]

theorem visitProps_shape (c : Ctx) : ∀ (ps : List (String × S)) (kvs kvs' : List (String × J)),
    visitProps c ps kvs = some kvs' → shape kvs' = shape kvs
  | [], kvs, kvs', h => by simp [visitProps] at h; rw [h]
  | (k, s) :: ps, kvs, kvs', h => by
    simp only [visitProps] at h
    cases hl : lookup k kvs with
    | none => simp only [hl] at h; exact visitProps_shape c ps kvs kvs' h
    | some x =>
      simp only [hl] at h
      cases hv : visit c s x with
      | none => simp [hv] at h
      | some x' =>
        simp only [hv, Option.bind_some] at h
        rw [visitProps_shape c ps _ kvs' h, shape_setKey k x x' kvs hl (visit_isNull c s x x' hv)]

theorem visitProps_lookup_other (c : Ctx) (k : String) : ∀ (ps : List (String × S)) (kvs kvs' : List (String × J)),
    (ps.map (·.1)).contains k = false → visitProps c ps kvs = some kvs' → lookup k kvs' = lookup k kvs
  | [], kvs, kvs', _, h => by simp [visitProps] at h; rw [h]
  | (k2, s) :: ps, kvs, kvs', hk, h => by
    simp only [List.map_cons, List.contains_cons, Bool.or_eq_false_iff] at hk
    have hne : k ≠ k2 := by intro e; simp [e] at hk
    simp only [visitProps] at h
    cases hl : lookup k2 kvs with
    | none => simp only [hl] at h; exact visitProps_lookup_other c k ps kvs kvs' hk.2 h
    | some x =>
      simp only [hl] at h
      cases hv : visit c s x with
      | none => simp [hv] at h
      | some x' =>
        simp only [hv, Option.bind_some] at h
        rw [visitProps_lookup_other c k ps _ kvs' hk.2 h, lookup_setKey_other k2 k x' kvs hne]

/-- emptiness of a property slot is a matter of shape -/
theorem slotEmpty_shape (_c : Ctx) (k : String) (kvs kvs' : List (String × J)) (h : shape kvs' = shape kvs) :
    slotEmpty (lookup k kvs') = slotEmpty (lookup k kvs) := by
  have h1 := lookup_shape k kvs
  have h2 := lookup_shape k kvs'
  rw [h] at h2
  rw [h1] at h2
  cases ha : lookup k kvs <;> cases hb : lookup k kvs' <;> simp [ha, hb] at h2
  · rfl
  · rename_i x y
    cases x <;> cases y <;> simp_all [slotEmpty, J.isNull]

theorem roViolation_shape (c : Ctx) (props : List (String × S)) (kvs kvs' : List (String × J))
    (h : shape kvs' = shape kvs) : roViolation c props kvs' = roViolation c props kvs := by
  unfold roViolation
  congr 1
  funext p
  have h1 := lookup_shape p.1 kvs
  have h2 := lookup_shape p.1 kvs'
  rw [h, h1] at h2
  cases ha : lookup p.1 kvs <;> cases hb : lookup p.1 kvs' <;> simp_all

theorem addlOK_shape (addl : Bool) (props : List (String × S)) (kvs kvs' : List (String × J))
    (h : shape kvs' = shape kvs) : addlOK addl props kvs' = addlOK addl props kvs := by
  have hk : kvs'.map (·.1) = kvs.map (·.1) := by
    have := congrArg (List.map (·.1)) h
    simpa [shape, List.map_map, Function.comp_def] using this
  have e : ∀ l : List (String × J), addlOK addl props l = (l.map (·.1)).all (fun k => addl || (lookup k props).isSome) := by
    intro l; simp [addlOK, List.all_map, Function.comp_def]
  rw [e, e, hk]

theorem requiredOK_shape (req : List String) (props : List (String × S)) (kvs kvs' : List (String × J))
    (h : shape kvs' = shape kvs) : requiredOK req props kvs' = requiredOK req props kvs := by
  unfold requiredOK
  congr 1
  funext k
  have h1 := lookup_shape k kvs
  have h2 := lookup_shape k kvs'
  rw [h, h1] at h2
  cases ha : lookup k kvs <;> cases hb : lookup k kvs' <;> simp_all

theorem objChecks_shape (c : Ctx) (req props addl) (kvs kvs' : List (String × J)) (h : shape kvs' = shape kvs) :
    objChecks c req props addl kvs' = objChecks c req props addl kvs := by
  unfold objChecks
  rw [roViolation_shape c props kvs kvs' h, addlOK_shape addl props kvs kvs' h, requiredOK_shape req props kvs kvs' h]

/-- every property that could still receive a default has a non-empty slot -/
def Settled (c : Ctx) (ps : List (String × S)) (kvs : List (String × J)) : Prop :=
  ∀ p ∈ ps, slotEmpty (lookup p.1 kvs) = true → dfltFor c p.2.attr = none

theorem dfltFor_nonNull (c : Ctx) (a : Attr) (d : J) (h : dfltFor c a = some d) : d.isNull = false := by
  unfold dfltFor at h
  split at h
  · split at h
    · cases h
    · cases h; rename_i hh; simp at hh; exact hh.1
  · cases h

theorem slot_after_set (_c : Ctx) (k k' : String) (d : J) (kvs : List (String × J)) (hd : d.isNull = false)
    (h : slotEmpty (lookup k' kvs) = false) : slotEmpty (lookup k' (setKey k d kvs)) = false := by
  by_cases e : k' = k
  · subst e; rw [lookup_setKey_same]; cases d <;> simp_all [slotEmpty, J.isNull]
  · rw [lookup_setKey_other k k' d kvs e]; exact h

theorem injectStep_slot_mono (c : Ctx) (k k' : String) (a : Attr) (kvs : List (String × J))
    (h : slotEmpty (lookup k' kvs) = false) : slotEmpty (lookup k' (injectStep c k a kvs)) = false := by
  unfold injectStep
  split
  · split
    · rename_i d hd; exact slot_after_set c k k' d kvs (dfltFor_nonNull c _ d hd) h
    · exact h
  · exact h

theorem injectStep_fills (c : Ctx) (k : String) (a : Attr) (d : J) (kvs : List (String × J))
    (hd : dfltFor c a = some d) : slotEmpty (lookup k (injectStep c k a kvs)) = false := by
  unfold injectStep
  cases he : slotEmpty (lookup k kvs) with
  | false => simpa using he
  | true =>
    simp only [↓reduceIte, hd]
    rw [lookup_setKey_same]
    have := dfltFor_nonNull c _ d hd
    cases d <;> simp_all [slotEmpty, J.isNull]

theorem injectStep_noop (c : Ctx) (k : String) (a : Attr) (kvs : List (String × J))
    (h : slotEmpty (lookup k kvs) = true → dfltFor c a = none) : injectStep c k a kvs = kvs := by
  unfold injectStep
  cases he : slotEmpty (lookup k kvs) with
  | false => simp
  | true => simp [h he]

theorem injectDefaults_slot_mono (c : Ctx) (k' : String) : ∀ (ps : List (String × S)) (kvs : List (String × J)),
    slotEmpty (lookup k' kvs) = false → slotEmpty (lookup k' (injectDefaults c ps kvs)) = false
  | [], kvs, h => by simpa [injectDefaults] using h
  | (k, s) :: ps, kvs, h => by
    simp only [injectDefaults]
    exact injectDefaults_slot_mono c k' ps _ (injectStep_slot_mono c k k' s.attr kvs h)

theorem injectDefaults_settled (c : Ctx) : ∀ (ps : List (String × S)) (kvs : List (String × J)),
    Settled c ps (injectDefaults c ps kvs)
  | [], _ => by intro p hp; cases hp
  | (k, s) :: ps, kvs => by
    intro p hp hs
    simp only [injectDefaults] at hs ⊢
    cases hp with
    | tail _ hm => exact injectDefaults_settled c ps _ p hm hs
    | head =>
      cases hd : dfltFor c s.attr with
      | none => rfl
      | some d =>
        exfalso
        have := injectDefaults_slot_mono c k ps _ (injectStep_fills c k s.attr d kvs hd)
        simp only at hs
        rw [this] at hs
        cases hs

theorem injectDefaults_noop (c : Ctx) : ∀ (ps : List (String × S)) (kvs : List (String × J)),
    Settled c ps kvs → injectDefaults c ps kvs = kvs
  | [], _, _ => rfl
  | (k, s) :: ps, kvs, h => by
    have hrest : Settled c ps kvs := fun p hp => h p (by simp [hp])
    simp only [injectDefaults]
    rw [injectStep_noop c k s.attr kvs (h (k, s) (by simp))]
    exact injectDefaults_noop c ps kvs hrest

theorem settled_shape (c : Ctx) (ps : List (String × S)) (kvs kvs' : List (String × J)) (h : shape kvs' = shape kvs)
    (hs : Settled c ps kvs) : Settled c ps kvs' := by
  intro p hp he
  rw [slotEmpty_shape c p.1 kvs kvs' h] at he
  exact hs p hp he

theorem defaulted_idem (c : Ctx) (ps : List (String × S)) (kvs kvs' : List (String × J))
    (h : shape kvs' = shape (defaulted c ps kvs)) : defaulted c ps kvs' = kvs' := by
  unfold defaulted at *
  cases hc : c.setDefaults with
  | false => simp
  | true =>
    simp only [hc, ↓reduceIte] at h ⊢
    exact injectDefaults_noop c ps kvs' (settled_shape c ps _ kvs' h (injectDefaults_settled c ps kvs))

theorem mapOpt_idem (f : J → Option J) (hf : ∀ x y, f x = some y → f y = some y) :
    ∀ (xs ys : List J), mapOpt f xs = some ys → mapOpt f ys = some ys
  | [], ys, h => by simp [mapOpt] at h; subst h; rfl
  | x :: xs, ys, h => by
    simp only [mapOpt] at h
    cases hx : f x with
    | none => simp [hx] at h
    | some y =>
      cases hxs : mapOpt f xs with
      | none => simp [hx, hxs] at h
      | some ys' =>
        simp [hx, hxs] at h; subst h
        simp [mapOpt, hf x y hx, mapOpt_idem f hf xs ys' hxs]

theorem visitProps_idem (c : Ctx) : ∀ (ps : List (String × S)),
    (∀ p ∈ ps, ∀ x x', visit c p.2 x = some x' → visit c p.2 x' = some x') → keysNodup (ps.map (·.1)) = true →
    ∀ kvs kvs', visitProps c ps kvs = some kvs' → visitProps c ps kvs' = some kvs'
  | [], _, _, kvs, kvs', h => by simp [visitProps]
  | (k, s) :: ps, hp, hn, kvs, kvs', h => by
    have hps : ∀ p ∈ ps, ∀ x x', visit c p.2 x = some x' → visit c p.2 x' = some x' := fun p hm => hp p (by simp [hm])
    simp only [List.map_cons, keysNodup, Bool.and_eq_true, Bool.not_eq_true'] at hn
    have hsh := visitProps_shape c _ kvs kvs' h
    simp only [visitProps] at h ⊢
    cases hl : lookup k kvs with
    | none =>
      simp only [hl] at h
      have : lookup k kvs' = none := by
        have h1 := lookup_shape k kvs; have h2 := lookup_shape k kvs'
        rw [hsh, h1, hl] at h2
        cases hb : lookup k kvs' <;> simp_all
      simp only [this]
      exact visitProps_idem c ps hps hn.2 kvs kvs' h
    | some x =>
      simp only [hl] at h
      cases hv : visit c s x with
      | none => simp [hv] at h
      | some x' =>
        simp only [hv, Option.bind_some] at h
        have hk : lookup k kvs' = some x' := by
          rw [visitProps_lookup_other c k ps _ kvs' hn.1 h, lookup_setKey_same]
        simp only [hk, hp (k, s) (by simp) x x' hv, Option.bind_some, setKey_noop k x' kvs' hk]
        exact visitProps_idem c ps hps hn.2 _ kvs' h

theorem hasCombProps_false : ∀ (ps : List (String × S)), hasCombProps ps = false → ∀ p ∈ ps, hasComb p.2 = false
  | [], _, p, hp => by cases hp
  | (k, s) :: ps, h, p, hp => by
    simp only [hasCombProps, Bool.or_eq_false_iff] at h
    cases hp with
    | head => exact h.1
    | tail _ hm => exact hasCombProps_false ps h.2 p hm

theorem wfProps_true : ∀ (ps : List (String × S)), wfProps ps = true → ∀ p ∈ ps, wf p.2 = true
  | [], _, p, hp => by cases hp
  | (k, s) :: ps, h, p, hp => by
    simp only [wfProps, Bool.and_eq_true] at h
    cases hp with
    | head => exact h.1
    | tail _ hm => exact wfProps_true ps h.2 p hm

theorem wfList_true : ∀ (bs : List S), wfList bs = true → ∀ b ∈ bs, wf b = true
  | [], _, b, hb => by cases hb
  | s :: bs, h, b, hb => by
    simp only [wfList, Bool.and_eq_true] at h
    cases hb with
    | head => exact h.1
    | tail _ hm => exact wfList_true bs h.2 b hm

/-- the object step is idempotent as soon as the property schemas are -/
theorem visit_obj_idem (c : Ctx) (a : Attr) (req : List String) (props : List (String × S)) (addl : Bool)
    (hp : ∀ p ∈ props, ∀ x x', visit c p.2 x = some x' → visit c p.2 x' = some x')
    (hn : keysNodup (props.map (·.1)) = true) (v v' : J)
    (h : visit c (.obj a req props addl) v = some v') : visit c (.obj a req props addl) v' = some v' := by
  cases v with
  | obj kvs =>
    rw [visit_obj_obj] at h
    cases hpre : objPre c req props addl kvs with
    | none => simp [hpre] at h
    | some kvs1 =>
      simp only [hpre, Option.bind_some] at h
      cases hv : visitProps c props kvs1 with
      | none => simp [hv] at h
      | some kvs' =>
        simp [hv] at h; subst h
        obtain ⟨e1, e2⟩ := objPre_some c req props addl kvs kvs1 hpre
        have hsh := visitProps_shape c props kvs1 kvs' hv
        have hd : defaulted c props kvs' = kvs' := defaulted_idem c props kvs kvs' (by rw [hsh, e1])
        have hc : objChecks c req props addl kvs' = true := by rw [objChecks_shape c req props addl kvs1 kvs' hsh]; exact e2
        rw [visit_obj_obj]
        simp [objPre, hd, hc, visitProps_idem c props hp hn kvs1 kvs' hv]
  | null => rw [visit_obj_null] at h; split at h <;> cases h; rw [visit_obj_null]; simp_all
  | bool b => rw [visit_obj_other _ _ _ _ _ _ rfl (by simp)] at h; cases h
  | num n => rw [visit_obj_other _ _ _ _ _ _ rfl (by simp)] at h; cases h
  | str t => rw [visit_obj_other _ _ _ _ _ _ rfl (by simp)] at h; cases h
  | arr xs => rw [visit_obj_other _ _ _ _ _ _ rfl (by simp)] at h; cases h

theorem visit_arr_idem (c : Ctx) (a : Attr) (items : S)
    (hi : ∀ x x', visit c items x = some x' → visit c items x' = some x') (v v' : J)
    (h : visit c (.arr a items) v = some v') : visit c (.arr a items) v' = some v' := by
  cases v with
  | arr xs =>
    rw [visit_arr_arr] at h
    cases hm : mapOpt (fun x => visit c items x) xs with
    | none => simp [hm] at h
    | some ys =>
      simp [hm] at h; subst h
      rw [visit_arr_arr, mapOpt_idem _ hi xs ys hm]; rfl
  | null => rw [visit_arr_null] at h; split at h <;> cases h; rw [visit_arr_null]; simp_all
  | bool b => rw [visit_arr_other _ _ _ _ rfl (by simp)] at h; cases h
  | num n => rw [visit_arr_other _ _ _ _ rfl (by simp)] at h; cases h
  | str t => rw [visit_arr_other _ _ _ _ rfl (by simp)] at h; cases h
  | obj kvs => rw [visit_arr_other _ _ _ _ rfl (by simp)] at h; cases h

theorem visit_leaf_id (c : Ctx) (a : Attr) (ty : Ty) (v v' : J) (h : visit c (.leaf a ty) v = some v') : v' = v := by
  rw [visit_leaf] at h
  split at h
  · split at h <;> cases h; rfl
  · split at h <;> cases h; rfl

/-- without compositions a second visit changes nothing and accepts -/
theorem visit_idem_noComb (c : Ctx) : ∀ s, hasComb s = false → wf s = true →
    ∀ v v', visit c s v = some v' → visit c s v' = some v' := by
  intro s
  induction s using S.induct with
  | leaf a ty => intro _ _ v v' h; have := visit_leaf_id c a ty v v' h; subst this; exact h
  | obj a req props addl ih =>
    intro hc hw v v' h
    simp only [hasComb] at hc
    simp only [wf, Bool.and_eq_true] at hw
    exact visit_obj_idem c a req props addl
      (fun p hp => ih p hp (hasCombProps_false props hc p hp) (wfProps_true props hw.2 p hp)) hw.1 v v' h
  | arr a items ih =>
    intro hc hw v v' h
    simp only [hasComb] at hc
    simp only [wf] at hw
    exact visit_arr_idem c a items (ih hc hw) v v' h
  | comb a k bs _ => intro hc; simp [hasComb] at hc

/-! ### compositions -/

/-- the first accepting branch: everything before it rejects -/
theorem visitMatches_head (c : Ctx) (v x : J) : ∀ (bs : List S) (tl : List J), visitMatches c bs v = x :: tl →
    ∃ pre b post, bs = pre ++ b :: post ∧ (∀ p ∈ pre, visit c p v = none) ∧ visit c b v = some x
  | [], tl, h => by simp [visitMatches] at h
  | b :: bs, tl, h => by
    simp only [visitMatches] at h
    cases hb : visit c b v with
    | some y =>
      simp [hb] at h
      exact ⟨[], b, bs, rfl, by simp, by rw [hb, h.1]⟩
    | none =>
      simp [hb] at h
      obtain ⟨pre, b', post, e, hp, hv⟩ := visitMatches_head c v x bs tl h
      exact ⟨b :: pre, b', post, by simp [e], by intro p hm; cases hm with | head => exact hb | tail _ hm => exact hp p hm, hv⟩

theorem visitMatches_append (c : Ctx) (v : J) (l1 l2 : List S) :
    visitMatches c (l1 ++ l2) v = visitMatches c l1 v ++ visitMatches c l2 v := by
  induction l1 with
  | nil => simp [visitMatches]
  | cons b bs ih => simp [visitMatches, ih]

theorem visitMatches_none (c : Ctx) (v : J) : ∀ (l : List S), (∀ p ∈ l, visit c p v = none) → visitMatches c l v = []
  | [], _ => by simp [visitMatches]
  | b :: bs, h => by
    simp [visitMatches, h b (by simp), visitMatches_none c v bs (fun p hp => h p (by simp [hp]))]

/-- exactly one accepting branch: the others reject -/
theorem visitMatches_single (c : Ctx) (v x : J) : ∀ (bs : List S), visitMatches c bs v = [x] →
    ∃ pre b post, bs = pre ++ b :: post ∧ (∀ p ∈ pre, visit c p v = none) ∧ visit c b v = some x ∧
      (∀ p ∈ post, visit c p v = none) := by
  intro bs h
  obtain ⟨pre, b, post, e, hp, hv⟩ := visitMatches_head c v x bs [] h
  refine ⟨pre, b, post, e, hp, hv, ?_⟩
  subst e
  rw [visitMatches_append, visitMatches_none c v pre hp] at h
  simp only [visitMatches, hv, Option.toList_some, List.nil_append, List.cons_append, List.cons.injEq, true_and] at h
  intro p hm
  cases hq : visit c p v with
  | none => rfl
  | some y =>
    have : y ∈ visitMatches c post v := (mem_visitMatches c v y post).mpr ⟨p, hm, hq⟩
    rw [h] at this; cases this

theorem pick_anyOf (ms : List J) (x : J) : pick .anyOf ms = some x ↔ ∃ tl, ms = x :: tl := by
  unfold pick
  cases ms with
  | nil => simp
  | cons y tl => simp

theorem pick_oneOf (ms : List J) (x : J) : pick .oneOf ms = some x ↔ ms = [x] := by
  unfold pick
  cases ms with
  | nil => simp
  | cons y tl => cases tl <;> simp

theorem visitAll_fix (c : Ctx) (v : J) : ∀ (bs : List S), (∀ b ∈ bs, visit c b v = some v) → visitAll c bs v = some v
  | [], _ => by simp [visitAll]
  | b :: bs, h => by
    simp [visitAll, h b (by simp), visitAll_fix c v bs (fun b' hb => h b' (by simp [hb]))]

/-- A composition node is idempotent on an accepted value provided (1) every branch is idempotent, (2) a branch
    that rejected the received value still rejects the forwarded one (anyOf/oneOf), resp. every conjunct leaves the
    forwarded value alone (allOf). -/
theorem visit_comb_idem (c : Ctx) (a : Attr) (k : Kind) (bs : List S)
    (hb : ∀ b ∈ bs, ∀ x x', visit c b x = some x' → visit c b x' = some x') (v v' : J)
    (hstable : match k with
      | .allOf => ∀ b ∈ bs, visit c b v' = some v'
      | _ => ∀ b ∈ bs, visit c b v = none → visit c b v' = none)
    (h : visit c (.comb a k bs) v = some v') : visit c (.comb a k bs) v' = some v' := by
  have hn : v'.isNull = v.isNull := visit_isNull c _ v v' h
  rw [visit_comb] at h ⊢
  unfold combRes at h ⊢
  rw [hn]
  split
  · rename_i h1; simp only [h1, ↓reduceIte] at h; cases h; rfl
  · rename_i h1
    simp only [h1, Bool.false_eq_true, ↓reduceIte] at h
    split
    · rename_i h2; simp only [h2, ↓reduceIte] at h
      split at h
      · cases h
      · cases h; rename_i h3; simp [h3]
    · rename_i h2
      simp only [h2, Bool.false_eq_true, ↓reduceIte] at h
      cases k with
      | allOf => exact visitAll_fix c v' bs hstable
      | anyOf =>
        simp only at h hstable ⊢
        obtain ⟨tl, htl⟩ := (pick_anyOf _ _).mp h
        obtain ⟨pre, b, post, e, hp, hv⟩ := visitMatches_head c v v' bs tl htl
        subst e
        rw [visitMatches_append, visitMatches_none c v' pre (fun p hm => hstable p (by simp [hm]) (hp p hm))]
        simp [visitMatches, hb b (by simp) v v' hv, pick]
      | oneOf =>
        simp only at h hstable ⊢
        have hs := (pick_oneOf _ _).mp h
        obtain ⟨pre, b, post, e, hp, hv, hq⟩ := visitMatches_single c v v' bs hs
        subst e
        rw [visitMatches_append, visitMatches_none c v' pre (fun p hm => hstable p (by simp [hm]) (hp p hm))]
        simp [visitMatches, hb b (by simp) v v' hv, visitMatches_none c v' post (fun p hm => hstable p (by simp [hm]) (hq p hm)), pick]

/-- the result of an anyOf/oneOf node is the result of a branch that accepts the received value (the first one
    for anyOf, the only one for oneOf) — or the value itself (nullable null / no branches) -/
theorem visit_comb_from_matched (c : Ctx) (a : Attr) (k : Kind) (hk : k ≠ .allOf) (bs : List S) (v v' : J)
    (h : visit c (.comb a k bs) v = some v') :
    v' = v ∨ ∃ pre b post, bs = pre ++ b :: post ∧ (∀ p ∈ pre, visit c p v = none) ∧ visit c b v = some v' ∧
      (k = .oneOf → ∀ p ∈ post, visit c p v = none) := by
  rw [visit_comb] at h
  rcases combRes_some h with e | ⟨_, e, _⟩ | ⟨_, _, hp⟩
  · exact Or.inl e
  · exact absurd e hk
  · right
    cases k with
    | allOf => exact absurd rfl hk
    | anyOf =>
      obtain ⟨tl, htl⟩ := (pick_anyOf _ _).mp hp
      obtain ⟨pre, b, post, e, hpre, hv⟩ := visitMatches_head c v v' bs tl htl
      exact ⟨pre, b, post, e, hpre, hv, by intro hh; cases hh⟩
    | oneOf =>
      obtain ⟨pre, b, post, e, hpre, hv, hpost⟩ := visitMatches_single c v v' bs ((pick_oneOf _ _).mp hp)
      exact ⟨pre, b, post, e, hpre, hv, fun _ => hpost⟩

/-- after an accepted object visit with default-setting on, no property that has an applicable default is left
    absent (or null, under the code's reading) -/
theorem visit_obj_settled (c : Ctx) (hc : c.setDefaults = true) (a : Attr) (req props addl) (kvs : List (String × J)) (v' : J)
    (h : visit c (.obj a req props addl) (.obj kvs) = some v') : ∃ kvs', v' = .obj kvs' ∧ Settled c props kvs' := by
  rw [visit_obj_obj] at h
  cases hpre : objPre c req props addl kvs with
  | none => simp [hpre] at h
  | some kvs1 =>
    simp only [hpre, Option.bind_some] at h
    cases hv : visitProps c props kvs1 with
    | none => simp [hv] at h
    | some kvs' =>
      simp [hv] at h; subst h
      refine ⟨kvs', rfl, ?_⟩
      obtain ⟨e1, _⟩ := objPre_some c req props addl kvs kvs1 hpre
      have hs : Settled c props kvs1 := by rw [e1]; simp only [defaulted, hc, ↓reduceIte]; exact injectDefaults_settled c props kvs
      exact settled_shape c props kvs1 kvs' (visitProps_shape c props kvs1 kvs' hv) hs

/-! ### the executable equality test -/

theorem J.beq_eq : ∀ (a b : J), J.beq a b = true → a = b := by
  intro a
  refine J.rec (motive_1 := fun a => ∀ b, J.beq a b = true → a = b)
    (motive_2 := fun xs => ∀ ys, J.beqList xs ys = true → xs = ys)
    (motive_3 := fun kvs => ∀ kvs', J.beqKvs kvs kvs' = true → kvs = kvs')
    (motive_4 := fun p => ∀ b, J.beq p.2 b = true → p.2 = b) ?_ ?_ ?_ ?_ ?_ ?_ ?_ ?_ ?_ ?_ ?_ a
  · intro b h; cases b <;> simp [J.beq] at h; rfl
  · intro x b h; cases b <;> simp [J.beq] at h; rw [h]
  · intro x b h; cases b <;> simp [J.beq] at h; rw [h]
  · intro x b h; cases b <;> simp [J.beq] at h; rw [h]
  · intro xs ih b h; cases b <;> simp [J.beq] at h; rw [ih _ h]
  · intro kvs ih b h; cases b <;> simp [J.beq] at h; rw [ih _ h]
  · intro ys h; cases ys <;> simp [J.beqList] at h; rfl
  · intro x xs ih1 ih2 ys h
    cases ys with
    | nil => simp [J.beqList] at h
    | cons y ys => simp [J.beqList] at h; rw [ih1 y h.1, ih2 ys h.2]
  · intro kvs' h; cases kvs' <;> simp [J.beqKvs] at h; rfl
  · intro p r ih1 ih2 kvs' h
    obtain ⟨k, x⟩ := p
    cases kvs' with
    | nil => simp [J.beqKvs] at h
    | cons q r' =>
      obtain ⟨k', y⟩ := q
      simp [J.beqKvs] at h
      have e1 : x = y := ih1 y h.1.2
      rw [h.1.1, e1, ih2 r' h.2]
  · intro k x ih b h; exact ih b h

/-! ### member-wise characterisation of the object step -/

theorem lookup_not_contains {α} (k : String) : ∀ (ps : List (String × α)), (ps.map (·.1)).contains k = false → lookup k ps = none
  | [], _ => rfl
  | (k2, s) :: ps, h => by
    simp only [List.map_cons, List.contains_cons, Bool.or_eq_false_iff] at h
    have hne : k ≠ k2 := by intro e; simp [e] at h
    simp only [lookup, hne, ↓reduceIte]
    exact lookup_not_contains k ps h.2

/-- what the member `k` is after the default loop, given what it was -/
def afterInject (c : Ctx) (a : Attr) (m : Option J) : Option J :=
  if slotEmpty m then (match dfltFor c a with | some d => some d | none => m) else m

theorem injectStep_lookup_same (c : Ctx) (k : String) (a : Attr) (kvs : List (String × J)) :
    lookup k (injectStep c k a kvs) = afterInject c a (lookup k kvs) := by
  unfold injectStep afterInject
  split
  · cases hd : dfltFor c a with
    | none => rfl
    | some d => simp [lookup_setKey_same]
  · rfl

theorem injectStep_lookup_other (c : Ctx) (k k' : String) (a : Attr) (kvs : List (String × J)) (hne : k' ≠ k) :
    lookup k' (injectStep c k a kvs) = lookup k' kvs := by
  unfold injectStep
  split
  · cases hd : dfltFor c a with
    | none => rfl
    | some d => simp [lookup_setKey_other k k' d kvs hne]
  · rfl

theorem injectDefaults_lookup_other (c : Ctx) (k : String) : ∀ (ps : List (String × S)) (kvs : List (String × J)),
    (ps.map (·.1)).contains k = false → lookup k (injectDefaults c ps kvs) = lookup k kvs
  | [], _, _ => rfl
  | (k2, s) :: ps, kvs, h => by
    simp only [List.map_cons, List.contains_cons, Bool.or_eq_false_iff] at h
    have hne : k ≠ k2 := by intro e; simp [e] at h
    simp only [injectDefaults]
    rw [injectDefaults_lookup_other c k ps _ h.2, injectStep_lookup_other c k2 k s.attr kvs hne]

theorem injectDefaults_lookup (c : Ctx) (k : String) : ∀ (ps : List (String × S)) (kvs : List (String × J)),
    keysNodup (ps.map (·.1)) = true →
    lookup k (injectDefaults c ps kvs) =
      (match lookup k ps with | some s => afterInject c s.attr (lookup k kvs) | none => lookup k kvs)
  | [], _, _ => rfl
  | (k2, s) :: ps, kvs, hn => by
    simp only [List.map_cons, keysNodup, Bool.and_eq_true, Bool.not_eq_true'] at hn
    simp only [injectDefaults, lookup]
    by_cases e : k = k2
    · subst e
      simp only [↓reduceIte]
      rw [injectDefaults_lookup_other c k ps _ hn.1, injectStep_lookup_same]
    · simp only [e, ↓reduceIte]
      rw [injectDefaults_lookup c k ps _ hn.2, injectStep_lookup_other c k2 k s.attr kvs e]

theorem visitProps_lookup (c : Ctx) (k : String) : ∀ (ps : List (String × S)) (kvs kvs' : List (String × J)),
    keysNodup (ps.map (·.1)) = true → visitProps c ps kvs = some kvs' →
    lookup k kvs' =
      (match lookup k ps with | some s => (lookup k kvs).bind (fun x => visit c s x) | none => lookup k kvs)
  | [], kvs, kvs', _, h => by simp [visitProps] at h; subst h; rfl
  | (k2, s) :: ps, kvs, kvs', hn, h => by
    simp only [List.map_cons, keysNodup, Bool.and_eq_true, Bool.not_eq_true'] at hn
    simp only [visitProps] at h
    simp only [lookup]
    by_cases e : k = k2
    · subst e
      simp only [↓reduceIte]
      cases hl : lookup k kvs with
      | none =>
        simp only [hl] at h
        rw [visitProps_lookup_other c k ps kvs kvs' hn.1 h, hl]; rfl
      | some x =>
        simp only [hl] at h
        cases hv : visit c s x with
        | none => simp [hv] at h
        | some x' =>
          simp only [hv, Option.bind_some] at h
          rw [visitProps_lookup_other c k ps _ kvs' hn.1 h, lookup_setKey_same]; simp [hv]
    · simp only [e, ↓reduceIte]
      cases hl : lookup k2 kvs with
      | none => simp only [hl] at h; exact visitProps_lookup c k ps kvs kvs' hn.2 h
      | some x =>
        simp only [hl] at h
        cases hv : visit c s x with
        | none => simp [hv] at h
        | some x' =>
          simp only [hv, Option.bind_some] at h
          rw [visitProps_lookup c k ps _ kvs' hn.2 h, lookup_setKey_other k2 k x' kvs e]

/-- The object step, member by member: a key without a property schema keeps its value; a key with one first
    receives the default iff its slot is empty, and then becomes what its own property schema makes of it. -/
theorem visit_obj_member (c : Ctx) (a : Attr) (req props addl) (hn : keysNodup (props.map (·.1)) = true)
    (kvs kvs' : List (String × J)) (h : visit c (.obj a req props addl) (.obj kvs) = some (.obj kvs')) (k : String) :
    lookup k kvs' =
      (match lookup k props with
       | some s => ((if c.setDefaults then afterInject c s.attr (lookup k kvs) else lookup k kvs)).bind (fun x => visit c s x)
       | none => lookup k kvs) := by
  rw [visit_obj_obj] at h
  cases hpre : objPre c req props addl kvs with
  | none => simp [hpre] at h
  | some kvs1 =>
    simp only [hpre, Option.bind_some] at h
    cases hv : visitProps c props kvs1 with
    | none => simp [hv] at h
    | some kvs2 =>
      simp [hv] at h; subst h
      obtain ⟨e1, _⟩ := objPre_some c req props addl kvs kvs1 hpre
      rw [visitProps_lookup c k props kvs1 kvs2 hn hv]
      have hk : lookup k kvs1 = (match lookup k props with
          | some s => (if c.setDefaults then afterInject c s.attr (lookup k kvs) else lookup k kvs)
          | none => lookup k kvs) := by
        rw [e1]; unfold defaulted
        cases hc : c.setDefaults with
        | false => simp; cases lookup k props <;> rfl
        | true => simp only [↓reduceIte]; rw [injectDefaults_lookup c k props kvs hn]
      cases hp : lookup k props with
      | none => simp only [hp] at hk ⊢; exact hk
      | some s => simp only [hp] at hk ⊢; rw [hk]


/-! ### model = spec: the default loop is "append one member per absent property with a default" -/

theorem setKey_absent (k : String) (v : J) : ∀ (kvs : List (String × J)), lookup k kvs = none → setKey k v kvs = kvs ++ [(k, v)]
  | [], _ => rfl
  | (k', v') :: r, h => by
    simp only [lookup] at h
    split at h
    · cases h
    · rename_i hne
      simp only [setKey, hne, ↓reduceIte, List.cons_append]
      rw [setKey_absent k v r h]

theorem lookup_append_other {α} (k k' : String) (v : α) (hne : k' ≠ k) : ∀ (kvs : List (String × α)),
    lookup k' (kvs ++ [(k, v)]) = lookup k' kvs
  | [] => by simp [lookup, hne]
  | (k2, v2) :: r => by
    simp only [List.cons_append, lookup]
    split
    · rfl
    · exact lookup_append_other k k' v hne r

/-- appending a member under a key that is none of the property names changes nothing for `absentDefaults` -/
theorem absentDefaults_append (c : Ctx) (k : String) (v : J) : ∀ (ps : List (String × S)) (kvs : List (String × J)),
    (ps.map (·.1)).contains k = false → absentDefaults c ps (kvs ++ [(k, v)]) = absentDefaults c ps kvs
  | [], _, _ => rfl
  | (k2, s) :: ps, kvs, h => by
    simp only [List.map_cons, List.contains_cons, Bool.or_eq_false_iff] at h
    have hne : k2 ≠ k := by intro e; simp [e] at h
    simp only [absentDefaults]
    rw [lookup_append_other k k2 v hne kvs, absentDefaults_append c k v ps kvs h.2]

/-- **The default loop of visitJSONObject is the spec's one-shot reading**: the received members, followed by one
    member for each absent property with an applicable default. -/
theorem injectDefaults_eq_append (c : Ctx) : ∀ (ps : List (String × S)) (kvs : List (String × J)),
    keysNodup (ps.map (·.1)) = true → injectDefaults c ps kvs = kvs ++ absentDefaults c ps kvs
  | [], kvs, _ => by simp [injectDefaults, absentDefaults]
  | (k, s) :: ps, kvs, hn => by
    simp only [List.map_cons, keysNodup, Bool.and_eq_true, Bool.not_eq_true'] at hn
    simp only [injectDefaults, absentDefaults, injectStep]
    cases hl : lookup k kvs with
    | some x =>
      simp only [slotEmpty, Bool.false_eq_true, ↓reduceIte]
      exact injectDefaults_eq_append c ps kvs hn.2
    | none =>
      simp only [slotEmpty, ↓reduceIte]
      cases hd : dfltFor c s.attr with
      | none => exact injectDefaults_eq_append c ps kvs hn.2
      | some d =>
        simp only
        rw [setKey_absent k d kvs hl, injectDefaults_eq_append c ps _ hn.2, absentDefaults_append c k d ps kvs hn.1]
        simp

theorem defaulted_eq_spec (c : Ctx) (ps : List (String × S)) (kvs : List (String × J))
    (hn : keysNodup (ps.map (·.1)) = true) : defaulted c ps kvs = specDefaulted c ps kvs := by
  unfold defaulted specDefaulted
  split
  · exact injectDefaults_eq_append c ps kvs hn
  · rfl

theorem objPre_eq_spec (c : Ctx) (req props addl) (kvs : List (String × J))
    (hn : keysNodup (props.map (·.1)) = true) : objPre c req props addl kvs = specObjPre c req props addl kvs := by
  unfold objPre specObjPre
  rw [defaulted_eq_spec c props kvs hn]

theorem specVisit_leaf (c : Ctx) (a : Attr) (ty : Ty) (v : J) :
    specVisit c (.leaf a ty) v =
      (if v.isNull then (if a.nullable then some v else none) else if leafOK ty v then some v else none) := by
  rw [specVisit.eq_def]

theorem specVisit_obj_obj (c : Ctx) (a : Attr) (req props addl kvs) :
    specVisit c (.obj a req props addl) (.obj kvs) =
      (specObjPre c req props addl kvs).bind (fun kvs1 => (specVisitProps c props kvs1).map J.obj) := by
  rw [specVisit.eq_def]

theorem specVisit_obj_null (c : Ctx) (a : Attr) (req props addl) :
    specVisit c (.obj a req props addl) .null = if a.nullable then some .null else none := by
  rw [specVisit.eq_def]

theorem specVisit_obj_other (c : Ctx) (a : Attr) (req props addl) (v : J) (h1 : v.isNull = false)
    (h2 : ∀ kvs, v ≠ .obj kvs) : specVisit c (.obj a req props addl) v = none := by
  cases v with
  | null => simp [J.isNull] at h1
  | obj kvs => exact absurd rfl (h2 kvs)
  | bool b => rw [specVisit.eq_def]
  | num n => rw [specVisit.eq_def]
  | str t => rw [specVisit.eq_def]
  | arr xs => rw [specVisit.eq_def]

theorem specVisit_arr_arr (c : Ctx) (a : Attr) (items xs) :
    specVisit c (.arr a items) (.arr xs) = (mapOpt (fun x => specVisit c items x) xs).map J.arr := by
  rw [specVisit.eq_def]

theorem specVisit_arr_null (c : Ctx) (a : Attr) (items) :
    specVisit c (.arr a items) .null = if a.nullable then some .null else none := by
  rw [specVisit.eq_def]

theorem specVisit_arr_other (c : Ctx) (a : Attr) (items) (v : J) (h1 : v.isNull = false)
    (h2 : ∀ xs, v ≠ .arr xs) : specVisit c (.arr a items) v = none := by
  cases v with
  | null => simp [J.isNull] at h1
  | arr xs => exact absurd rfl (h2 xs)
  | bool b => rw [specVisit.eq_def]
  | num n => rw [specVisit.eq_def]
  | str t => rw [specVisit.eq_def]
  | obj kvs => rw [specVisit.eq_def]

theorem specVisit_comb (c : Ctx) (a : Attr) (k : Kind) (bs : List S) (v : J) :
    specVisit c (.comb a k bs) v = combRes a k bs.isEmpty v (specVisitAll c bs v) (specVisitMatches c bs v) := by
  rw [specVisit.eq_def]

theorem visitProps_eq_spec (c : Ctx) : ∀ (ps : List (String × S)), (∀ p ∈ ps, ∀ x, visit c p.2 x = specVisit c p.2 x) →
    ∀ kvs, visitProps c ps kvs = specVisitProps c ps kvs
  | [], _, kvs => by simp [visitProps, specVisitProps]
  | (k, s) :: ps, hp, kvs => by
    have hps : ∀ p ∈ ps, ∀ x, visit c p.2 x = specVisit c p.2 x := fun p hm => hp p (by simp [hm])
    simp only [visitProps, specVisitProps]
    cases lookup k kvs with
    | none => exact visitProps_eq_spec c ps hps kvs
    | some x =>
      simp only
      rw [hp (k, s) (by simp) x]
      cases specVisit c s x with
      | none => rfl
      | some x' => simp only [Option.bind_some]; exact visitProps_eq_spec c ps hps _

theorem mapOpt_congr (f g : J → Option J) (h : ∀ x, f x = g x) : ∀ xs, mapOpt f xs = mapOpt g xs
  | [] => rfl
  | x :: xs => by simp only [mapOpt, h x, mapOpt_congr f g h xs]

theorem visitMatches_eq_spec (c : Ctx) (v : J) : ∀ (bs : List S), (∀ b ∈ bs, ∀ x, visit c b x = specVisit c b x) →
    visitMatches c bs v = specVisitMatches c bs v
  | [], _ => by simp [visitMatches, specVisitMatches]
  | b :: bs, h => by
    simp only [visitMatches, specVisitMatches]
    rw [h b (by simp) v, visitMatches_eq_spec c v bs (fun b' hb => h b' (by simp [hb]))]

theorem visitAll_eq_spec (c : Ctx) : ∀ (bs : List S), (∀ b ∈ bs, ∀ x, visit c b x = specVisit c b x) →
    ∀ v, visitAll c bs v = specVisitAll c bs v
  | [], _, v => by simp [visitAll, specVisitAll]
  | b :: bs, h, v => by
    simp only [visitAll, specVisitAll]
    rw [h b (by simp) v]
    cases specVisit c b v with
    | none => rfl
    | some v1 => simp only [Option.bind_some]; exact visitAll_eq_spec c bs (fun b' hb => h b' (by simp [hb])) v1

/-- the code's visit is the spec's, for every schema whose objects have distinct property names, on every value -/
theorem visit_eq_spec (c : Ctx) : ∀ s, wf s = true → ∀ v, visit c s v = specVisit c s v := by
  intro s
  induction s using S.induct with
  | leaf a ty => intro _ v; rw [visit_leaf, specVisit_leaf]
  | obj a req props addl ih =>
    intro hw v
    simp only [wf, Bool.and_eq_true] at hw
    cases v with
    | obj kvs =>
      rw [visit_obj_obj, specVisit_obj_obj, objPre_eq_spec c req props addl kvs hw.1]
      cases specObjPre c req props addl kvs with
      | none => rfl
      | some kvs1 =>
        simp only [Option.bind_some]
        rw [visitProps_eq_spec c props (fun p hp => ih p hp (wfProps_true props hw.2 p hp)) kvs1]
    | null => rw [visit_obj_null, specVisit_obj_null]
    | bool b => rw [visit_obj_other _ _ _ _ _ _ rfl (by simp), specVisit_obj_other _ _ _ _ _ _ rfl (by simp)]
    | num n => rw [visit_obj_other _ _ _ _ _ _ rfl (by simp), specVisit_obj_other _ _ _ _ _ _ rfl (by simp)]
    | str t => rw [visit_obj_other _ _ _ _ _ _ rfl (by simp), specVisit_obj_other _ _ _ _ _ _ rfl (by simp)]
    | arr xs => rw [visit_obj_other _ _ _ _ _ _ rfl (by simp), specVisit_obj_other _ _ _ _ _ _ rfl (by simp)]
  | arr a items ih =>
    intro hw v
    simp only [wf] at hw
    cases v with
    | arr xs => rw [visit_arr_arr, specVisit_arr_arr, mapOpt_congr _ _ (ih hw) xs]
    | null => rw [visit_arr_null, specVisit_arr_null]
    | bool b => rw [visit_arr_other _ _ _ _ rfl (by simp), specVisit_arr_other _ _ _ _ rfl (by simp)]
    | num n => rw [visit_arr_other _ _ _ _ rfl (by simp), specVisit_arr_other _ _ _ _ rfl (by simp)]
    | str t => rw [visit_arr_other _ _ _ _ rfl (by simp), specVisit_arr_other _ _ _ _ rfl (by simp)]
    | obj kvs => rw [visit_arr_other _ _ _ _ rfl (by simp), specVisit_arr_other _ _ _ _ rfl (by simp)]
  | comb a k bs ih =>
    intro hw v
    simp only [wf] at hw
    have hb : ∀ b ∈ bs, ∀ x, visit c b x = specVisit c b x := fun b hm => ih b hm (wfList_true bs hw b hm)
    rw [visit_comb, specVisit_comb, visitAll_eq_spec c bs hb v, visitMatches_eq_spec c v bs hb]

end KinModel.C13.Body

namespace KinModel.C13.Body

/-! ### `touched`: the `DefaultsSet` callback ran iff the accepted value changed -/

theorem touched_leaf (c : Ctx) (a : Attr) (ty : Ty) (v : J) : touched c (.leaf a ty) v = false := by rw [touched]

theorem touched_obj_obj (c : Ctx) (a : Attr) (req props addl kvs) :
    touched c (.obj a req props addl) (.obj kvs) =
      ((c.setDefaults && (defaulted c props kvs).length != kvs.length) || touchedProps c props (defaulted c props kvs)) := by
  rw [touched]

theorem touched_arr_arr (c : Ctx) (a : Attr) (items xs) :
    touched c (.arr a items) (.arr xs) = anyItem (fun x => touched c items x) xs := by
  rw [touched]

theorem touched_comb (c : Ctx) (a : Attr) (k : Kind) (bs : List S) (v : J) :
    touched c (.comb a k bs) v =
      (if v.isNull then false
       else match k with
        | .allOf => touchedChain c bs v
        | _ => touchedMatched c bs v) := by
  rw [touched.eq_def]
  cases v <;> rfl

theorem defaulted_length (c : Ctx) (props : List (String × S)) (kvs : List (String × J))
    (hn : keysNodup (props.map (·.1)) = true) (h : (defaulted c props kvs).length = kvs.length) :
    defaulted c props kvs = kvs := by
  rw [defaulted_eq_spec c props kvs hn] at h ⊢
  unfold specDefaulted at h ⊢
  split
  · rename_i hc
    simp only [hc, ↓reduceIte, List.length_append] at h
    have : (absentDefaults c props kvs).length = 0 := by omega
    rw [List.length_eq_zero_iff.mp this]; simp
  · rfl

/-- members that are all untouched stay as they are -/
theorem visitProps_untouched (c : Ctx) : ∀ (ps : List (String × S)),
    (∀ p ∈ ps, ∀ x x', visit c p.2 x = some x' → touched c p.2 x = false → x' = x) →
    ∀ kvs kvs', visitProps c ps kvs = some kvs' → touchedProps c ps kvs = false → kvs' = kvs
  | [], _, kvs, kvs', h, _ => by simp [visitProps] at h; exact h.symm
  | (k, s) :: ps, hp, kvs, kvs', h, ht => by
    have hps : ∀ p ∈ ps, ∀ x x', visit c p.2 x = some x' → touched c p.2 x = false → x' = x :=
      fun p hm => hp p (by simp [hm])
    simp only [visitProps] at h
    simp only [touchedProps] at ht
    cases hl : lookup k kvs with
    | none =>
      simp only [hl] at h ht
      exact visitProps_untouched c ps hps kvs kvs' h ht
    | some x =>
      simp only [hl] at h ht
      cases hv : visit c s x with
      | none => simp [hv] at h
      | some x' =>
        simp only [hv, Option.bind_some] at h
        simp only [hv, Bool.or_eq_false_iff] at ht
        have hx : x' = x := hp (k, s) (by simp) x x' hv ht.1
        subst hx
        rw [setKey_noop k x' kvs hl] at h ht
        exact visitProps_untouched c ps hps kvs kvs' h ht.2

theorem mapOpt_untouched (f : J → Option J) (t : J → Bool) (hf : ∀ x y, f x = some y → t x = false → y = x) :
    ∀ (xs ys : List J), mapOpt f xs = some ys → anyItem t xs = false → ys = xs
  | [], ys, h, _ => by simp [mapOpt] at h; exact h
  | x :: xs, ys, h, ht => by
    simp only [mapOpt] at h
    cases hx : f x with
    | none => simp [hx] at h
    | some y =>
      cases hxs : mapOpt f xs with
      | none => simp [hx, hxs] at h
      | some ys' =>
        simp [hx, hxs] at h; subst h
        simp only [anyItem, Bool.or_eq_false_iff] at ht
        rw [hf x y hx ht.1, mapOpt_untouched f t hf xs ys' hxs ht.2]

theorem visitAll_untouched (c : Ctx) : ∀ (bs : List S),
    (∀ b ∈ bs, ∀ x x', visit c b x = some x' → touched c b x = false → x' = x) →
    ∀ v v', visitAll c bs v = some v' → touchedChain c bs v = false → v' = v
  | [], _, v, v', h, _ => by simp [visitAll] at h; exact h.symm
  | b :: bs, hb, v, v', h, ht => by
    simp only [visitAll] at h
    simp only [touchedChain, Bool.or_eq_false_iff] at ht
    cases hv : visit c b v with
    | none => simp [hv] at h
    | some v1 =>
      simp only [hv, Option.bind_some] at h
      simp only [hv] at ht
      have e : v1 = v := hb b (by simp) v v1 hv ht.1
      subst e
      exact visitAll_untouched c bs (fun b' hm => hb b' (by simp [hm])) v1 v' h ht.2

/-- the branch that is run again is the first accepting one -/
theorem touchedMatched_first (c : Ctx) (v : J) : ∀ (pre : List S) (b : S) (post : List S) (x : J),
    (∀ p ∈ pre, visit c p v = none) → visit c b v = some x → touchedMatched c (pre ++ b :: post) v = touched c b v
  | [], b, post, x, _, hv => by simp [touchedMatched, hv]
  | p :: pre, b, post, x, hp, hv => by
    simp only [List.cons_append, touchedMatched, hp p (by simp), Option.isSome_none, Bool.false_eq_true, ↓reduceIte]
    exact touchedMatched_first c v pre b post x (fun q hq => hp q (by simp [hq])) hv

/-- the branch an accepted anyOf/oneOf node forwards through, with everything before it rejecting -/
theorem comb_matched (c : Ctx) (k : Kind) (hk : k ≠ .allOf) (bs : List S) (v v' : J) (hp : pick k (visitMatches c bs v) = some v') :
    ∃ pre b post, bs = pre ++ b :: post ∧ (∀ p ∈ pre, visit c p v = none) ∧ visit c b v = some v' := by
  cases k with
  | allOf => exact absurd rfl hk
  | anyOf =>
    obtain ⟨tl, htl⟩ := (pick_anyOf _ _).mp hp
    exact visitMatches_head c v v' bs tl htl
  | oneOf =>
    obtain ⟨pre, b, post, e, hpre, hv, _⟩ := visitMatches_single c v v' bs ((pick_oneOf _ _).mp hp)
    exact ⟨pre, b, post, e, hpre, hv⟩

/-- **A visit in which the `DefaultsSet` callback did not run forwards the value as it is.** -/
theorem untouched_unchanged (c : Ctx) : ∀ s, wf s = true → ∀ v v', visit c s v = some v' → touched c s v = false → v' = v := by
  intro s
  induction s using S.induct with
  | leaf a ty => intro _ v v' h _; exact visit_leaf_id c a ty v v' h
  | obj a req props addl ih =>
    intro hw v v' h ht
    simp only [wf, Bool.and_eq_true] at hw
    cases v with
    | obj kvs =>
      rw [visit_obj_obj] at h
      rw [touched_obj_obj, Bool.or_eq_false_iff] at ht
      cases hpre : objPre c req props addl kvs with
      | none => simp [hpre] at h
      | some kvs1 =>
        simp only [hpre, Option.bind_some] at h
        cases hv : visitProps c props kvs1 with
        | none => simp [hv] at h
        | some kvs' =>
          simp [hv] at h; subst h
          obtain ⟨e1, _⟩ := objPre_some c req props addl kvs kvs1 hpre
          have hd : defaulted c props kvs = kvs := by
            cases hc : c.setDefaults with
            | false => simp [defaulted, hc]
            | true =>
              apply defaulted_length c props kvs hw.1
              have := ht.1
              simp only [hc, Bool.true_and, bne_eq_false_iff_eq] at this
              exact this
          rw [hd] at e1; subst e1
          rw [hd] at ht
          rw [visitProps_untouched c props (fun p hp => ih p hp (wfProps_true props hw.2 p hp)) kvs1 kvs' hv ht.2]
    | null => rw [visit_obj_null] at h; split at h <;> cases h; rfl
    | bool b => rw [visit_obj_other _ _ _ _ _ _ rfl (by simp)] at h; cases h
    | num n => rw [visit_obj_other _ _ _ _ _ _ rfl (by simp)] at h; cases h
    | str t => rw [visit_obj_other _ _ _ _ _ _ rfl (by simp)] at h; cases h
    | arr xs => rw [visit_obj_other _ _ _ _ _ _ rfl (by simp)] at h; cases h
  | arr a items ih =>
    intro hw v v' h ht
    simp only [wf] at hw
    cases v with
    | arr xs =>
      rw [visit_arr_arr] at h
      rw [touched_arr_arr] at ht
      cases hm : mapOpt (fun x => visit c items x) xs with
      | none => simp [hm] at h
      | some ys =>
        simp [hm] at h; subst h
        rw [mapOpt_untouched _ _ (fun x y hxy => ih hw x y hxy) xs ys hm ht]
    | null => rw [visit_arr_null] at h; split at h <;> cases h; rfl
    | bool b => rw [visit_arr_other _ _ _ _ rfl (by simp)] at h; cases h
    | num n => rw [visit_arr_other _ _ _ _ rfl (by simp)] at h; cases h
    | str t => rw [visit_arr_other _ _ _ _ rfl (by simp)] at h; cases h
    | obj kvs => rw [visit_arr_other _ _ _ _ rfl (by simp)] at h; cases h
  | comb a k bs ih =>
    intro hw v v' h ht
    simp only [wf] at hw
    have hb : ∀ b ∈ bs, ∀ x x', visit c b x = some x' → touched c b x = false → x' = x :=
      fun b hm => ih b hm (wfList_true bs hw b hm)
    have hnull := visit_isNull c (.comb a k bs) v v' h
    rw [touched_comb] at ht
    rw [visit_comb] at h
    cases hn : v.isNull with
    | true =>
      rw [hn] at hnull
      cases v <;> simp [J.isNull] at hn
      cases v' <;> simp [J.isNull] at hnull; rfl
    | false =>
      simp only [hn, Bool.false_eq_true, ↓reduceIte] at ht
      rcases combRes_some h with e | ⟨_, hk, hall⟩ | ⟨_, hk, hp⟩
      · exact e
      · subst hk; exact visitAll_untouched c bs hb v v' hall ht
      · obtain ⟨pre, b, post, e, hpre, hv⟩ := comb_matched c k hk bs v v' hp
        subst e
        have htm : touchedMatched c (pre ++ b :: post) v = false := by
          cases k with
          | allOf => exact absurd rfl hk
          | anyOf => exact ht
          | oneOf => exact ht
        rw [touchedMatched_first c v pre b post v' hpre hv] at htm
        exact hb b (by simp) v v' hv htm

/-! ### … and a visit in which it ran makes the value strictly bigger -/

theorem J.size_arr (xs : List J) : (J.arr xs).size = 1 + sizeList xs := by rw [J.size]
theorem J.size_obj (kvs : List (String × J)) : (J.obj kvs).size = 1 + sizeKvs kvs := by rw [J.size]

theorem J.size_pos (v : J) : 0 < v.size := by
  cases v with
  | arr xs => rw [J.size_arr]; omega
  | obj kvs => rw [J.size_obj]; omega
  | null => rw [J.size.eq_def]; decide
  | bool b => rw [J.size.eq_def]; simp
  | num n => rw [J.size.eq_def]; simp
  | str t => rw [J.size.eq_def]; simp

theorem sizeKvs_append (a b : List (String × J)) : sizeKvs (a ++ b) = sizeKvs a + sizeKvs b := by
  induction a with
  | nil => simp [sizeKvs]
  | cons kv r ih => obtain ⟨k, x⟩ := kv; simp only [List.cons_append, sizeKvs, ih]; omega

theorem sizeKvs_setKey (k : String) (x x' : J) : ∀ (kvs : List (String × J)), lookup k kvs = some x →
    sizeKvs (setKey k x' kvs) + x.size = sizeKvs kvs + x'.size
  | [], h => by simp [lookup] at h
  | (k2, y) :: r, h => by
    simp only [lookup] at h
    simp only [setKey]
    split at h
    · rename_i e; cases h; subst e; simp only [↓reduceIte, sizeKvs]; omega
    · rename_i e; simp only [e, ↓reduceIte, sizeKvs]; have := sizeKvs_setKey k x x' r h; omega

theorem injectStep_grows (c : Ctx) (k : String) (a : Attr) (kvs : List (String × J)) :
    kvs.length ≤ (injectStep c k a kvs).length ∧
    sizeKvs kvs + ((injectStep c k a kvs).length - kvs.length) ≤ sizeKvs (injectStep c k a kvs) := by
  unfold injectStep
  cases hl : lookup k kvs with
  | some x => simp [slotEmpty]
  | none =>
    simp only [slotEmpty, ↓reduceIte]
    cases hd : dfltFor c a with
    | none => simp
    | some d =>
      simp only
      rw [setKey_absent k d kvs hl, sizeKvs_append]
      have := J.size_pos d
      simp [sizeKvs]; omega

theorem injectDefaults_grows (c : Ctx) : ∀ (ps : List (String × S)) (kvs : List (String × J)),
    kvs.length ≤ (injectDefaults c ps kvs).length ∧
    sizeKvs kvs + ((injectDefaults c ps kvs).length - kvs.length) ≤ sizeKvs (injectDefaults c ps kvs)
  | [], kvs => by simp [injectDefaults]
  | (k, s) :: ps, kvs => by
    simp only [injectDefaults]
    have h1 := injectStep_grows c k s.attr kvs
    have h2 := injectDefaults_grows c ps (injectStep c k s.attr kvs)
    omega

theorem defaulted_grows (c : Ctx) (props : List (String × S)) (kvs : List (String × J)) :
    kvs.length ≤ (defaulted c props kvs).length ∧
    sizeKvs kvs + ((defaulted c props kvs).length - kvs.length) ≤ sizeKvs (defaulted c props kvs) := by
  unfold defaulted
  split
  · exact injectDefaults_grows c props kvs
  · simp

def sizeLe (v v' : J) : Prop := v.size ≤ v'.size

theorem all2_sizeLe : ∀ (xs ys : List J), All2 sizeLe xs ys → sizeList xs ≤ sizeList ys
  | _, _, .nil => Nat.le_refl _
  | _, _, .cons h t => by
    simp only [sizeList]
    have := all2_sizeLe _ _ t
    unfold sizeLe at h
    omega

theorem relOK_sizeLe (c : Ctx) : RelOK c sizeLe where
  refl _ := Nat.le_refl _
  trans _ _ _ h1 h2 := Nat.le_trans h1 h2
  arr xs ys h := by unfold sizeLe; rw [J.size_arr, J.size_arr]; have := all2_sizeLe xs ys h; omega
  set k x x' kvs hl hx := by
    unfold sizeLe at *
    rw [J.size_obj, J.size_obj]
    have := sizeKvs_setKey k x x' kvs hl
    omega
  pre req props addl kvs kvs1 hp := by
    unfold sizeLe
    rw [J.size_obj, J.size_obj, (objPre_some c req props addl kvs kvs1 hp).1]
    have := defaulted_grows c props kvs
    omega

/-- an accepted visit never makes the value smaller -/
theorem visit_size_le (c : Ctx) (s : S) (v v' : J) (h : visit c s v = some v') : v.size ≤ v'.size :=
  visit_rel (relOK_sizeLe c) s v v' h

theorem visitProps_size_le (c : Ctx) (ps : List (String × S)) (kvs kvs' : List (String × J))
    (h : visitProps c ps kvs = some kvs') : sizeKvs kvs ≤ sizeKvs kvs' := by
  have := visitProps_rel (relOK_sizeLe c) ps (fun p _ x x' hv => visit_size_le c p.2 x x' hv) kvs kvs' h
  unfold sizeLe at this
  rw [J.size_obj, J.size_obj] at this
  omega

theorem visitAll_size_le (c : Ctx) (bs : List S) (v v' : J) (h : visitAll c bs v = some v') : v.size ≤ v'.size :=
  visitAll_rel (relOK_sizeLe c) bs (fun b _ x x' hv => visit_size_le c b x x' hv) v v' h

theorem visitProps_touched_grows (c : Ctx) : ∀ (ps : List (String × S)),
    (∀ p ∈ ps, ∀ x x', visit c p.2 x = some x' → touched c p.2 x = true → x.size < x'.size) →
    ∀ kvs kvs', visitProps c ps kvs = some kvs' → touchedProps c ps kvs = true → sizeKvs kvs < sizeKvs kvs'
  | [], _, kvs, kvs', _, ht => by simp [touchedProps] at ht
  | (k, s) :: ps, hp, kvs, kvs', h, ht => by
    have hps : ∀ p ∈ ps, ∀ x x', visit c p.2 x = some x' → touched c p.2 x = true → x.size < x'.size :=
      fun p hm => hp p (by simp [hm])
    simp only [visitProps] at h
    simp only [touchedProps] at ht
    cases hl : lookup k kvs with
    | none =>
      simp only [hl] at h ht
      exact visitProps_touched_grows c ps hps kvs kvs' h ht
    | some x =>
      simp only [hl] at h ht
      cases hv : visit c s x with
      | none => simp [hv] at h
      | some x' =>
        simp only [hv, Option.bind_some] at h
        simp only [hv, Bool.or_eq_true] at ht
        have hset := sizeKvs_setKey k x x' kvs hl
        have hle := visit_size_le c s x x' hv
        have hrest := visitProps_size_le c ps _ kvs' h
        rcases ht with ht | ht
        · have := hp (k, s) (by simp) x x' hv ht
          omega
        · have := visitProps_touched_grows c ps hps _ kvs' h ht
          omega

theorem mapOpt_touched_grows (f : J → Option J) (t : J → Bool) (hle : ∀ x y, f x = some y → x.size ≤ y.size)
    (hlt : ∀ x y, f x = some y → t x = true → x.size < y.size) :
    ∀ (xs ys : List J), mapOpt f xs = some ys → (sizeList xs ≤ sizeList ys ∧ (anyItem t xs = true → sizeList xs < sizeList ys))
  | [], ys, h => by simp [mapOpt] at h; subst h; simp [anyItem]
  | x :: xs, ys, h => by
    simp only [mapOpt] at h
    cases hx : f x with
    | none => simp [hx] at h
    | some y =>
      cases hxs : mapOpt f xs with
      | none => simp [hx, hxs] at h
      | some ys' =>
        simp [hx, hxs] at h; subst h
        obtain ⟨i1, i2⟩ := mapOpt_touched_grows f t hle hlt xs ys' hxs
        have h1 := hle x y hx
        simp only [sizeList, anyItem, Bool.or_eq_true]
        refine ⟨by omega, ?_⟩
        rintro (ht | ht)
        · have := hlt x y hx ht; omega
        · have := i2 ht; omega

theorem visitAll_touched_grows (c : Ctx) : ∀ (bs : List S),
    (∀ b ∈ bs, ∀ x x', visit c b x = some x' → touched c b x = true → x.size < x'.size) →
    ∀ v v', visitAll c bs v = some v' → touchedChain c bs v = true → v.size < v'.size
  | [], _, v, v', _, ht => by simp [touchedChain] at ht
  | b :: bs, hb, v, v', h, ht => by
    simp only [visitAll] at h
    simp only [touchedChain, Bool.or_eq_true] at ht
    cases hv : visit c b v with
    | none => simp [hv] at h
    | some v1 =>
      simp only [hv, Option.bind_some] at h
      simp only [hv] at ht
      have h1 := visit_size_le c b v v1 hv
      have h2 := visitAll_size_le c bs v1 v' h
      rcases ht with ht | ht
      · have := hb b (by simp) v v1 hv ht; omega
      · have := visitAll_touched_grows c bs (fun b' hm => hb b' (by simp [hm])) v1 v' h ht; omega

/-- **A visit in which the `DefaultsSet` callback ran forwards a strictly bigger value.** -/
theorem touched_grows (c : Ctx) : ∀ s v v', visit c s v = some v' → touched c s v = true → v.size < v'.size := by
  intro s
  induction s using S.induct with
  | leaf a ty => intro v v' _ ht; rw [touched_leaf] at ht; cases ht
  | obj a req props addl ih =>
    intro v v' h ht
    cases v with
    | obj kvs =>
      rw [visit_obj_obj] at h
      rw [touched_obj_obj, Bool.or_eq_true] at ht
      cases hpre : objPre c req props addl kvs with
      | none => simp [hpre] at h
      | some kvs1 =>
        simp only [hpre, Option.bind_some] at h
        cases hv : visitProps c props kvs1 with
        | none => simp [hv] at h
        | some kvs' =>
          simp [hv] at h; subst h
          obtain ⟨e1, _⟩ := objPre_some c req props addl kvs kvs1 hpre
          subst e1
          rw [J.size_obj, J.size_obj]
          have hg := defaulted_grows c props kvs
          have hle := visitProps_size_le c props _ kvs' hv
          rcases ht with ht | ht
          · simp only [Bool.and_eq_true, bne_iff_ne, ne_eq] at ht
            have := ht.2
            omega
          · have := visitProps_touched_grows c props ih _ kvs' hv ht
            omega
    | null => rw [touched.eq_def] at ht; cases ht
    | bool b => rw [touched.eq_def] at ht; cases ht
    | num n => rw [touched.eq_def] at ht; cases ht
    | str t => rw [touched.eq_def] at ht; cases ht
    | arr xs => rw [touched.eq_def] at ht; cases ht
  | arr a items ih =>
    intro v v' h ht
    cases v with
    | arr xs =>
      rw [visit_arr_arr] at h
      rw [touched_arr_arr] at ht
      cases hm : mapOpt (fun x => visit c items x) xs with
      | none => simp [hm] at h
      | some ys =>
        simp [hm] at h; subst h
        rw [J.size_arr, J.size_arr]
        have := (mapOpt_touched_grows _ _ (fun x y hxy => visit_size_le c items x y hxy) (fun x y hxy => ih x y hxy) xs ys hm).2 ht
        omega
    | null => rw [touched.eq_def] at ht; cases ht
    | bool b => rw [touched.eq_def] at ht; cases ht
    | num n => rw [touched.eq_def] at ht; cases ht
    | str t => rw [touched.eq_def] at ht; cases ht
    | obj kvs => rw [touched.eq_def] at ht; cases ht
  | comb a k bs ih =>
    intro v v' h ht
    rw [touched_comb] at ht
    rw [visit_comb] at h
    cases hn : v.isNull with
    | true => simp [hn] at ht
    | false =>
      simp only [hn, Bool.false_eq_true, ↓reduceIte] at ht
      rcases combRes_some h with e | ⟨he, hk, hall⟩ | ⟨he, hk, hp⟩
      · -- the node answered with the value itself: null at a nullable node (excluded) or no branches
        subst e
        exfalso
        unfold combRes at h
        simp only [hn, Bool.false_and, Bool.false_eq_true, ↓reduceIte] at h
        cases hbs : bs with
        | nil => subst hbs; cases k <;> simp [touchedChain, touchedMatched] at ht
        | cons b r =>
          subst hbs
          simp only [List.isEmpty_cons, Bool.false_eq_true, ↓reduceIte] at h
          -- a branch forwarded the value unchanged although it was touched: impossible by the induction hypothesis
          cases k with
          | allOf =>
            simp only at h ht
            have := visitAll_touched_grows c (b :: r) ih v' v' h ht
            omega
          | anyOf =>
            simp only at h ht
            obtain ⟨pre, b', post, e, hpre, hv⟩ := comb_matched c .anyOf (by simp) (b :: r) v' v' h
            rw [e, touchedMatched_first c v' pre b' post v' hpre hv] at ht
            have := ih b' (by rw [e]; simp) v' v' hv ht
            omega
          | oneOf =>
            simp only at h ht
            obtain ⟨pre, b', post, e, hpre, hv⟩ := comb_matched c .oneOf (by simp) (b :: r) v' v' h
            rw [e, touchedMatched_first c v' pre b' post v' hpre hv] at ht
            have := ih b' (by rw [e]; simp) v' v' hv ht
            omega
      · subst hk; exact visitAll_touched_grows c bs ih v v' hall ht
      · obtain ⟨pre, b, post, e, hpre, hv⟩ := comb_matched c k hk bs v v' hp
        subst e
        have htm : touchedMatched c (pre ++ b :: post) v = true := by
          cases k with
          | allOf => exact absurd rfl hk
          | anyOf => exact ht
          | oneOf => exact ht
        rw [touchedMatched_first c v pre b post v' hpre hv] at htm
        exact ih b (by simp) v v' hv htm

/-- **The callback ran iff the forwarded value differs from the received one.** -/
theorem touched_iff_changed (c : Ctx) (s : S) (hw : wf s = true) (v v' : J) (h : visit c s v = some v') :
    touched c s v = true ↔ v' ≠ v := by
  constructor
  · intro ht e
    have := touched_grows c s v v' h ht
    rw [e] at this; omega
  · intro hne
    cases ht : touched c s v with
    | true => rfl
    | false => exact absurd (untouched_unchanged c s hw v v' h ht) hne

end KinModel.C13.Body
