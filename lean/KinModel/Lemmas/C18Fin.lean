/-
Helper lemmas for C18, third part (core-only): the generator terminates.
  * `gen_enough_fuel`: for every declaration list, option set and type there is an amount of fuel from which on the
    model never reports `nofuel` (the recursion of generateSchemaRefFor is bounded: along the parent chain every
    declared struct is entered at most once, between two declared structs the recursion descends into the type).
    Since 0916db1 generateCycleSchemaRef itself is structurally recursive in the model (`cycleSch` is total): there is no
    other way not to terminate.
-/
import KinModel.Lemmas.C18Gen
set_option linter.unusedSectionVars false
set_option linter.unusedSimpArgs false
set_option linter.unusedVariables false
namespace KinModel.Gen3

/-! ### how failures travel -/
theorem finishR_nf {b : Bool} {t : GoType} {r : R × St} (h : r.1 ≠ .nofuel) : (finishR b t r).1 ≠ .nofuel := by
  unfold finishR; split
  · exact h
  · obtain ⟨x, σ⟩ := r
    cases x <;> simp_all [finish]
theorem finish_nf {t : GoType} {r : R × St} (h : r.1 ≠ .nofuel) : (finish t r).1 ≠ .nofuel := by
  obtain ⟨x, σ⟩ := r
  cases x <;> simp_all [finish]
theorem custom_nf {o : Opts} {nm : String} {r : R × St} (h : r.1 ≠ .nofuel) : (custom o nm r).1 ≠ .nofuel := by
  obtain ⟨x, σ⟩ := r
  cases x <;> simp_all [custom]
  split <;> simp
theorem childOf_nf {o : Opts} {e : GoType} {r : R × St} (h : r.1 ≠ .nofuel) : (childOf o e r).1 ≠ .fail .nofuel := by
  obtain ⟨x, σ⟩ := r
  cases x <;> simp_all [childOf]
  split
  · simp
  · split <;> simp
theorem sliceOf_nf {nl : Bool} {q : Child × St} (h : q.1 ≠ .fail .nofuel) : (sliceOf nl q).1 ≠ .nofuel := by
  obtain ⟨c, σ⟩ := q
  cases c with
  | some s => simp [sliceOf]
  | skip => simp [sliceOf]
  | fail x => cases x <;> simp_all [sliceOf, Fail.toR]
theorem mapOf_nf {nl : Bool} {q : Child × St} (h : q.1 ≠ .fail .nofuel) : (mapOf nl q).1 ≠ .nofuel := by
  obtain ⟨c, σ⟩ := q
  cases c with
  | some s => simp [mapOf]
  | skip => simp [mapOf]
  | fail x => cases x <;> simp_all [mapOf, Fail.toR]
theorem structOut_nf (o : Opts) (top : Bool) (n : String) (s : Sch) (σ : St) : (structOut o top n s σ).1 ≠ .nofuel := by
  unfold structOut; split <;> simp
theorem structEnd_nf {o : Opts} {top : Bool} {nm : String} {nl : Bool} {n : String} {a : FAcc}
    (h : a.fail ≠ some .nofuel) : (structEnd o top nm nl n a).1 ≠ .nofuel := by
  unfold structEnd
  split
  · rename_i r hr
    cases r <;> simp_all [Fail.toR]
  · split
    · simp
    · simp
    · exact structOut_nf _ _ _ _ _
theorem stepField_nf {o : Opts} {c : Cand} {a : FAcc} {r : R × St} (ha : a.fail ≠ some .nofuel) (hr : r.1 ≠ .nofuel) :
    (stepField o c a r).fail ≠ some .nofuel := by
  have := childOf_nf (o := o) (e := c.ty) hr
  unfold stepField
  generalize childOf o c.ty r = q at this ⊢
  obtain ⟨ch, σ'⟩ := q
  cases ch with
  | some s => exact ha
  | skip => exact ha
  | fail x =>
    simp only
    cases hf : a.fail with
    | some y => simp only; rw [hf] at ha; exact ha
    | none => simp only; intro he; cases he; exact this rfl

/-! ### the bound -/
theorem costB_strip (K : Nat) : ∀ (t : GoType), costB K (stripPtr t) = costB K t
  | .ptr t => by simp only [stripPtr, costB]; exact costB_strip K t
  | .bool | .int _ | .float _ | .string | .bytes | .time | .slice _ | .map _ | .struct _ | .named _
  | .defd _ _ | .array _ _ | .recs _ => by simp [stripPtr]

theorem costB_pos (K : Nat) (hK : 1 ≤ K) : ∀ (t : GoType), 1 ≤ costB K t
  | .ptr t => by simp only [costB]; exact costB_pos K hK t
  | .defd _ t => by simp only [costB]; omega
  | .slice _ | .map _ | .recs _ | .struct _ => by simp only [costB]; omega
  | .named _ => by simp only [costB]; exact hK
  | .bool | .int _ | .float _ | .string | .bytes | .time | .array _ _ => by simp [costB]

def sumCost (K : Nat) : List Cand → Nat
  | [] => 0
  | c :: r => 2 + costB K c.ty + sumCost K r

theorem sumCost_append (K : Nat) : ∀ (a b : List Cand), sumCost K (a ++ b) = sumCost K a + sumCost K b
  | [], b => by simp [sumCost]
  | c :: a, b => by simp only [List.cons_append, sumCost, sumCost_append K a b]; omega

mutual
theorem sumCost_flatFs (K : Nat) : ∀ (fs : Fields) (d : Nat) (p : List Nat) (i : Nat), sumCost K (flatFs d p i fs) ≤ costFs K fs
  | [], _, _, _ => by simp [flatFs, sumCost, costFs]
  | (m, t) :: r, d, p, i => by
      simp only [flatFs, sumCost_append, costFs]
      have ih := sumCost_flatFs K r d p (i + 1)
      have he := sumCost_flatEmb K t (d + 1) (p ++ [i]) true
      split
      · simp only [sumCost]; omega
      · split
        · split
          · omega
          · split <;> simp only [sumCost] <;> omega
        · split <;> simp only [sumCost] <;> omega
theorem sumCost_flatEmb (K : Nat) : ∀ (t : GoType) (d : Nat) (p : List Nat) (ap : Bool), sumCost K (flatEmb d p ap t) ≤ costB K t
  | .struct fs, d, p, ap => by
      simp only [flatEmb, costB]
      have := sumCost_flatFs K fs d p 0
      omega
  | .ptr t, d, p, ap => by
      simp only [flatEmb, costB]
      split
      · exact sumCost_flatEmb K t d p false
      · simp [sumCost]
  | .bool, _, _, _ | .int _, _, _, _ | .float _, _, _, _ | .string, _, _, _ | .bytes, _, _, _ | .time, _, _, _ | .slice _, _, _, _
  | .map _, _, _, _ | .named _, _, _, _ | .defd _ _, _, _, _ | .array _ _, _, _, _ | .recs _, _, _, _ => by
      simp [flatEmb, sumCost]
end

theorem sumCost_insert (K : Nat) (c : Cand) : ∀ (l : List Cand), sumCost K (insertCand c l) = sumCost K (c :: l)
  | [] => by simp [insertCand]
  | x :: xs => by
      simp only [insertCand]
      split
      · rfl
      · simp only [sumCost, sumCost_insert K c xs]; omega

theorem sumCost_sort_aux (K : Nat) : ∀ (l acc : List Cand),
    sumCost K (l.foldl (fun acc c => insertCand c acc) acc) = sumCost K l + sumCost K acc
  | [], acc => by simp [sumCost]
  | c :: cs, acc => by
      simp only [List.foldl, sumCost_sort_aux K cs, sumCost_insert, sumCost]; omega

theorem sumCost_filter (K : Nat) (p : Cand → Bool) : ∀ (l : List Cand), sumCost K (l.filter p) ≤ sumCost K l
  | [] => by simp [sumCost]
  | c :: r => by
      simp only [List.filter]
      have := sumCost_filter K p r
      split <;> simp only [sumCost] <;> omega

theorem sumCost_gcands (K : Nat) (all : Bool) (fs : Fields) : sumCost K (gcands all fs) ≤ costFs K fs := by
  unfold gcands sortCands
  rw [sumCost_sort_aux]
  have h1 := sumCost_filter K (fun c => c.disc && (c.tagged || all)) (flat fs)
  have h2 := sumCost_flatFs K fs 0 [] 0
  simp only [sumCost, flat] at h1 ⊢
  omega

/-! ### levels: declared structs not yet on the parent chain -/
def unvisited (Δ : Decls) (ps : List GoType) : Nat :=
  (Δ.filter (fun d => !inParents (.named d.1) ps)).length

theorem inParents_append (b : GoType) (ps : List GoType) (c : GoType) :
    inParents b (ps ++ [c]) = (inParents b ps || GoType.beq b c) := by
  simp [inParents, List.any_append]

theorem filter_len_le {α} (p q : α → Bool) (h : ∀ x, p x = true → q x = true) :
    ∀ (l : List α), (l.filter p).length ≤ (l.filter q).length
  | [] => by simp
  | x :: r => by
      have ih := filter_len_le p q h r
      simp only [List.filter]
      cases hp : p x with
      | true => simp [h x hp]; exact ih
      | false =>
        cases hq : q x with
        | true => simp; omega
        | false => simp; exact ih

theorem filter_len_lt {α} (p q : α → Bool) (h : ∀ x, p x = true → q x = true) :
    ∀ (l : List α), (∃ x, x ∈ l ∧ q x = true ∧ p x = false) → (l.filter p).length + 1 ≤ (l.filter q).length
  | [], ⟨x, hx, _⟩ => by cases hx
  | y :: r, ⟨x, hx, hq, hp⟩ => by
      simp only [List.filter]
      rcases List.mem_cons.mp hx with rfl | hx'
      · simp [hq, hp]
        exact filter_len_le p q h r
      · have ih := filter_len_lt p q h r ⟨x, hx', hq, hp⟩
        cases hpy : p y with
        | true => simp [h y hpy]; exact ih
        | false =>
          cases hqy : q y with
          | true => simp; omega
          | false => simp; exact ih

theorem unvisited_append (Δ : Decls) (ps : List GoType) (b : GoType) : unvisited Δ (ps ++ [b]) ≤ unvisited Δ ps := by
  unfold unvisited
  apply filter_len_le
  intro d hd
  simp only [inParents_append, Bool.not_eq_true', Bool.or_eq_false_iff] at hd
  simp [hd.1]

theorem unvisited_named {Δ : Decls} {ps : List GoType} {n : String} {fs : Fields} (hl : lookup n Δ = some fs)
    (hn : inParents (.named n) ps = false) : unvisited Δ (ps ++ [.named n]) + 1 ≤ unvisited Δ ps := by
  unfold unvisited
  apply filter_len_lt
  · intro d hd
    simp only [inParents_append, Bool.not_eq_true', Bool.or_eq_false_iff] at hd
    simp [hd.1]
  · exact ⟨(n, fs), lookup_mem hl, by simp [hn], by simp [inParents_append, GoType.beq]⟩

/-- 1 for a declared struct (entering it lowers the level), 0 otherwise -/
def named1 (Δ : Decls) : GoType → Nat
  | .named n => if (lookup n Δ).isSome then 1 else 0
  | _ => 0

theorem costΔ_ge {K : Nat} : ∀ {Δ : Decls} {n : String} {fs : Fields}, lookup n Δ = some fs → costFs K fs ≤ costΔ K Δ
  | [], _, _, h => by simp [lookup] at h
  | (n', fs') :: r, n, fs, h => by
      simp only [lookup] at h
      simp only [costΔ]
      split at h
      · cases h; exact Nat.le_max_left _ _
      · exact Nat.le_trans (costΔ_ge h) (Nat.le_max_right _ _)

theorem lvlCost_pos (Δ : Decls) : ∀ k, 1 ≤ lvlCost Δ k
  | 0 => by simp [lvlCost]
  | k + 1 => by simp only [lvlCost]; omega

section Fin
variable (Δ : Decls) (o : Opts)

/-- "genRef on `t` does not run out of fuel below the chain `ps`" with the bound for constant K -/
def PR (K : Nat) (ps : List GoType) (t : GoType) : Prop :=
  ∀ nm σ fuel, 1 + costB K t ≤ fuel → (genRef Δ o fuel ps nm t σ).1 ≠ .nofuel

/-- the field loop: enough fuel for every field in turn -/
theorem fields_nf (K : Nat) (ps : List GoType) : ∀ (cs : List Cand) (fuel : Nat) (a : FAcc),
    (∀ c, c ∈ cs → PR Δ o K ps c.ty) → sumCost K cs ≤ fuel → a.fail ≠ some .nofuel →
    (genFields Δ o fuel ps cs a).fail ≠ some .nofuel
  | [], fuel, a, _, _, ha => by
      cases fuel <;> simp only [genFields] <;> exact ha
  | c :: cs, 0, a, _, hf, _ => by simp [sumCost] at hf
  | c :: cs, fuel + 1, a, hP, hf, ha => by
      simp only [genFields]
      simp only [sumCost] at hf
      apply fields_nf K ps cs fuel _ (fun c' hc' => hP c' (List.mem_cons_of_mem _ hc')) (by omega)
      exact stepField_nf ha (hP c (by simp) _ _ fuel (by omega))

/-- the level-k statement: below a chain with at most k declared structs unvisited, `1 + costB (lvlCost k) t` fuel is
    enough for `t` -/
def Stmt (k : Nat) : Prop := ∀ ps t, unvisited Δ ps ≤ k → PR Δ o (lvlCost Δ k) ps t

/-- genBody on a pointer-stripped type, below a chain that already contains it -/
def PB (k : Nat) (b : GoType) : Prop :=
  ∀ ps top nm nl σ fuel, unvisited Δ ps + named1 Δ b ≤ k → costB (lvlCost Δ k) b ≤ fuel →
    (genBody Δ o fuel ps top nm nl b σ).1 ≠ .nofuel

theorem pr_of_pb {k : Nat} {t : GoType} (h : PB Δ o k (stripPtr t)) : ∀ ps, unvisited Δ ps ≤ k → PR Δ o (lvlCost Δ k) ps t := by
  intro ps hu nm σ fuel hf
  cases fuel with
  | zero => omega
  | succ f =>
    simp only [genRef]
    split
    · simp
    · split
      · simp
      · rename_i hnp
        apply finishR_nf
        apply h
        · -- level after pushing the type
          cases hb : stripPtr t with
          | named n =>
            simp only [named1]
            cases hl : lookup n Δ with
            | none => simpa using Nat.le_trans (unvisited_append Δ ps (.named n)) hu
            | some fs =>
              simp only [Option.isSome, if_true]
              rw [hb] at hnp
              have := unvisited_named (ps := ps) hl (by simpa using hnp)
              omega
          | _ => simp only [named1, Nat.add_zero]; exact Nat.le_trans (unvisited_append Δ ps _) hu
        · rw [costB_strip]; omega

/-- the recursive container types: two more rounds reach the cycle test -/
theorem recs_nf (m : Bool) (ps : List GoType) (top : Bool) (nm : String) (nl : Bool) (σ : St) (fuel : Nat) (hf : 5 ≤ fuel) :
    (genBody Δ o fuel ps top nm nl (.recs m) σ).1 ≠ .nofuel := by
  obtain ⟨f1, rfl⟩ : ∃ f1, fuel = f1 + 5 := ⟨fuel - 5, by omega⟩
  -- inner genRef with fuel f1 + 4
  have inner2 : ∀ (ps' : List GoType) σ', inParents (.recs m) ps' = true → (genRef Δ o (f1 + 2) ps' nm (.recs m) σ').1 ≠ .nofuel := by
    intro ps' σ' hin
    simp only [genRef]
    split
    · simp
    · simp [stripPtr, hin]
  have body2 : ∀ (ps' : List GoType) top' nl' σ', inParents (.recs m) ps' = true →
      (genBody Δ o (f1 + 3) ps' top' nm nl' (.recs m) σ').1 ≠ .nofuel := by
    intro ps' top' nl' σ' hin
    simp only [genBody]
    apply custom_nf
    cases m
    · simp only [Bool.false_eq_true, if_false]; exact sliceOf_nf (childOf_nf (inner2 ps' σ' hin))
    · simp only [if_true]; exact mapOf_nf (childOf_nf (inner2 ps' σ' hin))
  have inner1 : (genRef Δ o (f1 + 4) ps nm (.recs m) σ).1 ≠ .nofuel := by
    simp only [genRef]
    split
    · simp
    · split
      · simp
      · apply finishR_nf
        exact body2 _ _ _ _ (by simp [inParents_append, stripPtr, GoType.beq])
  simp only [genBody]
  apply custom_nf
  cases m
  · simp only [Bool.false_eq_true, if_false]; exact sliceOf_nf (childOf_nf inner1)
  · simp only [if_true]; exact mapOf_nf (childOf_nf inner1)

-- for a fixed level k, given the statement of the level below: by recursion on the type
mutual
theorem pb_all (k : Nat) (hprev : ∀ j, j + 1 = k → Stmt Δ o j) : ∀ (t : GoType), PB Δ o k (stripPtr t)
  | .ptr x => by simp only [stripPtr]; exact pb_all k hprev x
  | .bool => by
      intro ps top nm nl σ fuel _ hf
      cases fuel with
      | zero => simp [stripPtr, costB] at hf
      | succ f => simp only [stripPtr, genBody]; exact custom_nf (by simp)
  | .int _ => by
      intro ps top nm nl σ fuel _ hf
      cases fuel with
      | zero => simp [stripPtr, costB] at hf
      | succ f => simp only [stripPtr, genBody]; exact custom_nf (by simp)
  | .float _ => by
      intro ps top nm nl σ fuel _ hf
      cases fuel with
      | zero => simp [stripPtr, costB] at hf
      | succ f => simp only [stripPtr, genBody]; exact custom_nf (by simp)
  | .string => by
      intro ps top nm nl σ fuel _ hf
      cases fuel with
      | zero => simp [stripPtr, costB] at hf
      | succ f => simp only [stripPtr, genBody]; exact custom_nf (by simp)
  | .bytes => by
      intro ps top nm nl σ fuel _ hf
      cases fuel with
      | zero => simp [stripPtr, costB] at hf
      | succ f => simp only [stripPtr, genBody]; exact custom_nf (by simp)
  | .time => by
      intro ps top nm nl σ fuel _ hf
      cases fuel with
      | zero => simp [stripPtr, costB] at hf
      | succ f => simp only [stripPtr, genBody]; exact custom_nf (by simp)
  | .array _ _ => by
      intro ps top nm nl σ fuel _ hf
      cases fuel with
      | zero => simp [stripPtr, costB] at hf
      | succ f => simp only [stripPtr, genBody]; exact custom_nf (by simp)
  | .recs m => by
      intro ps top nm nl σ fuel _ hf
      simp only [stripPtr, costB] at hf ⊢
      exact recs_nf Δ o m ps top nm nl σ fuel hf
  | .defd n t => by
      intro ps top nm nl σ fuel hu hf
      simp only [stripPtr, costB] at hf hu ⊢
      cases fuel with
      | zero => omega
      | succ f =>
        simp only [genBody]
        split
        · simp
        · rename_i hsk
          by_cases hp : isPtr t = true
          · obtain ⟨x, rfl⟩ := isPtr_elim hp
            cases f with
            | zero => have := costB_pos (lvlCost Δ k) (lvlCost_pos Δ k) (.ptr x); omega
            | succ f' => simp [genBody]
          · have hp' : isPtr t = false := by cases h : isPtr t with | true => exact absurd h hp | false => rfl
            have := pb_all k hprev t
            rw [stripPtr_of_not_ptr hp'] at this
            refine this ps top nm nl σ f ?_ (by omega)
            -- `t` is not a declared struct: its kind is not Struct
            have : named1 Δ t = 0 := by
              cases t <;> simp [named1]
              simp [isStructKind, under] at hsk
            simp only [named1] at hu
            omega
  | .slice e => by
      intro ps top nm nl σ fuel hu hf
      simp only [stripPtr, costB, named1, Nat.add_zero] at hf hu ⊢
      cases fuel with
      | zero => omega
      | succ f =>
        simp only [genBody]
        split
        · exact custom_nf (by simp)
        · apply custom_nf
          apply sliceOf_nf
          apply childOf_nf
          exact pr_of_pb Δ o (pb_all k hprev e) ps hu nm σ f (by omega)
  | .map e => by
      intro ps top nm nl σ fuel hu hf
      simp only [stripPtr, costB, named1, Nat.add_zero] at hf hu ⊢
      cases fuel with
      | zero => omega
      | succ f =>
        simp only [genBody]
        apply custom_nf
        apply mapOf_nf
        apply childOf_nf
        exact pr_of_pb Δ o (pb_all k hprev e) ps hu nm σ f (by omega)
  | .struct fs => by
      intro ps top nm nl σ fuel hu hf
      simp only [stripPtr, costB, named1, Nat.add_zero] at hf hu ⊢
      cases fuel with
      | zero => omega
      | succ f =>
        simp only [genBody]
        split
        · simp
        · apply structEnd_nf
          apply fields_nf Δ o (lvlCost Δ k) ps
          · intro c hc
            exact pfs_all k hprev fs 0 [] 0 c (mem_gcands hc) ps hu
          · exact Nat.le_trans (sumCost_gcands _ _ _) (by omega)
          · simp
  | .named n => by
      intro ps top nm nl σ fuel hu hf
      simp only [stripPtr, costB] at hf hu ⊢
      cases fuel with
      | zero => have := lvlCost_pos Δ k; omega
      | succ f =>
        simp only [genBody]
        split
        · simp
        · apply structEnd_nf
          cases hl : lookup n Δ with
          | none =>
            simp only [Option.getD, gcands, flat, flatFs, List.filter, sortCands, List.foldl]
            cases f <;> simp [genFields]
          | some fs =>
            simp only [named1, hl, Option.isSome, if_true] at hu
            cases k with
            | zero => omega
            | succ j =>
              have hS := hprev j rfl
              simp only [Option.getD]
              apply fields_nf Δ o (lvlCost Δ j) ps
              · intro c _
                exact hS ps c.ty (by omega)
              · have h1 := sumCost_gcands (lvlCost Δ j) o.all fs
                have h2 := costΔ_ge (K := lvlCost Δ j) hl
                simp only [lvlCost] at hf
                omega
              · simp
theorem pfs_all (k : Nat) (hprev : ∀ j, j + 1 = k → Stmt Δ o j) : ∀ (fs : Fields) (d : Nat) (p : List Nat) (i : Nat),
    ∀ c, c ∈ flatFs d p i fs → ∀ ps, unvisited Δ ps ≤ k → PR Δ o (lvlCost Δ k) ps c.ty
  | [], _, _, _, c, hc, _, _ => by simp [flatFs] at hc
  | (m, t) :: r, d, p, i, c, hc, ps, hu => by
      simp only [flatFs, List.mem_append] at hc
      rcases hc with hc | hc
      · split at hc
        · cases hc
        · split at hc
          · split at hc
            · exact pemb_all k hprev t (d + 1) (p ++ [i]) true c hc ps hu
            · split at hc
              · simp only [List.mem_singleton] at hc
                subst hc
                exact pr_of_pb Δ o (pb_all k hprev t) ps hu
              · cases hc
          · split at hc
            · cases hc
            · simp only [List.mem_singleton] at hc
              subst hc
              exact pr_of_pb Δ o (pb_all k hprev t) ps hu
      · exact pfs_all k hprev r d p (i + 1) c hc ps hu
theorem pemb_all (k : Nat) (hprev : ∀ j, j + 1 = k → Stmt Δ o j) : ∀ (t : GoType) (d : Nat) (p : List Nat) (ap : Bool),
    ∀ c, c ∈ flatEmb d p ap t → ∀ ps, unvisited Δ ps ≤ k → PR Δ o (lvlCost Δ k) ps c.ty
  | .struct fs, d, p, ap, c, hc, ps, hu => by
      simp only [flatEmb] at hc
      exact pfs_all k hprev fs d p 0 c hc ps hu
  | .ptr t, d, p, ap, c, hc, ps, hu => by
      simp only [flatEmb] at hc
      split at hc
      · exact pemb_all k hprev t d p false c hc ps hu
      · cases hc
  | .bool, _, _, _, _, hc, _, _ | .int _, _, _, _, _, hc, _, _ | .float _, _, _, _, _, hc, _, _ | .string, _, _, _, _, hc, _, _
  | .bytes, _, _, _, _, hc, _, _ | .time, _, _, _, _, hc, _, _ | .slice _, _, _, _, _, hc, _, _ | .map _, _, _, _, _, hc, _, _
  | .named _, _, _, _, _, hc, _, _ | .defd _ _, _, _, _, _, hc, _, _ | .array _ _, _, _, _, _, hc, _, _
  | .recs _, _, _, _, _, hc, _, _ => by simp [flatEmb] at hc
end

theorem stmt_all : ∀ k, Stmt Δ o k
  | 0 => fun ps t hu => pr_of_pb Δ o (pb_all Δ o 0 (fun j hj => by omega) t) ps hu
  | k + 1 => fun ps t hu =>
      pr_of_pb Δ o (pb_all Δ o (k + 1) (fun j hj => by
        have : j = k := by omega
        subst this; exact stmt_all j) t) ps hu

theorem unvisited_le (ps : List GoType) : unvisited Δ ps ≤ Δ.length := by
  unfold unvisited; exact List.length_filter_le _ _

theorem gen_enough_fuel (t : GoType) (fuel : Nat) (h : enoughFuel Δ t ≤ fuel) : (genRoot Δ o fuel t).1 ≠ .nofuel := by
  unfold genRoot
  exact stmt_all Δ o Δ.length [] t (unvisited_le Δ []) "_root" {} fuel h

end Fin

end KinModel.Gen3
