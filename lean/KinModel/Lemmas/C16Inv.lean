/-
C16 — invariants of the primitive steps of the descent of InternalizeRefs (KinModel/Internalize.lean), from which
`Props/C16.lean` derives the document-level theorems. Helper lemmas only.
-/
import KinModel.Lemmas.C16Descent
namespace KinModel.Internalize
open KinModel.RefName

/-! ### arrays -/

theorem get_set (a : Array Str) (i j : Nat) (v : Str) :
    (a.set! i v)[j]! = if i = j ∧ i < a.size then v else a[j]! := by
  simp only [Array.set!_eq_setIfInBounds, Array.getElem!_eq_getD, Array.getD_eq_getD_getElem?,
    Array.getElem?_setIfInBounds]
  by_cases hij : i = j
  · subst hij
    by_cases hi : i < a.size
    · simp [hi]
    · have : a[i]? = none := by simp; omega
      simp [hi, this]
  · simp [hij]

theorem get_set_ne (a : Array Str) (i j : Nat) (v : Str) (hne : i ≠ j) : (a.set! i v)[j]! = a[j]! := by
  rw [get_set]; simp [hne]

theorem get_oob (a : Array Str) (j : Nat) (hj : a.size ≤ j) : a[j]! = [] := by
  simp only [Array.getElem!_eq_getD, Array.getD_eq_getD_getElem?]
  have : a[j]? = none := by simp; omega
  simp [this]
  rfl

/-- a cell whose text is not empty is a cell of the array -/
theorem lt_of_get_ne (a : Array Str) (j : Nat) (hne : a[j]! ≠ []) : j < a.size := by
  apply Classical.byContradiction
  intro hn
  exact hne (get_oob a j (by omega))

theorem get_set_self (a : Array Str) (i : Nat) (v : Str) (hi : i < a.size) : (a.set! i v)[i]! = v := by
  rw [get_set]; simp [hi]

/-! ### texts -/

theorem isPrefix_append (p x : Str) : isPrefix p (p ++ x) = true := by
  induction p with
  | nil => simp [isPrefix]
  | cons a t ih => simp [isPrefix, ih]

theorem compPre_length : compPre.length = 13 := by decide

theorem hasCompPrefix_mkRef (k nm : Str) : hasCompPrefix (mkRef k nm) = true := by
  unfold hasCompPrefix mkRef
  exact isPrefix_append _ _

theorem mkRef_ne_nil (k nm : Str) : mkRef k nm ≠ [] := by
  unfold mkRef compPre
  simp

theorem mkRef_drop (k nm : Str) : (mkRef k nm).drop 13 = k ++ '/' :: nm := by
  unfold mkRef
  rw [← compPre_length]
  exact List.drop_left

theorem intText_mkRef (k nm : Str) : intText (mkRef k nm) = true := by
  simp [intText, hasCompPrefix_mkRef]

theorem intText_of_not_external (r : Str) (p : Bool) (hx : isExternalRef r p = false) : intText r = true := by
  unfold isExternalRef at hx
  unfold intText
  cases hr : r.isEmpty with
  | true => simp
  | false =>
    cases hp : hasCompPrefix r with
    | true => simp
    | false => simp [hr, hp] at hx

theorem isExternal_ne_nil (r : Str) (p : Bool) (hx : isExternalRef r p = true) : r ≠ [] := by
  intro h0
  subst h0
  simp [isExternalRef] at hx

def noSlash (s : Str) : Prop := ∀ x ∈ s, x ≠ '/'

theorem splitSlash_noSlash : ∀ (s : Str), noSlash s → splitSlash s = [s]
  | [], _ => by simp [splitSlash]
  | c :: cs, hs => by
    have hc : c ≠ '/' := hs c (by simp)
    have ih := splitSlash_noSlash cs (fun x hx => hs x (by simp [hx]))
    simp [splitSlash, ih, hc]

theorem splitSlash_two : ∀ (k nm : Str), noSlash k → noSlash nm → splitSlash (k ++ '/' :: nm) = [k, nm]
  | [], nm, _, hn => by
    have := splitSlash_noSlash nm hn
    simp [splitSlash, this]
  | c :: cs, nm, hk, hn => by
    have hc : c ≠ '/' := hk c (by simp)
    have ih := splitSlash_two cs nm (fun x hx => hk x (by simp [hx])) hn
    simp [splitSlash, ih, hc]

theorem noSlash_of_ident (s : Str) (hs : ∀ x ∈ s, identChar x = true) : noSlash s := by
  intro x hx h0
  have := hs x hx
  rw [h0] at this
  revert this
  decide

theorem noSlash_of_contains (s : Str) (hs : s.contains '/' = false) : noSlash s := by
  intro x hx h0
  subst h0
  have : s.contains '/' = true := by simp [hx]
  rw [hs] at this
  cases this

/-! ### the components table -/

theorem keyIs_iff (k nm : Str) (e : Str × Str × Comp) : keyIs k nm e = true ↔ e.1 = k ∧ e.2.1 = nm := by
  simp [keyIs]

theorem lookup_setCompL_same : ∀ (l : List (Str × Str × Comp)) (k nm : Str) (c : Comp),
    ((setCompL l k nm c).find? (keyIs k nm)).map (·.2.2) = some c
  | [], k, nm, c => by simp [setCompL, keyIs]
  | e :: l, k, nm, c => by
    unfold setCompL
    by_cases he : keyIs k nm e = true
    · simp only [he, if_true]
      simp [keyIs]
    · simp only [he, Bool.false_eq_true, if_false]
      rw [List.find?_cons]
      simp only [he]
      exact lookup_setCompL_same l k nm c

theorem lookup_setCompL_other : ∀ (l : List (Str × Str × Comp)) (k nm k' nm' : Str) (c : Comp),
    ¬(k' = k ∧ nm' = nm) → (setCompL l k nm c).find? (keyIs k' nm') = l.find? (keyIs k' nm')
  | [], k, nm, k', nm', c, hne => by
    have : keyIs k' nm' (k, nm, c) = false := by
      cases hk : keyIs k' nm' (k, nm, c) with
      | false => rfl
      | true => rw [keyIs_iff] at hk; exact absurd ⟨hk.1.symm, hk.2.symm⟩ hne
    simp [setCompL, this]
  | e :: l, k, nm, k', nm', c, hne => by
    unfold setCompL
    by_cases he : keyIs k nm e = true
    · simp only [he, if_true]
      have h1 : keyIs k' nm' (k, nm, c) = false := by
        cases hk : keyIs k' nm' (k, nm, c) with
        | false => rfl
        | true => rw [keyIs_iff] at hk; exact absurd ⟨hk.1.symm, hk.2.symm⟩ hne
      have h2 : keyIs k' nm' e = false := by
        cases hk : keyIs k' nm' e with
        | false => rfl
        | true =>
          rw [keyIs_iff] at hk he
          exact absurd ⟨hk.1.symm.trans he.1, hk.2.symm.trans he.2⟩ hne
      simp [h1, h2]
    · simp only [he, Bool.false_eq_true, if_false]
      rw [List.find?_cons, List.find?_cons]
      rw [lookup_setCompL_other l k nm k' nm' c hne]


/-! ### what one add<Kind>ToSpec call does -/

/-- a successful add<Kind>ToSpec call that rewrote cell `c`: name `nm`, logged event `ev` -/
structure Rewrote (h : Heap) (s : St) (c : Nat) (pext : Bool) (s' : St) (nm : Str) (ev : Ev) : Prop where
  ext : isExternalRef s.refs[c]! pext = true
  hasVal : 0 ≤ (cellOf h c).val
  name : ∃ amb, defaultName (rootInfo h s (cellOf h c).k)
            { ref := s.refs[c]!, refPath := (cellOf h c).refPath, coll := (cellOf h c).k } = .name nm amb
  refs : s'.refs = s.refs.set! c (mkRef (cellOf h c).k nm)
  pirefs : s'.pirefs = s.pirefs
  visP : s'.visP = s.visP
  log : s'.log = ev :: s.log
  evc : ev.cell = c
  evn : ev.name? = some nm
  evp : ev.pext = pext
  comps :
    (lookup s (cellOf h c).k nm = none ∧ ev = .added c nm pext ∧
       s'.comps = setCompL s.comps (cellOf h c).k nm (.fresh (cellOf h c).val)) ∨
    (∃ e, lookup s (cellOf h c).k nm = some e ∧
       ev = .reused c nm (ccOf h (compVal h e) == ccOf h (cellOf h c).val) pext ∧
       (s'.comps = s.comps ∨
        ((cellOf h c).k = callbacksK ∧ s'.comps = setCompL s.comps (cellOf h c).k nm (.fresh (cellOf h c).val))))

theorem addCore_cases (h : Heap) (s : St) (c : Nat) (pext b : Bool) (s' : St)
    (hr : addCore h s c pext = .ok (b, s')) :
    (((cellOf h c).val < 0 ∨ isExternalRef s.refs[c]! pext = false) ∧ b = false ∧
      s' = { s with log := .notExternal c pext :: s.log }) ∨
    (b = true ∧ ∃ nm ev, Rewrote h s c pext s' nm ev) := by
  unfold addCore at hr
  simp only [] at hr
  by_cases hv : (cellOf h c).val < 0
  · simp only [hv, decide_true, Bool.true_or, if_true] at hr
    cases hr
    exact Or.inl ⟨Or.inl hv, rfl, rfl⟩
  have hv' : 0 ≤ (cellOf h c).val := by omega
  by_cases hx : isExternalRef s.refs[c]! pext = true
  · simp only [hv, decide_false, Bool.false_or, hx, Bool.not_true, Bool.false_eq_true, if_false] at hr
    right
    split at hr
    · cases hr
    · cases hr
    · rename_i nm amb hname
      split at hr
      · rename_i e hl
        split at hr
        · rename_i hk
          cases hr
          exact ⟨rfl, nm, _, ⟨hx, hv', ⟨amb, hname⟩, rfl, rfl, rfl, rfl, rfl, rfl, rfl,
            Or.inr ⟨e, hl, rfl, Or.inr ⟨by simpa using hk, rfl⟩⟩⟩⟩
        · cases hr
          exact ⟨rfl, nm, _, ⟨hx, hv', ⟨amb, hname⟩, rfl, rfl, rfl, rfl, rfl, rfl, rfl, Or.inr ⟨e, hl, rfl, Or.inl rfl⟩⟩⟩
      · rename_i hl
        cases hr
        exact ⟨rfl, nm, _, ⟨hx, hv', ⟨amb, hname⟩, rfl, rfl, rfl, rfl, rfl, rfl, rfl, Or.inl ⟨hl, rfl, rfl⟩⟩⟩
  · have hx' : isExternalRef s.refs[c]! pext = false := by simpa using hx
    simp only [hv, decide_false, Bool.false_or, hx', Bool.not_false, if_true] at hr
    cases hr
    exact Or.inl ⟨Or.inr hx', rfl, rfl⟩


/-! ### invariants of the primitive steps -/

/-- the cells add<Kind>ToSpec was called on -/
def touched (s : St) : List Nat := s.log.map Ev.cell

def isColl : Ev → Bool
  | .reused _ _ same _ => !same
  | _ => false

theorem nameCollision_cons (ev : Ev) (s s' : St) (hl : s'.log = ev :: s.log) :
    NameCollision s' = (isColl ev || NameCollision s) := by
  unfold NameCollision
  rw [hl]
  cases ev <;> simp [isColl]

theorem set_cases (a : Array Str) (i j : Nat) (v : Str) : (a.set! i v)[j]! = v ∨ (a.set! i v)[j]! = a[j]! := by
  rw [get_set]
  by_cases hc : i = j ∧ i < a.size
  · left; rw [if_pos hc]
  · right; rw [if_neg hc]

theorem set_nil_cases (a : Array Str) (i j : Nat) : (a.set! i [])[j]! = [] ∨ (i ≠ j ∧ (a.set! i [])[j]! = a[j]!) := by
  by_cases hij : i = j
  · left
    subst hij
    rw [get_set]
    by_cases hi : i < a.size
    · rw [if_pos ⟨rfl, hi⟩]
    · rw [if_neg (fun hc => hi hc.2)]; exact get_oob a i (by omega)
  · right
    exact ⟨hij, get_set_ne a i j [] hij⟩

/-- (i) every visited cell holds an empty text or one under `#/components/` -/
def InvText (h : Heap) (s : St) : Prop := ∀ c ∈ touched s, 0 ≤ valOf h c → intText s.refs[c]! = true

theorem invText_step (h : Heap) (s t : St) (hi : InvText h s) (st : Step h s t) : InvText h t := by
  cases st with
  | add c pext b _ hr =>
    rcases addCore_cases h s c pext b t hr with ⟨hx, _, ht⟩ | ⟨_, nm, ev, rw⟩
    · subst ht
      intro x hxm hv
      simp only [touched, List.map_cons, List.mem_cons] at hxm
      rcases hxm with hxc | hxo
      · simp only [Ev.cell] at hxc; subst hxc
        rcases hx with hneg | hne
        · exfalso; unfold valOf at hv; omega
        · exact intText_of_not_external _ _ hne
      · exact hi x hxo hv
    · intro x hxm hv
      simp only [touched, rw.log, List.map_cons, List.mem_cons] at hxm
      rw [rw.refs]
      by_cases hxc : c = x
      · subst hxc
        rw [get_set_self _ _ _ (lt_of_get_ne _ _ (isExternal_ne_nil _ _ rw.ext))]
        exact intText_mkRef _ _
      · rw [get_set_ne _ _ _ _ hxc]
        rcases hxm with hxe | hxo
        · rw [rw.evc] at hxe; exact absurd hxe.symm hxc
        · exact hi x hxo hv
  | clear c =>
    intro x hxm hv
    rcases set_nil_cases s.refs c x with h0 | ⟨_, h1⟩
    · show intText ((s.refs.set! c [])[x]!) = true
      rw [h0]; rfl
    · show intText ((s.refs.set! c [])[x]!) = true
      rw [h1]; exact hi x hxm hv
  | enter p fl => exact hi
  | silent _ hr _ _ hl _ _ =>
    intro x hxm hv
    rw [hr]
    apply hi _ _ hv
    simpa [touched, hl] using hxm

/-- a cell that was loaded with an empty text keeps it -/
def InvEmpty (h : Heap) (s : St) : Prop := ∀ c, origRef h c = [] → s.refs[c]! = []

theorem invEmpty_step (h : Heap) (s t : St) (hi : InvEmpty h s) (st : Step h s t) : InvEmpty h t := by
  cases st with
  | add c pext b _ hr =>
    rcases addCore_cases h s c pext b t hr with ⟨_, _, ht⟩ | ⟨_, nm, ev, rw⟩
    · subst ht; exact hi
    · intro x hx0
      rw [rw.refs]
      by_cases hxc : c = x
      · subst hxc
        exact absurd (hi c hx0) (isExternal_ne_nil _ _ rw.ext)
      · rw [get_set_ne _ _ _ _ hxc]; exact hi x hx0
  | clear c =>
    intro x hx0
    rcases set_nil_cases s.refs c x with h0 | ⟨_, h1⟩
    · exact h0
    · show (s.refs.set! c [])[x]! = []
      rw [h1]; exact hi x hx0
  | enter p fl => exact hi
  | silent _ hr _ _ _ _ _ =>
    intro x hx0
    rw [hr]; exact hi x hx0

/-- every cell is empty, as loaded, or was given the name of a logged event -/
def InvShape (h : Heap) (s : St) : Prop :=
  ∀ c, s.refs[c]! = [] ∨ s.refs[c]! = origRef h c ∨
    ∃ ev ∈ s.log, ev.cell = c ∧ ∃ nm, ev.name? = some nm ∧ s.refs[c]! = mkRef (cellOf h c).k nm

theorem invShape_step (h : Heap) (s t : St) (hi : InvShape h s) (st : Step h s t) : InvShape h t := by
  cases st with
  | add c pext b _ hr =>
    rcases addCore_cases h s c pext b t hr with ⟨_, _, ht⟩ | ⟨_, nm, ev, rw⟩
    · subst ht
      intro x
      rcases hi x with h0 | h1 | ⟨ev, hev, hc, nm, hn, hr⟩
      · exact Or.inl h0
      · exact Or.inr (Or.inl h1)
      · exact Or.inr (Or.inr ⟨ev, List.mem_cons_of_mem _ hev, hc, nm, hn, hr⟩)
    · intro x
      rw [rw.refs, rw.log]
      by_cases hxc : c = x
      · subst hxc
        right; right
        refine ⟨ev, List.mem_cons_self, rw.evc, nm, rw.evn, ?_⟩
        exact get_set_self _ _ _ (lt_of_get_ne _ _ (isExternal_ne_nil _ _ rw.ext))
      · rw [get_set_ne _ _ _ _ hxc]
        rcases hi x with h0 | h1 | ⟨ev', hev, hc, nm', hn, hr⟩
        · exact Or.inl h0
        · exact Or.inr (Or.inl h1)
        · exact Or.inr (Or.inr ⟨ev', List.mem_cons_of_mem _ hev, hc, nm', hn, hr⟩)
  | clear c =>
    intro x
    rcases set_nil_cases s.refs c x with h0 | ⟨_, h1⟩
    · exact Or.inl h0
    · show (s.refs.set! c [])[x]! = [] ∨ (s.refs.set! c [])[x]! = origRef h x ∨ _
      rw [h1]; exact hi x
  | enter p fl => exact hi
  | silent _ hr _ _ hl _ _ =>
    intro x
    rw [hr, hl]; exact hi x

/-- the component `<k>/<nm>` of the evolving document holds content of the class of value `v` -/
def Holds (h : Heap) (s : St) (k nm : Str) (v : Int) : Prop :=
  ∃ e, lookup s k nm = some e ∧ ccOf h (compVal h e) = ccOf h v

theorem holds_congr (h : Heap) (s t : St) (hc : t.comps = s.comps) (k nm : Str) (v : Int)
    (hh : Holds h s k nm v) : Holds h t k nm v := by
  obtain ⟨e, hl, hcc⟩ := hh
  exact ⟨e, by unfold lookup at hl ⊢; rw [hc]; exact hl, hcc⟩

theorem lookup_set_same (s t : St) (k nm : Str) (c : Comp) (hc : t.comps = setCompL s.comps k nm c) :
    lookup t k nm = some c := by
  unfold lookup; rw [hc]; exact lookup_setCompL_same _ _ _ _

theorem lookup_set_other (s t : St) (k nm k' nm' : Str) (c : Comp) (hc : t.comps = setCompL s.comps k nm c)
    (hne : ¬(k' = k ∧ nm' = nm)) : lookup t k' nm' = lookup s k' nm' := by
  unfold lookup; rw [hc, lookup_setCompL_other _ _ _ _ _ _ hne]

/-- unless a name collision was logged, every name handed out still designates content of the class of the value of
the cell it was handed out for -/
def InvNames (h : Heap) (s : St) : Prop :=
  NameCollision s = false → ∀ ev ∈ s.log, ∀ nm, ev.name? = some nm → Holds h s (cellOf h ev.cell).k nm (valOf h ev.cell)

theorem invNames_step (h : Heap) (s t : St) (hi : InvNames h s) (st : Step h s t) : InvNames h t := by
  cases st with
  | add c pext b _ hr =>
    rcases addCore_cases h s c pext b t hr with ⟨_, _, ht⟩ | ⟨_, nm, ev, rw⟩
    · subst ht
      intro hnc ev hev nm hn
      have hnc' : NameCollision s = false := by
        have := nameCollision_cons (.notExternal c pext) s { s with log := .notExternal c pext :: s.log } rfl
        rw [this] at hnc; simpa [isColl] using hnc
      simp only [List.mem_cons] at hev
      rcases hev with he | he
      · subst he; simp [Ev.name?] at hn
      · exact holds_congr h s _ rfl _ _ _ (hi hnc' ev he nm hn)
    · intro hnc ev' hev nm' hn
      have hsplit := nameCollision_cons ev s t rw.log
      rw [hsplit] at hnc
      have hcoll : isColl ev = false := by
        cases hq : isColl ev with
        | false => rfl
        | true => simp [hq] at hnc
      have hnc' : NameCollision s = false := by simpa [hcoll] using hnc
      rw [rw.log] at hev
      simp only [List.mem_cons] at hev
      rcases rw.comps with ⟨hnone, hev0, hcomps⟩ | ⟨e, hsome, hev0, hcomps⟩
      · -- a new component
        rcases hev with he | he
        · subst he
          rw [rw.evn] at hn; cases hn
          rw [rw.evc]
          exact ⟨_, lookup_set_same s t _ _ _ hcomps, rfl⟩
        · obtain ⟨e1, hl1, hcc1⟩ := hi hnc' ev' he nm' hn
          refine ⟨e1, ?_, hcc1⟩
          rw [lookup_set_other s t _ _ _ _ _ hcomps]
          · exact hl1
          · intro hkn
            rw [hkn.1, hkn.2, hnone] at hl1
            cases hl1
      · -- a component of that name existed
        have hsame : ccOf h (compVal h e) = ccOf h (cellOf h c).val := by
          rw [hev0] at hcoll
          simpa [isColl] using hcoll
        rcases hcomps with hkeep | ⟨_, hover⟩
        · rcases hev with he | he
          · subst he
            rw [rw.evn] at hn; cases hn
            rw [rw.evc]
            exact holds_congr h s t hkeep _ _ _ ⟨e, hsome, hsame⟩
          · exact holds_congr h s t hkeep _ _ _ (hi hnc' ev' he nm' hn)
        · rcases hev with he | he
          · subst he
            rw [rw.evn] at hn; cases hn
            rw [rw.evc]
            exact ⟨_, lookup_set_same s t _ _ _ hover, rfl⟩
          · obtain ⟨e1, hl1, hcc1⟩ := hi hnc' ev' he nm' hn
            by_cases hkn : (cellOf h ev'.cell).k = (cellOf h c).k ∧ nm' = nm
            · refine ⟨Comp.fresh (cellOf h c).val, ?_, ?_⟩
              · rw [hkn.1, hkn.2]; exact lookup_set_same s t _ _ _ hover
              · rw [hkn.1, hkn.2, hsome] at hl1
                cases hl1
                show ccOf h (cellOf h c).val = _
                rw [← hsame]; exact hcc1
            · refine ⟨e1, ?_, hcc1⟩
              rw [lookup_set_other s t _ _ _ _ _ hover hkn]
              exact hl1
  | clear c =>
    intro hnc ev hev nm hn
    exact holds_congr h s _ rfl _ _ _ (hi hnc ev hev nm hn)
  | enter p fl =>
    intro hnc ev hev nm hn
    exact holds_congr h s _ rfl _ _ _ (hi hnc ev hev nm hn)
  | silent _ _ _ hc hl _ _ =>
    intro hnc ev hev nm hn
    have hnc' : NameCollision s = false := by unfold NameCollision at hnc ⊢; rw [hl] at hnc; exact hnc
    rw [hl] at hev
    exact holds_congr h s t hc _ _ _ (hi hnc' ev hev nm hn)

/-- every name handed out consists of identifier characters (`hid` = `defaultName_ident`) -/
def InvIdent (s : St) : Prop := ∀ ev ∈ s.log, ∀ nm, ev.name? = some nm → ∀ x ∈ nm, identChar x = true

theorem invIdent_step (h : Heap)
    (hid : ∀ (root : RootInfo) (r : RefInfo) (nm : Str) (amb : Bool), defaultName root r = .name nm amb → ∀ x ∈ nm, identChar x = true)
    (s t : St) (hi : InvIdent s) (st : Step h s t) : InvIdent t := by
  cases st with
  | add c pext b _ hr =>
    rcases addCore_cases h s c pext b t hr with ⟨_, _, ht⟩ | ⟨_, nm, ev, rw⟩
    · subst ht
      intro ev hev nm hn
      simp only [List.mem_cons] at hev
      rcases hev with he | he
      · subst he; simp [Ev.name?] at hn
      · exact hi ev he nm hn
    · intro ev' hev nm' hn
      rw [rw.log] at hev
      simp only [List.mem_cons] at hev
      rcases hev with he | he
      · subst he
        rw [rw.evn] at hn; cases hn
        obtain ⟨amb, hname⟩ := rw.name
        exact hid _ _ _ _ hname
      · exact hi ev' he nm' hn
  | clear c => exact hi
  | enter p fl => exact hi
  | silent _ _ _ _ hl _ _ =>
    intro ev hev nm hn
    rw [hl] at hev
    exact hi ev hev nm hn

/-- every path item the descent entered is inlined -/
def InvPI (s : St) : Prop := ∀ p ∈ s.visP, s.pirefs[p]! = []

theorem invPI_step (h : Heap) (s t : St) (hi : InvPI s) (st : Step h s t) : InvPI t := by
  cases st with
  | add c pext b _ hr =>
    rcases addCore_cases h s c pext b t hr with ⟨_, _, ht⟩ | ⟨_, nm, ev, rw⟩
    · subst ht; exact hi
    · intro p hp
      rw [rw.pirefs]; rw [rw.visP] at hp; exact hi p hp
  | clear c => exact hi
  | enter p fl =>
    intro q hq
    simp only [List.mem_cons] at hq
    rcases set_nil_cases s.pirefs p q with h0 | ⟨hne, h1⟩
    · exact h0
    · show (s.pirefs.set! p [])[q]! = []
      rw [h1]
      rcases hq with hq | hq
      · exact absurd hq.symm hne
      · exact hi q hq
  | silent _ _ hp _ _ _ hv =>
    intro q hq
    rw [hp]; rw [hv] at hq; exact hi q hq

/-- (iii) a cell that add<Kind>ToSpec only ever met WITHOUT the parent-is-external flag and whose own text is not
external is as loaded, or cleared -/
def InvQuiet (h : Heap) (s : St) : Prop :=
  ∀ c, (∀ ev ∈ s.log, ev.cell = c → ev.pext = false) →
    s.refs[c]! = origRef h c ∨ s.refs[c]! = [] ∨ isExternalRef (origRef h c) false = true

theorem invQuiet_step (h : Heap) (s t : St) (hi : InvQuiet h s) (st : Step h s t) : InvQuiet h t := by
  cases st with
  | add c pext b _ hr =>
    rcases addCore_cases h s c pext b t hr with ⟨_, _, ht⟩ | ⟨_, nm, ev, rw⟩
    · subst ht
      intro x hq
      exact hi x (fun ev hev hc => hq ev (List.mem_cons_of_mem _ hev) hc)
    · intro x hq
      rw [rw.log] at hq
      have hq' : ∀ ev ∈ s.log, ev.cell = x → ev.pext = false := fun ev hev hc => hq ev (List.mem_cons_of_mem _ hev) hc
      rw [rw.refs]
      by_cases hxc : c = x
      · subst hxc
        have hp : pext = false := by
          have := hq ev List.mem_cons_self rw.evc
          rw [rw.evp] at this; exact this
        right; right
        have hext := rw.ext
        rw [hp] at hext
        rcases hi c hq' with h0 | h1 | h2
        · rw [h0] at hext; exact hext
        · exact absurd h1 (isExternal_ne_nil _ _ hext)
        · exact h2
      · rw [get_set_ne _ _ _ _ hxc]; exact hi x hq'
  | clear c =>
    intro x hq
    rcases set_nil_cases s.refs c x with h0 | ⟨_, h1⟩
    · exact Or.inr (Or.inl h0)
    · show (s.refs.set! c [])[x]! = origRef h x ∨ (s.refs.set! c [])[x]! = [] ∨ _
      rw [h1]; exact hi x hq
  | enter p fl => exact hi
  | silent _ hr _ _ hl _ _ =>
    intro x hq
    rw [hr]; rw [hl] at hq; exact hi x hq

/-- (iii) every component of the loaded root document outside `callbacks` is still there, unchanged -/
def InvKept (h : Heap) (s : St) : Prop :=
  ∀ k nm e, k ≠ callbacksK → lookup (initSt h) k nm = some e → lookup s k nm = some e

theorem invKept_step (h : Heap) (s t : St) (hi : InvKept h s) (st : Step h s t) : InvKept h t := by
  have congr : ∀ (t : St), t.comps = s.comps → InvKept h t := by
    intro t hc k nm e hk hl
    have := hi k nm e hk hl
    unfold lookup at this ⊢; rw [hc]; exact this
  cases st with
  | add c pext b _ hr =>
    rcases addCore_cases h s c pext b t hr with ⟨_, _, ht⟩ | ⟨_, nm, ev, rw⟩
    · subst ht; exact congr _ rfl
    · rcases rw.comps with ⟨hnone, _, hcomps⟩ | ⟨e, _, _, hcomps⟩
      · intro k nm' e' hk hl
        have h1 := hi k nm' e' hk hl
        rw [lookup_set_other s t _ _ _ _ _ hcomps]
        · exact h1
        · intro hkn
          rw [hkn.1, hkn.2, hnone] at h1; cases h1
      · rcases hcomps with hkeep | ⟨hcb, hover⟩
        · exact congr t hkeep
        · intro k nm' e' hk hl
          rw [lookup_set_other s t _ _ _ _ _ hover]
          · exact hi k nm' e' hk hl
          · intro hkn
            exact hk (hkn.1.trans hcb)
  | clear c => exact congr _ rfl
  | enter p fl => exact congr _ rfl
  | silent _ _ _ hc _ _ _ => exact congr t hc

/-- a reference the loader left without value is never given a name (05c5875): its text is as loaded, or cleared -/
def InvNil (h : Heap) (s : St) : Prop := ∀ c, valOf h c < 0 → s.refs[c]! = origRef h c ∨ s.refs[c]! = []

theorem invNil_step (h : Heap) (s t : St) (hi : InvNil h s) (st : Step h s t) : InvNil h t := by
  cases st with
  | add c pext b _ hr =>
    rcases addCore_cases h s c pext b t hr with ⟨_, _, ht⟩ | ⟨_, nm, ev, rw⟩
    · subst ht; exact hi
    · intro x hv
      rw [rw.refs]
      by_cases hxc : c = x
      · subst hxc
        exfalso
        have := rw.hasVal
        unfold valOf at hv
        omega
      · rw [get_set_ne _ _ _ _ hxc]; exact hi x hv
  | clear c =>
    intro x hv
    rcases set_nil_cases s.refs c x with h0 | ⟨_, h1⟩
    · exact Or.inr h0
    · show (s.refs.set! c [])[x]! = origRef h x ∨ (s.refs.set! c [])[x]! = []
      rw [h1]; exact hi x hv
  | enter p fl => exact hi
  | silent _ hr _ _ _ _ _ =>
    intro x hv
    rw [hr]; exact hi x hv

/-- a component entry differs from the loaded one only if a reference of that very collection was given that name: the
nine collections are separate tables (the model's `addCore` looks up and stores under the cell's own collection; the
code: obligation `add_uses_own_kind_map`) -/
def InvOwn (h : Heap) (s : St) : Prop :=
  ∀ k nm, lookup s k nm = lookup (initSt h) k nm ∨
    ∃ ev ∈ s.log, (cellOf h ev.cell).k = k ∧ ev.name? = some nm

theorem invOwn_step (h : Heap) (s t : St) (hi : InvOwn h s) (st : Step h s t) : InvOwn h t := by
  have weaken : ∀ (t : St), t.comps = s.comps → (∀ ev ∈ s.log, ev ∈ t.log) → InvOwn h t := by
    intro t hc hl k nm
    rcases hi k nm with h0 | ⟨ev, hev, hk, hn⟩
    · left; rw [← h0]; unfold lookup; rw [hc]
    · exact Or.inr ⟨ev, hl ev hev, hk, hn⟩
  cases st with
  | add c pext b _ hr =>
    rcases addCore_cases h s c pext b t hr with ⟨_, _, ht⟩ | ⟨_, nm, ev, rw⟩
    · subst ht; exact weaken _ rfl (fun ev hev => List.mem_cons_of_mem _ hev)
    · have hlog : ∀ e ∈ s.log, e ∈ t.log := fun e he => by rw [rw.log]; exact List.mem_cons_of_mem _ he
      have hset : ∀ (hcomps : t.comps = setCompL s.comps (cellOf h c).k nm (.fresh (cellOf h c).val)), InvOwn h t := by
        intro hcomps k nm'
        by_cases hkn : k = (cellOf h c).k ∧ nm' = nm
        · right
          refine ⟨ev, by rw [rw.log]; exact List.mem_cons_self, ?_, ?_⟩
          · rw [rw.evc]; exact hkn.1.symm
          · rw [rw.evn, hkn.2]
        · rw [lookup_set_other s t _ _ _ _ _ hcomps hkn]
          rcases hi k nm' with h0 | ⟨e, he, hk, hn⟩
          · exact Or.inl h0
          · exact Or.inr ⟨e, hlog e he, hk, hn⟩
      rcases rw.comps with ⟨_, _, hcomps⟩ | ⟨e, _, _, hcomps⟩
      · exact hset hcomps
      · rcases hcomps with hkeep | ⟨_, hover⟩
        · exact weaken t hkeep hlog
        · exact hset hover
  | clear c => exact weaken _ rfl (fun _ he => he)
  | enter p fl => exact weaken _ rfl (fun _ he => he)
  | silent _ _ _ hc hl _ _ => exact weaken t hc (fun e he => by rw [hl]; exact he)

theorem invNil_init (h : Heap) : InvNil h (initSt h) := fun _ _ => Or.inl rfl
theorem invOwn_init (h : Heap) : InvOwn h (initSt h) := fun _ _ => Or.inl rfl

/-! ### reading the final state -/

theorem resolve_mkRef (h : Heap) (s : St) (n : Nat) (k nm : Str) (own : Int) (hk : noSlash k) (hn : noSlash nm) :
    resolve h s (n + 1) (mkRef k nm) own =
      (match lookup s k nm with
       | some (.cell i) => resolve h s n s.refs[i]! (valOf h i)
       | some (.fresh v) => some v
       | none => none) := by
  rw [resolve]
  have h1 : (mkRef k nm).isEmpty = false := by
    cases hm : mkRef k nm with
    | nil => exact absurd hm (mkRef_ne_nil k nm)
    | cons a t => rfl
  simp only [h1, hasCompPrefix_mkRef, mkRef_drop, splitSlash_two k nm hk hn, Bool.false_eq_true, if_false,
    Bool.not_true]
  cases lookup s k nm with
  | none => rfl
  | some e => cases e <;> rfl

theorem resolve_nil (h : Heap) (s : St) (n : Nat) (own : Int) : resolve h s (n + 1) [] own = some own := by
  rw [resolve]; simp

theorem resolvesTo_nil (h : Heap) (s : St) (n : Nat) (v : Int) : resolvesTo h s (n + 1) [] v = true := by
  unfold resolvesTo; rw [resolve_nil]; simp

theorem origRef_eq (h : Heap) (c : Nat) (hc : c < h.cells.size) : origRef h c = (cellOf h c).ref := by
  unfold origRef cellOf
  have h1 : c < ((h.cells.toList.map (·.ref)).toArray).size := by simpa using hc
  rw [getElem!_pos _ c h1, getElem!_pos _ c hc]
  simp

theorem cellOf_mem (h : Heap) (c : Nat) (hc : c < h.cells.size) : cellOf h c ∈ h.cells.toList := by
  unfold cellOf
  rw [getElem!_pos _ c hc]
  simp

/-- collection names contain no slash: for the cells of the heap by `kindsPlain`, for an index outside it the default
cell has the empty name -/
theorem cell_k_noSlash (h : Heap) (hk : kindsPlain h = true) (c : Nat) : noSlash (cellOf h c).k := by
  by_cases hc : c < h.cells.size
  · unfold kindsPlain at hk
    rw [List.all_eq_true] at hk
    have := hk (cellOf h c) (cellOf_mem h c hc)
    apply noSlash_of_contains
    simpa using this
  · have e : cellOf h c = default := by
      unfold cellOf
      exact getElem!_neg _ c hc
    rw [e]
    intro x hx
    cases hx

/-- a cell that carries the name of a logged event resolves, in the final document, to content of the class it had -/
theorem named_resolves (h : Heap) (s : St) (hk : kindsPlain h = true) (hnames : InvNames h s) (hident : InvIdent s)
    (hnc : NameCollision s = false) (hself : SelfRefComponent h s = false)
    (c : Nat) (ev : Ev) (hev : ev ∈ s.log) (hc : ev.cell = c) (nm : Str) (hn : ev.name? = some nm)
    (hr : s.refs[c]! = mkRef (cellOf h c).k nm) : resolvesTo h s 64 s.refs[c]! (valOf h c) = true := by
  have hh := hnames hnc ev hev nm hn
  rw [hc] at hh
  obtain ⟨e, hl, hcc⟩ := hh
  have hns : noSlash nm := noSlash_of_ident nm (hident ev hev nm hn)
  unfold resolvesTo
  rw [hr, resolve_mkRef h s 63 _ nm _ (cell_k_noSlash h hk c) hns, hl]
  cases e with
  | fresh v =>
    simp only [compVal] at hcc
    simp [hcc]
  | cell i =>
    simp only [compVal] at hcc
    -- the entry is an original ref cell of the root: its own text leads to its own value
    have hmem : ∃ en ∈ s.comps, en.2.2 = Comp.cell i := by
      unfold lookup at hl
      cases hf : s.comps.find? (keyIs (cellOf h c).k nm) with
      | none => rw [hf] at hl; cases hl
      | some en =>
        rw [hf] at hl
        simp only [Option.map_some, Option.some.injEq] at hl
        exact ⟨en, List.mem_of_find?_eq_some hf, hl⟩
    obtain ⟨en, hen, hen2⟩ := hmem
    unfold SelfRefComponent at hself
    rw [List.any_eq_false] at hself
    have := hself en hen
    rw [hen2] at this
    simp only [Bool.not_eq_true, Bool.not_eq_false'] at this
    unfold resolvesTo at this
    simp only []
    cases hres : resolve h s 63 s.refs[i]! (valOf h i) with
    | none => rw [hres] at this; cases this
    | some w =>
      rw [hres] at this
      simp only [] at this ⊢
      rw [← hcc]
      exact this

/-! ### the initial state -/

theorem origRef_init (h : Heap) (c : Nat) : (initSt h).refs[c]! = origRef h c := rfl

theorem invText_init (h : Heap) : InvText h (initSt h) := by intro c hc; simp [touched, initSt] at hc
theorem invEmpty_init (h : Heap) : InvEmpty h (initSt h) := by intro c hc; rw [origRef_init]; exact hc
theorem invShape_init (h : Heap) : InvShape h (initSt h) := fun c => Or.inr (Or.inl (origRef_init h c))
theorem invNames_init (h : Heap) : InvNames h (initSt h) := by intro _ ev hev; simp [initSt] at hev
theorem invIdent_init (h : Heap) : InvIdent (initSt h) := by intro ev hev; simp [initSt] at hev
theorem invPI_init (h : Heap) : InvPI (initSt h) := by intro p hp; simp [initSt] at hp
theorem invQuiet_init (h : Heap) : InvQuiet h (initSt h) := fun c _ => Or.inl (origRef_init h c)
theorem invKept_init (h : Heap) : InvKept h (initSt h) := fun _ _ _ _ hl => hl

end KinModel.Internalize
