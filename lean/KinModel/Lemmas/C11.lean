/-
C11 — helper lemmas (not properties): monotonicity of the spec predicates, the state invariant of the
loader model and its preservation by the non-recursive steps.
-/
import KinModel.Reads
namespace KinModel.Reads

/-! ### lists, references -/

theorem mem_assoc {α β : Type} [DecidableEq α] {k : α} {v : β} :
    ∀ {l : List (α × β)}, assoc k l = some v → (k, v) ∈ l
  | [], h => by simp [assoc] at h
  | (k', v') :: rest, h => by
    unfold assoc at h
    split at h
    · next hk => cases h; subst hk; simp
    · exact List.mem_cons_of_mem _ (mem_assoc h)

theorem refsList_mem {ns : List Node} {n : Node} {r : Ref} (hn : n ∈ ns) (hr : r ∈ n.refs) :
    r ∈ refsList ns := by
  induction ns with
  | nil => cases hn
  | cons m ms ih =>
    rw [refsList]
    rcases List.mem_cons.mp hn with h | h
    · subst h; exact List.mem_append_left _ hr
    · exact List.mem_append_right _ (ih h)

theorem refsList_cons_head {n : Node} {ns : List Node} {r : Ref} (h : r ∈ n.refs) : r ∈ refsList (n :: ns) := by
  rw [refsList]; exact List.mem_append_left _ h

theorem refsList_cons_tail {n : Node} {ns : List Node} {r : Ref} (h : r ∈ refsList ns) : r ∈ refsList (n :: ns) := by
  rw [refsList]; exact List.mem_append_right _ h

theorem refs_mk_ref {i : Nat} {k : Kind} {r : Ref} {kids : List Node} : r ∈ (Node.mk i k (some r) kids).refs := by
  rw [Node.refs]; simp

theorem refs_mk_kids {i : Nat} {k : Kind} {o : Option Ref} {kids : List Node} {r : Ref} (h : r ∈ refsList kids) :
    r ∈ (Node.mk i k o kids).refs := by
  rw [Node.refs]; exact List.mem_append_right _ h

theorem refs_kids (n : Node) {r : Ref} (h : r ∈ refsList n.kids) : r ∈ n.refs := by
  cases n with
  | mk i k o kids => exact refs_mk_kids h

/-! ### spec predicates are monotone in the reads performed so far -/

theorem Loaded.mono {inp : Input} {pre pre' : List Url} {d : Option Url}
    (h : Loaded inp pre d) (hs : ∀ u ∈ pre, u ∈ pre') : Loaded inp pre' d := by
  rcases h with h | ⟨u, hu, hd⟩
  · exact Or.inl h
  · exact Or.inr ⟨u, hs u hu, hd⟩

theorem Justified.mono {inp : Input} {pre pre' : List Url} {u : Url}
    (h : Justified inp pre u) (hs : ∀ u ∈ pre, u ∈ pre') : Justified inp pre' u := by
  rcases h with h | ⟨d, hd, r, hr, hf, hu⟩
  · exact Or.inl h
  · exact Or.inr ⟨d, hd.mono hs, r, hr, hf, hu⟩

theorem AllJust.nil (inp : Input) : AllJust inp [] := by
  intro pre u post h
  cases pre <;> simp at h

theorem AllJust.snoc {inp : Input} {log : List Url} {u : Url}
    (h : AllJust inp log) (hu : Justified inp log u) : AllJust inp (log ++ [u]) := by
  intro pre v post heq
  rcases List.eq_nil_or_concat post with hp | ⟨post', w, hp⟩
  · subst hp
    have := List.append_inj' heq (by simp)
    obtain ⟨h1, h2⟩ := this
    cases h2
    subst h1
    exact hu
  · subst hp
    have heq' : log ++ [u] = (pre ++ v :: post') ++ [w] := by simp [heq]
    have := List.append_inj' heq' (by simp)
    exact h pre v post' this.1

theorem AllJust.mem {inp : Input} {log : List Url} {u : Url} (h : AllJust inp log) (hu : u ∈ log) :
    Justified inp log u := by
  obtain ⟨s, t, hst⟩ := List.append_of_mem hu
  exact (h s u t hst).mono (by intro x hx; rw [hst]; exact List.mem_append_left _ hx)

theorem storeAt_docAt {inp : Input} {u : Url} {f : File} (h : storeAt inp u = some f) :
    docAt inp (some u) = some f := by
  unfold storeAt at h
  unfold docAt
  split at h
  · next hr =>
    split at h
    · cases h; simp [hr]
    · cases h
  · next hr => simp [hr, h]

theorem refsAt_of_docAt {inp : Input} {d : Option Url} {f : File} (h : docAt inp d = some f) :
    refsAt inp d = f.refs := by
  unfold refsAt; rw [h]

/-! ### the caching reader keeps the spec -/

theorem cacheFilter_sub (inp : Input) : ∀ (log cached : List Url), ∀ u ∈ cacheFilter inp cached log, u ∈ log
  | [], _, u, h => by simp [cacheFilter] at h
  | v :: rest, cached, u, h => by
    unfold cacheFilter at h
    split at h
    · exact List.mem_cons_of_mem _ (cacheFilter_sub inp rest cached u h)
    · rcases List.mem_cons.mp h with e | e
      · subst e; exact List.mem_cons_self
      · exact List.mem_cons_of_mem _ (cacheFilter_sub inp rest _ u e)

/-- a location that is already cached never reaches the wrapped reader -/
theorem cacheFilter_cached (inp : Input) (u : Url) : ∀ (log cached : List Url), u ∈ cached →
    (cacheFilter inp cached log).count u = 0
  | [], _, _ => by simp [cacheFilter]
  | v :: rest, cached, h => by
    unfold cacheFilter
    split
    · exact cacheFilter_cached inp u rest cached h
    · next hv =>
      have hne : v ≠ u := by intro e; subst e; exact hv h
      rw [List.count_cons_of_ne hne]
      apply cacheFilter_cached inp u rest
      split
      · exact List.mem_cons_of_mem _ h
      · exact h

/-- a cacheable location whose read succeeds reaches the wrapped reader at most once -/
theorem cacheFilter_once (inp : Input) (u : Url) (hc : u.cacheable = true) (hs : (storeAt inp u).isSome = true) :
    ∀ (log cached : List Url), (cacheFilter inp cached log).count u ≤ 1
  | [], _ => by simp [cacheFilter]
  | v :: rest, cached => by
    unfold cacheFilter
    split
    · exact cacheFilter_once inp u hc hs rest cached
    · by_cases e : v = u
      · subst e
        rw [List.count_cons_self]
        have : (cacheFilter inp (if v.cacheable && (storeAt inp v).isSome then v :: cached else cached) rest).count v = 0 := by
          apply cacheFilter_cached
          simp [hc, hs]
        omega
      · rw [List.count_cons_of_ne e]
        exact cacheFilter_once inp u hc hs rest _

/-- the justification of every read survives the cache: a read that is served from the cache was kept once before -/
theorem cacheFilter_just (inp : Input) : ∀ (log cached pre pre' : List Url),
    (∀ c ∈ cached, c ∈ pre') → (∀ x ∈ pre, x ∈ pre') →
    (∀ s u t, log = s ++ u :: t → Justified inp (pre ++ s) u) →
    ∀ s u t, cacheFilter inp cached log = s ++ u :: t → Justified inp (pre' ++ s) u
  | [], _, _, _, _, _, _, s, u, t, h => by
    simp only [cacheFilter] at h
    cases s <;> simp at h
  | v :: rest, cached, pre, pre', hc, hp, hj, s, u, t, h => by
    unfold cacheFilter at h
    have hrest : ∀ s u t, rest = s ++ u :: t → Justified inp ((pre ++ [v]) ++ s) u := by
      intro s u t e
      have := hj (v :: s) u t (by simp [e])
      simpa using this
    split at h
    · next hv =>
      -- served from the cache
      refine cacheFilter_just inp rest cached (pre ++ [v]) pre' hc ?_ hrest s u t h
      intro x hx
      rcases List.mem_append.mp hx with e | e
      · exact hp x e
      · simp at e; subst e; exact hc _ hv
    · cases s with
      | nil =>
        simp only [List.nil_append, List.cons.injEq] at h
        obtain ⟨e1, _⟩ := h
        subst e1
        have := hj [] v rest rfl
        simp only [List.append_nil] at this ⊢
        exact this.mono hp
      | cons w s' =>
        simp only [List.cons_append, List.cons.injEq] at h
        obtain ⟨e1, e2⟩ := h
        subst e1
        have := cacheFilter_just inp rest _ (pre ++ [v]) (pre' ++ [v]) ?_ ?_ hrest s' u t e2
        · simpa using this
        · intro c hc'
          split at hc'
          · rcases List.mem_cons.mp hc' with e | e
            · subst e; simp
            · exact List.mem_append_left _ (hc c e)
          · exact List.mem_append_left _ (hc c hc')
        · intro x hx
          rcases List.mem_append.mp hx with e | e
          · exact List.mem_append_left _ (hp x e)
          · exact List.mem_append_right _ e

/-! ### elements and values that belong to a document -/

theorem assoc_key_mem {α β : Type} [DecidableEq α] {k : α} {v : β} :
    ∀ {l : List (α × β)}, assoc k l = some v → k ∈ l.map (·.1)
  | [], h => by simp [assoc] at h
  | (k', v') :: rest, h => by
    unfold assoc at h
    split at h
    · next hk => subst hk; simp
    · simp only [List.map_cons, List.mem_cons]; exact Or.inr (assoc_key_mem h)

theorem storeAt_univ {inp : Input} {u : Url} {f : File} (h : storeAt inp u = some f) : some u ∈ univ inp := by
  unfold storeAt at h
  unfold univ
  split at h
  · next hr => rw [hr]; simp
  · have := assoc_key_mem h
    simp only [List.mem_map] at this
    obtain ⟨e, he, hk⟩ := this
    simp only [List.mem_cons, List.mem_map]
    exact Or.inr ⟨e, he, by rw [hk]⟩

/-- loaded, and a location of the file universe -/
def LoadedU (inp : Input) (log : List Url) (d : Option Url) : Prop := Loaded inp log d ∧ d ∈ univ inp

theorem LoadedU.mono {inp : Input} {pre pre' : List Url} {d : Option Url}
    (h : LoadedU inp pre d) (hs : ∀ u ∈ pre, u ∈ pre') : LoadedU inp pre' d := ⟨h.1.mono hs, h.2⟩

/-- loaded IN THIS LOAD (the root, or read since the load began), and a location of the file universe: what the
    current `documentPath` / `doc` always are -/
def LoadedN (inp : Input) (log : List Url) (d : Option Url) : Prop :=
  (d = inp.root ∨ ∃ u ∈ log, d = some u) ∧ d ∈ univ inp

theorem LoadedN.toU {inp : Input} {log : List Url} {d : Option Url} (h : LoadedN inp log d) : LoadedU inp log d := by
  exact ⟨h.1, h.2⟩

theorem LoadedN.mono {inp : Input} {pre pre' : List Url} {d : Option Url}
    (h : LoadedN inp pre d) (hs : ∀ u ∈ pre, u ∈ pre') : LoadedN inp pre' d := by
  refine ⟨?_, h.2⟩
  rcases h.1 with e | ⟨u, hu, hd⟩
  · exact Or.inl e
  · exact Or.inr ⟨u, hs u hu, hd⟩

theorem LoadedN.here {inp : Input} {log : List Url} {u : Url} {f : File} (h : u ∈ log) (hs : storeAt inp u = some f) :
    LoadedN inp log (some u) := ⟨Or.inr ⟨u, h, rfl⟩, storeAt_univ hs⟩

theorem LoadedN.root {inp : Input} {log : List Url} {d : Option Url} (h : d = inp.root) : LoadedN inp log d :=
  ⟨Or.inl h, by unfold univ; rw [h]; simp⟩

def NodeIn (inp : Input) (d : Option Url) (n : Node) : Prop := ∀ r ∈ n.refs, r ∈ refsAt inp d
def KidsIn (inp : Input) (d : Option Url) (ks : List Node) : Prop := ∀ r ∈ refsList ks, r ∈ refsAt inp d
def ValOK (inp : Input) (log : List Url) (v : Val) : Prop := LoadedU inp log v.1.1 ∧ KidsIn inp v.1.1 v.2

theorem ValOK.mono {inp : Input} {log log' : List Url} {v : Val} (h : ValOK inp log v)
    (hs : ∀ u ∈ log, u ∈ log') : ValOK inp log' v := ⟨h.1.mono hs, h.2⟩

theorem KidsIn.head {inp : Input} {d : Option Url} {n : Node} {ns : List Node} (h : KidsIn inp d (n :: ns)) :
    NodeIn inp d n := fun r hr => h r (refsList_cons_head hr)
theorem KidsIn.tail {inp : Input} {d : Option Url} {n : Node} {ns : List Node} (h : KidsIn inp d (n :: ns)) :
    KidsIn inp d ns := fun r hr => h r (refsList_cons_tail hr)
theorem NodeIn.kids {inp : Input} {d : Option Url} {n : Node} (h : NodeIn inp d n) : KidsIn inp d n.kids :=
  fun r hr => h r (refs_kids n hr)

theorem refsViews_mem {k : Kind} {ks : List Node} {r : Ref} :
    ∀ {vs : List (Kind × List Node)}, assoc k vs = some ks → r ∈ refsList ks → r ∈ refsViews vs
  | [], h, _ => by simp [assoc] at h
  | (k', ks') :: rest, h, hr => by
    unfold assoc at h
    rw [refsViews]
    split at h
    · cases h; exact List.mem_append_left _ hr
    · exact List.mem_append_right _ (refsViews_mem h hr)

theorem KidsIn.elem {inp : Input} {u : Url} {f : File} (k : Kind) (h : storeAt inp u = some f) :
    KidsIn inp (some u) (f.elemAs k) := by
  intro r hr
  rw [refsAt_of_docAt (storeAt_docAt h)]
  unfold File.refs
  unfold File.elemAs at hr
  split at hr
  · next ks hks => simp [refsViews_mem hks hr]
  · simp [refsList] at hr

theorem NodeIn.self {inp : Input} {u : Url} {f : File} (h : storeAt inp u = some f) :
    NodeIn inp (some u) (.mk 0 .pathItem f.selfRef []) := by
  intro r hr
  rw [refsAt_of_docAt (storeAt_docAt h)]
  unfold File.refs
  rw [Node.refs] at hr
  simp only [refsList, List.append_nil] at hr
  simp [hr]

theorem KidsIn.tops {inp : Input} {u : Url} {f : File} (h : storeAt inp u = some f) : KidsIn inp (some u) f.tops := by
  intro r hr
  rw [refsAt_of_docAt (storeAt_docAt h)]
  unfold File.refs
  simp [hr]

theorem NodeIn.typed {inp : Input} {d : Option Url} {f : File} {frag : String} {t : Node}
    (h : docAt inp d = some f) (ht : assoc frag f.typed = some t) : NodeIn inp d t := by
  intro r hr
  rw [refsAt_of_docAt h]
  unfold File.refs
  have : t ∈ f.typed.map (·.2) := List.mem_map.mpr ⟨(frag, t), mem_assoc ht, rfl⟩
  have := refsList_mem this hr
  simp [this]

theorem NodeIn.raw {inp : Input} {u : Url} {f : File} {frag : String} {t : Node}
    (h : storeAt inp u = some f) (ht : assoc frag f.raw = some t) : NodeIn inp (some u) t := by
  intro r hr
  rw [refsAt_of_docAt (storeAt_docAt h)]
  unfold File.refs
  have : t ∈ f.raw.map (·.2) := List.mem_map.mpr ⟨(frag, t), mem_assoc ht, rfl⟩
  have := refsList_mem this hr
  simp [this]

/-! ### the invariant of the loader state -/

structure Inv (inp : Input) (st : St) : Prop where
  marks : ∀ kv ∈ st.marks, ValOK inp st.log kv.2
  just : st.foreign = false → AllJust inp st.log
  off : inp.allowed = false → OnlyRoot inp st.log
  nfo : inp.allowed = false → st.foreign = false
  uni : Uniform inp → st.foreign = false

/-- the log only grows -/
def Ext (st st' : St) : Prop := ∀ u ∈ st.log, u ∈ st'.log

theorem Ext.refl (st : St) : Ext st st := fun _ h => h
theorem Ext.trans {a b c : St} (h1 : Ext a b) (h2 : Ext b c) : Ext a c := fun u h => h2 u (h1 u h)

@[simp] theorem tick_log (n : Nat) (st : St) : (tick n st).log = st.log := rfl
@[simp] theorem tick_foreign (n : Nat) (st : St) : (tick n st).foreign = st.foreign := rfl
@[simp] theorem tick_marks (n : Nat) (st : St) : (tick n st).marks = st.marks := rfl
@[simp] theorem tick_inprog (n : Nat) (st : St) : (tick n st).inprog = st.inprog := rfl
@[simp] theorem setMark_log (c : Bool) (k : Key) (v : Val) (st : St) : (setMark c k v st).log = st.log := by
  unfold setMark; split <;> rfl
@[simp] theorem setMark_foreign (c : Bool) (k : Key) (v : Val) (st : St) : (setMark c k v st).foreign = st.foreign := by
  unfold setMark; split <;> rfl
@[simp] theorem addPend_log (c : Bool) (t : String) (kd : Kind) (k : Key) (st : St) : (addPend c t kd k st).log = st.log := by
  unfold addPend; split <;> rfl
@[simp] theorem unvisit_log (t : String) (kd : Kind) (v : Option Val) (st : St) : (unvisit t kd v st).log = st.log := rfl
@[simp] theorem unvisit_foreign (t : String) (kd : Kind) (v : Option Val) (st : St) : (unvisit t kd v st).foreign = st.foreign := rfl
@[simp] theorem logRead_log (al : Bool) (u : Url) (st : St) : (logRead al u st).log = st.log ++ [u] := rfl

theorem Inv.tick {inp : Input} {st : St} (n : Nat) (h : Inv inp st) : Inv inp (tick n st) := ⟨h.marks, h.just, h.off, h.nfo, h.uni⟩
theorem Inv.oof {inp : Input} {st : St} (h : Inv inp st) : Inv inp { st with oof := true } := ⟨h.marks, h.just, h.off, h.nfo, h.uni⟩
theorem Inv.inprog {inp : Input} {st : St} (l : List (Kind × String)) (h : Inv inp st) : Inv inp { st with inprog := l } :=
  ⟨h.marks, h.just, h.off, h.nfo, h.uni⟩
theorem Inv.docs {inp : Input} {st : St} (l : List Url) (h : Inv inp st) : Inv inp { st with docs := l } :=
  ⟨h.marks, h.just, h.off, h.nfo, h.uni⟩
theorem Inv.addPend {inp : Input} {st : St} (c : Bool) (t : String) (kd : Kind) (k : Key) (h : Inv inp st) :
    Inv inp (addPend c t kd k st) := by
  unfold KinModel.Reads.addPend; split
  · exact h
  · exact ⟨h.marks, h.just, h.off, h.nfo, h.uni⟩

theorem Inv.setMark {inp : Input} {st : St} (c : Bool) (k : Key) (v : Val) (h : Inv inp st)
    (hv : ValOK inp st.log v) : Inv inp (setMark c k v st) := by
  unfold KinModel.Reads.setMark; split
  · exact h
  · refine ⟨?_, h.just, h.off, h.nfo, h.uni⟩
    intro kv hkv
    rcases List.mem_cons.mp hkv with e | e
    · subst e; exact hv
    · exact h.marks kv e

theorem Inv.unvisit {inp : Input} {st : St} (t : String) (kd : Kind) (v : Option Val) (h : Inv inp st)
    (hv : ∀ x, v = some x → ValOK inp st.log x) : Inv inp (unvisit t kd v st) := by
  refine ⟨?_, h.just, h.off, h.nfo, h.uni⟩
  intro kv hkv
  cases v with
  | none => exact h.marks kv hkv
  | some val =>
    simp only [KinModel.Reads.unvisit] at hkv
    rcases List.mem_append.mp hkv with e | e
    · obtain ⟨p, _, hp⟩ := List.mem_map.mp e
      subst hp
      exact hv val rfl
    · exact h.marks kv e

theorem Inv.logRead {inp : Input} {st : St} (al : Bool) (u : Url) (h : Inv inp st)
    (hj : st.foreign = false → al = true → Justified inp st.log u)
    (ho : inp.allowed = false → some u = inp.root ∧ al = true) (hu : Uniform inp → al = true) :
    Inv inp (logRead al u st) := by
  refine ⟨?_, ?_, ?_, ?_, ?_⟩
  · intro kv hkv
    exact (h.marks kv hkv).mono (by intro x hx; simp [hx])
  · intro hf
    simp only [KinModel.Reads.logRead, Bool.or_eq_false_iff, Bool.not_eq_false'] at hf
    exact (h.just hf.1).snoc (hj hf.1 hf.2)
  · intro ha x hx
    simp only [KinModel.Reads.logRead, List.mem_append, List.mem_singleton] at hx
    rcases hx with hx | hx
    · exact h.off ha x hx
    · subst hx; exact (ho ha).1
  · intro ha
    simp only [KinModel.Reads.logRead, Bool.or_eq_false_iff, Bool.not_eq_false']
    exact ⟨h.nfo ha, (ho ha).2⟩
  · intro hU
    simp only [KinModel.Reads.logRead, Bool.or_eq_false_iff, Bool.not_eq_false']
    exact ⟨h.uni hU, hu hU⟩

/-- the raw re-read of the current document is a read of a loaded location -/
theorem Inv.reread {inp : Input} {st : St} (p : Url) (h : Inv inp st)
    (hl : some p = inp.root ∨ ∃ u ∈ st.log, some p = some u) :
    Inv inp (KinModel.Reads.logRead true p st) := by
  apply h.logRead
  · intro hf _
    rcases hl with hl | ⟨u, hu, hd⟩
    · exact Or.inl hl
    · cases hd; exact (h.just hf).mem hu
  · intro ha
    refine ⟨?_, rfl⟩
    rcases hl with hl | ⟨u, hu, hd⟩
    · exact hl
    · cases hd; exact h.off ha _ hu
  · intro _; rfl

theorem Ext.logRead (al : Bool) (u : Url) (st : St) : Ext st (logRead al u st) := by
  intro x hx; simp [hx]

theorem Loaded.ext {inp : Input} {st st' : St} {d : Option Url} (h : Loaded inp st.log d) (e : Ext st st') :
    Loaded inp st'.log d := h.mono e

theorem LoadedN.ext {inp : Input} {st st' : St} {d : Option Url} (h : LoadedN inp st.log d) (e : Ext st st') :
    LoadedN inp st'.log d := h.mono e

theorem LoadedU.ext {inp : Input} {st st' : St} {d : Option Url} (h : LoadedU inp st.log d) (e : Ext st st') :
    LoadedU inp st'.log d := h.mono e

theorem Loaded.here {inp : Input} {log : List Url} {u : Url} (h : u ∈ log) : Loaded inp log (some u) :=
  Or.inr ⟨u, h, rfl⟩

/-! ### the walkers preserve the invariant -/

structure Ctx (inp : Input) (st : St) (cx : Cx) (home : Home) : Prop where
  path : LoadedN inp st.log cx.path
  doc : LoadedN inp st.log cx.doc
  home : LoadedU inp st.log home.1

theorem Ctx.ext {inp : Input} {st st' : St} {cx : Cx} {home : Home} (h : Ctx inp st cx home) (e : Ext st st') :
    Ctx inp st' cx home := ⟨h.path.ext e, h.doc.ext e, h.home.ext e⟩

def PostR (inp : Input) (st : St) (out : St × Res) : Prop :=
  Inv inp out.1 ∧ Ext st out.1 ∧ ∀ v, out.2 = Res.ok (some v) → ValOK inp out.1.log v
def PostB (inp : Input) (st : St) (out : St × Bool) : Prop := Inv inp out.1 ∧ Ext st out.1

theorem guardExt_some {inp : Input} {cx : Cx} {home : Home} {r : Ref} {u : Url} {al : Bool}
    (h : guardExt inp cx home r = some (u, al)) :
    inp.allowed = true ∧ u = resolvePath cx.path r.url ∧ (al = true → u = resolvePath home.1 r.url) := by
  unfold guardExt at h
  split at h
  · next ha =>
    simp only [Option.some.injEq, Prod.mk.injEq] at h
    refine ⟨ha, h.1.symm, ?_⟩
    intro hal; rw [← h.2] at hal; rw [← h.1]; exact of_decide_eq_true hal
  · cases h

/-- a guarded read of the resolution of `r` (found in the document at `home`) is justified when the location
    obtained from `documentPath` is the resolution against that document's own location -/
theorem guarded_read_justified {inp : Input} {st : St} {cx : Cx} {home : Home} {r : Ref} {u : Url} {al : Bool}
    (hg : guardExt inp cx home r = some (u, al)) (hh : LoadedU inp st.log home.1) (hp : cx.path ∈ univ inp)
    (hr : r ∈ refsAt inp home.1) (hf : r.form ≠ Form.internal) :
    (st.foreign = false → al = true → Justified inp st.log u) ∧ (inp.allowed = false → some u = inp.root ∧ al = true) ∧
    (Uniform inp → al = true) := by
  obtain ⟨ha, hu, hal⟩ := guardExt_some hg
  refine ⟨?_, ?_, ?_⟩
  · intro _ h
    exact Or.inr ⟨home.1, hh.1, r, hr, hf, hal h⟩
  · intro h; rw [ha] at h; cases h
  · intro hU
    unfold guardExt at hg
    rw [if_pos ha] at hg
    simp only [Option.some.injEq, Prod.mk.injEq] at hg
    rw [← hg.2]
    exact decide_eq_true (hU home.1 hh.2 r hr hf cx.path hp)

theorem drill_post {inp : Input} {st : St} {cdoc cpath : Option Url} (frag : String) (kind : Kind)
    (hI : Inv inp st) (hp : LoadedN inp st.log cpath) (hd : LoadedN inp st.log cdoc) :
    Inv inp (drill inp cdoc cpath frag kind st).1 ∧ Ext st (drill inp cdoc cpath frag kind st).1 ∧
    ∀ thome t, (drill inp cdoc cpath frag kind st).2 = some (thome, t) →
      LoadedN inp (drill inp cdoc cpath frag kind st).1.log thome.1 ∧ NodeIn inp thome.1 t := by
  unfold drill
  split
  · next t ht =>
    split
    · refine ⟨hI.tick 7, Ext.refl st, ?_⟩
      intro thome t' h
      simp only [Option.some.injEq, Prod.mk.injEq] at h
      obtain ⟨h1, h2⟩ := h
      subst h1; subst h2
      cases hdoc : docAt inp cdoc with
      | none => simp [hdoc] at ht
      | some f =>
        simp only [hdoc, Option.bind_some] at ht
        exact ⟨hd, NodeIn.typed hdoc ht⟩
    · exact ⟨hI.tick 9, Ext.refl st, by intro _ _ h; cases h⟩
  · split
    · exact ⟨hI.tick 17, Ext.refl st, by intro _ _ h; cases h⟩
    · next p =>
      have hlp : LoadedN inp st.log (some p) := hp
      have hrr := hI.reread p hlp.1
      split
      · exact ⟨hrr.tick 12, Ext.logRead true p st, by intro _ _ h; cases h⟩
      · next file hfile =>
        split
        · split
          · exact ⟨hrr.tick 18, Ext.logRead true p st, by intro _ _ h; cases h⟩
          · next t ht =>
            refine ⟨hrr.tick 8, Ext.logRead true p st, ?_⟩
            intro thome t' h
            simp only [Option.some.injEq, Prod.mk.injEq] at h
            obtain ⟨h1, h2⟩ := h
            subst h1; subst h2
            exact ⟨LoadedN.here (by simp) hfile, NodeIn.raw hfile ht⟩
        · exact ⟨hrr.tick 13, Ext.logRead true p st, by intro _ _ h; cases h⟩

theorem okRes_val {ok : Bool} {v w : Val} (h : okRes ok v = Res.ok (some w)) : w = v := by
  unfold okRes at h; split at h
  · cases h; rfl
  · cases h

def PResolve (inp : Input) (f : Nat) : Prop :=
  ∀ cx home copy n st, Inv inp st → Ctx inp st cx home → NodeIn inp home.1 n →
    PostR inp st (resolve inp f cx home copy n st)
def PFrag (inp : Input) (f : Nat) : Prop :=
  ∀ cx home copy id kind r cdoc cpath st, Inv inp st → Ctx inp st cx home →
    LoadedN inp st.log cdoc → LoadedN inp st.log cpath →
    PostR inp st (fragStep inp f cx home copy id kind r cdoc cpath st)
def PWalk (inp : Input) (f : Nat) : Prop :=
  ∀ cx home ks st, Inv inp st → Ctx inp st cx home → KidsIn inp home.1 ks →
    PostB inp st (walk inp f cx home ks st)
def PLoad (inp : Input) (f : Nat) : Prop :=
  ∀ al u st, Inv inp st → (st.foreign = false → al = true → Justified inp st.log u) →
    (inp.allowed = false → some u = inp.root ∧ al = true) → (Uniform inp → al = true) →
    PostB inp st (loadDoc inp f al u st) ∧
      ((loadDoc inp f al u st).2 = true → LoadedN inp (loadDoc inp f al u st).1.log (some u))

theorem walk_step {inp : Input} {f : Nat} (ihR : PResolve inp f) (ihW : PWalk inp f) : PWalk inp (f + 1) := by
  intro cx home ks st hI hC hk
  cases ks with
  | nil => simp only [walk]; exact ⟨hI, Ext.refl st⟩
  | cons n ns =>
    simp only [walk]
    have hr := ihR cx home false n st hI hC hk.head
    split
    · next st1 heq => rw [heq] at hr; exact ⟨hr.1, hr.2.1⟩
    · next st1 v heq =>
      rw [heq] at hr
      have hw := ihW cx home ns st1 hr.1 (hC.ext hr.2.1) hk.tail
      exact ⟨hw.1, hr.2.1.trans hw.2⟩

theorem load_step {inp : Input} {f : Nat} (ihW : PWalk inp f) : PLoad inp (f + 1) := by
  intro al u st hI hj ho hU
  have hrd := hI.logRead al u hj ho hU
  have he := Ext.logRead al u st
  have hu : u ∈ (logRead al u st).log := by simp
  simp only [loadDoc]
  split
  · exact ⟨⟨hrd.tick 12, he⟩, fun h => by cases h⟩
  · next file hfile =>
    have hl : LoadedN inp (logRead al u st).log (some u) := LoadedN.here hu hfile
    split
    · exact ⟨⟨hrd.tick 6, he⟩, fun _ => by simpa using hl⟩
    · split
      · have hw := ihW ⟨some u, some u⟩ (some u, 0) file.tops { (logRead al u st) with docs := u :: st.docs }
          (hrd.docs _) ⟨hl, hl, hl.toU⟩ (KidsIn.tops hfile)
        exact ⟨⟨hw.1, he.trans hw.2⟩, fun _ => hl.mono hw.2⟩
      · exact ⟨⟨(hrd.docs _).tick 13, he⟩, fun h => by cases h⟩

/-- the common tail of every resolver: assign the value, walk its sub-elements with the context `wcx`, run the
    deferred `unvisitRef` -/
theorem walk_mark_unvisit {inp : Input} {f : Nat} (ihW : PWalk inp f) {st st2 : St} (wcx : Cx) (key : Key)
    (copy : Bool) (text : String) (kind : Kind) (val : Val)
    (hI2 : Inv inp st2) (he : Ext st st2) (hv : ValOK inp st2.log val)
    (hp : LoadedN inp st2.log wcx.path) (hd : LoadedN inp st2.log wcx.doc) :
    PostR inp st
      (match walk inp f wcx val.1 val.2 (setMark copy key val st2) with
       | (st3, ok) => (unvisit text kind (some val) st3, okRes ok val)) := by
  have hw := ihW wcx val.1 val.2 (setMark copy key val st2) (hI2.setMark copy _ _ hv)
    ⟨by simpa using hp, by simpa using hd, by simpa using hv.1⟩ hv.2
  generalize walk inp f wcx val.1 val.2 (setMark copy key val st2) = out at hw ⊢
  obtain ⟨st3, ok⟩ := out
  have he3 : Ext st2 st3 := by intro x hx; exact hw.2 x (by simpa using hx)
  have hv3 : ValOK inp st3.log val := hv.mono he3
  refine ⟨hw.1.unvisit text kind (some val) (by intro x hx; cases hx; exact hv3), ?_, ?_⟩
  · intro x hx; simpa using he3 x (he x hx)
  · intro v h; rw [okRes_val h]; simpa using hv3

theorem frag_step {inp : Input} {f : Nat} (ihR : PResolve inp f) (ihW : PWalk inp f) : PFrag inp (f + 1) := by
  intro cx home copy id kind r cdoc cpath st hI hC hcd hcp
  simp only [fragStep]
  split
  · exact ⟨hI.tick 14, Ext.refl st, by intro _ h; cases h⟩
  · have hd := drill_post (cdoc := cdoc) (cpath := cpath) r.frag kind hI hcp hcd
    split
    · next st1 heq => rw [heq] at hd; exact ⟨hd.1, hd.2.1, by intro _ h; cases h⟩
    · next st1 thome t heq =>
      rw [heq] at hd
      obtain ⟨hI1, he1, ht⟩ := hd
      obtain ⟨hlt, hnt⟩ := ht thome t rfl
      simp only at hI1 he1 hlt
      -- the recursive call on the copy, with (componentDoc, componentPath)
      have hr := ihR ⟨cdoc, cpath⟩ thome true t st1 hI1 ⟨hcp.ext he1, hcd.ext he1, hlt.toU⟩ hnt
      split
      · -- path item: (doc, documentPath) are re-assigned
        split
        · have hv : ValOK inp st1.log (thome, t.kids) := ⟨hlt.toU, hnt.kids⟩
          exact walk_mark_unvisit ihW ⟨cdoc, cpath⟩ (home, id) copy r.text kind (thome, t.kids)
            (hI1.tick 10) (by intro x hx; simpa using he1 x hx) (by simpa using hv)
            (by simpa using hcp.ext he1) (by simpa using hcd.ext he1)
        · split
          · next st2 heq2 => rw [heq2] at hr; exact ⟨hr.1, he1.trans hr.2.1, by intro _ h; cases h⟩
          · next st2 heq2 =>
            rw [heq2] at hr
            refine ⟨(hr.1.unvisit _ _ none (by intro _ h; cases h)).tick 19, ?_, by intro _ h; cases h⟩
            intro x hx; simpa using hr.2.1 x (he1 x hx)
          · next st2 val heq2 =>
            rw [heq2] at hr
            obtain ⟨hI2, he2, hv2⟩ := hr
            have hv : ValOK inp st2.log val := hv2 val rfl
            simp only at hI2 he2 hv
            have he02 : Ext st st2 := he1.trans he2
            exact walk_mark_unvisit ihW ⟨cdoc, cpath⟩ (home, id) copy r.text kind val
              (hI2.tick 20) (by intro x hx; simpa using he02 x hx) (by simpa using hv)
              (by simpa using hcp.ext he02) (by simpa using hcd.ext he02)
      · split
        · next st2 heq2 => rw [heq2] at hr; exact ⟨hr.1, he1.trans hr.2.1, by intro _ h; cases h⟩
        · next st2 heq2 =>
          rw [heq2] at hr
          refine ⟨(hr.1.unvisit _ _ none (by intro _ h; cases h)).tick 16, ?_, by intro _ h; cases h⟩
          intro x hx; simpa using hr.2.1 x (he1 x hx)
        · next st2 val heq2 =>
          rw [heq2] at hr
          obtain ⟨hI2, he2, hv2⟩ := hr
          have hv : ValOK inp st2.log val := hv2 val rfl
          simp only at hI2 he2 hv
          have he02 : Ext st st2 := he1.trans he2
          exact walk_mark_unvisit ihW cx (home, id) copy r.text kind val hI2 he02 hv
            (hC.path.ext he02) (hC.doc.ext he02)

theorem resolve_step {inp : Input} {f : Nat} (ihR : PResolve inp f) (ihF : PFrag inp f) (ihW : PWalk inp f)
    (ihL : PLoad inp f) : PResolve inp (f + 1) := by
  intro cx home copy n st hI hC hn
  cases n with
  | mk id kind ref kids =>
  cases ref with
  | none =>
    simp only [resolve]
    have hw := ihW cx home kids st hI hC (by intro r hr; exact hn r (refs_mk_kids hr))
    generalize walk inp f cx home kids st = out at hw ⊢
    obtain ⟨st1, ok⟩ := out
    refine ⟨hw.1, hw.2, ?_⟩
    intro v h
    rw [okRes_val h]
    exact ⟨hC.home.ext hw.2, by intro r hr; exact hn r (refs_mk_kids hr)⟩
  | some r =>
    have hrin : r ∈ refsAt inp home.1 := hn r refs_mk_ref
    simp only [resolve]
    split
    · next v hv =>
      refine ⟨hI.tick 1, Ext.refl st, ?_⟩
      intro w h; cases h
      exact hI.marks _ (mem_assoc hv)
    · split
      · exact ⟨(hI.addPend copy r.text kind (home, id)).tick 2, by intro x hx; simpa using hx, by intro _ h; cases h⟩
      · have hI0 : Inv inp { st with inprog := (kind, r.text) :: st.inprog } := hI.inprog _
        split
        · -- .whole: loadSingleElementFromURI
          next hform =>
          split
          · exact ⟨hI0.tick 3, Ext.refl st, by intro _ h; cases h⟩
          · next u al hg =>
            have hj := guarded_read_justified (st := { st with inprog := (kind, r.text) :: st.inprog }) hg hC.home hC.path.2 hrin
              (by rw [hform]; decide)
            have hrd := hI0.logRead al u hj.1 hj.2.1 hj.2.2
            have he : Ext st (logRead al u { st with inprog := (kind, r.text) :: st.inprog }) := by
              intro x hx; simp [hx]
            have hu : u ∈ (logRead al u { st with inprog := (kind, r.text) :: st.inprog }).log := by simp
            split
            · exact ⟨hrd.tick 12, he, by intro _ h; cases h⟩
            · next file hfile =>
              have hl : LoadedN inp (logRead al u { st with inprog := (kind, r.text) :: st.inprog }).log (some u) :=
                LoadedN.here hu hfile
              split
              · split
                · exact ⟨hrd.tick 22, he, by intro _ h; cases h⟩
                split
                · -- the file is itself a reference (path item): resolve it as a copy with the file's location
                  have he4 : Ext st (tick 24 (logRead al u { st with inprog := (kind, r.text) :: st.inprog })) := by
                    intro x hx; simpa using he x hx
                  have hr := ihR ⟨cx.doc, some u⟩ (some u, st.gen + 1) true (.mk 0 .pathItem file.selfRef [])
                    (tick 24 (logRead al u { st with inprog := (kind, r.text) :: st.inprog })) (hrd.tick 24)
                    ⟨by simpa using hl, by simpa using (hC.ext he).doc, by simpa using hl.toU⟩ (NodeIn.self hfile)
                  split
                  · next st1 heq => rw [heq] at hr; exact ⟨hr.1, he4.trans hr.2.1, by intro _ h; cases h⟩
                  · next st1 heq =>
                    rw [heq] at hr
                    refine ⟨(hr.1.unvisit _ _ none (by intro _ h; cases h)).tick 25, ?_, by intro _ h; cases h⟩
                    intro x hx; simpa using hr.2.1 x (he4 x hx)
                  · next st1 val heq =>
                    rw [heq] at hr
                    obtain ⟨hI1, he1, hv1⟩ := hr
                    have hv : ValOK inp st1.log val := hv1 val rfl
                    simp only at hI1 he1 hv
                    have he01 : Ext st st1 := he4.trans he1
                    have hl4 : LoadedN inp (tick 24 (logRead al u { st with inprog := (kind, r.text) :: st.inprog })).log (some u) := by
                      simpa using hl
                    exact walk_mark_unvisit ihW ⟨cx.doc, some u⟩ (home, id) copy r.text kind val hI1 he01 hv
                      (hl4.ext he1) ((hC.ext he01).doc)
                split
                · exact ⟨(hrd.unvisit _ _ none (by intro _ h; cases h)).tick 23, by intro x hx; simpa using he x hx,
                    by intro _ h; cases h⟩
                have hv : ValOK inp (logRead al u { st with inprog := (kind, r.text) :: st.inprog }).log
                    ((some u, st.gen + 1), file.elemAs kind) := ⟨hl.toU, KidsIn.elem kind hfile⟩
                exact walk_mark_unvisit ihW ⟨cx.doc, some u⟩ (home, id) copy r.text kind
                  ((some u, st.gen + 1), file.elemAs kind) (hrd.tick 4)
                  (by intro x hx; simpa using he x hx) (by simpa using hv)
                  (by simpa using hl) (by simpa using (hC.ext he).doc)
              · exact ⟨hrd.tick 13, he, by intro _ h; cases h⟩
        · -- .internal
          next hform =>
          have hp := ihF cx home copy id kind r cx.doc cx.path { st with inprog := (kind, r.text) :: st.inprog } hI0
            ⟨hC.path, hC.doc, hC.home⟩ hC.doc hC.path
          exact ⟨hp.1, hp.2.1, hp.2.2⟩
        · -- .fragment: resolveComponent through resolveRefAndDocument
          next hform =>
          split
          · exact ⟨hI0.tick 3, Ext.refl st, by intro _ h; cases h⟩
          · next u al hg =>
            have hj := guarded_read_justified (st := { st with inprog := (kind, r.text) :: st.inprog }) hg hC.home hC.path.2 hrin
              (by rw [hform]; decide)
            have hl := ihL al u { st with inprog := (kind, r.text) :: st.inprog } hI0 hj.1 hj.2.1 hj.2.2
            split
            · next st1 heq => rw [heq] at hl; exact ⟨hl.1.1, hl.1.2, by intro _ h; cases h⟩
            · next st1 heq =>
              rw [heq] at hl
              obtain ⟨⟨hI1, he1⟩, hu'⟩ := hl
              have hu := hu' rfl
              simp only at hI1 he1 hu
              have he1' : Ext st (tick 5 st1) := by intro x hx; simpa using he1 x hx
              have hp := ihF cx home copy id kind r (some u) (some u) (tick 5 st1) (hI1.tick 5) (hC.ext he1')
                (by simpa using hu) (by simpa using hu)
              exact ⟨hp.1, he1'.trans hp.2.1, hp.2.2⟩

/-- every walker of the model preserves the invariant, for every amount of fuel -/
theorem all_steps (inp : Input) : ∀ f, PResolve inp f ∧ PFrag inp f ∧ PWalk inp f ∧ PLoad inp f := by
  intro f
  induction f with
  | zero =>
    refine ⟨?_, ?_, ?_, ?_⟩
    · intro cx home copy n st hI _ _
      simp only [resolve]
      exact ⟨hI.oof, Ext.refl st, by intro _ h; cases h⟩
    · intro cx home copy id kind r cdoc cpath st hI _ _ _
      simp only [fragStep]
      exact ⟨hI.oof, Ext.refl st, by intro _ h; cases h⟩
    · intro cx home ks st hI _ _
      cases ks with
      | nil => simp only [walk]; exact ⟨hI, Ext.refl st⟩
      | cons n ns => simp only [walk]; exact ⟨hI.oof, Ext.refl st⟩
    · intro al u st hI _ _ _
      simp only [loadDoc]
      exact ⟨⟨hI.oof, Ext.refl st⟩, by intro h; cases h⟩
  | succ f ih =>
    obtain ⟨ihR, ihF, ihW, ihL⟩ := ih
    exact ⟨resolve_step ihR ihF ihW ihL, frag_step ihR ihW, walk_step ihR ihW, load_step ihW⟩

theorem Inv.init (inp : Input) : Inv inp St.init := by
  refine ⟨?_, fun _ => AllJust.nil inp, ?_, fun _ => rfl, fun _ => rfl⟩
  · intro kv h; simp [St.init] at h
  · intro _ u h; simp [St.init] at h

/-- the invariant is preserved by every entry point, from any loader state that satisfies it -/
theorem loadFrom_inv (inp : Input) (fuel : Nat) (st0 : St) (h0 : Inv inp st0) : Inv inp (loadFrom inp fuel st0).1 := by
  obtain ⟨_, _, hW, hL⟩ := all_steps inp fuel
  unfold loadFrom
  split
  · -- LoadFromFile / LoadFromURI
    next he =>
    split
    · exact h0
    · next u hu =>
      have hroot : some u = inp.root := by unfold Input.root; rw [he, hu]
      exact (hL true u st0 h0 (fun _ _ => Or.inl hroot) (fun _ => ⟨hroot, rfl⟩) (fun _ => rfl)).1.1
  · -- LoadFromDataWithPath
    next he =>
    split
    · exact h0
    · next u hu =>
      have hroot : some u = inp.root := by unfold Input.root; rw [he, hu]
      split
      · exact h0.tick 6
      · split
        · have hl : LoadedN inp ({ st0 with docs := u :: st0.docs } : St).log (some u) := LoadedN.root hroot
          have hk : KidsIn inp (some u) inp.rootFile.tops := by
            intro r hr
            have : docAt inp (some u) = some inp.rootFile := by unfold docAt; simp [hroot]
            rw [refsAt_of_docAt this]; unfold File.refs; simp [hr]
          exact (hW ⟨some u, some u⟩ (some u, 0) inp.rootFile.tops { st0 with docs := u :: st0.docs }
            (h0.docs _) ⟨hl, hl, hl.toU⟩ hk).1
        · exact h0.docs _
  · -- LoadFromData
    next he =>
    have hroot : (none : Option Url) = inp.root := by unfold Input.root; rw [he]
    split
    · have hl : LoadedN inp st0.log none := LoadedN.root hroot
      have hk : KidsIn inp none inp.rootFile.tops := by
        intro r hr
        have : docAt inp none = some inp.rootFile := by unfold docAt; simp [hroot]
        rw [refsAt_of_docAt this]; unfold File.refs; simp [hr]
      exact (hW ⟨none, none⟩ (none, 0) inp.rootFile.tops st0 h0 ⟨hl, hl, hl.toU⟩ hk).1
    · exact h0

/-- the invariant holds of the final state of every entry point on a fresh loader -/
theorem load_inv (inp : Input) (fuel : Nat) : Inv inp (load inp fuel).1 :=
  loadFrom_inv inp fuel St.init (Inv.init inp)

/-! ### histories: every load of a reused loader is a load of a fresh one -/

/-- `resetVisitedPathItemRefs` leaves nothing of the modelled state: a history is the list of fresh loads -/
theorem runH_fresh (fuel : Nat) : ∀ (steps : List Input) (st : St),
    runH steps fuel (carry st) = steps.map (fun inp => ⟨inp, (load inp fuel).1, (load inp fuel).2⟩)
  | [], _ => rfl
  | inp :: rest, st => by
    simp only [runH, List.map_cons]
    exact congrArg _ (runH_fresh fuel rest _)

end KinModel.Reads
