/-
Helper lemmas for C04: a containment edge the table covers is active under every option set; the example
objects the code visits under an accepted (or conforming) node are well-formed; along the property's
containment relation an accepted document has no violated rule (outside the exclusion classes).
-/
import KinModel.Lemmas.C04Local6
namespace KinModel.DocValidate

theorem validate_iff' (T : Table) (o : Opts) (d : Doc) :
    validate T o d = true ↔ ∀ n, Reach (active T o) d n → localOKV T o n = true :=
  descend_iff _ _ d

theorem Reach.trans {act : Act} {a b c : Doc} (h1 : Reach act a b) (h2 : Reach act b c) : Reach act a c := by
  induction h1 with
  | self => exact h2
  | step hm he _ ih => exact .step hm he (ih h2)

theorem mem_kidsAt {d : Doc} {pos : String} {c : Doc} (h : c ∈ d.kidsAt pos) : (pos, c) ∈ d.kids := by
  unfold Doc.kidsAt at h
  simp only [List.mem_map, List.mem_filter, decide_eq_true_eq] at h
  obtain ⟨⟨p, c'⟩, ⟨hm, hp⟩, rfl⟩ := h
  simp only at hp
  subst hp
  exact hm

/-- where an entry of `exampleEntries` comes from -/
theorem mem_exampleEntries {d : Doc} {a : Attrs} (h : a ∈ exampleEntries d) :
    ∃ r e, ("examples", r) ∈ d.kids ∧ r.kind = .exampleRef ∧ ("value", e) ∈ r.kids ∧ e.kind = .example ∧ e.attrs = a := by
  unfold exampleEntries at h
  cases hf : d.attrs.flag "hasExamples" with
  | false => simp [hf] at h
  | true =>
  simp only [hf, Bool.not_true, Bool.false_eq_true, if_false, List.mem_filterMap] at h
  obtain ⟨r, hr, hx⟩ := h
  by_cases hk : r.kind = .exampleRef
  · simp only [hk, if_true] at hx
    cases hv : r.kidsAt "value" with
    | nil => simp [hv] at hx
    | cons e es =>
      simp only [hv] at hx
      by_cases he : e.kind = .example
      · simp only [he, if_true, Option.some.injEq] at hx
        exact ⟨r, e, mem_kidsAt hr, hk, mem_kidsAt (by rw [hv]; simp), he, hx⟩
      · simp [he] at hx
  · simp [hk] at hx

theorem shape_of_rulesOK (o : Opts) (e : Doc) (hk : e.kind = .example) (h : rulesOK o e = true) :
    exampleShapeOK e.attrs = true := by
  cases e with | node k a kids =>
  simp only [Doc.kind] at hk
  subst hk
  simp (disch := decide) only [rulesOK, violations, Doc.kind, Doc.attrs, List.all_append, all_when, enabled_plain,
    Bool.and_eq_true] at h
  have h1 := h.1.1
  have h2 := h.1.2
  unfold exampleShapeOK
  simp only [Doc.attrs]
  by_cases hx : a.str "externalValue" = "" <;> cases hv : hasVal a <;> simp_all

theorem shape_of_localOK (T : Table) (o : Opts) (e : Doc) (vs : List Bool) (hk : e.kind = .example)
    (h : localOK T o e vs = true) : exampleShapeOK e.attrs = true := by
  cases e with | node k a kids =>
  simp only [Doc.kind] at hk
  subst hk
  simp only [localOK, localOKp, Doc.kind, Doc.attrs] at h
  unfold exampleShapeOK
  simp only [Doc.attrs]
  by_cases hx : a.str "externalValue" = "" <;> cases hv : hasVal a <;> simp_all

/-- in a conforming document the example objects under every node are well-formed -/
theorem examplesWFor_of_rules (o : Opts) (d : Doc) (h : ∀ n, Reach allAct d n → rulesOK o n = true) :
    examplesWFor o d = true := by
  have : examplesWF d = true := by
    unfold examplesWF
    rw [List.all_eq_true]
    intro a ha
    obtain ⟨r, e, hr, _, he, hke, rfl⟩ := mem_exampleEntries ha
    cases d with | node k aa kids =>
    cases r with | node rk ra rkids =>
    have hre : Reach allAct (.node k aa kids) e := .step hr rfl (.step he rfl .self)
    exact shape_of_rulesOK o e hke (h e hre)
  simp [examplesWFor, this]

/-- in a document the model accepts, the example objects the code visits under a node are well-formed -/
theorem examplesWFor_of_valid (T : Table) (o : Opts) (hT : TableOK T = true) (d : Doc)
    (hv : ∀ n, Reach (active T o) d n → localOKV T o n = true) : examplesWFor o d = true := by
  unfold examplesWFor
  cases hd : o.exDisabled with
  | true => rfl
  | false =>
    cases hs : d.attrs.flag "hasSchema" with
    | false => rfl
    | true =>
      cases hk : exampleKinds.contains d.kind with
      | false => rfl
      | true =>
       cases hx : d.attrs.flag "hasExample" with
       | true => rfl
       | false =>
       cases hg : (d.kind == .header && d.attrs.flag "again") with
       | true => simp
       | false =>
        have : examplesWF d = true := by
          unfold examplesWF
          rw [List.all_eq_true]
          intro a ha
          obtain ⟨r, e, hr, hkr, he, hke, rfl⟩ := mem_exampleEntries ha
          cases d with | node k aa kids =>
          cases r with | node rk ra rkids =>
          simp only [Doc.kind] at hkr hk
          subst hkr
          simp only [Doc.attrs, Doc.kind] at hs hx hg
          have hkm : k ∈ exampleKinds := by simpa using hk
          have hf := tableFacts T hT
          have a1 : active T o k aa "examples" = true := by
            unfold active
            rw [anyHolds_as o aa _ _ (hf.ex k hkm).2.2]
            simp [hd, hs, hx, hg]
          have a2 : active T o .exampleRef ra "value" = true := by
            unfold active
            exact anyHolds_of_nil o ra _ hf.exRef
          have hre : Reach (active T o) (.node k aa kids) e := .step hr a1 (.step he a2 .self)
          exact shape_of_localOK T o e _ hke (hv e hre)
        simp [this]

/-- the example objects the code visits under a node are well-formed as soon as every node the code reaches
from it violates no rule in force -/
theorem examplesWFor_of_reached_rules (T : Table) (o : Opts) (hT : TableOK T = true) (d : Doc)
    (hv : ∀ n, Reach (active T o) d n → rulesOK o n = true) : examplesWFor o d = true := by
  unfold examplesWFor
  cases hd : o.exDisabled with
  | true => rfl
  | false =>
    cases hs : d.attrs.flag "hasSchema" with
    | false => rfl
    | true =>
      cases hk : exampleKinds.contains d.kind with
      | false => rfl
      | true =>
       cases hx : d.attrs.flag "hasExample" with
       | true => rfl
       | false =>
       cases hg : (d.kind == .header && d.attrs.flag "again") with
       | true => simp
       | false =>
        have : examplesWF d = true := by
          unfold examplesWF
          rw [List.all_eq_true]
          intro a ha
          obtain ⟨r, e, hr, hkr, he, hke, rfl⟩ := mem_exampleEntries ha
          cases d with | node k aa kids =>
          cases r with | node rk ra rkids =>
          simp only [Doc.kind] at hkr hk
          subst hkr
          simp only [Doc.attrs, Doc.kind] at hs hx hg
          have hkm : k ∈ exampleKinds := by simpa using hk
          have hf := tableFacts T hT
          have a1 : active T o k aa "examples" = true := by
            unfold active
            rw [anyHolds_as o aa _ _ (hf.ex k hkm).2.2]
            simp [hd, hs, hx, hg]
          have a2 : active T o .exampleRef ra "value" = true := by
            unfold active
            exact anyHolds_of_nil o ra _ hf.exRef
          have hre : Reach (active T o) (.node k aa kids) e := .step hr a1 (.step he a2 .self)
          exact shape_of_rulesOK o e hke (hv e hre)
        simp [this]

/-- a containment edge of the property that the table covers is followed under every option set (for a header:
unless it is the mark of a header met again below itself, which the containment relation does not enter either) -/
theorem covered_active (T : Table) (o : Opts) (k : Kind) (a : Attrs) (pos : String)
    (hs : specAct k a pos = true) (hc : (k, pos) ∉ uncovered T) : active T o k a pos = true := by
  unfold specAct at hs
  rw [Bool.and_eq_true] at hs
  have hmem : (k, pos) ∈ specEdges := by simpa using hs.1
  have hrow : ((rowsFor T.edges k pos).contains [] ||
      (decide (k = .header) && (rowsFor T.edges k pos).contains ["@not:cond:h == header"])) = true := by
    cases hcon : ((rowsFor T.edges k pos).contains [] ||
      (decide (k = .header) && (rowsFor T.edges k pos).contains ["@not:cond:h == header"])) with
    | true => rfl
    | false =>
      exact absurd (List.mem_filter.mpr ⟨hmem, by simp only [hcon]; rfl⟩) hc
  unfold active
  rw [Bool.or_eq_true] at hrow
  rcases hrow with h | h
  · exact anyHolds_of_nil o a _ h
  · rw [Bool.and_eq_true] at h
    have hk : k = .header := by simpa using h.1
    have hg : a.flag "again" = false := by simpa [hk] using hs.2
    unfold anyHolds
    rw [List.any_eq_true]
    exact ⟨["@not:cond:h == header"], by simpa using h.2, by simp [guardsHold, litHolds, hg]⟩

theorem reach_rules (T : Table) (o : Opts) (hT : TableOK T = true) {d n : Doc} (hr : Reach specAct d n) :
    (∀ m, Reach specAct d m → exclNode (uncovered T) o m = false) → validate T o d = true → rulesOK o n = true := by
  induction hr with
  | @self d =>
    intro hex hv
    have hall := (validate_iff' T o d).mp hv
    have hl : localOKV T o d = true := hall d .self
    have he := hex d .self
    unfold exclNode at he
    rw [Bool.or_eq_false_iff] at he
    rw [← localOKV_eq_rules T o d hT he.1 (examplesWFor_of_valid T o hT d hall)]; exact hl
  | @step k a kids pos c n hm he hr' ih =>
    intro hex hv
    by_cases hu : (k, pos) ∈ uncovered T
    · -- the code does not report along this edge: the exclusion says nothing below it violates a rule
      have hb := hex (.node k a kids) .self
      unfold exclNode at hb
      rw [Bool.or_eq_false_iff] at hb
      have hb2 := hb.2
      unfold exclBelow at hb2
      have hkid := List.any_eq_false.mp hb2 (pos, c) (by simpa [Doc.kids] using hm)
      have hclean : specCleanB o c = true := by
        have hkid' : (k, pos) ∈ uncovered T → specCleanB o c = true := by simpa [Doc.kind] using hkid
        exact hkid' hu
      exact (descend_plain_iff _ _ c).mp hclean n hr'
    · have hact := covered_active T o k a pos he hu
      have hvc : validate T o c = true := by
        unfold validate
        rw [descend_iff]
        intro m hm'
        exact (validate_iff' T o _).mp hv m (.step hm hact hm')
      exact ih (fun m hm' => hex m (.step hm he hm')) hvc

end KinModel.DocValidate
