/-
Helper lemmas for C04: a containment edge the table covers is active under every option set; along the
property's containment relation an accepted document has no violated rule (outside the exclusion classes).
-/
import KinModel.Lemmas.C04Local6
namespace KinModel.DocValidate

/-- no containment edge of the property is one of the structurally guarded `examples` edges -/
theorem specEdges_unguarded : specEdges.all (fun e => e.2 != "examples") = true := by decide

theorem validate_iff' (T : Table) (o : Opts) (d : Doc) :
    validate T o d = true ↔ ∀ n, Reach (active T o) d n → localOK T o n = true :=
  descend_iff _ _ d

/-- a containment edge of the property that the table covers is followed under every option set -/
theorem covered_active (T : Table) (o : Opts) (k : Kind) (a : Attrs) (pos : String)
    (hs : (k, pos) ∈ specEdges) (hc : (k, pos) ∉ uncovered T) : active T o k a pos = true := by
  have hrow : (rowsFor T.edges k pos).contains [] = true := by
    cases hcon : (rowsFor T.edges k pos).contains [] with
    | true => rfl
    | false => exact absurd (List.mem_filter.mpr ⟨hs, by show (!(rowsFor T.edges k pos).contains []) = true; rw [hcon]; rfl⟩) hc
  have hne : (pos != "examples") = true := by
    have := List.all_eq_true.mp specEdges_unguarded (k, pos) hs
    simpa using this
  unfold active structGuard
  rw [anyHolds_of_nil o _ hrow]
  have : (pos = "examples") = False := by simpa using hne
  simp [this]

theorem reach_rules (T : Table) (o : Opts) (hT : TableOK T = true) {d n : Doc} (hr : Reach specAct d n) :
    (∀ m, Reach specAct d m → exclNode (uncovered T) o m = false) → validate T o d = true → rulesOK o n = true := by
  induction hr with
  | @self d =>
    intro hex hv
    have hl : localOK T o d = true := (validate_iff' T o d).mp hv d .self
    have he := hex d .self
    unfold exclNode at he
    rw [Bool.or_eq_false_iff] at he
    rw [← localOK_eq_rules T o d hT he.1]; exact hl
  | @step k a kids pos c n hm he hr' ih =>
    intro hex hv
    have hspec : (k, pos) ∈ specEdges := by simpa [specAct] using he
    by_cases hu : (k, pos) ∈ uncovered T
    · -- the code lacks this edge: the exclusion says nothing below it violates a rule
      have hb := hex (.node k a kids) .self
      unfold exclNode at hb
      rw [Bool.or_eq_false_iff] at hb
      have hb2 := hb.2
      unfold exclBelow at hb2
      have hkid := List.any_eq_false.mp hb2 (pos, c) (by simpa [Doc.kids] using hm)
      have hclean : specCleanB o c = true := by
        have hkid' : (k, pos) ∈ uncovered T → specCleanB o c = true := by simpa [Doc.kind] using hkid
        exact hkid' hu
      exact (descend_iff _ _ c).mp hclean n hr'
    · have hact := covered_active T o k a pos hspec hu
      have hvc : validate T o c = true := by
        unfold validate
        rw [descend_iff]
        intro m hm'
        exact (validate_iff' T o _).mp hv m (.step hm hact hm')
      exact ih (fun m hm' => hex m (.step hm he hm')) hvc

end KinModel.DocValidate
