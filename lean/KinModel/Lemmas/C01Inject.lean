/-
Helper lemmas for Props/C01D.lean (C01 under default injection): the node verdict `nodePass` with and without a `not`
child, and the keyword visitors on a bare schema through `ownD`.
-/
import KinModel.Props.C12D
namespace KinModel.Schema

theorem kvsEvs_free_passes (q : J) (has : Option Bool) (h : has ≠ some false) (l : List (String × J)) :
    passesL (kvsEvs q has [] [] l) = true := by
  rw [passesL_kvsEvs]
  simp only [List.all_eq_true]
  intro kx _
  rw [passesL_memberEvs]
  simp [lookup, propRes, h]

theorem ownD_bare_passes (m : Mode) (env : Env) (kw : Kw) (v : J) (hb : kw.bare = true) (ha : kw.addHas ≠ some false) :
    passesL (ownD m env kw [] v [] [] []).1 = !v.isNull := by
  have key : ∀ (w q : J) (ch : List Ev), w.isNull = false → passesL ch = true → passesL (ownEvsQ env kw [] w q ch) = true := by
    intro w q ch hw hch
    rw [ownEvsQ_passes, hch]
    refine (ownOK_iff env kw [] w true True (by simp) hw).mpr ⟨(bare_own env hb w hw).2, ?_⟩
    cases w <;> trivial
  cases v with
  | null => simp [ownD, ownEvsQ, passesL, Ev.passes, J.isNull]
  | bool x => simpa [ownD, J.isNull] using key (.bool x) (.bool x) [] rfl (by simp [passesL])
  | num x => simpa [ownD, J.isNull] using key (.num x) (.num x) [] rfl (by simp [passesL])
  | str x => simpa [ownD, J.isNull] using key (.str x) (.str x) [] rfl (by simp [passesL])
  | arr xs =>
    simp only [ownD, J.isNull, Bool.not_false]
    exact key (.arr xs) _ _ rfl (by simp [itemEvs, passesL])
  | obj kvs =>
    simp only [ownD, J.isNull, Bool.not_false]
    exact key (.obj _) _ _ rfl (kvsEvs_free_passes _ _ ha _)
/-- the node verdict with a `not` child = (null admitted ∨ the child rejects) ∧ the node verdict without it: the sub-visit
results other than `rn` are read the same way whether or not there is a `not` child -/
theorem nodePass_not_factor (m : Mode) (env : Env) (kw : Kw) (a b c : List S) (p : List (String × S)) (v : J) (o : Out)
    (ro ra rl items : List Out) (props addl : List (String × Out)) :
    nodePass m env kw a b c p false v ⟨some o, ro, ra, rl, items, props, addl⟩ =
      (((v.isNull && kw.permitsNull) || !passesL o.1) && nodePass m env kw a b c p false v ⟨none, ro, ra, rl, items, props, addl⟩) := by
  unfold nodePass
  by_cases h : (v.isNull && kw.permitsNull) = true
  · simp [h]
  · simp only [h, if_false, Bool.false_eq_true, notOK, Bool.false_or, Bool.true_and, Bool.and_assoc]

theorem shortcut_facts' {kw : Kw} {a b c : List S} {i : Option S} {p : List (String × S)} {ad : Option S}
    (h : (S.mk kw a b c none i p ad).shortcut = true) :
    a = [] ∧ b = [] ∧ c = [] ∧ i = none ∧ p = [] ∧ ad = none ∧ kw.bare = true ∧ kw.addHas ≠ some false := by
  simp only [S.shortcut, S.hasSub, S.isEmpty, Bool.and_eq_true, Bool.not_eq_true', Bool.or_eq_false_iff,
    Option.isSome_eq_false_iff, Option.isNone_iff_eq_none, bne_iff_ne, ne_eq] at h
  obtain ⟨⟨⟨⟨⟨⟨⟨_, hi⟩, had⟩, hp⟩, hc⟩, hb⟩, ha⟩, he⟩ := h
  simp_all

end KinModel.Schema
