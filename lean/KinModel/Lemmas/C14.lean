/- Helper lemmas for C14 (simulation relations between the wrappers and a direct run). Core only. -/
import KinModel.Middleware
namespace KinModel.Middleware

/-! ### client basics -/

theorem validCode_200 : validCode 200 = true := by decide
theorem isInfo_200 : isInfo 200 = false := by decide

/-- transport, status, informational responses, body and panic of a client state (everything but the header
maps and the flush flag) -/
def Core (c1 c2 : Client) : Prop :=
  c1.server = c2.server ∧ c1.status = c2.status ∧ c1.info = c2.info ∧ c1.body = c2.body ∧ c1.panicked = c2.panicked

theorem Core.refl (c : Client) : Core c c := ⟨rfl, rfl, rfl, rfl, rfl⟩

theorem Core.seen {c1 c2 : Client} (h : Core c1 c2) : c1.seen = c2.seen := by
  obtain ⟨_, h1, _, h2, _⟩ := h
  simp [Client.seen, h1, h2]

theorem core_writeHeader {c1 c2 : Client} (h : Core c1 c2) (n : Nat) :
    Core (c1.writeHeader n) (c2.writeHeader n) := by
  obtain ⟨h0, h1, hi, h2, h3⟩ := h
  unfold Client.writeHeader
  rw [h3, h1, h0]
  cases c2.panicked <;> cases c2.status <;> cases validCode n <;> cases c2.server <;> cases isInfo n <;>
    simp [Core, h0, h1, hi, h2, h3]

theorem core_write {c1 c2 : Client} (h : Core c1 c2) (bs : Bytes) : Core (c1.write bs) (c2.write bs) := by
  have hw := core_writeHeader h 200
  obtain ⟨h0, h1, hi, h2, h3⟩ := h
  obtain ⟨g0, g1, gi, g2, g3⟩ := hw
  unfold Client.write
  rw [h3]
  cases c2.panicked
  · simp [Core, g0, g1, gi, g2, g3]
  · simp [Core, h0, h1, hi, h2, h3]

theorem core_flush {c1 c2 : Client} (h : Core c1 c2) : Core c1.flush c2.flush := by
  have hw := core_writeHeader h 200
  obtain ⟨h0, h1, hi, h2, h3⟩ := h
  obtain ⟨g0, g1, gi, g2, g3⟩ := hw
  unfold Client.flush
  rw [h3]
  cases c2.panicked
  · simp [Core, g0, g1, gi, g2, g3]
  · simp [Core, h0, h1, hi, h2, h3]

theorem core_setHdr {c1 c2 : Client} (h : Core c1 c2) (k v : String) : Core (c1.setHdr k v) (c2.setHdr k v) := by
  obtain ⟨h0, h1, hi, h2, h3⟩ := h
  unfold Client.setHdr
  rw [h3]
  cases c2.panicked <;> simp [Core, h0, h1, hi, h2, h3]

theorem core_delHdr {c1 c2 : Client} (h : Core c1 c2) (k : String) : Core (c1.delHdr k) (c2.delHdr k) := by
  obtain ⟨h0, h1, hi, h2, h3⟩ := h
  unfold Client.delHdr
  rw [h3]
  cases c2.panicked <;> simp [Core, h0, h1, hi, h2, h3]

theorem core_abort {c1 c2 : Client} (h : Core c1 c2) : Core c1.abort c2.abort := by
  obtain ⟨h0, h1, hi, h2, _⟩ := h
  simp [Core, Client.abort, h0, h1, hi, h2]

theorem core_direct {c1 c2 : Client} (h : Core c1 c2) (op : Op) : Core (direct c1 op) (direct c2 op) := by
  cases op with
  | setHdr k v => exact core_setHdr h k v
  | delHdr k => exact core_delHdr h k
  | writeHeader n => exact core_writeHeader h n
  | write bs => exact core_write h bs
  | flush => exact core_flush h
  | panic => exact core_abort h

/-- status, body and panic of a run do not depend on the header maps / flush flag it starts from -/
theorem core_runDirect {c1 c2 : Client} (h : Core c1 c2) (ops : List Op) :
    Core (runDirect c1 ops) (runDirect c2 ops) := by
  induction ops generalizing c1 c2 with
  | nil => exact h
  | cons op ops ih => exact ih (core_direct h op)

/-- header-map calls (and a panic) leave transport, status, informational responses, body, header snapshot and
flush flag alone; `panicked` can only be raised -/
theorem hdrStep_frame (c : Client) (op : Op) :
    (hdrStep c op).server = c.server ∧ (hdrStep c op).status = c.status ∧ (hdrStep c op).info = c.info ∧
    (hdrStep c op).body = c.body ∧ (hdrStep c op).sent = c.sent ∧ (hdrStep c op).flushed = c.flushed ∧
    ((hdrStep c op).panicked = c.panicked ∨ op = .panic) := by
  cases op <;> simp [hdrStep, Client.setHdr, Client.delHdr, Client.abort] <;> split <;> simp

theorem foldl_hdrStep_frame (c : Client) (ops : List Op) :
    (ops.foldl hdrStep c).server = c.server ∧ (ops.foldl hdrStep c).status = c.status ∧
    (ops.foldl hdrStep c).info = c.info ∧ (ops.foldl hdrStep c).body = c.body ∧
    (ops.foldl hdrStep c).sent = c.sent ∧ (ops.foldl hdrStep c).flushed = c.flushed := by
  induction ops generalizing c with
  | nil => simp
  | cons op ops ih =>
    obtain ⟨a0, a1, a2, a3, a4, a5⟩ := ih (hdrStep c op)
    obtain ⟨b0, b1, b2, b3, b4, b5, _⟩ := hdrStep_frame c op
    simp only [List.foldl_cons]
    exact ⟨a0.trans b0, a1.trans b1, a2.trans b2, a3.trans b3, a4.trans b4, a5.trans b5⟩

theorem hdrStep_panicked_mono (c : Client) (op : Op) (h : c.panicked = true) : (hdrStep c op).panicked = true := by
  cases op <;> simp [hdrStep, Client.setHdr, Client.delHdr, Client.abort, h]

theorem foldl_hdrStep_panicked_mono (c : Client) (ops : List Op) (h : c.panicked = true) :
    (ops.foldl hdrStep c).panicked = true := by
  induction ops generalizing c with
  | nil => exact h
  | cons op ops ih => exact ih _ (hdrStep_panicked_mono c op h)

/-- the header-only run panics exactly when the handler does (or the writer was dead before) -/
theorem foldl_hdrStep_panicked (c : Client) (ops : List Op) :
    (ops.foldl hdrStep c).panicked = (c.panicked || panics ops) := by
  induction ops generalizing c with
  | nil => simp [panics]
  | cons op ops ih =>
    simp only [List.foldl_cons]
    rw [ih]
    cases op <;> cases hp : c.panicked <;>
      simp [hdrStep, Client.setHdr, Client.delHdr, Client.abort, panics, hp]

theorem panics_false_iff (ops : List Op) : panics ops = false ↔ NoPanic ops := by
  simp [panics, NoPanic]

/-- without a handler panic the header-only run is `Core`-equal to where it started -/
theorem core_foldl_hdrStep (c : Client) (ops : List Op) (hn : NoPanic ops) :
    Core (ops.foldl hdrStep c) c ∧ (ops.foldl hdrStep c).sent = c.sent ∧ (ops.foldl hdrStep c).flushed = c.flushed := by
  obtain ⟨a0, a1, a2, a3, a4, a5⟩ := foldl_hdrStep_frame c ops
  have hp := foldl_hdrStep_panicked c ops
  rw [(panics_false_iff ops).mpr hn] at hp
  exact ⟨⟨a0, a1, a2, a3, by simpa using hp⟩, a4, a5⟩

/-! ### direct runs never panic on valid codes -/

theorem writeHeader_panicked (c : Client) (n : Nat) (hv : validCode n = true) :
    (c.writeHeader n).panicked = c.panicked := by
  unfold Client.writeHeader
  cases hp : c.panicked <;> cases c.status <;> cases c.server <;> cases isInfo n <;> simp [hv, hp]

theorem writeHeader_server (c : Client) (n : Nat) : (c.writeHeader n).server = c.server := by
  unfold Client.writeHeader
  cases c.panicked <;> cases c.status <;> cases validCode n <;> cases hs : c.server <;> cases isInfo n <;> simp [hs]

theorem direct_server (c : Client) (op : Op) : (direct c op).server = c.server := by
  cases op with
  | setHdr k v => simp [direct, Client.setHdr]; split <;> simp
  | delHdr k => simp [direct, Client.delHdr]; split <;> simp
  | writeHeader n => exact writeHeader_server c n
  | write bs => simp only [direct, Client.write]; split <;> simp [writeHeader_server]
  | flush => simp only [direct, Client.flush]; split <;> simp [writeHeader_server]
  | panic => simp [direct, Client.abort]

theorem runDirect_server (c : Client) (ops : List Op) : (runDirect c ops).server = c.server := by
  induction ops generalizing c with
  | nil => rfl
  | cons op ops ih => simp only [runDirect, List.foldl_cons] at *; rw [ih, direct_server]

theorem direct_panicked (c : Client) (op : Op) (hv : ∀ n, op = .writeHeader n → validCode n = true)
    (hn : op ≠ .panic) : (direct c op).panicked = c.panicked := by
  cases op with
  | setHdr k v => simp [direct, Client.setHdr]; split <;> simp_all
  | delHdr k => simp [direct, Client.delHdr]; split <;> simp_all
  | writeHeader n => exact writeHeader_panicked c n (hv n rfl)
  | write bs =>
    simp only [direct, Client.write]
    split
    · rfl
    · simp [writeHeader_panicked c 200 validCode_200]
  | flush =>
    simp only [direct, Client.flush]
    split
    · rfl
    · simp [writeHeader_panicked c 200 validCode_200]
  | panic => exact absurd rfl hn

theorem runDirect_panicked (c : Client) (ops : List Op) (hv : ValidCodes ops) (hn : NoPanic ops) :
    (runDirect c ops).panicked = c.panicked := by
  induction ops generalizing c with
  | nil => rfl
  | cons op ops ih =>
    have h1 : ValidCodes ops := fun n hm => hv n (List.mem_cons_of_mem _ hm)
    have hn1 : NoPanic ops := fun hm => hn (List.mem_cons_of_mem _ hm)
    have h2 := direct_panicked c op (fun n hm => hv n (by simp [hm])) (fun he => hn (by simp [he]))
    simp only [runDirect, List.foldl_cons] at *
    rw [ih _ h1 hn1, h2]

theorem validCodesB_iff (ops : List Op) : validCodesB ops = true ↔ ValidCodes ops := by
  unfold validCodesB ValidCodes
  rw [List.all_eq_true]
  constructor
  · intro h n hn; exact h _ hn
  · intro h o ho
    cases o with
    | writeHeader n => exact h n ho
    | _ => rfl

/-! ### strict wrapper: closed form of a run -/

theorem strict_run_eq (w : Strict) (ops : List Op) :
    Strict.run w ops =
      { headerWritten := w.headerWritten || (wroteStatus ops).isSome,
        status := if w.headerWritten then w.status else (wroteStatus ops).getD w.status,
        buf := w.buf ++ written ops,
        client := ops.foldl hdrStep w.client } := by
  induction ops generalizing w with
  | nil => cases w; simp [Strict.run, wroteStatus, firstStatus, written]
  | cons op ops ih =>
    simp only [Strict.run, List.foldl_cons] at *
    rw [ih]
    cases op with
    | writeHeader n =>
      cases hw : w.headerWritten <;> cases hi : isInfo n <;>
        simp [Strict.step, hw, hi, wroteStatus, firstStatus, written, hdrStep]
    | _ => cases hw : w.headerWritten <;> simp [Strict.step, hw, wroteStatus, firstStatus, written, hdrStep]

/-! ### direct run: closed form of status and body (valid codes, no panic) -/

theorem direct_status_body (c : Client) (op : Op) (hp : c.panicked = false)
    (hv : ∀ n, op = .writeHeader n → validCode n = true) :
    (direct c op).status = (match c.status with | some s => some s | none => firstStatus c.server true [op]) ∧
    (direct c op).body = c.body ++ written [op] := by
  cases op with
  | setHdr k v => cases hs : c.status <;> simp [direct, Client.setHdr, hp, hs, firstStatus, written]
  | delHdr k => cases hs : c.status <;> simp [direct, Client.delHdr, hp, hs, firstStatus, written]
  | writeHeader n =>
    have := hv n rfl
    cases hs : c.status <;> cases hsv : c.server <;> cases hi : isInfo n <;>
      simp [direct, Client.writeHeader, hp, hs, hsv, hi, firstStatus, written, this]
  | write bs =>
    cases hs : c.status <;> cases hsv : c.server <;>
      simp [direct, Client.write, Client.writeHeader, hp, hs, hsv, firstStatus, written, validCode_200, isInfo_200]
  | flush =>
    cases hs : c.status <;> cases hsv : c.server <;>
      simp [direct, Client.flush, Client.writeHeader, hp, hs, hsv, firstStatus, written, validCode_200, isInfo_200]
  | panic => cases hs : c.status <;> simp [direct, Client.abort, hs, firstStatus, written]

theorem firstStatus_cons (s b : Bool) (op : Op) (ops : List Op) :
    firstStatus s b (op :: ops) = (match firstStatus s b [op] with | some x => some x | none => firstStatus s b ops) := by
  cases op <;> cases b <;> simp [firstStatus]
  all_goals (split <;> simp)

theorem written_cons (op : Op) (ops : List Op) : written (op :: ops) = written [op] ++ written ops := by
  cases op <;> simp [written]

theorem runDirect_status_body (c : Client) (ops : List Op) (hp : c.panicked = false) (hv : ValidCodes ops)
    (hn : NoPanic ops) :
    (runDirect c ops).status = (match c.status with | some s => some s | none => firstStatus c.server true ops) ∧
    (runDirect c ops).body = c.body ++ written ops := by
  induction ops generalizing c with
  | nil => cases hs : c.status <;> simp [runDirect, firstStatus, written, hs]
  | cons op ops ih =>
    have h1 : ValidCodes ops := fun n hm => hv n (List.mem_cons_of_mem _ hm)
    have hn1 : NoPanic ops := fun hm => hn (List.mem_cons_of_mem _ hm)
    have hop : ∀ n, op = .writeHeader n → validCode n = true := fun n hm => hv n (by simp [hm])
    have hp' : (direct c op).panicked = false := by
      rw [direct_panicked c op hop (fun he => hn (by simp [he]))]; exact hp
    obtain ⟨s1, b1⟩ := direct_status_body c op hp hop
    obtain ⟨s2, b2⟩ := ih (direct c op) hp' h1 hn1
    simp only [runDirect, List.foldl_cons] at *
    rw [s2, b2, s1, b1, direct_server, firstStatus_cons c.server true op ops, written_cons op ops]
    constructor
    · cases c.status <;> cases firstStatus c.server true [op] <;> simp
    · simp [List.append_assoc]

/-- without Flush calls the two readings of "first status" coincide -/
theorem firstStatus_noflush (s : Bool) (ops : List Op) (h : ∀ op ∈ ops, op ≠ Op.flush) :
    firstStatus s true ops = firstStatus s false ops := by
  induction ops with
  | nil => rfl
  | cons op ops ih =>
    have h1 := ih (fun o ho => h o (List.mem_cons_of_mem _ ho))
    cases op with
    | flush => exact absurd rfl (h .flush (by simp))
    | _ => simp [firstStatus, h1]

theorem informational_cons (s : Bool) (op : Op) (ops : List Op) (h : informational s (op :: ops) = false) :
    (s && opInfo op) = false ∧ informational s ops = false := by
  cases s <;> simp_all [informational]

/-- for a handler without informational codes the transport does not matter for the status it fixed -/
theorem firstStatus_noinfo (s b : Bool) (ops : List Op) (h : informational s ops = false) :
    firstStatus s b ops = firstStatus false b ops := by
  induction ops with
  | nil => rfl
  | cons op ops ih =>
    obtain ⟨h1, h2⟩ := informational_cons s op ops h
    have ih' := ih h2
    cases op with
    | writeHeader n => simp only [opInfo] at h1; simp [firstStatus, h1]
    | flush => cases b <;> simp [firstStatus, ih']
    | _ => simp [firstStatus, ih']

theorem firstStatus_valid (s b : Bool) (ops : List Op) (hv : ValidCodes ops) (n : Nat)
    (h : firstStatus s b ops = some n) : validCode n = true := by
  induction ops with
  | nil => simp [firstStatus] at h
  | cons op ops ih =>
    have hv' : ValidCodes ops := fun m hm => hv m (List.mem_cons_of_mem _ hm)
    cases op with
    | writeHeader m =>
      simp only [firstStatus] at h
      split at h
      · exact ih hv' h
      · simp at h; exact h ▸ hv m (by simp)
    | write bs => simp [firstStatus] at h; exact h ▸ validCode_200
    | setHdr k v => simp [firstStatus] at h; exact ih hv' h
    | delHdr k => simp [firstStatus] at h; exact ih hv' h
    | panic => simp [firstStatus] at h; exact ih hv' h
    | flush =>
      cases b
      · simp [firstStatus] at h; exact ih hv' h
      · simp [firstStatus] at h; exact h ▸ validCode_200

/-- the recorded status is never an informational code -/
theorem wroteStatus_notInfo (ops : List Op) (n : Nat) (h : wroteStatus ops = some n) : isInfo n = false := by
  unfold wroteStatus at h
  induction ops with
  | nil => simp [firstStatus] at h
  | cons op ops ih =>
    cases op with
    | writeHeader m =>
      simp only [firstStatus, Bool.true_and] at h
      cases hi : isInfo m with
      | true => simp [hi] at h; exact ih h
      | false => simp [hi] at h; exact h ▸ hi
    | write bs => simp [firstStatus] at h; exact h ▸ isInfo_200
    | setHdr k v => simp [firstStatus] at h; exact ih h
    | delHdr k => simp [firstStatus] at h; exact ih h
    | panic => simp [firstStatus] at h; exact ih h
    | flush => simp [firstStatus] at h; exact ih h

/-- a handler that fixed no status wrote no byte -/
theorem written_of_noStatus (ops : List Op) (h : firstStatus false false ops = none) : written ops = [] := by
  induction ops with
  | nil => rfl
  | cons op ops ih => cases op <;> simp [firstStatus] at h <;> simp [written, ih h]

/-! ### warn wrapper: refinement of the raw writer -/

/-- once the wrapper has recorded a status the client's status is fixed too (or the client panicked) -/
def WInv (w : Warn) : Prop :=
  w.headerWritten = true → (w.client.status.isSome = true ∨ w.client.panicked = true)

theorem warn_step (w : Warn) (op : Op) (h : WInv w) :
    (w.step op).client = direct w.client op ∧ WInv (w.step op) := by
  rcases w with ⟨hwr, st, buf, ⟨csv, cs, ci, cb, ch, csent, cf, cp⟩⟩
  unfold WInv at *
  cases op with
  | setHdr k v => cases cp <;> simp_all [Warn.step, direct, Client.setHdr]
  | delHdr k => cases cp <;> simp_all [Warn.step, direct, Client.delHdr]
  | writeHeader n =>
    cases hv : validCode n <;> cases hwr <;> cases cp <;> cases cs <;> cases csv <;> cases hin : isInfo n <;>
      simp_all [Warn.step, Warn.writeHeader, direct, Client.writeHeader]
  | write bs =>
    cases hwr <;> cases cp <;> cases cs <;> cases csv <;>
      simp_all [Warn.step, Warn.writeHeader, direct, Client.write, Client.writeHeader, validCode_200, isInfo_200]
  | flush =>
    cases hwr <;> cases cp <;> cases cs <;> cases csv <;>
      simp_all [Warn.step, direct, Client.flush, Client.writeHeader, validCode_200, isInfo_200]
  | panic => cases hwr <;> simp_all [Warn.step, direct, Client.abort]

theorem warn_run (w : Warn) (ops : List Op) (h : WInv w) :
    (Warn.run w ops).client = runDirect w.client ops ∧ WInv (Warn.run w ops) := by
  induction ops generalizing w with
  | nil => exact ⟨rfl, h⟩
  | cons op ops ih =>
    obtain ⟨h1, h2⟩ := warn_step w op h
    obtain ⟨h3, h4⟩ := ih (w.step op) h2
    simp only [Warn.run, runDirect, List.foldl_cons] at *
    rw [h3, h1]
    exact ⟨rfl, h4⟩

/-- what the warn wrapper records for validation: first status the handler wrote (0 if none), all bytes -/
theorem warn_run_record (w : Warn) (ops : List Op) :
    (Warn.run w ops).headerWritten = (w.headerWritten || (wroteStatus ops).isSome) ∧
    (Warn.run w ops).status = (if w.headerWritten then w.status else (wroteStatus ops).getD w.status) ∧
    (Warn.run w ops).buf = w.buf ++ written ops := by
  induction ops generalizing w with
  | nil => simp [Warn.run, wroteStatus, firstStatus, written]
  | cons op ops ih =>
    obtain ⟨a1, a2, a3⟩ := ih (w.step op)
    simp only [Warn.run, List.foldl_cons] at *
    rw [a1, a2, a3]
    cases op with
    | writeHeader n =>
      cases hw : w.headerWritten <;> cases hi : isInfo n <;>
        simp [Warn.step, Warn.writeHeader, hw, hi, wroteStatus, firstStatus, written]
    | _ => cases hw : w.headerWritten <;>
        simp [Warn.step, Warn.writeHeader, hw, wroteStatus, firstStatus, written, isInfo_200]

/-- the header map (and the panic flag) of a header-only run depends only on the header map and panic flag it
starts from -/
theorem hdr_foldl_hdrStep_indep (c1 c2 : Client) (ops : List Op) (hh : c1.hdr = c2.hdr) (hp : c1.panicked = c2.panicked) :
    (ops.foldl hdrStep c1).hdr = (ops.foldl hdrStep c2).hdr := by
  induction ops generalizing c1 c2 with
  | nil => exact hh
  | cons op ops ih =>
    simp only [List.foldl_cons]
    apply ih
    · cases op <;> simp [hdrStep, Client.setHdr, Client.delHdr, Client.abort, hp, hh] <;> split <;> simp [hh]
    · cases op <;> simp [hdrStep, Client.setHdr, Client.delHdr, Client.abort, hp] <;> split <;> simp_all

theorem getLast?_getD_cons {α : Type} (x d : α) (l : List α) : ((x :: l).getLast?).getD d = (l.getLast?).getD x := by
  cases l with
  | nil => simp
  | cons y ys =>
    rw [List.getLast?_cons_cons]
    cases h : (y :: ys).getLast? with
    | none => simp at h
    | some v => simp

theorem effCodeOK_of_validCodes (ops : List Op) (hv : ValidCodes ops) : EffCodeOK ops :=
  fun n hw => firstStatus_valid true false ops hv n hw

theorem badCode_false_iff (ops : List Op) : badCode ops = false ↔ EffCodeOK ops := by
  unfold badCode EffCodeOK
  cases wroteStatus ops with
  | none => simp
  | some n => simp

/-! ### request sequences -/

/-- a history-free machine answers every request of a sequence as it would answer it alone, from any state -/
theorem runSeq_of_historyFree {σ ρ ω : Type} (step : σ → ρ → σ × ω) (h : HistoryFree step) (s0 : σ) :
    ∀ (s : σ) (rs : List ρ), runSeq step s rs = rs.map (fun r => (step s0 r).2) := by
  intro s rs
  induction rs generalizing s with
  | nil => rfl
  | cons r rs ih => simp only [runSeq, List.map_cons, ih]; rw [h s s0 r]

theorem runSeq_length {σ ρ ω : Type} (step : σ → ρ → σ × ω) (s : σ) (rs : List ρ) :
    (runSeq step s rs).length = rs.length := by
  induction rs generalizing s with
  | nil => rfl
  | cons r rs ih => simp [runSeq, ih]

theorem strict_run_append (w : Strict) (a b : List Op) : Strict.run w (a ++ b) = Strict.run (Strict.run w a) b := by
  simp [Strict.run, List.foldl_append]

theorem strict_run_cons (w : Strict) (op : Op) (ops : List Op) : Strict.run w (op :: ops) = Strict.run (w.step op) ops := rfl

end KinModel.Middleware
