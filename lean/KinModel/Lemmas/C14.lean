/- Helper lemmas for C14 (simulation relations between the wrappers and a direct run). Core only. -/
import KinModel.Middleware
namespace KinModel.Middleware

/-! ### client basics -/

theorem validCode_200 : validCode 200 = true := by decide

/-- status/body/panic part of a client state (everything but the header maps and the flush flag) -/
def Core (c1 c2 : Client) : Prop :=
  c1.status = c2.status ∧ c1.body = c2.body ∧ c1.panicked = c2.panicked

theorem Core.refl (c : Client) : Core c c := ⟨rfl, rfl, rfl⟩

theorem Core.seen {c1 c2 : Client} (h : Core c1 c2) : c1.seen = c2.seen := by
  obtain ⟨h1, h2, _⟩ := h
  simp [Client.seen, h1, h2]

theorem core_writeHeader {c1 c2 : Client} (h : Core c1 c2) (n : Nat) :
    Core (c1.writeHeader n) (c2.writeHeader n) := by
  obtain ⟨h1, h2, h3⟩ := h
  unfold Client.writeHeader
  rw [h3, h1]
  cases c2.panicked <;> cases c2.status <;> cases validCode n <;> simp [Core, h1, h2, h3]

theorem core_write {c1 c2 : Client} (h : Core c1 c2) (bs : Bytes) : Core (c1.write bs) (c2.write bs) := by
  have hw := core_writeHeader h 200
  obtain ⟨h1, h2, h3⟩ := h
  obtain ⟨g1, g2, g3⟩ := hw
  unfold Client.write
  rw [h3]
  cases c2.panicked
  · simp [Core, g1, g2, g3]
  · simp [Core, h1, h2, h3]

theorem core_flush {c1 c2 : Client} (h : Core c1 c2) : Core c1.flush c2.flush := by
  have hw := core_writeHeader h 200
  obtain ⟨h1, h2, h3⟩ := h
  obtain ⟨g1, g2, g3⟩ := hw
  unfold Client.flush
  rw [h3]
  cases c2.panicked
  · simp [Core, g1, g2, g3]
  · simp [Core, h1, h2, h3]

theorem core_setHdr {c1 c2 : Client} (h : Core c1 c2) (k v : String) : Core (c1.setHdr k v) (c2.setHdr k v) := by
  obtain ⟨h1, h2, h3⟩ := h
  unfold Client.setHdr
  rw [h3]
  cases c2.panicked <;> simp [Core, h1, h2, h3]

theorem core_delHdr {c1 c2 : Client} (h : Core c1 c2) (k : String) : Core (c1.delHdr k) (c2.delHdr k) := by
  obtain ⟨h1, h2, h3⟩ := h
  unfold Client.delHdr
  rw [h3]
  cases c2.panicked <;> simp [Core, h1, h2, h3]

theorem core_direct {c1 c2 : Client} (h : Core c1 c2) (op : Op) : Core (direct c1 op) (direct c2 op) := by
  cases op with
  | setHdr k v => exact core_setHdr h k v
  | delHdr k => exact core_delHdr h k
  | writeHeader n => exact core_writeHeader h n
  | write bs => exact core_write h bs
  | flush => exact core_flush h

/-- status, body and panic of a run do not depend on the header maps / flush flag it starts from -/
theorem core_runDirect {c1 c2 : Client} (h : Core c1 c2) (ops : List Op) :
    Core (runDirect c1 ops) (runDirect c2 ops) := by
  induction ops generalizing c1 c2 with
  | nil => exact h
  | cons op ops ih => exact ih (core_direct h op)

theorem core_hdrStep (c : Client) (op : Op) : Core (hdrStep c op) c ∧ (hdrStep c op).sent = c.sent ∧
    (hdrStep c op).flushed = c.flushed := by
  cases op <;> simp [hdrStep, Client.setHdr, Client.delHdr, Core] <;> split <;> simp

theorem core_foldl_hdrStep (c : Client) (ops : List Op) :
    Core (ops.foldl hdrStep c) c ∧ (ops.foldl hdrStep c).sent = c.sent ∧ (ops.foldl hdrStep c).flushed = c.flushed := by
  induction ops generalizing c with
  | nil => exact ⟨Core.refl c, rfl, rfl⟩
  | cons op ops ih =>
    obtain ⟨⟨a1, a2, a3⟩, a4, a5⟩ := ih (hdrStep c op)
    obtain ⟨⟨b1, b2, b3⟩, b4, b5⟩ := core_hdrStep c op
    simp only [List.foldl_cons]
    exact ⟨⟨a1.trans b1, a2.trans b2, a3.trans b3⟩, a4.trans b4, a5.trans b5⟩

/-! ### direct runs never panic on valid codes -/

theorem writeHeader_panicked (c : Client) (n : Nat) (hv : validCode n = true) :
    (c.writeHeader n).panicked = c.panicked := by
  unfold Client.writeHeader
  cases hp : c.panicked <;> cases c.status <;> simp [hv, hp]

theorem direct_panicked (c : Client) (op : Op) (hv : ∀ n, op = .writeHeader n → validCode n = true) :
    (direct c op).panicked = c.panicked := by
  cases op with
  | setHdr k v => simp [direct, Client.setHdr]; split <;> simp_all
  | delHdr k => simp [direct, Client.delHdr]; split <;> simp_all
  | writeHeader n => exact writeHeader_panicked c n (hv n rfl)
  | write bs =>
    simp only [direct, Client.write]
    split
    · rfl
    · simp [writeHeader_panicked c 200 validCode_200]
  | flush =>
    simp only [direct, Client.flush]
    split
    · rfl
    · simp [writeHeader_panicked c 200 validCode_200]

theorem runDirect_panicked (c : Client) (ops : List Op) (hv : ValidCodes ops) :
    (runDirect c ops).panicked = c.panicked := by
  induction ops generalizing c with
  | nil => rfl
  | cons op ops ih =>
    have h1 : ValidCodes ops := fun n hn => hv n (List.mem_cons_of_mem _ hn)
    have h2 := direct_panicked c op (fun n hn => hv n (by simp [hn]))
    simp only [runDirect, List.foldl_cons] at *
    rw [ih _ h1, h2]

theorem validCodesB_iff (ops : List Op) : validCodesB ops = true ↔ ValidCodes ops := by
  unfold validCodesB ValidCodes
  rw [List.all_eq_true]
  constructor
  · intro h n hn; exact h _ hn
  · intro h o ho
    cases o with
    | writeHeader n => exact h n ho
    | _ => rfl

/-! ### strict wrapper: closed form of a run -/

theorem strict_run_eq (w : Strict) (ops : List Op) :
    Strict.run w ops =
      { headerWritten := w.headerWritten || (wroteStatus ops).isSome,
        status := if w.headerWritten then w.status else (wroteStatus ops).getD w.status,
        buf := w.buf ++ written ops,
        client := ops.foldl hdrStep w.client } := by
  induction ops generalizing w with
  | nil => cases w; simp [Strict.run, wroteStatus, firstStatus, written]
  | cons op ops ih =>
    simp only [Strict.run, List.foldl_cons] at *
    rw [ih]
    cases op <;> cases hw : w.headerWritten <;>
      simp [Strict.step, hw, wroteStatus, firstStatus, written, hdrStep]

/-! ### direct run: closed form of status and body (valid codes, no panic so far) -/

theorem direct_status_body (c : Client) (op : Op) (hp : c.panicked = false)
    (hv : ∀ n, op = .writeHeader n → validCode n = true) :
    (direct c op).status = (match c.status with | some s => some s | none => firstStatus true [op]) ∧
    (direct c op).body = c.body ++ written [op] := by
  cases op with
  | setHdr k v => cases hs : c.status <;> simp [direct, Client.setHdr, hp, hs, firstStatus, written]
  | delHdr k => cases hs : c.status <;> simp [direct, Client.delHdr, hp, hs, firstStatus, written]
  | writeHeader n =>
    have := hv n rfl
    cases hs : c.status <;> simp [direct, Client.writeHeader, hp, hs, firstStatus, written, this]
  | write bs =>
    cases hs : c.status <;>
      simp [direct, Client.write, Client.writeHeader, hp, hs, firstStatus, written, validCode_200]
  | flush =>
    cases hs : c.status <;>
      simp [direct, Client.flush, Client.writeHeader, hp, hs, firstStatus, written, validCode_200]

theorem firstStatus_cons (b : Bool) (op : Op) (ops : List Op) :
    firstStatus b (op :: ops) = (match firstStatus b [op] with | some s => some s | none => firstStatus b ops) := by
  cases op <;> cases b <;> simp [firstStatus]

theorem written_cons (op : Op) (ops : List Op) : written (op :: ops) = written [op] ++ written ops := by
  cases op <;> simp [written]

theorem runDirect_status_body (c : Client) (ops : List Op) (hp : c.panicked = false) (hv : ValidCodes ops) :
    (runDirect c ops).status = (match c.status with | some s => some s | none => firstStatus true ops) ∧
    (runDirect c ops).body = c.body ++ written ops := by
  induction ops generalizing c with
  | nil => cases hs : c.status <;> simp [runDirect, firstStatus, written, hs]
  | cons op ops ih =>
    have h1 : ValidCodes ops := fun n hn => hv n (List.mem_cons_of_mem _ hn)
    have hop : ∀ n, op = .writeHeader n → validCode n = true := fun n hn => hv n (by simp [hn])
    have hp' : (direct c op).panicked = false := by rw [direct_panicked c op hop]; exact hp
    obtain ⟨s1, b1⟩ := direct_status_body c op hp hop
    obtain ⟨s2, b2⟩ := ih (direct c op) hp' h1
    simp only [runDirect, List.foldl_cons] at *
    rw [s2, b2, s1, b1, firstStatus_cons true op ops, written_cons op ops]
    constructor
    · cases c.status <;> cases firstStatus true [op] <;> simp
    · simp [List.append_assoc]

/-- without Flush calls the two readings of "first status" coincide -/
theorem firstStatus_noflush (ops : List Op) (h : ∀ op ∈ ops, op ≠ Op.flush) :
    firstStatus true ops = firstStatus false ops := by
  induction ops with
  | nil => rfl
  | cons op ops ih =>
    have h1 := ih (fun o ho => h o (List.mem_cons_of_mem _ ho))
    cases op with
    | flush => exact absurd rfl (h .flush (by simp))
    | _ => simp [firstStatus, h1]

theorem firstStatus_valid (b : Bool) (ops : List Op) (hv : ValidCodes ops) (n : Nat)
    (h : firstStatus b ops = some n) : validCode n = true := by
  induction ops with
  | nil => simp [firstStatus] at h
  | cons op ops ih =>
    have hv' : ValidCodes ops := fun m hm => hv m (List.mem_cons_of_mem _ hm)
    cases op with
    | writeHeader m =>
      simp [firstStatus] at h
      exact h ▸ hv m (by simp)
    | write bs => simp [firstStatus] at h; exact h ▸ validCode_200
    | setHdr k v => simp [firstStatus] at h; exact ih hv' h
    | delHdr k => simp [firstStatus] at h; exact ih hv' h
    | flush =>
      cases b
      · simp [firstStatus] at h; exact ih hv' h
      · simp [firstStatus] at h; exact h ▸ validCode_200

/-- a handler that fixed no status wrote no byte -/
theorem written_of_noStatus (ops : List Op) (h : firstStatus false ops = none) : written ops = [] := by
  induction ops with
  | nil => rfl
  | cons op ops ih => cases op <;> simp [firstStatus] at h <;> simp [written, ih h]

/-! ### warn wrapper: refinement of the raw writer -/

/-- once the wrapper has recorded a status the client's status is fixed too (or the client panicked) -/
def WInv (w : Warn) : Prop :=
  w.headerWritten = true → (w.client.status.isSome = true ∨ w.client.panicked = true)

theorem warn_step (w : Warn) (op : Op) (h : WInv w) :
    (w.step op).client = direct w.client op ∧ WInv (w.step op) := by
  rcases w with ⟨hwr, st, buf, ⟨cs, cb, ch, csent, cf, cp⟩⟩
  unfold WInv at *
  cases op with
  | setHdr k v => cases cp <;> simp_all [Warn.step, direct, Client.setHdr]
  | delHdr k => cases cp <;> simp_all [Warn.step, direct, Client.delHdr]
  | writeHeader n =>
    cases hv : validCode n <;> cases hwr <;> cases cp <;> cases cs <;>
      simp_all [Warn.step, Warn.writeHeader, direct, Client.writeHeader]
  | write bs =>
    cases hwr <;> cases cp <;> cases cs <;>
      simp_all [Warn.step, Warn.writeHeader, direct, Client.write, Client.writeHeader, validCode_200]
  | flush =>
    cases hwr <;> cases cp <;> cases cs <;>
      simp_all [Warn.step, direct, Client.flush, Client.writeHeader, validCode_200]

theorem warn_run (w : Warn) (ops : List Op) (h : WInv w) :
    (Warn.run w ops).client = runDirect w.client ops ∧ WInv (Warn.run w ops) := by
  induction ops generalizing w with
  | nil => exact ⟨rfl, h⟩
  | cons op ops ih =>
    obtain ⟨h1, h2⟩ := warn_step w op h
    obtain ⟨h3, h4⟩ := ih (w.step op) h2
    simp only [Warn.run, runDirect, List.foldl_cons] at *
    rw [h3, h1]
    exact ⟨rfl, h4⟩

/-- what the warn wrapper records for validation: first status the handler wrote (0 if none), all bytes -/
theorem warn_run_record (w : Warn) (ops : List Op) :
    (Warn.run w ops).headerWritten = (w.headerWritten || (wroteStatus ops).isSome) ∧
    (Warn.run w ops).status = (if w.headerWritten then w.status else (wroteStatus ops).getD w.status) ∧
    (Warn.run w ops).buf = w.buf ++ written ops := by
  induction ops generalizing w with
  | nil => simp [Warn.run, wroteStatus, firstStatus, written]
  | cons op ops ih =>
    obtain ⟨a1, a2, a3⟩ := ih (w.step op)
    simp only [Warn.run, List.foldl_cons] at *
    rw [a1, a2, a3]
    cases op <;> cases hw : w.headerWritten <;>
      simp [Warn.step, Warn.writeHeader, hw, wroteStatus, firstStatus, written]


/-! ### request sequences -/

/-- a history-free machine answers every request of a sequence as it would answer it alone, from any state -/
theorem runSeq_of_historyFree {σ ρ ω : Type} (step : σ → ρ → σ × ω) (h : HistoryFree step) (s0 : σ) :
    ∀ (s : σ) (rs : List ρ), runSeq step s rs = rs.map (fun r => (step s0 r).2) := by
  intro s rs
  induction rs generalizing s with
  | nil => rfl
  | cons r rs ih => simp only [runSeq, List.map_cons, ih]; rw [h s s0 r]

theorem runSeq_length {σ ρ ω : Type} (step : σ → ρ → σ × ω) (s : σ) (rs : List ρ) :
    (runSeq step s rs).length = rs.length := by
  induction rs generalizing s with
  | nil => rfl
  | cons r rs ih => simp [runSeq, ih]

theorem strict_run_append (w : Strict) (a b : List Op) : Strict.run w (a ++ b) = Strict.run (Strict.run w a) b := by
  simp [Strict.run, List.foldl_append]

theorem strict_run_cons (w : Strict) (op : Op) (ops : List Op) : Strict.run w (op :: ops) = Strict.run (w.step op) ops := rfl

end KinModel.Middleware
