/-
Helper lemmas for property C07: running the step programs of `KinModel/RequestFlow.lean` (`thePrograms`) gives the
loop-free formulation (`runSecurity`, `overridden`, `visitedParams`, `failing`). Property theorems: `Props/C07Flow.lean`.
-/
import KinModel.RequestFlow
namespace KinModel.RequestFlow
open KinModel.Request (In Param Opts Part overridden skipQuery)

theorem locStr_inj (a b : In) : locStr a = locStr b ↔ a = b := by
  cases a <;> cases b <;> decide

/-! ### `Parameters.GetByInAndName` -/

theorem entryMatches_the (p q : Param) :
    entryMatches [(.name, 1), (.loc, 0)] [fieldOf p .loc, fieldOf p .name] q = (q.name = p.name && q.loc = p.loc) := by
  simp only [entryMatches, List.all_cons, List.all_nil, nthArg, fieldOf, Bool.and_true]
  apply Bool.eq_iff_iff.mpr
  simp only [Bool.and_eq_true, beq_iff_eq, Option.some.injEq, decide_eq_true_eq, locStr_inj]
  constructor
  · rintro ⟨h1, h2⟩; exact ⟨h1.symm, h2.symm⟩
  · rintro ⟨h1, h2⟩; exact ⟨h1.symm, h2.symm⟩

/-- the override lookup as the code performs it — `GetByInAndName(parameter.In, parameter.Name)` run through the
program of `GetByInAndName` — finds an entry iff some operation parameter has the same name and the same location -/
theorem runLookup_the (l : List Param) (p : Param) :
    runLookup thePrograms.lookup l [fieldOf p .loc, fieldOf p .name] = some (overridden l p) := by
  have h : l.any (entryMatches [(.name, 1), (.loc, 0)] [fieldOf p .loc, fieldOf p .name]) = overridden l p := by
    unfold overridden
    congr 1
    funext q
    exact entryMatches_the p q
  simp only [thePrograms, runLookup, h]
  cases overridden l p <;> simp

/-! ### `validateSecurityRequirement` -/

def steps0 : List NameStep := [.lookupScheme, .undeclaredFails, .scopesOf, .bodyIO, .callAuth none]

theorem runName_the (env : Env) (a : String → List String → Bool) (ha : env.auth = some a) (k : Nat) (u : SchemeUse)
    (log : List AuthCall) :
    runName env k u steps0 none none log =
      if !env.declared u.scheme then .ret false log
      else if a u.scheme u.scopes then .next (log ++ [⟨k, u.scheme, u.scopes⟩])
      else .ret false (log ++ [⟨k, u.scheme, u.scopes⟩]) := by
  simp only [steps0, runName, ha]
  cases env.declared u.scheme <;> cases a u.scheme u.scopes <;> simp

theorem runNames_the (env : Env) (a : String → List String → Bool) (ha : env.auth = some a) (k : Nat) :
    ∀ (us : List SchemeUse) (log : List AuthCall), runNames env k steps0 us log =
      (match runReq env.declared a k us with
       | (true, l) => NameFlow.next (log ++ l)
       | (false, l) => NameFlow.ret false (log ++ l)) := by
  intro us
  induction us with
  | nil => intro log; simp [runNames, runReq]
  | cons u us ih =>
    intro log
    rw [runNames, runName_the env a ha, runReq]
    cases hd : env.declared u.scheme with
    | false => simp
    | true =>
      cases hc : a u.scheme u.scopes with
      | false => simp
      | true =>
        simp only [Bool.not_true, Bool.false_eq_true, if_false, if_true, ih]
        rcases runReq env.declared a k us with ⟨b, l⟩
        cases b <;> simp

theorem runOne_the (env : Env) (a : String → List String → Bool) (ha : env.auth = some a) (k : Nat) (r : Requirement)
    (log : List AuthCall) :
    runOne env k thePrograms.secOne r log =
      .ret (runReq env.declared a k (sortUses r)).1 (log ++ (runReq env.declared a k (sortUses r)).2) := by
  cases r with
  | nil => simp [thePrograms, runOne, sortUses, runReq]
  | cons u us =>
    have h := runNames_the env a ha k (sortUses (u :: us)) log
    simp only [steps0] at h
    simp only [thePrograms, runOne, ha, Option.isNone_some, Bool.false_eq_true, if_false, h, List.isEmpty_cons]
    rcases runReq env.declared a k (sortUses (u :: us)) with ⟨b, l⟩
    cases b <;> simp

theorem runOne_nil (env : Env) (ha : env.auth = none) (k : Nat) (r : Requirement) (log : List AuthCall) :
    runOne env k thePrograms.secOne r log = .ret r.isEmpty log := by
  cases r <;> simp [thePrograms, runOne, ha]

/-! ### `ValidateSecurityRequirements` -/

theorem runEach_the (env : Env) (a : String → List String → Bool) (ha : env.auth = some a) :
    ∀ (rs : List Requirement) (k : Nat) (log : List AuthCall),
      runEach thePrograms.secOne env .cont rs k log =
        (match runReqs env.declared a k rs with
         | (true, l) => EachFlow.retOk (log ++ l)
         | (false, l) => EachFlow.fell (log ++ l)) := by
  intro rs
  induction rs with
  | nil => intro k log; simp [runEach, runReqs]
  | cons r rs ih =>
    intro k log
    rw [runEach, runOne_the env a ha, runReqs]
    rcases runReq env.declared a k (sortUses r) with ⟨b, l⟩
    cases b with
    | true => simp
    | false =>
      simp only [ih, Bool.false_eq_true, if_false]
      rcases runReqs env.declared a (k + 1) rs with ⟨b', l'⟩
      cases b' <;> simp

theorem runEach_nil (env : Env) (ha : env.auth = none) :
    ∀ (rs : List Requirement) (k : Nat) (log : List AuthCall),
      runEach thePrograms.secOne env .cont rs k log = if rs.any (·.isEmpty) then .retOk log else .fell log := by
  intro rs
  induction rs with
  | nil => intro k log; simp [runEach]
  | cons r rs ih =>
    intro k log
    rw [runEach, runOne_nil env ha]
    cases hr : r.isEmpty <;> simp [ih, hr]

/-- the security check of the loop-free formulation, for an arbitrary list -/
def secD (env : Env) (rs : List Requirement) : Bool × List AuthCall :=
  match rs with
  | [] => (true, [])
  | rs => match env.auth with
    | none => (rs.any (·.isEmpty), [])
    | some a => runReqs env.declared a 0 rs

theorem runSecurity_eq_secD (env : Env) (op : Op) : runSecurity env op = secD env (securityList op) := by
  unfold runSecurity secD
  cases securityList op <;> rfl

theorem runSecAll_the (env : Env) (rs : List Requirement) (log : List AuthCall) :
    runSecAll thePrograms.secOne env thePrograms.secAll rs log = .ret (secD env rs).1 (log ++ (secD env rs).2) := by
  cases rs with
  | nil => simp [thePrograms, runSecAll, secD]
  | cons r rs =>
    cases ha : env.auth with
    | none =>
      have h := runEach_nil env ha (r :: rs) 0 log
      simp only [thePrograms] at h
      simp only [thePrograms, runSecAll, secD, ha, h, List.isEmpty_cons, Bool.false_eq_true, if_false]
      cases ((r :: rs).any (·.isEmpty)) <;> simp [runSecAll]
    | some a =>
      have h := runEach_the env a ha (r :: rs) 0 log
      simp only [thePrograms] at h
      simp only [thePrograms, runSecAll, secD, ha, h, List.isEmpty_cons, Bool.false_eq_true, if_false]
      rcases runReqs env.declared a 0 (r :: rs) with ⟨b, l⟩
      cases b <;> simp

theorem secSelect_the (op : Op) : secSelect op .operation .document = securityList op := by
  unfold secSelect securityList secOf
  cases op.opSecurity <;> simp

/-! ### the parameter loops -/

theorem evalGuards_path (o : Opts) (op : Op) (p : Param) :
    evalGuards thePrograms.lookup o op p [.exQuery .cont, .overridden .operation true .loc .name .cont] =
      if skipQuery o p || overridden (opList op) p then .cont else .no := by
  simp only [evalGuards, evalGuard, listOf, opList, skipQuery]
  by_cases hq : (o.excludeQuery && decide (p.loc = In.query)) = true
  · simp [hq, exitSkip]
  · simp only [hq, if_false, Bool.false_eq_true]
    cases hop : op.opParams with
    | none => simp [overridden]
    | some l =>
      simp only [runLookup_the, Option.getD_some]
      rcases Bool.eq_false_or_eq_true (overridden l p) with h | h <;> simp [h, exitSkip]

theorem evalGuards_op (o : Opts) (op : Op) (p : Param) :
    evalGuards thePrograms.lookup o op p [.exQuery .cont] = if skipQuery o p then .cont else .no := by
  simp only [evalGuards, evalGuard, skipQuery]
  by_cases hq : (o.excludeQuery && decide (p.loc = In.query)) = true
  · simp [hq, exitSkip]
  · simp [hq]

/-- one checking step, loop-free: the parts `fs` that fail at it are appended (multi-error) or the first is returned -/
def stepD (multi : Bool) (fs : List Part) (me : List Part) : Flow :=
  if multi then .go (me ++ fs) else
  match fs with
  | [] => .go me
  | p :: _ => .done (.single p)

theorem runLoop_eq (look : List LookStep) (o : Opts) (op : Op) (guards : List Guard) (skip : Param → Bool)
    (hg : ∀ p, evalGuards look o op p guards = if skip p then .cont else .no) :
    ∀ (ps : List Param) (me : List Part),
      runLoop look o op guards .retUnlessMulti ps me =
        stepD o.multiError ((ps.filter (fun p => !skip p && !p.ok)).map Part.param) me := by
  intro ps
  induction ps with
  | nil => intro me; cases hm : o.multiError <;> simp [runLoop, stepD]
  | cons p ps ih =>
    intro me
    rw [runLoop, hg]
    cases hs : skip p with
    | true => simp [ih, hs]
    | false =>
      cases hk : p.ok with
      | true => simp [ih, hs, hk]
      | false =>
        cases hm : o.multiError with
        | true =>
          simp only [Bool.false_eq_true, if_false, handle, hm, if_true, ih, stepD, List.filter_cons, hs, hk,
            Bool.not_false, Bool.and_self, List.map_cons, List.append_assoc, List.singleton_append]
        | false =>
          simp [handle, stepD, hs, hk]

/-! ### `ValidateRequest` -/

def paramParts (o : Opts) (op : Op) : List Part := ((visitedParams o op).filter (fun p => !p.ok)).map Part.param

def bodyParts (o : Opts) (op : Op) : List Part := if bodyChecked o op && !op.bodyOK then [Part.body] else []

theorem paramParts_eq (o : Opts) (op : Op) :
    paramParts o op =
      (op.pathParams.filter (fun p => !(skipQuery o p || overridden (opList op) p) && !p.ok)).map Part.param ++
      ((op.opParams.getD []).filter (fun p => !skipQuery o p && !p.ok)).map Part.param := by
  unfold paramParts visitedParams opList
  rw [List.filter_append, List.map_append, List.filter_filter, List.filter_filter]
  congr 2
  · apply List.filter_congr; intro p _
    cases skipQuery o p <;> cases overridden (op.opParams.getD []) p <;> cases p.ok <;> rfl
  · apply List.filter_congr; intro p _
    cases skipQuery o p <;> cases p.ok <;> rfl

theorem finish_multi (l : List Part) : finish true l = if l.isEmpty then .ok else .multi l := by
  cases l <;> simp [finish]

/-- the program of `ValidateRequest` after the security step -/
def tailProg : List ReqStep :=
  [.paramLoop .pathItem [.exQuery .cont, .overridden .operation true .loc .name .cont] .retUnlessMulti,
   .paramLoop .operation [.exQuery .cont] .retUnlessMulti,
   .body [.declared, .notExcluded] .retUnlessMulti, .retMeIfAny, .retNil]

theorem tail_eq (o : Opts) (op : Op) (env : Env) (me : List Part) (log : List AuthCall)
    (hme : o.multiError = false → me = []) :
    runRequest thePrograms o op env tailProg me log =
      (finish o.multiError (me ++ (paramParts o op ++ bodyParts o op)), log) := by
  have h1 := runLoop_eq thePrograms.lookup o op _ (fun p => skipQuery o p || overridden (opList op) p)
    (evalGuards_path o op) op.pathParams
  have h2 := runLoop_eq thePrograms.lookup o op _ (fun p => skipQuery o p) (evalGuards_op o op) (op.opParams.getD [])
  rw [paramParts_eq]
  generalize hP1 : (op.pathParams.filter (fun p => !(skipQuery o p || overridden (opList op) p) && !p.ok)).map Part.param = P1 at h1 ⊢
  generalize hP2 : ((op.opParams.getD []).filter (fun p => !skipQuery o p && !p.ok)).map Part.param = P2 at h2 ⊢
  have hb : ([BodyCond.declared, BodyCond.notExcluded].all (evalBodyCond o op) && !op.bodyOK) = (bodyChecked o op && !op.bodyOK) := by
    simp [evalBodyCond, bodyChecked]
  simp only [tailProg, runRequest, listOf, Option.getD_some, h1, h2, hb, bodyParts]
  cases hm : o.multiError with
  | true =>
    simp only [stepD, if_true, finish_multi]
    cases hbc : (bodyChecked o op && !op.bodyOK) with
    | true => simp [handle]
    | false =>
      simp only [Bool.false_eq_true, if_false, List.append_nil, List.append_assoc]
      split <;> rfl
  | false =>
    have := hme hm
    subst this
    simp only [stepD, Bool.false_eq_true, if_false, List.nil_append]
    cases P1 with
    | cons p ps => simp [finish]
    | nil =>
      cases P2 with
      | cons p ps => simp [finish]
      | nil =>
        cases hbc : (bodyChecked o op && !op.bodyOK) with
        | true => simp [handle, finish]
        | false => simp [finish]

/-- **the interpreter of the source's programs computes the loop-free formulation**: result and callback log -/
theorem run_eq_direct (o : Opts) (op : Op) (env : Env) :
    runRequest thePrograms o op env thePrograms.request [] [] = (validateRequestD o op env, authLogD env op) := by
  have hs := runSecAll_the env (securityList op) []
  have hp : thePrograms.request =
      .optionsDefault :: .security .operation .document .retUnlessMulti :: tailProg := rfl
  unfold validateRequestD authLogD failing
  rw [runSecurity_eq_secD, hp, runRequest, runRequest, secSelect_the, hs]
  cases hv : (secD env (securityList op)).1 with
  | true =>
    dsimp only
    rw [tail_eq o op env [] _ (fun _ => rfl)]
    simp [paramParts, bodyParts]
  | false =>
    dsimp only
    cases hm : o.multiError with
    | true =>
      simp only [handle, if_true]
      rw [tail_eq o op env _ _ (fun h => by simp [hm] at h)]
      simp [paramParts, bodyParts, hm]
    | false =>
      simp [handle, finish]

end KinModel.RequestFlow
