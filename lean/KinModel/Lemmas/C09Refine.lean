/-
Helper lemmas for C09, gorillamux model against the spec ("refinement" on a class of documents): the two template readers
agree where mux accepts a template, substitution agrees, a brace-free base path is a literal prefix, a plain relative
server compiles to its base path, and the spec's server/candidate enumeration contains what the model extracts.
-/
import KinModel.RouterSpec
import KinModel.Lemmas.C09Gorilla
import KinModel.Lemmas.C09Spec
import KinModel.Lemmas.C09Legacy
import KinModel.Lemmas.C09Server
namespace KinModel.Router

def gconv : GTok → STok
  | .lit c => .lit c
  | .var n => .var n

/-- where mux accepts a template, the spec's reader sees the same tokens -/
theorem sparse_of_gparse : ∀ (f : Nat) (s : Str) (gt : List GTok), gparse f s = some gt →
    ∀ f', s.length < f' → sparse f' s = gt.map gconv := by
  intro f
  induction f with
  | zero => intro s gt h; simp [gparse] at h
  | succ f ih =>
    intro s gt h f' hf'
    cases f' with
    | zero => omega
    | succ f'' =>
      cases s with
      | nil => simp [gparse] at h; subst h; simp [sparse]
      | cons c cs =>
        simp only [List.length_cons] at hf'
        simp only [gparse] at h
        split at h
        · rename_i hc
          split at h
          · simp at h
          · rename_i name rest hb
            split at h
            · simp at h
            · simp only [Option.map_eq_some_iff] at h
              obtain ⟨gt', hg, rfl⟩ := h
              have hl := takeBrace_length hb
              simp only [sparse, hc, if_true, hb, List.map_cons, gconv]
              rw [ih rest gt' hg f'' (by omega)]
        · rename_i hc
          split at h
          · simp at h
          · simp only [Option.map_eq_some_iff] at h
            obtain ⟨gt', hg, rfl⟩ := h
            simp only [sparse, hc, if_false, List.map_cons, gconv]
            rw [ih cs gt' hg f'' (by omega)]

theorem sparseS_of_gparseS {t : Str} {gt : List GTok} (h : gparseS t = some gt) : sparseS t = gt.map gconv :=
  sparse_of_gparse _ _ _ h _ (by omega)

theorem ssubst_of_gsubst : ∀ (gt : List GTok) (b : List (Str × Str)) (s : Str), gsubst gt b = some s →
    ssubst (gt.map gconv) (b.map Prod.snd) = some s ∧ svarNames (gt.map gconv) = b.map Prod.fst := by
  intro gt
  induction gt with
  | nil =>
    intro b s h
    cases b with
    | nil => simp [gsubst] at h; subst h; simp [ssubst, svarNames]
    | cons p ps => simp [gsubst] at h
  | cons t ts ih =>
    intro b s h
    cases t with
    | lit c =>
      simp only [gsubst, Option.map_eq_some_iff] at h
      obtain ⟨s', hs', rfl⟩ := h
      obtain ⟨i1, i2⟩ := ih b s' hs'
      simp [gconv, ssubst, svarNames, i1, i2]
    | var n =>
      cases b with
      | nil => simp [gsubst] at h
      | cons p ps =>
        obtain ⟨m, v⟩ := p
        simp only [gsubst] at h
        split at h
        · rename_i e
          subst e
          simp only [Option.map_eq_some_iff] at h
          obtain ⟨s', hs', rfl⟩ := h
          obtain ⟨i1, i2⟩ := ih ps s' hs'
          simp [gconv, ssubst, svarNames, i1, i2]
        · simp at h

theorem varNamesG_conv : ∀ (gt : List GTok), svarNames (gt.map gconv) = varNamesG gt
  | [] => rfl
  | .lit _ :: r => by simp [gconv, svarNames, varNamesG, varNamesG_conv r]
  | .var n :: r => by simp [gconv, svarNames, varNamesG, varNamesG_conv r]

/-- … and a filling in the spec's sense is a filling for mux, with the template's variable names -/
theorem gsubst_of_ssubst : ∀ (gt : List GTok) (vs : List Str) (s : Str), ssubst (gt.map gconv) vs = some s →
    gsubst gt ((varNamesG gt).zip vs) = some s ∧ ((varNamesG gt).zip vs).map Prod.snd = vs := by
  intro gt
  induction gt with
  | nil =>
    intro vs s h
    cases vs with
    | nil => simp [ssubst] at h; subst h; simp [gsubst, varNamesG]
    | cons v vs => simp [ssubst] at h
  | cons t ts ih =>
    intro vs s h
    cases t with
    | lit c =>
      simp only [List.map_cons, gconv, ssubst, Option.map_eq_some_iff] at h
      obtain ⟨s', hs', rfl⟩ := h
      obtain ⟨i1, i2⟩ := ih vs s' hs'
      simp [gsubst, varNamesG, i1, i2]
    | var n =>
      cases vs with
      | nil => simp [gconv, ssubst] at h
      | cons v vs =>
        simp only [List.map_cons, gconv, ssubst, Option.map_eq_some_iff] at h
        obtain ⟨s', hs', rfl⟩ := h
        obtain ⟨i1, i2⟩ := ih vs s' hs'
        simp [gsubst, varNamesG, i1, i2]

theorem zip_fst_snd {α β} : ∀ (l : List (α × β)), (l.map Prod.fst).zip (l.map Prod.snd) = l
  | [] => rfl
  | (a, b) :: r => by simp [zip_fst_snd r]

/-! ### a brace-free base path is a literal prefix of the mux template -/

theorem gparseS_cons_lit {c : Char} {s : Str} (h1 : c ≠ '{') (h2 : c ≠ '}') :
    gparseS (c :: s) = (gparseS s).map (GTok.lit c :: ·) := by
  simp [gparseS, gparse, h1, h2]

theorem gparseS_lits : ∀ (base t : Str), '{' ∉ base → '}' ∉ base →
    gparseS (base ++ t) = (gparseS t).map (base.map GTok.lit ++ ·) := by
  intro base
  induction base with
  | nil => intro t _ _; simp
  | cons c cs ih =>
    intro t h1 h2
    simp only [List.mem_cons, not_or] at h1 h2
    rw [List.cons_append, gparseS_cons_lit (fun e => h1.1 e.symm) (fun e => h2.1 e.symm), ih t h1.2 h2.2]
    cases gparseS t <;> simp

theorem gsubst_lits : ∀ (base : Str) (toks : List GTok) (b : List (Str × Str)),
    gsubst (base.map GTok.lit ++ toks) b = (gsubst toks b).map (base ++ ·) := by
  intro base
  induction base with
  | nil => intro toks b; simp
  | cons c cs ih =>
    intro toks b
    simp only [List.map_cons, List.cons_append, gsubst, ih]
    cases gsubst toks b <;> simp

theorem gsubst_head {c : Char} {ts : List GTok} {b : List (Str × Str)} {s : Str}
    (h : gsubst (.lit c :: ts) b = some s) : s.head? = some c := by
  simp only [gsubst, Option.map_eq_some_iff] at h
  obtain ⟨s', _, rfl⟩ := h
  rfl

theorem gparseS_head {t : Str} {tt : List GTok} (h : gparseS t = some tt) (hs : t.head? = some '/') :
    ∃ ts, tt = .lit '/' :: ts := by
  cases t with
  | nil => simp at hs
  | cons c cs =>
    simp only [List.head?_cons, Option.some.injEq] at hs
    subst hs
    rw [gparseS_cons_lit (by decide) (by decide)] at h
    simp only [Option.map_eq_some_iff] at h
    obtain ⟨ts, _, rfl⟩ := h
    exact ⟨ts, rfl⟩

/-! ### plain relative servers -/

/-- a server URL that is a plain path: starts with '/', no variables, no scheme -/
def PlainRel (s : Server) : Prop :=
  s.url.head? = some '/' ∧ '{' ∉ s.url ∧ '}' ∉ s.url ∧ indexOfStr "://".toList s.url = none

theorem mem_of_isPrefix : ∀ (p s : Str), isPrefix p s = true → ∀ c ∈ p, c ∈ s
  | [], _, _, c, hc => by simp at hc
  | _ :: _, [], h, _, _ => by simp [isPrefix] at h
  | a :: p', d :: s', h, c, hc => by
    simp only [isPrefix, Bool.and_eq_true, decide_eq_true_eq] at h
    simp only [List.mem_cons] at hc ⊢
    rcases hc with rfl | hc
    · exact Or.inl h.1
    · exact Or.inr (mem_of_isPrefix p' s' h.2 c hc)

theorem indexOfStr_none {pat : Str} {c : Char} (hc : c ∈ pat) : ∀ (s : Str), c ∉ s → indexOfStr pat s = none
  | [], _ => by
    have : pat ≠ [] := by intro e; rw [e] at hc; simp at hc
    simp [indexOfStr, this]
  | d :: ds, h => by
    simp only [List.mem_cons, not_or] at h
    have hp : isPrefix pat (d :: ds) = false := by
      cases hh : isPrefix pat (d :: ds) with
      | false => rfl
      | true =>
        have := mem_of_isPrefix pat (d :: ds) hh c hc
        simp only [List.mem_cons] at this
        rcases this with e | e
        · exact absurd e h.1
        · exact absurd e h.2
    simp [indexOfStr, hp, indexOfStr_none hc ds h.2]

theorem gMakeServer_plainRel (ref : SrvRef) (s : Server) (h : PlainRel s) :
    gMakeServer ref s = some ⟨[], [], dropOneSlash s.url, none, ref⟩ := by
  obtain ⟨h1, h2, _, h4⟩ := h
  have e1 : isSingleVar s.url = none := by
    cases hu : s.url with
    | nil => rfl
    | cons c cs =>
      rw [hu] at h1
      simp only [List.head?_cons, Option.some.injEq] at h1
      subst h1
      simp [isSingleVar]
  have e2 : indexOfStr ":{".toList s.url = none := indexOfStr_none (c := '{') (by decide) s.url h2
  simp only [gMakeServer, e1, e2, newSrv, h4, dropOneSlash]

theorem mem_dropLast {α} : ∀ (l : List α) (a : α), a ∈ l.dropLast → a ∈ l
  | [], _, h => by simp at h
  | [_], _, h => by simp at h
  | x :: y :: r, a, h => by
    simp only [List.dropLast_cons₂, List.mem_cons] at h
    rcases h with rfl | h
    · simp
    · exact List.mem_cons_of_mem _ (mem_dropLast (y :: r) a h)

theorem mem_dropOneSlash {c : Char} {u : Str} (h : c ∈ dropOneSlash u) : c ∈ u := by
  unfold dropOneSlash at h
  split at h
  · exact mem_dropLast _ _ h
  · exact h

theorem dropOneSlash_rel {u : Str} (h : u.head? = some '/') : isRelativeURL (dropOneSlash u) = true := by
  unfold dropOneSlash isRelativeURL
  cases u with
  | nil => simp at h
  | cons c cs =>
    simp only [List.head?_cons, Option.some.injEq] at h
    subst h
    cases cs with
    | nil => simp
    | cons d ds => split <;> simp

theorem sparse_lits : ∀ (f : Nat) (u : Str), u.length < f → '{' ∉ u → sparse f u = u.map STok.lit := by
  intro f
  induction f with
  | zero => intro u h; omega
  | succ f ih =>
    intro u hl hb
    cases u with
    | nil => simp [sparse]
    | cons c cs =>
      simp only [List.mem_cons, not_or] at hb
      simp only [List.length_cons] at hl
      have : c ≠ '{' := fun e => hb.1 e.symm
      simp [sparse, this, ih cs (by omega) hb.2]

theorem ssubst_lits : ∀ (u : Str), ssubst (u.map STok.lit) [] = some u
  | [] => rfl
  | c :: cs => by simp [ssubst, ssubst_lits cs]

theorem svarNames_lits : ∀ (u : Str), svarNames (u.map STok.lit) = []
  | [] => rfl
  | c :: cs => by simp [svarNames, svarNames_lits cs]

/-- the spec's remaining paths under a plain relative server: what follows the base path, at a segment boundary -/
theorem specServerRems_plainRel (e : Bool) (s : Server) (h : PlainRel s) (r : Req) (rem : Str)
    (hp : r.path = dropOneSlash s.url ++ rem) (hb : rem = [] ∨ rem.head? = some '/') : rem ∈ specServerRems e s r := by
  obtain ⟨h1, h2, _, _⟩ := h
  have hnb : '{' ∉ dropOneSlash s.url := fun hm => h2 (mem_dropOneSlash hm)
  have htoks : sparseS (dropOneSlash s.url) = (dropOneSlash s.url).map STok.lit := sparse_lits _ _ (by omega) hnb
  simp only [specServerRems, List.mem_filterMap]
  refine ⟨([], rem), ?_, ?_⟩
  · rw [dropOneSlash_rel h1, htoks]
    simp only [if_true]
    exact (smatchP_iff _ _ _ _).2 ⟨by simp, dropOneSlash s.url, ssubst_lits _, hp⟩
  · have hcond : (rem = [] || rem.head? = some '/') = true := by
      rcases hb with h | h
      · simp [h]
      · simp [h]
    simp only [htoks, svarNames_lits, enumOK, List.zip_nil_right, List.all_nil, Bool.or_true, Bool.and_true]
    simp [hcond]

theorem tagFrom_get {mk : Nat → SrvRef} : ∀ {l : List Server} {j i : Nat} {s : Server},
    l[i]? = some s → (mk (j + i), s) ∈ tagFrom mk j l := by
  intro l
  induction l with
  | nil => intro j i s h; simp at h
  | cons s0 rest ih =>
    intro j i s h
    cases i with
    | zero => simp at h; subst h; simp [tagFrom]
    | succ i =>
      simp at h
      simp only [tagFrom, List.mem_cons]
      right
      have := ih (j := j + 1) h
      have e : j + 1 + i = j + (i + 1) := by omega
      rw [e] at this
      exact this

/-- a filling of the path item's template is a candidate of the spec for that remaining path and server -/
theorem cand_of_fill (method rem : Str) (ref : SrvRef) (pd : PathDecl) (tt : List GTok) (pb : List (Str × Str))
    (hp : gparseS pd.template = some tt) (hf : gsubst tt pb = some rem) (hg : ∀ p ∈ pb, GoodFor '/' p.2) :
    (⟨pd.template, pb, pd.methods.contains method, ref⟩ : Cand) ∈ candsFor method rem ref pd := by
  obtain ⟨i1, i2⟩ := ssubst_of_gsubst tt pb rem hf
  simp only [candsFor, List.mem_filterMap]
  refine ⟨(pb.map Prod.snd, []), ?_, ?_⟩
  · rw [sparseS_of_gparseS hp]
    refine (smatchP_iff _ _ _ _).2 ⟨?_, rem, i1, by simp⟩
    intro v hv
    simp only [List.mem_map] at hv
    obtain ⟨p, hp', rfl⟩ := hv
    exact hg p hp'
  · simp only [if_true, sparseS_of_gparseS hp, i2, zip_fst_snd]

/-! ### the class of documents and the two directions per route -/

/-- every declared server (document level, path-item level) is a plain relative one; every template starts with '/' -/
def PlainDoc (d : Doc) : Prop :=
  (∀ s ∈ d.servers, PlainRel s) ∧ ∀ p ∈ d.paths, (∀ s ∈ p.servers, PlainRel s) ∧ p.template.head? = some '/'

theorem hb_nil_of_no_host {g : GSrv} {req : Req} {hb : List (Str × Str)} (hh : g.host = [])
    (h : (g.host = [] ∧ hb = []) ∨
      ∃ htoks, gparseS g.host = some htoks ∧
        gsubst htoks hb = some (if ':' ∈ g.host then req.host else req.host.takeWhile (· ≠ ':')) ∧ ∀ p ∈ hb, GoodFor '.' p.2) :
    hb = [] := by
  rcases h with h | ⟨htoks, h1, h2, _⟩
  · exact h.2
  · rw [hh] at h1
    simp [gparseS, gparse] at h1
    subst h1
    cases hb with
    | nil => rfl
    | cons p ps => simp [gsubst] at h2

theorem mem_effServers_ne {d : Doc} {pd : PathDecl} {x : SrvRef × Server} (hx : x ∈ effServers d pd) (e : Bool) (req : Req)
    (c : Cand) (rem : Str) (hr : rem ∈ specServerRems e x.2 req) (hc : c ∈ candsFor req.method rem x.1 pd) :
    c ∈ specCandsPath e d req pd := by
  unfold specCandsPath
  cases h : effServers d pd with
  | nil => rw [h] at hx; simp at hx
  | cons a l =>
    simp only [List.mem_flatMap]
    exact ⟨x, by rw [← h]; exact hx, rem, hr, hc⟩

theorem cand_under_plain (e : Bool) (d : Doc) (req : Req) (pd : PathDecl) (ref : SrvRef) (s : Server)
    (hx : (ref, s) ∈ effServers d pd) (hs : PlainRel s) (ht : pd.template.head? = some '/') (b : List (Str × Str))
    (hrep : Reproduces ⟨[], [], dropOneSlash s.url, none, ref⟩ pd.template req b) :
    (⟨pd.template, b, pd.methods.contains req.method, ref⟩ : Cand) ∈ specCandsPath e d req pd := by
  obtain ⟨ptoks, pb, hb, h1, h2, h3, _, h5, h6⟩ := hrep
  have hbn : hb = [] := hb_nil_of_no_host rfl h5
  subst hbn
  simp only [List.nil_append] at h6
  subst h6
  have hnb1 : '{' ∉ dropOneSlash s.url := fun hm => hs.2.1 (mem_dropOneSlash hm)
  have hnb2 : '}' ∉ dropOneSlash s.url := fun hm => hs.2.2.1 (mem_dropOneSlash hm)
  simp only at h1
  rw [gparseS_lits _ _ hnb1 hnb2] at h1
  simp only [Option.map_eq_some_iff] at h1
  obtain ⟨tt, htt, rfl⟩ := h1
  rw [gsubst_lits] at h2
  simp only [Option.map_eq_some_iff] at h2
  obtain ⟨rest, hrest, hpath⟩ := h2
  obtain ⟨ts, rfl⟩ := gparseS_head htt ht
  have hhead := gsubst_head hrest
  exact mem_effServers_ne hx e req _ rest (specServerRems_plainRel e s hs req rest hpath.symm (Or.inr hhead))
    (cand_of_fill req.method rest ref pd _ b htt hrest h3)

theorem getElem?_mem' {α} {l : List α} {i : Nat} {a : α} (h : l[i]? = some a) : a ∈ l := by
  obtain ⟨hi, rfl⟩ := List.getElem?_eq_some_iff.1 h
  exact List.getElem_mem hi

/-- model → spec, per route: what a compiled route of a path item and one of the servers that apply to it extracts from a
    request is a candidate of the spec, with the same template, binding and server -/
theorem cand_of_match (e : Bool) (d : Doc) (hd : PlainDoc d) (req : Req) (pd : PathDecl) (hpd : pd ∈ d.paths) (g : GSrv)
    (hg : EffSrv d pd g) (b : List (Str × Str)) (hrep : Reproduces g pd.template req b) :
    (⟨pd.template, b, pd.methods.contains req.method, g.ref⟩ : Cand) ∈ specCandsPath e d req pd := by
  have ht := (hd.2 pd hpd).2
  unfold EffSrv at hg
  split at hg
  · rename_i hps
    rcases hg with ⟨hds, rfl⟩ | ⟨i, s, hi, hmk⟩
    · -- no server anywhere: the whole path is matched
      obtain ⟨ptoks, pb, hb, h1, h2, h3, _, h5, h6⟩ := hrep
      have hbn : hb = [] := hb_nil_of_no_host rfl h5
      subst hbn
      simp only [List.nil_append] at h6
      subst h6
      simp only [noSrv, List.nil_append] at h1
      have heff : effServers d pd = [] := by simp [effServers, hps, hds, tagFrom]
      unfold specCandsPath
      rw [heff]
      exact cand_of_fill req.method req.path SrvRef.none pd ptoks b h1 h2 h3
    · have hs : PlainRel s := hd.1 s (getElem?_mem' hi)
      rw [gMakeServer_plainRel _ s hs] at hmk
      simp only [Option.some.injEq] at hmk
      subst hmk
      refine cand_under_plain e d req pd (SrvRef.doc i) s ?_ hs ht b hrep
      have := tagFrom_get (mk := SrvRef.doc) (j := 0) hi
      simpa [effServers, hps] using this
  · rename_i hps
    rcases hg with ⟨h0, _⟩ | ⟨i, s, hi, hmk⟩
    · exact absurd h0 hps
    · have hs : PlainRel s := (hd.2 pd hpd).1 s (getElem?_mem' hi)
      rw [gMakeServer_plainRel _ s hs] at hmk
      simp only [Option.some.injEq] at hmk
      subst hmk
      refine cand_under_plain e d req pd (SrvRef.path pd.template i) s ?_ hs ht b hrep
      have := tagFrom_get (mk := SrvRef.path pd.template) (j := 0) hi
      simpa [effServers, hps] using this

theorem ssubst_lits_inv : ∀ (u : Str) (vs : List Str) (p : Str), ssubst (u.map STok.lit) vs = some p → vs = [] ∧ p = u
  | [], [], p, h => by simp [ssubst] at h; exact ⟨rfl, h⟩
  | [], _ :: _, _, h => by simp [ssubst] at h
  | c :: cs, vs, p, h => by
    simp only [List.map_cons, ssubst, Option.map_eq_some_iff] at h
    obtain ⟨p', hp', rfl⟩ := h
    obtain ⟨i1, i2⟩ := ssubst_lits_inv cs vs p' hp'
    exact ⟨i1, by rw [i2]⟩

theorem goodFor_of_goodVal {v : Str} (h : GoodVal v) : GoodFor '/' v := h

/-- a compiled route whose template, filled, is the request path and whose server has neither scheme nor host, matches -/
theorem match_of_fill {pd : PathDecl} {g : GSrv} {r : GRoute} (hmk : mkRoute pd g = some r) (hsch : g.schemes = []) (hh : g.host = [])
    (req : Req) (b : List (Str × Str)) (hf : gsubst r.pathToks b = some req.path) (hg : ∀ p ∈ b, GoodFor '/' p.2) :
    gRouteMatch r req ≠ none := by
  obtain ⟨_, _, e3, _, _⟩ := mkRoute_some hmk
  have hc := gmatch_complete '/' _ _ _ hf hg
  unfold gRouteMatch
  cases hm : gmatch '/' r.pathToks req.path with
  | none => simp [hm] at hc
  | some pb => simp [schemeOK, e3, hsch, hh]

/-- spec → model, per candidate: for a candidate of a path item there is a server that applies to the path item, named by the
    candidate, such that the compiled route of the two (if it compiles) matches the request -/
theorem match_of_cand (e : Bool) (d : Doc) (hd : PlainDoc d) (req : Req) (pd : PathDecl) (hpd : pd ∈ d.paths) (c : Cand)
    (hc : c ∈ specCandsPath e d req pd) :
    c.template = pd.template ∧ c.declares = pd.methods.contains req.method ∧
    ∃ g, EffSrv d pd g ∧ g.ref = c.server ∧ ∀ r, mkRoute pd g = some r → gRouteMatch r req ≠ none := by
  have fill : ∀ (rem : Str) (ref : SrvRef) (g : GSrv) (base : Str), g.base = base → g.schemes = [] → g.host = [] →
      '{' ∉ base → '}' ∉ base → req.path = base ++ rem → c ∈ candsFor req.method rem ref pd →
      c.template = pd.template ∧ c.declares = pd.methods.contains req.method ∧ c.server = ref ∧
        ∀ r, mkRoute pd g = some r → gRouteMatch r req ≠ none := by
    intro rem ref g base hbase hsch hh hb1 hb2 hpath hcand
    simp only [candsFor, List.mem_filterMap] at hcand
    obtain ⟨⟨vs, rest⟩, hm, hcc⟩ := hcand
    split at hcc
    · rename_i hr
      simp only at hr
      subst hr
      simp only [Option.some.injEq] at hcc
      subst hcc
      refine ⟨rfl, rfl, rfl, ?_⟩
      intro r hmk
      obtain ⟨_, _, _, e4, _⟩ := mkRoute_some hmk
      obtain ⟨hgood, p, hp, hsp⟩ := (smatchP_iff _ _ _ _).1 hm
      simp only [List.append_nil] at hsp
      subst hsp
      rw [hbase, gparseS_lits _ _ hb1 hb2] at e4
      simp only [Option.map_eq_some_iff] at e4
      obtain ⟨tt, htt, hpt⟩ := e4
      rw [sparseS_of_gparseS htt] at hp
      obtain ⟨k1, k2⟩ := gsubst_of_ssubst tt vs _ hp
      refine match_of_fill hmk hsch hh req ((varNamesG tt).zip vs) ?_ ?_
      · rw [← hpt, gsubst_lits, k1, hpath]; rfl
      · intro q hq
        have : q.2 ∈ ((varNamesG tt).zip vs).map Prod.snd := List.mem_map.2 ⟨q, hq, rfl⟩
        rw [k2] at this
        exact hgood q.2 this
    · simp at hcc
  unfold specCandsPath at hc
  cases heff : effServers d pd with
  | nil =>
    rw [heff] at hc
    simp only at hc
    have hnone : pd.servers = [] ∧ d.servers = [] := by
      unfold effServers at heff
      split at heff
      · rename_i hps
        refine ⟨hps, ?_⟩
        cases hds : d.servers with
        | nil => rfl
        | cons a l => rw [hds] at heff; simp [tagFrom] at heff
      · rename_i hps
        cases hpp : pd.servers with
        | nil => exact absurd hpp hps
        | cons a l => rw [hpp] at heff; simp [tagFrom] at heff
    obtain ⟨h1, h2, h3, h4⟩ := fill req.path SrvRef.none noSrv [] rfl rfl rfl (by simp) (by simp) (by simp) hc
    refine ⟨h1, h2, noSrv, ?_, by rw [h3]; rfl, h4⟩
    unfold EffSrv
    simp only [hnone.1, if_true]
    exact Or.inl ⟨hnone.2, rfl⟩
  | cons a l =>
    rw [heff] at hc
    simp only [List.mem_flatMap] at hc
    obtain ⟨⟨ref, s⟩, hx, rem, hrem, hcand⟩ := hc
    rw [← heff] at hx
    -- which declared server it is
    have hsrv : PlainRel s ∧ EffSrv d pd ⟨[], [], dropOneSlash s.url, none, ref⟩ := by
      unfold effServers at hx
      unfold EffSrv
      split at hx
      · rename_i hps
        obtain ⟨i, hi, href⟩ := mem_tagFrom hx
        simp only [Nat.zero_add] at href hi
        have hs : PlainRel s := hd.1 s (getElem?_mem' hi)
        refine ⟨hs, ?_⟩
        simp only [hps, if_true]
        exact Or.inr ⟨i, s, hi, by rw [gMakeServer_plainRel _ s hs, href]⟩
      · rename_i hps
        obtain ⟨i, hi, href⟩ := mem_tagFrom hx
        simp only [Nat.zero_add] at href hi
        have hs : PlainRel s := (hd.2 pd hpd).1 s (getElem?_mem' hi)
        refine ⟨hs, ?_⟩
        simp only [hps, if_false]
        exact Or.inr ⟨i, s, hi, by rw [gMakeServer_plainRel _ s hs, href]⟩
    obtain ⟨hs, hes⟩ := hsrv
    obtain ⟨vals, hfill, _, _⟩ := specServerRems_sound e s req rem hrem
    have hnb1 : '{' ∉ dropOneSlash s.url := fun hm => hs.2.1 (mem_dropOneSlash hm)
    have hnb2 : '}' ∉ dropOneSlash s.url := fun hm => hs.2.2.1 (mem_dropOneSlash hm)
    have htk : sparseS (dropOneSlash s.url) = (dropOneSlash s.url).map STok.lit := sparse_lits _ _ (by omega) hnb1
    rw [dropOneSlash_rel hs.1, htk] at hfill
    simp only [if_true] at hfill
    obtain ⟨_, p, hp, hsp⟩ := hfill
    obtain ⟨_, rfl⟩ := ssubst_lits_inv _ _ _ hp
    obtain ⟨h1, h2, h3, h4⟩ := fill rem ref ⟨[], [], dropOneSlash s.url, none, ref⟩ (dropOneSlash s.url) rfl rfl rfl hnb1 hnb2 hsp hcand
    exact ⟨h1, h2, _, hes, h3.symm, h4⟩

/-! ### literal templates: the spec's notion and the matching order's count of '}' agree where mux accepts the template -/

theorem takeBrace_name_no_close : ∀ {s n r : Str}, takeBrace s = some (n, r) → '}' ∉ n
  | [], _, _, h => by simp [takeBrace] at h
  | c :: cs, n, r, h => by
    simp only [takeBrace] at h
    split at h
    · cases h; simp
    · rename_i hc
      simp only [Option.map_eq_some_iff] at h
      obtain ⟨⟨a, b⟩, hb, he⟩ := h
      cases he
      simp only [List.mem_cons, not_or]
      exact ⟨fun e => hc e.symm, takeBrace_name_no_close hb⟩

theorem countChar_append (c : Char) (a b : Str) : countChar c (a ++ b) = countChar c a + countChar c b := by
  simp [countChar, List.filter_append]

theorem countChar_of_not_mem {c : Char} : ∀ {a : Str}, c ∉ a → countChar c a = 0
  | [], _ => rfl
  | d :: ds, h => by
    simp only [List.mem_cons, not_or] at h
    have : ¬ d = c := fun e => h.1 e.symm
    simp [countChar, List.filter_cons, this]
    simpa [countChar] using countChar_of_not_mem h.2

/-- the number of '}' in a template that mux accepts is its number of variables -/
theorem nvars_of_gparse : ∀ (f : Nat) (s : Str) (gt : List GTok), gparse f s = some gt →
    countChar '}' s = (varNamesG gt).length := by
  intro f
  induction f with
  | zero => intro s gt h; simp [gparse] at h
  | succ f ih =>
    intro s gt h
    cases s with
    | nil => simp [gparse] at h; subst h; rfl
    | cons c cs =>
      simp only [gparse] at h
      split at h
      · rename_i hc
        subst hc
        split at h
        · simp at h
        · rename_i name rest hb
          split at h
          · simp at h
          · simp only [Option.map_eq_some_iff] at h
            obtain ⟨gt', hg, rfl⟩ := h
            have e := takeBrace_eq hb
            have hn := takeBrace_name_no_close hb
            have e2 : '{' :: cs = ('{' :: name) ++ ('}' :: rest) := by rw [e]; simp
            rw [e2, countChar_append]
            have h1 : countChar '}' ('{' :: name) = 0 := by
              apply countChar_of_not_mem
              simp only [List.mem_cons, not_or]
              exact ⟨by decide, hn⟩
            have h2 : countChar '}' ('}' :: rest) = countChar '}' rest + 1 := by
              simp [countChar, List.filter_cons]
            rw [h1, h2, ih rest gt' hg]
            simp [varNamesG]
      · rename_i hc
        split at h
        · simp at h
        · rename_i hc2
          simp only [Option.map_eq_some_iff] at h
          obtain ⟨gt', hg, rfl⟩ := h
          have : countChar '}' (c :: cs) = countChar '}' cs := by
            simp [countChar, List.filter_cons, hc2]
          rw [this, ih cs gt' hg]
          simp [varNamesG]

theorem isLiteralT_iff_nvars {t : Str} {tt : List GTok} (h : gparseS t = some tt) : isLiteralT t = true ↔ nvars t = 0 := by
  unfold isLiteralT nvars
  rw [sparseS_of_gparseS h, varNamesG_conv, nvars_of_gparse _ _ _ h]
  simp

/-- a server that applies to a path item of a plain document has neither schemes nor host nor port updater, and a
    brace-free base path -/
theorem effSrv_plain {d : Doc} (hd : PlainDoc d) {pd : PathDecl} (hpd : pd ∈ d.paths) {g : GSrv} (hg : EffSrv d pd g) :
    g.schemes = [] ∧ g.host = [] ∧ g.upd = none ∧ '{' ∉ g.base ∧ '}' ∉ g.base := by
  have hcf : ∀ mk l, (∀ s ∈ l, PlainRel s) → CompiledFrom mk l g → g.schemes = [] ∧ g.host = [] ∧ g.upd = none ∧ '{' ∉ g.base ∧ '}' ∉ g.base := by
    intro mk l hl hcf
    rcases hcf with ⟨_, rfl⟩ | ⟨i, s, hi, hmks⟩
    · simp [noSrv]
    · have hs := hl s (getElem?_mem' hi)
      rw [gMakeServer_plainRel _ s hs] at hmks
      simp only [Option.some.injEq] at hmks
      subst hmks
      exact ⟨rfl, rfl, rfl, fun hm => hs.2.1 (mem_dropOneSlash hm), fun hm => hs.2.2.1 (mem_dropOneSlash hm)⟩
  unfold EffSrv at hg
  split at hg
  · exact hcf _ _ hd.1 hg
  · exact hcf _ _ (hd.2 pd hpd).1 hg

theorem template_parses {d : Doc} (hd : PlainDoc d) {pd : PathDecl} (hpd : pd ∈ d.paths) {g : GSrv} (hg : EffSrv d pd g)
    {r : GRoute} (hmk : mkRoute pd g = some r) : ∃ tt, gparseS pd.template = some tt := by
  obtain ⟨_, _, _, h1, h2⟩ := effSrv_plain hd hpd hg
  obtain ⟨_, _, _, e4, _⟩ := mkRoute_some hmk
  rw [gparseS_lits _ _ h1 h2] at e4
  simp only [Option.map_eq_some_iff] at e4
  obtain ⟨tt, htt, _⟩ := e4
  exact ⟨tt, htt⟩

/-! ### a plain relative server URL as a `MatchRawURL` pattern -/

theorem dropOneSlash_cons (c : Char) (prest : Str) (h : ¬ (prest = [] ∧ c = '/')) :
    dropOneSlash (c :: prest) = c :: dropOneSlash prest := by
  unfold dropOneSlash
  cases prest with
  | nil =>
    have : c ≠ '/' := fun e => h ⟨rfl, e⟩
    simp [this]
  | cons d ds =>
    simp only [List.getLast?_cons_cons]
    split <;> simp

/-- a pattern without variables spells the server URL minus one trailing slash and extracts nothing -/
theorem patSpell_plain : ∀ {url : Str} {vals : List Str} {p : Str}, PatSpell url vals p → '{' ∉ url →
    vals = [] ∧ p = dropOneSlash url := by
  intro url vals p h
  induction h with
  | nil => intro _; exact ⟨rfl, by simp [dropOneSlash]⟩
  | slash => intro _; exact ⟨rfl, by simp [dropOneSlash]⟩
  | lit hc hq _ ih =>
    intro hb
    simp only [List.mem_cons, not_or] at hb
    obtain ⟨i1, i2⟩ := ih hb.2
    exact ⟨i1, by rw [dropOneSlash_cons _ _ hq, i2]⟩
  | var _ _ _ => intro hb; simp at hb

end KinModel.Router
