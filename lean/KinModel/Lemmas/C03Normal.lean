/-
C03 — a document in deep normal form comes back as the same JSON (up to the order of object members):
helper lemmas for the induction over the document tree. `NInv g f` pairs the normal form `g = normalB T n`
with the round trip `f = rt T n`; `step_ninv` is one level, `rt_ninv` the induction over the fuel.
-/
import KinModel.Lemmas.C03Deep
namespace KinModel.Marshal

/-! ### the relation "same JSON" -/

theorem same_refl (v : JV) : v.same v := by
  cases v <;> simp [JV.same]

theorem sameO_of (a b : Obj) (h : ∀ kv ∈ a, ∃ y, lookup kv.1 b = some y ∧ kv.2.same y) : sameO a b := by
  induction a with
  | nil => simp [sameO]
  | cons kv r ih =>
    obtain ⟨k, x⟩ := kv
    simp only [sameO]
    exact ⟨h (k, x) (by simp), ih (fun kv' hkv' => h kv' (List.mem_cons_of_mem _ hkv'))⟩

theorem lookup_of_mem_nodup : ∀ (o : Obj), (o.map (·.1)).Nodup → ∀ kv ∈ o, lookup kv.1 o = some kv.2
  | [], _, kv, h => by cases h
  | (k0, x0) :: r, hn, kv, h => by
    simp only [List.map_cons, List.nodup_cons] at hn
    rcases List.mem_cons.mp h with e | h'
    · subst e; simp [lookup]
    · have : kv.1 ≠ k0 := fun e => hn.1 (e ▸ List.mem_map_of_mem h')
      simp only [lookup, this, if_false]
      exact lookup_of_mem_nodup r hn.2 kv h'

/-- two objects with distinct keys that agree key by key up to `same` -/
theorem same_obj_of (a b : Obj) (ha : (a.map (·.1)).Nodup) (hb : (b.map (·.1)).Nodup)
    (h1 : ∀ k x, lookup k a = some x → ∃ y, lookup k b = some y ∧ x.same y)
    (h2 : ∀ k, lookup k a = none → lookup k b = none) : (JV.obj a).same (.obj b) := by
  simp only [JV.same]
  right
  refine ⟨b, rfl, ?_, ?_, hb⟩
  · apply sameO_of
    intro kv hkv
    exact h1 kv.1 kv.2 (lookup_of_mem_nodup a ha kv hkv)
  · intro k hk
    cases hl : lookup k a with
    | some x => rfl
    | none => rw [h2 k hl] at hk; cases hk

/-! ### lists and maps -/

theorem mapR_exists {α β : Type} (G : α → Res β) : ∀ (xs : List α), (∀ x ∈ xs, ∃ y, G x = .ok y) →
    ∃ ys, mapR G xs = .ok ys
  | [], _ => ⟨[], rfl⟩
  | x :: xs, h => by
    obtain ⟨y, hy⟩ := h x (by simp)
    obtain ⟨ys, hys⟩ := mapR_exists G xs (fun x' hx' => h x' (List.mem_cons_of_mem _ hx'))
    exact ⟨y :: ys, by simp only [mapR, hy, hys]⟩

theorem mapR_sameL (G : JV → Res JV) : ∀ (xs : List JV), (∀ x ∈ xs, ∃ y, G x = .ok y ∧ x.same y) →
    ∃ ys, mapR G xs = .ok ys ∧ sameL xs ys
  | [], _ => ⟨[], rfl, by simp [sameL]⟩
  | x :: xs, h => by
    obtain ⟨y, hy, hs⟩ := h x (by simp)
    obtain ⟨ys, hys, hss⟩ := mapR_sameL G xs (fun x' hx' => h x' (List.mem_cons_of_mem _ hx'))
    refine ⟨y :: ys, by simp only [mapR, hy, hys], ?_⟩
    simp only [sameL]
    exact ⟨y, ys, rfl, hs, hss⟩

theorem mapKV_exists (g : String → JV → Res JV) (kvs : Obj) (h : ∀ kv ∈ kvs, ∃ y, g kv.1 kv.2 = .ok y) :
    ∃ kvs1, mapKV g kvs = .ok kvs1 := by
  unfold mapKV
  apply mapR_exists
  intro kv hkv
  obtain ⟨y, hy⟩ := h kv hkv
  exact ⟨(kv.1, y), by simp only [hy, Res.wrap]⟩

/-- entries of a map with distinct keys, each entry coming back the same -/
theorem mapKV_same (g : String → JV → Res JV) (kvs : Obj) (hn : (kvs.map (·.1)).Nodup)
    (h : ∀ kv ∈ kvs, ∃ y, g kv.1 kv.2 = .ok y ∧ kv.2.same y) :
    ∃ kvs1, mapKV g kvs = .ok kvs1 ∧ (JV.obj kvs).same (.obj kvs1) := by
  obtain ⟨kvs1, hm⟩ := mapKV_exists g kvs (fun kv hkv => by
    obtain ⟨y, hy, _⟩ := h kv hkv; exact ⟨y, hy⟩)
  refine ⟨kvs1, hm, ?_⟩
  have hk := mapKV_keys g kvs kvs1 hm
  apply same_obj_of kvs kvs1 hn (hk ▸ hn)
  · intro k x hx
    obtain ⟨y, hy, hy2⟩ := (mapKV_lookup g kvs kvs1 hm k).1 x hx
    obtain ⟨y', hy', hs⟩ := h (k, x) (lookup_mem k x kvs hx)
    simp only at hy'
    rw [hy] at hy'; cases hy'
    exact ⟨y, hy2, hs⟩
  · intro k hk'
    exact (mapKV_lookup g kvs kvs1 hm k).2 hk'

/-! ### the invariant -/

structure NInv (g : Shape → JV → Bool) (f : Shape → JV → Res JV) : Prop where
  ok : ∀ s v, v.clean = true → g s v = true → ∃ v1, f s v = .ok v1 ∧ v.same v1
  nullP : ∀ s, g (.pmap s) .null = false
  nullS : g .strLeaf .null = false

theorem nullFix_of_normal {g : Shape → JV → Bool} {f : Shape → JV → Res JV} (h : NInv g f) (s : Shape) (x : JV)
    (hx : g s x = true) : nullFix s x = x := by
  cases x with
  | null =>
    cases s with
    | pmap s' => rw [h.nullP s'] at hx; cases hx
    | strLeaf => rw [h.nullS] at hx; cases hx
    | _ => rfl
  | _ => exact nullFix_of_not_null s _ rfl

theorem allStr_mapR : ∀ (xs : List JV), allStr xs = true → mapR typeElem xs = .ok xs
  | [], _ => rfl
  | x :: r, h => by
    cases x <;> simp [allStr] at h
    simp only [mapR, typeElem, allStr_mapR r h]

section nsteps
variable {T : List Desc} {g : Shape → JV → Bool} {f : Shape → JV → Res JV}

theorem normTypes_ok (v : JV) (h : normTypes v = true) : rtTypes v = .ok v := by
  cases v with
  | str s => rfl
  | arr xs =>
    match xs, h with
    | x :: y :: r, h =>
      simp only [normTypes] at h
      simp only [rtTypes, allStr_mapR _ h]
  | _ => simp [normTypes] at h

theorem normList_ok (hgf : NInv g f) (s : Shape) (v : JV) (hv : v.clean = true) (h : normList g s v = true) :
    ∃ v1, stepList f s v = .ok v1 ∧ v.same v1 := by
  cases v with
  | arr xs =>
    simp only [normList, List.all_eq_true] at h
    obtain ⟨ys, hys, hss⟩ := mapR_sameL (fun x => f s (nullFix s x)) xs (fun x hx => by
      obtain ⟨y, hy, hs⟩ := hgf.ok s x (clean_arr xs hv x hx) (h x hx)
      exact ⟨y, by simp only [nullFix_of_normal hgf s x (h x hx)]; exact hy, hs⟩)
    refine ⟨.arr ys, by simp only [stepList, hys, Res.wrap], ?_⟩
    simp only [JV.same]
    exact Or.inr ⟨ys, rfl, hss⟩
  | _ => simp [normList] at h

theorem normEntries_map_ok (hgf : NInv g f) (s : Shape) (v : JV) (hv : v.clean = true)
    (h : normEntries g s v = true) : ∃ v1, stepMap f s v = .ok v1 ∧ v.same v1 := by
  cases v with
  | obj kvs =>
    simp only [normEntries, Bool.and_eq_true, decide_eq_true_eq, List.all_eq_true, Bool.not_eq_true'] at h
    obtain ⟨hn, hall⟩ := h
    obtain ⟨kvs1, hm, hs⟩ := mapKV_same (fun _ x => f s (nullFix s x)) kvs hn (fun kv hkv => by
      obtain ⟨y, hy, hs⟩ := hgf.ok s kv.2 ((clean_obj kvs hv).2 kv hkv) (hall kv hkv).2
      exact ⟨y, by simp only [nullFix_of_not_null s kv.2 (hall kv hkv).1]; exact hy, hs⟩)
    exact ⟨.obj kvs1, by simp only [stepMap, hm, Res.wrap], hs⟩
  | _ => simp [normEntries] at h

theorem normEntries_pmap_ok (hgf : NInv g f) (s : Shape) (v : JV) (hv : v.clean = true)
    (h : normEntries g s v = true) : ∃ v1, stepPMap T f s v = .ok v1 ∧ v.same v1 := by
  cases v with
  | obj kvs =>
    simp only [normEntries, Bool.and_eq_true, decide_eq_true_eq, List.all_eq_true, Bool.not_eq_true'] at h
    obtain ⟨hn, hall⟩ := h
    obtain ⟨kvs1, hm, hs⟩ := mapKV_same (fun _ x => entryStep T f s x) kvs hn (fun kv hkv => by
      obtain ⟨y, hy, hs⟩ := hgf.ok s kv.2 ((clean_obj kvs hv).2 kv hkv) (hall kv hkv).2
      exact ⟨y, by simp only [entryStep_of_not_null T f s kv.2 (hall kv hkv).1]; exact hy, hs⟩)
    exact ⟨.obj kvs1, by simp only [stepPMap, hm, Res.wrap], hs⟩
  | _ => simp [normEntries] at h

theorem normAddProps_ok (hgf : NInv g f) (v : JV) (hv : v.clean = true) (h : normAddProps g v = true) :
    ∃ v1, stepAddProps f v = .ok v1 ∧ v.same v1 := by
  cases v with
  | bool b => exact ⟨_, rfl, same_refl _⟩
  | obj kvs =>
    cases kvs with
    | nil => exact ⟨_, rfl, same_refl _⟩
    | cons kv r =>
      simp only [normAddProps] at h
      simp only [stepAddProps]
      exact hgf.ok _ _ hv h
  | _ => simp [normAddProps] at h

theorem lookup_single_key (k : String) (x : JV) (h : hasKey "$ref" [(k, x)] = true) : k = "$ref" := by
  simp only [hasKey, lookup] at h
  by_cases e : "$ref" = k
  · exact e.symm
  · simp [e] at h

theorem normRef_ok (hgf : NInv g f) (w : String) (v : JV) (hv : v.clean = true) (h : normRef T g w v = true) :
    ∃ v1, stepRef T f w v = .ok v1 ∧ v.same v1 := by
  cases v with
  | obj kvs =>
    simp only [normRef] at h
    cases hd : findDesc T w with
    | none => simp [hd] at h
    | some d =>
      simp only [hd] at h
      cases hk : hasKey "$ref" kvs with
      | true =>
        simp only [hk, if_true] at h
        match kvs, hk, h with
        | [(k, .str r)], hk, h =>
          have e := lookup_single_key k _ hk
          subst e
          have hr : r ≠ "" := by simpa using h
          refine ⟨_, ?_, same_refl _⟩
          simp only [stepRef, hd, refString_single r hr]
      | false =>
        simp only [hk, Bool.false_eq_true, if_false] at h
        have : refString kvs = none := by
          apply refString_none_of_lookup
          simp only [hasKey] at hk
          cases hl : lookup "$ref" kvs with
          | none => rfl
          | some x => simp [hl] at hk
        simp only [stepRef, hd, this]
        exact hgf.ok _ _ hv h
  | _ => simp [normRef] at h

theorem filter_origin_of_not_hasKey (kvs : Obj) (h : hasKey "__origin__" kvs = false) :
    kvs.filter (fun kv => kv.1 != "__origin__") = kvs := by
  rw [List.filter_eq_self]
  intro kv hkv
  simp only [bne_iff_ne, ne_eq]
  intro e
  have : lookup "__origin__" kvs = none := by
    simp only [hasKey] at h
    cases hl : lookup "__origin__" kvs with
    | none => rfl
    | some x => simp [hl] at h
  rw [lookup_none_iff] at this
  exact this (e ▸ List.mem_map_of_mem hkv)

theorem normMaplike_ok (hgf : NInv g f) (w : String) (v : JV) (hv : v.clean = true)
    (h : normMaplike T g w v = true) : ∃ v1, stepMaplike T f w v = .ok v1 ∧ v.same v1 := by
  cases v with
  | obj kvs =>
    simp only [normMaplike] at h
    cases hd : findDesc T w with
    | none => simp [hd] at h
    | some d =>
      simp only [hd, Bool.and_eq_true, decide_eq_true_eq, List.all_eq_true, Bool.not_eq_true', Bool.or_eq_true] at h
      obtain ⟨⟨hn, ho⟩, hall⟩ := h
      obtain ⟨kvs1, hm, hs⟩ := mapKV_same
        (fun k x => if isExtKey k then .ok x else entryStep T f (entryShapeOf d) x) kvs hn (fun kv hkv => by
          rcases hall kv hkv with he | ⟨hnn, hg⟩
          · exact ⟨kv.2, by simp only [he, if_true], same_refl _⟩
          · by_cases he : isExtKey kv.1 = true
            · exact ⟨kv.2, by simp only [he, if_true], same_refl _⟩
            · obtain ⟨y, hy, hs⟩ := hgf.ok _ kv.2 ((clean_obj kvs hv).2 kv hkv) hg
              refine ⟨y, ?_, hs⟩
              simp only [he]
              rw [entryStep_of_not_null T f _ kv.2 hnn]; exact hy)
      refine ⟨.obj kvs1, ?_, hs⟩
      simp only [stepMaplike, hd, filter_origin_of_not_hasKey kvs ho, hm, Res.wrap]
  | _ => simp [normMaplike] at h

end nsteps


/-! ### the struct step on a normal-form object -/

/-- written fields and their round-tripped children, key by key -/
theorem rel_lookup (G : MField → Res (String × JV)) (val : MField → JV) :
    ∀ (ms : List MField) (fs : Obj), mapR G ms = .ok fs →
    (∀ m ∈ ms, ∀ y, G m = .ok y → y.1 = m.key ∧ (val m).same y.2) →
    ∀ k, (lookup k (ms.map (fun m => (m.key, val m))) = none → lookup k fs = none) ∧
         (∀ x, lookup k (ms.map (fun m => (m.key, val m))) = some x → ∃ y, lookup k fs = some y ∧ x.same y)
  | [], fs, h, _, k => by
    simp only [mapR] at h; cases h
    simp [lookup]
  | m0 :: ms, fs, h, hG, k => by
    obtain ⟨y0, fs', hy0, hr, rfl⟩ := mapR_cons_ok h
    obtain ⟨hk0, hs0⟩ := hG m0 (by simp) y0 hy0
    have ih := rel_lookup G val ms fs' hr (fun m hm => hG m (List.mem_cons_of_mem _ hm)) k
    obtain ⟨a, b⟩ := y0
    simp only at hk0 hs0
    subst hk0
    simp only [List.map_cons, lookup]
    by_cases e : k = m0.key
    · simp only [e, if_true]
      refine ⟨fun hn => (by cases hn), fun x hx => ?_⟩
      cases hx
      exact ⟨b, rfl, hs0⟩
    · simp only [e, if_false]
      exact ih

theorem flatRT_not_taken (d : Desc) (w : WF compat d) (o : Obj)
    (hre : (d.refEarly && !(fldVal d o "Ref").isEmptyStr) = false) :
    flatRT d o =
      (d.marsh.filter (fun m => guard (tcOfGo d m.goName) m.guard (fldVal d o m.goName))).map
        (fun m => (m.key, written m.guard (fldVal d o m.goName))) ++
      o.filter (fun kv => !(d.dels.contains kv.1)) := by
  have hF : ∀ g, (unmarshal d o).fld g = fldVal d o g := fun g => unmarshal_fld d o g w.asg
  have := filter_map_eq_filterMap_emit d (unmarshal d o) d.marsh
  simp only [hF] at this
  unfold flatRT marshal marshalWith
  simp only [hF, hre, Bool.false_eq_true, if_false, w.ext, if_true, unmarshal_ext d o w.asg w.unm]
  rw [← this]

theorem flatRT_taken (d : Desc) (w : WF compat d) (o : Obj)
    (hre : (d.refEarly && !(fldVal d o "Ref").isEmptyStr) = true) :
    flatRT d o = [("$ref", fldVal d o "Ref")] := by
  have hF : ∀ g, (unmarshal d o).fld g = fldVal d o g := fun g => unmarshal_fld d o g w.asg
  unfold flatRT marshal marshalWith
  simp only [hF, hre, if_true]

theorem nodup_filter_keys (o : Obj) (p : String × JV → Bool) (h : (o.map (·.1)).Nodup) :
    ((o.filter p).map (·.1)).Nodup :=
  List.Nodup.sublist ((List.filter_sublist).map _) h

theorem marshalDeep_normal {g : Shape → JV → Bool} {f : Shape → JV → Res JV} (hgf : NInv g f)
    (d : Desc) (w : WF compat d) (kvs : Obj)
    (hv : (JV.obj kvs).clean = true) (hn : normalObjB d kvs = true)
    (hch : ∀ kv ∈ kvs, ∀ fl, fieldByKey d kv.1 = some fl → g fl.shape kv.2 = true) :
    ∃ o1, marshalDeep f d (unmarshal d (applyPost d kvs)) = .ok o1 ∧ (JV.obj kvs).same (.obj o1) := by
  have htr := (clean_obj kvs hv).1
  have hp0 : applyPost d kvs = kvs := by simp [applyPost, dateTrimHit, htr]
  rw [hp0]
  have hflat : ∀ k, lookup k (flatRT d kvs) = lookup k kvs := fun k => flat_normal_lookup d kvs k w hn
  have hn' := hn
  simp only [normalObjB, Bool.and_eq_true, List.all_eq_true, Bool.or_eq_true, Bool.not_eq_true',
    beq_iff_eq, decide_eq_true_eq] at hn'
  obtain ⟨⟨⟨hnod, hnd⟩, hreq⟩, _⟩ := hn'
  have hF : ∀ o g, (unmarshal d o).fld g = fldVal d o g := fun o g => unmarshal_fld d o g w.asg
  have hE : ∀ o, (unmarshal d o).ext = o.filter (fun kv => !(d.dels.contains kv.1)) :=
    fun o => unmarshal_ext d o w.asg w.unm
  unfold marshalDeep
  simp only [hF, hE, w.ext, if_true]
  cases hre : (d.refEarly && !(fldVal d kvs "Ref").isEmptyStr) with
  | true =>
    simp only [if_true]
    refine ⟨_, rfl, ?_⟩
    have hfl := flatRT_taken d w kvs hre
    apply same_obj_of kvs _ hnod (by simp)
    · intro k x hx
      refine ⟨x, ?_, same_refl x⟩
      rw [← hfl, hflat k]; exact hx
    · intro k hk
      rw [← hfl, hflat k]; exact hk
  | false =>
    simp only [Bool.false_eq_true, if_false]
    -- every written field is a present, non-default member whose child comes back the same
    have hA : ∀ m ∈ d.marsh, guard (tcOfGo d m.goName) m.guard (fldVal d kvs m.goName) = true →
        ∃ c, f (shapeOfGo d m.goName) (written m.guard (fldVal d kvs m.goName)) = .ok c ∧
             (written m.guard (fldVal d kvs m.goName)).same c := by
      intro m hmm hg
      obtain ⟨fl, hfl, hflk, hcmp, htc, hsh, hval⟩ := marsh_facts d w m hmm
      rw [htc, hval kvs] at hg
      rw [hsh, hval kvs]
      cases hl : lookup m.key kvs with
      | none =>
        exfalso
        rw [hl] at hg
        have hz : guard fl.tc m.guard (zero fl.tc) = true := by simpa [decode] using hg
        have hu := compat_zero fl.tc m.guard hcmp hz
        have : m.key ∈ requiredKeys d := by
          unfold requiredKeys; rw [← w.required]
          simp only [alwaysKeys, List.mem_map, List.mem_filter]
          exact ⟨m, ⟨hmm, hu⟩, rfl⟩
        have := hreq m.key this
        simp [hasKey, hl] at this
      | some x =>
        have hmem := lookup_mem m.key x kvs hl
        have hfk : fieldByKey d m.key = some fl := by
          have := find_field_of_nodup fl d.fields w.nodupTags hfl
          rw [hflk] at this; exact this
        have hdx : isDefault fl.tc x = false := by
          have := hnd (m.key, x) hmem
          simpa [hfk] using this
        have hgx := hch (m.key, x) hmem fl hfk
        rw [decode_of_not_default fl.tc x hdx, written_of_not_default fl.tc m.guard x hdx]
        exact hgf.ok fl.shape x (clean_lookup kvs hv m.key x hl) hgx
    let P : MField → Bool := fun m => guard (tcOfGo d m.goName) m.guard (fldVal d kvs m.goName)
    let G : MField → Res (String × JV) := fun m =>
      (f (shapeOfGo d m.goName) (written m.guard (fldVal d kvs m.goName))).wrap (fun v' => (m.key, v'))
    obtain ⟨fs, hfs⟩ := mapR_exists G (d.marsh.filter P) (fun m hm => by
      obtain ⟨hm1, hm2⟩ := List.mem_filter.mp hm
      obtain ⟨c, hc, _⟩ := hA m hm1 hm2
      exact ⟨(m.key, c), by simp only [G, hc, Res.wrap]⟩)
    have hfs' : mapR (fun (m : MField) =>
        (f (shapeOfGo d m.goName) (written m.guard (fldVal d kvs m.goName))).wrap (fun v' => (m.key, v')))
        (d.marsh.filter fun m => guard (tcOfGo d m.goName) m.guard (fldVal d kvs m.goName)) = .ok fs := hfs
    rw [hfs']
    refine ⟨_, rfl, ?_⟩
    -- compare with the flat round trip, which is the input key by key
    have hrel := rel_lookup G (fun m => written m.guard (fldVal d kvs m.goName)) (d.marsh.filter P) fs hfs
      (fun m hm y hy => by
        obtain ⟨hm1, hm2⟩ := List.mem_filter.mp hm
        obtain ⟨c, hc, hs⟩ := hA m hm1 hm2
        have : G m = .ok (m.key, c) := by simp only [G, hc, Res.wrap]
        rw [this] at hy; cases hy
        exact ⟨rfl, hs⟩)
    have hfl := flatRT_not_taken d w kvs hre
    have hkeys : fs.map (·.1) = (d.marsh.filter P).map (·.key) :=
      mapR_keys (·.key) G _ fs hfs (fun m _ y hy => by
        obtain ⟨c, _, rfl⟩ := wrap_ok _ _ _ hy
        rfl)
    apply same_obj_of kvs _ hnod
    · -- distinct keys of the output
      rw [List.map_append, List.nodup_append]
      refine ⟨?_, nodup_filter_keys kvs _ hnod, ?_⟩
      · rw [hkeys]; exact List.Nodup.sublist ((List.filter_sublist).map _) w.nodupM
      · intro a ha b hb e
        subst e
        rw [hkeys] at ha
        obtain ⟨m, hm, e1⟩ := List.mem_map.mp ha
        have hdel : a ∈ d.dels := e1 ▸ marsh_key_in_dels compat d w m (List.mem_filter.mp hm).1
        obtain ⟨kv, hkv, e2⟩ := List.mem_map.mp hb
        have := (List.mem_filter.mp hkv).2
        simp only [Bool.not_eq_true', List.contains_eq_mem, decide_eq_false_iff_not] at this
        exact this (e2 ▸ hdel)
    · intro k x hx
      rw [← hflat k, hfl, lookup_append] at hx
      rw [lookup_append]
      cases h0 : lookup k ((d.marsh.filter P).map (fun m => (m.key, written m.guard (fldVal d kvs m.goName)))) with
      | some x0 =>
        have h0' : lookup k ((d.marsh.filter fun m => guard (tcOfGo d m.goName) m.guard (fldVal d kvs m.goName)).map
            (fun m => (m.key, written m.guard (fldVal d kvs m.goName)))) = some x0 := h0
        rw [h0'] at hx
        simp only [Option.orElse] at hx
        cases hx
        obtain ⟨y, hy, hs⟩ := (hrel k).2 x h0
        exact ⟨y, by rw [hy]; rfl, hs⟩
      | none =>
        have h0' : lookup k ((d.marsh.filter fun m => guard (tcOfGo d m.goName) m.guard (fldVal d kvs m.goName)).map
            (fun m => (m.key, written m.guard (fldVal d kvs m.goName)))) = none := h0
        rw [h0'] at hx
        simp only [Option.orElse] at hx
        rw [(hrel k).1 h0]
        exact ⟨x, hx, same_refl x⟩
    · intro k hk
      rw [← hflat k, hfl, lookup_append] at hk
      rw [lookup_append]
      cases h0 : lookup k ((d.marsh.filter P).map (fun m => (m.key, written m.guard (fldVal d kvs m.goName)))) with
      | some x0 =>
        have h0' : lookup k ((d.marsh.filter fun m => guard (tcOfGo d m.goName) m.guard (fldVal d kvs m.goName)).map
            (fun m => (m.key, written m.guard (fldVal d kvs m.goName)))) = some x0 := h0
        rw [h0'] at hk
        simp [Option.orElse] at hk
      | none =>
        have h0' : lookup k ((d.marsh.filter fun m => guard (tcOfGo d m.goName) m.guard (fldVal d kvs m.goName)).map
            (fun m => (m.key, written m.guard (fldVal d kvs m.goName)))) = none := h0
        rw [h0'] at hk
        simp only [Option.orElse] at hk
        rw [(hrel k).1 h0]
        exact hk

/-! ### kinds, one level, and the induction -/

theorem normKind_ok {T : List Desc} {g : Shape → JV → Bool} {f : Shape → JV → Res JV} (hT : TableOK T)
    (hgf : NInv g f) (k : String) (v : JV) (hv : v.clean = true) (h : normKind T g k v = true) :
    ∃ v1, stepKind T f k v = .ok v1 ∧ v.same v1 := by
  cases v with
  | obj kvs =>
    simp only [normKind] at h
    unfold stepKind
    cases hd : findDesc T k with
    | none => simp [hd] at h
    | some d =>
      simp only [hd] at h ⊢
      cases ht : d.template with
      | alias => simp only [ht] at h ⊢; exact hgf.ok _ _ hv h
      | ref => simp [ht] at h
      | namedMap => simp [ht] at h
      | special => simp [ht] at h
      | maplike => simp [ht] at h
      | struct =>
        simp only [ht, Bool.and_eq_true, List.all_eq_true] at h ⊢
        obtain ⟨⟨hn, _⟩, hall⟩ := h
        obtain ⟨w, _, _⟩ := deepOK_struct d (hT d (findDesc_mem T k d hd)) ht
        obtain ⟨o1, ho1, hs⟩ := marshalDeep_normal hgf d w kvs hv hn (fun kv hkv fl hfl => by
          have := hall kv hkv
          simpa [hfl] using this)
        exact ⟨.obj o1, by simp only [ho1, Res.wrap], hs⟩
  | _ => simp [normKind] at h

theorem step_ninv {T : List Desc} {g : Shape → JV → Bool} {f : Shape → JV → Res JV} (hT : TableOK T)
    (hgf : NInv g f) : NInv (normStep T g) (rtStep T f) where
  ok := by
    intro s v hv h
    cases s with
    | leaf => exact ⟨v, rfl, same_refl v⟩
    | strLeaf => exact ⟨v, rfl, same_refl v⟩
    | unknown t => simp [normStep] at h
    | types =>
      simp only [normStep] at h
      exact ⟨v, by simp only [rtStep]; exact normTypes_ok v h, same_refl v⟩
    | addProps => simp only [normStep] at h; simp only [rtStep]; exact normAddProps_ok hgf v hv h
    | list s => simp only [normStep] at h; simp only [rtStep]; exact normList_ok hgf s v hv h
    | map s => simp only [normStep] at h; simp only [rtStep]; exact normEntries_map_ok hgf s v hv h
    | pmap s => simp only [normStep] at h; simp only [rtStep]; exact normEntries_pmap_ok hgf s v hv h
    | ref w => simp only [normStep] at h; simp only [rtStep]; exact normRef_ok hgf w v hv h
    | maplike w => simp only [normStep] at h; simp only [rtStep]; exact normMaplike_ok hgf w v hv h
    | kind k => simp only [normStep] at h; simp only [rtStep]; exact normKind_ok hT hgf k v hv h
  nullP := by intro s; rfl
  nullS := rfl

theorem rt_ninv {T : List Desc} (hT : TableOK T) : ∀ n, NInv (normalB T n) (rt T n)
  | 0 => ⟨by intro s v _ h; simp [normalB] at h, by intro s; rfl, rfl⟩
  | n + 1 => by
    have e1 : rt T (n + 1) = rtStep T (rt T n) := by funext s v; rfl
    have e2 : normalB T (n + 1) = normStep T (normalB T n) := by funext s v; rfl
    rw [e1, e2]
    exact step_ninv hT (rt_ninv hT n)

end KinModel.Marshal
