/-
Helper lemmas for C09, gorillamux router: soundness and completeness of the greedy template matcher with
respect to substitution, first-match lemmas for the route list, membership/ordering of the route list.
-/
import KinModel.Router
namespace KinModel.Router

/-- a value a mux variable can take: non-empty, without the separator -/
def GoodFor (stop : Char) (v : Str) : Prop := v ≠ [] ∧ stop ∉ v

theorem tryLens_some {cont : Str → Option (List (Str × Str))} {name s : Str} :
    ∀ {k : Nat} {b}, tryLens cont name s k = some b →
      ∃ j b', 1 ≤ j ∧ j ≤ k ∧ cont (s.drop j) = some b' ∧ b = (name, s.take j) :: b' := by
  intro k
  induction k with
  | zero => intro b h; simp [tryLens] at h
  | succ k ih =>
    intro b h
    simp only [tryLens] at h
    split at h
    · rename_i b' hb
      cases h
      exact ⟨k + 1, b', by omega, by omega, hb, rfl⟩
    · obtain ⟨j, b', h1, h2, h3, h4⟩ := ih h
      exact ⟨j, b', h1, by omega, h3, h4⟩

theorem tryLens_complete {cont : Str → Option (List (Str × Str))} {name s : Str} {j : Nat} :
    ∀ {k : Nat}, 1 ≤ j → j ≤ k → (cont (s.drop j)).isSome → (tryLens cont name s k).isSome := by
  intro k
  induction k with
  | zero => intro h1 h2; omega
  | succ k ih =>
    intro h1 h2 hc
    simp only [tryLens]
    split
    · simp
    · rename_i hn
      by_cases hj : j = k + 1
      · subst hj; simp [hn] at hc
      · exact ih h1 (by omega) hc

theorem runLen_le_length (stop : Char) (s : Str) : runLen stop s ≤ s.length := by
  induction s with
  | nil => simp [runLen]
  | cons c cs ih => simp only [runLen]; split <;> simp <;> omega

theorem not_mem_take_runLen (stop : Char) : ∀ (s : Str) (j : Nat), j ≤ runLen stop s → stop ∉ s.take j := by
  intro s
  induction s with
  | nil => intro j _; simp
  | cons c cs ih =>
    intro j hj
    cases j with
    | zero => simp
    | succ j =>
      simp only [runLen] at hj
      split at hj
      · omega
      · rename_i hc
        simp only [List.take_succ_cons, List.mem_cons, not_or]
        exact ⟨fun e => hc e.symm, ih j (by omega)⟩

theorem length_le_runLen_append (stop : Char) : ∀ (v rest : Str), stop ∉ v → v.length ≤ runLen stop (v ++ rest) := by
  intro v
  induction v with
  | nil => intro rest _; simp
  | cons c cs ih =>
    intro rest h
    simp only [List.mem_cons, not_or] at h
    simp only [List.cons_append, runLen]
    split
    · rename_i e; exact absurd e.symm h.1
    · have := ih rest h.2
      simp; omega

theorem gmatch_sound (stop : Char) : ∀ (toks : List GTok) (s : Str) (b : List (Str × Str)),
    gmatch stop toks s = some b → gsubst toks b = some s ∧ ∀ p ∈ b, GoodFor stop p.2 := by
  intro toks
  induction toks with
  | nil =>
    intro s b h
    cases s with
    | nil => simp [gmatch] at h; subst h; simp [gsubst]
    | cons c cs => simp [gmatch] at h
  | cons t ts ih =>
    intro s b h
    cases t with
    | lit c =>
      cases s with
      | nil => simp [gmatch] at h
      | cons d s' =>
        simp only [gmatch] at h
        split at h
        · rename_i e
          subst e
          obtain ⟨h1, h2⟩ := ih s' b h
          exact ⟨by simp [gsubst, h1], h2⟩
        · simp at h
    | var n =>
      simp only [gmatch] at h
      obtain ⟨j, b', h1, h2, h3, h4⟩ := tryLens_some h
      subst h4
      obtain ⟨i1, i2⟩ := ih _ b' h3
      refine ⟨by simp [gsubst, i1], ?_⟩
      intro p hp
      simp only [List.mem_cons] at hp
      rcases hp with rfl | hp
      · refine ⟨?_, not_mem_take_runLen stop s j h2⟩
        intro e
        rcases List.take_eq_nil_iff.1 e with e' | e'
        · omega
        · subst e'; simp [runLen] at h2; omega
      · exact i2 p hp

theorem gmatch_complete (stop : Char) : ∀ (toks : List GTok) (b : List (Str × Str)) (s : Str),
    gsubst toks b = some s → (∀ p ∈ b, GoodFor stop p.2) → (gmatch stop toks s).isSome := by
  intro toks
  induction toks with
  | nil =>
    intro b s h _
    cases b with
    | nil => simp [gsubst] at h; subst h; simp [gmatch]
    | cons p ps => simp [gsubst] at h
  | cons t ts ih =>
    intro b s h hg
    cases t with
    | lit c =>
      simp only [gsubst, Option.map_eq_some_iff] at h
      obtain ⟨s', hs', rfl⟩ := h
      simp [gmatch, ih b s' hs' hg]
    | var n =>
      cases b with
      | nil => simp [gsubst] at h
      | cons p ps =>
        obtain ⟨m, v⟩ := p
        simp only [gsubst] at h
        split at h
        · simp only [Option.map_eq_some_iff] at h
          obtain ⟨s', hs', rfl⟩ := h
          have hv : GoodFor stop v := hg (m, v) (by simp)
          simp only [gmatch]
          refine tryLens_complete (j := v.length) ?_ (length_le_runLen_append stop v s' hv.2) ?_
          · have := hv.1
            cases v with
            | nil => exact absurd rfl this
            | cons _ _ => simp
          · simp [ih ps s' hs' (fun p hp => hg p (by simp [hp]))]
        · simp at h

/-! ### first match over the route list -/

theorem gFirst_route {rs : List GRoute} {req : Req} {t m : Str} {ps : List (Str × Str)}
    (h : gFirst rs req = .route t m ps) :
    ∃ pre r post b, rs = pre ++ r :: post ∧ (∀ r' ∈ pre, gRouteMatch r' req = none) ∧
      gRouteMatch r req = some b ∧ r.template = t ∧ m = req.method ∧ req.method ∈ r.methods := by
  induction rs with
  | nil => simp [gFirst] at h
  | cons r rs ih =>
    simp only [gFirst] at h
    split at h
    · rename_i b hb
      split at h
      · rename_i hm
        simp only [Outcome.route.injEq] at h
        exact ⟨[], r, rs, b, rfl, by simp, hb, h.1, h.2.1.symm, hm⟩
      · simp at h
    · rename_i hn
      obtain ⟨pre, r0, post, b, e, h1, h2, h3, h4, h5⟩ := ih h
      refine ⟨r :: pre, r0, post, b, by simp [e], ?_, h2, h3, h4, h5⟩
      intro r' hr'
      simp only [List.mem_cons] at hr'
      rcases hr' with rfl | hr'
      · exact hn
      · exact h1 r' hr'

theorem gFirst_notFound_iff (rs : List GRoute) (req : Req) :
    gFirst rs req = .notFound ↔ ∀ r ∈ rs, gRouteMatch r req = none := by
  induction rs with
  | nil => simp [gFirst]
  | cons r rs ih =>
    simp only [gFirst, List.mem_cons, forall_eq_or_imp]
    split
    · rename_i b hb
      constructor
      · intro h; split at h <;> simp at h
      · intro h; simp [hb] at h
    · rename_i hn
      simp [hn, ih]

theorem gFirst_complete {rs : List GRoute} {req : Req}
    (hex : ∃ r ∈ rs, gRouteMatch r req ≠ none)
    (hall : ∀ r ∈ rs, gRouteMatch r req ≠ none → req.method ∈ r.methods) :
    ∃ t ps, gFirst rs req = .route t req.method ps := by
  induction rs with
  | nil => simp at hex
  | cons r rs ih =>
    simp only [gFirst]
    split
    · rename_i b hb
      have := hall r (by simp) (by simp [hb])
      simp [this]
    · rename_i hn
      apply ih
      · obtain ⟨r0, hr0, hm⟩ := hex
        simp only [List.mem_cons] at hr0
        rcases hr0 with rfl | hr0
        · exact absurd hn hm
        · exact ⟨r0, hr0, hm⟩
      · intro r' hr' hm
        exact hall r' (by simp [hr']) hm

/-! ### the route list -/

theorem mem_insPath (x z : PathDecl) (l : List PathDecl) : z ∈ insPath x l ↔ z = x ∨ z ∈ l := by
  induction l with
  | nil => simp [insPath]
  | cons y ys ih =>
    simp only [insPath]
    split
    · simp
    · simp [ih]; constructor <;> rintro (h | h | h) <;> simp [h]

theorem mem_inMatchingOrder (ps : List PathDecl) (z : PathDecl) : z ∈ inMatchingOrder ps ↔ z ∈ ps := by
  induction ps with
  | nil => simp [inMatchingOrder]
  | cons p ps ih =>
    have : inMatchingOrder (p :: ps) = insPath p (inMatchingOrder ps) := rfl
    rw [this, mem_insPath, ih]; simp

def nvars (t : Str) : Nat := countChar '}' t

theorem pairwise_insPath (x : PathDecl) (l : List PathDecl)
    (h : l.Pairwise (fun a b => nvars a.template ≤ nvars b.template)) :
    (insPath x l).Pairwise (fun a b => nvars a.template ≤ nvars b.template) := by
  induction l with
  | nil => simp [insPath]
  | cons y ys ih =>
    simp only [insPath]
    rw [List.pairwise_cons] at h
    split
    · rename_i hb
      have hxy : nvars x.template ≤ nvars y.template := by
        simp only [pathBefore, nvars] at hb ⊢
        split at hb
        · omega
        · split at hb
          · simp at hb
          · omega
      rw [List.pairwise_cons]
      refine ⟨?_, List.pairwise_cons.2 h⟩
      intro z hz
      simp only [List.mem_cons] at hz
      rcases hz with rfl | hz
      · exact hxy
      · exact Nat.le_trans hxy (h.1 z hz)
    · rename_i hb
      have hyx : nvars y.template ≤ nvars x.template := by
        simp only [pathBefore, nvars] at hb ⊢
        split at hb
        · simp at hb
        · omega
      rw [List.pairwise_cons]
      refine ⟨?_, ih h.2⟩
      intro z hz
      rw [mem_insPath] at hz
      rcases hz with rfl | hz
      · exact hyx
      · exact h.1 z hz

theorem pairwise_inMatchingOrder (ps : List PathDecl) :
    (inMatchingOrder ps).Pairwise (fun a b => nvars a.template ≤ nvars b.template) := by
  induction ps with
  | nil => simp [inMatchingOrder]
  | cons p ps ih =>
    have : inMatchingOrder (p :: ps) = insPath p (inMatchingOrder ps) := rfl
    rw [this]; exact pairwise_insPath p _ ih

theorem allSome_eq {α} : ∀ {l : List (Option α)} {rs : List α}, allSome l = some rs → l = rs.map some := by
  intro l
  induction l with
  | nil => intro rs h; simp [allSome] at h; subst h; rfl
  | cons o os ih =>
    intro rs h
    cases o with
    | none => simp [allSome] at h
    | some a =>
      simp only [allSome, Option.map_eq_some_iff] at h
      obtain ⟨r', hr', rfl⟩ := h
      simp [ih hr']

theorem mkRoute_some {p : PathDecl} {s : GSrv} {r : GRoute} (h : mkRoute p s = some r) :
    r.template = p.template ∧ r.methods = p.methods ∧ r.srv = s ∧
      gparseS (s.base ++ p.template) = some r.pathToks ∧ gparseS s.host = some r.hostToks := by
  unfold mkRoute at h
  split at h
  · rename_i pt ht hp hh
    split at h
    · simp at h
    · split at h
      · simp at h
      · cases h; exact ⟨rfl, rfl, rfl, hp, hh⟩
  · simp at h

end KinModel.Router

namespace KinModel.Router

theorem gRouteMatch_path {r : GRoute} {req : Req} {b : List (Str × Str)} (h : gRouteMatch r req = some b) :
    ∃ pb, gmatch '/' r.pathToks req.path = some pb := by
  unfold gRouteMatch at h
  split at h
  · simp at h
  · rename_i pb hpb; exact ⟨pb, hpb⟩

def ORel (o1 o2 : Option GRoute) : Prop :=
  ∀ r1 r2, o1 = some r1 → o2 = some r2 → nvars r1.template ≤ nvars r2.template

theorem pairwise_routes {d : Doc} {rs : List GRoute} (h : gorillaRoutes d = some rs) :
    rs.Pairwise (fun a b => nvars a.template ≤ nvars b.template) := by
  unfold gorillaRoutes at h
  split at h
  · simp at h
  · rename_i srvs _
    have e := allSome_eq h
    have hp : (rs.map some).Pairwise ORel := by
      rw [← e, List.pairwise_flatMap]
      constructor
      · intro pd _
        rw [List.pairwise_map]
        apply List.Pairwise.imp (R := fun _ _ => True)
        · intro s1 s2 _ r1 r2 h1 h2
          rw [(mkRoute_some h1).1, (mkRoute_some h2).1]
          exact Nat.le_refl _
        · exact List.pairwise_of_forall (fun _ _ => trivial)
      · apply List.Pairwise.imp _ (pairwise_inMatchingOrder d.paths)
        intro p1 p2 hle x hx y hy r1 r2 h1 h2
        simp only [List.mem_map] at hx hy
        obtain ⟨s1, _, e1⟩ := hx
        obtain ⟨s2, _, e2⟩ := hy
        subst h1 h2
        rw [(mkRoute_some e1).1, (mkRoute_some e2).1]
        exact hle
    rw [List.pairwise_map] at hp
    exact hp.imp (fun {a b} hab => hab a b rfl rfl)

end KinModel.Router
