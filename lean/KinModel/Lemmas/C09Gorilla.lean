/-
Helper lemmas for C09, gorillamux router: soundness and completeness of the greedy template matcher with
respect to substitution, first-match lemmas for the route list, membership/ordering of the route list.
-/
import KinModel.Router
namespace KinModel.Router

/-- a value a mux variable can take: non-empty, without the separator -/
def GoodFor (stop : Char) (v : Str) : Prop := v ≠ [] ∧ stop ∉ v

theorem tryLens_some {cont : Str → Option (List (Str × Str))} {name s : Str} :
    ∀ {k : Nat} {b}, tryLens cont name s k = some b →
      ∃ j b', 1 ≤ j ∧ j ≤ k ∧ cont (s.drop j) = some b' ∧ b = (name, s.take j) :: b' := by
  intro k
  induction k with
  | zero => intro b h; simp [tryLens] at h
  | succ k ih =>
    intro b h
    simp only [tryLens] at h
    split at h
    · rename_i b' hb
      cases h
      exact ⟨k + 1, b', by omega, by omega, hb, rfl⟩
    · obtain ⟨j, b', h1, h2, h3, h4⟩ := ih h
      exact ⟨j, b', h1, by omega, h3, h4⟩

theorem tryLens_complete {cont : Str → Option (List (Str × Str))} {name s : Str} {j : Nat} :
    ∀ {k : Nat}, 1 ≤ j → j ≤ k → (cont (s.drop j)).isSome → (tryLens cont name s k).isSome := by
  intro k
  induction k with
  | zero => intro h1 h2; omega
  | succ k ih =>
    intro h1 h2 hc
    simp only [tryLens]
    split
    · simp
    · rename_i hn
      by_cases hj : j = k + 1
      · subst hj; simp [hn] at hc
      · exact ih h1 (by omega) hc

theorem runLen_le_length (stop : Char) (s : Str) : runLen stop s ≤ s.length := by
  induction s with
  | nil => simp [runLen]
  | cons c cs ih => simp only [runLen]; split <;> simp <;> omega

theorem not_mem_take_runLen (stop : Char) : ∀ (s : Str) (j : Nat), j ≤ runLen stop s → stop ∉ s.take j := by
  intro s
  induction s with
  | nil => intro j _; simp
  | cons c cs ih =>
    intro j hj
    cases j with
    | zero => simp
    | succ j =>
      simp only [runLen] at hj
      split at hj
      · omega
      · rename_i hc
        simp only [List.take_succ_cons, List.mem_cons, not_or]
        exact ⟨fun e => hc e.symm, ih j (by omega)⟩

theorem length_le_runLen_append (stop : Char) : ∀ (v rest : Str), stop ∉ v → v.length ≤ runLen stop (v ++ rest) := by
  intro v
  induction v with
  | nil => intro rest _; simp
  | cons c cs ih =>
    intro rest h
    simp only [List.mem_cons, not_or] at h
    simp only [List.cons_append, runLen]
    split
    · rename_i e; exact absurd e.symm h.1
    · have := ih rest h.2
      simp; omega

theorem gmatch_sound (stop : Char) : ∀ (toks : List GTok) (s : Str) (b : List (Str × Str)),
    gmatch stop toks s = some b → gsubst toks b = some s ∧ ∀ p ∈ b, GoodFor stop p.2 := by
  intro toks
  induction toks with
  | nil =>
    intro s b h
    cases s with
    | nil => simp [gmatch] at h; subst h; simp [gsubst]
    | cons c cs => simp [gmatch] at h
  | cons t ts ih =>
    intro s b h
    cases t with
    | lit c =>
      cases s with
      | nil => simp [gmatch] at h
      | cons d s' =>
        simp only [gmatch] at h
        split at h
        · rename_i e
          subst e
          obtain ⟨h1, h2⟩ := ih s' b h
          exact ⟨by simp [gsubst, h1], h2⟩
        · simp at h
    | var n =>
      simp only [gmatch] at h
      obtain ⟨j, b', h1, h2, h3, h4⟩ := tryLens_some h
      subst h4
      obtain ⟨i1, i2⟩ := ih _ b' h3
      refine ⟨by simp [gsubst, i1], ?_⟩
      intro p hp
      simp only [List.mem_cons] at hp
      rcases hp with rfl | hp
      · refine ⟨?_, not_mem_take_runLen stop s j h2⟩
        intro e
        rcases List.take_eq_nil_iff.1 e with e' | e'
        · omega
        · subst e'; simp [runLen] at h2; omega
      · exact i2 p hp

theorem gmatch_complete (stop : Char) : ∀ (toks : List GTok) (b : List (Str × Str)) (s : Str),
    gsubst toks b = some s → (∀ p ∈ b, GoodFor stop p.2) → (gmatch stop toks s).isSome := by
  intro toks
  induction toks with
  | nil =>
    intro b s h _
    cases b with
    | nil => simp [gsubst] at h; subst h; simp [gmatch]
    | cons p ps => simp [gsubst] at h
  | cons t ts ih =>
    intro b s h hg
    cases t with
    | lit c =>
      simp only [gsubst, Option.map_eq_some_iff] at h
      obtain ⟨s', hs', rfl⟩ := h
      simp [gmatch, ih b s' hs' hg]
    | var n =>
      cases b with
      | nil => simp [gsubst] at h
      | cons p ps =>
        obtain ⟨m, v⟩ := p
        simp only [gsubst] at h
        split at h
        · simp only [Option.map_eq_some_iff] at h
          obtain ⟨s', hs', rfl⟩ := h
          have hv : GoodFor stop v := hg (m, v) (by simp)
          simp only [gmatch]
          refine tryLens_complete (j := v.length) ?_ (length_le_runLen_append stop v s' hv.2) ?_
          · have := hv.1
            cases v with
            | nil => exact absurd rfl this
            | cons _ _ => simp
          · simp [ih ps s' hs' (fun p hp => hg p (by simp [hp]))]
        · simp at h

/-! ### first match over the route list -/

theorem gFirst_route {rs : List GRoute} {req : Req} {t m : Str} {ps : List (Str × Str)} {sv : SrvRef}
    (h : gFirst rs req = .route t m ps sv) :
    ∃ pre r post b, rs = pre ++ r :: post ∧ (∀ r' ∈ pre, gRouteMatch r' req = none) ∧
      gRouteMatch r req = some b ∧ r.template = t ∧ m = req.method ∧ req.method ∈ r.methods ∧ r.srv.ref = sv ∧
      ps = mapSetAll (mapSetAll [] b) (match r.srv.upd with | some kv => [kv] | none => []) := by
  induction rs with
  | nil => simp [gFirst] at h
  | cons r rs ih =>
    simp only [gFirst] at h
    split at h
    · rename_i b hb
      split at h
      · rename_i hm
        simp only [Outcome.route.injEq] at h
        exact ⟨[], r, rs, b, rfl, by simp, hb, h.1, h.2.1.symm, hm, h.2.2.2, h.2.2.1.symm⟩
      · simp at h
    · rename_i hn
      obtain ⟨pre, r0, post, b, e, h1, h2, h3, h4, h5⟩ := ih h
      refine ⟨r :: pre, r0, post, b, by simp [e], ?_, h2, h3, h4, h5⟩
      intro r' hr'
      simp only [List.mem_cons] at hr'
      rcases hr' with rfl | hr'
      · exact hn
      · exact h1 r' hr'

theorem gFirst_notFound_iff (rs : List GRoute) (req : Req) :
    gFirst rs req = .notFound ↔ ∀ r ∈ rs, gRouteMatch r req = none := by
  induction rs with
  | nil => simp [gFirst]
  | cons r rs ih =>
    simp only [gFirst, List.mem_cons, forall_eq_or_imp]
    split
    · rename_i b hb
      constructor
      · intro h; split at h <;> simp at h
      · intro h; simp [hb] at h
    · rename_i hn
      simp [hn, ih]

theorem gFirst_complete {rs : List GRoute} {req : Req}
    (hex : ∃ r ∈ rs, gRouteMatch r req ≠ none)
    (hall : ∀ r ∈ rs, gRouteMatch r req ≠ none → req.method ∈ r.methods) :
    ∃ t ps sv, gFirst rs req = .route t req.method ps sv := by
  induction rs with
  | nil => simp at hex
  | cons r rs ih =>
    simp only [gFirst]
    split
    · rename_i b hb
      have := hall r (by simp) (by simp [hb])
      simp [this]
    · rename_i hn
      apply ih
      · obtain ⟨r0, hr0, hm⟩ := hex
        simp only [List.mem_cons] at hr0
        rcases hr0 with rfl | hr0
        · exact absurd hn hm
        · exact ⟨r0, hr0, hm⟩
      · intro r' hr' hm
        exact hall r' (by simp [hr']) hm

/-! ### the route list -/

theorem mem_insPath (x z : PathDecl) (l : List PathDecl) : z ∈ insPath x l ↔ z = x ∨ z ∈ l := by
  induction l with
  | nil => simp [insPath]
  | cons y ys ih =>
    simp only [insPath]
    split
    · simp
    · simp [ih]; constructor <;> rintro (h | h | h) <;> simp [h]

theorem mem_inMatchingOrder (ps : List PathDecl) (z : PathDecl) : z ∈ inMatchingOrder ps ↔ z ∈ ps := by
  induction ps with
  | nil => simp [inMatchingOrder]
  | cons p ps ih =>
    have : inMatchingOrder (p :: ps) = insPath p (inMatchingOrder ps) := rfl
    rw [this, mem_insPath, ih]; simp

def nvars (t : Str) : Nat := countChar '}' t

theorem pairwise_insPath (x : PathDecl) (l : List PathDecl)
    (h : l.Pairwise (fun a b => nvars a.template ≤ nvars b.template)) :
    (insPath x l).Pairwise (fun a b => nvars a.template ≤ nvars b.template) := by
  induction l with
  | nil => simp [insPath]
  | cons y ys ih =>
    simp only [insPath]
    rw [List.pairwise_cons] at h
    split
    · rename_i hb
      have hxy : nvars x.template ≤ nvars y.template := by
        simp only [pathBefore, nvars] at hb ⊢
        split at hb
        · omega
        · split at hb
          · simp at hb
          · omega
      rw [List.pairwise_cons]
      refine ⟨?_, List.pairwise_cons.2 h⟩
      intro z hz
      simp only [List.mem_cons] at hz
      rcases hz with rfl | hz
      · exact hxy
      · exact Nat.le_trans hxy (h.1 z hz)
    · rename_i hb
      have hyx : nvars y.template ≤ nvars x.template := by
        simp only [pathBefore, nvars] at hb ⊢
        split at hb
        · simp at hb
        · omega
      rw [List.pairwise_cons]
      refine ⟨?_, ih h.2⟩
      intro z hz
      rw [mem_insPath] at hz
      rcases hz with rfl | hz
      · exact hyx
      · exact h.1 z hz

theorem pairwise_inMatchingOrder (ps : List PathDecl) :
    (inMatchingOrder ps).Pairwise (fun a b => nvars a.template ≤ nvars b.template) := by
  induction ps with
  | nil => simp [inMatchingOrder]
  | cons p ps ih =>
    have : inMatchingOrder (p :: ps) = insPath p (inMatchingOrder ps) := rfl
    rw [this]; exact pairwise_insPath p _ ih

theorem allSome_eq {α} : ∀ {l : List (Option α)} {rs : List α}, allSome l = some rs → l = rs.map some := by
  intro l
  induction l with
  | nil => intro rs h; simp [allSome] at h; subst h; rfl
  | cons o os ih =>
    intro rs h
    cases o with
    | none => simp [allSome] at h
    | some a =>
      simp only [allSome, Option.map_eq_some_iff] at h
      obtain ⟨r', hr', rfl⟩ := h
      simp [ih hr']

theorem mkRoute_some {p : PathDecl} {s : GSrv} {r : GRoute} (h : mkRoute p s = some r) :
    r.template = p.template ∧ r.methods = p.methods ∧ r.srv = s ∧
      gparseS (s.base ++ p.template) = some r.pathToks ∧ gparseS s.host = some r.hostToks := by
  unfold mkRoute at h
  split at h
  · rename_i pt ht hp hh
    split at h
    · simp at h
    · split at h
      · simp at h
      · cases h; exact ⟨rfl, rfl, rfl, hp, hh⟩
  · simp at h

end KinModel.Router

namespace KinModel.Router

theorem gRouteMatch_path {r : GRoute} {req : Req} {b : List (Str × Str)} (h : gRouteMatch r req = some b) :
    ∃ pb, gmatch '/' r.pathToks req.path = some pb := by
  unfold gRouteMatch at h
  split at h
  · simp at h
  · rename_i pb hpb; exact ⟨pb, hpb⟩

/-! ### the route list built by the loop of NewRouter -/

theorem allSome_append {α} : ∀ (l1 l2 : List (Option α)),
    allSome (l1 ++ l2) = (match allSome l1, allSome l2 with | some a, some b => some (a ++ b) | _, _ => none) := by
  intro l1
  induction l1 with
  | nil => intro l2; simp only [List.nil_append, allSome]; cases allSome l2 <;> simp
  | cons o os ih =>
    intro l2
    cases o with
    | none => simp [allSome]
    | some a =>
      simp only [List.cons_append, allSome, ih]
      cases allSome os <;> cases allSome l2 <;> simp

theorem allSome_mem {α} {l : List (Option α)} {rs : List α} (h : allSome l = some rs) {r : α} :
    r ∈ rs ↔ some r ∈ l := by
  rw [allSome_eq h]; simp

theorem newSrv_ref {url : Str} {s : Server} {upd : Option (Str × Str)} {ref : SrvRef} {g : GSrv}
    (h : newSrv url s upd ref = some g) : g.ref = ref ∧ g.upd = upd := by
  unfold newSrv at h
  split at h
  · split at h
    · simp at h
    · simp only [Option.some.injEq] at h; subst h; exact ⟨rfl, rfl⟩
  · simp only [Option.some.injEq] at h; subst h; exact ⟨rfl, rfl⟩

theorem gMakeServer_ref {ref : SrvRef} {s : Server} {g : GSrv} (h : gMakeServer ref s = some g) : g.ref = ref := by
  unfold gMakeServer at h
  split at h
  · split at h
    · simp at h
    · exact (newSrv_ref h).1
  · split at h
    · split at h
      · simp at h
      · split at h
        · simp at h
        · exact (newSrv_ref h).1
    · exact (newSrv_ref h).1

/-- a compiled server comes from the declared server with the same index -/
theorem gMakeServersFrom_mem {mk : Nat → SrvRef} : ∀ {l : List Server} {j : Nat} {gs : List GSrv},
    gMakeServersFrom mk j l = some gs → ∀ g ∈ gs, ∃ i s, l[i]? = some s ∧ gMakeServer (mk (j + i)) s = some g := by
  intro l
  induction l with
  | nil => intro j gs h g hg; simp [gMakeServersFrom] at h; subst h; simp at hg
  | cons s rest ih =>
    intro j gs h g hg
    simp only [gMakeServersFrom] at h
    split at h
    · rename_i a b ha hb
      simp only [Option.some.injEq] at h
      subst h
      simp only [List.mem_cons] at hg
      rcases hg with rfl | hg
      · exact ⟨0, s, by simp, by simpa using ha⟩
      · obtain ⟨i, s', h1, h2⟩ := ih hb g hg
        exact ⟨i + 1, s', by simpa using h1, by rw [← h2]; congr 2; omega⟩
    · simp at h

/-- … and every declared server is compiled (in order) -/
theorem gMakeServersFrom_get {mk : Nat → SrvRef} : ∀ {l : List Server} {j : Nat} {gs : List GSrv},
    gMakeServersFrom mk j l = some gs → ∀ i s, l[i]? = some s → ∃ g ∈ gs, gMakeServer (mk (j + i)) s = some g := by
  intro l
  induction l with
  | nil => intro j gs _ i s hi; simp at hi
  | cons s0 rest ih =>
    intro j gs h i s hi
    simp only [gMakeServersFrom] at h
    split at h
    · rename_i a b ha hb
      simp only [Option.some.injEq] at h
      subst h
      cases i with
      | zero => simp at hi; subst hi; exact ⟨a, by simp, by simpa using ha⟩
      | succ i =>
        simp at hi
        obtain ⟨g, hg, h2⟩ := ih hb i s hi
        exact ⟨g, by simp [hg], by rw [← h2]; congr 2; omega⟩
    · simp at h

/-- what `makeServers` returns: the placeholder for an empty list, otherwise the compiled declared servers -/
def CompiledFrom (mk : Nat → SrvRef) (l : List Server) (g : GSrv) : Prop :=
  (l = [] ∧ g = noSrv) ∨ ∃ i s, l[i]? = some s ∧ gMakeServer (mk i) s = some g

theorem gMakeServers_mem {mk : Nat → SrvRef} {l : List Server} {gs : List GSrv}
    (h : gMakeServers mk l = some gs) {g : GSrv} (hg : g ∈ gs) : CompiledFrom mk l g := by
  unfold gMakeServers at h
  split at h
  · simp at h
  · rename_i h0
    simp only [Option.some.injEq] at h
    subst h
    simp only [List.mem_singleton] at hg
    cases l with
    | nil => exact Or.inl ⟨rfl, hg⟩
    | cons s rest =>
      simp only [gMakeServersFrom] at h0
      split at h0 <;> simp at h0
  · rename_i a b h0
    simp only [Option.some.injEq] at h
    subst h
    obtain ⟨i, s, h1, h2⟩ := gMakeServersFrom_mem h0 g hg
    exact Or.inr ⟨i, s, h1, by simpa using h2⟩

theorem gMakeServers_get {mk : Nat → SrvRef} {l : List Server} {gs : List GSrv}
    (h : gMakeServers mk l = some gs) {g : GSrv} (hg : CompiledFrom mk l g) : g ∈ gs := by
  unfold gMakeServers at h
  split at h
  · simp at h
  · rename_i h0
    simp only [Option.some.injEq] at h
    subst h
    rcases hg with ⟨_, rfl⟩ | ⟨i, s, h1, h2⟩
    · simp
    · obtain ⟨g', hg', h3⟩ := gMakeServersFrom_get h0 i s h1
      simp at hg'
  · rename_i a b h0
    simp only [Option.some.injEq] at h
    subst h
    rcases hg with ⟨rfl, _⟩ | ⟨i, s, h1, h2⟩
    · simp [gMakeServersFrom] at h0
    · obtain ⟨g', hg', h3⟩ := gMakeServersFrom_get h0 i s h1
      simp only [Nat.zero_add] at h3
      rw [h2] at h3
      cases h3
      exact hg'

/-- the compiled servers that apply to a path item after the repair: its own when it declares some, else the document's -/
def EffSrv (d : Doc) (pd : PathDecl) (g : GSrv) : Prop :=
  if pd.servers = [] then CompiledFrom SrvRef.doc d.servers g else CompiledFrom (SrvRef.path pd.template) pd.servers g

theorem gLoop_cons {ds : List GSrv} {p : PathDecl} {ps : List PathDecl} {rs : List GRoute}
    (h : gLoop ds (p :: ps) = some rs) :
    ∃ use a b, (if p.servers = [] then some ds else gMakeServers (SrvRef.path p.template) p.servers) = some use ∧
      allSome (use.map (mkRoute p)) = some a ∧ gLoop ds ps = some b ∧ rs = a ++ b := by
  simp only [gLoop] at h
  split at h
  · simp at h
  · rename_i use hu
    split at h
    · rename_i a b ha hb
      simp only [Option.some.injEq] at h
      exact ⟨use, a, b, hu, ha, hb, h.symm⟩
    · simp at h

/-- the routes of the list are exactly (path item of the list) × (the compiled servers that apply to it) -/
theorem gLoop_mem {ds : List GSrv} : ∀ {ps : List PathDecl} {rs : List GRoute},
    gLoop ds ps = some rs → ∀ r, r ∈ rs ↔ ∃ pd ∈ ps, ∃ g, mkRoute pd g = some r ∧
      (if pd.servers = [] then g ∈ ds else ∃ l, gMakeServers (SrvRef.path pd.template) pd.servers = some l ∧ g ∈ l) := by
  intro ps
  induction ps with
  | nil => intro rs h r; simp [gLoop] at h; subst h; simp
  | cons p ps ih =>
    intro rs h r
    obtain ⟨use, a, b, hu, ha, hb, rfl⟩ := gLoop_cons h
    simp only [List.mem_append, List.mem_cons, exists_eq_or_imp, ← ih hb r, allSome_mem ha, List.mem_map]
    apply or_congr_left
    constructor
    · rintro ⟨g, hg, hm⟩
      refine ⟨g, hm, ?_⟩
      split at hu
      · simp only [Option.some.injEq] at hu
        subst hu
        rename_i he; simp [he, hg]
      · rename_i hne
        simp only [hne, if_false]
        exact ⟨use, hu, hg⟩
    · rintro ⟨g, hm, hg⟩
      refine ⟨g, ?_, hm⟩
      split at hu
      · simp only [Option.some.injEq] at hu
        subst hu
        rename_i he; simpa [he] using hg
      · rename_i hne
        simp only [hne, if_false] at hg
        obtain ⟨l, hl, hgl⟩ := hg
        rw [hu] at hl
        cases hl
        exact hgl

/-- a route list was built: the servers of every path item that declares some compiled -/
theorem gLoop_compiles {ds : List GSrv} : ∀ {ps : List PathDecl} {rs : List GRoute},
    gLoop ds ps = some rs → ∀ pd ∈ ps, pd.servers ≠ [] →
      ∃ l, gMakeServers (SrvRef.path pd.template) pd.servers = some l := by
  intro ps
  induction ps with
  | nil => intro rs _ pd hpd; simp at hpd
  | cons p ps ih =>
    intro rs h pd hpd hne
    obtain ⟨use, a, b, hu, ha, hb, rfl⟩ := gLoop_cons h
    simp only [List.mem_cons] at hpd
    rcases hpd with rfl | hpd
    · simp only [hne, if_false] at hu
      exact ⟨use, hu⟩
    · exact ih hb pd hpd hne

theorem gLoop_pairwise {ds : List GSrv} : ∀ {ps : List PathDecl} {rs : List GRoute},
    ps.Pairwise (fun a b => nvars a.template ≤ nvars b.template) → gLoop ds ps = some rs →
    rs.Pairwise (fun a b => nvars a.template ≤ nvars b.template) := by
  intro ps
  induction ps with
  | nil => intro rs _ h; simp [gLoop] at h; subst h; simp
  | cons p ps ih =>
    intro rs hp h
    obtain ⟨use, a, b, hu, ha, hb, rfl⟩ := gLoop_cons h
    rw [List.pairwise_cons] at hp
    have hat : ∀ r ∈ a, r.template = p.template := by
      intro r hr
      have := (allSome_mem ha).1 hr
      simp only [List.mem_map] at this
      obtain ⟨g, _, hm⟩ := this
      exact (mkRoute_some hm).1
    rw [List.pairwise_append]
    refine ⟨?_, ih hp.2 hb, ?_⟩
    · apply List.pairwise_of_forall_mem_list
      intro r1 h1 r2 h2
      rw [hat r1 h1, hat r2 h2]
      exact Nat.le_refl _
    · intro r1 h1 r2 h2
      obtain ⟨pd, hpd, g, hm, _⟩ := (gLoop_mem hb r2).1 h2
      rw [hat r1 h1, (mkRoute_some hm).1]
      exact hp.1 pd hpd

theorem pairwise_routes {d : Doc} {rs : List GRoute} (h : gorillaRoutes d = some rs) :
    rs.Pairwise (fun a b => nvars a.template ≤ nvars b.template) := by
  unfold gorillaRoutes at h
  split at h
  · simp at h
  · exact gLoop_pairwise (pairwise_inMatchingOrder d.paths) h

theorem gLoop_built {ds : List GSrv} : ∀ {ps : List PathDecl} {rs : List GRoute},
    gLoop ds ps = some rs → ∀ pd ∈ ps, ∀ g,
      (if pd.servers = [] then g ∈ ds else ∃ l, gMakeServers (SrvRef.path pd.template) pd.servers = some l ∧ g ∈ l) →
      ∃ r, mkRoute pd g = some r := by
  intro ps
  induction ps with
  | nil => intro rs _ pd hpd; simp at hpd
  | cons p ps ih =>
    intro rs h pd hpd g hg
    obtain ⟨use, a, b, hu, ha, hb, rfl⟩ := gLoop_cons h
    simp only [List.mem_cons] at hpd
    rcases hpd with rfl | hpd
    · have hgu : g ∈ use := by
        split at hu
        · rename_i he
          simp only [Option.some.injEq] at hu
          subst hu
          simpa [he] using hg
        · rename_i he
          simp only [he, if_false] at hg
          obtain ⟨l, hl, hgl⟩ := hg
          rw [hu] at hl
          cases hl
          exact hgl
      have e := allSome_eq ha
      have : mkRoute pd g ∈ a.map some := by rw [← e]; exact List.mem_map.2 ⟨g, hgu, rfl⟩
      simp only [List.mem_map] at this
      obtain ⟨r, _, hr⟩ := this
      exact ⟨r, hr.symm⟩
    · exact ih hb pd hpd g hg

/-- the route list is exactly (path item) × (servers that apply to it), all compiled -/
theorem routes_effective {d : Doc} {rs : List GRoute} (h : gorillaRoutes d = some rs) :
    (∀ r, r ∈ rs ↔ ∃ pd ∈ d.paths, ∃ g, EffSrv d pd g ∧ mkRoute pd g = some r) ∧
    (∀ pd ∈ d.paths, ∀ g, EffSrv d pd g → ∃ r, mkRoute pd g = some r) := by
  unfold gorillaRoutes at h
  split at h
  · simp at h
  · rename_i ds hds
    have conv : ∀ pd ∈ d.paths, ∀ g, EffSrv d pd g ↔
        (if pd.servers = [] then g ∈ ds else ∃ l, gMakeServers (SrvRef.path pd.template) pd.servers = some l ∧ g ∈ l) := by
      intro pd hpd g
      unfold EffSrv
      split
      · exact ⟨fun hg => gMakeServers_get hds hg, fun hg => gMakeServers_mem hds hg⟩
      · rename_i he
        constructor
        · intro hg
          obtain ⟨l, hl⟩ := gLoop_compiles h pd ((mem_inMatchingOrder _ _).2 hpd) he
          exact ⟨l, hl, gMakeServers_get hl hg⟩
        · rintro ⟨l, hl, hgl⟩
          exact gMakeServers_mem hl hgl
    refine ⟨?_, ?_⟩
    · intro r
      rw [gLoop_mem h r]
      constructor
      · rintro ⟨pd, hpd, g, hm, hg⟩
        have hpd' := (mem_inMatchingOrder _ _).1 hpd
        exact ⟨pd, hpd', g, (conv pd hpd' g).2 hg, hm⟩
      · rintro ⟨pd, hpd, g, hg, hm⟩
        exact ⟨pd, (mem_inMatchingOrder _ _).2 hpd, g, hm, (conv pd hpd g).1 hg⟩
    · intro pd hpd g hg
      exact gLoop_built h pd ((mem_inMatchingOrder _ _).2 hpd) g ((conv pd hpd g).1 hg)

/-- what it means that a compiled server `g` and a path template `t` reproduce the request with the extracted
    variables `b`: the request path is "base path of g + t" with non-empty slash-free values substituted, the request
    scheme is one of g's schemes, the request host is g's host template with non-empty dot-free values substituted -/
def Reproduces (g : GSrv) (t : Str) (req : Req) (b : List (Str × Str)) : Prop :=
  ∃ ptoks pb hb, gparseS (g.base ++ t) = some ptoks ∧ gsubst ptoks pb = some req.path ∧ (∀ p ∈ pb, GoodFor '/' p.2) ∧
    (g.schemes = [] ∨ req.scheme ∈ g.schemes) ∧
    ((g.host = [] ∧ hb = []) ∨
      ∃ htoks, gparseS g.host = some htoks ∧
        gsubst htoks hb = some (if ':' ∈ g.host then req.host else req.host.takeWhile (· ≠ ':')) ∧ ∀ p ∈ hb, GoodFor '.' p.2) ∧
    b = hb ++ pb

theorem gRouteMatch_reproduces {pd : PathDecl} {g : GSrv} {r : GRoute} (hmk : mkRoute pd g = some r) {req : Req}
    {b : List (Str × Str)} (hm : gRouteMatch r req = some b) : Reproduces g pd.template req b := by
  obtain ⟨_, _, e3, e4, e5⟩ := mkRoute_some hmk
  unfold gRouteMatch at hm
  split at hm
  · simp at hm
  · rename_i pb hpb
    obtain ⟨g1, g2⟩ := gmatch_sound '/' _ _ _ hpb
    split at hm
    · simp at hm
    · rename_i hsch
      have hs : g.schemes = [] ∨ req.scheme ∈ g.schemes := by
        have hok : schemeOK r req = true := by simpa using hsch
        simp only [schemeOK, e3, Bool.or_eq_true, decide_eq_true_eq] at hok
        rcases hok with hok | hok
        · exact Or.inl hok
        · exact Or.inr (by simpa using hok)
      split at hm
      · rename_i hh
        simp only [Option.some.injEq] at hm
        subst hm
        exact ⟨r.pathToks, pb, [], e4, g1, g2, hs, Or.inl ⟨by rw [← e3]; exact hh, rfl⟩, by simp⟩
      · split at hm
        · simp at hm
        · rename_i hbd hhb
          simp only [Option.some.injEq] at hm
          subst hm
          obtain ⟨k1, k2⟩ := gmatch_sound '.' _ _ _ hhb
          refine ⟨r.pathToks, pb, hbd, e4, g1, g2, hs, Or.inr ⟨r.hostToks, e5, ?_, k2⟩, rfl⟩
          simpa [hostFor, e3] using k1

end KinModel.Router
