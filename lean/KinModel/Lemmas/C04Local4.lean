import KinModel.Lemmas.C04Local3
namespace KinModel.DocValidate

/-- every example object under the node gives exactly one of `value` and `externalValue` -/
def examplesWF (d : Doc) : Bool := (exampleEntries d).all exampleShapeOK

/-- the hypothesis under which the code's reading of `examples` is the specification's: the example objects
the code visits (none when examples validation is off or no schema is given) are well-formed. It is not an
exclusion: in an accepted document, and in a conforming one, it holds at every node (C04Reach.lean). -/
def examplesWFor (o : Opts) (d : Doc) : Bool :=
  o.exDisabled || !d.attrs.flag "hasSchema" || !exampleKinds.contains d.kind || d.attrs.flag "hasExample" ||
  (d.kind == .header && d.attrs.flag "again") || examplesWF d

/-- without an `examples` field there is no example object to read -/
theorem examplesWF_of_noflag (d : Doc) (h : d.attrs.flag "hasExamples" = false) : examplesWF d = true := by
  simp [examplesWF, exampleEntries, h]

/-- on well-formed example objects the values the code reads are the values the examples give -/
theorem examplesVals_eq_given (d : Doc) (h : examplesWF d = true) : examplesVals d = examplesValsGiven d := by
  unfold examplesWF at h
  unfold examplesVals examplesValsGiven
  generalize exampleEntries d = l at h ⊢
  induction l with
  | nil => rfl
  | cons a as ih =>
    simp only [List.all_cons, Bool.and_eq_true] at h
    simp only [List.filterMap_cons]
    rw [ih h.2]
    have h1 := h.1
    unfold exampleShapeOK hasVal at h1
    cases hv : a.vals.lookup "value" with
    | none =>
      have : (a.str "externalValue" != "") = true := by simpa [hv] using h1
      simp [this]
    | some v =>
      have : (a.str "externalValue" != "") = false := by simpa [hv] using h1
      simp [this]

/-- the example rule of a parameter / media type / header under the options -/
def exampleClause (o : Opts) (d : Doc) : Bool := (exampleOK d && examplesGivenOK d) || o.exDisabled

theorem exampleValues_eq (T : Table) (o : Opts) (d : Doc)
    (h1 : hasCheck T o d.attrs d.kind "example" = !o.exDisabled)
    (h2 : hasCheck T o d.attrs d.kind "examples" = (!o.exDisabled && !(d.kind == .parameter && d.attrs.flag "hasExample")))

    (hboth : (d.attrs.flag "hasExample" && d.attrs.flag "hasExamples") = false)
    (hwf : o.exDisabled = true ∨ d.attrs.flag "hasExample" = true ∨ examplesWF d = true) :
    exampleValuesOK T o d = exampleClause o d := by
  unfold exampleValuesOK exampleClause
  rw [h1, h2]
  have hw : o.exDisabled = true ∨ examplesWF d = true := by
    rcases hwf with h | h | h
    · exact Or.inl h
    · refine Or.inr (examplesWF_of_noflag d ?_)
      simpa [h] using hboth
    · exact Or.inr h
  rcases hw with hd | hw
  · simp [hd]
  · have he : examplesOK d = examplesGivenOK d := by
      unfold examplesOK examplesGivenOK
      rw [examplesVals_eq_given d hw]
    rw [he]
    cases hx : d.attrs.flag "hasExample" with
    | false => cases o.exDisabled <;> simp
    | true =>
      -- the `examples` check of a parameter is skipped: there is no `examples` field then
      have hn : d.attrs.flag "hasExamples" = false := by simpa [hx] using hboth
      have : examplesGivenOK d = true := by simp [examplesGivenOK, examplesValsGiven, exampleEntries, hn]
      rw [this]
      cases o.exDisabled <;> cases (d.kind == Kind.parameter) <;> simp

theorem exampleChecks (T : Table) (o : Opts) (a : Attrs) (k : Kind) (hT : TableOK T = true) (hk : k ∈ exampleKinds)
    (hg : (k == .header && a.flag "again") = false) :
    hasCheck T o a k "example" = !o.exDisabled ∧
    hasCheck T o a k "examples" = (!o.exDisabled && !(k == .parameter && a.flag "hasExample")) := by
  have hf := (tableFacts T hT).ex k hk
  have h1 : hasCheck T o a k "example" = _ := anyHolds_as o a _ _ hf.1
  have h2 : hasCheck T o a k "examples" = _ := anyHolds_as o a _ _ hf.2.1
  simp only [hg, Bool.not_false, Bool.and_true] at h1 h2
  exact ⟨h1, h2⟩

theorem wf_split (o : Opts) (d : Doc) (hwf : examplesWFor o d = true) (hs : d.attrs.flag "hasSchema" = true)
    (hk : exampleKinds.contains d.kind = true) (hg : (d.kind == .header && d.attrs.flag "again") = false) :
    o.exDisabled = true ∨ d.attrs.flag "hasExample" = true ∨ examplesWF d = true := by
  unfold examplesWFor at hwf
  simp only [hs, hk, hg, Bool.not_true, Bool.or_false, Bool.or_eq_true] at hwf
  rcases hwf with (h | h) | h
  · exact Or.inl h
  · exact Or.inr (Or.inl h)
  · exact Or.inr (Or.inr h)

theorem localOK_parameter (T : Table) (o : Opts) (a : Attrs) (kids : List (String × Doc)) (vs : List Bool)
    (hT : TableOK T = true) (hwf : examplesWFor o (.node .parameter a kids) = true) :
    localOK T o (.node .parameter a kids) vs = rulesOK o (.node .parameter a kids) := by
  have hx := checkExt_eq T o (.node .parameter a kids) hT (by simp [extKinds, Doc.kind])
  obtain ⟨h1, h2⟩ := exampleChecks T o a .parameter hT (by simp [exampleKinds]) (by simp)
  simp (disch := decide) only [localOK, localOKp, rulesOK, violations, Doc.kind, Doc.attrs, parameterOKCode, exampleViols, List.all_append, all_when,
    extra_all, hx, enabled_plain]
  simp only [enabled]
  by_cases c1 : a.str "name" = ""
  · simp [c1]
  by_cases c2 : validIn (a.str "in") = true
  case neg => simp [c1, c2]
  by_cases c3 : (decide (a.str "in" = "path") && !a.flag "required") = true
  · have ⟨c3a, c3b⟩ : a.str "in" = "path" ∧ a.flag "required" = false := by simpa using c3
    simp [c1, c2, c3a, c3b]
  by_cases c4 : smSupported (a.str "in") (smOf a).fst (smOf a).snd = true
  case neg => simp [c1, c2, c3, c4]
  by_cases c5 : schemaXorContentBad a = true
  · simp [c1, c2, c3, c4, c5]
  by_cases c6 : a.num "content" > 1
  · simp [c1, c2, c3, c4, c5, c6]
  cases hs : a.flag "hasSchema" with
  | false => simp [c1, c2, c3, c4, c5, c6]
  | true =>
    by_cases c7 : (a.flag "hasExample" && a.flag "hasExamples") = true
    · have ⟨c7a, c7b⟩ : a.flag "hasExample" = true ∧ a.flag "hasExamples" = true := by simpa using c7
      simp [c1, c2, c3, c4, c5, c6, c7a, c7b]
    have c7' : (a.flag "hasExample" && a.flag "hasExamples") = false := by simpa using c7
    have hv := exampleValues_eq T o (.node .parameter a kids) h1 h2 c7'
      (wf_split o _ hwf hs (by simp [exampleKinds, Doc.kind]) (by simp [Doc.kind]))
    simp only [Doc.attrs, exampleClause] at hv
    rw [hv]
    simp [c1, c2, c3, c4, c5, c6, c7]
    generalize extKeysOK o a.exts = X
    generalize exampleOK _ = A
    generalize examplesGivenOK _ = C
    cases A <;> cases C <;> cases X <;> cases o.exDisabled <;> simp

end KinModel.DocValidate
