import KinModel.Lemmas.C04Local3
namespace KinModel.DocValidate

/-- the values the examples give are among the values the code reads -/
theorem examplesGivenOK_of_examplesOK (d : Doc) (h : examplesOK d = true) : examplesGivenOK d = true := by
  unfold examplesOK examplesVals at h
  unfold examplesGivenOK examplesValsGiven
  generalize d.kidsAt "examples" = l at h ⊢
  induction l with
  | nil => rfl
  | cons r rs ih =>
    simp only [List.map_cons, List.all_cons, Bool.and_eq_true] at h
    simp only [List.flatMap_cons, List.all_append, Bool.and_eq_true]
    refine ⟨?_, ih h.2⟩
    have h1 := h.1
    cases hr : r.kidsAt "value" with
    | nil => simp [hr]
    | cons e es =>
      simp only [hr] at h1
      cases hv : e.attrs.vals.lookup "value" with
      | none => simp [hr, hv]
      | some v => simpa [hr, hv] using h1

theorem exampleValues_eq (T : Table) (o : Opts) (d : Doc)
    (h1 : hasCheck T o d.kind "example" = !o.exDisabled) (h2 : hasCheck T o d.kind "examples" = !o.exDisabled)
    (hex : exclExternalNode o d = false) (hk : d.kind = .parameter ∨ d.kind = .mediaType) (hs : d.attrs.flag "hasSchema" = true) :
    exampleValuesOK T o d = (!(exampleOK d && examplesGivenOK d) |> fun b => (!b || !(!o.exDisabled))) := by
  unfold exampleValuesOK
  rw [h1, h2]
  have himp := examplesGivenOK_of_examplesOK d
  unfold exclExternalNode at hex
  have hk' : (d.kind = .parameter || d.kind = .mediaType) = true := by
    rcases hk with h | h <;> simp [h]
  rw [hk', hs] at hex
  revert himp hex
  generalize exampleOK d = A
  generalize examplesOK d = B
  generalize examplesGivenOK d = C
  cases A <;> cases B <;> cases C <;> cases o.exDisabled <;> simp

theorem localOK_parameter (T : Table) (o : Opts) (a : Attrs) (kids : List (String × Doc)) (hT : TableOK T = true)
    (hex : exclExternalNode o (.node .parameter a kids) = false) :
    localOK T o (.node .parameter a kids) = rulesOK o (.node .parameter a kids) := by
  have hx := checkExt_eq T o (.node .parameter a kids) hT (by simp [extKinds, Doc.kind])
  have hf := tableFacts T hT
  have h1 := hasCheck_single T o .parameter "example" _ hf.pExample
  have h2 := hasCheck_single T o .parameter "examples" _ hf.pExamples
  simp only [litHolds] at h1 h2
  simp (disch := decide) only [localOK, rulesOK, violations, Doc.kind, Doc.attrs, parameterOKCode, exampleViols, List.all_append, all_when,
    extra_all, hx, enabled_plain]
  simp only [enabled]
  by_cases c1 : a.str "name" = ""
  · simp [c1]
  by_cases c2 : validIn (a.str "in") = true
  case neg => simp [c1, c2]
  by_cases c3 : (decide (a.str "in" = "path") && !a.flag "required") = true
  · have ⟨c3a, c3b⟩ : a.str "in" = "path" ∧ a.flag "required" = false := by simpa using c3
    simp [c1, c2, c3a, c3b]
  by_cases c4 : smSupported (a.str "in") (smOf a).fst (smOf a).snd = true
  case neg => simp [c1, c2, c3, c4]
  by_cases c5 : schemaXorContentBad a = true
  · simp [c1, c2, c3, c4, c5]
  by_cases c6 : a.num "content" > 1
  · simp [c1, c2, c3, c4, c5, c6]
  cases hs : a.flag "hasSchema" with
  | false => simp [c1, c2, c3, c4, c5, c6]
  | true =>
    have hv := exampleValues_eq T o (.node .parameter a kids) h1 h2 hex (Or.inl rfl) hs
    simp only [Doc.attrs] at hv
    rw [hv]
    by_cases c7 : (a.flag "hasExample" && a.flag "hasExamples") = true
    · have ⟨c7a, c7b⟩ : a.flag "hasExample" = true ∧ a.flag "hasExamples" = true := by simpa using c7
      simp [c1, c2, c3, c4, c5, c6, c7a, c7b]
    simp [c1, c2, c3, c4, c5, c6, c7]
    generalize extKeysOK o a.exts = X
    generalize exampleOK _ = A
    generalize examplesGivenOK _ = C
    cases A <;> cases C <;> cases X <;> cases o.exDisabled <;> simp

end KinModel.DocValidate
