/-
Helper lemmas for C04: option lists (a left fold in which the last writer of a field wins) and the
process-wide pattern cache (a call that does not read it is independent of the calls before it).
-/
import KinModel.DocValidate
namespace KinModel.DocValidate

/-- a left fold whose step either overwrites an observed component with a value that depends on the element
only, or leaves it alone: the component ends up as the value of the last element that writes it -/
theorem foldl_last {σ γ β : Type} (step : σ → γ → σ) (g : σ → β) (w : γ → Option β)
    (h : ∀ s c, g (step s c) = (w c).getD (g s)) :
    ∀ (l : List γ) (s : σ), g (l.foldl step s) = (l.reverse.findSome? w).getD (g s)
  | [], s => rfl
  | c :: l, s => by
    rw [List.foldl_cons, foldl_last step g w h l (step s c), h, List.reverse_cons, List.findSome?_append]
    cases hl : l.reverse.findSome? w with
    | some v => simp
    | none => cases hc : w c <;> simp [List.findSome?, hc]

/-- what a table row writes into a boolean field: `some b` if it is a row for that field -/
def writesFlag (F : String) (field value : String) : Option Bool :=
  if field = F then (if value = "true" then some true else if value = "false" then some false else none) else none

theorem setField_ex (o : Opts) (f v : String) (args : List String) :
    (setField o f v args).exDisabled = (writesFlag "examplesValidationDisabled" f v).getD o.exDisabled := by
  unfold setField writesFlag; split <;> simp_all
theorem setField_def (o : Opts) (f v : String) (args : List String) :
    (setField o f v args).defDisabled = (writesFlag "schemaDefaultsValidationDisabled" f v).getD o.defDisabled := by
  unfold setField writesFlag; split <;> simp_all
theorem setField_fmt (o : Opts) (f v : String) (args : List String) :
    (setField o f v args).fmtEnabled = (writesFlag "schemaFormatValidationEnabled" f v).getD o.fmtEnabled := by
  unfold setField writesFlag; split <;> simp_all
theorem setField_pat (o : Opts) (f v : String) (args : List String) :
    (setField o f v args).patDisabled = (writesFlag "schemaPatternValidationDisabled" f v).getD o.patDisabled := by
  unfold setField writesFlag; split <;> simp_all
theorem setField_ext (o : Opts) (f v : String) (args : List String) :
    (setField o f v args).extProhibited = (writesFlag "schemaExtensionsInRefProhibited" f v).getD o.extProhibited := by
  unfold setField writesFlag; split <;> simp_all

/-- what an element of an option list writes into the flag `F`, according to the table -/
def callWrites (rows : List Gen.OptionCtorRow) (F : String) (c : OptCall) : Option Bool :=
  (rows.find? (fun r => r.name = c.1)).bind (fun r => writesFlag F r.field r.value)

theorem stepWith_flag (rows : List Gen.OptionCtorRow) (g : Opts → Bool) (F : String)
    (hg : ∀ o f v args, g (setField o f v args) = (writesFlag F f v).getD (g o)) (o : Opts) (c : OptCall) :
    g (stepWith rows o c) = (callWrites rows F c).getD (g o) := by
  unfold stepWith callWrites
  cases rows.find? (fun r => r.name = c.1) with
  | none => rfl
  | some r => simp [hg]

/-- the pattern check does not see the cache when the table says document validation never reads it -/
theorem patCompiles_cache (T : Table) (h : T.cacheRead = false) (cache : List String) (o : Opts) :
    patCompiles T cache o = patCompiles T [] o := by
  funext p; simp [patCompiles, h]

theorem validateIn_eq (T : Table) (h : T.cacheRead = false) (cache : List String) (o : Opts) (d : Doc) :
    validateIn T cache o d = validate T o d := by
  unfold validateIn validate localOK
  rw [patCompiles_cache T h]

theorem runSeq_eq (T : Table) (h : T.cacheRead = false) :
    ∀ (calls : List (Opts × Doc)) (cache : List String), runSeq T calls cache = calls.map (fun c => validate T c.1 c.2)
  | [], _ => rfl
  | (o, d) :: r, cache => by
    simp only [runSeq, List.map_cons, validateIn_eq T h, runSeq_eq T h r]

end KinModel.DocValidate
