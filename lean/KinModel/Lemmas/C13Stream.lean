/- Helper lemmas for the body-stream part of C13 (invariants carried through the three restore sites). -/
import KinModel.C13Stream
namespace KinModel.C13.Stream

theorem restore_body (r : Req) (data : Bytes) (h : GetOK r data) : (restore r data).body = some data := by
  unfold restore
  cases hg : r.getBody with
  | ok b => simp [h b hg]
  | none => simp
  | fails => simp

theorem restore_getOK (r : Req) (data : Bytes) (h : GetOK r data) : GetOK (restore r data) data := by
  unfold restore GetOK at *
  cases hg : r.getBody with
  | ok b => simpa [hg] using h
  | none => simp
  | fails => simp

theorem restore_cl (r : Req) (data : Bytes) (h : r.contentLength = data.length) :
    (restore r data).contentLength = data.length := by
  unfold restore
  cases hg : r.getBody <;> simp [h]

theorem drain_getOK (r : Req) (data : Bytes) (h : GetOK r data) : GetOK (drain r) data := by
  simpa [drain, GetOK] using h

theorem runAuth_getOK (r : Req) (a : Auth) (data : Bytes) (h : GetOK r data) : GetOK (runAuth r a) data := by
  unfold runAuth; split
  · exact drain_getOK r data h
  · exact h

theorem runAuth_cl (r : Req) (a : Auth) : (runAuth r a).contentLength = r.contentLength := by
  unfold runAuth drain; split <;> rfl

theorem runAuth_body_none (r : Req) (a : Auth) (h : r.body = none) : runAuth r a = r := by
  unfold runAuth drain; split
  · cases r; simp_all
  · rfl

/-- invariant of the scheme loop: GetBody stays right, ContentLength stays right, every callback saw everything -/
theorem schemeLoop_inv (data : Bytes) : ∀ (l : List Scheme) (r : Req), GetOK r data →
    GetOK (schemeLoop data r l).1 data ∧
    (r.contentLength = data.length → (schemeLoop data r l).1.contentLength = data.length) ∧
    (∀ x ∈ (schemeLoop data r l).2.2, x = data)
  | [], r, hg => by simp [schemeLoop, hg]
  | s :: rest, r, hg => by
    unfold schemeLoop
    cases hd : s.declared with
    | false => simp [hg]
    | true =>
      have h1 : GetOK (restore r data) data := restore_getOK r data hg
      have h2 : GetOK (runAuth (restore r data) s.auth) data := runAuth_getOK _ _ _ h1
      have hr : readAll (restore r data) = data := by simp [readAll, restore_body r data hg]
      cases ha : s.auth.ok with
      | false =>
        simp only [Bool.not_true, Bool.false_eq_true, if_false, hr]
        refine ⟨h2, ?_, by simp⟩
        intro hc; rw [runAuth_cl]; exact restore_cl r data hc
      | true =>
        simp only [Bool.not_true, Bool.false_eq_true, if_false, if_true, hr]
        obtain ⟨i1, i2, i3⟩ := schemeLoop_inv data rest _ h2
        refine ⟨i1, ?_, ?_⟩
        · intro hc; apply i2; rw [runAuth_cl]; exact restore_cl r data hc
        · intro x hx
          simp only [List.mem_cons] at hx
          rcases hx with rfl | hx
          · rfl
          · exact i3 x hx

theorem schemeLoopNoBody_id : ∀ (l : List Scheme) (r : Req), r.body = none → (schemeLoopNoBody r l).1 = r
  | [], r, _ => by simp [schemeLoopNoBody]
  | s :: rest, r, h => by
    unfold schemeLoopNoBody
    cases hd : s.declared with
    | false => simp
    | true =>
      cases ha : s.auth.ok with
      | false => simp [runAuth_body_none r s.auth h]
      | true =>
        simp only [Bool.not_true, Bool.false_eq_true, if_false, if_true, runAuth_body_none r s.auth h]
        exact schemeLoopNoBody_id rest r h

theorem secReq_coherent (f : Bool) (r : Req) (l : List Scheme) (data : Bytes) (h : Coherent r data) :
    Coherent (secReq f r l).1 data ∧
    (r.contentLength = data.length → (secReq f r l).1.contentLength = data.length) ∧
    (∀ x ∈ (secReq f r l).2.2, x = data) := by
  obtain ⟨hb, hg⟩ := h
  unfold secReq
  cases f with
  | false => simp [Coherent, hb, hg]
  | true =>
    simp only [Bool.not_true, Bool.false_eq_true, if_false, hb]
    obtain ⟨i1, i2, i3⟩ := schemeLoop_inv data l (drain r) (drain_getOK r data hg)
    refine ⟨⟨restore_body _ data i1, restore_getOK _ data i1⟩, ?_, i3⟩
    intro hc
    exact restore_cl _ data (i2 (by simpa [drain] using hc))

theorem secReqs_coherent (f : Bool) (data : Bytes) : ∀ (qs : List (List Scheme)) (r : Req), Coherent r data →
    Coherent (secReqs f r qs).1 data ∧
    (r.contentLength = data.length → (secReqs f r qs).1.contentLength = data.length) ∧
    (∀ x ∈ (secReqs f r qs).2.2, x = data)
  | [], r, h => by simp [secReqs, h]
  | q :: rest, r, h => by
    unfold secReqs
    obtain ⟨i1, i2, i3⟩ := secReq_coherent f r q data h
    cases hb : (secReq f r q).2.1 with
    | true => simp only [hb, ↓reduceIte]; exact ⟨i1, i2, i3⟩
    | false =>
      simp only [hb, Bool.false_eq_true, ↓reduceIte]
      obtain ⟨j1, j2, j3⟩ := secReqs_coherent f data rest _ i1
      refine ⟨j1, fun hc => j2 (i2 hc), ?_⟩
      intro x hx
      simp only [List.mem_append] at hx
      rcases hx with hx | hx
      · exact i3 x hx
      · exact j3 x hx

theorem secPhase_coherent (f : Bool) (r : Req) (qs : List (List Scheme)) (data : Bytes) (h : Coherent r data) :
    Coherent (secPhase f r qs).1 data ∧
    (r.contentLength = data.length → (secPhase f r qs).1.contentLength = data.length) ∧
    (∀ x ∈ (secPhase f r qs).2.2, x = data) := by
  unfold secPhase
  cases qs with
  | nil => simp [h]
  | cons q rest => exact secReqs_coherent f data (q :: rest) r h

theorem secReq_nobody (f : Bool) (r : Req) (l : List Scheme) (h : r.body = none) : (secReq f r l).1 = r := by
  unfold secReq
  cases f with
  | false => simp
  | true => simp only [Bool.not_true, Bool.false_eq_true, if_false, h]; exact schemeLoopNoBody_id l r h

theorem secReqs_nobody (f : Bool) : ∀ (qs : List (List Scheme)) (r : Req), r.body = none → (secReqs f r qs).1 = r
  | [], r, _ => by simp [secReqs]
  | q :: rest, r, h => by
    unfold secReqs
    cases hb : (secReq f r q).2.1 with
    | true => simp only [hb, ↓reduceIte]; exact secReq_nobody f r q h
    | false =>
      simp only [hb, Bool.false_eq_true, ↓reduceIte]
      rw [secReq_nobody f r q h]; exact secReqs_nobody f rest r h

theorem secPhase_nobody (f : Bool) (r : Req) (qs : List (List Scheme)) (h : r.body = none) :
    (secPhase f r qs).1 = r := by
  unfold secPhase
  cases qs with
  | nil => rfl
  | cons q rest => exact secReqs_nobody f (q :: rest) r h

/-- the bytes the next handler is entitled to after the body phase -/
def bodyExpected (outcome : Bytes → BodyOutcome) (data : Bytes) : Bytes :=
  match data with
  | [] => []
  | _ => match outcome data with | .rewrite nd => nd | _ => data

theorem bodyPhase_readable (req : Bool) (outcome : Bytes → BodyOutcome) (r : Req) (data : Bytes)
    (h : Coherent r data) :
    (bodyPhase req outcome r).1.body = some (bodyExpected outcome data) ∧
    GetOK (bodyPhase req outcome r).1 (bodyExpected outcome data) ∧
    (r.contentLength = data.length →
      (bodyPhase req outcome r).1.contentLength = (bodyExpected outcome data).length) := by
  obtain ⟨hb, hg⟩ := h
  have hg' := drain_getOK r data hg
  have c1 : Coherent (restore (drain r) data) data := ⟨restore_body _ data hg', restore_getOK _ data hg'⟩
  have c2 : r.contentLength = data.length → (restore (drain r) data).contentLength = data.length :=
    fun hc => restore_cl _ data (by simpa [drain] using hc)
  unfold bodyPhase bodyExpected
  simp only [hb]
  cases data with
  | nil => exact ⟨c1.1, c1.2, c2⟩
  | cons x xs =>
    simp only
    cases ho : outcome (x :: xs) with
    | reject => exact ⟨c1.1, c1.2, c2⟩
    | accept => exact ⟨c1.1, c1.2, c2⟩
    | rewrite nd => simp [GetOK]
    | rewriteFails => exact ⟨c1.1, c1.2, c2⟩

/-- The bytes the next handler is entitled to after the whole validation: the original ones, or the re-encoded
body when the body phase ran and set defaults. -/
def expectedAfter (c : Cfg) (outcome : Bytes → BodyOutcome) (r : Req) (data : Bytes) : Bytes :=
  if (!(secPhase c.hasAuthFunc r c.reqs).2.1 && !c.multi) || (!c.paramsOK && !c.multi) || !c.hasBodySpec then data
  else bodyExpected outcome data

theorem validateStream_coherent (c : Cfg) (outcome : Bytes → BodyOutcome) (r : Req) (data : Bytes)
    (h : Coherent r data) :
    (validateStream c outcome r).1.body = some (expectedAfter c outcome r data) ∧
    GetOK (validateStream c outcome r).1 (expectedAfter c outcome r data) ∧
    (r.contentLength = data.length →
      (validateStream c outcome r).1.contentLength = (expectedAfter c outcome r data).length) := by
  obtain ⟨hc, hl, _⟩ := secPhase_coherent c.hasAuthFunc r c.reqs data h
  unfold validateStream expectedAfter
  cases h1 : (!(secPhase c.hasAuthFunc r c.reqs).2.1 && !c.multi) with
  | true => simp only [h1, Bool.true_or, ↓reduceIte]; exact ⟨hc.1, hc.2, hl⟩
  | false =>
    cases h2 : (!c.paramsOK && !c.multi) with
    | true => simp only [h1, h2, Bool.false_eq_true, Bool.true_or, Bool.or_true, ↓reduceIte]; exact ⟨hc.1, hc.2, hl⟩
    | false =>
      cases h3 : c.hasBodySpec with
      | false => simp only [h1, h2, h3, Bool.false_eq_true, Bool.not_false, Bool.or_true, ↓reduceIte]; exact ⟨hc.1, hc.2, hl⟩
      | true =>
        simp only [h1, h2, h3, Bool.false_eq_true, Bool.not_true, Bool.or_false, ↓reduceIte]
        obtain ⟨b1, b2, b3⟩ := bodyPhase_readable c.required outcome _ data hc
        exact ⟨b1, b2, fun hcl => b3 (hl hcl)⟩


end KinModel.C13.Stream
