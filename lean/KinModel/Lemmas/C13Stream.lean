/- Helper lemmas for the body-stream part of C13 (invariants carried through the three restore sites). -/
import KinModel.C13Stream
namespace KinModel.C13.Stream

theorem restore_body (r : Req) (data : Bytes) (h : GetOK r data) : (restore r data).body = some data := by
  unfold restore
  cases hg : r.getBody with
  | ok b => simp [h b hg]
  | none => simp
  | fails => simp

theorem restore_getOK (r : Req) (data : Bytes) (h : GetOK r data) : GetOK (restore r data) data := by
  unfold restore GetOK at *
  cases hg : r.getBody with
  | ok b => simpa [hg] using h
  | none => simp
  | fails => simp

theorem restore_cl (r : Req) (data : Bytes) (h : r.contentLength = data.length) :
    (restore r data).contentLength = data.length := by
  unfold restore
  cases hg : r.getBody <;> simp [h]

theorem drain_getOK (r : Req) (data : Bytes) (h : GetOK r data) : GetOK (drain r) data := by
  simpa [drain, GetOK] using h

theorem runAuth_getOK (r : Req) (a : Auth) (data : Bytes) (h : GetOK r data) : GetOK (runAuth r a) data := by
  unfold runAuth; split
  · exact drain_getOK r data h
  · exact h

theorem runAuth_cl (r : Req) (a : Auth) : (runAuth r a).contentLength = r.contentLength := by
  unfold runAuth drain; split <;> rfl

theorem runAuth_body_none (r : Req) (a : Auth) (h : r.body = none) : runAuth r a = r := by
  unfold runAuth drain; split
  · cases r; simp_all
  · rfl

/-- invariant of the scheme loop: GetBody stays right, ContentLength stays right, every callback saw everything -/
theorem schemeLoop_inv (data : Bytes) : ∀ (l : List Scheme) (r : Req), GetOK r data →
    GetOK (schemeLoop data r l).1 data ∧
    (r.contentLength = data.length → (schemeLoop data r l).1.contentLength = data.length) ∧
    (∀ x ∈ (schemeLoop data r l).2.2, x = data)
  | [], r, hg => by simp [schemeLoop, hg]
  | s :: rest, r, hg => by
    unfold schemeLoop
    cases hd : s.declared with
    | false => simp [hg]
    | true =>
      have h1 : GetOK (restore r data) data := restore_getOK r data hg
      have h2 : GetOK (runAuth (restore r data) s.auth) data := runAuth_getOK _ _ _ h1
      have hr : readAll (restore r data) = data := by simp [readAll, restore_body r data hg]
      cases ha : s.auth.ok with
      | false =>
        simp only [Bool.not_true, Bool.false_eq_true, if_false, hr]
        refine ⟨h2, ?_, by simp⟩
        intro hc; rw [runAuth_cl]; exact restore_cl r data hc
      | true =>
        simp only [Bool.not_true, Bool.false_eq_true, if_false, if_true, hr]
        obtain ⟨i1, i2, i3⟩ := schemeLoop_inv data rest _ h2
        refine ⟨i1, ?_, ?_⟩
        · intro hc; apply i2; rw [runAuth_cl]; exact restore_cl r data hc
        · intro x hx
          simp only [List.mem_cons] at hx
          rcases hx with rfl | hx
          · rfl
          · exact i3 x hx

theorem schemeLoopNoBody_id : ∀ (l : List Scheme) (r : Req), r.body = none → (schemeLoopNoBody r l).1 = r
  | [], r, _ => by simp [schemeLoopNoBody]
  | s :: rest, r, h => by
    unfold schemeLoopNoBody
    cases hd : s.declared with
    | false => simp
    | true =>
      cases ha : s.auth.ok with
      | false => simp [runAuth_body_none r s.auth h]
      | true =>
        simp only [Bool.not_true, Bool.false_eq_true, if_false, if_true, runAuth_body_none r s.auth h]
        exact schemeLoopNoBody_id rest r h

theorem secReqNE_coherent (f : Bool) (r : Req) (l : List Scheme) (data : Bytes) (h : Coherent r data) :
    Coherent (secReqNE f r l).1 data ∧
    (r.contentLength = data.length → (secReqNE f r l).1.contentLength = data.length) ∧
    (∀ x ∈ (secReqNE f r l).2.2, x = data) := by
  obtain ⟨hb, hg⟩ := h
  unfold secReqNE
  cases f with
  | false => simp [Coherent, hb, hg]
  | true =>
    simp only [Bool.not_true, Bool.false_eq_true, if_false, hb]
    obtain ⟨i1, i2, i3⟩ := schemeLoop_inv data l (drain r) (drain_getOK r data hg)
    refine ⟨⟨restore_body _ data i1, restore_getOK _ data i1⟩, ?_, i3⟩
    intro hc
    exact restore_cl _ data (i2 (by simpa [drain] using hc))

theorem secReq_coherent (f : Bool) (r : Req) (l : List Scheme) (data : Bytes) (h : Coherent r data) :
    Coherent (secReq f r l).1 data ∧
    (r.contentLength = data.length → (secReq f r l).1.contentLength = data.length) ∧
    (∀ x ∈ (secReq f r l).2.2, x = data) := by
  unfold secReq
  split
  · exact ⟨h, fun hc => hc, by simp⟩
  · exact secReqNE_coherent f r l data h

theorem secReqs_coherent (f : Bool) (data : Bytes) : ∀ (qs : List (List Scheme)) (r : Req), Coherent r data →
    Coherent (secReqs f r qs).1 data ∧
    (r.contentLength = data.length → (secReqs f r qs).1.contentLength = data.length) ∧
    (∀ x ∈ (secReqs f r qs).2.2, x = data)
  | [], r, h => by simp [secReqs, h]
  | q :: rest, r, h => by
    unfold secReqs
    obtain ⟨i1, i2, i3⟩ := secReq_coherent f r q data h
    cases hb : (secReq f r q).2.1 with
    | true => simp only [hb, ↓reduceIte]; exact ⟨i1, i2, i3⟩
    | false =>
      simp only [hb, Bool.false_eq_true, ↓reduceIte]
      obtain ⟨j1, j2, j3⟩ := secReqs_coherent f data rest _ i1
      refine ⟨j1, fun hc => j2 (i2 hc), ?_⟩
      intro x hx
      simp only [List.mem_append] at hx
      rcases hx with hx | hx
      · exact i3 x hx
      · exact j3 x hx

theorem secPhase_coherent (f : Bool) (r : Req) (qs : List (List Scheme)) (data : Bytes) (h : Coherent r data) :
    Coherent (secPhase f r qs).1 data ∧
    (r.contentLength = data.length → (secPhase f r qs).1.contentLength = data.length) ∧
    (∀ x ∈ (secPhase f r qs).2.2, x = data) := by
  unfold secPhase
  cases qs with
  | nil => simp [h]
  | cons q rest => exact secReqs_coherent f data (q :: rest) r h

theorem secReqNE_nobody (f : Bool) (r : Req) (l : List Scheme) (h : r.body = none) : (secReqNE f r l).1 = r := by
  unfold secReqNE
  cases f with
  | false => simp
  | true => simp only [Bool.not_true, Bool.false_eq_true, if_false, h]; exact schemeLoopNoBody_id l r h

theorem secReq_nobody (f : Bool) (r : Req) (l : List Scheme) (h : r.body = none) : (secReq f r l).1 = r := by
  unfold secReq
  split
  · rfl
  · exact secReqNE_nobody f r l h

theorem secReqs_nobody (f : Bool) : ∀ (qs : List (List Scheme)) (r : Req), r.body = none → (secReqs f r qs).1 = r
  | [], r, _ => by simp [secReqs]
  | q :: rest, r, h => by
    unfold secReqs
    cases hb : (secReq f r q).2.1 with
    | true => simp only [hb, ↓reduceIte]; exact secReq_nobody f r q h
    | false =>
      simp only [hb, Bool.false_eq_true, ↓reduceIte]
      rw [secReq_nobody f r q h]; exact secReqs_nobody f rest r h

theorem secPhase_nobody (f : Bool) (r : Req) (qs : List (List Scheme)) (h : r.body = none) :
    (secPhase f r qs).1 = r := by
  unfold secPhase
  cases qs with
  | nil => rfl
  | cons q rest => exact secReqs_nobody f (q :: rest) r h

/-- the bytes the next handler is entitled to after the body phase -/
def bodyExpected (outcome : Bytes → BodyOutcome) (data : Bytes) : Bytes :=
  match data with
  | [] => []
  | _ => match outcome data with | .rewrite nd => nd | _ => data

theorem bodyPhase_readable (req : Bool) (outcome : Bytes → BodyOutcome) (r : Req) (data : Bytes)
    (h : Coherent r data) :
    (bodyPhase req outcome r).1.body = some (bodyExpected outcome data) ∧
    GetOK (bodyPhase req outcome r).1 (bodyExpected outcome data) ∧
    (r.contentLength = data.length →
      (bodyPhase req outcome r).1.contentLength = (bodyExpected outcome data).length) := by
  obtain ⟨hb, hg⟩ := h
  have hg' := drain_getOK r data hg
  have c1 : Coherent (restore (drain r) data) data := ⟨restore_body _ data hg', restore_getOK _ data hg'⟩
  have c2 : r.contentLength = data.length → (restore (drain r) data).contentLength = data.length :=
    fun hc => restore_cl _ data (by simpa [drain] using hc)
  unfold bodyPhase bodyExpected
  simp only [hb]
  cases data with
  | nil => exact ⟨c1.1, c1.2, c2⟩
  | cons x xs =>
    simp only
    cases ho : outcome (x :: xs) with
    | reject => exact ⟨c1.1, c1.2, c2⟩
    | accept => exact ⟨c1.1, c1.2, c2⟩
    | rewrite nd => simp [GetOK]
    | rewriteFails => exact ⟨c1.1, c1.2, c2⟩

/-- The bytes the next handler is entitled to after the whole validation: the original ones, or the re-encoded
body when the body phase ran and set defaults. -/
def expectedAfter (c : Cfg) (outcome : Bytes → BodyOutcome) (r : Req) (data : Bytes) : Bytes :=
  if (!(secPhase c.hasAuthFunc r c.reqs).2.1 && !c.multi) || (!c.paramsOK && !c.multi) || !c.hasBodySpec then data
  else bodyExpected outcome data

theorem validateStream_coherent (c : Cfg) (outcome : Bytes → BodyOutcome) (r : Req) (data : Bytes)
    (h : Coherent r data) :
    (validateStream c outcome r).1.body = some (expectedAfter c outcome r data) ∧
    GetOK (validateStream c outcome r).1 (expectedAfter c outcome r data) ∧
    (r.contentLength = data.length →
      (validateStream c outcome r).1.contentLength = (expectedAfter c outcome r data).length) := by
  obtain ⟨hc, hl, _⟩ := secPhase_coherent c.hasAuthFunc r c.reqs data h
  unfold validateStream expectedAfter
  cases h1 : (!(secPhase c.hasAuthFunc r c.reqs).2.1 && !c.multi) with
  | true => simp only [h1, Bool.true_or, ↓reduceIte]; exact ⟨hc.1, hc.2, hl⟩
  | false =>
    cases h2 : (!c.paramsOK && !c.multi) with
    | true => simp only [h1, h2, Bool.false_eq_true, Bool.true_or, Bool.or_true, ↓reduceIte]; exact ⟨hc.1, hc.2, hl⟩
    | false =>
      cases h3 : c.hasBodySpec with
      | false => simp only [h1, h2, h3, Bool.false_eq_true, Bool.not_false, Bool.or_true, ↓reduceIte]; exact ⟨hc.1, hc.2, hl⟩
      | true =>
        simp only [h1, h2, h3, Bool.false_eq_true, Bool.not_true, Bool.or_false, ↓reduceIte]
        obtain ⟨b1, b2, b3⟩ := bodyPhase_readable c.required outcome _ data hc
        exact ⟨b1, b2, fun hcl => b3 (hl hcl)⟩


/-! ### a second validation of the stream changes nothing -/

/-- the form validation leaves a request in once it has read its body: GetBody rewinds to what Body holds -/
def Settled (r : Req) (e : Bytes) : Prop := r.body = some e ∧ r.getBody = .ok e

theorem settled_coherent (r : Req) (e : Bytes) (h : Settled r e) : Coherent r e :=
  ⟨h.1, fun b hb => by rw [h.2] at hb; cases hb; rfl⟩

theorem restore_settled (r : Req) (e : Bytes) (h : Settled r e) : restore (drain r) e = r := by
  obtain ⟨h1, h2⟩ := h
  cases r
  simp_all [restore, drain]

/-- the verdict of a requirement depends on its schemes only -/
def verdictOf : List Scheme → Bool
  | [] => true
  | s :: rest => s.declared && s.auth.ok && verdictOf rest

theorem schemeLoop_verdict (data : Bytes) : ∀ (l : List Scheme) (r : Req), (schemeLoop data r l).2.1 = verdictOf l
  | [], r => rfl
  | s :: rest, r => by
    unfold schemeLoop verdictOf
    cases hd : s.declared <;> cases ha : s.auth.ok <;> simp [schemeLoop_verdict data rest]

theorem schemeLoopNoBody_verdict : ∀ (l : List Scheme) (r : Req), (schemeLoopNoBody r l).2.1 = verdictOf l
  | [], r => rfl
  | s :: rest, r => by
    unfold schemeLoopNoBody verdictOf
    cases hd : s.declared <;> cases ha : s.auth.ok <;> simp [schemeLoopNoBody_verdict rest]

theorem secReqNE_verdict (f : Bool) (r : Req) (l : List Scheme) : (secReqNE f r l).2.1 = (f && verdictOf l) := by
  unfold secReqNE
  cases f with
  | false => rfl
  | true =>
    cases hb : r.body with
    | none => simp [schemeLoopNoBody_verdict]
    | some d => simp [schemeLoop_verdict]

theorem secReq_verdict (f : Bool) (r : Req) (l : List Scheme) : (secReq f r l).2.1 = (l.isEmpty || (f && verdictOf l)) := by
  unfold secReq
  split
  · rename_i h; simp [h]
  · rename_i h; simp [h, secReqNE_verdict]

/-- with a working GetBody the scheme loop changes nothing but (possibly) the read position -/
theorem schemeLoop_fields (data e : Bytes) : ∀ (l : List Scheme) (r : Req), r.getBody = .ok e →
    (schemeLoop data r l).1.getBody = .ok e ∧ (schemeLoop data r l).1.contentLength = r.contentLength
  | [], r, h => ⟨h, rfl⟩
  | s :: rest, r, h => by
    have hr : restore r data = { r with body := some e } := by unfold restore; rw [h]
    have hg : (runAuth (restore r data) s.auth).getBody = .ok e := by
      rw [hr]; unfold runAuth drain; split <;> exact h
    have hc : (runAuth (restore r data) s.auth).contentLength = r.contentLength := by
      rw [runAuth_cl, hr]
    unfold schemeLoop
    cases hd : s.declared with
    | false => exact ⟨h, rfl⟩
    | true =>
      cases ha : s.auth.ok with
      | false => exact ⟨hg, hc⟩
      | true =>
        simp only [Bool.not_true, Bool.false_eq_true, if_false, if_true]
        obtain ⟨i1, i2⟩ := schemeLoop_fields data e rest _ hg
        exact ⟨i1, i2.trans hc⟩

theorem secReqNE_settled (f : Bool) (r : Req) (l : List Scheme) (e : Bytes) (h : Settled r e) : (secReqNE f r l).1 = r := by
  unfold secReqNE
  cases f with
  | false => rfl
  | true =>
    simp only [Bool.not_true, Bool.false_eq_true, if_false, h.1]
    obtain ⟨i1, i2⟩ := schemeLoop_fields e e l (drain r) (by simpa [drain] using h.2)
    obtain ⟨h1, h2⟩ := h
    have : restore (schemeLoop e (drain r) l).1 e =
        { body := some e, getBody := .ok e, contentLength := (drain r).contentLength } := by
      unfold restore; rw [i1, i2]
    rw [this]
    cases r
    simp_all [drain]

theorem secReq_settled (f : Bool) (r : Req) (l : List Scheme) (e : Bytes) (h : Settled r e) : (secReq f r l).1 = r := by
  unfold secReq
  split
  · rfl
  · exact secReqNE_settled f r l e h

theorem secReqs_settled (f : Bool) (e : Bytes) : ∀ (qs : List (List Scheme)) (r : Req), Settled r e → (secReqs f r qs).1 = r
  | [], r, _ => rfl
  | q :: rest, r, h => by
    unfold secReqs
    cases hb : (secReq f r q).2.1 with
    | true => simp only [hb, ↓reduceIte]; exact secReq_settled f r q e h
    | false =>
      simp only [hb, Bool.false_eq_true, ↓reduceIte]
      rw [secReq_settled f r q e h]; exact secReqs_settled f e rest r h

theorem secPhase_settled (f : Bool) (r : Req) (qs : List (List Scheme)) (e : Bytes) (h : Settled r e) :
    (secPhase f r qs).1 = r := by
  unfold secPhase
  cases qs with
  | nil => rfl
  | cons q rest => exact secReqs_settled f e (q :: rest) r h

theorem secReqs_verdict (f : Bool) : ∀ (qs : List (List Scheme)) (r r' : Req), (secReqs f r qs).2.1 = (secReqs f r' qs).2.1
  | [], _, _ => rfl
  | q :: rest, r, r' => by
    unfold secReqs
    have e1 := secReq_verdict f r q
    have e2 := secReq_verdict f r' q
    cases hv : (q.isEmpty || (f && verdictOf q)) with
    | true => rw [hv] at e1 e2; simp [e1, e2]
    | false =>
      rw [hv] at e1 e2
      simp only [e1, e2, Bool.false_eq_true, ↓reduceIte]
      exact secReqs_verdict f rest _ _

/-- the verdict of the security phase does not depend on the request's stream state -/
theorem secPhase_verdict (f : Bool) (qs : List (List Scheme)) (r r' : Req) : (secPhase f r qs).2.1 = (secPhase f r' qs).2.1 := by
  unfold secPhase
  cases qs with
  | nil => rfl
  | cons q rest => exact secReqs_verdict f (q :: rest) r r'

/-- after a requirement that reads the body the request is settled; one that does not read leaves it alone -/
theorem secReqNE_result (f : Bool) (r : Req) (l : List Scheme) (data : Bytes) (h : Coherent r data) :
    (secReqNE f r l).1 = r ∨ Settled (secReqNE f r l).1 data := by
  obtain ⟨hb, hg⟩ := h
  unfold secReqNE
  cases f with
  | false => exact Or.inl rfl
  | true =>
    right
    simp only [Bool.not_true, Bool.false_eq_true, if_false, hb]
    obtain ⟨i1, _, _⟩ := schemeLoop_inv data l (drain r) (drain_getOK r data hg)
    refine ⟨restore_body _ data i1, ?_⟩
    unfold restore
    cases hgb : (schemeLoop data (drain r) l).1.getBody with
    | ok b => simp only; rw [i1 b hgb]
    | none => rfl
    | fails => rfl

theorem secReq_result (f : Bool) (r : Req) (l : List Scheme) (data : Bytes) (h : Coherent r data) :
    (secReq f r l).1 = r ∨ Settled (secReq f r l).1 data := by
  unfold secReq
  split
  · exact Or.inl rfl
  · exact secReqNE_result f r l data h

theorem secReqs_result (f : Bool) (data : Bytes) : ∀ (qs : List (List Scheme)) (r : Req), Coherent r data →
    (secReqs f r qs).1 = r ∨ Settled (secReqs f r qs).1 data
  | [], r, _ => Or.inl rfl
  | q :: rest, r, h => by
    unfold secReqs
    cases hb : (secReq f r q).2.1 with
    | true => simp only [hb, ↓reduceIte]; exact secReq_result f r q data h
    | false =>
      simp only [hb, Bool.false_eq_true, ↓reduceIte]
      rcases secReq_result f r q data h with e | hs
      · rw [e]; exact secReqs_result f data rest r h
      · right; rw [secReqs_settled f data rest _ hs]; exact hs

theorem secPhase_result (f : Bool) (r : Req) (qs : List (List Scheme)) (data : Bytes) (h : Coherent r data) :
    (secPhase f r qs).1 = r ∨ Settled (secPhase f r qs).1 data := by
  unfold secPhase
  cases qs with
  | nil => exact Or.inl rfl
  | cons q rest => exact secReqs_result f data (q :: rest) r h

/-- the body phase on a settled request: nothing changes unless other bytes are written -/
theorem bodyPhase_settled (req : Bool) (outcome : Bytes → BodyOutcome) (r : Req) (e : Bytes) (h : Settled r e)
    (hst : ∀ nd, e ≠ [] → outcome e = .rewrite nd → nd = e ∧ r.contentLength = e.length) : (bodyPhase req outcome r).1 = r := by
  unfold bodyPhase
  simp only [h.1, restore_settled r e h]
  cases e with
  | nil => rfl
  | cons x xs =>
    simp only
    cases ho : outcome (x :: xs) with
    | reject => rfl
    | accept => rfl
    | rewriteFails => rfl
    | rewrite nd =>
      obtain ⟨e1, e2⟩ := hst nd (by simp) ho
      obtain ⟨h1, h2⟩ := h
      subst e1
      cases r
      simp_all

/-- after the body phase the request is settled on what the next handler reads -/
theorem bodyPhase_result (req : Bool) (outcome : Bytes → BodyOutcome) (r : Req) (data : Bytes) (h : Coherent r data) :
    Settled (bodyPhase req outcome r).1 (bodyExpected outcome data) ∧
    (∀ nd, outcome data = .rewrite nd → data ≠ [] → (bodyPhase req outcome r).1.contentLength = nd.length) := by
  obtain ⟨hb, hg⟩ := h
  have hg' := drain_getOK r data hg
  have hs : Settled (restore (drain r) data) data := by
    refine ⟨restore_body _ data hg', ?_⟩
    unfold restore
    cases hgb : (drain r).getBody with
    | ok b => simp only; rw [hg' b hgb]
    | none => rfl
    | fails => rfl
  unfold bodyPhase bodyExpected
  simp only [hb]
  cases data with
  | nil => exact ⟨hs, fun _ _ hne => absurd rfl hne⟩
  | cons x xs =>
    simp only
    cases ho : outcome (x :: xs) with
    | reject => exact ⟨hs, fun _ hh => by cases hh⟩
    | accept => exact ⟨hs, fun _ hh => by cases hh⟩
    | rewriteFails => exact ⟨hs, fun _ hh => by cases hh⟩
    | rewrite nd => exact ⟨⟨rfl, rfl⟩, fun nd' hh _ => by cases hh; rfl⟩

theorem validateStream_fst (c : Cfg) (outcome : Bytes → BodyOutcome) (r : Req) :
    (validateStream c outcome r).1 =
      if (!(secPhase c.hasAuthFunc r c.reqs).2.1 && !c.multi) || (!c.paramsOK && !c.multi) || !c.hasBodySpec
      then (secPhase c.hasAuthFunc r c.reqs).1
      else (bodyPhase c.required outcome (secPhase c.hasAuthFunc r c.reqs).1).1 := by
  unfold validateStream
  generalize secPhase c.hasAuthFunc r c.reqs = sp
  obtain ⟨r1, secOK, seen⟩ := sp
  cases secOK <;> cases hm : c.multi <;> cases hp : c.paramsOK <;> cases hb : c.hasBodySpec <;> simp [hm, hp, hb]

theorem validateStream_snd (c : Cfg) (outcome : Bytes → BodyOutcome) (r : Req) :
    (validateStream c outcome r).2 =
      if (!(secPhase c.hasAuthFunc r c.reqs).2.1 && !c.multi) || (!c.paramsOK && !c.multi) then false
      else if c.hasBodySpec then
        ((secPhase c.hasAuthFunc r c.reqs).2.1 && c.paramsOK && (bodyPhase c.required outcome (secPhase c.hasAuthFunc r c.reqs).1).2)
      else ((secPhase c.hasAuthFunc r c.reqs).2.1 && c.paramsOK) := by
  unfold validateStream
  generalize secPhase c.hasAuthFunc r c.reqs = sp
  obtain ⟨r1, secOK, seen⟩ := sp
  cases secOK <;> cases hm : c.multi <;> cases hp : c.paramsOK <;> cases hb : c.hasBodySpec <;> simp [hm, hp, hb]

/-- the verdict of the body phase on a request whose body holds `d` -/
def bodyVerdict (req : Bool) (outcome : Bytes → BodyOutcome) (d : Bytes) : Bool :=
  match d with
  | [] => !req
  | _ => match outcome d with | .reject => false | .accept => true | .rewrite _ => true | .rewriteFails => false

theorem bodyPhase_snd (req : Bool) (outcome : Bytes → BodyOutcome) (r : Req) (d : Bytes) (h : r.body = some d) :
    (bodyPhase req outcome r).2 = bodyVerdict req outcome d := by
  unfold bodyPhase bodyVerdict
  simp only [h]
  cases d with
  | nil => rfl
  | cons x xs => simp only; cases outcome (x :: xs) <;> rfl

/-- **A second validation leaves the stream exactly as the first one left it** — Body, GetBody and ContentLength —
    whatever the verdicts, provided the value layer does not rewrite the rewritten body into yet other bytes. -/
theorem validateStream_idem (c : Cfg) (outcome : Bytes → BodyOutcome) (r : Req) (data : Bytes) (h : Coherent r data)
    (H : ∀ nd nd', outcome data = .rewrite nd → outcome nd = .rewrite nd' → nd' = nd) :
    (validateStream c outcome (validateStream c outcome r).1).1 = (validateStream c outcome r).1 := by
  obtain ⟨hc, _, _⟩ := secPhase_coherent c.hasAuthFunc r c.reqs data h
  have hres := secPhase_result c.hasAuthFunc r c.reqs data h
  have hv : ∀ r', (secPhase c.hasAuthFunc r' c.reqs).2.1 = (secPhase c.hasAuthFunc r c.reqs).2.1 :=
    fun r' => secPhase_verdict c.hasAuthFunc c.reqs r' r
  rw [validateStream_fst c outcome r]
  split
  · -- the body phase did not run: the request is as the security phase left it
    rename_i hcond
    rw [validateStream_fst, hv, if_pos hcond]
    rcases hres with e | hs
    · rw [e, e]
    · exact secPhase_settled _ _ _ data hs
  · rename_i hcond
    obtain ⟨hs2, hcl⟩ := bodyPhase_result c.required outcome _ data hc
    rw [validateStream_fst, hv, if_neg hcond, secPhase_settled _ _ _ _ hs2]
    apply bodyPhase_settled c.required outcome _ _ hs2
    intro nd hne ho
    unfold bodyExpected at hne ho ⊢
    cases data with
    | nil => exact absurd rfl hne
    | cons x xs =>
      simp only at hne ho ⊢
      cases ho1 : outcome (x :: xs) with
      | rewrite nd0 =>
        simp only [ho1] at ho ⊢
        exact ⟨H nd0 nd ho1 ho, hcl nd0 ho1 (by simp)⟩
      | reject => simp only [ho1] at ho; cases ho
      | accept => simp only [ho1] at ho; cases ho
      | rewriteFails => simp only [ho1] at ho; cases ho

/-- … and its verdict is the first one's when the rewritten body is accepted (as it is, or re-encoded to the same bytes) -/
theorem validateStream_idem_verdict (c : Cfg) (outcome : Bytes → BodyOutcome) (r : Req) (data : Bytes) (h : Coherent r data)
    (H : ∀ nd, outcome data = .rewrite nd → nd ≠ [] ∧ (outcome nd = .accept ∨ outcome nd = .rewrite nd)) :
    (validateStream c outcome (validateStream c outcome r).1).2 = (validateStream c outcome r).2 := by
  obtain ⟨hc, _, _⟩ := secPhase_coherent c.hasAuthFunc r c.reqs data h
  have hres := secPhase_result c.hasAuthFunc r c.reqs data h
  have hv : ∀ r', (secPhase c.hasAuthFunc r' c.reqs).2.1 = (secPhase c.hasAuthFunc r c.reqs).2.1 :=
    fun r' => secPhase_verdict c.hasAuthFunc c.reqs r' r
  rw [validateStream_snd c outcome (validateStream c outcome r).1, validateStream_snd c outcome r, hv]
  split
  · rfl
  · split
    · -- both passes run the body phase
      rename_i hc1 hb
      have hcond : ¬ ((!(secPhase c.hasAuthFunc r c.reqs).2.1 && !c.multi) || (!c.paramsOK && !c.multi) || !c.hasBodySpec) = true := by
        simp only [hb, Bool.not_true, Bool.or_false]; exact hc1
      rw [validateStream_fst c outcome r, if_neg hcond]
      obtain ⟨hs2, _⟩ := bodyPhase_result c.required outcome _ data hc
      rw [secPhase_settled _ _ _ _ hs2]
      rw [bodyPhase_snd _ _ _ _ hs2.1, bodyPhase_snd _ _ _ _ hc.1]
      congr 1
      unfold bodyExpected bodyVerdict
      cases data with
      | nil => rfl
      | cons x xs =>
        simp only
        cases ho1 : outcome (x :: xs) with
        | rewrite nd0 =>
          obtain ⟨hne, hacc⟩ := H nd0 ho1
          simp only
          cases nd0 with
          | nil => exact absurd rfl hne
          | cons y ys => rcases hacc with hacc | hacc <;> simp only [hacc]
        | reject => simp only [ho1]
        | accept => simp only [ho1]
        | rewriteFails => simp only [ho1]
    · rfl

end KinModel.C13.Stream
