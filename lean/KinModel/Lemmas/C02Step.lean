/-
Helper lemmas for C02: agreement of the loader's one-step functions with the RFCs, where it can be stated on
the data the two sides share — characters of a pointer token, segments of a path.
-/
import KinModel.LoaderJson
namespace KinModel.LoaderJson

/-- the first character `replTilde1` produces is `0` only when it was `0` -/
theorem replTilde1_head (d : Char) (r : List Char) (hd : d ≠ '0') : ∀ x, replTilde1 (d :: r) ≠ '0' :: x := by
  intro x h
  by_cases ht : d = '~'
  · subst ht
    cases r with
    | nil => rw [replTilde1.eq_2 _ _ (by intro _ _ h; cases h)] at h; cases h
    | cons e r' =>
      by_cases he : e = '1'
      · subst he; rw [replTilde1.eq_1] at h; cases h
      · rw [replTilde1.eq_2 _ _ (by intro _ _ h; cases h; exact he rfl)] at h; cases h
  · rw [replTilde1.eq_2 _ _ (by intro _ hc _; exact ht hc)] at h
    cases h; exact hd rfl

theorem unescGo_eq_unescRfc_aux : ∀ n (s : List Char), s.length ≤ n → unescGo s = unescRfc s := by
  intro n
  induction n with
  | zero =>
    intro s hs
    cases s with
    | nil => simp [unescGo, replTilde1, replTilde0, unescRfc]
    | cons _ _ => simp at hs
  | succ n ih =>
    intro s hs
    cases s with
    | nil => simp [unescGo, replTilde1, replTilde0, unescRfc]
    | cons c r =>
      have hr : r.length ≤ n := by simp at hs; omega
      by_cases hc : c = '~'
      · subst hc
        cases r with
        | nil =>
          unfold unescGo
          rw [replTilde1.eq_2 _ _ (by intro _ _ h; cases h), replTilde1.eq_3,
              replTilde0.eq_2 _ _ (by intro _ _ h; cases h), replTilde0.eq_3,
              unescRfc.eq_3 _ _ (by intro _ _ h; cases h) (by intro _ _ h; cases h), unescRfc.eq_4]
        | cons d r' =>
          have hr' : r'.length ≤ n := by simp at hr; omega
          by_cases h1 : d = '1'
          · subst h1
            have := ih r' hr'
            unfold unescGo at this ⊢
            rw [replTilde1.eq_1, replTilde0.eq_2 _ _ (by intro _ hc _; cases hc), unescRfc.eq_1, this]
          · by_cases h0 : d = '0'
            · subst h0
              have := ih r' hr'
              unfold unescGo at this ⊢
              rw [replTilde1.eq_2 _ _ (by intro _ _ h; cases h),
                  replTilde1.eq_2 _ _ (by intro _ hc _; cases hc),
                  replTilde0.eq_1, unescRfc.eq_2, this]
            · have := ih (d :: r') hr
              unfold unescGo at this ⊢
              rw [replTilde1.eq_2 _ _ (by intro _ _ h; cases h; exact h1 rfl),
                  replTilde0.eq_2 _ _ (by intro x _ h; exact replTilde1_head d r' h0 x h),
                  unescRfc.eq_3 _ _ (by intro _ _ h; cases h; exact h1 rfl) (by intro _ _ h; cases h; exact h0 rfl), this]
      · have := ih r hr
        unfold unescGo at this ⊢
        rw [replTilde1.eq_2 _ _ (by intro _ h _; exact hc h),
            replTilde0.eq_2 _ _ (by intro _ h _; exact hc h),
            unescRfc.eq_3 _ _ (by intro _ h _; exact hc h) (by intro _ h _; exact hc h), this]

/-- `unescapeRefString` (`~1` → `/` first, then `~0` → `~`, each over the whole string) decodes every token exactly
    as RFC 6901 §4 prescribes (one left-to-right pass): for ALL strings, e.g. `~01` ↦ `~1`. -/
theorem unescGo_eq_unescRfc (s : List Char) : unescGo s = unescRfc s :=
  unescGo_eq_unescRfc_aux s.length s (Nat.le_refl _)

/-! ### path cleaning -/

/-- On a rooted path none of whose segments is empty — no `//`, no trailing `/` — `path.Clean` (`cleanStack true`) and
    RFC 3986 §5.2.4 remove_dot_segments (`rfcStack`) keep the same segments, whatever `.` and `..` occur. (With an
    empty segment they differ: `a//../b` is `b` for `path.Clean` and a file system, `a/b` for the RFC.) -/
theorem cleanStack_eq_rfcStack : ∀ (segs st : List String), (∀ x ∈ segs, x ≠ "") → (∀ x ∈ st, x ≠ "..") →
    cleanStack true segs st = rfcStack segs st
  | [], st, _, _ => by simp [cleanStack, rfcStack]
  | seg :: r, st, hs, ht => by
    have hr : ∀ x ∈ r, x ≠ "" := fun x hx => hs x (List.mem_cons_of_mem _ hx)
    have hne : seg ≠ "" := hs seg (List.mem_cons_self)
    unfold cleanStack rfcStack
    by_cases hdot : seg = "."
    · simp only [hdot, or_true, if_true]
      exact cleanStack_eq_rfcStack r st hr ht
    · by_cases hdd : seg = ".."
      · subst hdd
        simp only [hne, hdot, or_self, if_false, if_true]
        cases st with
        | nil => simpa using cleanStack_eq_rfcStack r [] hr (by simp)
        | cons top st' =>
          have htop : top ≠ ".." := ht top (List.mem_cons_self)
          simp only [htop, if_false, List.tail_cons]
          exact cleanStack_eq_rfcStack r st' hr (fun x hx => ht x (List.mem_cons_of_mem _ hx))
      · simp only [hne, hdot, or_self, if_false, hdd]
        exact cleanStack_eq_rfcStack r (seg :: st) hr (by
          intro x hx
          cases hx with
          | head => exact hdd
          | tail _ h => exact ht x h)

end KinModel.LoaderJson
