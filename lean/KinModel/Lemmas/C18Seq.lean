/-
C18 — helper lemmas for the reuse dimension: a sequence of `GenerateSchemaRef` calls on one generator keeps the state
invariant `Inv`. Before the repair of F-C18-7 this failed when a ROOT call was for a pointer type (`finish` entered the
non-nullable root schema under the pointer type); `finishR` no longer stores that entry.
-/
import KinModel.Lemmas.C18Dang
namespace KinModel.Gen3

theorem finish_inv_root {Δ : Decls} {o : Opts} {t : GoType} {q : R × St} (hnp : isPtr t = false)
    (hb : GoodB Δ o (stripPtr t) false q) : Inv Δ o (finish t q).2 := by
  obtain ⟨r, σb⟩ := q
  cases r with
  | ok s0 =>
    have hs0 := relN_use (isPtr_stripPtr t) (hb.2 s0 rfl)
    simp only [finish]
    refine inv_build (σ := σb) (fun _ h => h) ?_ (fun e he => Or.inl he) hb.1
    intro t' s' hm
    rcases List.mem_cons.mp hm with h | h
    · cases h
      refine Or.inr (relS_mono (ok := okσ σb) (fun _ h => h) _ _ (hs0 t rfl ?_))
      intro hp
      rw [hnp] at hp; cases hp
    · exact Or.inl h
  | cycle => exact hb.1
  | nofuel => exact hb.1
  | excluded => exact hb.1
  | err => exact hb.1

/-- a root call keeps the invariant of the generator state (since the repair of F-C18-7 for pointer types too: their
    schema is not entered into the type table) -/
theorem genRef_root_inv (Δ : Decls) (o : Opts) (f : Nat) (nm : String) (t : GoType) (σ : St)
    (hi : Inv Δ o σ) (ha : (genRef Δ o f [] nm t σ).2.anon = false) : Inv Δ o (genRef Δ o f [] nm t σ).2 := by
  cases f with
  | zero => simp only [genRef]; exact hi
  | succ f =>
    obtain ⟨_, ihB, _⟩ := gen_good Δ o f
    cases hl : (if o.cust = true then none else cacheLookup t σ.cache) with
    | some s0 =>
      simp only [genRef, hl] at ha ⊢
      exact inv_note hi
    | none =>
      simp only [genRef, hl] at ha ⊢
      have hnp' : inParents (stripPtr t) [] = false := rfl
      simp only [hnp', Bool.false_eq_true, if_false] at ha ⊢
      have hne : ([] : List GoType) ++ [stripPtr t] ≠ [] := by simp
      have hqa := (finishR_mono _ t _).2 ha
      have hb := ihB _ _ _ _ _ σ hne (isPtr_stripPtr t) hi hqa
      have hnl : (isPtr t && !([] : List GoType).isEmpty) = false := by simp
      rw [hnl] at hb ⊢
      unfold finishR
      split
      · exact hb.1
      · rename_i hc
        have hnp : isPtr t = false := by
          cases h : isPtr t with
          | false => rfl
          | true => exact absurd (by simp [h]) hc
        exact finish_inv_root hnp hb

theorem genSeq_mono (Δ : Decls) (o : Opts) (f : Nat) : ∀ (pre : List GoType) (σ : St), Mono σ (genSeq Δ o f pre σ)
  | [], σ => Mono.refl σ
  | t :: ts, σ => by
    simp only [genSeq]
    exact Mono.trans ((gen_mono Δ o f).1 [] "_root" t σ) (genSeq_mono Δ o f ts _)

/-- any history of root calls keeps the invariant -/
theorem genSeq_inv (Δ : Decls) (o : Opts) (f : Nat) : ∀ (pre : List GoType) (σ : St),
    Inv Δ o σ → (genSeq Δ o f pre σ).anon = false → Inv Δ o (genSeq Δ o f pre σ)
  | [], σ, hi, _ => hi
  | t :: ts, σ, hi, ha => by
    simp only [genSeq] at ha ⊢
    have ha1 := (genSeq_mono Δ o f ts _).2 ha
    exact genSeq_inv Δ o f ts _ (genRef_root_inv Δ o f "_root" t σ hi ha1) ha

/-- termination does not depend on the generator state: the fuel bound of `gen_finite` suffices for a root call from ANY
    state (a type-table hit only shortens the run) -/
theorem gen_enough_fuel_state (Δ : Decls) (o : Opts) (t : GoType) (fuel : Nat) (σ : St) (h : enoughFuel Δ t ≤ fuel) :
    (genRef Δ o fuel [] "_root" t σ).1 ≠ .nofuel :=
  stmt_all Δ o Δ.length [] t (unvisited_le Δ []) "_root" σ fuel h

end KinModel.Gen3
