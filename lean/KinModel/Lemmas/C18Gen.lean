/-
Helper lemmas for C18, second part: the generator establishes the relation `RelS` (core-only).
-/
import KinModel.Lemmas.C18
set_option linter.unusedSectionVars false
set_option linter.unusedSimpArgs false
namespace KinModel.Gen3

/-! ### reflect.Type identity in the model is equality -/
mutual
theorem GoType.beq_eq : ∀ (a b : GoType), GoType.beq a b = true → a = b
  | .bool, b, h => by cases b <;> simp [GoType.beq] at h ⊢
  | .string, b, h => by cases b <;> simp [GoType.beq] at h ⊢
  | .bytes, b, h => by cases b <;> simp [GoType.beq] at h ⊢
  | .time, b, h => by cases b <;> simp [GoType.beq] at h ⊢
  | .int k, b, h => by cases b <;> simp [GoType.beq] at h ⊢; exact h
  | .float k, b, h => by cases b <;> simp [GoType.beq] at h ⊢; exact h
  | .named k, b, h => by cases b <;> simp [GoType.beq] at h ⊢; exact h
  | .ptr a, b, h => by
      cases b <;> simp only [GoType.beq] at h <;> try (cases h)
      rename_i b'; rw [GoType.beq_eq a b' h]
  | .slice a, b, h => by
      cases b <;> simp only [GoType.beq] at h <;> try (cases h)
      rename_i b'; rw [GoType.beq_eq a b' h]
  | .map a, b, h => by
      cases b <;> simp only [GoType.beq] at h <;> try (cases h)
      rename_i b'; rw [GoType.beq_eq a b' h]
  | .struct a, b, h => by
      cases b <;> simp only [GoType.beq] at h <;> try (cases h)
      rename_i b'; rw [beqFs_eq a b' h]
theorem beqFs_eq : ∀ (a b : Fields), beqFs a b = true → a = b
  | [], [], _ => rfl
  | [], _ :: _, h => by simp [beqFs] at h
  | _ :: _, [], h => by simp [beqFs] at h
  | (m, t) :: r, (m', t') :: r', h => by
      simp only [beqFs, Bool.and_eq_true, beq_iff_eq] at h
      rw [h.1.1, GoType.beq_eq t t' h.1.2, beqFs_eq r r' h.2]
end

theorem cacheLookup_mem {t : GoType} {s : Sch} : ∀ {c : List (GoType × Sch)}, cacheLookup t c = some s → (t, s) ∈ c
  | [], h => by simp [cacheLookup] at h
  | (t', s') :: r, h => by
      simp only [cacheLookup] at h
      split at h
      · rename_i hb
        cases h
        rw [GoType.beq_eq t t' hb]; simp
      · exact List.mem_cons_of_mem _ (cacheLookup_mem h)

/-! ### monotonicity in the set of referable names -/
mutual
theorem relS_mono {Δ : Decls} {ok ok' : String → Prop} (h : ∀ n, ok n → ok' n) :
    ∀ (s : Sch) (t : GoType), RelS Δ ok t s → RelS Δ ok' t s
  | .ref n, t, hr => by simp only [RelS] at hr ⊢; exact ⟨hr.1, h _ hr.2⟩
  | .node ty nl fmt lo hi items props addl cyc, t, hr => by
      simp only [RelS] at hr ⊢
      refine ⟨hr.1, ?_⟩
      have hr2 := hr.2
      generalize stripPtr t = b at hr2 ⊢
      cases b <;> simp only at hr2 ⊢ <;> try exact hr2
      · cases items with
        | none => exact hr2
        | some it => exact ⟨hr2.1, relS_mono h it _ hr2.2⟩
      · cases addl with
        | none => exact hr2
        | some a => exact ⟨hr2.1, hr2.2.1, relS_mono h a _ hr2.2.2⟩
      · exact ⟨hr2.1, hr2.2.1, relProps_mono h props _ hr2.2.2⟩
      · exact ⟨hr2.1, hr2.2.1, relProps_mono h props _ hr2.2.2⟩
theorem relProps_mono {Δ : Decls} {ok ok' : String → Prop} (h : ∀ n, ok n → ok' n) :
    ∀ (p : List (String × Sch)) (cs : List Cand), RelProps Δ ok cs p → RelProps Δ ok' cs p
  | [], _, _ => by simp [RelProps]
  | (k, s) :: r, cs, hr => by
      simp only [RelProps] at hr ⊢
      obtain ⟨⟨c, hc, hn, hs⟩, hrest⟩ := hr
      exact ⟨⟨c, hc, hn, relS_mono h s _ hs⟩, relProps_mono h r cs hrest⟩
end

theorem relS_strip' {Δ ok t} : ∀ {s : Sch}, RelS Δ ok t s → RelS Δ ok (stripPtr t) s
  | .ref n, h => by simp only [RelS] at h ⊢; rw [stripPtr_idem]; exact h
  | .node .., h => relS_strip h

/-! ### cycle references -/
def isCycSch : Sch → Bool
  | .ref _ => true
  | .node _ _ _ _ _ _ _ _ cyc => cyc

theorem cycleSch_isCyc : ∀ (e : GoType), isCycSch (cycleSch e) = true
  | .ptr t => by simp only [cycleSch]; exact cycleSch_isCyc t
  | .slice _ | .map _ | .named _ | .bool | .int _ | .float _ | .string | .bytes | .time | .struct _ => by
      simp [cycleSch, isCycSch]

theorem relS_ptr_of_cyc {Δ ok t} : ∀ {s : Sch}, RelS Δ ok t s → isCycSch s = true → RelS Δ ok (.ptr t) s
  | .ref n, h, _ => by simpa [RelS, stripPtr] using h
  | .node ty nl fmt lo hi it pr ad cyc, h, hc => by
      simp only [isCycSch] at hc
      simp only [RelS, stripPtr, isPtr] at h ⊢
      exact ⟨fun _ => Or.inr hc, h.2⟩

theorem cycleSch_rel {Δ : Decls} {ok : String → Prop} : ∀ (e : GoType), spineNamed e = true → ok (cycleName e) →
    RelS Δ ok e (cycleSch e)
  | .ptr t, hs, hk => by
      simp only [cycleSch]
      exact relS_ptr_of_cyc (cycleSch_rel t (by simpa [spineNamed] using hs) (by simpa [cycleName] using hk)) (cycleSch_isCyc t)
  | .slice t, hs, hk => by
      simp only [cycleSch, RelS, stripPtr, isPtr]
      exact ⟨by simp, trivial, cycleSch_rel t (by simpa [spineNamed] using hs) (by simpa [cycleName] using hk)⟩
  | .map t, hs, hk => by
      simp only [cycleSch, RelS, stripPtr, isPtr]
      exact ⟨by simp, trivial, trivial, cycleSch_rel t (by simpa [spineNamed] using hs) (by simpa [cycleName] using hk)⟩
  | .named n, _, hk => by
      simp only [cycleSch, RelS, stripPtr]
      exact ⟨trivial, by simpa [cycleName] using hk⟩
  | .bool, hs, _ | .int _, hs, _ | .float _, hs, _ | .string, hs, _ | .bytes, hs, _ | .time, hs, _ | .struct _, hs, _ => by
      simp [spineNamed] at hs

/-! ### field list bookkeeping -/
theorem mem_insertCand {c x : Cand} : ∀ {l : List Cand}, x ∈ insertCand c l → x = c ∨ x ∈ l
  | [], h => by simp [insertCand] at h; exact Or.inl h
  | y :: ys, h => by
      simp only [insertCand] at h
      split at h
      · rcases List.mem_cons.mp h with h | h
        · exact Or.inl h
        · exact Or.inr h
      · rcases List.mem_cons.mp h with h | h
        · exact Or.inr (by simp [h])
        · rcases mem_insertCand h with h | h
          · exact Or.inl h
          · exact Or.inr (List.mem_cons_of_mem _ h)

theorem mem_sortCands_aux {x : Cand} : ∀ (l acc : List Cand), x ∈ l.foldl (fun acc c => insertCand c acc) acc → x ∈ acc ∨ x ∈ l
  | [], acc, h => Or.inl h
  | c :: cs, acc, h => by
      simp only [List.foldl] at h
      rcases mem_sortCands_aux cs _ h with h | h
      · rcases mem_insertCand h with h | h
        · exact Or.inr (by simp [h])
        · exact Or.inl h
      · exact Or.inr (List.mem_cons_of_mem _ h)

theorem mem_gcands {all : Bool} {fs : Fields} {x : Cand} (h : x ∈ gcands all fs) : x ∈ flat fs := by
  unfold gcands sortCands at h
  rcases mem_sortCands_aux _ _ h with h | h
  · cases h
  · exact (List.mem_filter.mp h).1

theorem relProps_setProp {Δ ok cs k s} (hk : ∃ c, c ∈ cs ∧ c.name = k ∧ RelS Δ ok c.ty s) :
    ∀ {p : List (String × Sch)}, RelProps Δ ok cs p → RelProps Δ ok cs (setProp k s p)
  | [], _ => by simp only [setProp, RelProps]; exact ⟨hk, trivial⟩
  | (k', s') :: r, h => by
      simp only [RelProps] at h
      simp only [setProp]
      split
      · simp only [RelProps]; exact ⟨hk, h.2⟩
      · simp only [RelProps]; exact ⟨h.1, relProps_setProp hk h.2⟩


/-! ### the generator only adds component names and only raises the ghost flag -/
def okσ (σ : St) (n : String) : Prop := n ∈ σ.comps
def Mono (σ σ' : St) : Prop := (∀ n, n ∈ σ.comps → n ∈ σ'.comps) ∧ (σ'.anon = false → σ.anon = false)

theorem Mono.refl (σ : St) : Mono σ σ := ⟨fun _ h => h, fun h => h⟩
theorem Mono.trans {a b c : St} (h1 : Mono a b) (h2 : Mono b c) : Mono a c :=
  ⟨fun n h => h2.1 n (h1.1 n h), fun h => h1.2 (h2.2 h)⟩

theorem mem_addComp_self (n : String) (σ : St) : n ∈ (addComp n σ).comps := by
  by_cases h : n ∈ σ.comps
  · simp [addComp, h]
  · simp [addComp, h]
theorem mem_addComp_of_mem {m n : String} {σ : St} (h : m ∈ σ.comps) : m ∈ (addComp n σ).comps := by
  by_cases hc : n ∈ σ.comps
  · simp [addComp, hc, h]
  · simp [addComp, hc, h]

theorem childOf_mono (e : GoType) (p : R × St) : Mono p.2 (childOf e p).2 := by
  obtain ⟨r, σ⟩ := p
  cases r with
  | ok s => exact Mono.refl _
  | nofuel => exact Mono.refl _
  | cycle =>
    simp only [childOf, note]
    refine ⟨fun n h => mem_addComp_of_mem h, ?_⟩
    intro h
    simp only [addComp] at h
    cases ha : σ.anon with
    | false => rfl
    | true => simp [ha] at h

theorem finish_mono (t : GoType) (p : R × St) : Mono p.2 (finish t p).2 := by
  obtain ⟨r, σ⟩ := p
  cases r <;> exact ⟨fun _ h => h, fun h => h⟩
theorem sliceOf_snd (nl : Bool) (q : Option Sch × St) : (sliceOf nl q).2 = q.2 := by
  obtain ⟨o, σ⟩ := q; cases o <;> rfl
theorem mapOf_snd (nl : Bool) (q : Option Sch × St) : (mapOf nl q).2 = q.2 := by
  obtain ⟨o, σ⟩ := q; cases o <;> rfl
theorem structOf_snd (nl : Bool) (a : FAcc) : (structOf nl a).2 = a.σ := by
  unfold structOf; split <;> rfl
theorem stepField_σ (c : Cand) (a : FAcc) (q : Option Sch × St) : (stepField c a q).σ = q.2 := by
  obtain ⟨o, σ⟩ := q; cases o <;> rfl

theorem gen_mono (Δ : Decls) (all : Bool) : ∀ (f : Nat),
    (∀ ps t σ, Mono σ (genRef Δ all f ps t σ).2) ∧
    (∀ ps nl b σ, Mono σ (genBody Δ all f ps nl b σ).2) ∧
    (∀ ps cs a, Mono a.σ (genFields Δ all f ps cs a).σ)
  | 0 => by
      refine ⟨fun _ _ σ => by simp only [genRef]; exact Mono.refl σ, fun _ _ _ σ => by simp only [genBody]; exact Mono.refl σ, ?_⟩
      intro ps cs a
      cases cs <;> simp only [genFields] <;> exact Mono.refl _
  | f + 1 => by
      obtain ⟨ihR, ihB, ihF⟩ := gen_mono Δ all f
      refine ⟨?_, ?_, ?_⟩
      · intro ps t σ
        simp only [genRef]
        split
        · exact ⟨fun _ h => h, fun h => h⟩
        · split
          · exact Mono.refl σ
          · exact Mono.trans (ihB _ _ _ σ) (finish_mono t _)
      · intro ps nl b σ
        cases b <;> simp only [genBody] <;> try exact Mono.refl σ
        · rw [sliceOf_snd]; exact Mono.trans (ihR _ _ σ) (childOf_mono _ _)
        · rw [mapOf_snd]; exact Mono.trans (ihR _ _ σ) (childOf_mono _ _)
        · rw [structOf_snd]; exact ihF _ _ ⟨[], σ, true⟩
        · rw [structOf_snd]; exact ihF _ _ ⟨[], σ, true⟩
      · intro ps cs a
        cases cs with
        | nil => simp only [genFields]; exact Mono.refl _
        | cons c cs =>
          simp only [genFields]
          refine Mono.trans ?_ (ihF ps cs _)
          rw [stepField_σ]
          exact Mono.trans (ihR _ _ a.σ) (childOf_mono _ _)

/-! ### invariants of the generator state -/
def Inv (Δ : Decls) (σ : St) : Prop :=
  (∀ t s, (t, s) ∈ σ.cache → RelS Δ (okσ σ) t s) ∧ (∀ n s, (n, s) ∈ σ.refs → RelS Δ (okσ σ) (.named n) s)

theorem inv_transport {Δ : Decls} {σ σ' : St} (hc : σ'.cache = σ.cache) (hr : σ'.refs = σ.refs)
    (hm : ∀ n, n ∈ σ.comps → n ∈ σ'.comps) (h : Inv Δ σ) : Inv Δ σ' := by
  refine ⟨?_, ?_⟩
  · intro t s hmem; rw [hc] at hmem; exact relS_mono hm s t (h.1 t s hmem)
  · intro n s hmem; rw [hr] at hmem; exact relS_mono hm s _ (h.2 n s hmem)

/-- a generation result whose state satisfies the invariants and whose schema describes `t` -/
def GoodR (Δ : Decls) (t : GoType) (p : R × St) : Prop :=
  Inv Δ p.2 ∧ ∀ s, p.1 = .ok s → RelS Δ (okσ p.2) t s

theorem childOf_good {Δ : Decls} {e : GoType} {p : R × St} (h : GoodR Δ e p) (ha : (childOf e p).2.anon = false) :
    Inv Δ (childOf e p).2 ∧ ∀ s, (childOf e p).1 = some s → RelS Δ (okσ (childOf e p).2) e s := by
  obtain ⟨r, σ⟩ := p
  cases r with
  | ok s0 => exact ⟨h.1, fun s hs => by simp only [childOf] at hs; cases hs; exact h.2 s0 rfl⟩
  | nofuel => exact ⟨h.1, fun s hs => by simp [childOf] at hs⟩
  | cycle =>
    simp only [childOf, note] at ha ⊢
    have hsp : spineNamed e = true := by
      simp only [addComp] at ha
      cases hs : spineNamed e with
      | true => rfl
      | false => simp [hs] at ha
    refine ⟨?_, ?_⟩
    · exact inv_transport (σ := σ) rfl rfl (fun n hn => mem_addComp_of_mem hn) h.1
    · intro s hs
      cases hs
      exact cycleSch_rel e hsp (mem_addComp_self _ _)

theorem stripPtr_ne_ptr : ∀ (t x : GoType), stripPtr t ≠ .ptr x
  | .ptr t, x => by simp only [stripPtr]; exact stripPtr_ne_ptr t x
  | .bool, _ | .int _, _ | .float _, _ | .string, _ | .bytes, _ | .time, _ | .slice _, _ | .map _, _ | .struct _, _ | .named _, _ => by
      simp [stripPtr]

/-- what `genBody` promises about its schema: it describes every type with this base whose pointer-ness is
    reflected in `nl` -/
def GoodB (Δ : Decls) (b : GoType) (nl : Bool) (p : R × St) : Prop :=
  Inv Δ p.2 ∧ ∀ s, p.1 = .ok s → ∀ t0, stripPtr t0 = b → (isPtr t0 = true → nl = true) → RelS Δ (okσ p.2) t0 s

theorem leaf_rel {Δ ok} {t0 : GoType} {nl : Bool} {ty fmt : String} {lo hi : Option Int}
    (hn : isPtr t0 = true → nl = true)
    (hshape : RelS Δ ok (stripPtr t0) (leaf ty false fmt lo hi)) : RelS Δ ok t0 (leaf ty nl fmt lo hi) := by
  simp only [leaf, RelS] at hshape ⊢
  rw [stripPtr_idem] at hshape
  exact ⟨fun h => Or.inl (hn h), hshape.2⟩

theorem finish_good {Δ : Decls} {t : GoType} {ps : List GoType} {q : R × St}
    (hb : GoodB Δ (stripPtr t) (isPtr t && !ps.isEmpty) q) :
    (∀ n s, (n, s) ∈ (finish t q).2.refs → RelS Δ (okσ (finish t q).2) (.named n) s) ∧
    (ps ≠ [] → Inv Δ (finish t q).2) ∧
    (∀ s, (finish t q).1 = .ok s → RelS Δ (okσ (finish t q).2) (if ps.isEmpty then stripPtr t else t) s) := by
  obtain ⟨r, σb⟩ := q
  cases r with
  | cycle => exact ⟨hb.1.2, fun _ => hb.1, fun s hs => by cases hs⟩
  | nofuel => exact ⟨hb.1.2, fun _ => hb.1, fun s hs => by cases hs⟩
  | ok s0 =>
    have hs0 := hb.2 s0 rfl
    have key : ∀ n s, (n, s) ∈ (match stripPtr t with | .named n => (n, s0) :: σb.refs | _ => σb.refs) →
        RelS Δ (okσ σb) (.named n) s := by
      intro n s hm
      split at hm
      · rename_i n0 hst
        rcases List.mem_cons.mp hm with h | h
        · cases h; exact hs0 (.named n) (by rw [hst]; rfl) (by simp [isPtr])
        · exact hb.1.2 n s h
      · exact hb.1.2 n s hm
    simp only [finish]
    refine ⟨fun n s hm => relS_mono (ok := okσ σb) (fun _ h => h) s _ (key n s hm), ?_, ?_⟩
    · intro hps
      refine ⟨?_, fun n s hm => relS_mono (ok := okσ σb) (fun _ h => h) s _ (key n s hm)⟩
      intro t' s' hm
      rcases List.mem_cons.mp hm with h | h
      · cases h
        refine relS_mono (ok := okσ σb) (fun _ h => h) _ _ (hs0 t rfl ?_)
        intro hp
        cases hpe : ps with
        | nil => exact absurd hpe hps
        | cons x xs => simp [hp]
      · exact relS_mono (ok := okσ σb) (fun _ h => h) _ _ (hb.1.1 t' s' h)
    · intro s hs
      cases hs
      refine relS_mono (ok := okσ σb) (fun _ h => h) _ _ ?_
      split
      · exact hs0 (stripPtr t) (stripPtr_idem t) (by simp [isPtr_stripPtr])
      · rename_i hemp
        refine hs0 t rfl ?_
        intro hp
        simp [hp, hemp]

theorem gen_good (Δ : Decls) (all : Bool) : ∀ (f : Nat),
    (∀ ps t σ, Inv Δ σ → (genRef Δ all f ps t σ).2.anon = false →
      (∀ n s, (n, s) ∈ (genRef Δ all f ps t σ).2.refs → RelS Δ (okσ (genRef Δ all f ps t σ).2) (.named n) s) ∧
      (ps ≠ [] → Inv Δ (genRef Δ all f ps t σ).2) ∧
      (∀ s, (genRef Δ all f ps t σ).1 = .ok s →
        RelS Δ (okσ (genRef Δ all f ps t σ).2) (if ps.isEmpty then stripPtr t else t) s)) ∧
    (∀ ps nl b σ, ps ≠ [] → Inv Δ σ → (genBody Δ all f ps nl b σ).2.anon = false →
      GoodB Δ b nl (genBody Δ all f ps nl b σ)) ∧
    (∀ ps cs a cands0, ps ≠ [] → Inv Δ a.σ → (genFields Δ all f ps cs a).σ.anon = false →
      (∀ c, c ∈ cs → c ∈ cands0) → RelProps Δ (okσ a.σ) cands0 a.props →
      Inv Δ (genFields Δ all f ps cs a).σ ∧
      RelProps Δ (okσ (genFields Δ all f ps cs a).σ) cands0 (genFields Δ all f ps cs a).props)
  | 0 => by
      refine ⟨?_, ?_, ?_⟩
      · intro ps t σ hi _
        simp only [genRef]
        exact ⟨hi.2, fun _ => hi, fun s hs => by cases hs⟩
      · intro ps nl b σ _ hi _
        simp only [genBody]
        exact ⟨hi, fun s hs => by cases hs⟩
      · intro ps cs a cands0 _ hi _ _ hp
        cases cs <;> simp only [genFields] <;> exact ⟨hi, hp⟩
  | f + 1 => by
      obtain ⟨ihR, ihB, ihF⟩ := gen_good Δ all f
      obtain ⟨mR, mB, mF⟩ := gen_mono Δ all f
      refine ⟨?_, ?_, ?_⟩
      · -- genRef
        intro ps t σ hi ha
        cases hl : cacheLookup t σ.cache with
        | some s0 =>
          simp only [genRef, hl] at ha ⊢
          have hrel := hi.1 t s0 (cacheLookup_mem hl)
          refine ⟨hi.2, fun _ => hi, ?_⟩
          intro s hs
          cases hs
          simp only [note]
          split
          · exact relS_strip' hrel
          · exact hrel
        | none =>
          by_cases hnp : inParents (stripPtr t) ps = true
          · simp only [genRef, hl, hnp, if_true] at ha ⊢
            exact ⟨hi.2, fun _ => hi, fun s hs => by cases hs⟩
          · simp only [genRef, hl, hnp, if_false, Bool.false_eq_true] at ha ⊢
            have hne : ps ++ [stripPtr t] ≠ [] := by simp
            have hqa := (finish_mono t _).2 ha
            exact finish_good (ihB _ _ _ σ hne hi hqa)
      · -- genBody
        intro ps nl b σ hps hi ha
        cases b with
        | bool => simp only [genBody]; exact ⟨hi, fun s hs t0 h0 hn => by cases hs; exact leaf_rel hn (by simp [h0, RelS, leaf, stripPtr, isPtr])⟩
        | int k => simp only [genBody]; exact ⟨hi, fun s hs t0 h0 hn => by cases hs; exact leaf_rel hn (by simp [h0, RelS, leaf, stripPtr, isPtr])⟩
        | float k => simp only [genBody]; exact ⟨hi, fun s hs t0 h0 hn => by cases hs; exact leaf_rel hn (by simp [h0, RelS, leaf, stripPtr, isPtr])⟩
        | string => simp only [genBody]; exact ⟨hi, fun s hs t0 h0 hn => by cases hs; exact leaf_rel hn (by simp [h0, RelS, leaf, stripPtr, isPtr])⟩
        | bytes => simp only [genBody]; exact ⟨hi, fun s hs t0 h0 hn => by cases hs; exact leaf_rel hn (by simp [h0, RelS, leaf, stripPtr, isPtr])⟩
        | time => simp only [genBody]; exact ⟨hi, fun s hs t0 h0 hn => by cases hs; exact leaf_rel hn (by simp [h0, RelS, leaf, stripPtr, isPtr])⟩
        | ptr x => simp only [genBody]; exact ⟨hi, fun s hs t0 h0 _ => absurd h0 (stripPtr_ne_ptr t0 x)⟩
        | slice e =>
          simp only [genBody] at ha ⊢
          rw [sliceOf_snd] at ha
          have hc1 : (genRef Δ all f ps e σ).2.anon = false := (childOf_mono e _).2 ha
          obtain ⟨_, h2, h3⟩ := ihR ps e σ hi hc1
          have hg : GoodR Δ e (genRef Δ all f ps e σ) := ⟨h2 hps, fun s hs => by
            have := h3 s hs
            cases hpe : ps with
            | nil => exact absurd hpe hps
            | cons x xs => simpa [hpe] using this⟩
          obtain ⟨hi2, hr2⟩ := childOf_good hg ha
          generalize childOf e (genRef Δ all f ps e σ) = q at hi2 hr2 ⊢
          obtain ⟨o, σ2⟩ := q
          cases o with
          | none => exact ⟨hi2, fun s hs => by cases hs⟩
          | some it =>
            refine ⟨hi2, ?_⟩
            intro s hs t0 h0 hn
            cases hs
            simp only [RelS, h0]
            exact ⟨fun h => Or.inl (hn h), trivial, hr2 it rfl⟩
        | map e =>
          simp only [genBody] at ha ⊢
          rw [mapOf_snd] at ha
          have hc1 : (genRef Δ all f ps e σ).2.anon = false := (childOf_mono e _).2 ha
          obtain ⟨_, h2, h3⟩ := ihR ps e σ hi hc1
          have hg : GoodR Δ e (genRef Δ all f ps e σ) := ⟨h2 hps, fun s hs => by
            have := h3 s hs
            cases hpe : ps with
            | nil => exact absurd hpe hps
            | cons x xs => simpa [hpe] using this⟩
          obtain ⟨hi2, hr2⟩ := childOf_good hg ha
          generalize childOf e (genRef Δ all f ps e σ) = q at hi2 hr2 ⊢
          obtain ⟨o, σ2⟩ := q
          cases o with
          | none => exact ⟨hi2, fun s hs => by cases hs⟩
          | some it =>
            refine ⟨hi2, ?_⟩
            intro s hs t0 h0 hn
            cases hs
            simp only [RelS, h0]
            exact ⟨fun h => Or.inl (hn h), trivial, trivial, hr2 it rfl⟩
        | struct fs =>
          simp only [genBody] at ha ⊢
          rw [structOf_snd] at ha
          obtain ⟨hi2, hp2⟩ := ihF ps (gcands all fs) ⟨[], σ, true⟩ (flat fs) hps hi ha (fun c hc => mem_gcands hc) (by simp [RelProps])
          generalize genFields Δ all f ps (gcands all fs) ⟨[], σ, true⟩ = a' at hi2 hp2 ⊢
          unfold structOf
          split
          · refine ⟨hi2, ?_⟩
            intro s hs t0 h0 hn
            cases hs
            simp only [RelS, h0]
            refine ⟨fun h => Or.inl (hn h), ?_, trivial, hp2⟩
            split <;> simp
          · exact ⟨hi2, fun s hs => by cases hs⟩
        | named n =>
          simp only [genBody] at ha ⊢
          rw [structOf_snd] at ha
          obtain ⟨hi2, hp2⟩ := ihF ps (gcands all ((lookup n Δ).getD [])) ⟨[], σ, true⟩ (flat ((lookup n Δ).getD [])) hps hi ha (fun c hc => mem_gcands hc) (by simp [RelProps])
          generalize genFields Δ all f ps (gcands all ((lookup n Δ).getD [])) ⟨[], σ, true⟩ = a' at hi2 hp2 ⊢
          unfold structOf
          split
          · refine ⟨hi2, ?_⟩
            intro s hs t0 h0 hn
            cases hs
            simp only [RelS, h0]
            refine ⟨fun h => Or.inl (hn h), ?_, trivial, hp2⟩
            split <;> simp
          · exact ⟨hi2, fun s hs => by cases hs⟩
      · -- genFields
        intro ps cs a cands0 hps hi ha hsub hp
        cases cs with
        | nil => simp only [genFields]; exact ⟨hi, hp⟩
        | cons c cs =>
          simp only [genFields] at ha ⊢
          generalize hq : childOf c.ty (genRef Δ all f ps c.ty a.σ) = q at ha ⊢
          have ha1 : (stepField c a q).σ.anon = false := (mF ps cs _).2 ha
          rw [stepField_σ] at ha1
          have hc1 : (genRef Δ all f ps c.ty a.σ).2.anon = false := (childOf_mono c.ty _).2 (by rw [hq]; exact ha1)
          obtain ⟨_, h2, h3⟩ := ihR ps c.ty a.σ hi hc1
          have hg : GoodR Δ c.ty (genRef Δ all f ps c.ty a.σ) := ⟨h2 hps, fun s hs => by
            have := h3 s hs
            cases hpe : ps with
            | nil => exact absurd hpe hps
            | cons x xs => simpa [hpe] using this⟩
          obtain ⟨hi2, hr2⟩ := childOf_good hg (by rw [hq]; exact ha1)
          rw [hq] at hi2 hr2
          have hmono : ∀ n, okσ a.σ n → okσ q.2 n := by
            intro n hn
            have := Mono.trans (mR ps c.ty a.σ) (childOf_mono c.ty _)
            rw [hq] at this
            exact this.1 n hn
          have hp1 : RelProps Δ (okσ (stepField c a q).σ) cands0 (stepField c a q).props := by
            rw [stepField_σ]
            obtain ⟨o, σ2⟩ := q
            cases o with
            | none => exact relProps_mono hmono _ _ hp
            | some s =>
              simp only [stepField]
              exact relProps_setProp ⟨c, hsub c (by simp), rfl, hr2 s rfl⟩ (relProps_mono hmono _ _ hp)
          have hi1 : Inv Δ (stepField c a q).σ := by rw [stepField_σ]; exact hi2
          exact ihF ps cs (stepField c a q) cands0 hps hi1 ha (fun c' hc' => hsub c' (List.mem_cons_of_mem _ hc')) hp1


/-! ### root level: pointer stripping of type and value -/
theorem hered_strip (bad : List Cand → Bool) : ∀ (t : GoType), hered bad (stripPtr t) = hered bad t
  | .ptr t => by simp only [stripPtr, hered]; exact hered_strip bad t
  | .bool | .int _ | .float _ | .string | .bytes | .time | .slice _ | .map _ | .struct _ | .named _ => by simp [stripPtr]

theorem heredAll_strip (bad : List Cand → Bool) (Δ : Decls) (t : GoType) :
    heredAll bad Δ (stripPtr t) = heredAll bad Δ t := by
  simp only [heredAll, hered_strip]

/-- a value that does not encode as `null` is, below its non-nil root pointers, a value of the stripped type
    with the same encoding -/
theorem strip_value (Δ : Decls) : ∀ (v : GoVal) (t : GoType), hasTypeB Δ t v = true → encode Δ t v ≠ .null →
    ∃ v', hasTypeB Δ (stripPtr t) v' = true ∧ encode Δ (stripPtr t) v' = encode Δ t v
  | .ref v, t, ht, hn => by
      simp only [hasTypeB, Bool.and_eq_true] at ht
      cases t <;> simp [isPtr] at ht
      rename_i t'
      simp only [elemOf] at ht
      simp only [encode, elemOf, stripPtr] at hn ⊢
      exact strip_value Δ v t' ht hn
  | .nil, t, _, hn => by simp [encode] at hn
  | .b x, t, ht, _ => by cases t <;> simp [hasTypeB] at ht; exact ⟨.b x, by simp [stripPtr, hasTypeB], rfl⟩
  | .i x, t, ht, _ => by cases t <;> simp [hasTypeB] at ht; exact ⟨.i x, by simp [stripPtr, hasTypeB, ht], rfl⟩
  | .f m e, t, ht, _ => by cases t <;> simp [hasTypeB] at ht; exact ⟨.f m e, by simp [stripPtr, hasTypeB], rfl⟩
  | .s x, t, ht, _ => by cases t <;> simp [hasTypeB] at ht; exact ⟨.s x, by simp [stripPtr, hasTypeB], rfl⟩
  | .bytes x, t, ht, _ => by cases t <;> simp [hasTypeB] at ht; exact ⟨.bytes x, by simp [stripPtr, hasTypeB, ht], rfl⟩
  | .time x, t, ht, _ => by cases t <;> simp [hasTypeB] at ht; exact ⟨.time x, by simp [stripPtr, hasTypeB, ht], rfl⟩
  | .slice vs, t, ht, _ => by
      cases t <;> simp only [hasTypeB] at ht <;> try (cases ht)
      exact ⟨.slice vs, by simpa [stripPtr, hasTypeB] using ht, rfl⟩
  | .map kvs, t, ht, _ => by
      cases t <;> simp only [hasTypeB] at ht <;> try (cases ht)
      exact ⟨.map kvs, by simpa [stripPtr, hasTypeB] using ht, rfl⟩
  | .struct vs, t, ht, _ => by
      cases t <;> simp only [hasTypeB] at ht <;> try (cases ht)
      · exact ⟨.struct vs, by simpa [stripPtr, hasTypeB] using ht, rfl⟩
      · exact ⟨.struct vs, by simpa [stripPtr, hasTypeB] using ht, rfl⟩

theorem hasProps_node {s : Sch} (h : hasProps s = true) : ∃ ty nl fmt lo hi it pr ad cyc, s = .node ty nl fmt lo hi it pr ad cyc := by
  cases s with
  | ref n => simp [hasProps] at h
  | node ty nl fmt lo hi it pr ad cyc => exact ⟨_, _, _, _, _, _, _, _, _, rfl⟩

theorem okΓ_of_complete {σ : St} {Γ : Comps} (hc : Complete σ Γ) : ∀ n, okσ σ n → okΓ Γ n := by
  intro n hn
  obtain ⟨s, hl, hp⟩ := hc n hn
  obtain ⟨ty, nl, fmt, lo, hi, it, pr, ad, cyc, rfl⟩ := hasProps_node hp
  exact ⟨.node ty nl fmt lo hi it pr ad cyc, by simp [resolve, hl]⟩

theorem mem_candidatesFor {σ : St} {n : String} {s : Sch} (h : s ∈ candidatesFor σ n) : (n, s) ∈ σ.refs := by
  simp only [candidatesFor, List.mem_map, List.mem_filter, Bool.and_eq_true, beq_iff_eq] at h
  obtain ⟨⟨n', s'⟩, ⟨hm, hn, _⟩, rfl⟩ := h
  simp only at hn
  subst hn
  exact hm

end KinModel.Gen3
