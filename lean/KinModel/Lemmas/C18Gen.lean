/-
Helper lemmas for C18, second part: the generator establishes the relation `RelS` (core-only).
-/
import KinModel.Lemmas.C18
set_option linter.unusedSectionVars false
set_option linter.unusedSimpArgs false
set_option linter.unusedVariables false
namespace KinModel.Gen3

/-! ### reflect.Type identity in the model is equality -/
mutual
theorem GoType.beq_eq : ∀ (a b : GoType), GoType.beq a b = true → a = b
  | .bool, b, h => by cases b <;> simp [GoType.beq] at h ⊢
  | .string, b, h => by cases b <;> simp [GoType.beq] at h ⊢
  | .bytes, b, h => by cases b <;> simp [GoType.beq] at h ⊢
  | .time, b, h => by cases b <;> simp [GoType.beq] at h ⊢
  | .int k, b, h => by cases b <;> simp [GoType.beq] at h ⊢; exact h
  | .float k, b, h => by cases b <;> simp [GoType.beq] at h ⊢; exact h
  | .named k, b, h => by cases b <;> simp [GoType.beq] at h ⊢; exact h
  | .recs k, b, h => by cases b <;> simp [GoType.beq] at h ⊢; exact h
  | .ptr a, b, h => by
      cases b <;> simp only [GoType.beq] at h <;> try (cases h)
      rename_i b'; rw [GoType.beq_eq a b' h]
  | .slice a, b, h => by
      cases b <;> simp only [GoType.beq] at h <;> try (cases h)
      rename_i b'; rw [GoType.beq_eq a b' h]
  | .map a, b, h => by
      cases b <;> simp only [GoType.beq] at h <;> try (cases h)
      rename_i b'; rw [GoType.beq_eq a b' h]
  | .defd n a, b, h => by
      cases b <;> simp only [GoType.beq] at h <;> try (cases h)
      rename_i n' b'
      simp only [Bool.and_eq_true, beq_iff_eq] at h
      rw [h.1, GoType.beq_eq a b' h.2]
  | .array n a, b, h => by
      cases b <;> simp only [GoType.beq] at h <;> try (cases h)
      rename_i n' b'
      simp only [Bool.and_eq_true, beq_iff_eq] at h
      rw [h.1, GoType.beq_eq a b' h.2]
  | .struct a, b, h => by
      cases b <;> simp only [GoType.beq] at h <;> try (cases h)
      rename_i b'; rw [beqFs_eq a b' h]
theorem beqFs_eq : ∀ (a b : Fields), beqFs a b = true → a = b
  | [], [], _ => rfl
  | [], _ :: _, h => by simp [beqFs] at h
  | _ :: _, [], h => by simp [beqFs] at h
  | (m, t) :: r, (m', t') :: r', h => by
      simp only [beqFs, Bool.and_eq_true, beq_iff_eq] at h
      rw [h.1.1, GoType.beq_eq t t' h.1.2, beqFs_eq r r' h.2]
end

theorem cacheLookup_mem {t : GoType} {s : Sch} : ∀ {c : List (GoType × Sch)}, cacheLookup t c = some s → (t, s) ∈ c
  | [], h => by simp [cacheLookup] at h
  | (t', s') :: r, h => by
      simp only [cacheLookup] at h
      split at h
      · rename_i hb
        cases h
        rw [GoType.beq_eq t t' hb]; simp
      · exact List.mem_cons_of_mem _ (cacheLookup_mem h)

mutual
theorem GoType.beq_refl : ∀ (a : GoType), GoType.beq a a = true
  | .bool | .string | .bytes | .time => by simp [GoType.beq]
  | .int _ | .float _ | .named _ | .recs _ => by simp [GoType.beq]
  | .ptr a => by simp only [GoType.beq]; exact GoType.beq_refl a
  | .slice a => by simp only [GoType.beq]; exact GoType.beq_refl a
  | .map a => by simp only [GoType.beq]; exact GoType.beq_refl a
  | .defd _ a => by simp [GoType.beq, GoType.beq_refl a]
  | .array _ a => by simp [GoType.beq, GoType.beq_refl a]
  | .struct fs => by simp only [GoType.beq]; exact beqFs_refl fs
theorem beqFs_refl : ∀ (a : Fields), beqFs a a = true
  | [] => by simp [beqFs]
  | (m, t) :: r => by simp [beqFs, GoType.beq_refl t, beqFs_refl r]
end

theorem inParents_mem {b : GoType} {ps : List GoType} (h : b ∈ ps) : inParents b ps = true := by
  unfold inParents
  exact List.any_eq_true.mpr ⟨b, h, GoType.beq_refl b⟩

/-! ### monotonicity in the set of referable names -/
mutual
theorem relS_mono {Δ : Decls} {tn : String → String} {ok ok' : String → Prop} (h : ∀ n, ok n → ok' n) :
    ∀ (s : Sch) (t : GoType), RelS Δ tn ok t s → RelS Δ tn ok' t s
  | .ref n, t, hr => by
      simp only [RelS] at hr ⊢
      obtain ⟨n', h1, h2, h3⟩ := hr
      exact ⟨n', h1, h2, h _ h3⟩
  | .node ty nl fmt lo hi items props addl cyc, t, hr => by
      simp only [RelS] at hr ⊢
      refine ⟨hr.1, ?_⟩
      have hr2 := hr.2
      generalize under (stripPtr t) = b at hr2 ⊢
      cases b <;> simp only at hr2 ⊢ <;> try exact hr2
      · rename_i e
        refine ⟨hr2.1, hr2.2.1, ?_⟩
        have h3 := hr2.2.2
        split
        · rename_i h8; simpa [h8] using h3
        · rename_i h8
          simp only [h8, if_false] at h3
          exact ⟨h3.1, relO_mono h items _ h3.2⟩
      · exact ⟨hr2.1, hr2.2.1, hr2.2.2.1, relO_mono h addl _ hr2.2.2.2⟩
      · exact ⟨hr2.1, hr2.2.1, hr2.2.2.1, relProps_mono h props _ hr2.2.2.2⟩
      · exact ⟨hr2.1, hr2.2.1, hr2.2.2.1, relProps_mono h props _ hr2.2.2.2⟩
      · rename_i m
        refine ⟨hr2.1, ?_⟩
        rcases hr2.2 with h3 | h3
        · exact Or.inl h3
        · right
          cases m
          · simp only [Bool.false_eq_true, if_false] at h3 ⊢
            exact ⟨h3.1, h3.2.1, relO_mono h items _ h3.2.2⟩
          · simp only [if_true] at h3 ⊢
            exact ⟨h3.1, h3.2.1, relO_mono h addl _ h3.2.2⟩
theorem relO_mono {Δ : Decls} {tn : String → String} {ok ok' : String → Prop} (h : ∀ n, ok n → ok' n) :
    ∀ (x : Option Sch) (t : GoType), RelO Δ tn ok t x → RelO Δ tn ok' t x
  | none, _, _ => by simp [RelO]
  | some s, t, hr => by simp only [RelO] at hr ⊢; exact relS_mono h s t hr
theorem relProps_mono {Δ : Decls} {tn : String → String} {ok ok' : String → Prop} (h : ∀ n, ok n → ok' n) :
    ∀ (p : List (String × Sch)) (cs : List Cand), RelProps Δ tn ok cs p → RelProps Δ tn ok' cs p
  | [], _, _ => by simp [RelProps]
  | (k, s) :: r, cs, hr => by
      simp only [RelProps] at hr ⊢
      obtain ⟨⟨c, hc, hn, hs⟩, hrest⟩ := hr
      exact ⟨⟨c, hc, hn, relS_mono h s _ hs⟩, relProps_mono h r cs hrest⟩
end

theorem relS_strip' {Δ tn ok t} : ∀ {s : Sch}, RelS Δ tn ok t s → RelS Δ tn ok (stripPtr t) s
  | .ref n, h => by simp only [RelS] at h ⊢; rw [stripPtr_idem]; exact h
  | .node .., h => relS_strip h

-- every reference inside a schema that describes a type is a referable name
mutual
theorem relS_refNames {Δ : Decls} {tn : String → String} {ok : String → Prop} :
    ∀ (s : Sch) (t : GoType), RelS Δ tn ok t s → ∀ r, r ∈ refNames s → ok r
  | .ref n, t, hr, r, hm => by
      simp only [RelS] at hr
      simp only [refNames, List.mem_singleton] at hm
      obtain ⟨_, _, _, h3⟩ := hr
      rw [hm]; exact h3
  | .node ty nl fmt lo hi items props addl cyc, t, hr, r, hm => by
      simp only [RelS] at hr
      have hr2 := hr.2
      generalize under (stripPtr t) = b at hr2
      simp only [refNames, List.mem_append] at hm
      cases b <;> (try simp only at hr2)
      case slice e =>
        obtain ⟨rfl, rfl, h3⟩ := hr2
        by_cases h8 : isU8 e = true
        · simp only [h8, if_true] at h3
          obtain ⟨_, _, rfl⟩ := h3
          simp [refNamesP, refNamesO] at hm
        · simp only [h8, if_false] at h3
          simp only [refNamesP, refNamesO, List.not_mem_nil, or_false] at hm
          exact relO_refNames items e h3.2 r hm
      case map e =>
        obtain ⟨_, rfl, rfl, h3⟩ := hr2
        simp only [refNamesP, refNamesO, List.not_mem_nil, false_or] at hm
        exact relO_refNames addl e h3 r hm
      case struct fs =>
        obtain ⟨_, rfl, rfl, h3⟩ := hr2
        simp only [refNamesO, List.not_mem_nil, false_or, or_false] at hm
        exact relProps_refNames props _ h3 r hm
      case named n =>
        obtain ⟨_, rfl, rfl, h3⟩ := hr2
        simp only [refNamesO, List.not_mem_nil, false_or, or_false] at hm
        exact relProps_refNames props _ h3 r hm
      case recs m =>
        obtain ⟨rfl, h3⟩ := hr2
        rcases h3 with ⟨_, rfl, rfl⟩ | h3
        · simp [refNamesP, refNamesO] at hm
        · cases m
          · simp only [Bool.false_eq_true, if_false] at h3
            obtain ⟨_, rfl, h4⟩ := h3
            simp only [refNamesP, refNamesO, List.not_mem_nil, or_false] at hm
            exact relO_refNames items _ h4 r hm
          · simp only [if_true] at h3
            obtain ⟨_, rfl, h4⟩ := h3
            simp only [refNamesP, refNamesO, List.not_mem_nil, false_or] at hm
            exact relO_refNames addl _ h4 r hm
      all_goals (simp_all [refNamesP, refNamesO])
theorem relO_refNames {Δ : Decls} {tn : String → String} {ok : String → Prop} :
    ∀ (x : Option Sch) (t : GoType), RelO Δ tn ok t x → ∀ r, r ∈ refNamesO x → ok r
  | none, _, _, r, hm => by simp [refNamesO] at hm
  | some s, t, hr, r, hm => by
      simp only [RelO] at hr
      simp only [refNamesO] at hm
      exact relS_refNames s t hr r hm
theorem relProps_refNames {Δ : Decls} {tn : String → String} {ok : String → Prop} :
    ∀ (p : List (String × Sch)) (cs : List Cand), RelProps Δ tn ok cs p → ∀ r, r ∈ refNamesP p → ok r
  | [], _, _, r, hm => by simp [refNamesP] at hm
  | (k, s) :: rest, cs, hr, r, hm => by
      simp only [RelProps] at hr
      simp only [refNamesP, List.mem_append] at hm
      obtain ⟨⟨c, _, _, hs⟩, hrest⟩ := hr
      rcases hm with hm | hm
      · exact relS_refNames s _ hs r hm
      · exact relProps_refNames rest cs hrest r hm
end

/-! ### cycle references -/
def isCycSch : Sch → Bool
  | .ref _ => true
  | .node _ _ _ _ _ _ _ _ cyc => cyc

theorem cycleSch_isCyc (o : Opts) : ∀ (e : GoType), isCycSch (cycleSch o e) = true
  | .ptr t => by simp only [cycleSch]; exact cycleSch_isCyc o t
  | .slice t => by simp [cycleSch, arrWrap, isCycSch]
  | .map t => by simp [cycleSch, mapWrap, isCycSch]
  | .defd n t => by
      simp only [cycleSch]
      split
      · exact cycleSch_isCyc o t
      · simp [isCycSch]
  | .recs m => by cases m <;> simp [cycleSch, arrWrap, mapWrap, isCycSch]
  | .bytes => by simp [cycleSch, arrWrap, isCycSch]
  | .bool | .int _ | .float _ | .string | .time | .named _ | .struct _ | .array _ _ => by simp [cycleSch, isCycSch]

theorem relS_ptr_of_cyc {Δ tn ok t} : ∀ {s : Sch}, RelS Δ tn ok t s → isCycSch s = true → RelS Δ tn ok (.ptr t) s
  | .ref n, h, _ => by simpa [RelS, stripPtr] using h
  | .node ty nl fmt lo hi it pr ad cyc, h, hc => by
      simp only [isCycSch] at hc
      simp only [RelS, stripPtr, isPtr] at h ⊢
      exact ⟨fun _ => Or.inr hc, h.2⟩

theorem kindContainer_not_ptr : ∀ {t : GoType}, kindContainer t = true → isPtr t = false
  | .ptr _, h => by simp [kindContainer] at h
  | .bool, _ | .int _, _ | .float _, _ | .string, _ | .bytes, _ | .time, _ | .slice _, _ | .map _, _ | .struct _, _ | .named _, _
  | .defd _ _, _ | .array _ _, _ | .recs _, _ => by simp [isPtr]

theorem spineNamed_not_u8 : ∀ (t : GoType), spineNamed t = true → isU8 t = false
  | .defd _ t, h => by
      simp only [spineNamed, Bool.and_eq_true] at h
      simp only [isU8]; exact spineNamed_not_u8 t h.2
  | .int k, h => by simp [spineNamed] at h
  | .bool, _ | .float _, _ | .string, _ | .bytes, _ | .time, _ | .slice _, _ | .map _, _ | .struct _, _ | .named _, _
  | .ptr _, _ | .array _ _, _ | .recs _, _ => by simp [isU8]

/-- a defined type is described by what describes its underlying type -/
theorem relS_defd {Δ tn ok t n} (hp : isPtr t = false) : ∀ {s : Sch}, RelS Δ tn ok t s → RelS Δ tn ok (.defd n t) s
  | .ref m, h => by
      simp only [RelS] at h ⊢
      rw [stripPtr_of_not_ptr hp] at h
      simpa [stripPtr, under] using h
  | .node .., h => by
      refine relS_node_congr (by intro hh; simp [isPtr] at hh) ?_ h
      rw [stripPtr_of_not_ptr hp]; simp [stripPtr, under]

theorem spineRecs_not_u8 : ∀ (t : GoType), spineRecs t = true → isU8 t = false
  | .defd _ t, h => by
      simp only [spineRecs, Bool.and_eq_true] at h
      simp only [isU8]; exact spineRecs_not_u8 t h.2
  | .int k, h => by simp [spineRecs] at h
  | .bool, _ | .float _, _ | .string, _ | .bytes, _ | .time, _ | .slice _, _ | .map _, _ | .struct _, _ | .named _, _
  | .ptr _, _ | .array _ _, _ | .recs _, _ => by simp [isU8]

theorem cycleSch_rel {Δ : Decls} {o : Opts} {ok : String → Prop} : ∀ (e : GoType),
    spineNamed e = true → ok (cycleName o e) → RelS Δ (typeName o) ok e (cycleSch o e)
  | .ptr t, hs, hk => by
      simp only [cycleSch]
      exact relS_ptr_of_cyc (cycleSch_rel t (by simpa [spineNamed] using hs) (by simpa [cycleName] using hk))
        (cycleSch_isCyc o t)
  | .slice t, hs, hk => by
      simp only [spineNamed] at hs
      have h8 := spineNamed_not_u8 t hs
      simp only [cycleSch, arrWrap, RelS, stripPtr, isPtr, under, h8, Bool.false_eq_true, if_false]
      exact ⟨by simp, trivial, trivial, trivial, by simpa [RelO] using cycleSch_rel t hs (by simpa [cycleName] using hk)⟩
  | .map t, hs, hk => by
      simp only [spineNamed] at hs
      simp only [cycleSch, mapWrap, RelS, stripPtr, isPtr, under]
      exact ⟨by simp, trivial, trivial, trivial, by simpa [RelO] using cycleSch_rel t hs (by simpa [cycleName] using hk)⟩
  | .named n, _, hk => by
      simp only [cycleSch, goName, RelS, stripPtr, under]
      exact ⟨n, rfl, rfl, by simpa [cycleName, goName] using hk⟩
  | .defd n t, hs, hk => by
      simp only [spineNamed, Bool.and_eq_true] at hs
      simp only [cycleSch, hs.1, if_true]
      simp only [cycleName, hs.1, if_true] at hk
      exact relS_defd (kindContainer_not_ptr hs.1) (cycleSch_rel t hs.2 hk)
  | .bool, hs, _ | .int _, hs, _ | .float _, hs, _ | .string, hs, _ | .bytes, hs, _ | .time, hs, _
  | .struct _, hs, _ | .array _ _, hs, _ | .recs _, hs, _ => by
      simp [spineNamed] at hs

/-- the cycle schema of a spine that ends in a self-recursive container: wrappers around the unconstrained schema;
    it refers to no component -/
theorem cycleSch_rel_recs {Δ : Decls} {o : Opts} {ok : String → Prop} : ∀ (e : GoType),
    spineRecs e = true → RelS Δ (typeName o) ok e (cycleSch o e)
  | .ptr t, hs => by
      simp only [cycleSch]
      exact relS_ptr_of_cyc (cycleSch_rel_recs t (by simpa [spineRecs] using hs)) (cycleSch_isCyc o t)
  | .slice t, hs => by
      simp only [spineRecs] at hs
      have h8 : isU8 t = false := spineRecs_not_u8 t hs
      simp only [cycleSch, arrWrap, RelS, stripPtr, isPtr, under, h8, Bool.false_eq_true, if_false]
      exact ⟨by simp, trivial, trivial, trivial, by simpa [RelO] using cycleSch_rel_recs t hs⟩
  | .map t, hs => by
      simp only [spineRecs] at hs
      simp only [cycleSch, mapWrap, RelS, stripPtr, isPtr, under]
      exact ⟨by simp, trivial, trivial, trivial, by simpa [RelO] using cycleSch_rel_recs t hs⟩
  | .defd n t, hs => by
      simp only [spineRecs, Bool.and_eq_true] at hs
      simp only [cycleSch, hs.1, if_true]
      exact relS_defd (kindContainer_not_ptr hs.1) (cycleSch_rel_recs t hs.2)
  | .recs m, _ => by
      cases m <;> simp [cycleSch, arrWrap, mapWrap, emptySch, RelS, stripPtr, isPtr, under, RelO]
  | .bool, hs | .int _, hs | .float _, hs | .string, hs | .bytes, hs | .time, hs
  | .struct _, hs | .array _ _, hs | .named _, hs => by
      simp [spineRecs] at hs

/-! ### field list bookkeeping -/
theorem mem_insertCand {c x : Cand} : ∀ {l : List Cand}, x ∈ insertCand c l → x = c ∨ x ∈ l
  | [], h => by simp [insertCand] at h; exact Or.inl h
  | y :: ys, h => by
      simp only [insertCand] at h
      split at h
      · rcases List.mem_cons.mp h with h | h
        · exact Or.inl h
        · exact Or.inr h
      · rcases List.mem_cons.mp h with h | h
        · exact Or.inr (by simp [h])
        · rcases mem_insertCand h with h | h
          · exact Or.inl h
          · exact Or.inr (List.mem_cons_of_mem _ h)

theorem mem_sortCands_aux {x : Cand} : ∀ (l acc : List Cand), x ∈ l.foldl (fun acc c => insertCand c acc) acc → x ∈ acc ∨ x ∈ l
  | [], acc, h => Or.inl h
  | c :: cs, acc, h => by
      simp only [List.foldl] at h
      rcases mem_sortCands_aux cs _ h with h | h
      · rcases mem_insertCand h with h | h
        · exact Or.inr (by simp [h])
        · exact Or.inl h
      · exact Or.inr (List.mem_cons_of_mem _ h)

theorem mem_gcands {all : Bool} {fs : Fields} {x : Cand} (h : x ∈ gcands all fs) : x ∈ flat fs := by
  unfold gcands sortCands at h
  rcases mem_sortCands_aux _ _ h with h | h
  · cases h
  · exact (List.mem_filter.mp h).1

theorem propName_or (all : Bool) (c : Cand) : c.name = propName all c ∨ c.yaml = some (propName all c) := by
  unfold propName
  split
  · cases hy : c.yaml with
    | none => left; simp
    | some y => right; simp
  · left; rfl

theorem relProps_setProp {Δ tn ok cs k s} (hk : ∃ c, c ∈ cs ∧ (c.name = k ∨ c.yaml = some k) ∧ RelS Δ tn ok c.ty s) :
    ∀ {p : List (String × Sch)}, RelProps Δ tn ok cs p → RelProps Δ tn ok cs (setProp k s p)
  | [], _ => by simp only [setProp, RelProps]; exact ⟨hk, trivial⟩
  | (k', s') :: r, h => by
      simp only [RelProps] at h
      simp only [setProp]
      split
      · simp only [RelProps]; exact ⟨hk, h.2⟩
      · simp only [RelProps]; exact ⟨h.1, relProps_setProp hk h.2⟩


/-! ### the generator only adds component names and only raises the ghost flag -/
def okσ (σ : St) (n : String) : Prop := n ∈ σ.comps
def Mono (σ σ' : St) : Prop := (∀ n, n ∈ σ.comps → n ∈ σ'.comps) ∧ (σ'.anon = false → σ.anon = false)

theorem Mono.refl (σ : St) : Mono σ σ := ⟨fun _ h => h, fun h => h⟩
theorem Mono.trans {a b c : St} (h1 : Mono a b) (h2 : Mono b c) : Mono a c :=
  ⟨fun n h => h2.1 n (h1.1 n h), fun h => h1.2 (h2.2 h)⟩

theorem mem_addComp_self (n : String) (σ : St) : n ∈ (addComp n σ).comps := by
  by_cases h : n ∈ σ.comps
  · simp [addComp, h]
  · simp [addComp, h]
theorem mem_addComp_of_mem {m n : String} {σ : St} (h : m ∈ σ.comps) : m ∈ (addComp n σ).comps := by
  by_cases hc : n ∈ σ.comps
  · simp [addComp, hc, h]
  · simp [addComp, hc, h]

theorem note_mono (x : String) (σ : St) : Mono σ (note x σ) := ⟨fun _ h => h, fun h => h⟩

theorem childOf_mono (o : Opts) (e : GoType) (p : R × St) : Mono p.2 (childOf o e p).2 := by
  obtain ⟨r, σ⟩ := p
  cases r with
  | ok s => exact Mono.refl _
  | nofuel => exact Mono.refl _
  | excluded => exact Mono.refl _
  | err => exact Mono.refl _
  | cycle =>
    simp only [childOf]
    split
    · exact Mono.refl _
    · split
      · exact note_mono _ _
      · simp only [note]
        refine ⟨fun n h => mem_addComp_of_mem h, ?_⟩
        intro h
        simp only [addComp] at h
        cases ha : σ.anon with
        | false => rfl
        | true => simp [ha] at h

theorem finish_mono (t : GoType) (p : R × St) : Mono p.2 (finish t p).2 := by
  obtain ⟨r, σ⟩ := p
  cases r <;> exact ⟨fun _ h => h, fun h => h⟩
theorem sliceOf_snd (nl : Bool) (q : Child × St) : (sliceOf nl q).2 = q.2 := by
  obtain ⟨o, σ⟩ := q; cases o <;> rfl
theorem mapOf_snd (nl : Bool) (q : Child × St) : (mapOf nl q).2 = q.2 := by
  obtain ⟨o, σ⟩ := q; cases o <;> rfl
theorem finishR_mono (r : Bool) (t : GoType) (p : R × St) : Mono p.2 (finishR r t p).2 := by
  unfold finishR; split
  · exact Mono.refl _
  · exact finish_mono t p
theorem custom_mono (o : Opts) (nm : String) (p : R × St) : Mono p.2 (custom o nm p).2 := by
  obtain ⟨r, σ⟩ := p
  cases r <;> simp only [custom] <;> try exact Mono.refl _
  split <;> first | exact Mono.refl _ | exact note_mono _ _
theorem stepField_σ_mono (o : Opts) (c : Cand) (a : FAcc) (r : R × St) : Mono r.2 (stepField o c a r).σ := by
  have := childOf_mono o c.ty r
  unfold stepField
  split <;> rename_i heq <;> rw [heq] at this <;> exact this

theorem withCuts_mono (o : Opts) (n : String) (s : Sch) (a : FAcc) : Mono a.σ (withCuts o n s a) := by
  unfold withCuts; split <;> exact ⟨fun _ h => h, fun h => h⟩
theorem structOut_mono (o : Opts) (top : Bool) (n : String) (s : Sch) (σ1 : St) : Mono σ1 (structOut o top n s σ1).2 := by
  unfold structOut
  split
  · simp only [note]
    refine ⟨fun m h => mem_addComp_of_mem h, ?_⟩
    intro h
    simp only [addComp, Bool.or_eq_false_iff] at h
    exact h.1
  · exact ⟨fun _ h => h, fun h => h⟩
theorem structEnd_mono (o : Opts) (top : Bool) (nm : String) (nl : Bool) (n : String) (a : FAcc) :
    Mono a.σ (structEnd o top nm nl n a).2 := by
  unfold structEnd
  split
  · exact Mono.refl _
  · split
    · exact Mono.trans (withCuts_mono ..) (note_mono _ _)
    · exact withCuts_mono ..
    · exact Mono.trans (withCuts_mono ..) (structOut_mono ..)

theorem gen_mono (Δ : Decls) (o : Opts) : ∀ (f : Nat),
    (∀ ps nm t σ, Mono σ (genRef Δ o f ps nm t σ).2) ∧
    (∀ ps top nm nl b σ, Mono σ (genBody Δ o f ps top nm nl b σ).2) ∧
    (∀ ps cs a, Mono a.σ (genFields Δ o f ps cs a).σ)
  | 0 => by
      refine ⟨fun _ _ _ σ => by simp only [genRef]; exact Mono.refl σ, fun _ _ _ _ _ σ => by simp only [genBody]; exact Mono.refl σ, ?_⟩
      intro ps cs a
      cases cs <;> simp only [genFields] <;> exact Mono.refl _
  | f + 1 => by
      obtain ⟨ihR, ihB, ihF⟩ := gen_mono Δ o f
      refine ⟨?_, ?_, ?_⟩
      · intro ps nm t σ
        simp only [genRef]
        split
        · exact note_mono _ _
        · split
          · exact Mono.refl σ
          · exact Mono.trans (ihB _ _ _ _ _ σ) (finishR_mono _ t _)
      · intro ps top nm nl b σ
        cases b with
        | bool | int _ | float _ | string | bytes | time | array _ _ =>
          simp only [genBody]; exact custom_mono o nm (_, σ)
        | ptr _ => simp only [genBody]; exact Mono.refl σ
        | defd _ t => simp only [genBody]; split <;> first | exact Mono.refl σ | exact ihB _ _ _ _ _ σ
        | slice e =>
          simp only [genBody]
          split
          · exact custom_mono o nm (_, σ)
          · refine Mono.trans ?_ (custom_mono o nm _)
            rw [sliceOf_snd]; exact Mono.trans (ihR _ _ _ σ) (childOf_mono _ _ _)
        | map e =>
          simp only [genBody]
          refine Mono.trans ?_ (custom_mono o nm _)
          rw [mapOf_snd]; exact Mono.trans (ihR _ _ _ σ) (childOf_mono _ _ _)
        | recs m =>
          simp only [genBody]
          refine Mono.trans ?_ (custom_mono o nm _)
          cases m
          · simp only [Bool.false_eq_true, if_false]; rw [sliceOf_snd]; exact Mono.trans (ihR _ _ _ σ) (childOf_mono _ _ _)
          · simp only [if_true]; rw [mapOf_snd]; exact Mono.trans (ihR _ _ _ σ) (childOf_mono _ _ _)
        | struct fs =>
          simp only [genBody]
          split
          · exact ⟨fun _ h => h, fun h => by cases h⟩
          · exact Mono.trans (ihF _ _ { props := [], σ := σ }) (structEnd_mono ..)
        | named n =>
          simp only [genBody]
          split
          · exact note_mono _ _
          · exact Mono.trans (ihF _ _ { props := [], σ := σ }) (structEnd_mono ..)
      · intro ps cs a
        cases cs with
        | nil => simp only [genFields]; exact Mono.refl _
        | cons c cs =>
          simp only [genFields]
          refine Mono.trans ?_ (ihF ps cs _)
          exact Mono.trans (ihR _ _ _ a.σ) (stepField_σ_mono ..)

/-! ### invariants of the generator state -/
/-- an entry of `g.SchemaRefs` as the export loop sees it: (name, Go name of the type, schema): a named entry
    describes the declared struct of that Go name; every reference inside it is a registered name -/
def RefGood (Δ : Decls) (o : Opts) (σ : St) (e : String × String × Sch) : Prop :=
  (e.2.1 ≠ "" → RelS Δ (typeName o) (okσ σ) (.named e.2.1) e.2.2) ∧ (∀ r, r ∈ refNames e.2.2 → okσ σ r)

def Inv (Δ : Decls) (o : Opts) (σ : St) : Prop :=
  (∀ t s, (t, s) ∈ σ.cache → RelS Δ (typeName o) (okσ σ) t s) ∧ (∀ e, e ∈ σ.refs → RefGood Δ o σ e)

theorem refGood_mono {Δ o σ σ' e} (hm : ∀ n, n ∈ σ.comps → n ∈ σ'.comps) (h : RefGood Δ o σ e) : RefGood Δ o σ' e :=
  ⟨fun hn => relS_mono hm _ _ (h.1 hn), fun r hr => hm r (h.2 r hr)⟩

/-- building the invariant of a later state: same type table (or extended by good entries), references either old or good -/
theorem inv_build {Δ : Decls} {o : Opts} {σ σ' : St} (hm : ∀ n, n ∈ σ.comps → n ∈ σ'.comps)
    (hc : ∀ t s, (t, s) ∈ σ'.cache → (t, s) ∈ σ.cache ∨ RelS Δ (typeName o) (okσ σ') t s)
    (hr : ∀ e, e ∈ σ'.refs → e ∈ σ.refs ∨ RefGood Δ o σ' e) (h : Inv Δ o σ) : Inv Δ o σ' := by
  refine ⟨?_, ?_⟩
  · intro t s hmem
    rcases hc t s hmem with h1 | h1
    · exact relS_mono hm s t (h.1 t s h1)
    · exact h1
  · intro e hmem
    rcases hr e hmem with h1 | h1
    · exact refGood_mono hm (h.2 e h1)
    · exact h1

theorem inv_transport {Δ : Decls} {o : Opts} {σ σ' : St} (hc : σ'.cache = σ.cache) (hr : σ'.refs = σ.refs)
    (hm : ∀ n, n ∈ σ.comps → n ∈ σ'.comps) (h : Inv Δ o σ) : Inv Δ o σ' :=
  inv_build hm (fun t s hmem => Or.inl (by rw [← hc]; exact hmem)) (fun e hmem => Or.inl (by rw [← hr]; exact hmem)) h

/-- what `genBody` promises about its schema for the pointer-stripped type `b` when `nl` tells whether the position
    is a (non-root) pointer -/
def RelN (Δ : Decls) (tn : String → String) (ok : String → Prop) (b : GoType) (nl : Bool) : Sch → Prop
  | .ref m => ∃ n, under b = .named n ∧ tn n = m ∧ ok m
  | .node ty nl' fmt lo hi items props addl cyc =>
    (nl = true → nl' = true ∨ cyc = true) ∧ RelS Δ tn ok b (.node ty nl' fmt lo hi items props addl cyc)

theorem relN_use {Δ tn ok b nl} (hb : isPtr b = false) : ∀ {s : Sch}, RelN Δ tn ok b nl s →
    ∀ t0, stripPtr t0 = b → (isPtr t0 = true → nl = true) → RelS Δ tn ok t0 s
  | .ref m, h, t0, h0, _ => by simp only [RelN] at h; simp only [RelS, h0]; exact h
  | .node .., h, t0, h0, hn => by
      simp only [RelN] at h
      have h2 := h.2
      simp only [RelS] at h2 ⊢
      rw [h0]
      rw [stripPtr_of_not_ptr hb] at h2
      exact ⟨fun hp => h.1 (hn hp), h2.2⟩

theorem relN_mono {Δ tn b nl} {ok ok' : String → Prop} (hm : ∀ n, ok n → ok' n) : ∀ {s : Sch},
    RelN Δ tn ok b nl s → RelN Δ tn ok' b nl s
  | .ref m, h => by
      simp only [RelN] at h ⊢
      obtain ⟨n, h1, h2, h3⟩ := h
      exact ⟨n, h1, h2, hm _ h3⟩
  | .node .., h => by
      simp only [RelN] at h ⊢
      exact ⟨h.1, relS_mono hm _ _ h.2⟩

theorem relN_defd {Δ tn ok t nl n} (hp : isPtr t = false) : ∀ {s : Sch}, RelN Δ tn ok t nl s → RelN Δ tn ok (.defd n t) nl s
  | .ref m, h => by simpa [RelN, under] using h
  | .node .., h => by
      simp only [RelN] at h ⊢
      exact ⟨h.1, relS_defd hp h.2⟩

def GoodB (Δ : Decls) (o : Opts) (b : GoType) (nl : Bool) (p : R × St) : Prop :=
  Inv Δ o p.2 ∧ ∀ s, p.1 = .ok s → RelN Δ (typeName o) (okσ p.2) b nl s

theorem inv_note {Δ o x σ} (h : Inv Δ o σ) : Inv Δ o (note x σ) :=
  inv_transport (σ := σ) rfl rfl (fun _ h => h) h

theorem custom_good {Δ o nm b nl} {p : R × St} (h : GoodB Δ o b nl p) : GoodB Δ o b nl (custom o nm p) := by
  obtain ⟨r, σ⟩ := p
  cases r <;> simp only [custom] <;> try exact h
  split
  · exact h
  · exact ⟨inv_note h.1, fun s hs => by cases hs⟩
  · exact ⟨h.1, fun s hs => by cases hs⟩

theorem leaf_good {Δ o b nl σ ty fmt lo hi} (hi' : Inv Δ o σ)
    (hshape : RelS Δ (typeName o) (okσ σ) b (leaf ty nl fmt lo hi)) : GoodB Δ o b nl (.ok (leaf ty nl fmt lo hi), σ) :=
  ⟨hi', fun s hs => by cases hs; exact ⟨fun h => Or.inl h, hshape⟩⟩

/-- a generation result whose state satisfies the invariants and whose schema describes `t` -/
def GoodR (Δ : Decls) (o : Opts) (t : GoType) (p : R × St) : Prop :=
  Inv Δ o p.2 ∧ ∀ s, p.1 = .ok s → RelS Δ (typeName o) (okσ p.2) t s

theorem Fail.toR_ne_ok (r : Fail) (s : Sch) : r.toR ≠ .ok s := by cases r <;> simp [Fail.toR]

theorem childOf_good {Δ : Decls} {o : Opts} {e : GoType} {p : R × St} (h : GoodR Δ o e p)
    (ha : (childOf o e p).2.anon = false) :
    Inv Δ o (childOf o e p).2 ∧
    ∀ s, (childOf o e p).1 = .some s → RelS Δ (typeName o) (okσ (childOf o e p).2) e s := by
  obtain ⟨r, σ⟩ := p
  cases r with
  | ok s0 => exact ⟨h.1, fun s hs => by simp only [childOf, Child.some.injEq] at hs; subst hs; exact h.2 s0 rfl⟩
  | nofuel => exact ⟨h.1, fun s hs => by simp [childOf] at hs⟩
  | excluded => exact ⟨h.1, fun s hs => by simp [childOf] at hs⟩
  | err => exact ⟨h.1, fun s hs => by simp [childOf] at hs⟩
  | cycle =>
    by_cases hthrow : o.throwCycle = true
    · simp only [childOf, hthrow, if_true]
      exact ⟨h.1, fun s hs => by cases hs⟩
    · by_cases hrec : spineRecs e = true
      · simp only [childOf, hthrow, hrec, if_true, if_false]
        refine ⟨inv_note h.1, ?_⟩
        intro s hs
        have hs' : cycleSch o e = s := by simpa using hs
        subst hs'
        exact cycleSch_rel_recs e hrec
      · simp only [childOf, hthrow, hrec, if_false, note] at ha ⊢
        have hsp : spineNamed e = true := by
          simp only [addComp] at ha
          cases hs : spineNamed e with
          | true => rfl
          | false => simp [hs] at ha
        refine ⟨?_, ?_⟩
        · exact inv_transport (σ := σ) rfl rfl (fun n hn => mem_addComp_of_mem hn) h.1
        · intro s hs
          have hs' : cycleSch o e = s := by simpa using hs
          subst hs'
          exact cycleSch_rel e hsp (mem_addComp_self _ _)

theorem sliceOf_good {Δ : Decls} {o : Opts} {e : GoType} {nl : Bool} {q : Child × St} (h8 : isU8 e = false)
    (hi : Inv Δ o q.2) (hr : ∀ it, q.1 = .some it → RelS Δ (typeName o) (okσ q.2) e it) :
    GoodB Δ o (.slice e) nl (sliceOf nl q) := by
  obtain ⟨c, σ⟩ := q
  cases c with
  | some it =>
    refine ⟨hi, fun s hs => ?_⟩
    simp only [sliceOf, R.ok.injEq] at hs
    subst hs
    simp only [RelN, RelS, stripPtr, isPtr, under, h8, Bool.false_eq_true, if_false, RelO]
    exact ⟨fun h => Or.inl h, by simp, trivial, trivial, trivial, hr it rfl⟩
  | skip =>
    refine ⟨hi, fun s hs => ?_⟩
    simp only [sliceOf, R.ok.injEq] at hs
    subst hs
    simp only [RelN, RelS, stripPtr, isPtr, under, h8, Bool.false_eq_true, if_false, RelO]
    exact ⟨fun h => Or.inl h, by simp, trivial, trivial, trivial, trivial⟩
  | fail r => exact ⟨hi, fun s hs => absurd hs (Fail.toR_ne_ok r s)⟩

theorem mapOf_good {Δ : Decls} {o : Opts} {e : GoType} {nl : Bool} {q : Child × St}
    (hi : Inv Δ o q.2) (hr : ∀ it, q.1 = .some it → RelS Δ (typeName o) (okσ q.2) e it) :
    GoodB Δ o (.map e) nl (mapOf nl q) := by
  obtain ⟨c, σ⟩ := q
  cases c with
  | some it =>
    refine ⟨hi, fun s hs => ?_⟩
    simp only [mapOf, R.ok.injEq] at hs
    subst hs
    simp only [RelN, RelS, stripPtr, isPtr, under, RelO]
    exact ⟨fun h => Or.inl h, by simp, trivial, trivial, trivial, hr it rfl⟩
  | skip =>
    refine ⟨hi, fun s hs => ?_⟩
    simp only [mapOf, R.ok.injEq] at hs
    subst hs
    simp only [RelN, RelS, stripPtr, isPtr, under, RelO]
    exact ⟨fun h => Or.inl h, by simp, trivial, trivial, trivial, trivial⟩
  | fail r => exact ⟨hi, fun s hs => absurd hs (Fail.toR_ne_ok r s)⟩

theorem recsOf_good {Δ : Decls} {o : Opts} {m : Bool} {nl : Bool} {q : Child × St}
    (hi : Inv Δ o q.2) (hr : ∀ it, q.1 = .some it → RelS Δ (typeName o) (okσ q.2) (.recs m) it) :
    GoodB Δ o (.recs m) nl ((if m = true then mapOf nl else sliceOf nl) q) := by
  obtain ⟨c, σ⟩ := q
  cases m with
  | false =>
    simp only [Bool.false_eq_true, if_false]
    cases c with
    | fail x => exact ⟨hi, fun s hs => absurd hs (Fail.toR_ne_ok _ s)⟩
    | some it =>
      refine ⟨hi, fun s hs => ?_⟩
      simp only [sliceOf, R.ok.injEq] at hs; subst hs
      simp only [RelN, RelS, stripPtr, isPtr, under, Bool.false_eq_true, if_false, RelO]
      exact ⟨fun h => Or.inl h, by simp, trivial, Or.inr ⟨trivial, trivial, hr it rfl⟩⟩
    | skip =>
      refine ⟨hi, fun s hs => ?_⟩
      simp only [sliceOf, R.ok.injEq] at hs; subst hs
      simp only [RelN, RelS, stripPtr, isPtr, under, Bool.false_eq_true, if_false, RelO]
      exact ⟨fun h => Or.inl h, by simp, trivial, Or.inr ⟨trivial, trivial, trivial⟩⟩
  | true =>
    simp only [if_true]
    cases c with
    | fail x => exact ⟨hi, fun s hs => absurd hs (Fail.toR_ne_ok _ s)⟩
    | some it =>
      refine ⟨hi, fun s hs => ?_⟩
      simp only [mapOf, R.ok.injEq] at hs; subst hs
      simp only [RelN, RelS, stripPtr, isPtr, under, if_true, RelO]
      exact ⟨fun h => Or.inl h, by simp, trivial, Or.inr ⟨trivial, trivial, hr it rfl⟩⟩
    | skip =>
      refine ⟨hi, fun s hs => ?_⟩
      simp only [mapOf, R.ok.injEq] at hs; subst hs
      simp only [RelN, RelS, stripPtr, isPtr, under, if_true, RelO]
      exact ⟨fun h => Or.inl h, by simp, trivial, Or.inr ⟨trivial, trivial, trivial⟩⟩

theorem stepField_σ (o : Opts) (c : Cand) (a : FAcc) (r : R × St) : (stepField o c a r).σ = (childOf o c.ty r).2 := by
  unfold stepField
  split <;> rename_i heq <;> rw [heq]

theorem stepField_good {Δ : Decls} {o : Opts} {c : Cand} {a : FAcc} {cands0 : List Cand} {r : R × St}
    (hg : GoodR Δ o c.ty r) (hc : c ∈ cands0) (ha : (stepField o c a r).σ.anon = false)
    (hp : RelProps Δ (typeName o) (okσ a.σ) cands0 a.props) (hmono : ∀ n, okσ a.σ n → okσ r.2 n) :
    Inv Δ o (stepField o c a r).σ ∧
    RelProps Δ (typeName o) (okσ (stepField o c a r).σ) cands0 (stepField o c a r).props := by
  rw [stepField_σ] at ha
  obtain ⟨hi2, hr2⟩ := childOf_good hg ha
  have hm2 : ∀ n, okσ a.σ n → okσ (childOf o c.ty r).2 n := fun n hn => (childOf_mono o c.ty r).1 n (hmono n hn)
  refine ⟨by rw [stepField_σ]; exact hi2, ?_⟩
  rw [stepField_σ]
  unfold stepField
  generalize childOf o c.ty r = q at hr2 hm2 ⊢
  obtain ⟨ch, σ'⟩ := q
  cases ch with
  | some s =>
    simp only
    exact relProps_setProp ⟨c, hc, propName_or o.all c, hr2 s rfl⟩ (relProps_mono hm2 _ _ hp)
  | skip => simp only; exact relProps_mono hm2 _ _ hp
  | fail x => simp only; exact relProps_mono hm2 _ _ hp

theorem withCuts_inv {Δ : Decls} {o : Opts} {n : String} {s : Sch} {a : FAcc} (hi : Inv Δ o a.σ)
    (hn : n ≠ "" → RelS Δ (typeName o) (okσ a.σ) (.named n) s) (hrefs : ∀ r, r ∈ refNames s → okσ a.σ r) :
    Inv Δ o (withCuts o n s a) := by
  unfold withCuts
  split
  · refine inv_build (σ := a.σ) (fun _ h => h) (fun t s' hm => Or.inl hm) ?_ hi
    intro e hm
    simp only [List.mem_append, List.mem_map] at hm
    rcases hm with ⟨m, _, rfl⟩ | hm
    · exact Or.inr ⟨hn, hrefs⟩
    · exact Or.inl hm
  · exact hi

theorem withCuts_comps (o : Opts) (n : String) (s : Sch) (a : FAcc) : (withCuts o n s a).comps = a.σ.comps := by
  unfold withCuts; split <;> rfl

theorem structOut_good {Δ : Decls} {o : Opts} {top : Bool} {n : String} {b : GoType} {nl : Bool} {props : List (String × Sch)}
    {σ1 : St} (hi : Inv Δ o σ1) (hrel : RelS Δ (typeName o) (okσ σ1) b (structSch nl props))
    (hnm : n ≠ "" → b = .named n) (ha : (structOut o top n (structSch nl props) σ1).2.anon = false) :
    GoodB Δ o b nl (structOut o top n (structSch nl props) σ1) := by
  have hrefs := relS_refNames _ _ hrel
  unfold structOut at ha ⊢
  split
  · rename_i hex
    simp only [hex, if_true, note, addComp, Bool.or_eq_false_iff, beq_eq_false_iff_ne] at ha
    have hne : n ≠ "" := ha.2
    have hb := hnm hne
    have hmono : ∀ m, m ∈ σ1.comps → m ∈ (note "export.component" (addComp (typeName o n)
        { σ1 with refs := (typeName o n, n, structSch nl props) :: σ1.refs, anon := σ1.anon || n == "" })).comps :=
      fun m hm => mem_addComp_of_mem hm
    refine ⟨?_, ?_⟩
    · refine inv_build (σ := σ1) hmono (fun t s' hm => Or.inl hm) ?_ hi
      intro e hm
      simp only [note, addComp] at hm
      rcases List.mem_cons.mp hm with rfl | hm
      · refine Or.inr ⟨fun _ => ?_, fun r hr => hmono r (hrefs r hr)⟩
        simp only
        rw [← hb]
        exact relS_mono hmono _ _ hrel
      · exact Or.inl hm
    · intro s hs
      simp only [R.ok.injEq] at hs
      subst hs
      simp only [RelN]
      exact ⟨n, by rw [hb]; simp [under], rfl, mem_addComp_self _ _⟩
  · refine ⟨?_, ?_⟩
    · refine inv_build (σ := σ1) (fun _ h => h) (fun t s' hm => Or.inl hm) ?_ hi
      intro e hm
      rcases List.mem_cons.mp hm with rfl | hm
      · refine Or.inr ⟨fun hne => ?_, hrefs⟩
        simp only at hne ⊢
        rw [← hnm hne]
        exact hrel
      · exact Or.inl hm
    · intro s hs
      simp only [R.ok.injEq] at hs
      subst hs
      simp only [structSch, RelN]
      exact ⟨fun h => Or.inl h, hrel⟩

theorem structEnd_good {Δ : Decls} {o : Opts} {top : Bool} {nm : String} {n : String} {b : GoType} {nl : Bool} {a : FAcc}
    (hi : Inv Δ o a.σ) (hrel : RelS Δ (typeName o) (okσ a.σ) b (structSch nl a.props))
    (hnm : n ≠ "" → b = .named n) (ha : (structEnd o top nm nl n a).2.anon = false) :
    GoodB Δ o b nl (structEnd o top nm nl n a) := by
  have hrefs := relS_refNames _ _ hrel
  have hi1 : Inv Δ o (withCuts o n (structSch nl a.props) a) :=
    withCuts_inv hi (fun hne => by rw [← hnm hne]; exact hrel) hrefs
  unfold structEnd at ha ⊢
  split
  · exact ⟨hi, fun s hs => absurd hs (Fail.toR_ne_ok _ s)⟩
  · split
    · exact ⟨inv_note hi1, fun s hs => by cases hs⟩
    · exact ⟨hi1, fun s hs => by cases hs⟩
    · rename_i hf _ hcu
      simp only [hf, hcu] at ha
      refine structOut_good hi1 ?_ hnm ha
      refine relS_mono ?_ _ _ hrel
      intro m hm
      unfold okσ at hm ⊢
      rw [withCuts_comps]; exact hm

theorem finish_good {Δ : Decls} {o : Opts} {t : GoType} {ps : List GoType} {q : R × St}
    (hb : GoodB Δ o (stripPtr t) (isPtr t && !ps.isEmpty) q) :
    (∀ e, e ∈ (finish t q).2.refs → RefGood Δ o (finish t q).2 e) ∧
    (ps ≠ [] → Inv Δ o (finish t q).2) ∧
    (∀ s, (finish t q).1 = .ok s → RelS Δ (typeName o) (okσ (finish t q).2) (if ps.isEmpty then stripPtr t else t) s) := by
  obtain ⟨r, σb⟩ := q
  cases r with
  | ok s0 =>
    have hs0 := relN_use (isPtr_stripPtr t) (hb.2 s0 rfl)
    simp only [finish]
    refine ⟨fun e he => refGood_mono (σ := σb) (fun _ h => h) (hb.1.2 e he), ?_, ?_⟩
    · intro hps
      refine inv_build (σ := σb) (fun _ h => h) ?_ (fun e he => Or.inl he) hb.1
      intro t' s' hm
      rcases List.mem_cons.mp hm with h | h
      · cases h
        refine Or.inr (relS_mono (ok := okσ σb) (fun _ h => h) _ _ (hs0 t rfl ?_))
        intro hp
        cases hpe : ps with
        | nil => exact absurd hpe hps
        | cons x xs => simp [hp]
      · exact Or.inl h
    · intro s hs
      cases hs
      refine relS_mono (ok := okσ σb) (fun _ h => h) _ _ ?_
      split
      · exact hs0 (stripPtr t) (stripPtr_idem t) (by simp [isPtr_stripPtr])
      · rename_i hemp
        refine hs0 t rfl ?_
        intro hp
        simp [hp, hemp]
  | cycle => exact ⟨hb.1.2, fun _ => hb.1, fun s hs => by cases hs⟩
  | nofuel => exact ⟨hb.1.2, fun _ => hb.1, fun s hs => by cases hs⟩
  | excluded => exact ⟨hb.1.2, fun _ => hb.1, fun s hs => by cases hs⟩
  | err => exact ⟨hb.1.2, fun _ => hb.1, fun s hs => by cases hs⟩

theorem finishR_good {Δ : Decls} {o : Opts} {t : GoType} {ps : List GoType} {q : R × St}
    (hb : GoodB Δ o (stripPtr t) (isPtr t && !ps.isEmpty) q) :
    (∀ e, e ∈ (finishR ps.isEmpty t q).2.refs → RefGood Δ o (finishR ps.isEmpty t q).2 e) ∧
    (ps ≠ [] → Inv Δ o (finishR ps.isEmpty t q).2) ∧
    (∀ s, (finishR ps.isEmpty t q).1 = .ok s →
      RelS Δ (typeName o) (okσ (finishR ps.isEmpty t q).2) (if ps.isEmpty then stripPtr t else t) s) := by
  unfold finishR
  split
  · rename_i hc
    simp only [Bool.and_eq_true] at hc
    refine ⟨hb.1.2, fun _ => hb.1, ?_⟩
    intro s hs
    rw [if_pos hc.1]
    exact relN_use (isPtr_stripPtr t) (hb.2 s hs) (stripPtr t) (stripPtr_idem t) (by simp [isPtr_stripPtr])
  · exact finish_good hb

theorem structSch_rel_struct {Δ tn ok fs nl props} (h : RelProps Δ tn ok (flat fs) props) :
    RelS Δ tn ok (.struct fs) (structSch nl props) := by
  simp only [structSch, RelS, stripPtr, isPtr, under]
  refine ⟨by simp, ?_, trivial, trivial, h⟩
  split <;> simp
theorem structSch_rel_named {Δ tn ok n nl props} (h : RelProps Δ tn ok (flat ((lookup n Δ).getD [])) props) :
    RelS Δ tn ok (.named n) (structSch nl props) := by
  simp only [structSch, RelS, stripPtr, isPtr, under]
  refine ⟨by simp, ?_, trivial, trivial, h⟩
  split <;> simp

theorem gen_good (Δ : Decls) (o : Opts) : ∀ (f : Nat),
    (∀ ps nm t σ, Inv Δ o σ → (genRef Δ o f ps nm t σ).2.anon = false →
      (∀ e, e ∈ (genRef Δ o f ps nm t σ).2.refs → RefGood Δ o (genRef Δ o f ps nm t σ).2 e) ∧
      (ps ≠ [] → Inv Δ o (genRef Δ o f ps nm t σ).2) ∧
      (∀ s, (genRef Δ o f ps nm t σ).1 = .ok s →
        RelS Δ (typeName o) (okσ (genRef Δ o f ps nm t σ).2) (if ps.isEmpty then stripPtr t else t) s)) ∧
    (∀ ps top nm nl b σ, ps ≠ [] → isPtr b = false → Inv Δ o σ → (genBody Δ o f ps top nm nl b σ).2.anon = false →
      GoodB Δ o b nl (genBody Δ o f ps top nm nl b σ)) ∧
    (∀ ps cs a cands0, ps ≠ [] → Inv Δ o a.σ → (genFields Δ o f ps cs a).σ.anon = false →
      (∀ c, c ∈ cs → c ∈ cands0) → RelProps Δ (typeName o) (okσ a.σ) cands0 a.props →
      Inv Δ o (genFields Δ o f ps cs a).σ ∧
      RelProps Δ (typeName o) (okσ (genFields Δ o f ps cs a).σ) cands0 (genFields Δ o f ps cs a).props)
  | 0 => by
      refine ⟨?_, ?_, ?_⟩
      · intro ps nm t σ hi _
        simp only [genRef]
        exact ⟨hi.2, fun _ => hi, fun s hs => by cases hs⟩
      · intro ps top nm nl b σ _ _ hi _
        simp only [genBody]
        exact ⟨hi, fun s hs => by cases hs⟩
      · intro ps cs a cands0 _ hi _ _ hp
        cases cs <;> simp only [genFields] <;> exact ⟨hi, hp⟩
  | f + 1 => by
      obtain ⟨ihR, ihB, ihF⟩ := gen_good Δ o f
      obtain ⟨mR, mB, mF⟩ := gen_mono Δ o f
      -- a child position below a non-empty parent chain
      have child : ∀ ps nm e σ, ps ≠ [] → Inv Δ o σ → (childOf o e (genRef Δ o f ps nm e σ)).2.anon = false →
          Inv Δ o (childOf o e (genRef Δ o f ps nm e σ)).2 ∧
          ∀ s, (childOf o e (genRef Δ o f ps nm e σ)).1 = .some s →
            RelS Δ (typeName o) (okσ (childOf o e (genRef Δ o f ps nm e σ)).2) e s := by
        intro ps nm e σ hps hi ha
        have hc1 : (genRef Δ o f ps nm e σ).2.anon = false := (childOf_mono o e _).2 ha
        obtain ⟨_, h2, h3⟩ := ihR ps nm e σ hi hc1
        have hg : GoodR Δ o e (genRef Δ o f ps nm e σ) := ⟨h2 hps, fun s hs => by
          have := h3 s hs
          cases hpe : ps with
          | nil => exact absurd hpe hps
          | cons x xs => simpa [hpe] using this⟩
        exact childOf_good hg ha
      refine ⟨?_, ?_, ?_⟩
      · -- genRef
        intro ps nm t σ hi ha
        cases hl : (if o.cust = true then none else cacheLookup t σ.cache) with
        | some s0 =>
          simp only [genRef, hl] at ha ⊢
          have hl' : cacheLookup t σ.cache = some s0 := by
            split at hl
            · cases hl
            · exact hl
          have hrel := hi.1 t s0 (cacheLookup_mem hl')
          refine ⟨hi.2, fun _ => inv_note hi, ?_⟩
          intro s hs
          cases hs
          simp only [note]
          split
          · exact relS_strip' hrel
          · exact hrel
        | none =>
        simp only [genRef, hl] at ha ⊢
        by_cases hnp : inParents (stripPtr t) ps = true
        · simp only [hnp, if_true] at ha ⊢
          exact ⟨hi.2, fun _ => hi, fun s hs => by cases hs⟩
        · simp only [hnp, if_false, Bool.false_eq_true] at ha ⊢
          have hne : ps ++ [stripPtr t] ≠ [] := by simp
          have hqa := (finishR_mono _ t _).2 ha
          exact finishR_good (ihB _ _ _ _ _ σ hne (isPtr_stripPtr t) hi hqa)
      · -- genBody
        intro ps top nm nl b σ hps hpb hi ha
        cases b with
        | bool => simp only [genBody]; exact custom_good (leaf_good hi (by simp [RelS, leaf, stripPtr, isPtr, under]))
        | int k => simp only [genBody]; exact custom_good (leaf_good hi (by simp [RelS, leaf, stripPtr, isPtr, under]))
        | float k => simp only [genBody]; exact custom_good (leaf_good hi (by simp [RelS, leaf, stripPtr, isPtr, under]))
        | string => simp only [genBody]; exact custom_good (leaf_good hi (by simp [RelS, leaf, stripPtr, isPtr, under]))
        | bytes => simp only [genBody]; exact custom_good (leaf_good hi (by simp [RelS, leaf, stripPtr, isPtr, under]))
        | time => simp only [genBody]; exact custom_good (leaf_good hi (by simp [RelS, leaf, stripPtr, isPtr, under]))
        | array n e => simp only [genBody]; exact custom_good (leaf_good hi (by simp [RelS, leaf, stripPtr, isPtr, under]))
        | ptr x => simp [isPtr] at hpb
        | defd n t =>
          simp only [genBody] at ha ⊢
          by_cases hsk : isStructKind t = true
          · simp only [hsk, if_true]
            refine ⟨hi, fun s hs => ?_⟩
            cases hs
            unfold isStructKind at hsk
            simp only [RelN, leaf, RelS, stripPtr, isPtr, under]
            refine ⟨fun h => Or.inl h, by simp, ?_⟩
            cases hu : under t <;> simp [hu] at hsk ⊢ <;> simp [RelProps]
          simp only [hsk, if_false, Bool.false_eq_true] at ha ⊢
          by_cases hp : isPtr t = true
          · obtain ⟨x, rfl⟩ := isPtr_elim hp
            cases f with
            | zero => simp only [genBody]; exact ⟨hi, fun s hs => by cases hs⟩
            | succ f' =>
              simp only [genBody]
              refine ⟨hi, fun s hs => ?_⟩
              cases hs
              simp only [RelN, leaf, RelS, stripPtr, isPtr, under]
              exact ⟨fun h => Or.inl h, by simp, trivial, trivial, trivial, trivial⟩
          · have hp' : isPtr t = false := by cases h : isPtr t with | true => exact absurd h hp | false => rfl
            obtain ⟨h1, h2⟩ := ihB ps top nm nl t σ hps hp' hi ha
            exact ⟨h1, fun s hs => relN_defd hp' (h2 s hs)⟩
        | slice e =>
          simp only [genBody] at ha ⊢
          by_cases h8 : isU8 e = true
          · simp only [h8, if_true]
            exact custom_good (leaf_good hi (by simp [RelS, leaf, stripPtr, isPtr, under, h8]))
          · have h8' : isU8 e = false := by cases h : isU8 e with | true => exact absurd h h8 | false => rfl
            simp only [h8', Bool.false_eq_true, if_false] at ha ⊢
            apply custom_good
            have ha2 := (custom_mono o nm _).2 ha
            rw [sliceOf_snd] at ha2
            obtain ⟨hi2, hr2⟩ := child ps nm e σ hps hi ha2
            exact sliceOf_good h8' hi2 hr2
        | map e =>
          simp only [genBody] at ha ⊢
          apply custom_good
          have ha2 := (custom_mono o nm _).2 ha
          rw [mapOf_snd] at ha2
          obtain ⟨hi2, hr2⟩ := child ps nm e σ hps hi ha2
          exact mapOf_good hi2 hr2
        | recs m =>
          simp only [genBody] at ha ⊢
          apply custom_good
          have ha2 := (custom_mono o nm _).2 ha
          have ha3 : (childOf o (.recs m) (genRef Δ o f ps nm (.recs m) σ)).2.anon = false := by
            cases m
            · simp only [Bool.false_eq_true, if_false] at ha2; rw [sliceOf_snd] at ha2; exact ha2
            · simp only [if_true] at ha2; rw [mapOf_snd] at ha2; exact ha2
          obtain ⟨hi2, hr2⟩ := child ps nm (.recs m) σ hps hi ha3
          exact recsOf_good hi2 hr2
        | struct fs =>
          simp only [genBody] at ha ⊢
          split at ha <;> rename_i hearly <;> simp only [hearly, if_true, if_false] at ha ⊢
          · -- an anonymous struct replaced by the component "": the ghost flag is raised
            simp [note] at ha
          · have ha2 := (structEnd_mono ..).2 ha
            obtain ⟨hi2, hp2⟩ := ihF ps (gcands o.all fs) { props := [], σ := σ } (flat fs) hps hi ha2
              (fun c hc => mem_gcands hc) (by simp [RelProps])
            exact structEnd_good hi2 (structSch_rel_struct hp2) (fun h => absurd rfl h) ha
        | named n =>
          simp only [genBody] at ha ⊢
          split at ha <;> rename_i hearly <;> simp only [hearly, if_true, if_false] at ha ⊢
          · refine ⟨inv_note hi, fun s hs => ?_⟩
            cases hs
            simp only [RelN, under, note]
            simp only [Bool.and_eq_true] at hearly
            exact ⟨n, rfl, rfl, by simpa [okσ] using hearly.2⟩
          · have ha2 := (structEnd_mono ..).2 ha
            obtain ⟨hi2, hp2⟩ := ihF ps (gcands o.all ((lookup n Δ).getD [])) { props := [], σ := σ }
              (flat ((lookup n Δ).getD [])) hps hi ha2 (fun c hc => mem_gcands hc) (by simp [RelProps])
            exact structEnd_good hi2 (structSch_rel_named hp2) (fun _ => rfl) ha
      · -- genFields
        intro ps cs a cands0 hps hi ha hsub hp
        cases cs with
        | nil => simp only [genFields]; exact ⟨hi, hp⟩
        | cons c cs =>
          simp only [genFields] at ha ⊢
          have ha1 : (stepField o c a (genRef Δ o f ps (propName o.all c) c.ty a.σ)).σ.anon = false := (mF ps cs _).2 ha
          have ha1' := ha1
          rw [stepField_σ] at ha1'
          have hc1 : (genRef Δ o f ps (propName o.all c) c.ty a.σ).2.anon = false := (childOf_mono o c.ty _).2 ha1'
          obtain ⟨_, h2, h3⟩ := ihR ps (propName o.all c) c.ty a.σ hi hc1
          have hg : GoodR Δ o c.ty (genRef Δ o f ps (propName o.all c) c.ty a.σ) := ⟨h2 hps, fun s hs => by
            have := h3 s hs
            cases hpe : ps with
            | nil => exact absurd hpe hps
            | cons x xs => simpa [hpe] using this⟩
          obtain ⟨hi1, hp1⟩ := stepField_good (a := a) hg (hsub c (by simp)) ha1 hp (fun n hn => (mR ps _ c.ty a.σ).1 n hn)
          exact ihF ps cs _ cands0 hps hi1 ha (fun c' hc' => hsub c' (List.mem_cons_of_mem _ hc')) hp1

/-! ### root level: pointer stripping of type and value -/
theorem hered_strip (bad : List Cand → Bool) : ∀ (t : GoType), hered bad (stripPtr t) = hered bad t
  | .ptr t => by simp only [stripPtr, hered]; exact hered_strip bad t
  | .bool | .int _ | .float _ | .string | .bytes | .time | .slice _ | .map _ | .struct _ | .named _
  | .defd _ _ | .array _ _ | .recs _ => by simp [stripPtr]

theorem heredAll_strip (bad : List Cand → Bool) (Δ : Decls) (t : GoType) :
    heredAll bad Δ (stripPtr t) = heredAll bad Δ t := by
  simp only [heredAll, hered_strip]

/-- a value that does not encode as `null` is, below its non-nil root pointers, a value of the stripped type
    with the same encoding -/
theorem strip_value (Δ : Decls) : ∀ (v : GoVal) (t : GoType), hasTypeB Δ t v = true → encode Δ t v ≠ .null →
    ∃ v', hasTypeB Δ (stripPtr t) v' = true ∧ encode Δ (stripPtr t) v' = encode Δ t v
  | .ref v, t, ht, hn => by
      simp only [hasTypeB, Bool.and_eq_true] at ht
      obtain ⟨t', rfl⟩ := isPtr_elim ht.1
      simp only [elemOf] at ht
      simp only [encode, elemOf, stripPtr] at hn ⊢
      exact strip_value Δ v t' ht.2 hn
  | .nil, t, _, hn => by simp [encode] at hn
  | .b x, t, ht, _ => by
      have hp : isPtr t = false := by
        cases h : isPtr t with
        | false => rfl
        | true => obtain ⟨x, rfl⟩ := isPtr_elim h; simp [hasTypeB, under] at ht
      exact ⟨.b x, by rw [stripPtr_of_not_ptr hp]; exact ht, by rw [stripPtr_of_not_ptr hp]⟩
  | .i x, t, ht, _ => by
      have hp : isPtr t = false := by
        cases h : isPtr t with
        | false => rfl
        | true => obtain ⟨x, rfl⟩ := isPtr_elim h; simp [hasTypeB, under] at ht
      exact ⟨.i x, by rw [stripPtr_of_not_ptr hp]; exact ht, by rw [stripPtr_of_not_ptr hp]⟩
  | .f m e, t, ht, _ => by
      have hp : isPtr t = false := by
        cases h : isPtr t with
        | false => rfl
        | true => obtain ⟨x, rfl⟩ := isPtr_elim h; simp [hasTypeB, under] at ht
      exact ⟨.f m e, by rw [stripPtr_of_not_ptr hp]; exact ht, by rw [stripPtr_of_not_ptr hp]⟩
  | .s x, t, ht, _ => by
      have hp : isPtr t = false := by
        cases h : isPtr t with
        | false => rfl
        | true => obtain ⟨x, rfl⟩ := isPtr_elim h; simp [hasTypeB, under] at ht
      exact ⟨.s x, by rw [stripPtr_of_not_ptr hp]; exact ht, by rw [stripPtr_of_not_ptr hp]⟩
  | .bytes x, t, ht, _ => by
      have hp : isPtr t = false := by
        cases h : isPtr t with
        | false => rfl
        | true => obtain ⟨x, rfl⟩ := isPtr_elim h; simp [hasTypeB, isBytesTy] at ht
      exact ⟨.bytes x, by rw [stripPtr_of_not_ptr hp]; exact ht, by rw [stripPtr_of_not_ptr hp]⟩
  | .time x, t, ht, _ => by
      have hp : isPtr t = false := by
        cases h : isPtr t with
        | false => rfl
        | true => obtain ⟨x, rfl⟩ := isPtr_elim h; simp [hasTypeB] at ht
      exact ⟨.time x, by rw [stripPtr_of_not_ptr hp]; exact ht, by rw [stripPtr_of_not_ptr hp]⟩
  | .slice vs, t, ht, _ => by
      have hp : isPtr t = false := by
        cases h : isPtr t with
        | false => rfl
        | true => obtain ⟨x, rfl⟩ := isPtr_elim h; simp [hasTypeB, under] at ht
      exact ⟨.slice vs, by rw [stripPtr_of_not_ptr hp]; exact ht, by rw [stripPtr_of_not_ptr hp]⟩
  | .map kvs, t, ht, _ => by
      have hp : isPtr t = false := by
        cases h : isPtr t with
        | false => rfl
        | true => obtain ⟨x, rfl⟩ := isPtr_elim h; simp [hasTypeB, under] at ht
      exact ⟨.map kvs, by rw [stripPtr_of_not_ptr hp]; exact ht, by rw [stripPtr_of_not_ptr hp]⟩
  | .struct vs, t, ht, _ => by
      have hp : isPtr t = false := by
        cases h : isPtr t with
        | false => rfl
        | true => obtain ⟨x, rfl⟩ := isPtr_elim h; simp [hasTypeB] at ht
      exact ⟨.struct vs, by rw [stripPtr_of_not_ptr hp]; exact ht, by rw [stripPtr_of_not_ptr hp]⟩

theorem hasProps_node {s : Sch} (h : hasProps s = true) : ∃ ty nl fmt lo hi it pr ad cyc, s = .node ty nl fmt lo hi it pr ad cyc := by
  cases s with
  | ref n => simp [hasProps] at h
  | node ty nl fmt lo hi it pr ad cyc => exact ⟨_, _, _, _, _, _, _, _, _, rfl⟩

theorem okΓ_of_complete {σ : St} {Γ : Comps} (hc : Complete σ Γ) : ∀ n, okσ σ n → okΓ Γ n := by
  intro n hn
  obtain ⟨s, hl, hp⟩ := hc n hn
  obtain ⟨ty, nl, fmt, lo, hi, it, pr, ad, cyc, rfl⟩ := hasProps_node hp
  exact ⟨.node ty nl fmt lo hi it pr ad cyc, by simp [resolve, hl]⟩

theorem mem_candidatesFor {σ : St} {m : String} {s : Sch} (h : s ∈ candidatesFor σ m) :
    hasProps s = true ∧ ∃ n, (m, n, s) ∈ σ.refs := by
  simp only [candidatesFor, List.mem_map, List.mem_filter, Bool.and_eq_true, beq_iff_eq] at h
  obtain ⟨⟨m', n, s'⟩, ⟨hm, hn, hp⟩, rfl⟩ := h
  simp only at hn hp
  subst hn
  exact ⟨hp, n, hm⟩

/-- a struct schema with properties belongs to a declared struct -/
theorem declared_of_props {Δ tn ok n s} (h : RelS Δ tn ok (.named n) s) (hp : hasProps s = true) :
    (lookup n Δ).isSome = true := by
  obtain ⟨ty, nl, fmt, lo, hi, it, pr, ad, cyc, rfl⟩ := hasProps_node hp
  simp only [RelS, stripPtr, under] at h
  obtain ⟨_, _, _, _, hrel⟩ := h
  cases pr with
  | nil => simp [hasProps] at hp
  | cons kv rest =>
    obtain ⟨k, s'⟩ := kv
    simp only [RelProps] at hrel
    obtain ⟨⟨c, hc, _⟩, _⟩ := hrel
    cases hl : lookup n Δ with
    | some fs => rfl
    | none => simp [hl, flat, flatFs] at hc

/-- the export loop fills every registered name that has a candidate; if every registered name has one, the map is complete -/
theorem complete_of_loop {σ : St} {Γ : Comps} (hl : LoopResult σ Γ) (hd : danglingB σ = false) : Complete σ Γ := by
  intro n hn
  have hne : candidatesFor σ n ≠ [] := by
    unfold danglingB at hd
    rw [List.any_eq_false] at hd
    have := hd n hn
    intro he
    simp [he] at this
  obtain ⟨s, hs⟩ := hl.2 n hn hne
  exact ⟨s, hs, (mem_candidatesFor (hl.1 n s hs).2).1⟩

/-- outside `WrongComponent` every candidate of a registered name is the schema of the struct it is named after -/
theorem wrong_false {o : Opts} {σ : St} (hw : wrongCandB o σ = false) {m n : String} {s : Sch}
    (hmem : (m, n, s) ∈ σ.refs) (hc : m ∈ σ.comps) (hp : hasProps s = true) : n ≠ "" ∧ typeName o n = m := by
  simp only [wrongCandB, Bool.or_eq_false_iff] at hw
  have h2 := hw.2
  rw [List.any_eq_false] at h2
  have := h2 (m, n, s) hmem
  simp only [Bool.and_eq_true, not_and, Bool.not_eq_true] at this
  have h3 := this ⟨by simpa using hc, hp⟩
  simp only [Bool.or_eq_false_iff, beq_eq_false_iff_ne, bne_eq_false_iff_eq] at h3
  exact ⟨h3.1, by simpa using h3.2⟩

end KinModel.Gen3
