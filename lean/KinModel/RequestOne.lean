/-
ONE request, from which the per-parameter views of the C05 model (`Style.Req`) are projected.

`Style.validateParameter p r` (C05) takes what the request carries *for the parameter `p`*; the composition of C07
(`Props/C07Compose.lean`: `Wiring.carry`) left that an arbitrary function of `p`. Here the request is one value
(`HttpReq`: `input.PathParams`, `input.GetQueryParams()`, `req.Header`, `req.Cookies()`), and `view r p` is what the
decoders of openapi3filter/req_resp_decoder.go look up in it for `p`:
  * path:   `input.PathParams[param.Name]`                                    (pathParamDecoder)
  * query:  the whole of `input.GetQueryParams()`                              (urlValuesDecoder)
  * header: `req.Header[http.CanonicalHeaderKey(param.Name)]`                 (headerParamDecoder)
  * cookie: `req.Cookie(param.Name)`, the first cookie of that name            (cookieParamDecoder)
The views of all parameters of one validation are projections of the same `HttpReq`.
-/
import KinModel.Style
namespace KinModel.RequestOne
open KinModel

abbrev Str := Style.Str

structure HttpReq where
  /-- `input.PathParams` (a Go map: the first entry of a name is the entry) -/
  pathParams : List (Str × Str) := []
  /-- `input.GetQueryParams()`: name ↦ values -/
  query      : List (Str × List Str) := []
  /-- `req.Header`: canonical key ↦ values -/
  headers    : List (Str × List Str) := []
  /-- `req.Cookies()`, in order -/
  cookies    : List (Str × Str) := []
  deriving DecidableEq, Repr

def assoc {α : Type} (k : Str) : List (Str × α) → Option α
  | [] => none
  | kv :: r => if kv.1 = k then some kv.2 else assoc k r

/-- the bytes `textproto.CanonicalMIMEHeaderKey` accepts in a key -/
def tokenChar (c : Char) : Bool :=
  c.isAlphanum || "!#$%&'*+-.^_`|~".toList.contains c

def canonGo (up : Bool) : List Char → List Char
  | [] => []
  | c :: r => (if up then c.toUpper else c.toLower) :: canonGo (c == '-') r

/-- `http.CanonicalHeaderKey`: first letter and every letter after a hyphen upper case, the rest lower case; a key
with a byte that is no token character is returned unchanged -/
def canonHeader (k : Str) : Str := if k.all tokenChar then canonGo true k else k

/-- what the request carries for the parameter named `name` -/
def viewName (r : HttpReq) (name : Str) : Style.Req :=
  { path := assoc name r.pathParams,
    query := r.query,
    header := assoc (canonHeader name) r.headers,
    cookie := assoc name r.cookies,
    pathOthers := !r.pathParams.isEmpty && (assoc name r.pathParams).isNone }

def view (r : HttpReq) (p : Style.Param) : Style.Req := viewName r p.name

/-- `req.Header.Add(k, v)` for a key without values so far / `Set` : put the values under the canonical key -/
def setHeader (r : HttpReq) (k : Str) (vs : List Str) : HttpReq :=
  { r with headers := (canonHeader k, vs) :: r.headers.filter (fun kv => kv.1 ≠ canonHeader k) }

/-- a further cookie at the end of the Cookie header -/
def addCookie (r : HttpReq) (k v : Str) : HttpReq := { r with cookies := r.cookies ++ [(k, v)] }

end KinModel.RequestOne
