/-
Model of openapi3filter/middleware.go (`Validator.Middleware`, `strictResponseWrapper`,
`warnResponseWrapper`) and of the request gate of openapi3filter/validation_handler.go
(`ValidationHandler.ServeHTTP` / `Middleware` / `before` / `validateRequest`).

What is modelled, branch by branch:
  * `Client` — the client-side http.ResponseWriter (net/http server response and httptest.ResponseRecorder
    agree on all of this): the first WriteHeader wins and snapshots the header map; a WriteHeader code outside
    100..999 panics (only when no status was fixed before); Write implies WriteHeader(200) and appends;
    Flush implies WriteHeader(200); the header map stays live (shared with the wrappers). A panic is an
    explicit outcome: `panicked` is sticky and every later call is a no-op (Go unwinds the stack, nothing
    further reaches the writer).
  * transport: `Client.server` — a real net/http server treats WriteHeader(1xx, except 101) as an informational
    response: it is sent at once (`info`) and fixes nothing; httptest.ResponseRecorder treats it as the final status.
  * handler = arbitrary list of `Op` (Header().Set / Header().Del / WriteHeader n / Write bytes / Flush-if-Flusher /
    panic). A panic freezes the client's writer (Go unwinds through Middleware, which has no recover: no validation,
    no flush, no ErrFunc). Calls listed after a `panic` do not exist in Go; the model lets them update the abandoned
    wrapper's private fields, which nothing reads any more (the middleware returns on `panicked` first).
  * `Strict` — strictResponseWrapper: WriteHeader records the first status only (an informational code while
    nothing is recorded is dropped); Write records 200 when none
    was recorded and buffers; Header() is the client's map; no http.Flusher (the handler's type assertion
    fails, Flush is a no-op); flushBodyContents forwards the recorded status only when one was recorded,
    then writes the buffer (also when empty).
  * `Warn` — warnResponseWrapper: WriteHeader records the first status and forwards *the recorded* status (an
    informational code while nothing is recorded is forwarded as it is and not recorded);
    Write forwards WriteHeader(200) first when nothing was recorded, then tees to client and buffer;
    Flush passes through (without touching the wrapper's own state).
  * `validatedStatus` — the status handed to ValidateResponse: the wrapper's recorded status, 200 when that
    is 0 (nothing recorded — or WriteHeader(0) recorded; the code tests `status == 0`).
  * `middleware` — FindRoute error → log + errFunc(404, ErrCodeCannotFindRoute), return; ValidateRequest
    error → log + errFunc(400, ErrCodeRequestInvalid), return; handler against the wrapper; ValidateResponse
    on (wrapper status, shared header map, wrapper buffer); error → log, and errFunc(500,
    ErrCodeResponseInvalid) on the raw writer in strict mode; otherwise flushBodyContents.
  * `vhandler` — ValidationHandler: validateRequest error → ErrorEncoder on the raw writer, handler not
    called; otherwise the handler runs on the raw writer.
What is abstracted (inputs of the model): whether FindRoute / ValidateRequest succeed, the verdict of
ValidateResponse as a function `respOK status headers body`, what the ErrFunc / ErrorEncoder callback
writes (`errOps`, an arbitrary op list run against the raw writer; `defaultErrOps` is http.Error).
-/
import KinModel.Request
namespace KinModel.Middleware

abbrev Bytes := List Char
abbrev Hdr := List (String × String)

def hset (h : Hdr) (k v : String) : Hdr := h.filter (fun p => p.1 != k) ++ [(k, v)]
def hdel (h : Hdr) (k : String) : Hdr := h.filter (fun p => p.1 != k)
def hget (h : Hdr) (k : String) : Option String := (h.find? (fun p => p.1 == k)).map (·.2)

/-- what the client-side http.ResponseWriter has received -/
structure Client where
  server   : Bool := false        -- transport: real net/http server (true) / httptest.ResponseRecorder (false)
  status   : Option Nat := none   -- fixed by the first final WriteHeader (explicit or implied)
  info     : List Nat := []       -- informational responses already on the wire (real server only)
  body     : Bytes := []
  hdr      : Hdr := []            -- live header map, shared with the wrappers
  sent     : Hdr := []            -- snapshot taken when the status was fixed
  flushed  : Bool := false
  panicked : Bool := false
  deriving DecidableEq, Repr

/-- net/http checkWriteHeaderCode -/
def validCode (n : Nat) : Bool := decide (100 ≤ n) && decide (n ≤ 999)

/-- net/http (*response).WriteHeader: `code >= 100 && code <= 199 && code != StatusSwitchingProtocols` is written
out immediately as an informational response and does not set wroteHeader -/
def isInfo (n : Nat) : Bool := decide (100 ≤ n) && decide (n ≤ 199) && n != 101

def Client.init (server : Bool) : Client := { server := server }

def Client.writeHeader (c : Client) (n : Nat) : Client :=
  if c.panicked then c else
  match c.status with
  | some _ => c
  | none =>
    if !validCode n then { c with panicked := true }
    else if c.server && isInfo n then { c with info := c.info ++ [n] }
    else { c with status := some n, sent := c.hdr }

/-- the handler (or a callback) panics: nothing further reaches this writer -/
def Client.abort (c : Client) : Client := { c with panicked := true }

def Client.write (c : Client) (bs : Bytes) : Client :=
  if c.panicked then c else
  let c1 := c.writeHeader 200
  { c1 with body := c1.body ++ bs }

def Client.flush (c : Client) : Client :=
  if c.panicked then c else
  let c1 := c.writeHeader 200
  { c1 with flushed := true }

def Client.setHdr (c : Client) (k v : String) : Client :=
  if c.panicked then c else { c with hdr := hset c.hdr k v }

def Client.delHdr (c : Client) (k : String) : Client :=
  if c.panicked then c else { c with hdr := hdel c.hdr k }

/-- one call of the handler on its http.ResponseWriter -/
inductive Op
  | setHdr (k v : String)
  | delHdr (k : String)
  | writeHeader (n : Nat)
  | write (bs : Bytes)
  | flush
  | panic
  deriving DecidableEq, Repr

/-- the handler run directly against the client's writer -/
def direct (c : Client) : Op → Client
  | .setHdr k v => c.setHdr k v
  | .delHdr k => c.delHdr k
  | .writeHeader n => c.writeHeader n
  | .write bs => c.write bs
  | .flush => c.flush
  | .panic => c.abort

def runDirect (c : Client) (ops : List Op) : Client := ops.foldl direct c

/-- only the header-map calls of the handler (used to state what a wrapper lets through) -/
def hdrStep (c : Client) : Op → Client
  | .setHdr k v => c.setHdr k v
  | .delHdr k => c.delHdr k
  | .panic => c.abort
  | _ => c

/-- the status the handler's calls fix: the first WriteHeader's code — on a real server (`server`) informational
codes fix nothing and are skipped —, 200 when a Write comes first; with `flushCounts` a Flush fixes 200 as well
(raw net/http writer), without it Flush is ignored (a wrapper that is not an http.Flusher) -/
def firstStatus (server flushCounts : Bool) : List Op → Option Nat
  | [] => none
  | .writeHeader n :: ops => if server && isInfo n then firstStatus server flushCounts ops else some n
  | .write _ :: _ => some 200
  | .flush :: ops => if flushCounts then some 200 else firstStatus server flushCounts ops
  | _ :: ops => firstStatus server flushCounts ops

/-- the status the wrappers record: the code of the first WriteHeader call that is not informational (none: the
handler never called WriteHeader with a final code, nor Write) -/
def wroteStatus (ops : List Op) : Option Nat := firstStatus true false ops

/-- the status the handler wrote, by net/http's reading of its calls (informational codes fix nothing); the
transport argument is kept for the statements' shape: a ResponseRecorder's own reading (1xx is final) is not what
the property means by "the status the handler wrote" -/
def handlerStatus (_server : Bool) (ops : List Op) : Option Nat := firstStatus true false ops

/-- all bytes the handler passed to Write, in order -/
def written : List Op → Bytes
  | [] => []
  | .write bs :: ops => bs ++ written ops
  | _ :: ops => written ops

/-! ### strictResponseWrapper -/

structure Strict where
  headerWritten : Bool := false
  status : Nat := 0
  buf : Bytes := []
  client : Client := {}
  deriving DecidableEq, Repr

def Strict.step (w : Strict) : Op → Strict
  | .setHdr k v => { w with client := w.client.setHdr k v }
  | .delHdr k => { w with client := w.client.delHdr k }
  | .writeHeader n =>
    -- `if !wr.headerWritten && isInformational(status) { return }`: the hint is dropped, nothing is recorded
    if w.headerWritten then w else if isInfo n then w else { w with status := n, headerWritten := true }
  | .write bs =>
    let w1 := if w.headerWritten then w else { w with status := 200, headerWritten := true }
    { w1 with buf := w1.buf ++ bs }
  | .flush => w
  | .panic => { w with client := w.client.abort }

def Strict.run (w : Strict) (ops : List Op) : Strict := ops.foldl Strict.step w

/-- flushBodyContents -/
def Strict.flushOut (w : Strict) : Client :=
  (if w.headerWritten then w.client.writeHeader w.status else w.client).write w.buf

/-! ### warnResponseWrapper -/

structure Warn where
  headerWritten : Bool := false
  status : Nat := 0
  buf : Bytes := []
  client : Client := {}
  deriving DecidableEq, Repr

def Warn.writeHeader (w : Warn) (n : Nat) : Warn :=
  -- `if !wr.headerWritten && isInformational(status) { wr.w.WriteHeader(status); return }`
  if !w.headerWritten && isInfo n then { w with client := w.client.writeHeader n } else
  let w1 := if w.headerWritten then w else { w with status := n, headerWritten := true }
  { w1 with client := w1.client.writeHeader w1.status }

def Warn.step (w : Warn) : Op → Warn
  | .setHdr k v => { w with client := w.client.setHdr k v }
  | .delHdr k => { w with client := w.client.delHdr k }
  | .writeHeader n => w.writeHeader n
  | .write bs =>
    let w1 := if w.headerWritten then w else w.writeHeader 200
    { w1 with client := w1.client.write bs, buf := w1.buf ++ bs }
  | .flush => { w with client := w.client.flush }
  | .panic => { w with client := w.client.abort }

def Warn.run (w : Warn) (ops : List Op) : Warn := ops.foldl Warn.step w

/-! ### Validator.Middleware -/

inductive ErrCode | cannotFindRoute | requestInvalid | responseInvalid
  deriving DecidableEq, Repr

def ErrCode.num : ErrCode → Nat
  | .cannotFindRoute => 1 | .requestInvalid => 2 | .responseInvalid => 3

/-- the HTTP status the middleware passes to ErrFunc together with the code -/
def ErrCode.httpStatus : ErrCode → Nat
  | .cannotFindRoute => 404 | .requestInvalid => 400 | .responseInvalid => 500

def ErrCode.text : ErrCode → String
  | .cannotFindRoute => "not found" | .requestInvalid => "bad request" | .responseInvalid => "server error"

inductive LogKind | route | request | response
  deriving DecidableEq, Repr

/-- the default ErrFunc: http.Error(w, code.responseText(), status) (Go 1.23) -/
def defaultErrOps (e : ErrCode) : List Op :=
  [.delHdr "Content-Length", .setHdr "Content-Type" "text/plain; charset=utf-8",
   .setHdr "X-Content-Type-Options" "nosniff", .writeHeader e.httpStatus, .write (e.text.toList ++ ['\n'])]

structure Cfg where
  strict : Bool
  /-- what the ErrFunc callback does to the raw http.ResponseWriter it is handed -/
  errOps : ErrCode → List Op

structure Env where
  routeFound : Bool
  reqOK : Bool
  /-- verdict of ValidateResponse for (status, header map, body) -/
  respOK : Nat → Hdr → Bytes → Bool
  /-- the client's side of this request: behind a real net/http server, or an httptest.ResponseRecorder -/
  server : Bool := false

structure Outcome where
  handlerRan : Bool
  client : Client
  errCalls : List ErrCode
  logs : List LogKind
  deriving DecidableEq, Repr

/-- The environment in which the verdict of request validation is not an opaque bit but the outcome of the
model of `ValidateRequest` (KinModel/Request.lean, property C07) on the matched operation: security
(operation-level list, else the document-level one), path-level and operation-level parameters of every
location, request body, under the validator's `Options`. The middleware hands `&v.options` to ValidateRequest;
ValidationHandler hands `Options{AuthenticationFunc}` (default flags). -/
def envOf (routeFound : Bool) (o : Request.Opts) (op : Request.Op) (declared auth : String → Bool)
    (respOK : Nat → Hdr → Bytes → Bool) (server : Bool := false) : Env :=
  { routeFound := routeFound, reqOK := (Request.validateRequest o op declared auth).isOk, respOK := respOK,
    server := server }

/-- an operation that declares nothing itself (no own security list, no parameters, no body) in a document
with the given top-level security requirements -/
def bareOp (docSec : List Request.Requirement) : Request.Op :=
  { opParams := [], pathParams := [], opSecurity := none, docSecurity := docSec, hasBody := false, bodyOK := true }

/-- `status := wr.statusCode(); if status == 0 { status = http.StatusOK }` -/
def validatedStatus (n : Nat) : Nat := if n == 0 then 200 else n

def middleware (cfg : Cfg) (env : Env) (ops : List Op) : Outcome :=
  let c0 := Client.init env.server
  if !env.routeFound then
    { handlerRan := false, client := runDirect c0 (cfg.errOps .cannotFindRoute),
      errCalls := [.cannotFindRoute], logs := [.route] }
  else if !env.reqOK then
    { handlerRan := false, client := runDirect c0 (cfg.errOps .requestInvalid),
      errCalls := [.requestInvalid], logs := [.request] }
  else if cfg.strict then
    let w := Strict.run { client := c0 } ops
    if w.client.panicked then   -- the handler panicked: Middleware is unwound, nothing was flushed
      { handlerRan := true, client := w.client, errCalls := [], logs := [] }
    else if env.respOK (validatedStatus w.status) w.client.hdr w.buf then
      { handlerRan := true, client := w.flushOut, errCalls := [], logs := [] }
    else
      { handlerRan := true, client := runDirect w.client (cfg.errOps .responseInvalid),
        errCalls := [.responseInvalid], logs := [.response] }
  else
    let w := Warn.run { client := c0 } ops
    if w.client.panicked then
      { handlerRan := true, client := w.client, errCalls := [], logs := [] }
    else if env.respOK (validatedStatus w.status) w.client.hdr w.buf then
      { handlerRan := true, client := w.client, errCalls := [], logs := [] }
    else
      { handlerRan := true, client := w.client, errCalls := [], logs := [.response] }

/-! ### NewValidator and its options

`NewValidator(router, options...)` builds the struct with the two default callbacks and applies the options
in order; each option function assigns exactly one field (table `ValidatorConfig`). `ω` is the type of the
`Options` value (what ValidateRequest / ValidateResponse are told to check). -/

inductive VOpt (ω : Type)
  | onErr (f : ErrCode → List Op)
  | onLog
  | strict (b : Bool)
  | validationOptions (o : ω)

structure Setup (ω : Type) where
  strict : Bool
  errOps : ErrCode → List Op
  customLog : Bool
  options : ω

def Setup.default {ω : Type} (zero : ω) : Setup ω :=
  { strict := false, errOps := defaultErrOps, customLog := false, options := zero }

def applyOpt {ω : Type} (s : Setup ω) : VOpt ω → Setup ω
  | .onErr f => { s with errOps := f }
  | .onLog => { s with customLog := true }
  | .strict b => { s with strict := b }
  | .validationOptions o => { s with options := o }

def newValidator {ω : Type} (zero : ω) (opts : List (VOpt ω)) : Setup ω := opts.foldl applyOpt (Setup.default zero)

def Setup.cfg {ω : Type} (s : Setup ω) : Cfg := { strict := s.strict, errOps := s.errOps }

/-! ### ValidationHandler -/

/-- result of ValidationHandler.validateRequest -/
inductive ReqFail
  | none | noPath | noMethod
  | invalid      -- a parameter is missing, does not parse or violates its schema
  | security     -- no security requirement satisfied (SecurityRequirementsError)
  | bodySchema | bodyMissing | bodyType
  deriving DecidableEq, Repr

/-- status ConvertErrors assigns (ValidationErrorEncoder): route errors 404 / 405; parameter errors and a
missing required body 400; body schema violation 422; unexpected body content type 415; a security error is
not converted (no status: the wrapped encoder's own default, 500 for DefaultErrorEncoder) -/
def ReqFail.convStatus : ReqFail → Nat
  | .none => 200 | .noPath => 404 | .noMethod => 405 | .invalid => 400
  | .security => 500 | .bodySchema => 422 | .bodyMissing => 400 | .bodyType => 415

structure VOutcome where
  handlerRan : Bool
  client : Client
  encCalls : List ReqFail
  deriving DecidableEq, Repr

def vhandler (encOps : ReqFail → List Op) (fail : ReqFail) (ops : List Op) (server : Bool := false) : VOutcome :=
  match fail with
  | .none => { handlerRan := true, client := runDirect (Client.init server) ops, encCalls := [] }
  | f => { handlerRan := false, client := runDirect (Client.init server) (encOps f), encCalls := [f] }

/-! ### Specification (from the property text; independent of the wrappers) -/

/-- status and body as the client sees them once the exchange is over (no WriteHeader = 200) -/
structure Seen where
  status : Nat
  body : Bytes
  deriving DecidableEq, Repr

def Client.seen (c : Client) : Seen := ⟨c.status.getD 200, c.body⟩

/-- every WriteHeader code of the handler is one net/http accepts (otherwise the handler itself panics
and "the response the handler wrote" is not defined) -/
def ValidCodes (ops : List Op) : Prop := ∀ n, Op.writeHeader n ∈ ops → validCode n = true

def validCodesB (ops : List Op) : Bool :=
  ops.all (fun o => match o with | .writeHeader n => validCode n | _ => true)

/-- the status the handler fixed (if any) is one net/http accepts. Weaker than `ValidCodes`: WriteHeader calls after
the status is fixed are ignored by net/http and by both wrappers, whatever their code. -/
def EffCodeOK (ops : List Op) : Prop := ∀ n, wroteStatus ops = some n → validCode n = true

/-- the handler fixes a status net/http refuses (`WriteHeader(0)`, `WriteHeader(1000)`): against the raw writer
that call panics; the strict wrapper records the code and lets the handler go on -/
def badCode (ops : List Op) : Bool :=
  match wroteStatus ops with | some n => !validCode n | none => false

/-- the handler does not panic -/
def NoPanic (ops : List Op) : Prop := Op.panic ∉ ops

def panics (ops : List Op) : Bool := ops.contains .panic

/-- The handler sends an informational (1xx) response on the given transport. This was the exclusion class of
finding F-C14-2 (both wrappers took the code for the final status; repaired in f1b20bd: the warn wrapper forwards it,
the strict wrapper drops it, neither records it). It survives only as the hypothesis `informational (!server) ops =
false` of the two statements that compare with a *direct* run on a ResponseRecorder, which — unlike net/http —
takes a 1xx for the final status. -/
def opInfo : Op → Bool
  | .writeHeader n => isInfo n
  | _ => false

def informational (server : Bool) (ops : List Op) : Bool := server && ops.any opInfo

/-- the header map after the handler's calls -/
def finalHdr (ops : List Op) : Hdr := (ops.foldl hdrStep {}).hdr

/-- the response the handler wrote — its status (200 when it never said otherwise), the headers it set and
all its body bytes — validates -/
def respValid (env : Env) (ops : List Op) : Bool :=
  env.respOK ((handlerStatus env.server ops).getD 200) (finalHdr ops) (written ops)

structure SpecOut where
  handlerRan : Bool
  seen : Seen
  errCalls : List ErrCode
  /-- whether the client's writer may have been driven into a panic (only by the callback's or the handler's
  own panic / invalid WriteHeader code — never by the middleware) -/
  panicked : Bool
  /-- when present: the complete client state is prescribed (transparent pass-through / own answer) -/
  full : Option Client
  /-- a dead writer with nothing on the wire is acceptable as well (strict mode, the handler fixed a status code
  net/http refuses: its response is no HTTP response; the client must be shielded from it one way or the other) -/
  orDead : Bool
  deriving DecidableEq, Repr

def spec (cfg : Cfg) (env : Env) (ops : List Op) : SpecOut :=
  let c0 := Client.init env.server
  if env.routeFound && env.reqOK then
    if cfg.strict then
      -- a handler that panics never had its response validated: none of it may reach the client
      if panics ops then ⟨true, ⟨200, []⟩, [], true, none, false⟩
      -- a status code net/http refuses: never delivered — the server-error answer, or a dead writer
      else if badCode ops then ⟨true, (runDirect c0 (cfg.errOps .responseInvalid)).seen, [.responseInvalid],
            (runDirect c0 (cfg.errOps .responseInvalid)).panicked, none, true⟩
      else if respValid env ops then ⟨true, ⟨(handlerStatus env.server ops).getD 200, written ops⟩, [], false, none, false⟩
      else ⟨true, (runDirect c0 (cfg.errOps .responseInvalid)).seen, [.responseInvalid],
            (runDirect c0 (cfg.errOps .responseInvalid)).panicked, none, false⟩
    else ⟨true, (runDirect c0 ops).seen, [], (runDirect c0 ops).panicked, some (runDirect c0 ops), false⟩
  else
    let code := if env.routeFound then ErrCode.requestInvalid else ErrCode.cannotFindRoute
    let c := runDirect c0 (cfg.errOps code)
    ⟨false, c.seen, [code], c.panicked, some c, false⟩

def Meets (o : Outcome) (s : SpecOut) : Prop :=
  o.handlerRan = s.handlerRan ∧ o.client.seen = s.seen ∧ o.errCalls = s.errCalls ∧
  o.client.panicked = s.panicked ∧ ∀ c, s.full = some c → o.client = c

def meetsB (o : Outcome) (s : SpecOut) : Bool :=
  decide (o.handlerRan = s.handlerRan) && decide (o.client.seen = s.seen) && decide (o.errCalls = s.errCalls) &&
  decide (o.client.panicked = s.panicked) && (match s.full with | some c => decide (o.client = c) | none => true)

/-- the handler ran, the client's writer is dead and nothing at all is on the wire; ErrFunc was not called -/
def Dead (o : Outcome) : Prop :=
  o.handlerRan = true ∧ o.client.seen = ⟨200, []⟩ ∧ o.client.info = [] ∧ o.client.sent = [] ∧
  o.client.panicked = true ∧ o.errCalls = []

def deadB (o : Outcome) : Bool :=
  o.handlerRan && decide (o.client.seen = ⟨200, []⟩) && decide (o.client.info = []) && decide (o.client.sent = []) &&
  o.client.panicked && decide (o.errCalls = [])

/-- the total reading of the spec: what it prescribes, or — where it says so — a dead writer -/
def MeetsT (o : Outcome) (s : SpecOut) : Prop := Meets o s ∨ (s.orDead = true ∧ Dead o)

def meetsTB (o : Outcome) (s : SpecOut) : Bool := meetsB o s || (s.orDead && deadB o)

/-- spec of the older handler: request-only gate, then transparent -/
def vspec (encOps : ReqFail → List Op) (fail : ReqFail) (ops : List Op) (server : Bool := false) : VOutcome :=
  if fail = .none then ⟨true, runDirect (Client.init server) ops, []⟩
  else ⟨false, runDirect (Client.init server) (encOps fail), [fail]⟩


/-! ### names under which the source knows what the model talks about (used by the table obligations) -/

/-- which method of its http.ResponseWriter a handler call is -/
def Op.method : Op → String
  | .setHdr _ _ => "Header" | .delHdr _ => "Header" | .writeHeader _ => "WriteHeader" | .write _ => "Write"
  | .flush => "Flush" | .panic => "(panic)"

/-- the Go constants of the three error codes and of the HTTP status handed to ErrFunc with each -/
def ErrCode.constName : ErrCode → String
  | .cannotFindRoute => "ErrCodeCannotFindRoute" | .requestInvalid => "ErrCodeRequestInvalid"
  | .responseInvalid => "ErrCodeResponseInvalid"

def ErrCode.statusConst : ErrCode → String
  | .cannotFindRoute => "http.StatusNotFound" | .requestInvalid => "http.StatusBadRequest"
  | .responseInvalid => "http.StatusInternalServerError"

/-- the converters ConvertErrors dispatches a failure kind to -/
def ReqFail.converters : ReqFail → List String
  | .noPath => ["convertRouteError"] | .noMethod => ["convertRouteError"]
  | .invalid => ["convertErrInvalidRequired", "convertParseError", "convertSchemaError"]
  | .bodySchema => ["convertSchemaError"] | .bodyMissing => ["convertErrInvalidRequired"]
  | .bodyType => ["convertBasicRequestError", "convertParseError"]
  | .none => [] | .security => []


/-! ### one Validator / ValidationHandler serving a sequence of requests

The property quantifies over every request a middleware instance serves, so the model is a state machine over
request sequences: a step takes what the instance keeps between requests and the next request, and yields the
client-visible outcome and the state handed to the following request.

What `Validator` keeps between requests on this tree: nothing that a request changes. Its fields (router,
errFunc, logFunc, strict, options) are written by NewValidator and its options before the first request; the
closure returned by `Middleware` only reads them; the response wrapper is a fresh composite literal per request
(`&strictResponseWrapper{w: w}` / `newWarnResponseWrapper(w)`); the file has no package-level variables. Those
four facts are read off the source by the translator table `ValidatorState` and are `decide` obligations in
Props/C14 — a pooled or cached wrapper, a counter or a cache in the struct shows up there. The same holds for
`ValidationHandler` (fields written by `Load` and by the caller before serving). -/

/-- one request as the middleware meets it: the verdicts of routing / request / response validation for it and
the behaviour of the handler on it -/
structure Req where
  env : Env
  ops : List Op

/-- what the instance carries from one request to the next (no field: nothing) -/
structure VState where
  deriving DecidableEq, Repr

/-- one request served by a Validator in state `st` -/
def serve (cfg : Cfg) (st : VState) (r : Req) : VState × Outcome := (st, middleware cfg r.env r.ops)

/-- a generic machine run: outcomes of a request sequence, threading the state -/
def runSeq {σ ρ ω : Type} (step : σ → ρ → σ × ω) : σ → List ρ → List ω
  | _, [] => []
  | s, r :: rs => (step s r).2 :: runSeq step (step s r).1 rs

/-- the client-visible outcomes of a sequence of requests through one `Validator.Middleware(h)` chain -/
def serveSeq (cfg : Cfg) (reqs : List Req) : List Outcome := runSeq (serve cfg) {} reqs

/-- a step function is history-free when its outcome does not depend on the state it is run in -/
def HistoryFree {σ ρ ω : Type} (step : σ → ρ → σ × ω) : Prop := ∀ s1 s2 r, (step s1 r).2 = (step s2 r).2

/-- one request of the older ValidationHandler: the result of validateRequest and the handler behaviour -/
structure VReq where
  fail : ReqFail
  ops : List Op
  server : Bool := false

def vserve (encOps : ReqFail → List Op) (st : VState) (r : VReq) : VState × VOutcome :=
  (st, vhandler encOps r.fail r.ops r.server)

def vserveSeq (encOps : ReqFail → List Op) (reqs : List VReq) : List VOutcome := runSeq (vserve encOps) {} reqs

/-- Two requests in flight at once, each against its own wrapper: a schedule says whose call comes next.
`interleave` runs the two handlers' strict wrappers under an arbitrary schedule (true = first handler). -/
def interleaveStrict : List Bool → (Strict × List Op) → (Strict × List Op) → Strict × Strict
  | [], a, b => (Strict.run a.1 a.2, Strict.run b.1 b.2)
  | true :: sch, (wa, op :: opsA), b => interleaveStrict sch (wa.step op, opsA) b
  | true :: sch, (wa, []), b => interleaveStrict sch (wa, []) b
  | false :: sch, a, (wb, op :: opsB) => interleaveStrict sch a (wb.step op, opsB)
  | false :: sch, a, (wb, []) => interleaveStrict sch a (wb, [])

/-- spec over a history: every request of the sequence is answered as the property prescribes for that
request alone -/
def MeetsSeq (cfg : Cfg) : List Req → List Outcome → Prop
  | [], [] => True
  | r :: rs, o :: os => MeetsT o (spec cfg r.env r.ops) ∧ MeetsSeq cfg rs os
  | _, _ => False

end KinModel.Middleware
