/-
Declarative specification `Sat` of schema validity (JSON-Schema draft-4 / OpenAPI 3.0 reading of
property C01), written keyword by keyword and independently of the validator's control flow, and
its executable twin `satB` (the oracle the driver evaluates; `satB = true ↔ Sat` is proved in
Props/C01.lean).

  * a keyword constrains only values of the type it is about;
  * `type` absent permits every type; `integer` = a number with integral value; a format
    `int32`/`int64` bounds the value when the type is integer only;
  * `oneOf` = exactly one sub-schema accepts — with a `discriminator`: the object must carry the property as a
    string, which (when a mapping is given) must be a key of it, and only the mapped sub-schema is considered; `anyOf` = some; `allOf` = all; `not` = the child does not accept;
  * `pattern` is judged by the regular-expression engine of the CALL (`env.regex`: the default Go translation, or the
    compiler given with SetSchemaRegexCompiler); with DisablePatternValidation() the keyword is, by the option's purpose,
    not a constraint; string length is the number of Unicode code points (draft-4: characters as defined by RFC 4627);
  * null: admitted where the schema permits null (`nullable: true` or `"null"` among the types), or —
    the library's documented reading of OpenAPI 3.0 — where the schema has compositions and these
    admit null (e.g. `anyOf: [{nullable: true, …}]`); never otherwise.
-/
import KinModel.Schema.Visit
namespace KinModel.Schema

def numSpec (kw : Kw) (q : Rat) : Prop :=
  (if kw.permits "number" = true then True else kw.permits "integer" = true ∧ q.isInt = true) ∧
  (kw.permits "number" = false → kw.permits "integer" = true → kw.format ≠ "" →
      ∀ lo hi, intFormatRange kw.format = some (lo, hi) → lo ≤ truncInt q ∧ truncInt q ≤ hi) ∧
  (∀ m, kw.minimum = some m → m ≤ q ∧ (kw.exclMin = true → m < q)) ∧
  (∀ m, kw.maximum = some m → q ≤ m ∧ (kw.exclMax = true → q < m)) ∧
  (∀ m, kw.multipleOf = some m → m ≠ 0 ∧ (q / m).isInt = true)

def strSpec (env : Env) (kw : Kw) (s : String) : Prop :=
  kw.permits "string" = true ∧
  kw.minLength ≤ s.length ∧
  (∀ m, kw.maxLength = some m → s.length ≤ m) ∧
  (env.patOff = false → kw.pattern ≠ "" → env.regex kw.pattern s = some true) ∧
  (kw.format ≠ "" → env.strFormat kw.format s ≠ some false)

def arrSpec (kw : Kw) (xs : List J) : Prop :=
  kw.permits "array" = true ∧
  kw.minItems ≤ xs.length ∧
  (∀ m, kw.maxItems = some m → xs.length ≤ m) ∧
  (kw.uniqueItems = true → uniqueB xs = true)

/-- read as a request: read-only properties must be absent and need not be present even if required, write-only
ones are ordinary; read as a response the other way round (`forbidden`, `exempt` of the model are these two rules) -/
def objSpec (env : Env) (kw : Kw) (p : List (String × S)) (kvs : List (String × J)) : Prop :=
  kw.permits "object" = true ∧
  (∀ ks ∈ p, forbidden env ks.2 = true → (lookup ks.1 kvs).isSome = false) ∧
  kw.minProps ≤ kvs.length ∧
  (∀ m, kw.maxProps = some m → kvs.length ≤ m) ∧
  (∀ k ∈ kw.required, (lookup k kvs).isSome = true ∨ ∃ s, lookup k p = some s ∧ exempt env s = true)

def enumSpec (kw : Kw) (v : J) : Prop := kw.enum = [] ∨ ∃ e ∈ kw.enum, jeq e v = true

/-- own (non-composition, non-child) keywords of a non-null value -/
def ownSpec (env : Env) (kw : Kw) (p : List (String × S)) : J → Prop
  | .null => False
  | .bool _ => kw.permits "boolean" = true
  | .num q => numSpec kw q
  | .str s => strSpec env kw s
  | .arr xs => arrSpec kw xs
  | .obj kvs => objSpec env kw p kvs

mutual
def Sat (env : Env) : S → J → Prop
  | .mk kw a b c n i p ad, v =>
    if v.isNull then
      kw.permitsNull = true ∨
        ((a ≠ [] ∨ b ≠ [] ∨ c ≠ []) ∧
         ((∀ t, n = some t → ¬ Sat env t v) ∧ (c = [] ∨ ((discCheck kw v).pass = true ∧ SatCount env (discCheck kw v).ref c v 1)) ∧ (b = [] ∨ SatAny env b v) ∧ SatAll env a v))
    else
      ((∀ t, n = some t → ¬ Sat env t v) ∧ (c = [] ∨ ((discCheck kw v).pass = true ∧ SatCount env (discCheck kw v).ref c v 1)) ∧ (b = [] ∨ SatAny env b v) ∧ SatAll env a v) ∧
      enumSpec kw v ∧ ownSpec env kw p v ∧
      (match v with
       | .arr xs => ∀ t, i = some t → SatItems env t xs
       | .obj kvs => SatProps env p ad kw.addHas kvs
       | _ => True)
termination_by s v => (sizeOf v, sizeOf s)
def SatAll (env : Env) : List S → J → Prop
  | [], _ => True
  | s :: ss, v => Sat env s v ∧ SatAll env ss v
termination_by ss v => (sizeOf v, sizeOf ss)
def SatAny (env : Env) : List S → J → Prop
  | [], _ => False
  | s :: ss, v => Sat env s v ∨ SatAny env ss v
termination_by ss v => (sizeOf v, sizeOf ss)
/-- exactly `n` of the schemas selected by the discriminator accept -/
def SatCount (env : Env) (dr : String) : List S → J → Nat → Prop
  | [], _, n => n = 0
  | s :: ss, v, n =>
    ((selOK dr s = true ∧ Sat env s v) ∧ ∃ m, n = m + 1 ∧ SatCount env dr ss v m) ∨
    (¬ (selOK dr s = true ∧ Sat env s v) ∧ SatCount env dr ss v n)
termination_by ss v _ => (sizeOf v, sizeOf ss)
def SatItems (env : Env) : S → List J → Prop
  | _, [] => True
  | s, x :: xs => Sat env s x ∧ SatItems env s xs
termination_by s xs => (sizeOf xs, sizeOf s)
/-- every member: its declared property schema, else additionalProperties (allowed unless `false`) -/
def SatProps (env : Env) : List (String × S) → Option S → Option Bool → List (String × J) → Prop
  | _, _, _, [] => True
  | p, ad, has, (k, x) :: r =>
    (match lookup k p with
     | some s => Sat env s x
     | none => has ≠ some false ∧ (∀ s, ad = some s → Sat env s x)) ∧
    SatProps env p ad has r
termination_by p ad _ kvs => (sizeOf kvs, sizeOf p + sizeOf ad)
end

/-! ### executable twin -/

def numSpecB (kw : Kw) (q : Rat) : Bool :=
  (kw.permits "number" || (kw.permits "integer" && q.isInt)) &&
  (kw.permits "number" || !kw.permits "integer" || kw.format == "" ||
     (match intFormatRange kw.format with
      | some (lo, hi) => decide (lo ≤ truncInt q) && decide (truncInt q ≤ hi)
      | none => true)) &&
  (match kw.minimum with | some m => decide (m ≤ q) && (!kw.exclMin || decide (m < q)) | none => true) &&
  (match kw.maximum with | some m => decide (q ≤ m) && (!kw.exclMax || decide (q < m)) | none => true) &&
  (match kw.multipleOf with | some m => m != 0 && (q / m).isInt | none => true)

def strSpecB (env : Env) (kw : Kw) (s : String) : Bool :=
  kw.permits "string" && decide (kw.minLength ≤ s.length) &&
  (match kw.maxLength with | some m => decide (s.length ≤ m) | none => true) &&
  (env.patOff || kw.pattern == "" || env.regex kw.pattern s == some true) &&
  (kw.format == "" || env.strFormat kw.format s != some false)

def arrSpecB (kw : Kw) (xs : List J) : Bool :=
  kw.permits "array" && decide (kw.minItems ≤ xs.length) &&
  (match kw.maxItems with | some m => decide (xs.length ≤ m) | none => true) &&
  (!kw.uniqueItems || uniqueB xs)

def objSpecB (env : Env) (kw : Kw) (p : List (String × S)) (kvs : List (String × J)) : Bool :=
  kw.permits "object" &&
  p.all (fun ks => !forbidden env ks.2 || !(lookup ks.1 kvs).isSome) &&
  decide (kw.minProps ≤ kvs.length) &&
  (match kw.maxProps with | some m => decide (kvs.length ≤ m) | none => true) &&
  kw.required.all (reqOK env p kvs)

def ownSpecB (env : Env) (kw : Kw) (p : List (String × S)) : J → Bool
  | .null => false
  | .bool _ => kw.permits "boolean"
  | .num q => numSpecB kw q
  | .str s => strSpecB env kw s
  | .arr xs => arrSpecB kw xs
  | .obj kvs => objSpecB env kw p kvs

/-- non-recursive combination, same shape as the `Sat` clause -/
def combineB (env : Env) (kw : Kw) (a b c : List S) (p : List (String × S)) (v : J)
    (rNot : Bool) (rCount : Nat) (rAny rAll rChild : Bool) : Bool :=
  if v.isNull then
    kw.permitsNull || ((!a.isEmpty || !b.isEmpty || !c.isEmpty) &&
      (rNot && (c.isEmpty || ((discCheck kw v).pass && rCount == 1)) && (b.isEmpty || rAny) && rAll))
  else
    (rNot && (c.isEmpty || ((discCheck kw v).pass && rCount == 1)) && (b.isEmpty || rAny) && rAll) && enumOK kw v && ownSpecB env kw p v && rChild

mutual
def satB (env : Env) : S → J → Bool
  | .mk kw a b c n i p ad, v =>
    combineB env kw a b c p v
      (match n with | none => true | some t => !satB env t v)
      (satCountB env (discCheck kw v).ref c v) (satAnyB env b v) (satAllB env a v)
      (match v with
       | .arr xs => (match i with | none => true | some t => satItemsB env t xs)
       | .obj kvs => satPropsB env p ad kw.addHas kvs
       | _ => true)
termination_by s v => (sizeOf v, sizeOf s)
def satAllB (env : Env) : List S → J → Bool
  | [], _ => true
  | s :: ss, v => satB env s v && satAllB env ss v
termination_by ss v => (sizeOf v, sizeOf ss)
def satAnyB (env : Env) : List S → J → Bool
  | [], _ => false
  | s :: ss, v => satB env s v || satAnyB env ss v
termination_by ss v => (sizeOf v, sizeOf ss)
def satCountB (env : Env) (dr : String) : List S → J → Nat
  | [], _ => 0
  | s :: ss, v => (if selOK dr s && satB env s v then 1 else 0) + satCountB env dr ss v
termination_by ss v => (sizeOf v, sizeOf ss)
def satItemsB (env : Env) : S → List J → Bool
  | _, [] => true
  | s, x :: xs => satB env s x && satItemsB env s xs
termination_by s xs => (sizeOf xs, sizeOf s)
def satPropsB (env : Env) : List (String × S) → Option S → Option Bool → List (String × J) → Bool
  | _, _, _, [] => true
  | p, ad, has, (k, x) :: r =>
    (match lookup k p with
     | some s => satB env s x
     | none => has != some false && (match ad with | some s => satB env s x | none => true)) &&
    satPropsB env p ad has r
termination_by p ad _ kvs => (sizeOf kvs, sizeOf p + sizeOf ad)
end

end KinModel.Schema
