/-
JSON values as the schema validator sees them. Numbers are exact rationals (core `Rat`); the
correspondence run only emits numbers on which the float64 operations of the Go code are exact
(DESIGN §3). Objects are association lists; the driver builds them with keys sorted and distinct
(Go maps), so structural equality coincides with JSON equality.
-/
namespace KinModel.Schema

inductive J where
  | null
  | bool (b : Bool)
  | num (q : Rat)
  | str (s : String)
  | arr (xs : List J)
  | obj (kvs : List (String × J))
  deriving Inhabited

def J.isNull : J → Bool | .null => true | _ => false

theorem J.isNull_iff {v : J} : v.isNull = true ↔ v = .null := by cases v <;> simp [J.isNull]

def lookup {α} (k : String) : List (String × α) → Option α
  | [] => none
  | (k', v) :: r => if k = k' then some v else lookup k r

mutual
/-- equality of JSON values (what `reflect.DeepEqual` / `json.Marshal`-keys decide on canonical values) -/
def jeq : J → J → Bool
  | .null, .null => true
  | .bool a, .bool b => a == b
  | .num a, .num b => a == b
  | .str a, .str b => a == b
  | .arr a, .arr b => jeqL a b
  | .obj a, .obj b => jeqO a b
  | _, _ => false
def jeqL : List J → List J → Bool
  | [], [] => true
  | x :: xs, y :: ys => jeq x y && jeqL xs ys
  | _, _ => false
def jeqO : List (String × J) → List (String × J) → Bool
  | [], [] => true
  | (k, x) :: xs, (l, y) :: ys => k == l && jeq x y && jeqO xs ys
  | _, _ => false
end

/-- no two items are equal (uniqueItems) -/
def uniqueB : List J → Bool
  | [] => true
  | x :: xs => !(xs.any (jeq x)) && uniqueB xs

end KinModel.Schema
