/-
The pattern translation `intoGoRegexp` (openapi3/schema_pattern.go): JSON Schema's `pattern` is written in the ECMA-262
dialect, the default engine is Go's regexp (RE2 syntax). The library rewrites the pattern text with ONE rule,
  regexp.MustCompile(`(?P<replaced_with_slash_x>\\u)(?P<code>[0-9A-F]{4})`).ReplaceAllString(re, `\x{${code}}`),
i.e. every `\u` followed by four UPPER-case hex digits becomes `\x{XXXX}`, leftmost and non-overlapping, whatever stands
before the backslash (`intoGoL`). Everything else is handed to Go as it is (what Go then makes of it is the regex
oracle, not modelled).

`ecmaL` is what the rule is there for, read off ECMA-262: a backslash escapes the character after it (so `\\` is ONE
token and a `u` after it is a plain letter), and `\uXXXX` with hex digits of either case is the code unit XXXX.
Where the two disagree the validator judges a pattern other than the one the schema author wrote:
`PatternTranslationDiffers` (findings F-C01-1 lower-case hex, F-C01-2 escaped backslash before `u`).
Not covered (left to the oracle): `\cX`, `\u{…}`, look-around, back-references — RE2 rejects them as syntax errors.
-/
import KinModel.Schema.Visit
namespace KinModel.Schema

def isUpperHex (c : Char) : Bool := c.isDigit || (decide ('A' ≤ c) && decide (c ≤ 'F'))
def isHex (c : Char) : Bool := isUpperHex c || (decide ('a' ≤ c) && decide (c ≤ 'f'))

/-- does the text continue with `uXXXX`, four digits accepted by `hex`? then the digits -/
def uDigits (hex : Char → Bool) : List Char → Option (List Char)
  | 'u' :: a :: b :: c :: d :: _ => if hex a && hex b && hex c && hex d then some [a, b, c, d] else none
  | _ => none

/-- the library's rewriting. `skip` = characters of a match still to be dropped (structural recursion on the text) -/
def intoGoL : Nat → List Char → List Char
  | _, [] => []
  | skip + 1, _ :: rest => intoGoL skip rest
  | 0, ch :: rest =>
    if ch = '\\' then
      match uDigits isUpperHex rest with
      | some ds => ['\\', 'x', '{'] ++ ds ++ ['}'] ++ intoGoL 5 rest
      | none => ch :: intoGoL 0 rest
    else ch :: intoGoL 0 rest

/-- the ECMA-262 reading of the same text, written for Go's engine -/
def ecmaL : Nat → List Char → List Char
  | _, [] => []
  | skip + 1, _ :: rest => ecmaL skip rest
  | 0, ch :: rest =>
    if ch = '\\' then
      match uDigits isHex rest with
      | some ds => ['\\', 'x', '{'] ++ ds ++ ['}'] ++ ecmaL 5 rest
      | none =>
        match rest with
        | e :: _ => '\\' :: e :: ecmaL 1 rest
        | [] => ['\\']
    else ch :: ecmaL 0 rest

def intoGo (p : String) : String := String.ofList (intoGoL 0 p.toList)
def ecmaToGo (p : String) : String := String.ofList (ecmaL 0 p.toList)

/-- exclusion class: the library hands Go a text other than the ECMA reading of the pattern -/
def patternTranslationDiffers (p : String) : Bool := intoGoL 0 p.toList != ecmaL 0 p.toList

mutual
/-- every `pattern` of a schema tree -/
def S.pats : S → List String
  | .mk kw a b c n i p ad => kw.pattern :: (patsL a ++ patsL b ++ patsL c ++ patsO n ++ patsO i ++ patsP p ++ patsO ad)
def patsL : List S → List String
  | [] => []
  | s :: ss => s.pats ++ patsL ss
def patsO : Option S → List String
  | none => []
  | some s => s.pats
def patsP : List (String × S) → List String
  | [] => []
  | (_, s) :: ps => s.pats ++ patsP ps
end

/-- the default engine as the validator uses it / as the spec reads the pattern: Go's regexp (`go pat str`, none = does
not compile) applied to the translated text -/
def Env.viaGo (env : Env) (go : String → String → Option Bool) (tr : String → String) : Env :=
  { env with regex := fun p s => go (tr p) s }

end KinModel.Schema
