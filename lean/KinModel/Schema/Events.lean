/-
Error-level model of `(*Schema).visitJSON`: a MODE-FREE tree of events in the code's order, and the three
validation modes (default, FailFast, MultiErrors) as folds of that tree which do not look at the schema.

  * `fail e fatal`   a keyword check that fails with error `e`; `fatal` = the Go code returns at once even in
                     multi-error mode (type mismatch, enum, nullable);
  * `child tok sub`  the visit of a property / item; its errors are re-located by `markSchemaErrorKey/Index`;
  * `comp k e subs`  a composition (`not`, `oneOf`, `anyOf`, `allOf`): the children's traces survive only as
                     `Origin` of the wrapper error `e`, which is reported (and fatal) iff the composition fails.

`Err` carries SchemaField, reversePath, the quoted Value (`none` when the Go error has no Value) and the
reason as typed fragments (used by C19; numbers and quoted strings are rendered by the harness with Go's fmt).
-/
import KinModel.Schema.Visit
namespace KinModel.Schema

inductive Tok | key (k : String) | idx (i : Nat)
  deriving DecidableEq, Repr

/-- a fragment of a reason text, with its provenance made explicit by the constructor -/
inductive Frag
  | lit (s : String)            -- literal of the source
  | schemaNum (q : Rat)         -- a number taken from the schema (`%g`)
  | schemaNat (n : Nat)         -- a count taken from the schema (`%d`)
  | schemaStr (s : String)      -- a string taken from the schema, verbatim (`%s`)
  | schemaQ (s : String)        -- a string taken from the schema, quoted (`%q`)
  | schemaEnum (vs : List J)    -- the enum list as JSON
  | schemaTypes (ts : List String)
  | indices (l : List Nat)      -- indices of matching oneOf branches (`%v` of []int)
  | valueKey (k : String)       -- a property NAME of the value, quoted (`%q`)
  | valueStr (s : String)       -- a STRING VALUE taken from the validated value: never produced (C19)
  | validatorText (s : String)  -- text produced by a format validator / the regexp compiler

structure Err where
  field : String
  rpath : List Tok := []        -- innermost first, as in the Go code
  value : Option J := none
  reason : List Frag := []
  /-- the failing check is NOT preceded by `if settings.failfast { return errSchema }` (pattern, format, read-only /
  write-only errors): with FailFast() and MultiErrors() together such a failure is accumulated, every other one returns -/
  soft : Bool := false

def mark (k : Tok) (e : Err) : Err := { e with rpath := e.rpath ++ [k] }
def Err.pointer (e : Err) : List Tok := e.rpath.reverse

inductive CompKind | not | oneOf | anyOf | allOf
  deriving DecidableEq, Repr

inductive Ev where
  | fail (e : Err) (fatal : Bool)
  | child (tok : Tok) (sub : List Ev)
  | comp (k : CompKind) (e : Err) (subs : List (List Ev))

/-- does a composition pass, given how many of its `len` children passed -/
def compOK (k : CompKind) (cnt len : Nat) : Bool :=
  match k with
  | .not => cnt == 0
  | .oneOf => cnt == 1
  | .anyOf => decide (1 ≤ cnt)
  | .allOf => cnt == len

/-! ### verdict of a trace -/
mutual
def Ev.passes : Ev → Bool
  | .fail _ _ => false
  | .child _ sub => passesL sub
  | .comp k _ subs => compOK k (passCount subs) subs.length
def passesL : List Ev → Bool
  | [] => true
  | e :: es => e.passes && passesL es
def passCount : List (List Ev) → Nat
  | [] => 0
  | t :: ts => (if passesL t then 1 else 0) + passCount ts
end

/-! ### default mode: the first failing event decides -/
mutual
def Ev.firstErr : Ev → Option Err
  | .fail e _ => some e
  | .child tok sub => (firstErrL sub).map (mark tok)
  | .comp k e subs => if compOK k (firstCount subs) subs.length then none else some e
def firstErrL : List Ev → Option Err
  | [] => none
  | e :: es => match e.firstErr with | some x => some x | none => firstErrL es
def firstCount : List (List Ev) → Nat
  | [] => 0
  | t :: ts => (if (firstErrL t).isNone then 1 else 0) + firstCount ts
end

/-! ### multi-error mode: collect; a fatal failure ends the current level -/
mutual
def Ev.collect : Ev → List Err × Bool
  | .fail e fatal => ([e], fatal)
  | .child tok sub => ((collectL sub).map (mark tok), false)
  | .comp k e subs => if compOK k (collectCount subs) subs.length then ([], false) else ([e], true)
def collectL : List Ev → List Err
  | [] => []
  | e :: es => if e.collect.2 then e.collect.1 else e.collect.1 ++ collectL es
def collectCount : List (List Ev) → Nat
  | [] => 0
  | t :: ts => (if (collectL t).isEmpty then 1 else 0) + collectCount ts
end

/-! ### the general fold: which failures make a visitor return at once is a parameter -/

/-- a stop policy -/
structure Policy where
  /-- a failing keyword check ends the current level, given its `fatal` flag and its `soft` flag -/
  leaf : Bool → Bool → Bool
  /-- a failing property / item ends the current level -/
  child : Tok → Bool

mutual
/-- errors reported for one event, and whether the level returns right after it -/
def Ev.run (π : Policy) : Ev → List Err × Bool
  | .fail e fatal => ([e], π.leaf fatal e.soft)
  | .child tok sub => ((runL π sub).1.map (mark tok), !(runL π sub).1.isEmpty && π.child tok)
  | .comp k e subs => if compOK k (runCount π subs) subs.length then ([], false) else ([e], true)
def runL (π : Policy) : List Ev → List Err × Bool
  | [] => ([], false)
  | e :: es => if (e.run π).2 then e.run π else ((e.run π).1 ++ (runL π es).1, (runL π es).2)
def runCount (π : Policy) : List (List Ev) → Nat
  | [] => 0
  | t :: ts => (if (runL π t).1.isEmpty then 1 else 0) + runCount π ts
end

/-- the four combinations of FailFast() and MultiErrors() -/
inductive Mode | failfast | dflt | multi | ffmulti
  deriving DecidableEq, Repr

/-- default / FailFast: every failure returns. MultiErrors: only the fatal ones (type, enum, nullable, compositions).
FailFast+MultiErrors: every check guarded by `if settings.failfast` returns (errSchema), a failing property returns, a
failing array item is accumulated (the items loop has no fail-fast guard), soft failures are accumulated. -/
def Mode.policy : Mode → Policy
  | .dflt => ⟨fun _ _ => true, fun _ => true⟩
  | .failfast => ⟨fun _ _ => true, fun _ => true⟩
  | .multi => ⟨fun fatal _ => fatal, fun _ => false⟩
  | .ffmulti => ⟨fun fatal soft => fatal || !soft, fun t => match t with | .key _ => true | .idx _ => false⟩

/-- what a validation call reports: `ok`, or the rejecting errors (fail-fast mode carries no detail) -/
inductive Res | ok | rej (errs : List Err)
def Res.isOk : Res → Bool | .ok => true | _ => false
def Res.errs : Res → List Err | .rej es => es | _ => []

def report (m : Mode) (t : List Ev) : Res :=
  match m with
  | .dflt => (match firstErrL t with | none => .ok | some e => .rej [e])
  | .failfast => (match firstErrL t with | none => .ok | some _ => .rej [])
  | .multi => (match collectL t with | [] => .ok | es => .rej es)
  -- FailFast+MultiErrors: a MultiError mixing `errSchema` sentinels with the soft errors; only the verdict is modelled
  | .ffmulti => (match (runL Mode.ffmulti.policy t).1 with | [] => .ok | _ => .rej [])

/-- indices of the passing traces -/
def passIdx : List (List Ev) → Nat → List Nat
  | [], _ => []
  | t :: ts, i => (if passesL t then [i] else []) ++ passIdx ts (i + 1)

/-! ### the trace generator -/

def here (field : String) (v : J) (reason : List Frag) : Err := { field := field, value := some v, reason := reason }
/-- an error of a site without fail-fast guard -/
def hereSoft (field : String) (v : J) (reason : List Frag) : Err := { field := field, value := some v, reason := reason, soft := true }

/-- one keyword check -/
def chk (bad : Bool) (e : Err) (fatal : Bool) : List Ev := if bad then [.fail e fatal] else []

def typeErr (kw : Kw) (v : J) : Err :=
  here "type" v [.lit "value must be ", .schemaTypes (kw.types.getD [])]

def nullErr : Err := { field := "nullable", value := none, reason := [.lit "Value is not nullable"] }

/-- `q` is the value an error QUOTES: the Go error holds a reference to the visited node, so it shows the node as it is
when the caller looks at it; without default injection that is the node as visited (`q = v`) -/
def enumEvsQ (kw : Kw) (v q : J) : List Ev :=
  chk (!enumOK kw v) (here "enum" q [.lit "value is not one of the allowed values ", .schemaEnum kw.enum]) true
def enumEvs (kw : Kw) (v : J) : List Ev := enumEvsQ kw v v

/-- leaf keyword checks as data, in the code's order: (violated?, error, fatal?) -/
abbrev Check := Bool × Err × Bool
def checkEvs (cs : List Check) : List Ev := cs.flatMap (fun c => chk c.1 c.2.1 c.2.2)

def exclMinBad (kw : Kw) (q : Rat) : Bool := match kw.minimum with | some m => kw.exclMin && !decide (m < q) | none => false
def exclMaxBad (kw : Kw) (q : Rat) : Bool := match kw.maximum with | some m => kw.exclMax && !decide (q < m) | none => false
def minBad (kw : Kw) (q : Rat) : Bool := match kw.minimum with | some m => !decide (m ≤ q) | none => false
def maxBad (kw : Kw) (q : Rat) : Bool := match kw.maximum with | some m => !decide (q ≤ m) | none => false
def multBad (kw : Kw) (q : Rat) : Bool := match kw.multipleOf with | some m => !(m != 0 && (q / m).isInt) | none => false

def numChecks (kw : Kw) (q : Rat) : List Check :=
  let v := J.num q
  [ (!numTypeOK kw q,
     (if kw.requireInt then here "type" v [.lit "value must be an integer"] else typeErr kw v),
     !kw.requireInt),
    (!numFormatOK kw q, hereSoft "format" v [.lit "integer doesn't match the format ", .schemaQ kw.format, .lit " (",
        .validatorText (match intFormatRange kw.format with
          | some (lo, hi) => s!"value should be between {lo} and {hi}" | none => ""), .lit ")"], false),
    (exclMinBad kw q, here "exclusiveMinimum" v [.lit "number must be more than ", .schemaNum (kw.minimum.getD 0)], false),
    (exclMaxBad kw q, here "exclusiveMaximum" v [.lit "number must be less than ", .schemaNum (kw.maximum.getD 0)], false),
    (minBad kw q, here "minimum" v [.lit "number must be at least ", .schemaNum (kw.minimum.getD 0)], false),
    (maxBad kw q, here "maximum" v [.lit "number must be at most ", .schemaNum (kw.maximum.getD 0)], false),
    (multBad kw q, here "multipleOf" v [.lit "number must be a multiple of ", .schemaNum (kw.multipleOf.getD 0)], false) ]

def minLenBad (kw : Kw) (n : Nat) : Bool := kw.minLength != 0 && decide (n < kw.minLength)
def maxLenBad (kw : Kw) (n : Nat) : Bool := match kw.maxLength with | some m => decide (m < n) | none => false
/-- the pattern does not compile -/
def patCompileBad (env : Env) (kw : Kw) (s : String) : Bool := !env.patOff && kw.pattern != "" && (env.regex kw.pattern s).isNone
def patBad (env : Env) (kw : Kw) (s : String) : Bool := !env.patOff && kw.pattern != "" && env.regex kw.pattern s == some false
def strFormatBad (env : Env) (kw : Kw) (s : String) : Bool := kw.format != "" && env.strFormat kw.format s == some false

def patCompileErr (kw : Kw) : Err :=
  { field := "pattern", value := none, soft := true,
    reason := [.lit "cannot compile pattern ", .schemaQ kw.pattern, .lit ": ", .validatorText "regexp error"] }

def strChecks (env : Env) (kw : Kw) (s : String) : List Check :=
  let v := J.str s
  [ (!kw.permits "string", typeErr kw v, true),
    (minLenBad kw s.length, here "minLength" v [.lit "minimum string length is ", .schemaNat kw.minLength], false),
    (maxLenBad kw s.length, here "maxLength" v [.lit "maximum string length is ", .schemaNat (kw.maxLength.getD 0)], false),
    (patCompileBad env kw s, patCompileErr kw, false),
    (patBad env kw s, hereSoft "pattern" v [.lit "string doesn't match the regular expression \"", .schemaStr kw.pattern, .lit "\""], false),
    (strFormatBad env kw s, hereSoft "format" v [.lit "string doesn't match the format ", .schemaQ kw.format, .lit " (",
        .validatorText "validator text", .lit ")"], false) ]

def minItemsBad (kw : Kw) (n : Nat) : Bool := kw.minItems != 0 && decide (n < kw.minItems)
def maxItemsBad (kw : Kw) (n : Nat) : Bool := match kw.maxItems with | some m => decide (m < n) | none => false

def arrChecksQ (kw : Kw) (xs : List J) (v : J) : List Check :=
  [ (!kw.permits "array", typeErr kw v, true),
    (minItemsBad kw xs.length, here "minItems" v [.lit "minimum number of items is ", .schemaNat kw.minItems], false),
    (maxItemsBad kw xs.length, here "maxItems" v [.lit "maximum number of items is ", .schemaNat (kw.maxItems.getD 0)], false),
    (kw.uniqueItems && !uniqueB xs, here "uniqueItems" v [.lit "duplicate items found"], false) ]
def arrChecks (kw : Kw) (xs : List J) : List Check := arrChecksQ kw xs (J.arr xs)

def minPropsBad (kw : Kw) (n : Nat) : Bool := kw.minProps != 0 && decide (n < kw.minProps)
def maxPropsBad (kw : Kw) (n : Nat) : Bool := match kw.maxProps with | some m => decide (m < n) | none => false

def objChecksQ (kw : Kw) (kvs : List (String × J)) (v : J) : List Check :=
  [ (!kw.permits "object", typeErr kw v, true),
    (minPropsBad kw kvs.length, here "minProperties" v [.lit "there must be at least ", .schemaNat kw.minProps, .lit " properties"], false),
    (maxPropsBad kw kvs.length, here "maxProperties" v [.lit "there must be at most ", .schemaNat (kw.maxProps.getD 0), .lit " properties"], false) ]
def objChecks (kw : Kw) (kvs : List (String × J)) : List Check := objChecksQ kw kvs (J.obj kvs)

def reqChecks (env : Env) (p : List (String × S)) (v : J) (kvs : List (String × J)) (ks : List String) : List Check :=
  ks.map (fun k => (!reqOK env p kvs k, mark (.key k) (here "required" v [.lit "property ", .schemaQ k, .lit " is missing"]), false))

/-- the (non-schema) errors "readOnly property … in request" / "writeOnly property … in response": collected first by the
code but returned only when nothing else at this level returned before — hence last in the event order -/
def roErr : Err := { field := "<readOnly/writeOnly property present>", soft := true }

def numEvs (kw : Kw) (q : Rat) : List Ev := checkEvs (numChecks kw q)
def strEvs (env : Env) (kw : Kw) (s : String) : List Ev := checkEvs (strChecks env kw s)
def arrEvsQ (kw : Kw) (xs : List J) (q : J) (childEvs : List Ev) : List Ev := checkEvs (arrChecksQ kw xs q) ++ childEvs
def objEvsQ (env : Env) (kw : Kw) (p : List (String × S)) (kvs : List (String × J)) (q : J) (childEvs : List Ev) : List Ev :=
  checkEvs (objChecksQ kw kvs q) ++ childEvs ++ checkEvs (reqChecks env p q kvs kw.required) ++
  chk (roBad env p kvs) roErr false
def arrEvs (kw : Kw) (xs : List J) (childEvs : List Ev) : List Ev := arrEvsQ kw xs (J.arr xs) childEvs
def objEvs (env : Env) (kw : Kw) (p : List (String × S)) (kvs : List (String × J)) (childEvs : List Ev) : List Ev :=
  objEvsQ env kw p kvs (J.obj kvs) childEvs

/-- own keywords of the visited value `v` (for an object: its members AFTER the default-injection loop), errors quoting `q` -/
def ownEvsQ (env : Env) (kw : Kw) (p : List (String × S)) (v q : J) (childEvs : List Ev) : List Ev :=
  match v with
  | .null => [.fail nullErr true]
  | .bool _ => chk (!kw.permits "boolean") (typeErr kw v) true
  | .num x => numEvs kw x
  | .str s => strEvs env kw s
  | .arr xs => arrEvsQ kw xs q childEvs
  | .obj kvs => objEvsQ env kw p kvs q childEvs
def ownEvs (env : Env) (kw : Kw) (p : List (String × S)) (v : J) (childEvs : List Ev) : List Ev :=
  ownEvsQ env kw p v v childEvs

def discMissingErr (kw : Kw) : Err :=
  { field := "discriminator", value := none,
    reason := [.lit "input does not contain the discriminator property ", .schemaQ kw.discProp] }
def discNotStringErr (kw : Kw) (x : J) : Err :=
  mark (.key kw.discProp) (here "discriminator" x
    [.lit "value of discriminator property ", .schemaQ kw.discProp, .lit " is not a string"])
def discUnmappedErr (kw : Kw) (x : J) : Err :=
  mark (.key kw.discProp) (here "discriminator" x
    [.lit "discriminator property ", .schemaQ kw.discProp, .lit " has invalid value"])

/-- the three errors of the discriminator pre-check (fatal); the value-quoting ones are marked with the property name -/
def discEvs (kw : Kw) (v : J) : List Ev :=
  match discCheck kw v with
  | .missing => [.fail (discMissingErr kw) true]
  | .notString x => [.fail (discNotStringErr kw x) true]
  | .unmapped x => [.fail (discUnmappedErr kw x) true]
  | _ => []

def skippedErr : Err := { field := "<skipped by discriminator>" }
/-- stands for a oneOf item the discriminator skipped: it does not count as a match -/
def skipped : List Ev := [.fail skippedErr true]

def oneOfReason (oneSubs : List (List Ev)) : List Frag :=
  if decide (1 < passCount oneSubs) then
    [.lit "value matches more than one schema from \"oneOf\" (matches schemas at indices ", .indices (passIdx oneSubs 0), .lit ")"]
  else [.lit "value doesn't match any schema from \"oneOf\""]

/-- non-recursive assembly of one schema visit, in the code's order -/
def evCombine (env : Env) (kw : Kw) (a b c : List S) (p : List (String × S)) (shortcut : Bool) (v : J)
    (notEvs : List Ev) (oneSubs anySubs allSubs : List (List Ev)) (childEvs : List Ev) : List Ev :=
  if v.isNull && kw.permitsNull then [] else
  if shortcut then (if v.isNull then [.fail nullErr true] else []) else
  notEvs ++
  (if c.isEmpty then [] else discEvs kw v ++ [.comp .oneOf (here "oneOf" v (oneOfReason oneSubs)) oneSubs]) ++
  (if b.isEmpty then [] else [.comp .anyOf (here "anyOf" v [.lit "doesn't match any schema from \"anyOf\""]) anySubs]) ++
  (if a.isEmpty then [] else [.comp .allOf (here "allOf" v [.lit "doesn't match all schemas from \"allOf\""]) allSubs]) ++
  (if v.isNull && (!c.isEmpty || !b.isEmpty || !a.isEmpty) then []
   else enumEvs kw v ++ ownEvs env kw p v childEvs)

/-- a member of an object: declared property, else additionalProperties, else "unsupported" -/
def propEv (whole : J) (has : Option Bool) (k : String) (rProp rAdd : Option (List Ev)) : List Ev :=
  match rProp with
  | some t => [.child (.key k) t]
  | none =>
    if has != some false then (match rAdd with | some t => [.child (.key k) t] | none => [])
    else [.fail (here "properties" whole [.lit "property ", .valueKey k, .lit " is unsupported"]) false]

mutual
def events (env : Env) : S → J → List Ev
  | .mk kw a b c n i p ad, v =>
    evCombine env kw a b c p (S.mk kw a b c n i p ad).shortcut v
      (match n with | none => [] | some s => [.comp .not (here "not" v [.lit "Doesn't match schema \"not\""]) [events env s v]])
      (eventsSel env (discCheck kw v).ref c v) (eventsEach env b v) (eventsEach env a v)
      (match v with
       | .arr xs => (match i with | none => [] | some s => itemsEvs env s xs 0)
       | .obj kvs => propsEvs env p ad kw.addHas v kvs
       | _ => [])
termination_by s v => (sizeOf v, sizeOf s)
def eventsEach (env : Env) : List S → J → List (List Ev)
  | [], _ => []
  | s :: ss, v => events env s v :: eventsEach env ss v
termination_by ss v => (sizeOf v, sizeOf ss)
def eventsSel (env : Env) (dr : String) : List S → J → List (List Ev)
  | [], _ => []
  | s :: ss, v => (if selOK dr s then events env s v else skipped) :: eventsSel env dr ss v
termination_by ss v => (sizeOf v, sizeOf ss)
def itemsEvs (env : Env) : S → List J → Nat → List Ev
  | _, [], _ => []
  | s, x :: xs, i => .child (.idx i) (events env s x) :: itemsEvs env s xs (i + 1)
termination_by s xs _ => (sizeOf xs, sizeOf s)
def propsEvs (env : Env) : List (String × S) → Option S → Option Bool → J → List (String × J) → List Ev
  | _, _, _, _, [] => []
  | p, ad, has, whole, (k, x) :: r =>
    propEv whole has k (match lookup k p with | some s => some (events env s x) | none => none)
                       (match ad with | some s => some (events env s x) | none => none) ++
    propsEvs env p ad has whole r
termination_by p ad _ _ kvs => (sizeOf kvs, sizeOf p + sizeOf ad)
end

/-- the model of `VisitJSON(value, opts…)` in a given mode -/
def validate (m : Mode) (env : Env) (s : S) (v : J) : Res := report m (events env s v)

end KinModel.Schema
