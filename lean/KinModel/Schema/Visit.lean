/-
Verdict-level model of `(*Schema).visitJSON` (openapi3/schema.go), default settings, branch by branch:
  visitJSON            → `visit` + `combine`
  visitNotOperation    → `rNot`
  visitXOFOperations   → `rCount`/`rAny`/`rAll` and the "null after a composition" rule (`run = false`)
  visitEnumOperation   → `enumOK`
  visitJSONNull/Boolean/Number/String/Array/Object → the per-type clauses of `combine`, `numOK`, `strOK`,
                          `arrOK`, `objOK`, `visitItems`, `visitProps`
A verdict is `true` (nil error) or `false` (an error is returned). After the repairs recorded in
known_findings.json no panic site is left in these functions for resolved schemas.
The request/response readings (VisitAsRequest / VisitAsResponse, with their switch-off options) and
DisablePatternValidation are fields of `env`; default injection (DefaultsSet) is modelled in Defaults.lean (`visitD`), which
coincides with this model on schemas without `default`; NaN/Inf inputs are not JSON values and are outside `J`.
The process-wide compiled-pattern cache is modelled in Props/C01.lean (`Cache`, `runCalls`): the code never stores
into it (table Gen/PatternCache), so every call's regex is its own `env.regex`.
-/
import KinModel.Schema.Schema
namespace KinModel.Schema

def enumOK (kw : Kw) (v : J) : Bool := kw.enum.isEmpty || kw.enum.any (fun e => jeq e v)

/-- `int64(value)` for the values we consider: truncation toward zero -/
def truncInt (q : Rat) : Int := q.num.tdiv q.den

def intFormatRange (f : String) : Option (Int × Int) :=
  if f = "int32" then some (-2147483648, 2147483647)
  else if f = "int64" then some (-9223372036854775808, 9223372036854775807)
  else none

/-- type is integer-only -/
def Kw.requireInt (kw : Kw) : Bool := kw.permits "integer" && !kw.permits "number"

def numTypeOK (kw : Kw) (q : Rat) : Bool :=
  if kw.requireInt then q.isInt else (kw.permits "integer" || kw.permits "number")

def numFormatOK (kw : Kw) (q : Rat) : Bool :=
  if kw.format != "" && kw.requireInt then
    match intFormatRange kw.format with
    | some (lo, hi) => decide (lo ≤ truncInt q) && decide (truncInt q ≤ hi)
    | none => true
  else true    -- no number format validator is registered by default

/-- "exclusiveMinimum" then "minimum" (the exclusive check is skipped when no minimum is given) -/
def minOK (kw : Kw) (q : Rat) : Bool :=
  match kw.minimum with | some m => (!kw.exclMin || decide (m < q)) && decide (m ≤ q) | none => true
/-- "exclusiveMaximum" then "maximum" -/
def maxOK (kw : Kw) (q : Rat) : Bool :=
  match kw.maximum with | some m => (!kw.exclMax || decide (q < m)) && decide (q ≤ m) | none => true

def numBoundsOK (kw : Kw) (q : Rat) : Bool := minOK kw q && maxOK kw q

def multipleOK (kw : Kw) (q : Rat) : Bool :=
  match kw.multipleOf with | none => true | some m => m != 0 && (q / m).isInt

def numOK (kw : Kw) (q : Rat) : Bool :=
  numTypeOK kw q && numFormatOK kw q && numBoundsOK kw q && multipleOK kw q

def strOK (env : Env) (kw : Kw) (s : String) : Bool :=
  kw.permits "string" &&
  (kw.minLength == 0 || decide (kw.minLength ≤ s.length)) &&
  (match kw.maxLength with | none => true | some m => decide (s.length ≤ m)) &&
  (env.patOff || kw.pattern == "" || env.regex kw.pattern s == some true) &&
  (kw.format == "" || env.strFormat kw.format s != some false)

def arrOK (kw : Kw) (xs : List J) : Bool :=
  kw.permits "array" &&
  (kw.minItems == 0 || decide (kw.minItems ≤ xs.length)) &&
  (match kw.maxItems with | none => true | some m => decide (xs.length ≤ m)) &&
  (!kw.uniqueItems || uniqueB xs)

/-- read as a request a readOnly property, read as a response a writeOnly property, must be absent
(`reqRO` / `repWO` of visitJSONObject) -/
def forbidden (env : Env) (s : S) : Bool :=
  (env.asreq && s.kw.readOnly && !env.roOff) || (env.asrep && s.kw.writeOnly && !env.woOff)
/-- … and need not be present even if required (the exemption does not look at the switch-off options) -/
def exempt (env : Env) (s : S) : Bool := (env.asreq && s.kw.readOnly) || (env.asrep && s.kw.writeOnly)

def roBad (env : Env) (p : List (String × S)) (kvs : List (String × J)) : Bool :=
  p.any (fun ks => forbidden env ks.2 && (lookup ks.1 kvs).isSome)

def reqOK (env : Env) (p : List (String × S)) (kvs : List (String × J)) (k : String) : Bool :=
  (lookup k kvs).isSome || (match lookup k p with | some s => exempt env s | none => false)

def objOK (env : Env) (kw : Kw) (p : List (String × S)) (kvs : List (String × J)) : Bool :=
  kw.permits "object" &&
  !roBad env p kvs &&
  (kw.minProps == 0 || decide (kw.minProps ≤ kvs.length)) &&
  (match kw.maxProps with | none => true | some m => decide (kvs.length ≤ m)) &&
  kw.required.all (reqOK env p kvs)

/-- own keywords of a non-null value, given the verdict of the children (items / properties) -/
def ownOK (env : Env) (kw : Kw) (p : List (String × S)) (v : J) (rChild : Bool) : Bool :=
  match v with
  | .null => false                       -- visitJSONNull; PermitsNull was handled first
  | .bool _ => kw.permits "boolean"
  | .num q => numOK kw q
  | .str s => strOK env kw s
  | .arr xs => arrOK kw xs && rChild
  | .obj kvs => objOK env kw p kvs && rChild

/-- non-recursive combination of the results of the recursive calls, in the code's order -/
def combine (env : Env) (kw : Kw) (a b c : List S) (p : List (String × S)) (shortcut : Bool) (v : J)
    (rNot : Bool) (rCount : Nat) (rAny rAll rChild : Bool) : Bool :=
  if v.isNull && kw.permitsNull then true else
  if shortcut then !v.isNull else
  rNot &&
  (c.isEmpty || ((discCheck kw v).pass && rCount == 1)) &&
  (b.isEmpty || rAny) &&
  rAll &&
  (if v.isNull && (!c.isEmpty || !b.isEmpty || !a.isEmpty) then true   -- run = false
   else enumOK kw v && ownOK env kw p v rChild)

/-- a property of the value: declared property, else additionalProperties -/
def propRes (has : Option Bool) (rProp rAdd : Option Bool) : Bool :=
  match rProp with
  | some r => r
  | none => if has != some false then (match rAdd with | some r => r | none => true) else false

mutual
def visit (env : Env) : S → J → Bool
  | .mk kw a b c n i p ad, v =>
    combine env kw a b c p (S.mk kw a b c n i p ad).shortcut v
      (match n with | none => true | some s => !visit env s v)
      (countOK env (discCheck kw v).ref c v) (visitAny env b v) (visitAll env a v)
      (match v with
       | .arr xs => (match i with | none => true | some s => visitItems env s xs)
       | .obj kvs => visitProps env p ad kw.addHas kvs
       | _ => true)
termination_by s v => (sizeOf v, sizeOf s)
def visitAll (env : Env) : List S → J → Bool
  | [], _ => true
  | s :: ss, v => visit env s v && visitAll env ss v
termination_by ss v => (sizeOf v, sizeOf ss)
def visitAny (env : Env) : List S → J → Bool
  | [], _ => false
  | s :: ss, v => visit env s v || visitAny env ss v
termination_by ss v => (sizeOf v, sizeOf ss)
/-- number of the selected oneOf items that accept -/
def countOK (env : Env) (dr : String) : List S → J → Nat
  | [], _ => 0
  | s :: ss, v => (if selOK dr s && visit env s v then 1 else 0) + countOK env dr ss v
termination_by ss v => (sizeOf v, sizeOf ss)
def visitItems (env : Env) : S → List J → Bool
  | _, [] => true
  | s, x :: xs => visit env s x && visitItems env s xs
termination_by s xs => (sizeOf xs, sizeOf s)
def visitProps (env : Env) : List (String × S) → Option S → Option Bool → List (String × J) → Bool
  | _, _, _, [] => true
  | p, ad, has, (k, x) :: r =>
    propRes has (match lookup k p with | some s => some (visit env s x) | none => none)
                (match ad with | some s => some (visit env s x) | none => none) &&
    visitProps env p ad has r
termination_by p ad _ kvs => (sizeOf kvs, sizeOf p + sizeOf ad)
end

end KinModel.Schema
