/-
The schema AST: every keyword of openapi3.Schema that takes part in value validation.
Sub-schemas are resolved (`$ref`s inlined): stage 1 of DESIGN §3.
-/
import KinModel.Schema.Json
namespace KinModel.Schema

/-- keywords without sub-schemas -/
structure Kw where
  types : Option (List String) := none        -- nil `Type` = none
  nullable : Bool := false
  enum : List J := []
  format : String := ""
  minimum : Option Rat := none
  maximum : Option Rat := none
  exclMin : Bool := false
  exclMax : Bool := false
  multipleOf : Option Rat := none
  minLength : Nat := 0
  maxLength : Option Nat := none
  pattern : String := ""
  minItems : Nat := 0
  maxItems : Option Nat := none
  uniqueItems : Bool := false
  required : List String := []
  addHas : Option Bool := none                 -- additionalProperties: true/false given as a boolean
  minProps : Nat := 0
  maxProps : Option Nat := none
  readOnly : Bool := false
  writeOnly : Bool := false
  allowEmptyValue : Bool := false
  /-- the `$ref` text through which this schema was reached (`SchemaRef.Ref`; "" when inline) -/
  ref : String := ""
  /-- `discriminator`: present?, propertyName, mapping (value ↦ `$ref` text) -/
  hasDisc : Bool := false
  discProp : String := ""
  discMapping : List (String × String) := []
  /-- `default` (`Schema.Default`): `none` when absent or JSON null (a nil `any`); not looked at by `IsEmpty`;
  only read by the injection loop of visitJSONObject (KinModel/Schema/Defaults.lean) -/
  dflt : Option J := none
  deriving Inhabited

inductive S where
  | mk (kw : Kw) (allOf anyOf oneOf : List S) (not : Option S) (items : Option S)
       (props : List (String × S)) (addl : Option S)
  deriving Inhabited

/-- what the validator asks of the regular-expression engine and of registered string formats -/
structure Env where
  /-- `regex pattern s`: `none` when the pattern does not compile -/
  regex : String → String → Option Bool
  /-- `strFormat name s`: `none` when no validator is registered under that name -/
  strFormat : String → String → Option Bool
  /-- `VisitAsRequest()` / `VisitAsResponse()` and the options that switch the read-only / write-only checks off -/
  asreq : Bool := false
  asrep : Bool := false
  roOff : Bool := false
  woOff : Bool := false
  /-- `DisablePatternValidation()`: the `pattern` keyword is not evaluated -/
  patOff : Bool := false
  /-- `DefaultsSet(f)` given: absent properties receive their schema's `default` (only under asreq / asrep) -/
  dfl : Bool := false

def Kw.includes (kw : Kw) (t : String) : Bool :=
  match kw.types with | none => false | some ts => ts.contains t
/-- `Types.Permits`: a nil type list permits everything -/
def Kw.permits (kw : Kw) (t : String) : Bool :=
  match kw.types with | none => true | some ts => ts.contains t
/-- `Schema.PermitsNull` -/
def Kw.permitsNull (kw : Kw) : Bool := kw.nullable || kw.includes "null"

def S.kw : S → Kw | .mk kw _ _ _ _ _ _ _ => kw

/-- outcome of the discriminator pre-check of `visitXOFOperations` (only run when `oneOf` is non-empty) -/
inductive DiscRes
  | all                 -- no discriminator / value not an object / no mapping: every oneOf item is tried
  | sel (ref : String)  -- only the item reached through this `$ref` is tried ("" = every item)
  | missing             -- the object lacks the discriminator property
  | notString (v : J)   -- its value is not a string
  | unmapped (v : J)    -- its value is not a key of the (non-empty) mapping

def discCheck (kw : Kw) (v : J) : DiscRes :=
  if !kw.hasDisc then .all else
  match v with
  | .obj kvs =>
    (match lookup kw.discProp kvs with
     | none => .missing
     | some (.str s) =>
       (match lookup s kw.discMapping with
        | some r => .sel r
        | none => if kw.discMapping.isEmpty then .all else .unmapped (.str s))
     | some x => .notString x)
  | _ => .all

def DiscRes.pass : DiscRes → Bool
  | .all => true | .sel _ => true | _ => false
/-- the `$ref` text the oneOf loop filters by ("" = no filtering) -/
def DiscRes.ref : DiscRes → String
  | .sel r => r | _ => ""
/-- `discriminatorRef != "" && discriminatorRef != item.Ref` → `continue` -/
def selOK (dr : String) (s : S) : Bool := dr == "" || s.kw.ref == dr

/-- the first block of `Schema.IsEmpty`: no own keyword -/
def Kw.bare (kw : Kw) : Bool :=
  kw.types.isNone && kw.format == "" && kw.enum.isEmpty &&
  !kw.uniqueItems && !kw.exclMin && !kw.exclMax &&
  !kw.nullable && !kw.readOnly && !kw.writeOnly && !kw.allowEmptyValue &&
  kw.minimum.isNone && kw.maximum.isNone && kw.multipleOf.isNone &&
  kw.minLength == 0 && kw.maxLength.isNone && kw.pattern == "" &&
  kw.minItems == 0 && kw.maxItems.isNone &&
  kw.required.isEmpty &&
  kw.minProps == 0 && kw.maxProps.isNone

mutual
/-- `Schema.IsEmpty` -/
def S.isEmpty : S → Bool
  | .mk kw a b c n i p ad =>
    kw.bare && isEmptyO n && isEmptyO ad && kw.addHas != some false && isEmptyO i && isEmptyP p &&
    isEmptyL c && isEmptyL b && isEmptyL a
def isEmptyL : List S → Bool
  | [] => true
  | s :: ss => s.isEmpty && isEmptyL ss
def isEmptyO : Option S → Bool
  | none => true
  | some s => s.isEmpty
def isEmptyP : List (String × S) → Bool
  | [] => true
  | (_, s) :: ps => s.isEmpty && isEmptyP ps
end

/-- `Schema.hasSubSchemas` -/
def S.hasSub : S → Bool
  | .mk _ a b c n i p ad => n.isSome || i.isSome || ad.isSome || !p.isEmpty || !c.isEmpty || !b.isEmpty || !a.isEmpty

/-- the early return of `visitJSON` for unconstrained schemas -/
def S.shortcut (s : S) : Bool := !s.hasSub && s.isEmpty

end KinModel.Schema
