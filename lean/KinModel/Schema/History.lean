/-
Process state that outlives a validation call: the compiled-pattern cache (`compiledPatterns`, a package-level
sync.Map of openapi3, keyed by PATTERN TEXT ONLY). `visitJSONString` loads the matcher for `schema.Pattern` from it
and compiles — with the call's own compiler (`settings.regexCompiler`, default: the Go translation) — only when there is
none; `compilePattern` then executes `compiledPatterns.CompareAndSwap(pattern, nil, cp)`, which stores nothing (a sync.Map
holds no nil value for an absent key). Table Gen/PatternCache lists every use of the variable; `pattern_cache_never_written`
(Props/C01.lean) is the obligation that none of them can store.

A call sequence is modelled with the cache threaded through: `Env.withCache` is what the string visitor really asks
(cached matcher first), `cacheAfter` what a call leaves behind (nothing, as the code stands).
-/
import KinModel.Schema.Visit
namespace KinModel.Schema

/-- pattern text ↦ compiled matcher -/
abbrev Cache := String → Option (String → Bool)

def Cache.empty : Cache := fun _ => none

/-- the regex oracle a call really uses: a cached matcher wins over the call's own compiler -/
def Env.withCache (c : Cache) (env : Env) : Env :=
  { env with regex := fun p s => match c p with | some m => some (m s) | none => env.regex p s }

/-- the cache after a call: `CompareAndSwap(pattern, nil, cp)` on a sync.Map never stores -/
def cacheAfter (c : Cache) (_env : Env) (_s : S) (_v : J) : Cache := c

/-- one validation call: schema, value, and the call's own settings -/
structure Call where
  env : Env
  s : S
  v : J

/-- verdicts of a sequence of calls made one after the other in one process -/
def runCalls : Cache → List Call → List Bool
  | _, [] => []
  | c, k :: ks => visit (k.env.withCache c) k.s k.v :: runCalls (cacheAfter c k.env k.s k.v) ks

end KinModel.Schema
