/-
Default injection (`DefaultsSet(...)` together with `VisitAsRequest()` / `VisitAsResponse()`): the validator MUTATES the
value it validates. `visitD m env s v` is the model of `(*Schema).visitJSON` for that setting in mode `m`:
it returns the event tree of the visit AND the value as the caller finds it afterwards.

What the code does (openapi3/schema.go), branch by branch:
  * visitJSONObject, after the type check: for every declared property in key order that is ABSENT from the object
    (a present null is left alone) and whose schema has a non-null `default`, unless the property is one that must
    be absent (`reqRO` / `repWO`), a deep copy of the default is stored in the object (`inject`); the length checks,
    the visit of every member (the injected ones included) and `required` then see the enlarged object;
  * `allOf` visits its members one after the other on the value itself and stops at the first failing one; `not`,
    `oneOf` and `anyOf` visit their child / every candidate on a deep copy; `oneOf` / `anyOf` then run the matched
    candidate (the only one / the first one) once more on the value itself; nothing a `not` child does reaches the value;
  * an error holds a REFERENCE to the node it quotes: what the caller reads in `SchemaError.Value` is the node's
    content when validation returns. In this functional model every error of a node therefore quotes the node's
    final content (`q`), computed from what the visit did up to the point where it returned in mode `m`.

Events after the point where mode `m` returns are "phantoms": they are generated (on the value a visitor that goes
on would see) so that the tree has the shape of `events`, but `report m` never consumes them, and the value returned
is the value at the point of return (how far a failing visit got depends on the mode). Until the repair of F-C12-1 the
`not` child ran on the value itself, which made the VERDICT mode-dependent; `dfltUnderNot` names that former class.
-/
import KinModel.Schema.Events
namespace KinModel.Schema

/-- the injection loop runs only under a request/response reading and with `DefaultsSet` -/
def Env.injects (env : Env) : Bool := (env.asreq || env.asrep) && env.dfl

/-- store a new member, keeping the members in key order (Go iterates `sort.Strings(keys)`) -/
def insertKey (k : String) (d : J) : List (String × J) → List (String × J)
  | [] => [(k, d)]
  | (k', x) :: r => if k < k' then (k, d) :: (k', x) :: r else (k', x) :: insertKey k d r

/-- the default an absent property receives: none for a property that must be absent (`!reqRO && !repWO`) -/
def dfltFor (env : Env) (s : S) : Option J := if forbidden env s then none else s.kw.dflt

/-- one turn of the loop -/
def injectStep (env : Env) (k : String) (s : S) (kvs : List (String × J)) : List (String × J) :=
  match lookup k kvs, dfltFor env s with
  | none, some d => insertKey k d kvs
  | _, _ => kvs

/-- the default-injection loop at the head of visitJSONObject -/
def inject (env : Env) : List (String × S) → List (String × J) → List (String × J)
  | [], kvs => kvs
  | (k, s) :: ps, kvs => inject env ps (injectStep env k s kvs)

/-- members of an object as the keyword checks of visitJSONObject see them (the type check comes first) -/
def ownKvs (env : Env) (kw : Kw) (p : List (String × S)) (v : J) : List (String × J) :=
  match v with
  | .obj kvs => if env.injects && kw.permits "object" then inject env p kvs else kvs
  | _ => []

def itemsOf : J → List J
  | .arr xs => xs
  | _ => []

/-- result of one sub-visit: its events and the value afterwards -/
abbrev Out := List Ev × J

/-- does the visitor of the current level return right after these events, in mode `m`? -/
def haltsL (m : Mode) (t : List Ev) : Bool := (runL m.policy t).2

def outsEvs (l : List Out) : List (List Ev) := l.map (·.1)

/-- the first candidate that accepts (anyOf) -/
def firstPass : List Out → Option Out
  | [] => none
  | o :: os => if passesL o.1 then some o else firstPass os

/-- the candidates that accept (oneOf) -/
def passing : List Out → List Out
  | [] => []
  | o :: os => if passesL o.1 then o :: passing os else passing os

/-- value after the allOf loop: the members run one after the other on the value itself, the first failing one ends the loop -/
def seqFin : List Out → J → J
  | [], v => v
  | o :: os, _ => if passesL o.1 then seqFin os o.2 else o.2

/-! ### children of an array / object -/

def itemEvs : Nat → List Out → List Ev
  | _, [] => []
  | i, o :: os => .child (.idx i) o.1 :: itemEvs (i + 1) os

/-- the items after the loop: every item visited before the loop returned has its value afterwards, the others are untouched -/
def asmItems (m : Mode) : Bool → Nat → List J → List Out → List J
  | _, _, [], _ => []
  | _, _, xs, [] => xs
  | stop, i, x :: xs, o :: os =>
    if stop then x :: asmItems m true (i + 1) xs os
    else o.2 :: asmItems m (haltsL m [.child (.idx i) o.1]) (i + 1) xs os

/-- which sub-visit a member gets: its declared property, else additionalProperties (when allowed and a schema) -/
def propSel (has : Option Bool) (rProp rAdd : Option Out) : Option Out :=
  match rProp with
  | some o => some o
  | none => if has != some false then rAdd else none

def memberEvs (q : J) (has : Option Bool) (props addl : List (String × Out)) (k : String) : List Ev :=
  propEv q has k ((lookup k props).map (·.1)) ((lookup k addl).map (·.1))

def kvsEvs (q : J) (has : Option Bool) (props addl : List (String × Out)) : List (String × J) → List Ev
  | [] => []
  | (k, _) :: r => memberEvs q has props addl k ++ kvsEvs q has props addl r

/-- the member afterwards: what its sub-visit left, or the member itself when nothing visits it -/
def selFin (sel : Option Out) (x : J) : J := match sel with | some o => o.2 | none => x

def asmKvs (m : Mode) (has : Option Bool) (props addl : List (String × Out)) : Bool → List (String × J) → List (String × J)
  | _, [] => []
  | stop, (k, x) :: r =>
    if stop then (k, x) :: asmKvs m has props addl true r
    else
      (k, selFin (propSel has (lookup k props) (lookup k addl)) x) ::
        asmKvs m has props addl (haltsL m (memberEvs .null has props addl k)) r

/-- own keywords of the node `v` (after the compositions): events and the node afterwards -/
def ownD (m : Mode) (env : Env) (kw : Kw) (p : List (String × S)) (v : J)
    (items : List Out) (props addl : List (String × Out)) : Out :=
  match v with
  | .arr xs =>
    let q := J.arr (asmItems m (haltsL m (checkEvs (arrChecksQ kw xs .null))) 0 xs items)
    (arrEvsQ kw xs q (itemEvs 0 items), q)
  | .obj _ =>
    let kvs' := ownKvs env kw p v
    let q := J.obj (asmKvs m kw.addHas props addl (haltsL m (checkEvs (objChecksQ kw kvs' .null))) kvs')
    (objEvsQ env kw p kvs' q (kvsEvs q kw.addHas props addl kvs'), q)
  | _ => (ownEvsQ env kw p v v [], v)

/-- results of the sub-visits of one node, in the code's order -/
structure Subs where
  rn : Option Out               -- `not`
  ro : List Out                 -- oneOf candidates (a candidate skipped by the discriminator: `skipped`, value untouched)
  ra : List Out                 -- anyOf candidates
  rl : List Out                 -- allOf members, each run on the value left by the previous one
  items : List Out
  props : List (String × Out)
  addl : List (String × Out)

def notOK (rn : Option Out) : Bool := match rn with | some o => !passesL o.1 | none => true
def afterOne (c : List S) (kw : Kw) (ro : List Out) (v1 : J) : J :=
  if c.isEmpty || !(discCheck kw v1).pass then v1
  else match passing ro with | [o] => o.2 | _ => v1
def oneOK (c : List S) (kw : Kw) (ro : List Out) (v1 : J) : Bool :=
  c.isEmpty || ((discCheck kw v1).pass && passCount (outsEvs ro) == 1)
def afterAny (b : List S) (ra : List Out) (v2 : J) : J :=
  if b.isEmpty then v2 else match firstPass ra with | some o => o.2 | none => v2
def anyOK (b : List S) (ra : List Out) : Bool := b.isEmpty || decide (1 ≤ passCount (outsEvs ra))
def allOK (rl : List Out) : Bool := passCount (outsEvs rl) == rl.length

/-- non-recursive assembly of one node visit: the counterpart of `evCombine` with the value threaded through -/
def nodeD (m : Mode) (env : Env) (kw : Kw) (a b c : List S) (p : List (String × S)) (shortcut : Bool) (v : J)
    (r : Subs) : Out :=
  if v.isNull && kw.permitsNull then ([], v) else
  if shortcut then ((if v.isNull then [.fail nullErr true] else []), v) else
  let v1 := v   -- `not` validates a deep copy under asreq / asrep (repair of F-C12-1): the value is as it was
  let v2 := afterOne c kw r.ro v1
  let v3 := afterAny b r.ra v2
  let v4 := seqFin r.rl v3
  let own := ownD m env kw p v4 r.items r.props r.addl
  let skipOwn := v.isNull && (!c.isEmpty || !b.isEmpty || !a.isEmpty)
  let fin :=
    if !notOK r.rn then v1 else
    if !oneOK c kw r.ro v1 then v1 else
    if !anyOK b r.ra then v2 else
    if !allOK r.rl then v4 else
    if skipOwn then v4 else
    if !enumOK kw v4 then v4 else own.2
  ((match r.rn with
     | none => []
     | some o => [.comp .not (here "not" fin [.lit "Doesn't match schema \"not\""]) [o.1]]) ++
   (if c.isEmpty then [] else discEvs kw v1 ++ [.comp .oneOf (here "oneOf" fin (oneOfReason (outsEvs r.ro))) (outsEvs r.ro)]) ++
   (if b.isEmpty then [] else [.comp .anyOf (here "anyOf" fin [.lit "doesn't match any schema from \"anyOf\""]) (outsEvs r.ra)]) ++
   (if a.isEmpty then [] else [.comp .allOf (here "allOf" fin [.lit "doesn't match all schemas from \"allOf\""]) (outsEvs r.rl)]) ++
   (if skipOwn then [] else enumEvsQ kw v4 fin ++ own.1),
   fin)

/-- members that have no declared property: the ones additionalProperties is asked about -/
def undeclared (p : List (String × S)) (kvs : List (String × J)) : List (String × J) :=
  kvs.filter (fun kx => (lookup kx.1 p).isNone)

mutual
def visitD (m : Mode) (env : Env) : S → J → Out
  | .mk kw a b c n i p ad, v =>
    let rn := notD m env n v
    let v1 := v
    let ro := selD m env (discCheck kw v1).ref c v1
    let v2 := afterOne c kw ro v1
    let ra := eachD m env b v2
    let v3 := afterAny b ra v2
    let rl := seqD m env a v3
    let v4 := seqFin rl v3
    nodeD m env kw a b c p (S.mk kw a b c n i p ad).shortcut v
      { rn := rn, ro := ro, ra := ra, rl := rl,
        items := itemsD m env i (itemsOf v4),
        props := propsD m env p (ownKvs env kw p v4),
        addl := addlD m env ad (undeclared p (ownKvs env kw p v4)) }
def notD (m : Mode) (env : Env) : Option S → J → Option Out
  | none, _ => none
  | some t, v => some (visitD m env t v)
/-- oneOf candidates: each on (a deep copy of) the same value -/
def selD (m : Mode) (env : Env) (dr : String) : List S → J → List Out
  | [], _ => []
  | s :: ss, v => (if selOK dr s then visitD m env s v else (skipped, v)) :: selD m env dr ss v
/-- anyOf candidates -/
def eachD (m : Mode) (env : Env) : List S → J → List Out
  | [], _ => []
  | s :: ss, v => visitD m env s v :: eachD m env ss v
/-- allOf members: on the value itself, one after the other -/
def seqD (m : Mode) (env : Env) : List S → J → List Out
  | [], _ => []
  | s :: ss, v => visitD m env s v :: seqD m env ss (visitD m env s v).2
def itemsD (m : Mode) (env : Env) : Option S → List J → List Out
  | none, _ => []
  | some t, xs => xs.map (fun x => visitD m env t x)
/-- the declared properties that are present -/
def propsD (m : Mode) (env : Env) : List (String × S) → List (String × J) → List (String × Out)
  | [], _ => []
  | (k, s) :: ps, kvs =>
    (match lookup k kvs with | some x => [(k, visitD m env s x)] | none => []) ++ propsD m env ps kvs
def addlD (m : Mode) (env : Env) : Option S → List (String × J) → List (String × Out)
  | none, _ => []
  | some t, kvs => kvs.map (fun kx => (kx.1, visitD m env t kx.2))
end

/-! ### the former class of F-C12-1 (fixed): a `default` that the injection loop can reach below a `not` -/

mutual
/-- some object schema in the tree declares a property with a `default` (what the injection loop looks for) -/
def S.hasPropDflt : S → Bool
  | .mk _ a b c n i p ad =>
    hasPropDfltL a || hasPropDfltL b || hasPropDfltL c || hasPropDfltO n || hasPropDfltO i || hasPropDfltP p || hasPropDfltO ad
def hasPropDfltL : List S → Bool
  | [] => false
  | s :: ss => s.hasPropDflt || hasPropDfltL ss
def hasPropDfltO : Option S → Bool
  | none => false
  | some s => s.hasPropDflt
def hasPropDfltP : List (String × S) → Bool
  | [] => false
  | (_, s) :: ps => s.kw.dflt.isSome || s.hasPropDflt || hasPropDfltP ps
end

mutual
/-- the class of the repaired F-C12-1: a `not` whose child can inject defaults (since the repair: into a copy only) -/
def S.dfltUnderNot : S → Bool
  | .mk _ a b c n i p ad =>
    hasPropDfltO n || dfltUnderNotO n ||
    dfltUnderNotL a || dfltUnderNotL b || dfltUnderNotL c || dfltUnderNotO i || dfltUnderNotP p || dfltUnderNotO ad
def dfltUnderNotL : List S → Bool
  | [] => false
  | s :: ss => s.dfltUnderNot || dfltUnderNotL ss
def dfltUnderNotO : Option S → Bool
  | none => false
  | some s => s.dfltUnderNot
def dfltUnderNotP : List (String × S) → Bool
  | [] => false
  | (_, s) :: ps => s.dfltUnderNot || dfltUnderNotP ps
end

/-- does the `DefaultsSet` callback run? `settings.onceSettingDefaults.Do(settings.defaultsSet)` is executed when a default
is written while `settings.trial == 0`, i.e. outside every oneOf/anyOf candidate that runs on a private copy (6a3f133):
exactly when a default is written into the value ITSELF — and a written default is a new member, so exactly when the
value handed back differs from the value handed in -/
def callbackFires (m : Mode) (env : Env) (s : S) (v : J) : Bool := !jeq (visitD m env s v).2 v

/-- the model of `VisitJSON(value, opts…)` with the value as the caller finds it afterwards -/
def validateD (m : Mode) (env : Env) (s : S) (v : J) : Res × J :=
  (report m (visitD m env s v).1, (visitD m env s v).2)

/-! ### on which value a sub-visit runs (table Gen/SubVisits; obligation `sub_visits_run_where_modelled` in Props/C01.lean)

Every call `<sub-schema>.visitJSON(settings, <arg>)` of the validator, in source order, with the value it is handed as THIS
model has it: `notD`, `selD` (oneOf candidates) and `eachD` (anyOf candidates) see the value `v1` / `v2` and what they leave
behind is dropped (`nodeD`: `let v1 := v`, `afterOne` / `afterAny` read only the re-run of the matched candidate) — in the
code: a deep copy made exactly when `settings.asreq || settings.asrep`, WHATEVER the JSON type of the value (injection,
`Env.injects`, happens only under one of the two readings, so without the copy nothing could be written either);
the re-run of the matched candidate, the allOf members (`seqD`), items, properties and additionalProperties run on the value
itself / on its elements. -/

inductive RunsOn where
  | self              -- the value itself: what the sub-visit writes reaches the caller's value
  | elem              -- an item / a member of the value
  | copyUnderReading  -- a private deep copy whenever a request / response reading is set
  deriving DecidableEq, Repr

def modelSubVisits : List (String × RunsOn) :=
  [("visitNotOperation", .copyUnderReading),   -- notD
   ("visitXOFOperations", .copyUnderReading),  -- selD: every oneOf candidate
   ("visitXOFOperations", .self),              -- afterOne: the only matching candidate once more
   ("visitXOFOperations", .copyUnderReading),  -- eachD: every anyOf candidate
   ("visitXOFOperations", .self),              -- afterAny: the first matching candidate once more
   ("visitXOFOperations", .self),              -- seqD: allOf members one after the other
   ("visitJSONArray", .elem),                  -- itemsD
   ("visitJSONObject", .elem),                 -- propsD
   ("visitJSONObject", .elem)]                 -- addlD

mutual
/-- a property `default` the injection loop can reach WITHOUT going through a `not`: one that can be written into the value
the caller handed in (or into the value a matched oneOf/anyOf candidate is re-run on). When there is none, every default of
the schema lives below a `not`, where it must not influence anything: the verdict is that of plain validation. -/
def S.hasOwnDflt : S → Bool
  | .mk _ a b c _ i p ad =>
    hasOwnDfltL a || hasOwnDfltL b || hasOwnDfltL c || hasOwnDfltO i || hasOwnDfltP p || hasOwnDfltO ad
def hasOwnDfltL : List S → Bool
  | [] => false
  | s :: ss => s.hasOwnDflt || hasOwnDfltL ss
def hasOwnDfltO : Option S → Bool
  | none => false
  | some s => s.hasOwnDflt
def hasOwnDfltP : List (String × S) → Bool
  | [] => false
  | (_, s) :: ps => s.kw.dflt.isSome || s.hasOwnDflt || hasOwnDfltP ps
end

/-! ### defaults that cannot change a verdict

Injection changes what a sub-schema SEES: a `not` child (on its private copy) is evaluated on the value with the child's own
defaults written in, so `not: {properties: {a: {default: 1}}, required: [a]}` rejects `{}` under injection and accepts it
without. The class below is where that cannot happen: in the whole tree no keyword can notice a written member (no enum,
uniqueItems, min/maxProperties, discriminator; `required` does not name a defaulted property) and a defaulted property's own
schema accepts every non-null value. For a schema whose defaults all live below `not`s of that class
(`!hasOwnDflt && notsNeutral`) the verdict under injection must be that of plain validation, `Sat` of the value handed in —
the reading of C01 that the differential run checks (tied by the run; not a theorem yet). -/

/-- accepts every non-null value: no keyword, no sub-schema -/
def S.acceptsAll (s : S) : Bool := s.kw.bare && !s.hasSub && !s.kw.hasDisc && s.kw.addHas != some false

mutual
def S.dfltNeutral : S → Bool
  | .mk kw a b c n i p ad =>
    kw.enum.isEmpty && !kw.uniqueItems && kw.minProps == 0 && kw.maxProps.isNone && !kw.hasDisc &&
    dfltNeutralP kw.required p && dfltNeutralL a && dfltNeutralL b && dfltNeutralL c &&
    dfltNeutralO n && dfltNeutralO i && dfltNeutralO ad
def dfltNeutralL : List S → Bool
  | [] => true
  | s :: ss => s.dfltNeutral && dfltNeutralL ss
def dfltNeutralO : Option S → Bool
  | none => true
  | some s => s.dfltNeutral
def dfltNeutralP (req : List String) : List (String × S) → Bool
  | [] => true
  | (k, s) :: ps => (if s.kw.dflt.isSome then s.acceptsAll && !req.contains k else s.dfltNeutral) && dfltNeutralP req ps
end

mutual
/-- every `not` child of the tree is in the neutral class -/
def S.notsNeutral : S → Bool
  | .mk _ a b c n i p ad =>
    dfltNeutralO n && notsNeutralL a && notsNeutralL b && notsNeutralL c && notsNeutralO i && notsNeutralP p && notsNeutralO ad
def notsNeutralL : List S → Bool
  | [] => true
  | s :: ss => s.notsNeutral && notsNeutralL ss
def notsNeutralO : Option S → Bool
  | none => true
  | some s => s.notsNeutral
def notsNeutralP : List (String × S) → Bool
  | [] => true
  | (_, s) :: ps => s.notsNeutral && notsNeutralP ps
end

/-! ### what a candidate that does not accept leaves behind (used by `failed_candidates_leave_nothing`, Props/C01.lean) -/

/-- replace the value left by every candidate that does not accept -/
def dropFailed (x : J) (l : List Out) : List Out := l.map (fun o => if passesL o.1 then o else (o.1, x))

theorem outsEvs_dropFailed (x : J) (l : List Out) : outsEvs (dropFailed x l) = outsEvs l := by
  induction l with
  | nil => rfl
  | cons o os ih =>
    simp only [dropFailed, outsEvs, List.map_cons, List.map_map] at ih ⊢
    by_cases h : passesL o.1 = true <;> simp [h, ih]

theorem passing_dropFailed (x : J) (l : List Out) : passing (dropFailed x l) = passing l := by
  induction l with
  | nil => rfl
  | cons o os ih =>
    simp only [dropFailed, List.map_cons] at ih ⊢
    by_cases h : passesL o.1 = true
    · simp [passing, h, ih]
    · simp [passing, h, ih]

theorem firstPass_dropFailed (x : J) (l : List Out) : firstPass (dropFailed x l) = firstPass l := by
  induction l with
  | nil => rfl
  | cons o os ih =>
    simp only [dropFailed, List.map_cons] at ih ⊢
    by_cases h : passesL o.1 = true
    · simp [firstPass, h]
    · simp [firstPass, h, ih]

end KinModel.Schema
