/-
C12 — the returned `*SchemaError` as an OBJECT WITH STATE. The caller of `VisitJSON` holds a pointer to the error and
may observe it any number of times, in any order: `JSONPointer()`, `Error()` (prints `Error at "/a/b": …` from the same
recorded path), `Unwrap()`. The recorded path (`reversePath`, innermost token first) is the state; `markSchemaErrorKey`
is the only writer and runs before the error is returned.

`obsStep copies` is one observation. `copies` is the one fact of `JSONPointer`'s body that matters: `true` — a fresh copy
of the recorded slice is reversed (`append([]string(nil), reversePath...)`, the code as it is: the regenerated table
`C12ErrAccess` has no effect in the row of the method, obligation `observers_leave_the_error_alone`); `false` — the
recorded slice itself is reversed in place, so that the object remembers the reversal.
-/
import KinModel.Schema.Events
namespace KinModel.Schema

inductive Obs
  | jsonPointer | errorText | unwrap
  /-- `openapi3filter.ConvertErrors` on a RequestError (request body) wrapping the error: `convertSchemaError` shows the
  pointer as `Source.Pointer` and calls `JSONPointer()` once, twice for an `enum` error -/
  | convertErrors (enum : Bool)
  deriving DecidableEq, Repr

/-- one observation: the path recorded afterwards, and the pointer the caller sees (`none`: the observer shows no path) -/
def obsStep (copies : Bool) (rp : List Tok) : Obs → List Tok × Option (List Tok)
  | .jsonPointer => (if copies then rp else rp.reverse, some rp.reverse)
  | .errorText => (rp, some rp.reverse)
  | .unwrap => (rp, none)
  | .convertErrors enum =>
    ((if copies then rp else (if enum then rp else rp.reverse)), some rp.reverse)

/-- a sequence of observations of one error object: the pointers seen, in order, and the path recorded at the end -/
def observe (copies : Bool) : List Tok → List Obs → List (List Tok) × List Tok
  | rp, [] => ([], rp)
  | rp, o :: os =>
    let st := obsStep copies rp o
    let rest := observe copies st.1 os
    ((match st.2 with | some p => p :: rest.1 | none => rest.1), rest.2)

/-- the observation sequence the differential run performs on every returned error, after the first `JSONPointer()` -/
def reobsSeq : List Obs := [.jsonPointer, .errorText, .unwrap, .jsonPointer, .convertErrors false, .jsonPointer]

end KinModel.Schema

/-! ### keeping an error for the MultiError (the accumulation sites, table `C12Accumulate`) -/
namespace KinModel.Schema

/-- the dynamic type of a Go error reaching an accumulation site -/
inductive GoErrKind
  | schemaError            -- *SchemaError
  | multi (members : Nat)  -- a nested MultiError with that many members
  | sentinel               -- errSchema (FailFast), ErrSchemaInputNaN / ErrSchemaInputInf
  | plain                  -- any other error (unresolved reference, fmt.Errorf …)
  deriving DecidableEq, Repr

/-- length of `me` after the site, by the shape of the code that follows `if !settings.multiError { return err }`;
`switch-no-default` is NOT a shape of the code: a type switch with the cases MultiError and *SchemaError only -/
def keepLen (shape : String) (n : Nat) (e : GoErrKind) : Option Nat :=
  if shape = "plain" then some (n + 1)
  else if shape = "flatten-else" ∨ shape = "flatten-continue" then
    some (match e with | .multi k => n + k | _ => n + 1)
  else if shape = "switch-no-default" then
    some (match e with | .multi k => n + k | .schemaError => n + 1 | _ => n)
  else none

end KinModel.Schema
