/-
C04 — the settings record between calls (core-only model file).

`getValidationOptions(ctx)` hands every validation method the settings record of the context, or — when the call was
made without options, so that the context carries none — a fallback. Two methods WRITE to the record they get after
the option list has been folded (`RequestBody.Validate`, `Response.Validate`: the reading of example values), one
reads that field pair (`validateExampleValue`). Whether such a write can be seen later (in the same run, in a later
call of the process) depends only on where the record comes from; that is regenerated from the source as table
`C04OptionState`, and the model below is parameterised by it.

A Validate run is abstracted to the list of its settings accesses in code order (`Ev`): every document and every
traversal order is some such list, so the theorems over all lists cover them all.
-/
import KinModel.DocValidate
import KinModel.Lemmas.C04Witness
import KinModel.Gen.C04OptionState
namespace KinModel.DocValidate

/-- what the table says about the origin of the settings record -/
structure RecordOrigin where
  fallbackFresh : Bool        -- without options, every `getValidationOptions` call returns a new zero record
  globals : Nat               -- package-level variables holding settings (records that outlive a call)
  deriving DecidableEq, Repr

def originOf (rows : List Gen.C04OptionStateRow) : RecordOrigin :=
  { fallbackFresh := (rows.filter (·.kind = "fallback")).map (·.detail) = ["fresh-zero"],
    globals := (rows.filter (·.kind = "global")).length }

/-- the origin in the code under test -/
def codeOrigin : RecordOrigin := originOf Gen.c04OptionState

/-- a record can survive a call -/
def RecordOrigin.perCall (r : RecordOrigin) : Bool := r.fallbackFresh && r.globals == 0

/-- the reading a method leaves in the record it got (from its `write` rows), `none` if it writes nothing -/
def modeWrittenBy (rows : List Gen.C04OptionStateRow) (fn : String) : Option (Option Mode) :=
  let ws := (rows.filter (fun r => r.kind = "write" && r.fn = fn)).map (·.detail)
  if ws = [] then some none
  else if ws = ["examplesValidationAsReq=true", "examplesValidationAsRes=false"] then some (some .req)
  else if ws = ["examplesValidationAsReq=false", "examplesValidationAsRes=true"] then some (some .res)
  else none     -- a write the model does not know

/-- the functions that write to / read from the reading fields -/
def modeWriters (rows : List Gen.C04OptionStateRow) : List String := ((rows.filter (·.kind = "write")).map (·.fn)).eraseDups
def modeReaders (rows : List Gen.C04OptionStateRow) : List String := ((rows.filter (·.kind = "read")).map (·.fn)).eraseDups

/-- a settings access of a run that touches the reading: a request body / response sets it, an example check reads it -/
inductive Ev | set (m : Mode) | read
  deriving DecidableEq, Repr

/-- the readings seen by the example checks of a run whose accesses all hit ONE record that starts as `st` -/
def seen : Mode → List Ev → List Mode
  | _, [] => []
  | _, .set m :: r => seen m r
  | st, .read :: r => st :: seen st r

/-- … and what that record holds afterwards -/
def final : Mode → List Ev → Mode
  | st, [] => st
  | _, .set m :: r => final m r
  | st, .read :: r => final st r

/-- one Validate call. `hasOpts`: the option list is non-empty, so `WithValidationOptions` puts a new record into the
context and every access of the run hits it. Otherwise every access gets what `getValidationOptions` falls back to: a
new zero record each time (`perCall`), or a record that lives as long as the process (`shared`: its content when the
call starts). Result: the readings the example checks of this call see, and the content of the long-lived record after. -/
def runCall (perCall : Bool) (hasOpts : Bool) (evs : List Ev) (shared : Mode) : List Mode × Mode :=
  if hasOpts then (seen .plain evs, shared)
  else if perCall then ((evs.filter (· = .read)).map (fun _ => Mode.plain), shared)
  else (seen shared evs, final shared evs)

/-- a sequence of calls in one process -/
def runCalls (perCall : Bool) : List (Bool × List Ev) → Mode → List (List Mode)
  | [], _ => []
  | (h, evs) :: r, sh => (runCall perCall h evs sh).1 :: runCalls perCall r (runCall perCall h evs sh).2

theorem runCall_perCall_snd (h : Bool) (evs : List Ev) (sh : Mode) : (runCall true h evs sh).2 = sh := by
  unfold runCall; cases h <;> simp

theorem runCall_perCall_fst (h : Bool) (evs : List Ev) (s1 s2 : Mode) :
    (runCall true h evs s1).1 = (runCall true h evs s2).1 := by
  unfold runCall; cases h <;> simp

theorem runCalls_perCall : ∀ (calls : List (Bool × List Ev)) (sh : Mode),
    runCalls true calls sh = calls.map (fun c => (runCall true c.1 c.2 .plain).1)
  | [], _ => rfl
  | (h, evs) :: r, sh => by
    simp only [runCalls, List.map_cons, runCall_perCall_snd, runCalls_perCall r sh]
    rw [runCall_perCall_fst h evs sh .plain]

/-- every `set` of a run is the response reading and the record already holds it: every example check sees it -/
theorem seen_all_res : ∀ (evs : List Ev), (∀ e ∈ evs, e = .read ∨ e = .set .res) → ∀ m ∈ seen .res evs, m = Mode.res
  | [], _, m, hm => by simp [seen] at hm
  | .read :: r, h, m, hm => by
    simp only [seen, List.mem_cons] at hm
    rcases hm with hm | hm
    · exact hm
    · exact seen_all_res r (fun e he => h e (List.mem_cons_of_mem _ he)) m hm
  | .set x :: r, h, m, hm => by
    have hx : x = .res := by
      rcases h (.set x) (List.mem_cons_self ..) with h1 | h1
      · cases h1
      · cases h1; rfl
    subst hx
    simp only [seen] at hm
    exact seen_all_res r (fun e he => h e (List.mem_cons_of_mem _ he)) m hm

/-! ## F-C04-8: with options, the reading set by a response is seen by the parameter examples validated later

The class in which the reading at every example check under `paths` is known without the traversal order inside
`paths`: the call has options and validates examples (one record for the whole run), the document has no request body
anywhere (every `set` of the run is the response reading), `components.responses` is not empty (root validation runs
components before paths, so the record holds the response reading when `paths` is entered — `seen_all_res`), and its
object examples are the `example` of parameters below `paths` that carry no `examples` map. -/

mutual
def nodesOf : Doc → List Doc
  | .node k a kids => .node k a kids :: kidsNodes kids
def kidsNodes : List (String × Doc) → List Doc
  | [] => []
  | (_, c) :: r => nodesOf c ++ kidsNodes r
end

def hasObjVal (d : Doc) : Bool := d.attrs.vals.any (fun kv => match kv.2 with | .obj _ => true | _ => false)

/-- the object values a parameter gives as its `example` -/
def objExampleKeys (d : Doc) : List (List String) :=
  d.attrs.vals.filterMap (fun kv => if kv.1 = "example" then (match kv.2 with | .obj ks => some ks | _ => none) else none)

def stripObjVals (d : Doc) : Doc :=
  .node d.kind { d.attrs with vals := d.attrs.vals.filter (fun kv => match kv.2 with | .obj _ => false | _ => true) } d.kids

def leakClass (hasOpts : Bool) (o : Opts) (d : Doc) : Bool :=
  hasOpts && !o.exDisabled &&
  (nodesOf d).all (fun n => n.kind != .requestBody) &&
  (d.kidsAt "components").any (fun c => c.hasKid "responses") &&
  (d.kidsAt "components").all (fun c => (nodesOf c).all (fun n => !hasObjVal n)) &&
  (nodesOf d).all (fun n => !hasObjVal n || (n.kind = .parameter && !n.attrs.flag "hasExamples" &&
     n.attrs.vals.all (fun kv => match kv.2 with | .obj _ => kv.1 = "example" | _ => true))) &&
  (nodesOf d).any hasObjVal

/-- the local rules inside the class: a parameter's object example is read as a response -/
def localOKres (T : Table) (o : Opts) (d : Doc) (vs : List Bool) : Bool :=
  if d.kind = .parameter && hasObjVal d then
    localOK T o (stripObjVals d) vs &&
      (match schemaAttrsAt d with
       | some a => (objExampleKeys d).all (fun ks => acceptsObj .res a ks != .no)
       | none => true)
  else localOK T o d vs

/-- model of `(*T).Validate` with options on a document of the class -/
def validateRes (T : Table) (o : Opts) (d : Doc) : Bool := descend (localOKres T o) (active T o) d

/-- F-C04-8 witness: `components.responses.R`, `/p` get with query parameter `cred` (schema `aSecret`) whose example is `v` -/
def W.dLeak (v : Val) : Doc :=
  .node .root { strs := [("openapi", "3.0.3")] }
    [("components", .node .components {} [("responses", .node .responseRef { strs := [("key", "R")], flags := ["resolved"] } [("value", W.plainResponse)])]),
     ("info", W.info),
     ("paths", .node .paths {} [("pathItems", W.pathItem "/p" [W.op
        [.node .parameterRef { flags := ["resolved"] }
          [("value", .node .parameter { strs := [("name", "cred"), ("in", "query")], flags := ["hasSchema", "hasExample"], nums := [("content", 0)], vals := [("example", v)] }
            [("schema", W.schemaRefTo (.node .schema W.aSecret []))])]] W.plainResponse])])]

end KinModel.DocValidate
