/-
C04 — the settings record between calls (core-only model file).

`getValidationOptions(ctx)` hands every validation method the settings record of the context, or — when the call was
made without options, so that the context carries none — a fallback. Two methods WRITE to the record they get after
the option list has been folded (`RequestBody.Validate`, `Response.Validate`: the reading of example values), one
reads that field pair (`validateExampleValue`). Whether such a write can be seen later (in the same run, in a later
call of the process) depends only on where the record comes from; that is regenerated from the source as table
`C04OptionState`, and the model below is parameterised by it.

A Validate run is abstracted to the list of its settings accesses in code order (`Ev`): every document and every
traversal order is some such list, so the theorems over all lists cover them all.
-/
import KinModel.DocValidate
import KinModel.Gen.C04OptionState
namespace KinModel.DocValidate

/-- what the table says about the origin of the settings record -/
structure RecordOrigin where
  fallbackFresh : Bool        -- without options, every `getValidationOptions` call returns a new zero record
  globals : Nat               -- package-level variables holding settings (records that outlive a call)
  deriving DecidableEq, Repr

def originOf (rows : List Gen.C04OptionStateRow) : RecordOrigin :=
  { fallbackFresh := (rows.filter (·.kind = "fallback")).map (·.detail) = ["fresh-zero"],
    globals := (rows.filter (·.kind = "global")).length }

/-- the origin in the code under test -/
def codeOrigin : RecordOrigin := originOf Gen.c04OptionState

/-- a record can survive a call -/
def RecordOrigin.perCall (r : RecordOrigin) : Bool := r.fallbackFresh && r.globals == 0

/-- the reading a method leaves in the record it got (from its `write` rows), `none` if it writes nothing -/
def modeWrittenBy (rows : List Gen.C04OptionStateRow) (fn : String) : Option (Option Mode) :=
  let ws := (rows.filter (fun r => r.kind = "write" && r.fn = fn)).map (·.detail)
  if ws = [] then some none
  else if ws = ["examplesValidationAsReq=true", "examplesValidationAsRes=false"] then some (some .req)
  else if ws = ["examplesValidationAsReq=false", "examplesValidationAsRes=true"] then some (some .res)
  else none     -- a write the model does not know

/-- the functions that write to / read from the reading fields -/
def modeWriters (rows : List Gen.C04OptionStateRow) : List String := ((rows.filter (·.kind = "write")).map (·.fn)).eraseDups
def modeReaders (rows : List Gen.C04OptionStateRow) : List String := ((rows.filter (·.kind = "read")).map (·.fn)).eraseDups

/-- a settings access of a run that touches the reading: a request body / response sets it, an example check reads it -/
inductive Ev | set (m : Mode) | read
  deriving DecidableEq, Repr

/-- the readings seen by the example checks of a run whose accesses all hit ONE record that starts as `st` -/
def seen : Mode → List Ev → List Mode
  | _, [] => []
  | _, .set m :: r => seen m r
  | st, .read :: r => st :: seen st r

/-- … and what that record holds afterwards -/
def final : Mode → List Ev → Mode
  | st, [] => st
  | _, .set m :: r => final m r
  | st, .read :: r => final st r

/-- one Validate call. `hasOpts`: the option list is non-empty, so `WithValidationOptions` puts a new record into the
context and every access of the run hits it. Otherwise every access gets what `getValidationOptions` falls back to: a
new zero record each time (`perCall`), or a record that lives as long as the process (`shared`: its content when the
call starts). Result: the readings the example checks of this call see, and the content of the long-lived record after. -/
def runCall (perCall : Bool) (hasOpts : Bool) (evs : List Ev) (shared : Mode) : List Mode × Mode :=
  if hasOpts then (seen .plain evs, shared)
  else if perCall then ((evs.filter (· = .read)).map (fun _ => Mode.plain), shared)
  else (seen shared evs, final shared evs)

/-- a sequence of calls in one process -/
def runCalls (perCall : Bool) : List (Bool × List Ev) → Mode → List (List Mode)
  | [], _ => []
  | (h, evs) :: r, sh => (runCall perCall h evs sh).1 :: runCalls perCall r (runCall perCall h evs sh).2

theorem runCall_perCall_snd (h : Bool) (evs : List Ev) (sh : Mode) : (runCall true h evs sh).2 = sh := by
  unfold runCall; cases h <;> simp

theorem runCall_perCall_fst (h : Bool) (evs : List Ev) (s1 s2 : Mode) :
    (runCall true h evs s1).1 = (runCall true h evs s2).1 := by
  unfold runCall; cases h <;> simp

theorem runCalls_perCall : ∀ (calls : List (Bool × List Ev)) (sh : Mode),
    runCalls true calls sh = calls.map (fun c => (runCall true c.1 c.2 .plain).1)
  | [], _ => rfl
  | (h, evs) :: r, sh => by
    simp only [runCalls, List.map_cons, runCall_perCall_snd, runCalls_perCall r sh]
    rw [runCall_perCall_fst h evs sh .plain]

end KinModel.DocValidate
