/-
C13, part 2 — the value layer: in-place default injection during request-body validation
(openapi3/schema.go: visitJSON, visitXOFOperations, visitJSONArray, visitJSONObject — the block guarded by
`settings.asreq || settings.asrep`, `DefaultsSet`, the deep copy per oneOf/anyOf candidate and the re-run on the
matched branch).

Self-contained schema fragment (every node plays one role):
  leaf  — a scalar type check (`type: number | string | boolean`, or no type);
  obj   — `type: object` with `required`, `properties`, `additionalProperties: true|false`;
  arr   — `type: array` with `items`;
  comb  — a schema that only carries `allOf` / `oneOf` / `anyOf`;
every node has `nullable`, `readOnly` and `default` (the last two matter where the node is a property).

`visit c s v = none` — the body is rejected; `some v'` — accepted and `v'` is the decoded value afterwards (Go mutates
the decoded maps in place; a rejected visit's partial mutations are never seen: either the request is rejected and
nothing is rewritten, or the visit ran on a deep copy).  Branch by branch:
  * null: accepted at once by a nullable schema; otherwise a comb asks its branches (and accepts without looking
    at its own keywords), every other node rejects;
  * obj, on an object: FIRST the defaults (only when `DefaultsSet` is installed, i.e. SkipSettingDefaults is off):
    a property whose key is ABSENT (`_, present := value[propName]; !present` — the repaired code, commit c740938:
    a member that is present with the value null is present) and whose schema has a non-null default gets it,
    unless the property is readOnly (and read-only validation is on); a readOnly property whose key is present
    (null included) is an error; THEN unknown keys need `additionalProperties`, every present property is visited
    with its schema (the injected defaults too; an explicit null is visited as null: a non-nullable property schema
    rejects it), and `required` wants the key to be present (or the property to be readOnly);
  * arr: every item is visited;
  * anyOf: the first branch that accepts a deep copy is run again on the value — value semantics: its result;
    oneOf: exactly one branch must accept a copy, then that one is run on the value; allOf: all branches run on the
    value one after the other; a comb without branches accepts every non-null value.
Not in the fragment: `not`, enum, numeric/string/length keywords, discriminator, additionalProperties schemas.
-/
namespace KinModel.C13.Body

inductive J where
  | null | bool (b : Bool) | num (n : Int) | str (s : String)
  | arr (xs : List J) | obj (kvs : List (String × J))
  deriving Repr, Inhabited

def J.isNull : J → Bool | .null => true | _ => false

mutual
def J.beq : J → J → Bool
  | .null, .null => true
  | .bool a, .bool b => a == b
  | .num a, .num b => a == b
  | .str a, .str b => a == b
  | .arr a, .arr b => J.beqList a b
  | .obj a, .obj b => J.beqKvs a b
  | _, _ => false
def J.beqList : List J → List J → Bool
  | [], [] => true
  | x :: xs, y :: ys => J.beq x y && J.beqList xs ys
  | _, _ => false
def J.beqKvs : List (String × J) → List (String × J) → Bool
  | [], [] => true
  | (k, x) :: xs, (k', y) :: ys => k == k' && J.beq x y && J.beqKvs xs ys
  | _, _ => false
end

inductive Ty | any | number | string | boolean
  deriving DecidableEq, Repr

inductive Kind | allOf | oneOf | anyOf
  deriving DecidableEq, Repr

structure Attr where
  nullable : Bool := false
  readOnly : Bool := false
  dflt : Option J := none
  deriving Repr, Inhabited

inductive S where
  | leaf (a : Attr) (ty : Ty)
  | obj (a : Attr) (required : List String) (props : List (String × S)) (addl : Bool)
  | arr (a : Attr) (items : S)
  | comb (a : Attr) (k : Kind) (bs : List S)
  deriving Repr, Inhabited

def S.attr : S → Attr
  | .leaf a _ => a | .obj a _ _ _ => a | .arr a _ => a | .comb a _ _ => a

/-- validation settings that matter here -/
structure Ctx where
  setDefaults : Bool := true      -- `DefaultsSet` installed (Options.SkipSettingDefaults is off)
  roDisabled : Bool := false      -- Options.ExcludeReadOnlyValidations
  deriving Repr

def lookup (k : String) : List (String × α) → Option α
  | [] => none
  | (k', v) :: r => if k = k' then some v else lookup k r

def setKey (k : String) (v : J) : List (String × J) → List (String × J)
  | [] => [(k, v)]
  | (k', v') :: r => if k = k' then (k, v) :: r else (k', v') :: setKey k v r

def leafOK : Ty → J → Bool
  | .any, _ => true
  | .number, .num _ => true
  | .string, .str _ => true
  | .boolean, .bool _ => true
  | _, _ => false

/-- `reqRO` of visitJSONObject -/
def reqRO (c : Ctx) (a : Attr) : Bool := a.readOnly && !c.roDisabled

/-- does the property slot count as empty for default injection?  Only when the key is absent
    (`_, present := value[propName]; !present`); an explicit null is a present member. -/
def slotEmpty : Option J → Bool
  | none => true
  | some _ => false

/-- the default a property receives, if any (a JSON `null` default is a nil `Default`: none) -/
def dfltFor (c : Ctx) (a : Attr) : Option J :=
  match a.dflt with
  | some d => if d.isNull || reqRO c a then none else some d
  | none => none

/-- one turn of the default-injection loop: property `k` with attributes `a` -/
def injectStep (c : Ctx) (k : String) (a : Attr) (kvs : List (String × J)) : List (String × J) :=
  if slotEmpty (lookup k kvs) then (match dfltFor c a with | some d => setKey k d kvs | none => kvs) else kvs

/-- the default-injection loop at the head of visitJSONObject -/
def injectDefaults (c : Ctx) : List (String × S) → List (String × J) → List (String × J)
  | [], kvs => kvs
  | (k, s) :: ps, kvs => injectDefaults c ps (injectStep c k s.attr kvs)

/-- "readOnly property in request": some read-only property is present — whatever its value, null included
    (repaired code: the check tests the presence of the key) -/
def roViolation (c : Ctx) (props : List (String × S)) (kvs : List (String × J)) : Bool :=
  props.any (fun p => reqRO c p.2.attr && (lookup p.1 kvs).isSome)

def addlOK (addl : Bool) (props : List (String × S)) (kvs : List (String × J)) : Bool :=
  kvs.all (fun kv => addl || (lookup kv.1 props).isSome)

def requiredOK (req : List String) (props : List (String × S)) (kvs : List (String × J)) : Bool :=
  req.all (fun k => (lookup k kvs).isSome || (match lookup k props with | some s => s.attr.readOnly | none => false))

/-- the members after the default-injection loop (which only runs when `DefaultsSet` is installed) -/
def defaulted (c : Ctx) (props : List (String × S)) (kvs : List (String × J)) : List (String × J) :=
  if c.setDefaults then injectDefaults c props kvs else kvs

/-- the three object-level checks of visitJSONObject (they look at the members after the defaults) -/
def objChecks (c : Ctx) (req : List String) (props : List (String × S)) (addl : Bool) (kvs1 : List (String × J)) : Bool :=
  !roViolation c props kvs1 && addlOK addl props kvs1 && requiredOK req props kvs1

/-- everything visitJSONObject does that does not descend: defaults, then the three object-level checks -/
def objPre (c : Ctx) (req : List String) (props : List (String × S)) (addl : Bool) (kvs : List (String × J)) :
    Option (List (String × J)) :=
  if objChecks c req props addl (defaulted c props kvs) then some (defaulted c props kvs) else none

def mapOpt (f : J → Option J) : List J → Option (List J)
  | [] => some []
  | x :: xs => (f x).bind (fun y => (mapOpt f xs).map (fun ys => y :: ys))

/-- anyOf: first match; oneOf: exactly one match -/
def pick (k : Kind) (matches_ : List J) : Option J :=
  match k, matches_ with
  | .anyOf, x :: _ => some x
  | .oneOf, [x] => some x
  | _, _ => none

/-- a composition node, given what its branches answer: a nullable node accepts null at once; without branches every
    non-null value passes; allOf is the chained result, anyOf the first match, oneOf the only match -/
def combRes (a : Attr) (k : Kind) (noBranches : Bool) (v : J) (all : Option J) (matches_ : List J) : Option J :=
  if v.isNull && a.nullable then some v
  else if noBranches then (if v.isNull then none else some v)
  else match k with
    | .allOf => all
    | k => pick k matches_

mutual
def visit (c : Ctx) : S → J → Option J
  | .leaf a ty, v =>
    if v.isNull then (if a.nullable then some v else none)
    else if leafOK ty v then some v else none
  | .obj a req props addl, v =>
    match v with
    | .null => if a.nullable then some .null else none
    | .obj kvs => (objPre c req props addl kvs).bind (fun kvs1 => (visitProps c props kvs1).map J.obj)
    | _ => none
  | .arr a items, v =>
    match v with
    | .null => if a.nullable then some .null else none
    | .arr xs => (mapOpt (fun x => visit c items x) xs).map J.arr
    | _ => none
  | .comb a k bs, v => combRes a k bs.isEmpty v (visitAll c bs v) (visitMatches c bs v)
/-- the present properties, visited with their schemas (value after the visits) -/
def visitProps (c : Ctx) : List (String × S) → List (String × J) → Option (List (String × J))
  | [], kvs => some kvs
  | (k, s) :: ps, kvs =>
    match lookup k kvs with
    | none => visitProps c ps kvs
    | some x => (visit c s x).bind (fun x' => visitProps c ps (setKey k x' kvs))
/-- results of the branches that accept (each on its own deep copy) -/
def visitMatches (c : Ctx) : List S → J → List J
  | [], _ => []
  | b :: bs, v => (visit c b v).toList ++ visitMatches c bs v
/-- allOf: the branches run on the value one after the other -/
def visitAll (c : Ctx) : List S → J → Option J
  | [], v => some v
  | b :: bs, v => (visit c b v).bind (fun v' => visitAll c bs v')
end

def accepts (c : Ctx) (s : S) (v : J) : Bool := (visit c s v).isSome

/-! ### did the visit set a default in the value — the `DefaultsSet` callback

`settings.onceSettingDefaults.Do(settings.defaultsSet)` runs where visitJSONObject writes a default while
`settings.trial == 0`, i.e. NOT while a oneOf/anyOf candidate is tried on its private deep copy (repaired code, commit
6a3f133: under a request reading every candidate runs on a copy); it does run when the matched branch is run again on
the value itself, and for every allOf member.  ValidateRequestBody looks at the callback only after an ACCEPTED visit
and re-encodes the body iff it ran.  `touched` follows the accepted visit: the defaults loop of an object, then its
members (each on the value its own visit is given), the items of an array, the branch that is run again (the first
accepting one), the allOf chain.  For a rejected visit its value means nothing. -/

def anyItem (f : J → Bool) : List J → Bool
  | [] => false
  | x :: r => f x || anyItem f r

mutual
def touched (c : Ctx) : S → J → Bool
  | .leaf _ _, _ => false
  | .obj _ _ props _, v =>
    match v with
    | .obj kvs =>
      (c.setDefaults && (defaulted c props kvs).length != kvs.length) || touchedProps c props (defaulted c props kvs)
    | _ => false
  | .arr _ items, v =>
    match v with
    | .arr xs => anyItem (fun x => touched c items x) xs
    | _ => false
  | .comb _ k bs, v =>
    if v.isNull then false
    else match k with
      | .allOf => touchedChain c bs v
      | _ => touchedMatched c bs v
/-- the members, as `visitProps` goes through them -/
def touchedProps (c : Ctx) : List (String × S) → List (String × J) → Bool
  | [], _ => false
  | (k, s) :: ps, kvs =>
    match lookup k kvs with
    | none => touchedProps c ps kvs
    | some x => touched c s x || (match visit c s x with | some x' => touchedProps c ps (setKey k x' kvs) | none => false)
/-- the branch that is run again on the value: the first accepting one -/
def touchedMatched (c : Ctx) : List S → J → Bool
  | [], _ => false
  | b :: bs, v => if (visit c b v).isSome then touched c b v else touchedMatched c bs v
def touchedChain (c : Ctx) : List S → J → Bool
  | [], _ => false
  | b :: bs, v => touched c b v || (match visit c b v with | some v1 => touchedChain c bs v1 | none => false)
end

mutual
/-- number of nodes of a value: defaults only ever add members, so it never shrinks and grows iff something was set -/
def J.size : J → Nat
  | .arr xs => 1 + sizeList xs
  | .obj kvs => 1 + sizeKvs kvs
  | _ => 1
def sizeList : List J → Nat
  | [] => 0
  | x :: r => x.size + sizeList r
def sizeKvs : List (String × J) → Nat
  | [] => 0
  | (_, x) :: r => x.size + sizeKvs r
end

/-- the value after `n` validations (each one must accept) -/
def visitN (c : Ctx) (s : S) : Nat → J → Option J
  | 0, v => some v
  | n + 1, v => (visit c s v).bind (visitN c s n)

/-! ### what the exclusion classes and the spec speak about -/

mutual
/-- the schema contains an allOf/oneOf/anyOf node -/
def hasComb : S → Bool
  | .leaf _ _ => false
  | .obj _ _ props _ => hasCombProps props
  | .arr _ items => hasComb items
  | .comb _ _ _ => true
def hasCombProps : List (String × S) → Bool
  | [] => false
  | (_, s) :: r => hasComb s || hasCombProps r
end

def keysNodup : List String → Bool
  | [] => true
  | k :: r => !r.contains k && keysNodup r

mutual
/-- property names of every object node are distinct (they are the keys of a Go map) -/
def wf : S → Bool
  | .leaf _ _ => true
  | .obj _ _ props _ => keysNodup (props.map (·.1)) && wfProps props
  | .arr _ items => wf items
  | .comb _ _ bs => wfList bs
def wfProps : List (String × S) → Bool
  | [] => true
  | (_, s) :: r => wf s && wfProps r
def wfList : List S → Bool
  | [] => true
  | s :: r => wf s && wfList r
end

/-! ### Spec (from the property text)

"Each absent body property that has a schema default appears in the forwarded request with that default and nothing
else changes … Defaults from a oneOf/anyOf branch that did not match are never applied."  Read as a function: an
object is forwarded with its received members, followed by ONE new member for each property that is absent and has an
applicable default (no loop, no overwriting); the members are then forwarded by their own property schemas; arrays
item by item; `anyOf` forwards what its first accepting branch forwards, `oneOf` what its only accepting branch
forwards, `allOf` what its members forward one after the other.  Written independently of `injectDefaults`/`setKey`. -/

/-- one new member for each ABSENT property with an applicable default, in the order of the properties -/
def absentDefaults (c : Ctx) : List (String × S) → List (String × J) → List (String × J)
  | [], _ => []
  | (k, s) :: ps, kvs =>
    match lookup k kvs, dfltFor c s.attr with
    | none, some d => (k, d) :: absentDefaults c ps kvs
    | _, _ => absentDefaults c ps kvs

def specDefaulted (c : Ctx) (props : List (String × S)) (kvs : List (String × J)) : List (String × J) :=
  if c.setDefaults then kvs ++ absentDefaults c props kvs else kvs

def specObjPre (c : Ctx) (req : List String) (props : List (String × S)) (addl : Bool) (kvs : List (String × J)) :
    Option (List (String × J)) :=
  if objChecks c req props addl (specDefaulted c props kvs) then some (specDefaulted c props kvs) else none

mutual
def specVisit (c : Ctx) : S → J → Option J
  | .leaf a ty, v =>
    if v.isNull then (if a.nullable then some v else none)
    else if leafOK ty v then some v else none
  | .obj a req props addl, v =>
    match v with
    | .null => if a.nullable then some .null else none
    | .obj kvs => (specObjPre c req props addl kvs).bind (fun kvs1 => (specVisitProps c props kvs1).map J.obj)
    | _ => none
  | .arr a items, v =>
    match v with
    | .null => if a.nullable then some .null else none
    | .arr xs => (mapOpt (fun x => specVisit c items x) xs).map J.arr
    | _ => none
  | .comb a k bs, v => combRes a k bs.isEmpty v (specVisitAll c bs v) (specVisitMatches c bs v)
def specVisitProps (c : Ctx) : List (String × S) → List (String × J) → Option (List (String × J))
  | [], kvs => some kvs
  | (k, s) :: ps, kvs =>
    match lookup k kvs with
    | none => specVisitProps c ps kvs
    | some x => (specVisit c s x).bind (fun x' => specVisitProps c ps (setKey k x' kvs))
def specVisitMatches (c : Ctx) : List S → J → List J
  | [], _ => []
  | b :: bs, v => (specVisit c b v).toList ++ specVisitMatches c bs v
def specVisitAll (c : Ctx) : List S → J → Option J
  | [], v => some v
  | b :: bs, v => (specVisit c b v).bind (fun v' => specVisitAll c bs v')
end

/-- finding #37: with compositions in the schema, validating the forwarded value again gives something else -/
def BranchShift (c : Ctx) (s : S) (v : J) : Bool :=
  hasComb s && (match visit c s v with
    | some v' => (match visit c s v' with | some v'' => !(J.beq v'' v') | none => true)
    | none => false)

end KinModel.C13.Body
