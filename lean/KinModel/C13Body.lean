/-
C13, part 2 — the value layer: in-place default injection during request-body validation
(openapi3/schema.go: visitJSON, visitXOFOperations, visitJSONArray, visitJSONObject — the block guarded by
`settings.asreq || settings.asrep`, `DefaultsSet`, the deep copy per oneOf/anyOf candidate and the re-run on the
matched branch).

Self-contained schema fragment (every node plays one role):
  leaf  — a scalar type check (`type: number | string | boolean`, or no type);
  obj   — `type: object` with `required`, `properties`, `additionalProperties: true|false`;
  arr   — `type: array` with `items`;
  comb  — a schema that only carries `allOf` / `oneOf` / `anyOf`;
every node has `nullable`, `readOnly` and `default` (the last two matter where the node is a property).

`visit c s v = none` — the body is rejected; `some v'` — accepted and `v'` is the decoded value afterwards (Go mutates
the decoded maps in place; a rejected visit's partial mutations are never seen: either the request is rejected and
nothing is rewritten, or the visit ran on a deep copy).  Branch by branch:
  * null: accepted at once by a nullable schema; otherwise a comb asks its branches (and accepts without looking
    at its own keywords), every other node rejects;
  * obj, on an object: FIRST the defaults (only when `DefaultsSet` is installed, i.e. SkipSettingDefaults is off):
    a property whose key is ABSENT (`_, present := value[propName]; !present` — the repaired code, commit c740938:
    a member that is present with the value null is present) and whose schema has a non-null default gets it,
    unless the property is readOnly (and read-only validation is on); a readOnly property whose key is present
    (null included) is an error; THEN unknown keys need `additionalProperties`, every present property is visited
    with its schema (the injected defaults too; an explicit null is visited as null: a non-nullable property schema
    rejects it), and `required` wants the key to be present (or the property to be readOnly);
  * arr: every item is visited;
  * anyOf: the first branch that accepts a deep copy is run again on the value — value semantics: its result;
    oneOf: exactly one branch must accept a copy, then that one is run on the value; allOf: all branches run on the
    value one after the other; a comb without branches accepts every non-null value.
Not in the fragment: `not`, enum, numeric/string/length keywords, discriminator, additionalProperties schemas.
-/
namespace KinModel.C13.Body

inductive J where
  | null | bool (b : Bool) | num (n : Int) | str (s : String)
  | arr (xs : List J) | obj (kvs : List (String × J))
  deriving Repr, Inhabited

def J.isNull : J → Bool | .null => true | _ => false

mutual
def J.beq : J → J → Bool
  | .null, .null => true
  | .bool a, .bool b => a == b
  | .num a, .num b => a == b
  | .str a, .str b => a == b
  | .arr a, .arr b => J.beqList a b
  | .obj a, .obj b => J.beqKvs a b
  | _, _ => false
def J.beqList : List J → List J → Bool
  | [], [] => true
  | x :: xs, y :: ys => J.beq x y && J.beqList xs ys
  | _, _ => false
def J.beqKvs : List (String × J) → List (String × J) → Bool
  | [], [] => true
  | (k, x) :: xs, (k', y) :: ys => k == k' && J.beq x y && J.beqKvs xs ys
  | _, _ => false
end

inductive Ty | any | number | string | boolean
  deriving DecidableEq, Repr

inductive Kind | allOf | oneOf | anyOf
  deriving DecidableEq, Repr

structure Attr where
  nullable : Bool := false
  readOnly : Bool := false
  dflt : Option J := none
  deriving Repr, Inhabited

inductive S where
  | leaf (a : Attr) (ty : Ty)
  | obj (a : Attr) (required : List String) (props : List (String × S)) (addl : Bool)
  | arr (a : Attr) (items : S)
  | comb (a : Attr) (k : Kind) (bs : List S)
  deriving Repr, Inhabited

def S.attr : S → Attr
  | .leaf a _ => a | .obj a _ _ _ => a | .arr a _ => a | .comb a _ _ => a

/-- validation settings that matter here -/
structure Ctx where
  setDefaults : Bool := true      -- `DefaultsSet` installed (Options.SkipSettingDefaults is off)
  roDisabled : Bool := false      -- Options.ExcludeReadOnlyValidations
  multi : Bool := false           -- Options.MultiError: a failing member does not end the visit of its object / array
  deriving Repr

def lookup (k : String) : List (String × α) → Option α
  | [] => none
  | (k', v) :: r => if k = k' then some v else lookup k r

def setKey (k : String) (v : J) : List (String × J) → List (String × J)
  | [] => [(k, v)]
  | (k', v') :: r => if k = k' then (k, v) :: r else (k', v') :: setKey k v r

def leafOK : Ty → J → Bool
  | .any, _ => true
  | .number, .num _ => true
  | .string, .str _ => true
  | .boolean, .bool _ => true
  | _, _ => false

/-- `reqRO` of visitJSONObject -/
def reqRO (c : Ctx) (a : Attr) : Bool := a.readOnly && !c.roDisabled

/-- does the property slot count as empty for default injection?  Only when the key is absent
    (`_, present := value[propName]; !present`); an explicit null is a present member. -/
def slotEmpty : Option J → Bool
  | none => true
  | some _ => false

/-- the default a property receives, if any (a JSON `null` default is a nil `Default`: none) -/
def dfltFor (c : Ctx) (a : Attr) : Option J :=
  match a.dflt with
  | some d => if d.isNull || reqRO c a then none else some d
  | none => none

/-- one turn of the default-injection loop: property `k` with attributes `a` -/
def injectStep (c : Ctx) (k : String) (a : Attr) (kvs : List (String × J)) : List (String × J) :=
  if slotEmpty (lookup k kvs) then (match dfltFor c a with | some d => setKey k d kvs | none => kvs) else kvs

/-- the default-injection loop at the head of visitJSONObject -/
def injectDefaults (c : Ctx) : List (String × S) → List (String × J) → List (String × J)
  | [], kvs => kvs
  | (k, s) :: ps, kvs => injectDefaults c ps (injectStep c k s.attr kvs)

/-- "readOnly property in request": some read-only property is present — whatever its value, null included
    (repaired code: the check tests the presence of the key) -/
def roViolation (c : Ctx) (props : List (String × S)) (kvs : List (String × J)) : Bool :=
  props.any (fun p => reqRO c p.2.attr && (lookup p.1 kvs).isSome)

def addlOK (addl : Bool) (props : List (String × S)) (kvs : List (String × J)) : Bool :=
  kvs.all (fun kv => addl || (lookup kv.1 props).isSome)

def requiredOK (req : List String) (props : List (String × S)) (kvs : List (String × J)) : Bool :=
  req.all (fun k => (lookup k kvs).isSome || (match lookup k props with | some s => s.attr.readOnly | none => false))

/-- the members after the default-injection loop (which only runs when `DefaultsSet` is installed) -/
def defaulted (c : Ctx) (props : List (String × S)) (kvs : List (String × J)) : List (String × J) :=
  if c.setDefaults then injectDefaults c props kvs else kvs

/-- the three object-level checks of visitJSONObject (they look at the members after the defaults) -/
def objChecks (c : Ctx) (req : List String) (props : List (String × S)) (addl : Bool) (kvs1 : List (String × J)) : Bool :=
  !roViolation c props kvs1 && addlOK addl props kvs1 && requiredOK req props kvs1

/-- everything visitJSONObject does that does not descend: defaults, then the three object-level checks -/
def objPre (c : Ctx) (req : List String) (props : List (String × S)) (addl : Bool) (kvs : List (String × J)) :
    Option (List (String × J)) :=
  if objChecks c req props addl (defaulted c props kvs) then some (defaulted c props kvs) else none

def mapOpt (f : J → Option J) : List J → Option (List J)
  | [] => some []
  | x :: xs => (f x).bind (fun y => (mapOpt f xs).map (fun ys => y :: ys))

/-- anyOf: first match; oneOf: exactly one match -/
def pick (k : Kind) (matches_ : List J) : Option J :=
  match k, matches_ with
  | .anyOf, x :: _ => some x
  | .oneOf, [x] => some x
  | _, _ => none

/-- a composition node, given what its branches answer: a nullable node accepts null at once; without branches every
    non-null value passes; allOf is the chained result, anyOf the first match, oneOf the only match -/
def combRes (a : Attr) (k : Kind) (noBranches : Bool) (v : J) (all : Option J) (matches_ : List J) : Option J :=
  if v.isNull && a.nullable then some v
  else if noBranches then (if v.isNull then none else some v)
  else match k with
    | .allOf => all
    | k => pick k matches_

mutual
def visit (c : Ctx) : S → J → Option J
  | .leaf a ty, v =>
    if v.isNull then (if a.nullable then some v else none)
    else if leafOK ty v then some v else none
  | .obj a req props addl, v =>
    match v with
    | .null => if a.nullable then some .null else none
    | .obj kvs => (objPre c req props addl kvs).bind (fun kvs1 => (visitProps c props kvs1).map J.obj)
    | _ => none
  | .arr a items, v =>
    match v with
    | .null => if a.nullable then some .null else none
    | .arr xs => (mapOpt (fun x => visit c items x) xs).map J.arr
    | _ => none
  | .comb a k bs, v => combRes a k bs.isEmpty v (visitAll c bs v) (visitMatches c bs v)
/-- the present properties, visited with their schemas (value after the visits) -/
def visitProps (c : Ctx) : List (String × S) → List (String × J) → Option (List (String × J))
  | [], kvs => some kvs
  | (k, s) :: ps, kvs =>
    match lookup k kvs with
    | none => visitProps c ps kvs
    | some x => (visit c s x).bind (fun x' => visitProps c ps (setKey k x' kvs))
/-- results of the branches that accept (each on its own deep copy) -/
def visitMatches (c : Ctx) : List S → J → List J
  | [], _ => []
  | b :: bs, v => (visit c b v).toList ++ visitMatches c bs v
/-- allOf: the branches run on the value one after the other -/
def visitAll (c : Ctx) : List S → J → Option J
  | [], v => some v
  | b :: bs, v => (visit c b v).bind (fun v' => visitAll c bs v')
end

def accepts (c : Ctx) (s : S) (v : J) : Bool := (visit c s v).isSome

/-! ### did the visit set a default ANYWHERE — the `DefaultsSet` callback

`settings.onceSettingDefaults.Do(settings.defaultsSet)` runs wherever visitJSONObject writes a default: into the value
itself, but also into the private deep copy a oneOf/anyOf candidate is tried on, whether or not that candidate then
accepts.  ValidateRequestBody re-encodes the body iff the callback ran.  `touched` follows the traversal of the code,
early exits included (a rejected visit is what happens inside a discarded candidate):
  * object on an object value: the defaults loop runs first; then the members are visited in the order of their keys;
    without MultiError the first failing member ends the visit, and so does the first key without a property schema
    when additional properties are forbidden (members with greater keys are not visited any more);
  * array: items in order, the first failing one ends the visit (without MultiError);
  * oneOf: every branch is tried; anyOf: the branches up to the first accepting one; allOf: the members in order, on the
    value as the earlier ones left it, up to the first failing one; the second run on the matched branch sets the
    defaults the trial run of that branch set;
  * null, scalars, type mismatches: nothing is visited.
Needs the property lists sorted by name (they are the sorted keys of a Go map; the driver sorts them). -/

/-- the smallest key of the value that has no property schema -/
def firstUnknown (props : List (String × S)) : List (String × J) → Option String
  | [] => none
  | (k, _) :: r =>
    match firstUnknown props r with
    | none => if (lookup k props).isSome then none else some k
    | some m => if (lookup k props).isSome then some m else (if k < m then some k else some m)

/-- the key at which the member loop of visitJSONObject returns "property … is unsupported", if it gets that far -/
def stopKey (c : Ctx) (addl : Bool) (props : List (String × S)) (kvs1 : List (String × J)) : Option String :=
  if addl || c.multi then none else firstUnknown props kvs1

def beyond (stop : Option String) (k : String) : Bool := match stop with | some u => u < k | none => false

/-- `f` on the items in order, up to and including the first item on which `ends` holds -/
def anyUntil (f ends : J → Bool) : List J → Bool
  | [] => false
  | x :: r => f x || (if ends x then false else anyUntil f ends r)

mutual
def touched (c : Ctx) : S → J → Bool
  | .leaf _ _, _ => false
  | .obj _ _ props addl, v =>
    match v with
    | .obj kvs =>
      (c.setDefaults && (defaulted c props kvs).length != kvs.length) ||
        touchedProps c (stopKey c addl props (defaulted c props kvs)) props (defaulted c props kvs)
    | _ => false
  | .arr _ items, v =>
    match v with
    | .arr xs => anyUntil (fun x => touched c items x) (fun x => (visit c items x).isNone && !c.multi) xs
    | _ => false
  | .comb _ k bs, v =>
    if v.isNull then false
    else match k with
      | .oneOf => touchedEach c bs v
      | .anyOf => touchedUntilMatch c bs v
      | .allOf => touchedChain c bs v
def touchedProps (c : Ctx) (stop : Option String) : List (String × S) → List (String × J) → Bool
  | [], _ => false
  | (k, s) :: ps, kvs1 =>
    match lookup k kvs1 with
    | none => touchedProps c stop ps kvs1
    | some x =>
      if beyond stop k then false
      else touched c s x || (if (visit c s x).isNone && !c.multi then false else touchedProps c stop ps kvs1)
def touchedEach (c : Ctx) : List S → J → Bool
  | [], _ => false
  | b :: bs, v => touched c b v || touchedEach c bs v
def touchedUntilMatch (c : Ctx) : List S → J → Bool
  | [], _ => false
  | b :: bs, v => touched c b v || (if (visit c b v).isSome then false else touchedUntilMatch c bs v)
def touchedChain (c : Ctx) : List S → J → Bool
  | [], _ => false
  | b :: bs, v => touched c b v || (match visit c b v with | some v1 => touchedChain c bs v1 | none => false)
end

/-- the property names of every object node are in ascending order -/
def sortedKeys : List String → Bool
  | [] => true
  | [_] => true
  | a :: b :: r => a < b && sortedKeys (b :: r)

/-- the value after `n` validations (each one must accept) -/
def visitN (c : Ctx) (s : S) : Nat → J → Option J
  | 0, v => some v
  | n + 1, v => (visit c s v).bind (visitN c s n)

/-! ### what the exclusion classes and the spec speak about -/

mutual
/-- the schema contains an allOf/oneOf/anyOf node -/
def hasComb : S → Bool
  | .leaf _ _ => false
  | .obj _ _ props _ => hasCombProps props
  | .arr _ items => hasComb items
  | .comb _ _ _ => true
def hasCombProps : List (String × S) → Bool
  | [] => false
  | (_, s) :: r => hasComb s || hasCombProps r
end

def keysNodup : List String → Bool
  | [] => true
  | k :: r => !r.contains k && keysNodup r

mutual
/-- property names of every object node are distinct (they are the keys of a Go map) -/
def wf : S → Bool
  | .leaf _ _ => true
  | .obj _ _ props _ => keysNodup (props.map (·.1)) && wfProps props
  | .arr _ items => wf items
  | .comb _ _ bs => wfList bs
def wfProps : List (String × S) → Bool
  | [] => true
  | (_, s) :: r => wf s && wfProps r
def wfList : List S → Bool
  | [] => true
  | s :: r => wf s && wfList r
end

/-! ### Spec (from the property text)

"Each absent body property that has a schema default appears in the forwarded request with that default and nothing
else changes … Defaults from a oneOf/anyOf branch that did not match are never applied."  Read as a function: an
object is forwarded with its received members, followed by ONE new member for each property that is absent and has an
applicable default (no loop, no overwriting); the members are then forwarded by their own property schemas; arrays
item by item; `anyOf` forwards what its first accepting branch forwards, `oneOf` what its only accepting branch
forwards, `allOf` what its members forward one after the other.  Written independently of `injectDefaults`/`setKey`. -/

/-- one new member for each ABSENT property with an applicable default, in the order of the properties -/
def absentDefaults (c : Ctx) : List (String × S) → List (String × J) → List (String × J)
  | [], _ => []
  | (k, s) :: ps, kvs =>
    match lookup k kvs, dfltFor c s.attr with
    | none, some d => (k, d) :: absentDefaults c ps kvs
    | _, _ => absentDefaults c ps kvs

def specDefaulted (c : Ctx) (props : List (String × S)) (kvs : List (String × J)) : List (String × J) :=
  if c.setDefaults then kvs ++ absentDefaults c props kvs else kvs

def specObjPre (c : Ctx) (req : List String) (props : List (String × S)) (addl : Bool) (kvs : List (String × J)) :
    Option (List (String × J)) :=
  if objChecks c req props addl (specDefaulted c props kvs) then some (specDefaulted c props kvs) else none

mutual
def specVisit (c : Ctx) : S → J → Option J
  | .leaf a ty, v =>
    if v.isNull then (if a.nullable then some v else none)
    else if leafOK ty v then some v else none
  | .obj a req props addl, v =>
    match v with
    | .null => if a.nullable then some .null else none
    | .obj kvs => (specObjPre c req props addl kvs).bind (fun kvs1 => (specVisitProps c props kvs1).map J.obj)
    | _ => none
  | .arr a items, v =>
    match v with
    | .null => if a.nullable then some .null else none
    | .arr xs => (mapOpt (fun x => specVisit c items x) xs).map J.arr
    | _ => none
  | .comb a k bs, v => combRes a k bs.isEmpty v (specVisitAll c bs v) (specVisitMatches c bs v)
def specVisitProps (c : Ctx) : List (String × S) → List (String × J) → Option (List (String × J))
  | [], kvs => some kvs
  | (k, s) :: ps, kvs =>
    match lookup k kvs with
    | none => specVisitProps c ps kvs
    | some x => (specVisit c s x).bind (fun x' => specVisitProps c ps (setKey k x' kvs))
def specVisitMatches (c : Ctx) : List S → J → List J
  | [], _ => []
  | b :: bs, v => (specVisit c b v).toList ++ specVisitMatches c bs v
def specVisitAll (c : Ctx) : List S → J → Option J
  | [], v => some v
  | b :: bs, v => (specVisit c b v).bind (fun v' => specVisitAll c bs v')
end

/-- F-C13-11: the `DefaultsSet` callback ran although the accepted value is unchanged — a default was written only into
    the private copy of a oneOf/anyOf candidate that was then discarded — so the body is re-encoded (other bytes, same
    value) or, without an encoder, the valid request is rejected -/
def DiscardedCandidateTouches (c : Ctx) (s : S) (v : J) : Bool :=
  touched c s v && (match visit c s v with | some v' => J.beq v' v | none => false)

/-- finding #37: with compositions in the schema, validating the forwarded value again gives something else -/
def BranchShift (c : Ctx) (s : S) (v : J) : Bool :=
  hasComb s && (match visit c s v with
    | some v' => (match visit c s v' with | some v'' => !(J.beq v'' v') | none => true)
    | none => false)

end KinModel.C13.Body
