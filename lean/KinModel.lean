import KinModel.Request
