#check @List.pairwise_flatMap
#check @List.pairwise_map
#check @List.pairwise_append
#check @List.Pairwise.imp
