/- Line-protocol driver: one JSON request per line on stdin, one JSON reply per line on stdout. -/
import KinModel.Drv.All
open Lean

partial def loop (hin hout : IO.FS.Stream) : IO Unit := do
  let line ← hin.getLine
  if line.isEmpty then return ()
  let reply := match Json.parse line with
    | .error e => Json.mkObj [("error", Json.str s!"parse: {e}")]
    | .ok j => KinModel.Drv.dispatch j
  hout.putStrLn reply.compress
  hout.flush
  loop hin hout

def main : IO Unit := do
  loop (← IO.getStdin) (← IO.getStdout)
