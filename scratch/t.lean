import KinModel.Lemmas.C03Normal
open KinModel.Marshal
example : ¬ (JV.obj [("a", .num 1 0)]).same (.obj [("a", .num 2 0)]) := by
  simp [JV.same, sameO, lookup]
example : ¬ (JV.obj [("a", .num 1 0), ("b", .null)]).same (.obj [("a", .num 1 0)]) := by
  simp [JV.same, sameO, lookup]
example : ¬ (JV.obj [("a", .num 1 0)]).same (.obj [("a", .num 1 0), ("b", .null)]) := by
  simp [JV.same, sameO, lookup]
  exact ⟨"b", by simp⟩
example : (JV.obj [("a", .num 1 0), ("b", .null)]).same (.obj [("b", .null), ("a", .num 1 0)]) := by
  simp [JV.same, sameO, lookup]
  intro k
  by_cases h1 : k = "a" <;> by_cases h2 : k = "b" <;> simp [h1, h2]
#print axioms rt_ninv
#print axioms rt_inv
