import KinModel.Lemmas.C03
import KinModel.Gen.Descriptors
open KinModel.Marshal KinModel.Gen
#eval (descriptors.filter (fun d => !d.agree)).map (·.name)
#eval (descriptors.filter (fun d => !d.agree)).map (fun d => (d.marsh.filter (fun m => !marshFieldOK compat d m)).map (·.key))
#eval (descriptors.filter (fun d => !d.agree)).map (fun d => (alwaysKeys d, specRequired d.name))
