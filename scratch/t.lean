import KinModel.Lemmas.C03Deep
open KinModel.Marshal
#print axioms field_fix
#print axioms stepMaplike_idem
